import SodiumModel.Model.Pwhash
import SodiumModel.Proofs.ByteDecide
import SodiumModel.Proofs.Codecs
/-
  Helper lemmas for C08 (password hashing): decimal fields, Base64 fields, the hash-string
  encoder/decoder of argon2-encoding.c, limits, memory rounding.
-/
open Sodium Sodium.Model Sodium.Model.Pwhash Sodium.Spec.Base64
namespace Sodium.PwhashP

/-! ### decode_decimal -/


def isDigit (c : UInt8) : Bool := 48 ≤ c && c ≤ 57

/-- value of a digit string read after an accumulator `a` -/
def digitsValAcc : Bytes → Nat → Nat
  | [], a => a
  | c :: r, a => digitsValAcc r (a * 10 + (c.toNat - 48))
def digitsVal (ds : Bytes) : Nat := digitsValAcc ds 0

theorem digitsValAcc_ge (ds : Bytes) : ∀ a, a ≤ digitsValAcc ds a := by
  induction ds with
  | nil => intro a; simp [digitsValAcc]
  | cons c r ih =>
    intro a
    have := ih (a * 10 + (c.toNat - 48))
    simp only [digitsValAcc] at this ⊢
    omega

set_option maxRecDepth 100000 in
theorem isDigit_tbl : ∀ c : UInt8, (isDigit c = true ↔ ¬ (c < 48 ∨ c > 57)) ∧
    (isDigit c = true → 48 ≤ c.toNat ∧ c.toNat ≤ 57 ∧ ((c - 48).toUInt64).toNat = c.toNat - 48) := by decide +kernel

theorem isDigit_iff (c : UInt8) : isDigit c = true ↔ ¬ (c < 48 ∨ c > 57) := (isDigit_tbl c).1

theorem u64max : (0xFFFFFFFFFFFFFFFF : UInt64).toNat = 18446744073709551615 := rfl
theorem u64max10 : ((0xFFFFFFFFFFFFFFFF : UInt64) / 10).toNat = 1844674407370955161 := rfl

theorem loop_spec : ∀ (s : Bytes) (acc : UInt64),
    decodeDecimalLoop s acc =
      if digitsValAcc (s.takeWhile isDigit) acc.toNat < 2 ^ 64
      then some (UInt64.ofNat (digitsValAcc (s.takeWhile isDigit) acc.toNat), s.dropWhile isDigit) else none := by
  intro s
  induction s with
  | nil =>
    intro acc
    have := acc.toNat_lt
    simp [decodeDecimalLoop, digitsValAcc, this]
  | cons c r ih =>
    intro acc
    have hacc := acc.toNat_lt
    rw [decodeDecimalLoop]
    by_cases hd : isDigit c = true
    · have hnd := (isDigit_iff c).mp hd
      rw [if_neg hnd]
      simp only [List.takeWhile_cons, List.dropWhile_cons, hd, if_true, digitsValAcc]
      obtain ⟨hc1, hc2, hdv⟩ := (isDigit_tbl c).2 hd
      have hge := digitsValAcc_ge (r.takeWhile isDigit) (acc.toNat * 10 + (c.toNat - 48))
      by_cases h1 : acc > (0xFFFFFFFFFFFFFFFF : UInt64) / 10
      · rw [if_pos h1]
        have : acc.toNat > 1844674407370955161 := by
          have := UInt64.lt_iff_toNat_lt.mp h1; rw [u64max10] at this; exact this
        rw [if_neg (by omega)]
      · rw [if_neg h1]
        have h1' : acc.toNat ≤ 1844674407370955161 := by
          have := (not_congr UInt64.lt_iff_toNat_lt).mp h1; rw [u64max10] at this; omega
        have hmul : (acc * 10).toNat = acc.toNat * 10 := by
          rw [UInt64.toNat_mul]; simp; omega
        have hsub : ((0xFFFFFFFFFFFFFFFF : UInt64) - acc * 10).toNat = 18446744073709551615 - acc.toNat * 10 := by
          rw [UInt64.toNat_sub_of_le _ _ (by rw [UInt64.le_iff_toNat_le, hmul, u64max]; omega), hmul, u64max]
        by_cases h2 : (c - 48).toUInt64 > (0xFFFFFFFFFFFFFFFF : UInt64) - acc * 10
        · simp only [h2, if_true]
          have := UInt64.lt_iff_toNat_lt.mp h2
          rw [hsub, hdv] at this
          rw [if_neg (by omega)]
        · simp only [h2, if_false]
          have := (not_congr UInt64.lt_iff_toNat_lt).mp h2
          rw [hsub, hdv] at this
          have hadd : (acc * 10 + (c - 48).toUInt64).toNat = acc.toNat * 10 + (c.toNat - 48) := by
            rw [UInt64.toNat_add, hmul, hdv]; omega
          rw [ih, hadd]
    · have hnd : c < 48 ∨ c > 57 := by
        apply Decidable.byContradiction; intro h; exact hd ((isDigit_iff c).mpr h)
      rw [if_pos hnd]
      simp [hd, digitsValAcc, hacc]


/-! ### u32_to_string -/



def digitChar (d : Nat) : UInt8 := UInt8.ofNat (48 + d)

/-- minimal decimal representation, most significant digit first (`fuel > n` suffices) -/
def decDigits : Nat → Nat → Bytes
  | 0, _ => []
  | f + 1, n => if n < 10 then [digitChar n] else decDigits f (n / 10) ++ [digitChar (n % 10)]
def decStr (n : Nat) : Bytes := decDigits (n + 1) n

theorem digitChar_props (d : Nat) (h : d < 10) :
    isDigit (digitChar d) = true ∧ (digitChar d).toNat - 48 = d ∧ (digitChar d = 48 → d = 0) := by
  have : ∀ d : Fin 10, isDigit (digitChar d.val) = true ∧ (digitChar d.val).toNat - 48 = d.val ∧
      (digitChar d.val = 48 → d.val = 0) := by decide
  exact this ⟨d, h⟩

theorem head?_append_ne_nil (xs ys : Bytes) (h : xs ≠ []) : (xs ++ ys).head? = xs.head? := by
  cases xs with
  | nil => exact absurd rfl h
  | cons a r => rfl

theorem digitsValAcc_append (xs ys : Bytes) : ∀ a, digitsValAcc (xs ++ ys) a = digitsValAcc ys (digitsValAcc xs a) := by
  induction xs with
  | nil => intro a; simp [digitsValAcc]
  | cons c r ih => intro a; simp [digitsValAcc, ih]

theorem decDigits_spec : ∀ (f n : Nat), n < f →
    digitsValAcc (decDigits f n) 0 = n ∧ (∀ c ∈ decDigits f n, isDigit c = true) ∧ decDigits f n ≠ [] ∧
      (n ≠ 0 → (decDigits f n).head? ≠ some 48) ∧ (n = 0 → decDigits f n = [48])
  | 0, n, h => by omega
  | f + 1, n, h => by
    rw [decDigits]
    by_cases hn : n < 10
    · rw [if_pos hn]
      obtain ⟨h1, h2, h3⟩ := digitChar_props n hn
      refine ⟨by simp [digitsValAcc, h2], by simpa using h1, by simp, ?_, ?_⟩
      · intro hn0 hh
        simp at hh
        exact hn0 (h3 hh)
      · intro h0; subst h0; simp [digitChar]
    · rw [if_neg hn]
      obtain ⟨i1, i2, i3, i4, i5⟩ := decDigits_spec f (n / 10) (by omega)
      obtain ⟨h1, h2, h3⟩ := digitChar_props (n % 10) (Nat.mod_lt _ (by omega))
      refine ⟨?_, ?_, by simp, ?_, by omega⟩
      · rw [digitsValAcc_append, i1]; simp only [digitsValAcc, h2]; omega
      · intro c hc
        rw [List.mem_append] at hc
        rcases hc with hc | hc
        · exact i2 c hc
        · simp at hc; rw [hc]; exact h1
      · intro _
        rw [head?_append_ne_nil _ _ i3]
        exact i4 (by omega)

theorem decDigits_fuel : ∀ (f g n : Nat), n < f → n < g → decDigits f n = decDigits g n
  | 0, _, n, h, _ => by omega
  | _, 0, n, _, h => by omega
  | f + 1, g + 1, n, hf, hg => by
    rw [decDigits, decDigits]
    by_cases hn : n < 10
    · simp [hn]
    · simp only [hn, if_false]
      rw [decDigits_fuel f g (n / 10) (by omega) (by omega)]

/-- the `do … while` loop of `u32_to_string` produces the minimal decimal digits -/
theorem u32ToStringLoop_spec : ∀ (i : Nat) (x : UInt32) (acc : Bytes), x.toNat < 10 ^ i → 0 < i →
    u32ToStringLoop i x acc = decStr x.toNat ++ acc
  | 0, _, _, _, h => by omega
  | i + 1, x, acc, hx, _ => by
    rw [u32ToStringLoop]
    have hdiv : (x / 10).toNat = x.toNat / 10 := by simp [UInt32.toNat_div]
    have hmod : ((x % 10).toUInt8 + 48) = digitChar (x.toNat % 10) := by
      unfold digitChar
      apply UInt8.toNat_inj.mp
      have := Nat.mod_lt x.toNat (show 10 > 0 by omega)
      simp [UInt32.toNat_mod]
      omega
    have hne : (x / 10 ≠ 0) ↔ ¬ x.toNat < 10 := by
      rw [Ne, ← UInt32.toNat_inj, hdiv]; simp
    rw [decStr, decDigits]
    by_cases hlt : x.toNat < 10
    · have : ¬ (x / 10 ≠ 0 ∧ i ≠ 0) := fun h => (hne.mp h.1) hlt
      rw [if_neg this, if_pos hlt, hmod, Nat.mod_eq_of_lt hlt]
      rfl
    · have hi : i ≠ 0 := by
        intro h0; subst h0; simp at hx; omega
      rw [if_pos ⟨hne.mpr hlt, hi⟩, if_neg hlt]
      rw [u32ToStringLoop_spec i (x / 10) _ (by rw [hdiv]; rw [Nat.pow_succ] at hx; omega) (by omega), hdiv, hmod]
      rw [decStr, decDigits_fuel (x.toNat / 10 + 1) x.toNat (x.toNat / 10) (by omega) (by omega)]
      simp

theorem u32_to_string_spec (x : UInt32) : u32_to_string x = decStr x.toNat := by
  have := x.toNat_lt
  rw [u32_to_string, u32ToStringLoop_spec 10 x [] (by omega) (by omega)]
  simp


/-! ### Base64 fields -/


/-- the rest of the string after a Base64 field: empty, or starting with a non-alphabet character -/
def B64Stop (rest : Bytes) : Prop := ∀ c r, rest = c :: r → charSextet false c = none

theorem scan_enc_rest (rest : Bytes) (hr : B64Stop rest) : ∀ (s : List Nat), (∀ x ∈ s, x < 64) →
    scan false none (s.map (sextetChar false) ++ rest) = (s, rest)
  | [], _ => by
    cases rest with
    | nil => simp [scan]
    | cons c r => simp [scan_none r (hr c r rfl), inIgnore]
  | x :: s, h => by
    have ih := scan_enc_rest rest hr s (fun y hy => h y (by simp [hy]))
    rw [List.map_cons, List.cons_append, scan_some _ (charSextet_sextetChar (h x (by simp))), ih]

/-- `BIN` on a freshly encoded field followed by a stop -/
theorem bin_roundtrip (b rest : Bytes) (cap : Nat) (hcap : b.length ≤ cap) (hlen : b.length ≤ UINT32_MAX)
    (hr : B64Stop rest) :
    bin cap (encode false false b ++ rest) = some (b, rest) := by
  unfold bin
  have hv : variantOk 3 = true := by decide
  have hus : isUrlsafe 3 = false := by decide
  have hnp : isNoPad 3 = true := by decide
  rw [base642bin_eq _ _ _ _ _ hv]
  generalize ht : encode false false b ++ rest = t
  have hsc : scan (isUrlsafe 3) none t = (sextets b, rest) := by
    rw [← ht, hus, encode_sextets]
    simpa [padN] using scan_enc_rest rest hr _ (sextets_lt b)
  obtain ⟨hu, hc⟩ := ungroup_sextets b
  obtain ⟨acc', hf, hbad⟩ := dfold_spec (sextets b) [] 0 (sextets_lt b)
  have hl := b64Loop_ok 3 cap none t 0 [] 0 0 (by rw [hsc, hf, hu]; simpa using hcap)
  have hdrop := scan_rest_drop (isUrlsafe 3) none t
  have hlen' := scan_rest_len (isUrlsafe 3) none t
  rw [hsc] at hl hdrop hlen'
  simp only [hf, hu, List.append_nil, List.reverse_reverse, Nat.zero_add] at hl hdrop hlen'
  rw [hl, finish_good _ _ _ _ _ rfl (fun hb => hbad.mp hb hc)]
  simp only [hnp, if_true, skipPadding_zero, skipIgnored_none]
  have hne : ¬ ((0 : Int32) ≠ 0) := by simp
  simp only [hne, if_false, hdrop]
  have : ¬ (b.length > UINT32_MAX) := by omega
  simp [this]

/-! ### decode_decimal: total specification -/


theorem takeWhile_len (p : UInt8 → Bool) (s : Bytes) : (s.takeWhile p).length + (s.dropWhile p).length = s.length := by
  have := congrArg List.length (List.takeWhile_append_dropWhile (p := p) (l := s))
  rw [List.length_append] at this; exact this

/-- `decode_decimal` as a total function: it accepts exactly a non-empty maximal digit prefix without a
    superfluous leading zero whose value fits in an `unsigned long`, and returns that value and the rest -/
theorem decode_decimal_eq (s : Bytes) :
    decode_decimal s =
      if s.takeWhile isDigit ≠ [] ∧ (s.head? = some 48 → (s.takeWhile isDigit).length = 1) ∧
          digitsVal (s.takeWhile isDigit) < 2 ^ 64
      then some (digitsVal (s.takeWhile isDigit), s.dropWhile isDigit) else none := by
  unfold decode_decimal
  rw [loop_spec s 0]
  have h0 : (0 : UInt64).toNat = 0 := rfl
  rw [h0, show digitsValAcc (s.takeWhile isDigit) 0 = digitsVal (s.takeWhile isDigit) from rfl]
  have hlen := takeWhile_len isDigit s
  have hnil : s.takeWhile isDigit ≠ [] ↔ (s.takeWhile isDigit).length ≠ 0 := by
    simp [List.length_eq_zero_iff]
  by_cases hv : digitsVal (s.takeWhile isDigit) < 2 ^ 64
  · rw [if_pos hv]
    dsimp only
    have hof : (UInt64.ofNat (digitsVal (s.takeWhile isDigit))).toNat = digitsVal (s.takeWhile isDigit) := by
      simp; omega
    simp only [hof]
    by_cases hc : s.takeWhile isDigit ≠ [] ∧ (s.head? = some 48 → (s.takeWhile isDigit).length = 1)
    · have hL : ¬ ((s.dropWhile isDigit).length = s.length ∨
          (s.head? = some 48 ∧ (s.dropWhile isDigit).length + 1 ≠ s.length)) := by
        rintro (h | ⟨h1, h2⟩)
        · have := hnil.mp hc.1; omega
        · have := hc.2 h1; omega
      rw [if_neg hL, if_pos ⟨hc.1, hc.2, hv⟩]
    · have hL : ((s.dropWhile isDigit).length = s.length ∨
          (s.head? = some 48 ∧ (s.dropWhile isDigit).length + 1 ≠ s.length)) := by
        apply Decidable.byContradiction
        intro hn
        apply hc
        refine ⟨hnil.mpr (fun h => hn (.inl (by omega))), fun h48 => ?_⟩
        apply Decidable.byContradiction
        intro h1
        exact hn (.inr ⟨h48, by omega⟩)
      rw [if_pos hL, if_neg (fun h => hc ⟨h.1, h.2.1⟩)]
  · rw [if_neg hv, if_neg (fun h => hv h.2.2)]

theorem decimalU32_eq (s : Bytes) :
    decimalU32 s =
      if s.takeWhile isDigit ≠ [] ∧ (s.head? = some 48 → (s.takeWhile isDigit).length = 1) ∧
          digitsVal (s.takeWhile isDigit) < 2 ^ 32
      then some (digitsVal (s.takeWhile isDigit), s.dropWhile isDigit) else none := by
  unfold decimalU32
  have hmax : UINT32_MAX = 4294967295 := rfl
  rw [decode_decimal_eq]
  by_cases hc : s.takeWhile isDigit ≠ [] ∧ (s.head? = some 48 → (s.takeWhile isDigit).length = 1)
  · by_cases h64 : digitsVal (s.takeWhile isDigit) < 2 ^ 64
    · rw [if_pos ⟨hc.1, hc.2, h64⟩]
      by_cases h32 : digitsVal (s.takeWhile isDigit) < 2 ^ 32
      · rw [if_pos ⟨hc.1, hc.2, h32⟩]
        have hgt : ¬ digitsVal (s.takeWhile isDigit) > UINT32_MAX := by rw [hmax]; omega
        dsimp only
        rw [if_neg hgt]
      · rw [if_neg (fun h => h32 h.2.2)]
        have hgt : digitsVal (s.takeWhile isDigit) > UINT32_MAX := by rw [hmax]; omega
        dsimp only
        rw [if_pos hgt]
    · rw [if_neg (fun h => h64 h.2.2), if_neg (fun h => h64 (by have := h.2.2; omega))]
  · rw [if_neg (fun h => hc ⟨h.1, h.2.1⟩), if_neg (fun h => hc ⟨h.1, h.2.1⟩)]

/-- the rest of the string after a decimal field: empty, or starting with a non-digit -/
def DecStop (rest : Bytes) : Prop := ∀ c r, rest = c :: r → isDigit c = false

theorem takeWhile_all_append (p : UInt8 → Bool) : ∀ (l rest : Bytes), (∀ c ∈ l, p c = true) →
    (∀ c r, rest = c :: r → p c = false) →
    (l ++ rest).takeWhile p = l ∧ (l ++ rest).dropWhile p = rest
  | [], rest, _, hr => by
    cases rest with
    | nil => simp
    | cons c r => simp [hr c r rfl]
  | a :: l, rest, hl, hr => by
    obtain ⟨h1, h2⟩ := takeWhile_all_append p l rest (fun c hc => hl c (by simp [hc])) hr
    have ha := hl a (by simp)
    simp [ha, h1, h2]

theorem decimalU32_decStr (n : Nat) (hn : n < 2 ^ 32) (rest : Bytes) (hr : DecStop rest) :
    decimalU32 (decStr n ++ rest) = some (n, rest) := by
  obtain ⟨h1, h2, h3, h4, h5⟩ := decDigits_spec (n + 1) n (by omega)
  rw [← show decStr n = decDigits (n + 1) n from rfl] at h1 h2 h3 h4 h5
  obtain ⟨t1, t2⟩ := takeWhile_all_append isDigit (decStr n) rest h2 hr
  rw [decimalU32_eq, t1, t2, if_pos]
  · rw [show digitsVal (decStr n) = n from h1]
  · refine ⟨h3, ?_, by rw [show digitsVal (decStr n) = n from h1]; exact hn⟩
    intro hh
    rw [head?_append_ne_nil _ _ h3] at hh
    by_cases h0 : n = 0
    · rw [show decStr n = [48] from h5 h0]; rfl
    · exact absurd hh (h4 h0)


/-! ### argon2_encode_string -/


/-- the hash string in the documented format `$argon2<T>$v=19$m=<m>,t=<t>,p=<p>$<salt>$<hash>` -/
def encStr (type : Argon2Type) (m t p : Nat) (salt out : Bytes) : Bytes :=
  type.tag ++ lit_v ++ decStr 19 ++ lit_m ++ decStr m ++ lit_t ++ decStr t ++ lit_p ++ decStr p ++
    lit_dollar ++ encode false false salt ++ lit_dollar ++ encode false false out

theorem sextetChar_ne_zero : ∀ x : Fin 64, sextetChar false x.val ≠ 0 := by decide

theorem encode_ne_zero (b : Bytes) : ∀ c ∈ encode false false b, c ≠ 0 := by
  intro c hc
  rw [encode_sextets] at hc
  simp only [padN, List.replicate_zero, List.append_nil, List.mem_map, Bool.false_eq_true, if_false] at hc
  obtain ⟨x, hx, rfl⟩ := hc
  exact sextetChar_ne_zero ⟨x, sextets_lt b x hx⟩

theorem takeWhile_ne_zero_append_zeros (l : Bytes) (h : ∀ c ∈ l, c ≠ 0) (n : Nat) :
    (l ++ zeros n).takeWhile (· != 0) = l := by
  have := (takeWhile_all_append (· != 0) l (zeros n) (fun c hc => by simpa using h c hc)
    (fun c r hr => by
      cases n with
      | zero => simp [zeros] at hr
      | succ n => simp [zeros, List.replicate_succ] at hr; simp [hr.1])).1
  exact this

theorem ss_some {s : Bytes} {st st' : Bytes × Nat} (h : ss s st = some st') : st'.1 = st.1 ++ s := by
  unfold ss at h
  split at h
  · cases h
  · cases h; rfl

theorem ss_len {s : Bytes} {st st' : Bytes × Nat} (h : ss s st = some st') :
    st'.1.length + st'.2 = st.1.length + st.2 := by
  unfold ss at h
  split at h
  · cases h
  · cases h; simp only [List.length_append]; omega

theorem sx_len {x : Nat} {st st' : Bytes × Nat} (h : sx x st = some st') :
    st'.1.length + st'.2 = st.1.length + st.2 := ss_len h

theorem sx_some {x : Nat} {st st' : Bytes × Nat} (h : sx x st = some st') (hx : x < 2 ^ 32) :
    st'.1 = st.1 ++ decStr x := by
  unfold sx at h
  rw [ss_some h, u32_to_string_spec]
  congr 2
  simp; omega

theorem sb_some {buf : Bytes} {st st' : Bytes × Nat} (h : sb buf st = some st') :
    st'.1 = st.1 ++ encode false false buf := by
  unfold sb at h
  rw [bin2base64_spec] at h
  split at h
  · cases h
  · rename_i w hw
    have e : w = encode false false buf ++ zeros (st.2 - encodedLen false buf.length) := by
      have hv : (!variantOk 3) = false := by decide
      simp only [hv] at hw
      have hnp : isNoPad 3 = true := by decide
      have hus : isUrlsafe 3 = false := by decide
      simp only [hnp, hus, Bool.not_true] at hw
      by_cases hle : st.2 ≤ encodedLen false buf.length
      · rw [if_pos hle] at hw; cases hw
      · rw [if_neg hle] at hw; exact (EncResult.ok.inj hw).symm
    cases h
    simp only
    rw [e, takeWhile_ne_zero_append_zeros _ (encode_ne_zero buf)]

theorem sb_len {buf : Bytes} {st st' : Bytes × Nat} (h : sb buf st = some st') :
    st'.1.length + st'.2 = st.1.length + st.2 := by
  have h1 := sb_some h
  unfold sb at h
  rw [bin2base64_spec] at h
  have hv : (!variantOk 3) = false := by decide
  have hnp : isNoPad 3 = true := by decide
  have hus : isUrlsafe 3 = false := by decide
  simp only [hv, hnp, hus, Bool.not_true] at h
  by_cases hle : st.2 ≤ encodedLen false buf.length
  · rw [if_pos hle] at h; cases h
  · rw [if_neg hle] at h
    simp only [Bool.false_eq_true, if_false, Option.some.injEq] at h
    have h2 : st'.2 = st.2 - (encode false false buf).length := by
      rw [← h]; simp only
      rw [takeWhile_ne_zero_append_zeros _ (encode_ne_zero buf)]
    rw [h1, h2, List.length_append, encode_len]
    omega

theorem encode_ok {dstLen : Nat} {c : Context} {salt out : Bytes} {type : Argon2Type} {s : Bytes}
    (h : argon2_encode_string dstLen c salt out type = .ok s)
    (hm : c.m_cost < 2 ^ 32) (ht : c.t_cost < 2 ^ 32) (hl : c.lanes < 2 ^ 32) :
    s = encStr type c.m_cost c.t_cost c.lanes salt out ∧ argon2_validate_inputs c = ARGON2_OK ∧ s.length ≤ dstLen := by
  unfold argon2_encode_string at h
  split at h; · cases h
  rename_i st1 h1
  dsimp only at h
  split at h; · cases h
  rename_i hval
  unfold encodeTail at h
  split at h; · cases h
  rename_i st2 h2
  split at h; · cases h
  rename_i st3 h3
  split at h; · cases h
  rename_i st4 h4
  split at h; · cases h
  rename_i st5 h5
  split at h; · cases h
  rename_i st6 h6
  split at h; · cases h
  rename_i st7 h7
  split at h; · cases h
  rename_i st8 h8
  split at h; · cases h
  rename_i st9 h9
  split at h; · cases h
  rename_i st10 h10
  split at h; · cases h
  rename_i st11 h11
  split at h; · cases h
  rename_i st12 h12
  cases h
  refine ⟨?_, by simpa using hval, ?_⟩
  rotate_left
  · have := sb_len h12; have := ss_len h11; have := sb_len h10; have := ss_len h9; have := sx_len h8
    have := ss_len h7; have := sx_len h6; have := ss_len h5; have := sx_len h4; have := ss_len h3
    have := sx_len h2; have := ss_len h1
    simp only [List.length_nil] at *
    omega
  rw [sb_some h12, ss_some h11, sb_some h10, ss_some h9, sx_some h8 hl, ss_some h7, sx_some h6 ht, ss_some h5,
    sx_some h4 hm, ss_some h3, sx_some h2 (by decide : ARGON2_VERSION_NUMBER < 2 ^ 32), ss_some h1]
  simp [encStr, ARGON2_VERSION_NUMBER]


/-! ### argon2_decode_string on a well-formed string -/


theorem cc_append (pre r : Bytes) : cc pre (pre ++ r) = some r := by
  unfold cc
  have : pre.isPrefixOf (pre ++ r) = true := by
    rw [List.isPrefixOf_iff_prefix]; exact List.prefix_append pre r
  rw [if_pos this]
  simp

theorem decStop_str_cons (c : UInt8) (r : Bytes) (h : isDigit c = false) : DecStop (c :: r) := by
  intro c' r' e; cases e; exact h

theorem b64Stop_cons (c : UInt8) (r : Bytes) (h : charSextet false c = none) : B64Stop (c :: r) := by
  intro c' r' e; cases e; exact h

theorem b64Stop_nil : B64Stop [] := by intro c r e; cases e

/-- decoding a string in the documented format: the fields come back, then `argon2_validate_inputs`
    decides -/
theorem decode_encStr (c0 : Context) (type : Argon2Type) (m t p : Nat) (salt out : Bytes)
    (hm : m < 2 ^ 32) (ht : t < 2 ^ 32) (hp : p < 2 ^ 32)
    (hcs : salt.length ≤ c0.saltlen) (hco : out.length ≤ c0.outlen)
    (hls : salt.length ≤ UINT32_MAX) (hlo : out.length ≤ UINT32_MAX) :
    argon2_decode_string c0 (encStr type m t p salt out) type =
      (let c := { c0 with saltlen := salt.length, outlen := out.length, m_cost := m, t_cost := t,
                          lanes := p, threads := p }
       if argon2_validate_inputs c ≠ ARGON2_OK then (argon2_validate_inputs c, none)
       else (ARGON2_OK, some ⟨m, t, p, salt, out⟩)) := by
  have hmax : UINT32_MAX = 4294967295 := rfl
  unfold argon2_decode_string encStr
  simp only [List.append_assoc]
  rw [cc_append]; dsimp only
  rw [cc_append]; dsimp only
  rw [decimalU32_decStr 19 (by omega) _ (by exact decStop_str_cons _ _ (by decide))]; dsimp only
  rw [if_neg (by decide)]
  rw [cc_append]; dsimp only
  rw [decimalU32_decStr m hm _ (by exact decStop_str_cons _ _ (by decide))]; dsimp only
  rw [if_neg (by rw [hmax]; omega)]
  rw [cc_append]; dsimp only
  rw [decimalU32_decStr t ht _ (by exact decStop_str_cons _ _ (by decide))]; dsimp only
  rw [if_neg (by rw [hmax]; omega)]
  rw [cc_append]; dsimp only
  rw [decimalU32_decStr p hp _ (by exact decStop_str_cons _ _ (by decide))]; dsimp only
  rw [if_neg (by rw [hmax]; omega)]
  rw [cc_append]; dsimp only
  rw [bin_roundtrip salt _ _ hcs hls (by exact b64Stop_cons _ _ (by decide))]; dsimp only
  rw [cc_append]; dsimp only
  have := bin_roundtrip out [] _ hco hlo b64Stop_nil
  rw [List.append_nil] at this
  rw [this]; dsimp only
  split
  · rfl
  · simp


/-! ### argon2_validate_inputs -/


/-- the conditions under which `argon2_validate_inputs` accepts -/
structure CtxOk (c : Context) : Prop where
  out : c.outNull = false
  outlen : 16 ≤ c.outlen ∧ c.outlen ≤ 0xFFFFFFFF
  pwd : (c.pwdNull = true → c.pwdlen = 0) ∧ c.pwdlen ≤ 0xFFFFFFFF
  salt : (c.saltNull = true → c.saltlen = 0) ∧ 8 ≤ c.saltlen ∧ c.saltlen ≤ 0xFFFFFFFF
  secret : (c.secretNull = true → c.secretlen = 0) ∧ c.secretlen ≤ 0xFFFFFFFF
  ad : (c.adNull = true → c.adlen = 0) ∧ c.adlen ≤ 0xFFFFFFFF
  lanes : 1 ≤ c.lanes ∧ c.lanes ≤ 0xFFFFFF
  mem : 8 * c.lanes ≤ c.m_cost ∧ c.m_cost ≤ 0xFFFFFFFF
  time : 1 ≤ c.t_cost ∧ c.t_cost ≤ 0xFFFFFFFF
  threads : 1 ≤ c.threads ∧ c.threads ≤ 0xFFFFFF

theorem nullLen {b : Bool} {n : Nat} (h : ¬ ((b && n != 0) = true)) : b = true → n = 0 := by
  cases b <;> simp_all

theorem optLenMax {b : Bool} {n M : Nat} (h1 : ¬ ((b && n != 0) = true)) (h2 : ¬ ((!b && decide (M < n)) = true)) :
    n ≤ M := by
  cases b
  · simp at h2; exact h2
  · simp at h1; omega

theorem nullLen' {b : Bool} {n : Nat} (h : b = true → n = 0) : ¬ ((b && n != 0) = true) := by
  cases b <;> simp_all

theorem optLenMax' {b : Bool} {n : Nat} (M : Nat) (h : n ≤ M) : ¬ ((!b && decide (M < n)) = true) := by
  cases b
  · simp only [Bool.not_false, Bool.true_and, decide_eq_true_eq]; omega
  · intro h; exact Bool.noConfusion h

theorem optLenMin' {b : Bool} {n : Nat} (m : Nat) (hm : m = 0) : ¬ ((!b && decide (m > n)) = true) := by
  subst hm
  cases b
  · simp only [Bool.not_false, Bool.true_and, decide_eq_true_eq]; omega
  · intro h; exact Bool.noConfusion h

theorem validate_ok_of (c : Context) (h : argon2_validate_inputs c = ARGON2_OK) : CtxOk c := by
  unfold argon2_validate_inputs at h
  by_cases k1 : c.outNull = true
  · rw [if_pos k1] at h; exact absurd h (by decide)
  rw [if_neg k1] at h
  by_cases k2 : ARGON2_MIN_OUTLEN > c.outlen
  · rw [if_pos k2] at h; exact absurd h (by decide)
  rw [if_neg k2] at h
  by_cases k3 : ARGON2_MAX_OUTLEN < c.outlen
  · rw [if_pos k3] at h; exact absurd h (by decide)
  rw [if_neg k3] at h
  by_cases k4 : (c.pwdNull && c.pwdlen != 0) = true
  · rw [if_pos k4] at h; exact absurd h (by decide)
  rw [if_neg k4] at h
  by_cases k5 : ARGON2_MIN_PWD_LENGTH > c.pwdlen
  · rw [if_pos k5] at h; exact absurd h (by decide)
  rw [if_neg k5] at h
  by_cases k6 : ARGON2_MAX_PWD_LENGTH < c.pwdlen
  · rw [if_pos k6] at h; exact absurd h (by decide)
  rw [if_neg k6] at h
  by_cases k7 : (c.saltNull && c.saltlen != 0) = true
  · rw [if_pos k7] at h; exact absurd h (by decide)
  rw [if_neg k7] at h
  by_cases k8 : ARGON2_MIN_SALT_LENGTH > c.saltlen
  · rw [if_pos k8] at h; exact absurd h (by decide)
  rw [if_neg k8] at h
  by_cases k9 : ARGON2_MAX_SALT_LENGTH < c.saltlen
  · rw [if_pos k9] at h; exact absurd h (by decide)
  rw [if_neg k9] at h
  by_cases k10 : (c.secretNull && c.secretlen != 0) = true
  · rw [if_pos k10] at h; exact absurd h (by decide)
  rw [if_neg k10] at h
  by_cases k11 : (!c.secretNull && decide (ARGON2_MIN_SECRET > c.secretlen)) = true
  · rw [if_pos k11] at h; exact absurd h (by decide)
  rw [if_neg k11] at h
  by_cases k12 : (!c.secretNull && decide (ARGON2_MAX_SECRET < c.secretlen)) = true
  · rw [if_pos k12] at h; exact absurd h (by decide)
  rw [if_neg k12] at h
  by_cases k13 : (c.adNull && c.adlen != 0) = true
  · rw [if_pos k13] at h; exact absurd h (by decide)
  rw [if_neg k13] at h
  by_cases k14 : (!c.adNull && decide (ARGON2_MIN_AD_LENGTH > c.adlen)) = true
  · rw [if_pos k14] at h; exact absurd h (by decide)
  rw [if_neg k14] at h
  by_cases k15 : (!c.adNull && decide (ARGON2_MAX_AD_LENGTH < c.adlen)) = true
  · rw [if_pos k15] at h; exact absurd h (by decide)
  rw [if_neg k15] at h
  by_cases k16 : ARGON2_MIN_LANES > c.lanes
  · rw [if_pos k16] at h; exact absurd h (by decide)
  rw [if_neg k16] at h
  by_cases k17 : ARGON2_MAX_LANES < c.lanes
  · rw [if_pos k17] at h; exact absurd h (by decide)
  rw [if_neg k17] at h
  by_cases k18 : ARGON2_MIN_MEMORY > c.m_cost
  · rw [if_pos k18] at h; exact absurd h (by decide)
  rw [if_neg k18] at h
  by_cases k19 : ARGON2_MAX_MEMORY < c.m_cost
  · rw [if_pos k19] at h; exact absurd h (by decide)
  rw [if_neg k19] at h
  by_cases k20 : c.m_cost < 8 * c.lanes
  · rw [if_pos k20] at h; exact absurd h (by decide)
  rw [if_neg k20] at h
  by_cases k21 : ARGON2_MIN_TIME > c.t_cost
  · rw [if_pos k21] at h; exact absurd h (by decide)
  rw [if_neg k21] at h
  by_cases k22 : ARGON2_MAX_TIME < c.t_cost
  · rw [if_pos k22] at h; exact absurd h (by decide)
  rw [if_neg k22] at h
  by_cases k23 : ARGON2_MIN_THREADS > c.threads
  · rw [if_pos k23] at h; exact absurd h (by decide)
  rw [if_neg k23] at h
  by_cases k24 : ARGON2_MAX_THREADS < c.threads
  · rw [if_pos k24] at h; exact absurd h (by decide)
  rw [if_neg k24] at h
  simp only [ARGON2_MIN_OUTLEN, ARGON2_MAX_OUTLEN] at k2 k3
  simp only [ARGON2_MAX_PWD_LENGTH] at k6
  simp only [ARGON2_MIN_SALT_LENGTH, ARGON2_MAX_SALT_LENGTH] at k8 k9
  simp only [ARGON2_MIN_LANES, ARGON2_MAX_LANES] at k16 k17
  simp only [ARGON2_MIN_MEMORY, ARGON2_MAX_MEMORY] at k18 k19
  simp only [ARGON2_MIN_TIME, ARGON2_MAX_TIME] at k21 k22
  simp only [ARGON2_MIN_THREADS, ARGON2_MAX_THREADS] at k23 k24
  exact ⟨by simpa using k1, ⟨by omega, by omega⟩, ⟨nullLen k4, by omega⟩, ⟨nullLen k7, by omega, by omega⟩,
    ⟨nullLen k10, optLenMax k10 k12⟩, ⟨nullLen k13, optLenMax k13 k15⟩, ⟨by omega, by omega⟩, ⟨by omega, by omega⟩,
    ⟨by omega, by omega⟩, ⟨by omega, by omega⟩⟩

theorem validate_ok (c : Context) (h : CtxOk c) : argon2_validate_inputs c = ARGON2_OK := by
  obtain ⟨h1, h2, h3, h4, h5, h6, h7, h8, h9, h10⟩ := h
  unfold argon2_validate_inputs
  rw [if_neg (by simp [h1])]
  rw [if_neg (by simp only [ARGON2_MIN_OUTLEN]; omega), if_neg (by simp only [ARGON2_MAX_OUTLEN]; omega)]
  rw [if_neg (nullLen' h3.1), if_neg (by simp only [ARGON2_MIN_PWD_LENGTH]; omega),
    if_neg (by simp only [ARGON2_MAX_PWD_LENGTH]; omega)]
  rw [if_neg (nullLen' h4.1), if_neg (by simp only [ARGON2_MIN_SALT_LENGTH]; omega),
    if_neg (by simp only [ARGON2_MAX_SALT_LENGTH]; omega)]
  rw [if_neg (nullLen' h5.1), if_neg (optLenMin' ARGON2_MIN_SECRET rfl), if_neg (optLenMax' ARGON2_MAX_SECRET h5.2)]
  rw [if_neg (nullLen' h6.1), if_neg (optLenMin' ARGON2_MIN_AD_LENGTH rfl), if_neg (optLenMax' ARGON2_MAX_AD_LENGTH h6.2)]
  rw [if_neg (by simp only [ARGON2_MIN_LANES]; omega), if_neg (by simp only [ARGON2_MAX_LANES]; omega)]
  rw [if_neg (by simp only [ARGON2_MIN_MEMORY]; omega), if_neg (by simp only [ARGON2_MAX_MEMORY]; omega),
    if_neg (by omega)]
  rw [if_neg (by simp only [ARGON2_MIN_TIME]; omega), if_neg (by simp only [ARGON2_MAX_TIME]; omega)]
  rw [if_neg (by simp only [ARGON2_MIN_THREADS]; omega), if_neg (by simp only [ARGON2_MAX_THREADS]; omega)]

theorem validate_ok_iff (c : Context) : argon2_validate_inputs c = ARGON2_OK ↔ CtxOk c :=
  ⟨validate_ok_of c, validate_ok c⟩


/-! ### argon2_hash and the limit ladder of the raw API -/


theorem u32_id {x : Nat} (h : x < 2 ^ 32) : u32 x = x := Nat.mod_eq_of_lt h

/-- the context `argon2_hash` builds -/
def hashCtx (t m par : Nat) (pwdNull : Bool) (pwdlen saltlen hashlen : Nat) : Context :=
  { outlen := u32 hashlen, pwdNull := pwdNull, pwdlen := u32 pwdlen, saltlen := u32 saltlen,
    t_cost := t, m_cost := m, lanes := par, threads := par }

/-- `argon2_hash` without encoding succeeds and returns the core's tag whenever the lengths fit in 32 bits
    and `argon2_validate_inputs` accepts -/
theorem argon2_hash_raw_ok (P : Prims) (t m par : Nat) (pwdNull : Bool) (pwd salt : Bytes) (hashlen : Nat)
    (type : Argon2Type) (hp : pwd.length ≤ 0xFFFFFFFF) (hh : hashlen ≤ 0xFFFFFFFF) (hs : salt.length ≤ 0xFFFFFFFF)
    (hv : CtxOk (hashCtx t m par pwdNull pwd.length salt.length hashlen)) :
    argon2_hash P t m par pwdNull pwd salt hashlen 0 type =
      { rc := ARGON2_OK, hash := P.argon2 type.y pwd salt t m par hashlen } := by
  unfold argon2_hash
  rw [if_neg (by simp only [ARGON2_MAX_PWD_LENGTH]; omega), if_neg (by simp only [ARGON2_MAX_OUTLEN]; omega),
    if_neg (by simp only [ARGON2_MAX_SALT_LENGTH]; omega)]
  have hval := validate_ok _ hv
  unfold hashCtx at hval
  simp only [argon2_ctx, hval, ne_eq, not_true_eq_false, if_false]
  rw [u32_id (by omega)]

/-- `crypto_pwhash_argon2i` / `crypto_pwhash_argon2id` as a total function of their arguments: the limit
    ladder, then the Argon2 core on (opslimit, memlimit / 1024, one lane). `salt` is the 16-byte salt buffer. -/
theorem crypto_pwhash_argon2_eq (P : Prims) (type : Argon2Type) (outlen : Nat) (passwd salt : Bytes)
    (opslimit memlimit : Nat) (alg : Int) (hsalt : 16 ≤ salt.length) :
    crypto_pwhash_argon2 P type outlen passwd salt opslimit memlimit alg =
      if outlen > 4294967295 then { rc := -1, errno := EFBIG }
      else if outlen < 16 then { rc := -1, errno := EINVAL }
      else if passwd.length > 4294967295 ∨ opslimit > 4294967295 ∨ memlimit > 4398046510080 then
        { rc := -1, errno := EFBIG }
      else if opslimit < type.opsMin ∨ memlimit < 8192 then { rc := -1, errno := EINVAL }
      else if alg ≠ type.alg then { rc := -1, errno := EINVAL }
      else { rc := 0, out := P.argon2 type.y passwd (salt.take 16) opslimit (memlimit / 1024) 1 outlen } := by
  unfold crypto_pwhash_argon2
  by_cases h1 : outlen > BYTES_MAX
  · rw [if_pos h1, if_pos (show outlen > 4294967295 from h1)]
  rw [if_neg h1, if_neg (show ¬ outlen > 4294967295 from h1)]
  by_cases h2 : outlen < BYTES_MIN
  · rw [if_pos h2, if_pos (show outlen < 16 from h2)]
  rw [if_neg h2, if_neg (show ¬ outlen < 16 from h2)]
  by_cases h3 : passwd.length > PASSWD_MAX ∨ opslimit > OPSLIMIT_MAX ∨ memlimit > MEMLIMIT_MAX
  · rw [if_pos h3, if_pos (show passwd.length > 4294967295 ∨ opslimit > 4294967295 ∨ memlimit > 4398046510080 from h3)]
  rw [if_neg h3, if_neg (show ¬ (passwd.length > 4294967295 ∨ opslimit > 4294967295 ∨ memlimit > 4398046510080) from h3)]
  have h4e : (passwd.length < PASSWD_MIN ∨ opslimit < type.opsMin ∨ memlimit < MEMLIMIT_MIN) ↔
      (opslimit < type.opsMin ∨ memlimit < 8192) := by
    constructor
    · rintro (h | h)
      · exact absurd h (Nat.not_lt_zero _)
      · exact h
    · exact Or.inr
  by_cases h4 : opslimit < type.opsMin ∨ memlimit < 8192
  · rw [if_pos (h4e.mpr h4), if_pos h4]
  rw [if_neg (fun h => h4 (h4e.mp h)), if_neg h4]
  by_cases h5 : alg ≠ type.alg
  · rw [if_pos h5, if_pos h5]
  rw [if_neg h5, if_neg h5]
  have h1 : ¬ outlen > 4294967295 := h1
  have h2 : ¬ outlen < 16 := h2
  have h3 : ¬ (passwd.length > 4294967295 ∨ opslimit > 4294967295 ∨ memlimit > 4398046510080) := h3
  show (if (argon2_hash P (u32 opslimit) (u32 (memlimit / 1024)) 1 false passwd (salt.take 16) outlen 0 type).rc ≠ ARGON2_OK
    then ({ rc := -1 } : Result)
    else { rc := 0, out := (argon2_hash P (u32 opslimit) (u32 (memlimit / 1024)) 1 false passwd (salt.take 16) outlen 0 type).hash }) = _
  have hops : 1 ≤ opslimit := by
    have : 1 ≤ type.opsMin := by cases type <;> decide
    omega
  have hmdiv : memlimit / 1024 ≤ 4294967295 := by omega
  have hmdiv8 : 8 ≤ memlimit / 1024 := by omega
  have htake : (salt.take 16).length = 16 := by simp; omega
  rw [u32_id (show opslimit < 2 ^ 32 by omega), u32_id (show memlimit / 1024 < 2 ^ 32 by omega)]
  rw [argon2_hash_raw_ok P _ _ 1 false passwd (salt.take 16) outlen type (by omega) (by omega) (by omega)]
  · simp [ARGON2_OK]
  · unfold hashCtx
    rw [htake, u32_id (show outlen < 2 ^ 32 by omega), u32_id (show passwd.length < 2 ^ 32 by omega), u32_id (show 16 < 2 ^ 32 by omega)]
    constructor <;> dsimp only <;> (try simp) <;> (try omega)


/-! ### the string API -/


theorem encode_len_ge (b : Bytes) : b.length ≤ (encode false false b).length := by
  rw [encode_len]; unfold encodedLen; simp only [Bool.false_eq_true, if_false]; omega

theorem isDigit_ne_zero {c : UInt8} (h : isDigit c = true) : c ≠ 0 := by
  intro e; subst e; exact absurd h (by decide)

theorem decStr_ne_zero (n : Nat) : ∀ c ∈ decStr n, c ≠ 0 := by
  intro c hc
  exact isDigit_ne_zero ((decDigits_spec (n + 1) n (by omega)).2.1 c hc)

/-- no NUL byte -/
def NZ (l : Bytes) : Prop := ∀ c ∈ l, c ≠ 0

theorem NZ_append {a b : Bytes} (ha : NZ a) (hb : NZ b) : NZ (a ++ b) := by
  intro c hc
  rcases List.mem_append.mp hc with h | h
  · exact ha c h
  · exact hb c h

set_option maxRecDepth 10000 in
theorem NZ_lits : NZ lit_argon2i ∧ NZ lit_argon2id ∧ NZ lit_v ∧ NZ lit_m ∧ NZ lit_t ∧ NZ lit_p ∧ NZ lit_dollar := by
  unfold NZ; decide

theorem tag_ne_zero (type : Argon2Type) : NZ type.tag := by
  cases type
  · exact NZ_lits.1
  · exact NZ_lits.2.1

theorem encStr_ne_zero (type : Argon2Type) (m t p : Nat) (salt out : Bytes) :
    ∀ c ∈ encStr type m t p salt out, c ≠ 0 := by
  obtain ⟨_, _, hv, hm, ht, hp, hd⟩ := NZ_lits
  unfold encStr
  repeat' (first | exact tag_ne_zero _ | exact decStr_ne_zero _ | exact encode_ne_zero _ | assumption | apply NZ_append)

theorem encStr_len_ge (type : Argon2Type) (m t p : Nat) (salt out : Bytes) :
    salt.length ≤ (encStr type m t p salt out).length ∧ out.length ≤ (encStr type m t p salt out).length := by
  have h1 := encode_len_ge salt
  have h2 := encode_len_ge out
  unfold encStr
  simp only [List.length_append]
  omega

theorem cstr_append_zeros (s : Bytes) (h : ∀ c ∈ s, c ≠ 0) (n : Nat) : cstr (s ++ zeros n) = s :=
  takeWhile_ne_zero_append_zeros s h n

/-- what a successful `_str` call produced -/
theorem str_ok {P : Prims} {type : Argon2Type} {passwd rnd : Bytes} {opslimit memlimit : Nat} {r : Result}
    (h : crypto_pwhash_argon2_str P type passwd opslimit memlimit rnd = r) (hrc : r.rc = 0) :
    passwd.length ≤ 4294967295 ∧ type.opsMin ≤ opslimit ∧ opslimit ≤ 4294967295 ∧ 8192 ≤ memlimit ∧
      memlimit ≤ 4398046510080 ∧ 8 ≤ (rnd.take 16).length ∧
      r.out = encStr type (memlimit / 1024) opslimit 1 (rnd.take 16)
                (P.argon2 type.y passwd (rnd.take 16) opslimit (memlimit / 1024) 1 32) ++
              zeros (128 - (encStr type (memlimit / 1024) opslimit 1 (rnd.take 16)
                (P.argon2 type.y passwd (rnd.take 16) opslimit (memlimit / 1024) 1 32)).length) ∧
      (encStr type (memlimit / 1024) opslimit 1 (rnd.take 16)
                (P.argon2 type.y passwd (rnd.take 16) opslimit (memlimit / 1024) 1 32)).length ≤ 128 := by
  unfold crypto_pwhash_argon2_str at h
  by_cases h3 : passwd.length > PASSWD_MAX ∨ opslimit > OPSLIMIT_MAX ∨ memlimit > MEMLIMIT_MAX
  · rw [if_pos h3] at h; subst h; exact absurd hrc (by decide)
  rw [if_neg h3] at h
  by_cases h4 : passwd.length < PASSWD_MIN ∨ opslimit < type.opsMin ∨ memlimit < MEMLIMIT_MIN
  · rw [if_pos h4] at h; subst h; exact absurd hrc (by decide)
  rw [if_neg h4] at h
  have h3' : ¬ (passwd.length > 4294967295 ∨ opslimit > 4294967295 ∨ memlimit > 4398046510080) := h3
  have h4' : ¬ (passwd.length < 0 ∨ opslimit < type.opsMin ∨ memlimit < 8192) := h4
  have e1 : u32 opslimit = opslimit := u32_id (by omega)
  have e2 : u32 (memlimit / 1024) = memlimit / 1024 := u32_id (by omega)
  dsimp only at h
  rw [e1, e2] at h
  -- look inside argon2_hash
  generalize hh : argon2_hash P opslimit (memlimit / 1024) 1 false passwd (rnd.take SALTBYTES) STR_HASHBYTES STRBYTES type = H at h
  by_cases hm : H.misuse = true
  · rw [if_pos hm] at h; subst h; exact absurd hrc (by decide)
  rw [if_neg hm] at h
  by_cases hr : H.rc ≠ ARGON2_OK
  · rw [if_pos hr] at h; subst h; exact absurd hrc (by decide)
  rw [if_neg hr] at h
  have hr' : H.rc = ARGON2_OK := Decidable.not_not.mp hr
  unfold argon2_hash at hh
  by_cases g1 : passwd.length > ARGON2_MAX_PWD_LENGTH
  · rw [if_pos g1] at hh; rw [← hh] at hr'; exact absurd hr' (by decide)
  rw [if_neg g1] at hh
  by_cases g2 : STR_HASHBYTES > ARGON2_MAX_OUTLEN
  · exact absurd g2 (by decide)
  rw [if_neg g2] at hh
  by_cases g3 : (rnd.take SALTBYTES).length > ARGON2_MAX_SALT_LENGTH
  · rw [if_pos g3] at hh; rw [← hh] at hr'; exact absurd hr' (by decide)
  rw [if_neg g3] at hh
  dsimp only at hh
  unfold argon2_ctx at hh
  dsimp only at hh
  by_cases g4 : argon2_validate_inputs
      { outlen := u32 STR_HASHBYTES, pwdNull := false, pwdlen := u32 passwd.length, saltlen := u32 (rnd.take SALTBYTES).length,
        t_cost := opslimit, m_cost := memlimit / 1024, lanes := 1, threads := 1 } ≠ ARGON2_OK
  · rw [if_pos g4] at hh
    dsimp only at hh
    rw [if_pos g4] at hh
    rw [← hh] at hr'; exact absurd hr' g4
  rw [if_neg g4] at hh
  dsimp only at hh
  rw [if_neg (by decide), if_pos (by decide)] at hh
  have g4' := validate_ok_of _ (Decidable.not_not.mp g4)
  have hsl : (rnd.take SALTBYTES).length ≤ 16 := by simp [SALTBYTES]; omega
  have hsalt := g4'.salt
  dsimp only at hsalt
  rw [u32_id (show (rnd.take SALTBYTES).length < 2 ^ 32 by omega)] at hsalt
  generalize he : argon2_encode_string STRBYTES _ (rnd.take SALTBYTES) _ type = E at hh
  cases E with
  | misuse => dsimp only at hh; rw [← hh] at hm; exact absurd rfl hm
  | fail code => dsimp only at hh; rw [← hh] at hr'; exact absurd hr' (by decide)
  | ok s =>
    dsimp only at hh
    obtain ⟨es, _, el⟩ := encode_ok he (by dsimp only; omega) (by dsimp only; omega) (by dsimp only; omega)
    dsimp only at es
    rw [u32_id (show STR_HASHBYTES < 2 ^ 32 by decide)] at es
    refine ⟨by omega, by omega, by omega, by omega, by omega, hsalt.2.1, ?_, ?_⟩
    · rw [← h, ← hh]; dsimp only; rw [es]; rfl
    · rw [es] at el; exact el



/-- the core returns a tag of the requested length -/
def TagLen (P : Prims) : Prop := ∀ y pwd salt t m l n, (P.argon2 y pwd salt t m l n).length = n

/-- the context `argon2_verify` passes to the decoder -/
def verifyCtx (n : Nat) : Context :=
  { outlen := n, pwdNull := true, pwdlen := 0, saltlen := n, adNull := false, adlen := n,
    t_cost := 0, m_cost := 0, lanes := 0, threads := 0 }

/-- `argon2_verify` on ANY well-formed string (valid m, t, p; salt ≥ 8 bytes; stored tag ≥ 16 bytes): it
    recomputes the tag for the presented password with the decoded parameters and compares -/
theorem argon2_verify_encStr (P : Prims) (type : Argon2Type) (passwd salt out : Bytes) (t m p : Nat)
    (hpw : passwd.length ≤ 4294967295) (hs : 8 ≤ salt.length) (ho : 16 ≤ out.length)
    (ht : 1 ≤ t ∧ t ≤ 4294967295) (hp : 1 ≤ p ∧ p ≤ 0xFFFFFF) (hm : 8 * p ≤ m ∧ m ≤ 4294967295)
    (hl : (encStr type m t p salt out).length ≤ 4294967295) :
    argon2_verify P (encStr type m t p salt out) false passwd type =
      if P.argon2 type.y passwd salt t m p out.length = out then ARGON2_OK else ARGON2_VERIFY_MISMATCH := by
  obtain ⟨g1, g2⟩ := encStr_len_ge type m t p salt out
  have hmax : UINT32_MAX = 4294967295 := rfl
  unfold argon2_verify
  dsimp only
  rw [if_neg (show ¬ _ > UINT32_MAX from by rw [hmax]; omega)]
  have hdec := decode_encStr (verifyCtx (encStr type m t p salt out).length) type m t p salt out (by omega) (by omega) (by omega) g1 g2
    (by rw [hmax]; omega) (by rw [hmax]; omega)
  have hval : argon2_validate_inputs
      { verifyCtx (encStr type m t p salt out).length with
        saltlen := salt.length, outlen := out.length, m_cost := m, t_cost := t, lanes := p, threads := p } = ARGON2_OK :=
    validate_ok _ (by unfold verifyCtx; constructor <;> dsimp only <;> (try simp) <;> (try omega))
  dsimp only at hdec
  rw [hval, if_neg (by decide)] at hdec
  unfold verifyCtx at hdec
  rw [hdec]
  dsimp only
  rw [argon2_hash_raw_ok P t m p false passwd salt out.length type (by omega) (by omega) (by omega)
    (by unfold hashCtx
        rw [u32_id (show out.length < 2 ^ 32 by omega), u32_id (show passwd.length < 2 ^ 32 by omega),
          u32_id (show salt.length < 2 ^ 32 by omega)]
        constructor <;> dsimp only <;> (try simp) <;> (try omega))]
  dsimp only
  by_cases he : P.argon2 type.y passwd salt t m p out.length = out
  · rw [if_pos he, if_neg]
    simp [memNe, he]
  · rw [if_neg he, if_pos]
    refine ⟨rfl, ?_⟩
    simp [memNe, he]

/-- verifying a well-formed string whose tag is the core's tag for the same password succeeds -/
theorem verify_encStr (P : Prims) (hP : TagLen P) (type : Argon2Type) (passwd salt : Bytes) (t m n : Nat)
    (hpw : passwd.length ≤ 4294967295) (hs : 8 ≤ salt.length) (_hs2 : salt.length ≤ 4294967295)
    (ht : 1 ≤ t ∧ t ≤ 4294967295) (hm : 8 ≤ m ∧ m ≤ 4294967295) (hn : 16 ≤ n ∧ n ≤ 4294967295)
    (hl : (encStr type m t 1 salt (P.argon2 type.y passwd salt t m 1 n)).length ≤ 4294967295) :
    argon2_verify P (encStr type m t 1 salt (P.argon2 type.y passwd salt t m 1 n)) false passwd type = ARGON2_OK := by
  have htl := hP type.y passwd salt t m 1 n
  have := argon2_verify_encStr P type passwd salt (P.argon2 type.y passwd salt t m 1 n) t m 1 hpw hs
    (by rw [htl]; omega) ht ⟨by omega, by omega⟩ ⟨by omega, hm.2⟩ hl
  rw [htl] at this
  rw [this, if_pos rfl]

theorem prefix_encStr (type : Argon2Type) (m t p : Nat) (salt out : Bytes) :
    (argon2id_STRPREFIX.isPrefixOf (encStr type m t p salt out) = (type == .id)) ∧
    (argon2i_STRPREFIX.isPrefixOf (encStr type m t p salt out) = (type == .i)) := by
  cases type <;>
    simp [encStr, Argon2Type.tag, argon2id_STRPREFIX, argon2i_STRPREFIX, lit_argon2i, lit_argon2id, lit_v,
      List.isPrefixOf] <;> decide

theorem str_verify_roundtrip (P : Prims) (hP : TagLen P) (type : Argon2Type) (passwd rnd : Bytes)
    (opslimit memlimit : Nat) (r : Result)
    (h : crypto_pwhash_argon2_str P type passwd opslimit memlimit rnd = r) (hrc : r.rc = 0) :
    crypto_pwhash_argon2_str_verify P type r.out passwd = { rc := 0 } ∧
      crypto_pwhash_str_verify P r.out passwd = { rc := 0 } := by
  obtain ⟨h1, h2, h3, h4, h5, h6, h7, h8⟩ := str_ok h hrc
  have hops : 1 ≤ opslimit := by
    have : 1 ≤ type.opsMin := by cases type <;> decide
    omega
  have hsl : (rnd.take 16).length ≤ 16 := by simp; omega
  have hc : cstr r.out = encStr type (memlimit / 1024) opslimit 1 (rnd.take 16)
      (P.argon2 type.y passwd (rnd.take 16) opslimit (memlimit / 1024) 1 32) := by
    rw [h7]; exact cstr_append_zeros _ (encStr_ne_zero _ _ _ _ _ _) _
  have hver := verify_encStr P hP type passwd (rnd.take 16) opslimit (memlimit / 1024) 32 h1 h6 (by omega)
    ⟨hops, h3⟩ ⟨by omega, by omega⟩ ⟨by omega, by omega⟩ (by omega)
  have hspec : crypto_pwhash_argon2_str_verify P type r.out passwd = { rc := 0 } := by
    unfold crypto_pwhash_argon2_str_verify
    rw [if_neg (show ¬ passwd.length > PASSWD_MAX from by rw [show PASSWD_MAX = 4294967295 from rfl]; omega),
      if_neg (show ¬ passwd.length < PASSWD_MIN from Nat.not_lt_zero _)]
    dsimp only
    rw [hc, hver, if_pos rfl]
  refine ⟨hspec, ?_⟩
  unfold crypto_pwhash_str_verify hasPrefix
  rw [hc, (prefix_encStr _ _ _ _ _ _).1, (prefix_encStr _ _ _ _ _ _).2]
  cases type
  · simpa using hspec
  · simpa using hspec


/-! ### memory rounding -/


/-- the `uint32_t` memory rounding of `argon2_ctx` computes, without overflow,
    `⌊max(m, 8·lanes) / (4·lanes)⌋` columns per segment -/
theorem instance_eq (t m lanes threads : UInt32) (h1 : 1 ≤ lanes.toNat) (h2 : lanes.toNat ≤ 0xFFFFFF) :
    (argon2_instance t m lanes threads).segment_length.toNat = max m.toNat (8 * lanes.toNat) / (4 * lanes.toNat) ∧
    (argon2_instance t m lanes threads).memory_blocks.toNat =
      max m.toNat (8 * lanes.toNat) / (4 * lanes.toNat) * (4 * lanes.toNat) ∧
    (argon2_instance t m lanes threads).lane_length.toNat = 4 * (max m.toNat (8 * lanes.toNat) / (4 * lanes.toNat)) := by
  have hm := m.toNat_lt
  have e8 : (2 * ARGON2_SYNC_POINTS * lanes).toNat = 8 * lanes.toNat := by
    simp only [ARGON2_SYNC_POINTS, UInt32.toNat_mul]
    have : (2 : UInt32).toNat = 2 := rfl
    have : (4 : UInt32).toNat = 4 := rfl
    simp; omega
  have e4 : (lanes * ARGON2_SYNC_POINTS).toNat = 4 * lanes.toNat := by
    simp only [ARGON2_SYNC_POINTS, UInt32.toNat_mul]
    simp; omega
  have emb : (if m < 2 * ARGON2_SYNC_POINTS * lanes then 2 * ARGON2_SYNC_POINTS * lanes else m).toNat =
      max m.toNat (8 * lanes.toNat) := by
    by_cases hlt : m < 2 * ARGON2_SYNC_POINTS * lanes
    · rw [if_pos hlt, e8]
      have := UInt32.lt_iff_toNat_lt.mp hlt
      rw [e8] at this; omega
    · rw [if_neg hlt]
      have := (not_congr UInt32.lt_iff_toNat_lt).mp hlt
      rw [e8] at this; omega
  have hx : max m.toNat (8 * lanes.toNat) < 2 ^ 32 := by omega
  have hq := Nat.div_mul_le_self (max m.toNat (8 * lanes.toNat)) (4 * lanes.toNat)
  have hq4 : max m.toNat (8 * lanes.toNat) / (4 * lanes.toNat) ≤ max m.toNat (8 * lanes.toNat) / 4 := by
    apply Nat.div_le_div_left (by omega) (by omega)
  have eseg : ((if m < 2 * ARGON2_SYNC_POINTS * lanes then 2 * ARGON2_SYNC_POINTS * lanes else m) /
      (lanes * ARGON2_SYNC_POINTS)).toNat = max m.toNat (8 * lanes.toNat) / (4 * lanes.toNat) := by
    rw [UInt32.toNat_div, emb, e4]
  unfold argon2_instance
  dsimp only
  refine ⟨eseg, ?_, ?_⟩
  · rw [UInt32.toNat_mul, eseg, e4]
    exact Nat.mod_eq_of_lt (by omega)
  · rw [UInt32.toNat_mul, eseg]
    have : ARGON2_SYNC_POINTS.toNat = 4 := rfl
    rw [this]
    rw [Nat.mod_eq_of_lt (by omega)]; omega

/-- properties of the rounded block count `M = q·(4L)`, `q = ⌊max(m, 8L)/(4L)⌋` -/
theorem rounding_props (m L : Nat) (hL : 1 ≤ L) :
    (4 * L) ∣ max m (8 * L) / (4 * L) * (4 * L) ∧ 8 * L ≤ max m (8 * L) / (4 * L) * (4 * L) ∧
      max m (8 * L) / (4 * L) * (4 * L) ≤ max m (8 * L) ∧ max m (8 * L) - max m (8 * L) / (4 * L) * (4 * L) < 4 * L := by
  have hd : 0 < 4 * L := by omega
  have h1 := Nat.div_mul_le_self (max m (8 * L)) (4 * L)
  have h2 := Nat.div_add_mod (max m (8 * L)) (4 * L)
  have h3 := Nat.mod_lt (max m (8 * L)) hd
  have h4 : 2 ≤ max m (8 * L) / (4 * L) := by
    rw [Nat.le_div_iff_mul_le hd]; omega
  have h5 : 2 * (4 * L) ≤ max m (8 * L) / (4 * L) * (4 * L) := Nat.mul_le_mul_right _ h4
  refine ⟨Nat.dvd_mul_left _ _, by omega, h1, ?_⟩
  rw [Nat.mul_comm] at h2
  generalize max m (8 * L) / (4 * L) * (4 * L) = M at *
  omega


/-! ### prefix dispatch and needs_rehash -/


theorem cc_some {pre s s' : Bytes} (h : cc pre s = some s') : s = pre ++ s' := by
  unfold cc at h
  by_cases hp : pre.isPrefixOf s = true
  · rw [if_pos hp] at h
    cases h
    obtain ⟨t, ht⟩ := List.isPrefixOf_iff_prefix.mp hp
    rw [← ht]; simp
  · rw [if_neg hp] at h; cases h

/-- a string that decodes starts with `$argon2i$v=` / `$argon2id$v=` -/
theorem decode_some_prefix {c0 : Context} {s : Bytes} {type : Argon2Type} {rc : Int} {d : Decoded}
    (h : argon2_decode_string c0 s type = (rc, some d)) : ∃ r, s = type.tag ++ lit_v ++ r := by
  unfold argon2_decode_string at h
  dsimp only at h
  cases h1 : cc type.tag s with
  | none => rw [h1] at h; dsimp only at h; cases h
  | some s1 =>
    rw [h1] at h; dsimp only at h
    cases h2 : cc lit_v s1 with
    | none => rw [h2] at h; dsimp only at h; cases h
    | some s2 =>
      refine ⟨s2, ?_⟩
      rw [cc_some h1, cc_some h2, List.append_assoc]

theorem prefix_of_tag_v (type : Argon2Type) (r : Bytes) :
    (argon2id_STRPREFIX.isPrefixOf (type.tag ++ lit_v ++ r) = (type == .id)) ∧
    (argon2i_STRPREFIX.isPrefixOf (type.tag ++ lit_v ++ r) = (type == .i)) := by
  cases type <;>
    simp [Argon2Type.tag, argon2id_STRPREFIX, argon2i_STRPREFIX, lit_argon2i, lit_argon2id, lit_v,
      List.isPrefixOf] <;> decide

/-- the context `_needs_rehash` passes to the decoder -/
def rehashCtx (n : Nat) : Context :=
  { outlen := u32 n, pwdlen := u32 n, saltlen := u32 n, t_cost := 0, m_cost := 0, lanes := 0, threads := 0 }

theorem needs_rehash_eq (str : Bytes) (opslimit memlimit : Nat) (type : Argon2Type) :
    needs_rehash str opslimit memlimit type =
      if opslimit > 4294967295 ∨ memlimit / 1024 > 4294967295 ∨ (cstr str).length ≥ 128 then { rc := -1, errno := EINVAL }
      else match (argon2_decode_string (rehashCtx (cstr str).length) (cstr str) type).2 with
        | none => { rc := -1, errno := EINVAL }
        | some d => if d.t_cost = opslimit ∧ d.m_cost = memlimit / 1024 then { rc := 0 } else { rc := 1 } := by
  unfold needs_rehash rehashCtx
  dsimp only
  by_cases h : opslimit > UINT32_MAX ∨ memlimit / 1024 > UINT32_MAX ∨ (cstr str).length ≥ STRBYTES
  · rw [if_pos h, if_pos (show opslimit > 4294967295 ∨ memlimit / 1024 > 4294967295 ∨ (cstr str).length ≥ 128 from h)]
  · rw [if_neg h, if_neg (show ¬ (opslimit > 4294967295 ∨ memlimit / 1024 > 4294967295 ∨ (cstr str).length ≥ 128) from h)]
    have h' : ¬ (opslimit > 4294967295 ∨ memlimit / 1024 > 4294967295 ∨ (cstr str).length ≥ 128) := h
    generalize argon2_decode_string _ (cstr str) type = R
    obtain ⟨rc, od⟩ := R
    cases od with
    | none => rfl
    | some d =>
      dsimp only
      rw [u32_id (show opslimit < 2 ^ 32 by omega), u32_id (show memlimit / 1024 < 2 ^ 32 by omega)]
      by_cases hc : d.t_cost = opslimit ∧ d.m_cost = memlimit / 1024
      · rw [if_pos hc, if_neg (by omega)]
      · rw [if_neg hc, if_pos (by omega)]

/-- `_needs_rehash` on a well-formed string: only `t` and `m` are compared (not `p`, not the lengths) -/
theorem needs_rehash_encStr (type : Argon2Type) (m t p : Nat) (salt out : Bytes) (opslimit memlimit : Nat)
    (ht : 1 ≤ t ∧ t < 2 ^ 32) (hp : 1 ≤ p ∧ p ≤ 0xFFFFFF) (hm : 8 * p ≤ m ∧ m < 2 ^ 32)
    (hs : 8 ≤ salt.length) (ho : 16 ≤ out.length)
    (hl : (encStr type m t p salt out).length < 128)
    (hops : opslimit ≤ 4294967295) (hmem : memlimit / 1024 ≤ 4294967295) :
    needs_rehash (encStr type m t p salt out) opslimit memlimit type =
      if t = opslimit ∧ m = memlimit / 1024 then { rc := 0 } else { rc := 1 } := by
  have hnz := encStr_ne_zero type m t p salt out
  have hc : cstr (encStr type m t p salt out) = encStr type m t p salt out := by
    have := cstr_append_zeros _ hnz 0
    simpa [zeros] using this
  obtain ⟨g1, g2⟩ := encStr_len_ge type m t p salt out
  have hmax : UINT32_MAX = 4294967295 := rfl
  rw [needs_rehash_eq, hc, if_neg (by omega)]
  have hdec := decode_encStr (rehashCtx (encStr type m t p salt out).length) type m t p salt out (by omega) (by omega)
    (by omega) (by unfold rehashCtx; dsimp only; rw [u32_id (by omega)]; exact g1)
    (by unfold rehashCtx; dsimp only; rw [u32_id (by omega)]; exact g2) (by rw [hmax]; omega) (by rw [hmax]; omega)
  have hval : argon2_validate_inputs
      { rehashCtx (encStr type m t p salt out).length with
        saltlen := salt.length, outlen := out.length, m_cost := m, t_cost := t, lanes := p, threads := p } = ARGON2_OK :=
    validate_ok _ (by
      unfold rehashCtx
      rw [u32_id (show (encStr type m t p salt out).length < 2 ^ 32 by omega)]
      constructor <;> dsimp only <;> (try simp) <;> (try omega))
  dsimp only at hdec
  rw [hval, if_neg (by decide)] at hdec
  rw [hdec]



theorem decDigits_len : ∀ (f n k : Nat), n < f → n < 10 ^ (k + 1) → (decDigits f n).length ≤ k + 1
  | 0, n, k, h, _ => by omega
  | f + 1, n, k, h, hk => by
    rw [decDigits]
    by_cases hn : n < 10
    · rw [if_pos hn]; simp
    · rw [if_neg hn]
      cases k with
      | zero => simp at hk; omega
      | succ k =>
        have : n / 10 < 10 ^ (k + 1) := by
          rw [Nat.pow_succ] at hk; omega
        have ih := decDigits_len f (n / 10) k (by omega) this
        simp only [List.length_append, List.length_cons, List.length_nil]
        omega

theorem decStr_len_le (n : Nat) (hn : n < 2 ^ 32) : (decStr n).length ≤ 10 :=
  decDigits_len (n + 1) n 9 (by omega) (by omega)


/-! ### scrypt: pickparams and the limit ladder -/


/-- the `for` loop of `pickparams`: the least k in [k0, k0 + fuel) with 2^k > maxN / 2, else k0 + fuel -/
theorem pickNLoop_spec (maxN : Nat) : ∀ (fuel k0 : Nat),
    k0 ≤ pickNLoop maxN fuel k0 ∧ pickNLoop maxN fuel k0 ≤ k0 + fuel ∧
      (pickNLoop maxN fuel k0 < k0 + fuel → 2 ^ pickNLoop maxN fuel k0 > maxN / 2) ∧
      (∀ j, k0 ≤ j → j < pickNLoop maxN fuel k0 → 2 ^ j ≤ maxN / 2)
  | 0, k0 => by
    rw [pickNLoop]
    exact ⟨Nat.le_refl _, Nat.le_refl _, fun h => absurd h (Nat.lt_irrefl _), fun j h1 h2 => by omega⟩
  | fuel + 1, k0 => by
    rw [pickNLoop]
    by_cases h : 2 ^ k0 > maxN / 2
    · rw [if_pos h]
      exact ⟨Nat.le_refl _, by omega, fun _ => h, fun j h1 h2 => by omega⟩
    · rw [if_neg h]
      obtain ⟨i1, i2, i3, i4⟩ := pickNLoop_spec maxN fuel (k0 + 1)
      refine ⟨by omega, by omega, fun hlt => i3 (by omega), fun j h1 h2 => ?_⟩
      by_cases hj : j = k0
      · subst hj; omega
      · exact i4 j (by omega) h2

theorem pickparams_props (opslimit memlimit : Nat) :
    (pickparams opslimit memlimit).r = 8 ∧ 1 ≤ (pickparams opslimit memlimit).N_log2 ∧
      (pickparams opslimit memlimit).N_log2 ≤ 63 ∧ 8 * (pickparams opslimit memlimit).p < 2 ^ 30 := by
  unfold pickparams
  dsimp only
  generalize (if opslimit < 32768 then 32768 else opslimit) = ops
  by_cases hb : ops < memlimit / 32
  · rw [if_pos hb]
    obtain ⟨i1, i2, _, _⟩ := pickNLoop_spec (ops / (8 * 4)) 62 1
    exact ⟨rfl, i1, by omega, by dsimp only; omega⟩
  · rw [if_neg hb]
    obtain ⟨i1, i2, _, _⟩ := pickNLoop_spec (memlimit / (8 * 128)) 62 1
    refine ⟨rfl, i1, by omega, ?_⟩
    dsimp only
    generalize ops / 4 / 2 ^ pickNLoop (memlimit / (8 * 128)) 62 1 = x
    have : (if x > 0x3fffffff then 0x3fffffff else x) ≤ 0x3fffffff := by split <;> omega
    generalize (if x > 0x3fffffff then 0x3fffffff else x) = y at this
    rw [u32_id (by omega)]
    omega

theorem two_pow_and_pred (k : Nat) : 2 ^ k &&& (2 ^ k - 1) = 0 := by
  rw [Nat.and_two_pow_sub_one_eq_mod]; exact Nat.mod_self _

/-- `crypto_pwhash_scryptsalsa208sha256` as a total function: the limit ladder, `pickparams`, then the
    scrypt core on (N = 2^N_log2, r = 8, p). All other checks of `escrypt_kdf` are dead for the picked
    parameters. -/
theorem crypto_pwhash_scrypt_eq (P : Prims) (outlen : Nat) (passwd salt : Bytes) (opslimit memlimit : Nat)
    (hpw : passwd.length < 2 ^ 64) :
    crypto_pwhash_scrypt P outlen passwd salt opslimit memlimit =
      if outlen > 0x1fffffffe0 then { rc := -1, errno := EFBIG }
      else if outlen < 16 then { rc := -1, errno := EINVAL }
      else if (pickparams opslimit memlimit).N_log2 ≥ 32 then { rc := -1, errno := EFBIG }
      else if (pickparams opslimit memlimit).p = 0 then { rc := -1, errno := EINVAL }
      else { rc := 0, out := P.scrypt passwd (salt.take 32) (2 ^ (pickparams opslimit memlimit).N_log2) 8
                               (pickparams opslimit memlimit).p outlen } := by
  obtain ⟨hr, hn1, hn2, hp⟩ := pickparams_props opslimit memlimit
  unfold crypto_pwhash_scrypt
  by_cases h1 : outlen > 0x1fffffffe0
  · rw [if_pos (show passwd.length > SIZE_MAX ∨ outlen > scrypt_BYTES_MAX from Or.inr h1), if_pos h1]
  rw [if_neg (show ¬ (passwd.length > SIZE_MAX ∨ outlen > scrypt_BYTES_MAX) from by
    rintro (h | h)
    · have : passwd.length > 18446744073709551615 := h
      omega
    · exact h1 h), if_neg h1]
  by_cases h2 : outlen < 16
  · rw [if_pos (show outlen < scrypt_BYTES_MIN from h2), if_pos h2]
  rw [if_neg (show ¬ outlen < scrypt_BYTES_MIN from h2), if_neg h2]
  dsimp only
  unfold crypto_pwhash_scrypt_ll escrypt_kdf
  rw [hr]
  generalize (pickparams opslimit memlimit).N_log2 = k at *
  generalize (pickparams opslimit memlimit).p = p at *
  rw [if_neg (by omega), if_neg (by omega)]
  have hpow32 : (2 : Nat) ^ 32 = 4294967296 := by decide
  by_cases h3 : k ≥ 32
  · have : 2 ^ 32 ≤ 2 ^ k := Nat.pow_le_pow_right (by omega) h3
    rw [if_pos (show 2 ^ k > UINT32_MAX from by rw [show UINT32_MAX = 4294967295 from rfl]; omega), if_pos h3]
  have hk : 2 ^ k < 2 ^ 32 := Nat.pow_lt_pow_right (by omega) (by omega)
  have hk2 : 2 ≤ 2 ^ k := by
    have : 2 ^ 1 ≤ 2 ^ k := Nat.pow_le_pow_right (by omega) hn1
    omega
  rw [if_neg (show ¬ 2 ^ k > UINT32_MAX from by rw [show UINT32_MAX = 4294967295 from rfl]; omega), if_neg h3]
  rw [if_neg (by rw [two_pow_and_pred]; omega)]
  by_cases h4 : p = 0
  · rw [if_pos (Or.inr h4), if_pos h4]
  rw [if_neg (by omega), if_neg h4]
  rw [if_neg]
  · rfl
  · rw [show SIZE_MAX = 18446744073709551615 from rfl]
    have h5 : 8 ≤ 18446744073709551615 / 128 / p := by
      rw [Nat.le_div_iff_mul_le (by omega)]; omega
    omega


/-! ### verification of arbitrary strings -/


/-- the public verifier on a well-formed string -/
theorem str_verify_encStr (P : Prims) (type : Argon2Type) (passwd salt out : Bytes) (t m p : Nat)
    (hpw : passwd.length ≤ 4294967295) (hs : 8 ≤ salt.length) (ho : 16 ≤ out.length)
    (ht : 1 ≤ t ∧ t ≤ 4294967295) (hp : 1 ≤ p ∧ p ≤ 0xFFFFFF) (hm : 8 * p ≤ m ∧ m ≤ 4294967295)
    (hl : (encStr type m t p salt out).length ≤ 4294967295) :
    crypto_pwhash_argon2_str_verify P type (encStr type m t p salt out) passwd =
      if P.argon2 type.y passwd salt t m p out.length = out then { rc := 0 } else { rc := -1, errno := EINVAL } := by
  have hc : cstr (encStr type m t p salt out) = encStr type m t p salt out := by
    have := cstr_append_zeros _ (encStr_ne_zero type m t p salt out) 0
    simpa [zeros] using this
  unfold crypto_pwhash_argon2_str_verify
  rw [if_neg (show ¬ passwd.length > PASSWD_MAX from by rw [show PASSWD_MAX = 4294967295 from rfl]; omega),
    if_neg (show ¬ passwd.length < PASSWD_MIN from Nat.not_lt_zero _)]
  dsimp only
  rw [hc, argon2_verify_encStr P type passwd salt out t m p hpw hs ho ht hp hm hl]
  by_cases he : P.argon2 type.y passwd salt t m p out.length = out
  · rw [if_pos he, if_pos he, if_pos rfl]
  · rw [if_neg he, if_neg he, if_neg (by decide), if_pos rfl]

/-- whenever the decoder returns no context its return code is an error code -/
theorem decode_none_rc {c0 : Context} {s : Bytes} {type : Argon2Type} {rc : Int}
    (h : argon2_decode_string c0 s type = (rc, none)) : rc ≠ ARGON2_OK := by
  unfold argon2_decode_string at h
  dsimp only at h
  repeat' split at h
  all_goals first
    | (cases h; decide)
    | (cases h; assumption)
    | (cases h)

/-- a string that does not decode never verifies -/
theorem str_verify_malformed (P : Prims) (type : Argon2Type) (str passwd : Bytes)
    (h : (argon2_decode_string
            { outlen := (cstr str).length, pwdNull := true, pwdlen := 0, saltlen := (cstr str).length, adNull := false,
              adlen := (cstr str).length, t_cost := 0, m_cost := 0, lanes := 0, threads := 0 } (cstr str) type).2 = none) :
    (crypto_pwhash_argon2_str_verify P type str passwd).rc = -1 := by
  unfold crypto_pwhash_argon2_str_verify
  split
  · rfl
  split
  · rfl
  dsimp only
  have hne : argon2_verify P (cstr str) false passwd type ≠ ARGON2_OK := by
    unfold argon2_verify
    dsimp only
    split
    · decide
    · generalize hd : argon2_decode_string _ (cstr str) type = R at h
      obtain ⟨rc, od⟩ := R
      dsimp only at h
      subst h
      dsimp only
      -- the decoder returns a non-zero code whenever it returns no context
      have := decode_none_rc hd
      exact this
  rw [if_neg hne]
  split <;> rfl



/-- a successful decode returns ARGON2_OK and the decoded context passed `argon2_validate_inputs` -/
theorem decode_some_valid {c0 : Context} {s : Bytes} {type : Argon2Type} {rc : Int} {d : Decoded}
    (h : argon2_decode_string c0 s type = (rc, some d)) :
    rc = ARGON2_OK ∧
      argon2_validate_inputs { c0 with saltlen := d.salt.length, outlen := d.out.length, m_cost := d.m_cost,
                                       t_cost := d.t_cost, lanes := d.lanes, threads := d.lanes } = ARGON2_OK := by
  unfold argon2_decode_string at h
  dsimp only at h
  repeat' split at h
  all_goals first
    | (cases h; done)
    | (cases h
       rename_i hv _
       exact ⟨rfl, Decidable.not_not.mp hv⟩)

/-- `crypto_pwhash_argon2{i,id}_str_verify` returns 0 exactly when the string decodes and the tag
    recomputed for the presented password with the decoded (t, m, p, salt, tag length) equals the
    decoded tag -/
theorem str_verify_iff (P : Prims) (type : Argon2Type) (str passwd : Bytes)
    (hpw : passwd.length ≤ 4294967295) (hlen : (cstr str).length ≤ 4294967295) :
    (crypto_pwhash_argon2_str_verify P type str passwd).rc = 0 ↔
      ∃ d, (argon2_decode_string (verifyCtx (cstr str).length) (cstr str) type).2 = some d ∧
        P.argon2 type.y passwd d.salt d.t_cost d.m_cost d.lanes d.out.length = d.out := by
  unfold crypto_pwhash_argon2_str_verify
  rw [if_neg (show ¬ passwd.length > PASSWD_MAX from by rw [show PASSWD_MAX = 4294967295 from rfl]; omega),
    if_neg (show ¬ passwd.length < PASSWD_MIN from Nat.not_lt_zero _)]
  dsimp only
  have key : argon2_verify P (cstr str) false passwd type = ARGON2_OK ↔
      ∃ d, (argon2_decode_string (verifyCtx (cstr str).length) (cstr str) type).2 = some d ∧
        P.argon2 type.y passwd d.salt d.t_cost d.m_cost d.lanes d.out.length = d.out := by
    unfold argon2_verify verifyCtx
    dsimp only
    rw [if_neg (show ¬ (cstr str).length > UINT32_MAX from by rw [show UINT32_MAX = 4294967295 from rfl]; omega)]
    generalize hd : argon2_decode_string _ (cstr str) type = R
    obtain ⟨rc, od⟩ := R
    cases od with
    | none =>
      dsimp only
      constructor
      · intro h; exact absurd h (decode_none_rc hd)
      · rintro ⟨d, h, _⟩; cases h
    | some d =>
      dsimp only
      obtain ⟨_, hv⟩ := decode_some_valid hd
      have hc := validate_ok_of _ hv
      obtain ⟨c1, c2, c3, c4, c5, c6, c7, c8, c9, c10⟩ := hc
      dsimp only at c1 c2 c3 c4 c5 c6 c7 c8 c9 c10
      rw [argon2_hash_raw_ok P d.t_cost d.m_cost d.lanes false passwd d.salt d.out.length type (by omega) (by omega) (by omega)
        (by unfold hashCtx
            rw [u32_id (show d.out.length < 2 ^ 32 by omega), u32_id (show passwd.length < 2 ^ 32 by omega),
              u32_id (show d.salt.length < 2 ^ 32 by omega)]
            constructor <;> dsimp only <;> (try simp) <;> (try omega))]
      dsimp only
      by_cases he : P.argon2 type.y passwd d.salt d.t_cost d.m_cost d.lanes d.out.length = d.out
      · rw [if_neg (by simp [memNe, he])]
        exact ⟨fun _ => ⟨d, rfl, he⟩, fun _ => rfl⟩
      · rw [if_pos ⟨rfl, by simp [memNe, he]⟩]
        constructor
        · intro h; exact absurd h (by decide)
        · rintro ⟨d', h1, h2⟩
          cases h1
          exact absurd h2 he
  rw [← key]
  by_cases hk : argon2_verify P (cstr str) false passwd type = ARGON2_OK
  · rw [if_pos hk]; exact ⟨fun _ => hk, fun _ => rfl⟩
  · rw [if_neg hk]
    constructor
    · intro h
      split at h <;> exact absurd h (by decide)
    · intro h; exact absurd h hk


/-! ### decode_decimal accepts exactly the minimal representations -/


set_option maxRecDepth 100000 in
theorem digitChar_of_isDigit : ∀ c : UInt8, isDigit c = true → digitChar (c.toNat - 48) = c ∧ c.toNat - 48 < 10 ∧
    (c ≠ 48 → 1 ≤ c.toNat - 48) := by decide +kernel

theorem exists_snoc : ∀ (l : Bytes), l ≠ [] → ∃ L b, l = L ++ [b]
  | [], h => absurd rfl h
  | [a], _ => ⟨[], a, rfl⟩
  | a :: b :: r, _ => by
    obtain ⟨L, c, h⟩ := exists_snoc (b :: r) (by simp)
    exact ⟨a :: L, c, by rw [h]; rfl⟩

theorem digitsVal_ge_one (ds : Bytes) (c : UInt8) (hc : isDigit c = true) (h48 : c ≠ 48) : 1 ≤ digitsVal (c :: ds) := by
  have := (digitChar_of_isDigit c hc).2.2 h48
  have h2 := digitsValAcc_ge ds (0 * 10 + (c.toNat - 48))
  unfold digitsVal
  rw [digitsValAcc]
  omega

/-- a non-empty digit string without superfluous leading zero is the minimal representation of its value -/
theorem decStr_digitsVal : ∀ (n : Nat) (ds : Bytes), ds.length = n → (∀ c ∈ ds, isDigit c = true) → ds ≠ [] →
    (ds.head? = some 48 → ds.length = 1) → decStr (digitsVal ds) = ds
  | 0, ds, hl, _, hne, _ => by
    have : ds = [] := List.length_eq_zero_iff.mp hl
    exact absurd this hne
  | n + 1, ds, hl, hd, hne, h0 => by
    obtain ⟨L, b, rfl⟩ := exists_snoc ds hne
    have hb := hd b (by simp)
    obtain ⟨b1, b2, _⟩ := digitChar_of_isDigit b hb
    have hval : digitsVal (L ++ [b]) = digitsVal L * 10 + (b.toNat - 48) := by
      unfold digitsVal; rw [digitsValAcc_append]; rfl
    by_cases hL : L = []
    · subst hL
      have : digitsVal ([] ++ [b]) = b.toNat - 48 := by rw [hval]; simp [digitsVal, digitsValAcc]
      rw [this, decStr, decDigits, if_pos b2, b1]; rfl
    · have hLl : L.length = n := by simp at hl; omega
      have hLd : ∀ c ∈ L, isDigit c = true := fun c hc => hd c (by simp [hc])
      have hhead : (L ++ [b]).head? = L.head? := head?_append_ne_nil L [b] hL
      have hL48 : L.head? ≠ some 48 := by
        intro h
        have := h0 (by rw [hhead]; exact h)
        cases L with
        | nil => exact hL rfl
        | cons a r => simp at this
      have ih := decStr_digitsVal n L hLl hLd hL (fun h => absurd h hL48)
      have hge : 1 ≤ digitsVal L := by
        cases L with
        | nil => exact absurd rfl hL
        | cons a r =>
          exact digitsVal_ge_one r a (hLd a (by simp)) (by intro e; exact hL48 (by simp [e]))
      rw [hval]
      generalize hv : digitsVal L = v at *
      rw [decStr, decDigits, if_neg (by omega)]
      have e1 : (v * 10 + (b.toNat - 48)) / 10 = v := by omega
      have e2 : (v * 10 + (b.toNat - 48)) % 10 = b.toNat - 48 := by omega
      rw [e1, e2, b1, decDigits_fuel _ (v + 1) v (by omega) (by omega)]
      rw [show decDigits (v + 1) v = decStr v from rfl, ih]

theorem dropWhile_stop (p : UInt8 → Bool) : ∀ (s : Bytes) c r, s.dropWhile p = c :: r → p c = false
  | [], c, r, h => by simp at h
  | a :: s, c, r, h => by
    by_cases ha : p a = true
    · rw [List.dropWhile_cons, if_pos ha] at h
      exact dropWhile_stop p s c r h
    · rw [List.dropWhile_cons, if_neg ha] at h
      cases h
      simpa using ha

theorem takeWhile_all (p : UInt8 → Bool) : ∀ (s : Bytes), ∀ c ∈ s.takeWhile p, p c = true
  | [], c, h => by simp at h
  | a :: s, c, h => by
    by_cases ha : p a = true
    · rw [List.takeWhile_cons, if_pos ha] at h
      rcases List.mem_cons.mp h with rfl | h
      · exact ha
      · exact takeWhile_all p s c h
    · rw [List.takeWhile_cons, if_neg ha] at h; simp at h

/-- `DECIMAL_U32` accepts EXACTLY the minimal decimal representations of the numbers below 2^32 (followed
    by a non-digit or the end of the string), and returns the number and the rest -/
theorem decimalU32_iff (s : Bytes) (v : Nat) (rest : Bytes) :
    decimalU32 s = some (v, rest) ↔ (s = decStr v ++ rest ∧ v < 2 ^ 32 ∧ DecStop rest) := by
  constructor
  · intro h
    rw [decimalU32_eq] at h
    by_cases hc : s.takeWhile isDigit ≠ [] ∧ (s.head? = some 48 → (s.takeWhile isDigit).length = 1) ∧
        digitsVal (s.takeWhile isDigit) < 2 ^ 32
    · rw [if_pos hc] at h
      simp only [Option.some.injEq, Prod.mk.injEq] at h
      obtain ⟨hv, hr⟩ := h
      obtain ⟨c1, c2, c3⟩ := hc
      have hsplit : s.takeWhile isDigit ++ s.dropWhile isDigit = s := List.takeWhile_append_dropWhile
      have hcanon := decStr_digitsVal _ (s.takeWhile isDigit) rfl (takeWhile_all isDigit s) c1 (by
        intro h48
        apply c2
        rw [← hsplit, head?_append_ne_nil _ _ c1]; exact h48)
      refine ⟨?_, by rw [← hv]; exact c3, ?_⟩
      · rw [← hv, hcanon, ← hr]; exact hsplit.symm
      · intro c r e; rw [← hr] at e; exact dropWhile_stop isDigit s c r e
    · rw [if_neg hc] at h; cases h
  · rintro ⟨rfl, hv, hr⟩
    exact decimalU32_decStr v hv rest hr


end Sodium.PwhashP
