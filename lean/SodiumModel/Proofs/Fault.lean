import SodiumModel.Model.Fault
/-
  Helper lemmas for C20 (allocation failure). Put all lemmas in namespace Sodium.FaultP.
-/
open Sodium Sodium.Model
namespace Sodium.FaultP

end Sodium.FaultP
