import SodiumModel.Model.Fault
/-
  Helper lemmas for C20 (allocation failure). Put all lemmas in namespace Sodium.FaultP.

  Method: each straight-line program is shown equal to an explicit, oracle-free "outcome" function of
  the Boolean answers `ok n, ok (n+1), …` it consults (`ctxOut`, `hashOut`, `verifyOut`, …); the
  properties of the outcome functions are then finite statements over `Bool`s closed by `decide`.
-/
open Sodium Sodium.Model Sodium.Model.Fault
namespace Sodium.FaultP

/-- explicit outcome of `argon2Ctx` started at request `n`, as a function of the three answers -/
def ctxOut (b0 b1 b2 : Bool) (n : Nat) (evs : List Ev) : Bool × St :=
  if b0 then
    if b1 then
      if b2 then
        (true, ⟨n+3, .release .malloc (n+1) :: .release .mmap (n+2) :: .release .malloc n ::
                .alloc .mmap (n+2) :: .alloc .malloc (n+1) :: .alloc .malloc n :: evs⟩)
      else
        (false, ⟨n+3, .release .malloc n :: .release .malloc (n+1) ::
                .failed .mmap (n+2) :: .alloc .malloc (n+1) :: .alloc .malloc n :: evs⟩)
    else (false, ⟨n+2, .release .malloc n :: .failed .malloc (n+1) :: .alloc .malloc n :: evs⟩)
  else (false, ⟨n+1, .failed .malloc n :: evs⟩)

theorem argon2Ctx_eq (ok : Nat → Bool) (n : Nat) (evs : List Ev) :
    argon2Ctx ok ⟨n, evs⟩ = ctxOut (ok n) (ok (n+1)) (ok (n+2)) n evs := by
  cases h0 : ok n <;> cases h1 : ok (n+1) <;> cases h2 : ok (n+2) <;>
    simp [ctxOut, argon2Ctx, request, release, bind, pure, StateT.bind, StateT.pure, h0, h1, h2]

/-- explicit outcome of `argon2Hash` started at request `n` -/
def hashOut (b0 b1 b2 b3 : Bool) (n : Nat) (evs : List Ev) : Bool × St :=
  if b0 then
    let r := ctxOut b1 b2 b3 (n+1) (.alloc .malloc n :: evs)
    (r.1, ⟨r.2.next, .release .malloc n :: r.2.evs⟩)
  else (false, ⟨n+1, .failed .malloc n :: evs⟩)

theorem argon2Hash_eq (ok : Nat → Bool) (n : Nat) (evs : List Ev) :
    argon2Hash ok ⟨n, evs⟩ = hashOut (ok n) (ok (n+1)) (ok (n+2)) (ok (n+3)) n evs := by
  cases h0 : ok n <;>
    simp [hashOut, argon2Hash, argon2Ctx_eq, request, release, bind, pure, StateT.bind, StateT.pure, h0]

/-- explicit outcome of `argon2Verify` from the initial state -/
def verifyOut (b0 b1 b2 b3 b4 b5 b6 b7 d m : Bool) : Int × St :=
  let e0 : Ev := if b0 then .alloc .malloc 0 else .failed .malloc 0
  let e1 : Ev := if b1 then .alloc .malloc 1 else .failed .malloc 1
  let e2 : Ev := if b2 then .alloc .malloc 2 else .failed .malloc 2
  let r0 : List Ev := if b0 then [.release .malloc 0] else []
  let r1 : List Ev := if b1 then [.release .malloc 1] else []
  let r2 : List Ev := if b2 then [.release .malloc 2] else []
  if b0 && b1 && b2 then
    if b3 then
      if d then
        let r := hashOut b4 b5 b6 b7 4 [.alloc .malloc 3, e2, e1, e0]
        (if r.1 && m then 0 else -1,
          ⟨r.2.next, .release .malloc 2 :: .release .malloc 3 :: .release .malloc 1 :: .release .malloc 0 :: r.2.evs⟩)
      else
        (-1, ⟨4, [.release .malloc 3, .release .malloc 2, .release .malloc 1, .release .malloc 0,
                  .alloc .malloc 3, e2, e1, e0]⟩)
    else (-1, ⟨4, [.release .malloc 2, .release .malloc 1, .release .malloc 0, .failed .malloc 3, e2, e1, e0]⟩)
  else (-1, ⟨3, r2 ++ r1 ++ r0 ++ [e2, e1, e0]⟩)

theorem argon2Verify_eq (ok : Nat → Bool) (d m : Bool) :
    argon2Verify ok d m {} =
      verifyOut (ok 0) (ok 1) (ok 2) (ok 3) (ok 4) (ok 5) (ok 6) (ok 7) d m := by
  cases h0 : ok 0 <;> cases h1 : ok 1 <;> cases h2 : ok 2 <;> cases h3 : ok 3 <;> cases d <;>
    simp [verifyOut, argon2Verify, argon2Hash_eq, request, release, bind, pure, StateT.bind, StateT.pure,
      h0, h1, h2, h3]



def Good (rc : Int) (evs : List Ev) : Prop :=
  (anyFailed evs = true → rc = -1) ∧ live evs = [] ∧ badRelease evs = false

instance (rc : Int) (evs : List Ev) : Decidable (Good rc evs) := by unfold Good; infer_instance

theorem verifyOut_good : ∀ b0 b1 b2 b3 b4 b5 b6 b7 d m : Bool,
    Good (verifyOut b0 b1 b2 b3 b4 b5 b6 b7 d m).1 (verifyOut b0 b1 b2 b3 b4 b5 b6 b7 d m).2.evs.reverse := by
  decide

theorem verifyOut_rc : ∀ b0 b1 b2 b3 b4 b5 b6 b7 d m : Bool,
    decide ((verifyOut b0 b1 b2 b3 b4 b5 b6 b7 d m).1 = 0) =
      (d && m && b0 && b1 && b2 && b3 && b4 && b5 && b6 && b7) := by
  decide

/-! ### pwhash, needsRehash, scrypt, sodiumMalloc -/

def pwhashOut (b0 b1 b2 b3 : Bool) : Int × St :=
  let r := hashOut b0 b1 b2 b3 0 []
  (if r.1 then 0 else -1, r.2)

theorem pwhash_eq (ok : Nat → Bool) :
    pwhash ok {} = pwhashOut (ok 0) (ok 1) (ok 2) (ok 3) := by
  simp [pwhashOut, pwhash, argon2Hash_eq, bind, pure, StateT.bind, StateT.pure]

theorem pwhashOut_good : ∀ b0 b1 b2 b3 : Bool,
    Good (pwhashOut b0 b1 b2 b3).1 (pwhashOut b0 b1 b2 b3).2.evs.reverse := by
  decide

theorem pwhashOut_rc : ∀ b0 b1 b2 b3 : Bool,
    decide ((pwhashOut b0 b1 b2 b3).1 = 0) = (b0 && b1 && b2 && b3) := by
  decide

def needsRehashOut (b0 : Bool) (res : Int) : Int × St :=
  if b0 then (res, ⟨1, [.release .calloc 0, .alloc .calloc 0]⟩) else (-1, ⟨1, [.failed .calloc 0]⟩)

theorem needsRehash_eq (ok : Nat → Bool) (res : Int) :
    needsRehash ok res {} = needsRehashOut (ok 0) res := by
  cases h0 : ok 0 <;>
    simp [needsRehashOut, needsRehash, request, release, bind, pure, StateT.bind, StateT.pure, h0]

theorem needsRehashOut_good (b0 : Bool) (res : Int) :
    Good (needsRehashOut b0 res).1 (needsRehashOut b0 res).2.evs.reverse := by
  cases b0 <;> simp [Good, needsRehashOut, anyFailed, live, badRelease]

def scryptOut (b0 m : Bool) : Int × St :=
  if b0 then (if m then 0 else -1, ⟨1, [.release .mmap 0, .alloc .mmap 0]⟩) else (-1, ⟨1, [.failed .mmap 0]⟩)

theorem scrypt_eq (ok : Nat → Bool) (m : Bool) :
    scrypt ok m {} = scryptOut (ok 0) m := by
  cases h0 : ok 0 <;>
    simp [scryptOut, scrypt, request, release, bind, pure, StateT.bind, StateT.pure, h0]

theorem scryptOut_good : ∀ b0 m : Bool,
    Good (scryptOut b0 m).1 (scryptOut b0 m).2.evs.reverse := by
  decide

theorem scryptOut_rc : ∀ b0 m : Bool, decide ((scryptOut b0 m).1 = 0) = (b0 && m) := by
  decide

theorem sodiumMalloc_rc (ok : Nat → Bool) : (run (sodiumMalloc ok)).rc = 0 ↔ ok 0 = true := by
  cases h0 : ok 0 <;>
    simp [run, sodiumMalloc, request, bind, pure, StateT.bind, StateT.pure, h0]

/-! ### `run` of each program -/

theorem run_eq (p : M Int) : run p = ⟨(p {}).1, (p {}).2.evs.reverse⟩ := rfl

theorem run_verify_good (ok : Nat → Bool) (d m : Bool) :
    Good (run (argon2Verify ok d m)).rc (run (argon2Verify ok d m)).evs := by
  rw [run_eq, argon2Verify_eq]; exact verifyOut_good ..

theorem run_pwhash_good (ok : Nat → Bool) :
    Good (run (pwhash ok)).rc (run (pwhash ok)).evs := by
  rw [run_eq, pwhash_eq]; exact pwhashOut_good ..

theorem run_needsRehash_good (ok : Nat → Bool) (res : Int) :
    Good (run (needsRehash ok res)).rc (run (needsRehash ok res)).evs := by
  rw [run_eq, needsRehash_eq]; exact needsRehashOut_good ..

theorem run_scrypt_good (ok : Nat → Bool) (m : Bool) :
    Good (run (scrypt ok m)).rc (run (scrypt ok m)).evs := by
  rw [run_eq, scrypt_eq]; exact scryptOut_good ..

theorem forall_lt8 (ok : Nat → Bool) :
    (∀ i, i < 8 → ok i = true) ↔
      (ok 0 = true ∧ ok 1 = true ∧ ok 2 = true ∧ ok 3 = true ∧ ok 4 = true ∧ ok 5 = true ∧
        ok 6 = true ∧ ok 7 = true) := by
  constructor
  · intro h
    exact ⟨h 0 (by omega), h 1 (by omega), h 2 (by omega), h 3 (by omega), h 4 (by omega),
      h 5 (by omega), h 6 (by omega), h 7 (by omega)⟩
  · rintro ⟨h0, h1, h2, h3, h4, h5, h6, h7⟩ i hi
    match i, hi with
    | 0, _ => exact h0
    | 1, _ => exact h1
    | 2, _ => exact h2
    | 3, _ => exact h3
    | 4, _ => exact h4
    | 5, _ => exact h5
    | 6, _ => exact h6
    | 7, _ => exact h7
    | n + 8, h => omega

theorem run_pwhash_rc (ok : Nat → Bool) :
    (run (pwhash ok)).rc = 0 ↔ (ok 0 = true ∧ ok 1 = true ∧ ok 2 = true ∧ ok 3 = true) := by
  have h := pwhashOut_rc (ok 0) (ok 1) (ok 2) (ok 3)
  rw [run_eq, pwhash_eq]
  simpa [Bool.and_assoc] using congrArg (· = true) h

theorem run_verify_rc (ok : Nat → Bool) (d m : Bool) :
    (run (argon2Verify ok d m)).rc = 0 ↔ (d = true ∧ m = true ∧ ∀ i, i < 8 → ok i = true) := by
  have h := verifyOut_rc (ok 0) (ok 1) (ok 2) (ok 3) (ok 4) (ok 5) (ok 6) (ok 7) d m
  rw [run_eq, argon2Verify_eq, forall_lt8]
  simpa [Bool.and_assoc] using congrArg (· = true) h

theorem run_scrypt_rc (ok : Nat → Bool) (m : Bool) :
    (run (scrypt ok m)).rc = 0 ↔ (ok 0 = true ∧ m = true) := by
  have h := scryptOut_rc (ok 0) m
  rw [run_eq, scrypt_eq]
  simpa using congrArg (· = true) h

end Sodium.FaultP
