import SodiumModel.Model.ChachaSimd
import SodiumModel.Proofs.CoresRef
/-
  Helper lemmas for `Properties/C03Simd.lean`: the vectorised ChaCha20 (dolbeau u0/u1/u4/u8) modelled in
  `Model/ChachaSimd.lean` against the reference model `Model/CoresRef.lean`.
-/
open Sodium Sodium.Model Sodium.Model.CoresRef Sodium.Model.ChachaSimd Sodium.Spec Sodium.CoresRefP
namespace Sodium.ChachaSimdP

/-! ### words: rotations as byte permutations, xor-of-shifts, 64-bit views -/

/-- rotating a word by 16 bits permutes its four bytes (0 1 2 3) ↦ (2 3 0 1) -/
theorem rotl16_bytes (a0 a1 a2 a3 : UInt8) :
    ROTL32 (load32_le [a0, a1, a2, a3]) 16 = load32_le [a2, a3, a0, a1] := by
  apply UInt32.toNat_inj.mp
  have h0 := a0.toNat_lt; have h1 := a1.toNat_lt; have h2 := a2.toNat_lt; have h3 := a3.toNat_lt
  rw [load32_le_toNat]
  simp only [ROTL32, UInt32.toNat_or, UInt32.toNat_shiftLeft, UInt32.toNat_shiftRight]
  rw [load32_le_toNat]
  simp only [List.getD_cons_zero, List.getD_cons_succ]
  have e1 : (16 : UInt32).toNat % 32 = 16 := by decide
  have e2 : ((32 : UInt32) - 16).toNat % 32 = 16 := by decide
  rw [e1, e2]
  generalize hn : a0.toNat + 256 * a1.toNat + 65536 * a2.toNat + 16777216 * a3.toNat = n
  have : n <<< 16 % 2 ^ 32 = (a0.toNat + 256 * a1.toNat) <<< 16 := by
    rw [Nat.shiftLeft_eq, Nat.shiftLeft_eq]; omega
  rw [this, ← Nat.shiftLeft_add_eq_or_of_lt (by rw [Nat.shiftRight_eq_div_pow]; omega), Nat.shiftLeft_eq,
    Nat.shiftRight_eq_div_pow]
  omega

/-- rotating a word by 8 bits permutes its four bytes (0 1 2 3) ↦ (3 0 1 2) -/
theorem rotl8_bytes (a0 a1 a2 a3 : UInt8) :
    ROTL32 (load32_le [a0, a1, a2, a3]) 8 = load32_le [a3, a0, a1, a2] := by
  apply UInt32.toNat_inj.mp
  have h0 := a0.toNat_lt; have h1 := a1.toNat_lt; have h2 := a2.toNat_lt; have h3 := a3.toNat_lt
  rw [load32_le_toNat]
  simp only [ROTL32, UInt32.toNat_or, UInt32.toNat_shiftLeft, UInt32.toNat_shiftRight]
  rw [load32_le_toNat]
  simp only [List.getD_cons_zero, List.getD_cons_succ]
  have e1 : (8 : UInt32).toNat % 32 = 8 := by decide
  have e2 : ((32 : UInt32) - 8).toNat % 32 = 24 := by decide
  rw [e1, e2]
  generalize hn : a0.toNat + 256 * a1.toNat + 65536 * a2.toNat + 16777216 * a3.toNat = n
  have : n <<< 8 % 2 ^ 32 = (a0.toNat + 256 * a1.toNat + 65536 * a2.toNat) <<< 8 := by
    rw [Nat.shiftLeft_eq, Nat.shiftLeft_eq]; omega
  rw [this, ← Nat.shiftLeft_add_eq_or_of_lt (by rw [Nat.shiftRight_eq_div_pow]; omega), Nat.shiftLeft_eq,
    Nat.shiftRight_eq_div_pow]
  omega

/-- u1.h / u0.h build the 12-bit rotation with XOR instead of OR: the two shifted halves are disjoint -/
theorem xor_eq_or_12 (x : UInt32) : (x <<< 12) ^^^ (x >>> 20) = (x <<< 12) ||| (x >>> 20) := by
  apply UInt32.eq_of_toBitVec_eq
  apply BitVec.eq_of_getLsbD_eq
  intro i hi
  simp
  by_cases h : i < 12
  · simp [h]
  · have : x.toBitVec.getLsbD (20 + i) = false := BitVec.getLsbD_of_ge _ _ (by omega)
    simp [this]

theorem xor_eq_or_7 (x : UInt32) : (x <<< 7) ^^^ (x >>> 25) = (x <<< 7) ||| (x >>> 25) := by
  apply UInt32.eq_of_toBitVec_eq
  apply BitVec.eq_of_getLsbD_eq
  intro i hi
  simp
  by_cases h : i < 7
  · simp [h]
  · have : x.toBitVec.getLsbD (25 + i) = false := BitVec.getLsbD_of_ge _ _ (by omega)
    simp [this]

theorem rotl12 (x : UInt32) : ROTL32 x 12 = (x <<< 12) ||| (x >>> 20) := rfl
theorem rotl7 (x : UInt32) : ROTL32 x 7 = (x <<< 7) ||| (x >>> 25) := rfl

/-- low half of `lo | hi << 32` -/
theorem q_lo (a b : UInt32) : (a.toUInt64 ||| (b.toUInt64 <<< 32)).toUInt32 = a := by
  apply UInt32.toNat_inj.mp
  simp only [UInt64.toNat_toUInt32, UInt64.toNat_or, UInt64.toNat_shiftLeft, UInt32.toNat_toUInt64]
  have ha := a.toNat_lt; have hb := b.toNat_lt
  have e : (32 : UInt64).toNat % 64 = 32 := by decide
  rw [e]
  have : b.toNat <<< 32 % 2 ^ 64 = b.toNat <<< 32 := by rw [Nat.shiftLeft_eq]; omega
  rw [this, Nat.or_comm, ← Nat.shiftLeft_add_eq_or_of_lt (by omega), Nat.shiftLeft_eq]
  omega

/-- high half of `lo | hi << 32` -/
theorem q_hi (a b : UInt32) : ((a.toUInt64 ||| (b.toUInt64 <<< 32)) >>> 32).toUInt32 = b := by
  apply UInt32.toNat_inj.mp
  simp only [UInt64.toNat_toUInt32, UInt64.toNat_or, UInt64.toNat_shiftLeft, UInt32.toNat_toUInt64,
    UInt64.toNat_shiftRight]
  have ha := a.toNat_lt; have hb := b.toNat_lt
  have e : (32 : UInt64).toNat % 64 = 32 := by decide
  rw [e]
  have : b.toNat <<< 32 % 2 ^ 64 = b.toNat <<< 32 := by rw [Nat.shiftLeft_eq]; omega
  rw [this, Nat.or_comm, ← Nat.shiftLeft_add_eq_or_of_lt (by omega), Nat.shiftLeft_eq, Nat.shiftRight_eq_div_pow]
  omega

/-- the value of `lo | hi << 32` -/
theorem q_toNat (a b : UInt32) : (a.toUInt64 ||| (b.toUInt64 <<< 32)).toNat = a.toNat + 2 ^ 32 * b.toNat := by
  simp only [UInt64.toNat_or, UInt64.toNat_shiftLeft, UInt32.toNat_toUInt64]
  have ha := a.toNat_lt; have hb := b.toNat_lt
  have e : (32 : UInt64).toNat % 64 = 32 := by decide
  rw [e]
  have : b.toNat <<< 32 % 2 ^ 64 = b.toNat <<< 32 := by rw [Nat.shiftLeft_eq]; omega
  rw [this, Nat.or_comm, ← Nat.shiftLeft_add_eq_or_of_lt (by omega), Nat.shiftLeft_eq]
  omega

theorem V128.q0_ofQ (a b : UInt64) : (V128.ofQ a b).q0 = a := by
  apply UInt64.toNat_inj.mp
  rw [V128.q0, V128.ofQ, q_toNat]
  simp only [UInt64.toNat_toUInt32, UInt64.toNat_shiftRight]
  have e : (32 : UInt64).toNat % 64 = 32 := by decide
  have := a.toNat_lt
  rw [e, Nat.shiftRight_eq_div_pow]; omega

theorem V128.q1_ofQ (a b : UInt64) : (V128.ofQ a b).q1 = b := by
  apply UInt64.toNat_inj.mp
  rw [V128.q1, V128.ofQ, q_toNat]
  simp only [UInt64.toNat_toUInt32, UInt64.toNat_shiftRight]
  have e : (32 : UInt64).toNat % 64 = 32 := by decide
  have := b.toNat_lt
  rw [e, Nat.shiftRight_eq_div_pow]; omega

theorem V128.ofQ_q (a0 a1 b0 b1 : UInt32) :
    V128.ofQ (a0.toUInt64 ||| (a1.toUInt64 <<< 32)) (b0.toUInt64 ||| (b1.toUInt64 <<< 32)) = ⟨a0, a1, b0, b1⟩ := by
  simp only [V128.ofQ, q_lo, q_hi]

/-- the 64-bit interleaves are interleaves of pairs of 32-bit lanes -/
theorem unpacklo_epi64_eq (a b : V128) : mm_unpacklo_epi64 a b = ⟨a.e0, a.e1, b.e0, b.e1⟩ := by
  simp only [mm_unpacklo_epi64, V128.q0, V128.ofQ_q]
theorem unpackhi_epi64_eq (a b : V128) : mm_unpackhi_epi64 a b = ⟨a.e2, a.e3, b.e2, b.e3⟩ := by
  simp only [mm_unpackhi_epi64, V128.q1, V128.ofQ_q]

/-! ### registers as bytes -/

theorem word_bytes (w : UInt32) : load32_le (store32_le w) = w := by
  have := load32_le_store32_le w []
  rwa [List.append_nil] at this

theorem load32_le_cons4 (a0 a1 a2 a3 : UInt8) (r : Bytes) :
    load32_le (a0 :: a1 :: a2 :: a3 :: r) = load32_le [a0, a1, a2, a3] := rfl

theorem drop4_store (w : UInt32) (r : Bytes) : (store32_le w ++ r).drop 4 = r := rfl
theorem drop8_store (w v : UInt32) (r : Bytes) : (store32_le w ++ (store32_le v ++ r)).drop 8 = r := rfl
theorem drop12_store (w v u : UInt32) (r : Bytes) :
    (store32_le w ++ (store32_le v ++ (store32_le u ++ r))).drop 12 = r := rfl

/-- a register loaded from the memory image of four words has those words as lanes -/
theorem ofBytes_words (a b c d : UInt32) (r : Bytes) :
    V128.ofBytes (store32_le a ++ (store32_le b ++ (store32_le c ++ (store32_le d ++ r)))) = ⟨a, b, c, d⟩ := by
  simp only [V128.ofBytes, drop4_store, drop8_store, drop12_store, load32_le_store32_le]

theorem loadu_words (a b c d : UInt32) : mm_loadu_si128 (words_mem a b c d) = ⟨a, b, c, d⟩ := by
  have := ofBytes_words a b c d []
  rwa [List.append_nil] at this

theorem V128.ofBytes_toBytes (v : V128) : V128.ofBytes v.toBytes = v := loadu_words v.e0 v.e1 v.e2 v.e3

theorem V128.toBytes_length (v : V128) : v.toBytes.length = 16 := rfl
theorem M256.toBytes_length (v : M256) : v.toBytes.length = 32 := rfl

theorem rot16_bytes : rot16.toBytes = [2, 3, 0, 1, 6, 7, 4, 5, 10, 11, 8, 9, 14, 15, 12, 13] := by decide
theorem rot8_bytes : rot8.toBytes = [3, 0, 1, 2, 7, 4, 5, 6, 11, 8, 9, 10, 15, 12, 13, 14] := by decide

/-- `_mm_shuffle_epi8(v, rot16)` rotates every 32-bit lane left by 16 -/
theorem shuffle_rot16 (v : V128) : mm_shuffle_epi8 v rot16 = V128.map32 (fun w => ROTL32 w 16) v := by
  obtain ⟨e0, e1, e2, e3⟩ := v
  simp only [mm_shuffle_epi8, rot16_bytes, V128.map32]
  conv => rhs; rw [← word_bytes e0, ← word_bytes e1, ← word_bytes e2, ← word_bytes e3]
  simp only [V128.toBytes, store32_le, List.cons_append, List.nil_append, List.map_cons, List.map_nil, rotl16_bytes]
  simp +decide [V128.ofBytes, load32_le_cons4]

/-- `_mm_shuffle_epi8(v, rot8)` rotates every 32-bit lane left by 8 -/
theorem shuffle_rot8 (v : V128) : mm_shuffle_epi8 v rot8 = V128.map32 (fun w => ROTL32 w 8) v := by
  obtain ⟨e0, e1, e2, e3⟩ := v
  simp only [mm_shuffle_epi8, rot8_bytes, V128.map32]
  conv => rhs; rw [← word_bytes e0, ← word_bytes e1, ← word_bytes e2, ← word_bytes e3]
  simp only [V128.toBytes, store32_le, List.cons_append, List.nil_append, List.map_cons, List.map_nil, rotl8_bytes]
  simp +decide [V128.ofBytes, load32_le_cons4]

theorem rot16_256_eq : rot16_256 = ⟨rot16, rot16⟩ := by decide
theorem rot8_256_eq : rot8_256 = ⟨rot8, rot8⟩ := by decide

theorem shuf93 (a : V128) : mm_shuffle_epi32 a 0x93 = ⟨a.e3, a.e0, a.e1, a.e2⟩ := rfl
theorem shuf4e (a : V128) : mm_shuffle_epi32 a 0x4e = ⟨a.e2, a.e3, a.e0, a.e1⟩ := rfl
theorem shuf39 (a : V128) : mm_shuffle_epi32 a 0x39 = ⟨a.e1, a.e2, a.e3, a.e0⟩ := rfl

/-! ### stores into a buffer -/

/-- bytes `a .. a+s` of a buffer -/
def seg (a s : Nat) (c : Bytes) : Bytes := (c.drop a).take s

theorem storeBytes_length (c : Bytes) (off : Nat) (b : Bytes) (h : off + b.length ≤ c.length) :
    (storeBytes c off b).length = c.length := by
  simp only [storeBytes, List.length_append, List.length_take, List.length_drop]; omega

/-- a segment after a store of the same size at an offset that is equal or does not overlap -/
theorem seg_storeBytes (a s off : Nat) (c b : Bytes) (hb : b.length = s) (hl : off + s ≤ c.length)
    (hd : a + s ≤ off ∨ off + s ≤ a ∨ off = a) :
    seg a s (storeBytes c off b) = if off = a then b else seg a s c := by
  apply List.ext_getElem?
  intro i
  by_cases hoa : off = a
  · subst hoa
    simp only [seg, storeBytes, if_true, List.getElem?_take, List.getElem?_drop, List.getElem?_append,
      List.length_take]
    by_cases hi : i < s
    · simp only [hi, if_true, Nat.min_eq_left (show off ≤ c.length by omega)]
      rw [if_neg (by omega), if_pos (by omega)]
      congr 1; omega
    · simp [hi]; omega
  · rw [if_neg hoa]
    simp only [seg, storeBytes, List.getElem?_take, List.getElem?_drop, List.getElem?_append,
      List.length_take, Nat.min_eq_left (show off ≤ c.length by omega), hb]
    by_cases hi : i < s
    · simp only [hi, if_true]
      rcases hd with h | h | h
      · rw [if_pos (by omega), if_pos (by omega)]
      · rw [if_neg (by omega), if_neg (by omega)]
        congr 1; omega
      · exact absurd h hoa
    · simp [hi]

/-- a store does not touch the buffer beyond its end -/
theorem drop_storeBytes (c : Bytes) (off : Nat) (b : Bytes) (n : Nat) (h : off + b.length ≤ n)
    (hl : off + b.length ≤ c.length) : (storeBytes c off b).drop n = c.drop n := by
  apply List.ext_getElem?
  intro i
  simp only [storeBytes, List.getElem?_drop, List.getElem?_append, List.length_take,
    Nat.min_eq_left (show off ≤ c.length by omega)]
  rw [if_neg (by omega), if_neg (by omega)]
  congr 1; omega

theorem take_add_seg (c : Bytes) (a s : Nat) : c.take (a + s) = c.take a ++ seg a s c := by
  rw [seg, List.take_add]

theorem take64_segs (c : Bytes) :
    c.take 64 = seg 0 16 c ++ (seg 16 16 c ++ (seg 32 16 c ++ seg 48 16 c)) := by
  rw [show 64 = 0 + 16 + 16 + 16 + 16 from rfl, take_add_seg, take_add_seg, take_add_seg, take_add_seg]
  simp

/-- a sequence of stores `(offset, bytes)` in program order -/
def storeAll (c : Bytes) : List (Nat × Bytes) → Bytes
  | [] => c
  | (off, b) :: l => storeAll (storeBytes c off b) l

/-- the bytes last stored at offset `a` (`dflt` if none) -/
def lastStore (a : Nat) (dflt : Bytes) : List (Nat × Bytes) → Bytes
  | [] => dflt
  | (off, b) :: l => lastStore a (if off = a then b else dflt) l

theorem storeAll_length (c : Bytes) (l : List (Nat × Bytes)) (h : ∀ p ∈ l, p.1 + p.2.length ≤ c.length) :
    (storeAll c l).length = c.length := by
  induction l generalizing c with
  | nil => rfl
  | cons p l ih =>
    obtain ⟨off, b⟩ := p
    have hp := h (off, b) (List.mem_cons_self)
    have hlen := storeBytes_length c off b hp
    rw [storeAll, ih _ (fun q hq => by rw [hlen]; exact h q (List.mem_cons_of_mem _ hq)), hlen]

/-- stores below `n` leave the buffer from `n` on unchanged -/
theorem storeAll_drop (c : Bytes) (n : Nat) (l : List (Nat × Bytes))
    (h : ∀ p ∈ l, p.1 + p.2.length ≤ n ∧ p.1 + p.2.length ≤ c.length) :
    (storeAll c l).drop n = c.drop n := by
  induction l generalizing c with
  | nil => rfl
  | cons p l ih =>
    obtain ⟨off, b⟩ := p
    have hp := h (off, b) (List.mem_cons_self)
    have hlen := storeBytes_length c off b hp.2
    rw [storeAll, ih _ (fun q hq => by rw [hlen]; exact h q (List.mem_cons_of_mem _ hq)),
      drop_storeBytes c off b n hp.1 hp.2]

/-- after a sequence of aligned stores of size `s`, the segment at `a` holds what was last stored there -/
theorem storeAll_seg (a s : Nat) (c : Bytes) (l : List (Nat × Bytes))
    (h : ∀ p ∈ l, p.2.length = s ∧ p.1 + s ≤ c.length ∧ (a + s ≤ p.1 ∨ p.1 + s ≤ a ∨ p.1 = a)) :
    seg a s (storeAll c l) = lastStore a (seg a s c) l := by
  induction l generalizing c with
  | nil => rfl
  | cons p l ih =>
    obtain ⟨off, b⟩ := p
    have hp := h (off, b) (List.mem_cons_self)
    have hlen := storeBytes_length c off b (by rw [hp.1]; exact hp.2.1)
    rw [storeAll, lastStore, ih _ (fun q hq => by rw [hlen]; exact h q (List.mem_cons_of_mem _ hq)),
      seg_storeBytes a s off c b hp.1 hp.2.1 hp.2.2]

theorem take_mul_segs (s : Nat) (c : Bytes) (n : Nat) :
    c.take (s * n) = (List.range n).flatMap (fun k => seg (s * k) s c) := by
  induction n with
  | zero => simp
  | succ n ih =>
    rw [Nat.mul_succ, take_add_seg, ih, List.range_succ, List.flatMap_append]
    simp

theorem aligned_disjoint (s k off : Nat) (h : off % s = 0) :
    s * k + s ≤ off ∨ off + s ≤ s * k ∨ off = s * k := by
  have hoff : off = s * (off / s) := by
    have := Nat.div_add_mod off s
    omega
  rcases Nat.lt_trichotomy (off / s) k with hlt | heq | hgt
  · right; left
    have := Nat.mul_le_mul_left s (show off / s + 1 ≤ k from hlt)
    rw [Nat.mul_succ] at this
    omega
  · right; right; rw [← heq]; exact hoff
  · left
    have := Nat.mul_le_mul_left s (show k + 1 ≤ off / s from hgt)
    rw [Nat.mul_succ] at this
    omega

/-- `n` aligned slots of size `s`, stores of size `s` at aligned offsets in any order: the buffer afterwards,
    in address order -/
theorem storeAll_aligned (s n : Nat) (c : Bytes) (l : List (Nat × Bytes))
    (hl : ∀ p ∈ l, p.2.length = s ∧ p.1 % s = 0 ∧ p.1 + s ≤ s * n) (hc : s * n ≤ c.length) :
    storeAll c l =
      (List.range n).flatMap (fun k => lastStore (s * k) (seg (s * k) s c) l) ++ c.drop (s * n) := by
  generalize hF : storeAll c l = F
  have hd : F.drop (s * n) = c.drop (s * n) := by
    subst hF
    apply storeAll_drop
    intro p hp
    have := hl p hp
    rw [this.1]; omega
  rw [← List.take_append_drop (s * n) F, hd, take_mul_segs]
  congr 1
  rw [List.flatMap_def, List.flatMap_def]
  congr 1
  apply List.map_congr_left
  intro k _
  subst hF
  apply storeAll_seg
  intro p hp
  have := hl p hp
  exact ⟨this.1, by omega, aligned_disjoint s k p.1 this.2.1⟩

/-- the four 16-byte stores of u1.h / u0.h -/
theorem store4x16 (c b0 b1 b2 b3 : Bytes) (h0 : b0.length = 16) (h1 : b1.length = 16) (h2 : b2.length = 16)
    (h3 : b3.length = 16) (hc : 64 ≤ c.length) :
    storeAll c [(0, b0), (16, b1), (32, b2), (48, b3)] = b0 ++ (b1 ++ (b2 ++ (b3 ++ c.drop 64))) := by
  generalize hF : storeAll c _ = F
  have hd : F.drop 64 = c.drop 64 := by
    subst hF
    apply storeAll_drop
    intro p hp
    simp only [List.mem_cons, List.mem_nil_iff, or_false] at hp
    rcases hp with rfl | rfl | rfl | rfl <;> simp only [h0, h1, h2, h3] <;> omega
  have hs : ∀ a, a = 0 ∨ a = 16 ∨ a = 32 ∨ a = 48 →
      seg a 16 F = lastStore a (seg a 16 c) [(0, b0), (16, b1), (32, b2), (48, b3)] := by
    intro a ha
    subst hF
    apply storeAll_seg
    intro p hp
    simp only [List.mem_cons, List.mem_nil_iff, or_false] at hp
    rcases hp with rfl | rfl | rfl | rfl <;> simp only [h0, h1, h2, h3, true_and] <;> omega
  rw [← List.take_append_drop 64 F, hd, take64_segs, hs 0 (by simp), hs 16 (by simp), hs 32 (by simp),
    hs 48 (by simp)]
  simp [lastStore]

theorem store4_v128 (c : Bytes) (v0 v1 v2 v3 : V128) (hc : 64 ≤ c.length) :
    storeBytes (storeBytes (storeBytes (storeBytes c 0 v0.toBytes) 16 v1.toBytes) 32 v2.toBytes) 48 v3.toBytes =
      v0.toBytes ++ (v1.toBytes ++ (v2.toBytes ++ (v3.toBytes ++ c.drop 64))) :=
  store4x16 c _ _ _ _ rfl rfl rfl rfl hc

/-! ### loops -/

/-- `for (i = 0; i < ROUNDS; i += 2)` runs the body ten times -/
theorem forUpBy2_rounds {α : Type} (body : α → α) (x : α) :
    ChachaSimd.forUpBy2 body ROUNDS 0 x = Chacha.iter body 10 x := rfl

theorem iter_conj {α β : Type} (F : α → α) (f : β → β) (g : β → α) (h : ∀ s, F (g s) = g (f s)) (n : Nat) (s : β) :
    Chacha.iter F n (g s) = g (Chacha.iter f n s) := by
  induction n generalizing s with
  | zero => rfl
  | succ n ih => simp only [Chacha.iter, h, ih]

/-! ### u1.h / u0.h: the row form -/

/-- the sixteen context words as four row registers -/
def rows (w : W16) : Rows :=
  ⟨⟨w.x0, w.x1, w.x2, w.x3⟩, ⟨w.x4, w.x5, w.x6, w.x7⟩, ⟨w.x8, w.x9, w.x10, w.x11⟩, ⟨w.x12, w.x13, w.x14, w.x15⟩⟩

set_option maxRecDepth 4000 in
/-- the loop body of u1.h / u0.h (column round, lane rotations of rows 0, 3, 2, column round, inverse lane
    rotations) is one double round on the sixteen words -/
theorem row_doubleRound_spec (w : W16) : row_doubleRound (rows w) = rows (chachaDoubleRound w) := by
  rw [chachaDoubleRound_eq_h]
  simp only [row_doubleRound, rows, shuffle_rot16, shuffle_rot8, shuf93, shuf4e, shuf39,
    mm_add_epi32, mm_xor_si128, mm_slli_epi32, mm_srli_epi32, V128.zip32, V128.map32,
    hchachaDoubleRound, HQUARTERROUND, rotl12, rotl7, ← xor_eq_or_12, ← xor_eq_or_7]
  simp +decide

/-- the words of the keystream block of context `j`: ten double rounds, plus the input words -/
def ksWords (j : W16) : W16 := W16.zipWith (· + ·) (Chacha.iter chachaDoubleRound 10 j) j

theorem row_block_spec (x : W16) : row_block x = rows (ksWords x) := by
  simp only [row_block, loadu_words, forUpBy2_rounds]
  have := iter_conj row_doubleRound chachaDoubleRound rows row_doubleRound_spec 10 x
  simp only [rows] at this
  rw [this]
  simp only [rows, ksWords, W16.zipWith, mm_add_epi32, V128.zip32]

/-- the reference block in terms of `ksWords` -/
theorem chacha20_block_fst (j : W16) (m : Bytes) :
    (chacha20_block j m).1 = W16.store (W16.zipWith XOR (ksWords j) (W16.load m)) := by
  simp only [chacha20_block, forDownBy2_even _ 10, PLUS_fun, ksWords]

/-- u1.h, one iteration: the 64 bytes at `c` become the reference block of context `x` on `m`, the rest
    of the buffer is untouched, and the counter words are stepped as in the reference -/
theorem u1_iter_spec (x : W16) (m c : Bytes) (hc : 64 ≤ c.length) :
    u1_iter x m c = ((chacha20_block x m).1 ++ c.drop 64, (chacha20_block x m).2) := by
  rw [chacha20_block_ctr, chacha20_block_fst]
  simp only [u1_iter, row_block_spec, rows, mm_storeu_si128]
  refine Prod.ext ?_ rfl
  simp only []
  rw [store4_v128 c _ _ _ _ hc]
  simp only [V128.toBytes, W16.store, mm_xor_si128, V128.zip32, W16.zipWith, XOR, W16.load, mm_loadu_si128,
    V128.ofBytes, List.drop_drop, List.append_assoc, List.drop_zero, Nat.reduceAdd]

/-! ### counters -/

/-- the 64-bit number `x[12] | x[13] << 32` -/
def qOf (j : W16) : UInt64 := j.x12.toUInt64 ||| (j.x13.toUInt64 <<< 32)

/-- context `j` with the 64-bit number `n` in words 12 (low) and 13 (high) -/
def withCtr (j : W16) (n : UInt64) : W16 := { j with x12 := n.toUInt32, x13 := (n >>> 32).toUInt32 }

theorem withCtr_qOf (j : W16) : withCtr j (qOf j) = j := by
  simp only [withCtr, qOf, q_lo, q_hi]

theorem withCtr_withCtr (j : W16) (a b : UInt64) : withCtr (withCtr j a) b = withCtr j b := rfl

/-- `in12++; if (in12 == 0) in13++` is +1 on the 64-bit number -/
theorem ctr_step (n : UInt64) :
    n.toUInt32 + 1 = (n + 1).toUInt32 ∧
    (if n.toUInt32 + 1 = 0 then (n >>> 32).toUInt32 + 1 else (n >>> 32).toUInt32) = ((n + 1) >>> 32).toUInt32 := by
  have hn := n.toNat_lt
  have e : (32 : UInt64).toNat % 64 = 32 := by decide
  constructor
  · apply UInt32.toNat_inj.mp
    simp only [UInt32.toNat_add, UInt64.toNat_toUInt32, UInt64.toNat_add]
    have : (1 : UInt32).toNat = 1 := rfl
    have : (1 : UInt64).toNat = 1 := rfl
    omega
  · have h1 : (n.toUInt32 + 1 = 0) ↔ n.toNat % 2 ^ 32 = 2 ^ 32 - 1 := by
      rw [← UInt32.toNat_inj]
      simp only [UInt32.toNat_add, UInt64.toNat_toUInt32]
      have : (1 : UInt32).toNat = 1 := rfl
      have : (0 : UInt32).toNat = 0 := rfl
      omega
    by_cases h : n.toUInt32 + 1 = 0
    · rw [if_pos h]
      have h' := h1.mp h
      apply UInt32.toNat_inj.mp
      simp only [UInt32.toNat_add, UInt64.toNat_toUInt32, UInt64.toNat_add, UInt64.toNat_shiftRight, e,
        Nat.shiftRight_eq_div_pow]
      have : (1 : UInt32).toNat = 1 := rfl
      have : (1 : UInt64).toNat = 1 := rfl
      omega
    · rw [if_neg h]
      have h' : ¬ n.toNat % 2 ^ 32 = 2 ^ 32 - 1 := fun hh => h (h1.mpr hh)
      apply UInt32.toNat_inj.mp
      simp only [UInt64.toNat_toUInt32, UInt64.toNat_add, UInt64.toNat_shiftRight, e,
        Nat.shiftRight_eq_div_pow]
      have : (1 : UInt64).toNat = 1 := rfl
      omega

/-- the reference counter step on a context whose counter is `n` -/
theorem block_ctr_withCtr (j : W16) (n : UInt64) (m : Bytes) :
    (chacha20_block (withCtr j n) m).2 = withCtr j (n + 1) := by
  rw [chacha20_block_ctr]
  simp only [withCtr, W16.mk.injEq, true_and, and_true]
  exact ctr_step n

theorem mask32 (q : UInt64) : (q &&& 0xFFFFFFFF).toUInt32 = q.toUInt32 := by
  apply UInt32.toNat_inj.mp
  simp only [UInt64.toNat_toUInt32, UInt64.toNat_and]
  have : (0xFFFFFFFF : UInt64).toNat = 2 ^ 32 - 1 := by decide
  rw [this, Nat.and_two_pow_sub_one_eq_mod]; omega

/-- `n` reference blocks in a row: the bytes written and the context afterwards -/
def blocksN : Nat → W16 → Bytes → Bytes × W16
  | 0, j, _ => ([], j)
  | n + 1, j, m =>
    let r := chacha20_block j m
    let s := blocksN n r.2 (m.drop 64)
    (r.1 ++ s.1, s.2)

/-- the 64 bytes of one block in XOR form -/
def blk (j : W16) (m : Bytes) : Bytes := W16.store (W16.zipWith XOR (ksWords j) (W16.load m))

theorem blocksN_4 (j : W16) (n : UInt64) (m : Bytes) :
    blocksN 4 (withCtr j n) m =
      (blk (withCtr j n) m ++ (blk (withCtr j (n + 1)) (m.drop 64) ++ (blk (withCtr j (n + 2)) (m.drop 128) ++
        blk (withCtr j (n + 3)) (m.drop 192))), withCtr j (n + 4)) := by
  simp only [blocksN, block_ctr_withCtr, chacha20_block_fst, blk, List.drop_drop, List.append_nil,
    UInt64.add_assoc, Nat.reduceAdd, UInt64.reduceAdd]

theorem u4_counters_spec (in12 in13 : UInt32) :
    let n := in12.toUInt64 ||| (in13.toUInt64 <<< 32)
    u4_counters in12 in13 =
      (⟨n.toUInt32, (n + 1).toUInt32, (n + 2).toUInt32, (n + 3).toUInt32⟩,
       ⟨(n >>> 32).toUInt32, ((n + 1) >>> 32).toUInt32, ((n + 2) >>> 32).toUInt32, ((n + 3) >>> 32).toUInt32⟩, n) := by
  intro n
  simp only [u4_counters, mm_set_epi64x, mm_set1_epi64x, mm_add_epi64, V128.q0_ofQ, V128.q1_ofQ,
    UInt64.zero_add, UInt64.add_comm 1, UInt64.add_comm 2, UInt64.add_comm 3]
  simp only [mm_unpacklo_epi32, mm_unpackhi_epi32, V128.ofQ]
  rfl

/-! ### u4.h -/

/-- the sixteen 16-byte stores of one u4.h iteration, in program order, fill 256 bytes in address order -/
theorem store16_u4 (c : Bytes) (v0 v1 v2 v3 v4 v5 v6 v7 v8 v9 v10 v11 v12 v13 v14 v15 : V128)
    (hc : 256 ≤ c.length) :
    storeAll c [(0, v0.toBytes), (64, v1.toBytes), (128, v2.toBytes), (192, v3.toBytes),
      (16, v4.toBytes), (80, v5.toBytes), (144, v6.toBytes), (208, v7.toBytes),
      (32, v8.toBytes), (96, v9.toBytes), (160, v10.toBytes), (224, v11.toBytes),
      (48, v12.toBytes), (112, v13.toBytes), (176, v14.toBytes), (240, v15.toBytes)] =
    v0.toBytes ++ (v4.toBytes ++ (v8.toBytes ++ (v12.toBytes ++ (v1.toBytes ++ (v5.toBytes ++ (v9.toBytes ++
      (v13.toBytes ++ (v2.toBytes ++ (v6.toBytes ++ (v10.toBytes ++ (v14.toBytes ++ (v3.toBytes ++ (v7.toBytes ++
      (v11.toBytes ++ (v15.toBytes ++ c.drop 256))))))))))))))) := by
  rw [storeAll_aligned 16 16 c _ (by simp [V128.toBytes_length]) hc]
  have r16 : List.range 16 = [0, 1, 2, 3, 4, 5, 6, 7, 8, 9, 10, 11, 12, 13, 14, 15] := by decide
  simp [r16, lastStore]

/-- a 32-bit lane projection of `__m128i`: commutes with every lane-wise operation -/
structure IsLane (ℓ : V128 → UInt32) : Prop where
  zip : ∀ f a b, ℓ (V128.zip32 f a b) = f (ℓ a) (ℓ b)
  map : ∀ f a, ℓ (V128.map32 f a) = f (ℓ a)

theorem isLane_e0 : IsLane V128.e0 := ⟨fun _ _ _ => rfl, fun _ _ => rfl⟩
theorem isLane_e1 : IsLane V128.e1 := ⟨fun _ _ _ => rfl, fun _ _ => rfl⟩
theorem isLane_e2 : IsLane V128.e2 := ⟨fun _ _ _ => rfl, fun _ _ => rfl⟩
theorem isLane_e3 : IsLane V128.e3 := ⟨fun _ _ _ => rfl, fun _ _ => rfl⟩

/-- the sixteen words of one lane: the state of one block -/
def laneW16 {α : Type} (ℓ : α → UInt32) (X : X16 α) : W16 :=
  ⟨ℓ X.x_0, ℓ X.x_1, ℓ X.x_2, ℓ X.x_3, ℓ X.x_4, ℓ X.x_5, ℓ X.x_6, ℓ X.x_7, ℓ X.x_8, ℓ X.x_9, ℓ X.x_10,
   ℓ X.x_11, ℓ X.x_12, ℓ X.x_13, ℓ X.x_14, ℓ X.x_15⟩

set_option maxRecDepth 4000 in
theorem u4_doubleRound_lane (ℓ : V128 → UInt32) (h : IsLane ℓ) (X : X16 V128) :
    laneW16 ℓ (u4_doubleRound X) = chachaDoubleRound (laneW16 ℓ X) := by
  rw [chachaDoubleRound_eq_h]
  simp only [u4_doubleRound, VEC4_QUARTERROUND, VEC4_ROT, laneW16, shuffle_rot16, shuffle_rot8,
    mm_add_epi32, mm_xor_si128, mm_or_si128, mm_slli_epi32, mm_srli_epi32, h.zip, h.map,
    hchachaDoubleRound, HQUARTERROUND, ROTL32]
  simp +decide

theorem iter_proj {α β : Type} (F : α → α) (f : β → β) (g : α → β) (h : ∀ s, g (F s) = f (g s)) (n : Nat) (s : α) :
    g (Chacha.iter F n s) = Chacha.iter f n (g s) := by
  induction n generalizing s with
  | zero => rfl
  | succ n ih => simp only [Chacha.iter, h, ih]

theorem store16_u4' (c : Bytes) (v0 v1 v2 v3 v4 v5 v6 v7 v8 v9 v10 v11 v12 v13 v14 v15 : V128)
    (hc : 256 ≤ c.length) :
    storeBytes (storeBytes (storeBytes (storeBytes (storeBytes (storeBytes (storeBytes (storeBytes
    (storeBytes (storeBytes (storeBytes (storeBytes (storeBytes (storeBytes (storeBytes (storeBytes c
      0 v0.toBytes) 64 v1.toBytes) 128 v2.toBytes) 192 v3.toBytes)
      16 v4.toBytes) 80 v5.toBytes) 144 v6.toBytes) 208 v7.toBytes)
      32 v8.toBytes) 96 v9.toBytes) 160 v10.toBytes) 224 v11.toBytes)
      48 v12.toBytes) 112 v13.toBytes) 176 v14.toBytes) 240 v15.toBytes =
    v0.toBytes ++ (v4.toBytes ++ (v8.toBytes ++ (v12.toBytes ++ (v1.toBytes ++ (v5.toBytes ++ (v9.toBytes ++
      (v13.toBytes ++ (v2.toBytes ++ (v6.toBytes ++ (v10.toBytes ++ (v14.toBytes ++ (v3.toBytes ++ (v7.toBytes ++
      (v11.toBytes ++ (v15.toBytes ++ c.drop 256))))))))))))))) :=
  store16_u4 c v0 v1 v2 v3 v4 v5 v6 v7 v8 v9 v10 v11 v12 v13 v14 v15 hc

/-- u4.h, one iteration: the 256 bytes at `c` become four consecutive reference blocks (counters n, n+1,
    n+2, n+3 as 64-bit numbers: the carry from word 12 into word 13 is the 64-bit addition), the rest of the
    buffer is untouched, the context counter is advanced by 4 -/
theorem u4_iter_spec (x : W16) (m c : Bytes) (hc : 256 ≤ c.length) :
    u4_iter x m c = ((blocksN 4 x m).1 ++ c.drop 256, (blocksN 4 x m).2) := by
  have hx : blocksN 4 x m = blocksN 4 (withCtr x (qOf x)) m := by rw [withCtr_qOf]
  rw [hx, blocksN_4]
  simp only [u4_iter, u4_counters_spec, forUpBy2_rounds]
  generalize hX0 : (X16.mk (mm_set1_epi32 x.x0) _ _ _ _ _ _ _ _ _ _ _ _ _ _ _) = X0
  have h0 : laneW16 V128.e0 X0 = withCtr x (qOf x) := by subst hX0; rfl
  have h1 : laneW16 V128.e1 X0 = withCtr x (qOf x + 1) := by subst hX0; rfl
  have h2 : laneW16 V128.e2 X0 = withCtr x (qOf x + 2) := by subst hX0; rfl
  have h3 : laneW16 V128.e3 X0 = withCtr x (qOf x + 3) := by subst hX0; rfl
  have L := fun ℓ (h : IsLane ℓ) => iter_proj u4_doubleRound chachaDoubleRound (laneW16 ℓ) (u4_doubleRound_lane ℓ h) 10 X0
  have L0 := L _ isLane_e0; have L1 := L _ isLane_e1; have L2 := L _ isLane_e2; have L3 := L _ isLane_e3
  rw [h0] at L0; rw [h1] at L1; rw [h2] at L2; rw [h3] at L3
  clear L h0 h1 h2 h3 hX0
  generalize Chacha.iter u4_doubleRound 10 X0 = X at *
  simp only [u4_ONEQUAD, mm_storeu_si128, Nat.add_zero, Nat.zero_add, Nat.reduceAdd]
  rw [store16_u4' c _ _ _ _ _ _ _ _ _ _ _ _ _ _ _ _ hc]
  simp only [blk, ksWords, ← L0, ← L1, ← L2, ← L3, mask32]
  simp only [laneW16, withCtr, qOf, W16.zipWith, W16.load, W16.store, XOR, V128.toBytes, mm_xor_si128, mm_add_epi32,
    V128.zip32, mm_loadu_si128, V128.ofBytes, unpacklo_epi64_eq, unpackhi_epi64_eq, mm_unpacklo_epi32,
    mm_unpackhi_epi32, mm_set1_epi32, List.drop_drop, List.drop_zero, Nat.reduceAdd, List.append_assoc]

/-! ### the `while (bytes >= …)` loops -/

theorem blocksN_length (n : Nat) (j : W16) (m : Bytes) : (blocksN n j m).1.length = 64 * n := by
  induction n generalizing j m with
  | zero => rfl
  | succ n ih =>
    simp only [blocksN, List.length_append, chacha20_block_length, ih]; omega

theorem blocksN_add (a b : Nat) (j : W16) (m : Bytes) :
    blocksN (a + b) j m =
      ((blocksN a j m).1 ++ (blocksN b (blocksN a j m).2 (m.drop (64 * a))).1,
       (blocksN b (blocksN a j m).2 (m.drop (64 * a))).2) := by
  induction a generalizing j m with
  | zero => simp [blocksN]
  | succ a ih =>
    rw [Nat.add_right_comm a 1 b]
    simp only [blocksN, ih, List.drop_drop, List.append_assoc]
    have : 64 + 64 * a = 64 * (a + 1) := by omega
    rw [this]

theorem blocksN_one (j : W16) (m : Bytes) : blocksN 1 j m = ((chacha20_block j m).1, (chacha20_block j m).2) := by
  simp [blocksN]

/-- the common shape of the three `while (bytes >= 64 * N)` loops -/
theorem loop_spec (N : Nat) (hN : 0 < N) (iter : W16 → Bytes → Bytes → Bytes × W16)
    (hiter : ∀ x m c, 64 * N ≤ c.length →
      iter x m c = ((blocksN N x m).1 ++ c.drop (64 * N), (blocksN N x m).2))
    (L : Nat → W16 → Bytes → Bytes → Bytes × W16 × Bytes × Bytes)
    (hL0 : ∀ x m c, L 0 x m c = ([], x, m, c))
    (hLs : ∀ fuel x m c, L (fuel + 1) x m c =
      if m.length ≥ 64 * N then
        ((iter x m c).1.take (64 * N) ++ (L fuel (iter x m c).2 (m.drop (64 * N)) ((iter x m c).1.drop (64 * N))).1,
         (L fuel (iter x m c).2 (m.drop (64 * N)) ((iter x m c).1.drop (64 * N))).2)
      else ([], x, m, c)) :
    ∀ (fuel : Nat) (x : W16) (m c : Bytes), m.length ≤ c.length → m.length / (64 * N) ≤ fuel →
      L fuel x m c =
        ((blocksN (N * (m.length / (64 * N))) x m).1, (blocksN (N * (m.length / (64 * N))) x m).2,
         m.drop (64 * N * (m.length / (64 * N))), c.drop (64 * N * (m.length / (64 * N)))) := by
  intro fuel
  induction fuel with
  | zero =>
    intro x m c _ hf
    have : m.length / (64 * N) = 0 := Nat.eq_zero_of_le_zero hf
    rw [hL0, this]; simp [blocksN]
  | succ fuel ih =>
    intro x m c hmc hf
    rw [hLs]
    by_cases hge : m.length ≥ 64 * N
    · rw [if_pos hge, hiter x m c (by omega)]
      have hlen : (blocksN N x m).1.length = 64 * N := blocksN_length N x m
      have htake : ((blocksN N x m).1 ++ c.drop (64 * N)).take (64 * N) = (blocksN N x m).1 := by
        rw [List.take_append_of_le_length (by omega), List.take_of_length_le (by omega)]
      have hdrop : ((blocksN N x m).1 ++ c.drop (64 * N)).drop (64 * N) = c.drop (64 * N) := by
        rw [List.drop_append_of_le_length (by omega), List.drop_of_length_le (by omega)]; simp
      simp only [htake, hdrop]
      have hk : m.length / (64 * N) = (m.length - 64 * N) / (64 * N) + 1 := by
        have hpos : 0 < 64 * N := by omega
        rw [← Nat.sub_add_cancel hge, Nat.add_div_right _ hpos]
        simp
      have hl' : (m.drop (64 * N)).length = m.length - 64 * N := List.length_drop
      rw [ih _ _ _ (by rw [List.length_drop, List.length_drop]; omega) (by rw [hl']; omega), hl', hk]
      generalize (m.length - 64 * N) / (64 * N) = k
      have e1 : N * (k + 1) = N + N * k := by rw [Nat.mul_succ]; omega
      rw [e1, blocksN_add]
      simp only [List.drop_drop]
      have e2 : 64 * N + 64 * N * k = 64 * N * (k + 1) := by rw [Nat.mul_succ]; omega
      rw [e2]
    · rw [if_neg hge]
      have : m.length / (64 * N) = 0 := Nat.div_eq_of_lt (by omega)
      rw [this]; simp [blocksN]

theorem u1_iter_blocksN (x : W16) (m c : Bytes) (hc : 64 * 1 ≤ c.length) :
    u1_iter x m c = ((blocksN 1 x m).1 ++ c.drop (64 * 1), (blocksN 1 x m).2) := by
  rw [blocksN_one]; exact u1_iter_spec x m c hc

theorem u1_loop_spec (fuel : Nat) (x : W16) (m c : Bytes) (hmc : m.length ≤ c.length) (hf : m.length / 64 ≤ fuel) :
    u1_loop fuel x m c =
      ((blocksN (m.length / 64) x m).1, (blocksN (m.length / 64) x m).2,
       m.drop (64 * (m.length / 64)), c.drop (64 * (m.length / 64))) := by
  have := loop_spec 1 (by decide) u1_iter u1_iter_blocksN u1_loop (fun _ _ _ => rfl) (fun _ _ _ _ => rfl)
    fuel x m c hmc hf
  simpa using this

theorem u4_loop_spec (fuel : Nat) (x : W16) (m c : Bytes) (hmc : m.length ≤ c.length) (hf : m.length / 256 ≤ fuel) :
    u4_loop fuel x m c =
      ((blocksN (4 * (m.length / 256)) x m).1, (blocksN (4 * (m.length / 256)) x m).2,
       m.drop (256 * (m.length / 256)), c.drop (256 * (m.length / 256))) := by
  exact loop_spec 4 (by decide) u4_iter u4_iter_spec u4_loop (fun _ _ _ => rfl) (fun _ _ _ _ => rfl)
    fuel x m c hmc hf

/-! ### u0.h -/

theorem xorBytes_getElem? : ∀ (a b : Bytes) (k : Nat),
    (xorBytes a b)[k]? = (match a[k]?, b[k]? with | some x, some y => some (x ^^^ y) | _, _ => none)
  | [], b, k => by simp [xorBytes_nil_left]
  | _ :: _, [], k => by simp [xorBytes]
  | x :: xs, y :: ys, 0 => by simp [xorBytes]
  | x :: xs, y :: ys, k + 1 => by simp [xorBytes, xorBytes_getElem? xs ys k]

theorem u0_xorloop_getElem? (bytes : Nat) (m pb : Bytes) :
    ∀ (d i : Nat) (c : Bytes) (k : Nat), bytes - i = d →
      (u0_xorloop bytes m pb i c)[k]? =
        if i ≤ k ∧ k < bytes ∧ k < c.length then some (m.getD k 0 ^^^ pb.getD k 0) else c[k]? := by
  intro d
  induction d with
  | zero =>
    intro i c k hd
    rw [u0_xorloop, if_neg (by omega), if_neg (by omega)]
  | succ d ih =>
    intro i c k hd
    rw [u0_xorloop, if_pos (by omega), ih (i + 1) _ k (by omega), List.length_set, List.getElem?_set]
    by_cases h1 : i + 1 ≤ k ∧ k < bytes ∧ k < c.length
    · rw [if_pos h1, if_pos (by omega)]
    · rw [if_neg h1]
      by_cases h2 : i = k
      · subst h2
        by_cases h3 : i < c.length
        · rw [if_pos rfl, if_pos h3, if_pos (by omega)]
        · rw [if_pos rfl, if_neg h3, if_neg (by omega)]
          exact (List.getElem?_eq_none (by omega)).symm
      · rw [if_neg h2, if_neg (by omega)]

/-- the byte loop of u0.h writes `m XOR partialblock` over the first `bytes` bytes of `c` -/
theorem u0_xorloop_spec (m pb c : Bytes) (hc : m.length ≤ c.length) (hpb : m.length ≤ pb.length) :
    (u0_xorloop m.length m pb 0 c).take m.length = xorBytes m pb := by
  apply List.ext_getElem?
  intro k
  rw [List.getElem?_take, u0_xorloop_getElem? m.length m pb _ 0 c k rfl, xorBytes_getElem?]
  by_cases hk : k < m.length
  · rw [if_pos hk, if_pos (by omega)]
    have h1 : m[k]? = some (m.getD k 0) := by
      rw [List.getD_eq_getElem?_getD, List.getElem?_eq_getElem hk]; rfl
    have h2 : pb[k]? = some (pb.getD k 0) := by
      rw [List.getD_eq_getElem?_getD, List.getElem?_eq_getElem (by omega)]; rfl
    rw [h1, h2]
  · rw [if_neg hk, List.getElem?_eq_none (by omega : m.length ≤ k)]

theorem zeros64_len : (zeros 64).length = 64 := by decide

/-- u0.h: the first `bytes` bytes at `c` become `m XOR` the keystream block of context `x` -/
theorem u0_spec (x : W16) (m c : Bytes) (hm : m.length ≤ 64) (hc : m.length ≤ c.length) :
    (u0 x m c).take m.length = xorBytes m (W16.store (ksWords x)) := by
  by_cases h0 : m.length > 0
  · simp only [u0, if_pos h0, row_block_spec, rows, mm_storeu_si128]
    rw [store4_v128 _ _ _ _ _ (by rw [zeros64_len]; exact Nat.le_refl _)]
    have hd : (zeros 64).drop 64 = [] := by decide
    rw [hd, u0_xorloop_spec m _ c hc (by simp [V128.toBytes_length]; omega)]
    simp only [V128.toBytes, W16.store, List.append_assoc, List.append_nil]
  · have : m = [] := List.eq_nil_of_length_eq_zero (by omega)
    subst this; simp [xorBytes_nil_left]

/-! ### `chacha20_encrypt_bytes`, SSSE3 composition -/

/-- what both SIMD compositions compute: ⌊len/64⌋ full blocks, then the `len mod 64` tail bytes XOR the next
    keystream block; the context counter is advanced by the number of FULL blocks only -/
def simdSpec (ctx : W16) (m : Bytes) : Bytes × W16 :=
  let r := blocksN (m.length / 64) ctx m
  (r.1 ++ xorBytes (m.drop (64 * (m.length / 64))) (W16.store (ksWords r.2)), r.2)

theorem chacha20_encrypt_bytes_ssse3_eq (ctx : W16) (m c : Bytes) (hc : m.length ≤ c.length) :
    chacha20_encrypt_bytes_ssse3 ctx m c = simdSpec ctx m := by
  by_cases h0 : m.length = 0
  · have : m = [] := List.eq_nil_of_length_eq_zero h0
    subst this
    simp [chacha20_encrypt_bytes_ssse3, simdSpec, blocksN, xorBytes_nil_left]
  · simp only [chacha20_encrypt_bytes_ssse3, if_neg h0]
    rw [u4_loop_spec _ ctx m c hc (Nat.div_le_self _ _)]
    simp only []
    have hl1 : (m.drop (256 * (m.length / 256))).length = m.length - 256 * (m.length / 256) := List.length_drop
    have hl1c : (c.drop (256 * (m.length / 256))).length = c.length - 256 * (m.length / 256) := List.length_drop
    rw [u1_loop_spec _ _ _ _ (by rw [hl1, hl1c]; omega) (by rw [hl1]; exact Nat.le_trans (Nat.div_le_self _ _) (by omega))]
    simp only [List.drop_drop, hl1]
    have hk : 4 * (m.length / 256) + (m.length - 256 * (m.length / 256)) / 64 = m.length / 64 := by omega
    have hd : 256 * (m.length / 256) + 64 * ((m.length - 256 * (m.length / 256)) / 64) = 64 * (m.length / 64) := by omega
    have h256 : 256 * (m.length / 256) = 64 * (4 * (m.length / 256)) := by omega
    have hb := blocksN_add (4 * (m.length / 256)) ((m.length - 256 * (m.length / 256)) / 64) ctx m
    rw [hk, ← h256] at hb
    rw [hd]
    have hl2 : (m.drop (64 * (m.length / 64))).length = m.length - 64 * (m.length / 64) := List.length_drop
    have hl2c : (c.drop (64 * (m.length / 64))).length = c.length - 64 * (m.length / 64) := List.length_drop
    rw [u0_spec _ _ _ (by rw [hl2]; omega) (by rw [hl2, hl2c]; omega)]
    simp only [simdSpec, hb, List.append_assoc]

/-! ### the reference loop in terms of `blocksN` -/

theorem chacha20_loop_step (fuel : Nat) (j : W16) (m : Bytes) (h : 64 < m.length) :
    chacha20_loop (fuel + 1) j m =
      ((chacha20_block j m).1 ++ (chacha20_loop fuel (chacha20_block j m).2 (m.drop 64)).1,
       (chacha20_loop fuel (chacha20_block j m).2 (m.drop 64)).2) := by
  simp only [chacha20_loop, if_neg (show ¬ m.length < 64 by omega), if_neg (show ¬ m.length ≤ 64 by omega)]

theorem chacha20_loop_blocks (k fuel : Nat) (j : W16) (m : Bytes) (h : 64 * k < m.length) :
    chacha20_loop (k + fuel) j m =
      ((blocksN k j m).1 ++ (chacha20_loop fuel (blocksN k j m).2 (m.drop (64 * k))).1,
       (chacha20_loop fuel (blocksN k j m).2 (m.drop (64 * k))).2) := by
  induction k generalizing j m with
  | zero => simp [blocksN]
  | succ k ih =>
    rw [Nat.add_right_comm k 1 fuel, chacha20_loop_step _ j m (by omega),
      ih _ _ (by rw [List.length_drop]; omega)]
    simp only [blocksN, List.drop_drop, List.append_assoc]
    have : 64 + 64 * k = 64 * (k + 1) := by omega
    rw [this]

/-- the last pass of the reference loop: a full last block, or a short one through the zero-padded `tmp` -/
theorem chacha20_loop_last (fuel : Nat) (j : W16) (m : Bytes) (h0 : 0 < m.length) (h : m.length ≤ 64) :
    chacha20_loop (fuel + 1) j m =
      (xorBytes m (W16.store (ksWords j)), (chacha20_block j m).2) := by
  have hks : (W16.store (ksWords j)) = (chacha20_block j (zeros 64)).1 := by
    rw [chacha20_block_zeros]; rfl
  have hctr : ∀ m', (chacha20_block j m').2 = (chacha20_block j m).2 := by
    intro m'; rw [chacha20_block_ctr, chacha20_block_ctr]
  simp only [chacha20_loop, if_pos h]
  rw [hctr]
  congr 1
  by_cases hlt : m.length < 64
  · rw [if_pos hlt, chacha20_block_xor _ _ (by simp [zeros]; omega), xorBytes_take, ← hks]
    have : ((m ++ zeros (64 - m.length)).take 64).take m.length = m := by
      rw [List.take_take, Nat.min_eq_left h, List.take_left' rfl]
    rw [this, xorBytes_take_right _ _ _ (Nat.le_refl _)]
  · rw [if_neg hlt, chacha20_block_xor _ _ (by omega), xorBytes_take, ← hks]
    have : (m.take 64).take m.length = m := by
      rw [List.take_take, Nat.min_eq_left h, List.take_of_length_le (Nat.le_refl _)]
    rw [this, xorBytes_take_right _ _ _ (Nat.le_refl _)]

theorem q_join (q : UInt64) : q.toUInt32.toUInt64 ||| ((q >>> 32).toUInt32.toUInt64 <<< 32) = q := by
  apply UInt64.toNat_inj.mp
  rw [q_toNat]
  simp only [UInt64.toNat_toUInt32, UInt64.toNat_shiftRight]
  have hq := q.toNat_lt
  have e : (32 : UInt64).toNat % 64 = 32 := by decide
  rw [e, Nat.shiftRight_eq_div_pow]
  omega

theorem qOf_withCtr (j : W16) (n : UInt64) : qOf (withCtr j n) = n := q_join n

theorem blocksN_snd (k : Nat) (ctx : W16) (m : Bytes) :
    (blocksN k ctx m).2 = withCtr ctx (qOf ctx + UInt64.ofNat k) := by
  induction k generalizing ctx m with
  | zero =>
    have : UInt64.ofNat 0 = 0 := rfl
    simp only [blocksN, this, UInt64.add_zero, withCtr_qOf]
  | succ k ih =>
    simp only [blocksN]
    have h1 : (chacha20_block ctx m).2 = withCtr ctx (qOf ctx + 1) := by
      have := block_ctr_withCtr ctx (qOf ctx) m
      rwa [withCtr_qOf] at this
    rw [ih, h1, qOf_withCtr, withCtr_withCtr, UInt64.ofNat_add, UInt64.add_assoc, UInt64.add_comm 1]
    rfl

/-- the reference `chacha20_encrypt_bytes`: ⌈len/64⌉ − 1 full blocks and a last pass -/
theorem ref_encrypt_bytes_eq (ctx : W16) (m : Bytes) (h0 : 0 < m.length) :
    chacha20_encrypt_bytes ctx m =
      ((blocksN ((m.length - 1) / 64) ctx m).1 ++
          xorBytes (m.drop (64 * ((m.length - 1) / 64))) (W16.store (ksWords (blocksN ((m.length - 1) / 64) ctx m).2)),
       withCtr ctx (qOf ctx + UInt64.ofNat ((m.length + 63) / 64))) := by
  have hf : m.length = (m.length - 1) / 64 + ((m.length - (m.length - 1) / 64 - 1) + 1) := by omega
  have hl : (m.drop (64 * ((m.length - 1) / 64))).length = m.length - 64 * ((m.length - 1) / 64) := List.length_drop
  rw [chacha20_encrypt_bytes, if_neg (by omega)]
  simp only []
  conv => lhs; rw [hf]
  rw [chacha20_loop_blocks _ _ ctx m (by omega), chacha20_loop_last _ _ _ (by rw [hl]; omega) (by rw [hl]; omega)]
  simp only [blocksN_snd, block_ctr_withCtr]
  have : (m.length + 63) / 64 = (m.length - 1) / 64 + 1 := by omega
  rw [this, UInt64.ofNat_add, UInt64.add_assoc]
  rfl

theorem simdSpec_snd (ctx : W16) (m : Bytes) :
    (simdSpec ctx m).2 = withCtr ctx (qOf ctx + UInt64.ofNat (m.length / 64)) := blocksN_snd _ ctx m

/-- the bytes of the reference are the bytes of the SIMD compositions -/
theorem ref_fst_eq_simdSpec (ctx : W16) (m : Bytes) : (chacha20_encrypt_bytes ctx m).1 = (simdSpec ctx m).1 := by
  by_cases h0 : m.length = 0
  · have : m = [] := List.eq_nil_of_length_eq_zero h0
    subst this; simp [chacha20_encrypt_bytes, simdSpec, blocksN, xorBytes_nil_left]
  · rw [ref_encrypt_bytes_eq ctx m (by omega)]
    simp only [simdSpec]
    by_cases hr : m.length % 64 = 0
    · have hk : m.length / 64 = (m.length - 1) / 64 + 1 := by omega
      have hl : (m.drop (64 * ((m.length - 1) / 64))).length = 64 := by rw [List.length_drop]; omega
      rw [hk, blocksN_add, blocksN_one]
      simp only [List.append_assoc]
      congr 1
      have hnil : m.drop (64 * ((m.length - 1) / 64 + 1)) = [] := List.drop_of_length_le (by omega)
      rw [hnil, xorBytes_nil_left, List.append_nil, chacha20_block_xor _ _ (by omega), chacha20_block_zeros,
        List.take_of_length_le (by omega)]
      rfl
    · have hk : (m.length - 1) / 64 = m.length / 64 := by omega
      rw [hk]

/-! ### u8.h -/

/-- a 32-bit lane projection of `__m256i` -/
structure IsLane256 (ℓ : M256 → UInt32) : Prop where
  zip : ∀ f (al ah bl bh : V128), ℓ ⟨V128.zip32 f al bl, V128.zip32 f ah bh⟩ = f (ℓ ⟨al, ah⟩) (ℓ ⟨bl, bh⟩)
  map : ∀ f (al ah : V128), ℓ ⟨V128.map32 f al, V128.map32 f ah⟩ = f (ℓ ⟨al, ah⟩)

theorem isLane256_0 : IsLane256 (fun v => v.lo.e0) := ⟨fun _ _ _ _ _ => rfl, fun _ _ _ => rfl⟩
theorem isLane256_1 : IsLane256 (fun v => v.lo.e1) := ⟨fun _ _ _ _ _ => rfl, fun _ _ _ => rfl⟩
theorem isLane256_2 : IsLane256 (fun v => v.lo.e2) := ⟨fun _ _ _ _ _ => rfl, fun _ _ _ => rfl⟩
theorem isLane256_3 : IsLane256 (fun v => v.lo.e3) := ⟨fun _ _ _ _ _ => rfl, fun _ _ _ => rfl⟩
theorem isLane256_4 : IsLane256 (fun v => v.hi.e0) := ⟨fun _ _ _ _ _ => rfl, fun _ _ _ => rfl⟩
theorem isLane256_5 : IsLane256 (fun v => v.hi.e1) := ⟨fun _ _ _ _ _ => rfl, fun _ _ _ => rfl⟩
theorem isLane256_6 : IsLane256 (fun v => v.hi.e2) := ⟨fun _ _ _ _ _ => rfl, fun _ _ _ => rfl⟩
theorem isLane256_7 : IsLane256 (fun v => v.hi.e3) := ⟨fun _ _ _ _ _ => rfl, fun _ _ _ => rfl⟩

theorem shuffle256_rot16 (v : M256) :
    mm256_shuffle_epi8 v rot16_256 =
      ⟨V128.map32 (fun w => ROTL32 w 16) v.lo, V128.map32 (fun w => ROTL32 w 16) v.hi⟩ := by
  simp only [mm256_shuffle_epi8, rot16_256_eq, shuffle_rot16]
theorem shuffle256_rot8 (v : M256) :
    mm256_shuffle_epi8 v rot8_256 =
      ⟨V128.map32 (fun w => ROTL32 w 8) v.lo, V128.map32 (fun w => ROTL32 w 8) v.hi⟩ := by
  simp only [mm256_shuffle_epi8, rot8_256_eq, shuffle_rot8]

set_option maxRecDepth 4000 in
theorem u8_doubleRound_lane (ℓ : M256 → UInt32) (h : IsLane256 ℓ) (X : X16 M256) :
    laneW16 ℓ (u8_doubleRound X) = chachaDoubleRound (laneW16 ℓ X) := by
  rw [chachaDoubleRound_eq_h]
  simp only [u8_doubleRound, VEC8_ROUND, VEC8_LINE1, VEC8_LINE2, VEC8_LINE3, VEC8_LINE4, VEC8_ROT, laneW16,
    shuffle256_rot16, shuffle256_rot8,
    mm256_add_epi32, mm256_xor_si256, mm256_or_si256, mm256_slli_epi32, mm256_srli_epi32,
    mm_add_epi32, mm_xor_si128, mm_or_si128, mm_slli_epi32, mm_srli_epi32, h.zip, h.map,
    hchachaDoubleRound, HQUARTERROUND, ROTL32]
  simp +decide

theorem u8_counters_spec (in12 in13 : UInt32) :
    u8_counters in12 in13 =
      (⟨⟨(in12.toUInt64 ||| (in13.toUInt64 <<< 32)).toUInt32, ((in12.toUInt64 ||| (in13.toUInt64 <<< 32)) + 1).toUInt32,
          ((in12.toUInt64 ||| (in13.toUInt64 <<< 32)) + 2).toUInt32, ((in12.toUInt64 ||| (in13.toUInt64 <<< 32)) + 3).toUInt32⟩,
        ⟨((in12.toUInt64 ||| (in13.toUInt64 <<< 32)) + 4).toUInt32, ((in12.toUInt64 ||| (in13.toUInt64 <<< 32)) + 5).toUInt32,
          ((in12.toUInt64 ||| (in13.toUInt64 <<< 32)) + 6).toUInt32, ((in12.toUInt64 ||| (in13.toUInt64 <<< 32)) + 7).toUInt32⟩⟩,
       ⟨⟨((in12.toUInt64 ||| (in13.toUInt64 <<< 32)) >>> 32).toUInt32,
          (((in12.toUInt64 ||| (in13.toUInt64 <<< 32)) + 1) >>> 32).toUInt32,
          (((in12.toUInt64 ||| (in13.toUInt64 <<< 32)) + 2) >>> 32).toUInt32,
          (((in12.toUInt64 ||| (in13.toUInt64 <<< 32)) + 3) >>> 32).toUInt32⟩,
        ⟨(((in12.toUInt64 ||| (in13.toUInt64 <<< 32)) + 4) >>> 32).toUInt32,
          (((in12.toUInt64 ||| (in13.toUInt64 <<< 32)) + 5) >>> 32).toUInt32,
          (((in12.toUInt64 ||| (in13.toUInt64 <<< 32)) + 6) >>> 32).toUInt32,
          (((in12.toUInt64 ||| (in13.toUInt64 <<< 32)) + 7) >>> 32).toUInt32⟩⟩,
       in12.toUInt64 ||| (in13.toUInt64 <<< 32)) := by
  simp only [u8_counters, mm256_set_epi64x, mm256_broadcastq_epi64, mm_cvtsi64_si128, mm256_add_epi64, mm_add_epi64,
    V128.q0_ofQ, V128.q1_ofQ, UInt64.zero_add, UInt64.add_comm 1, UInt64.add_comm 2, UInt64.add_comm 3,
    UInt64.add_comm 4, UInt64.add_comm 5, UInt64.add_comm 6, UInt64.add_comm 7]
  simp only [mm256_unpacklo_epi32, mm256_unpackhi_epi32, mm_unpacklo_epi32, mm_unpackhi_epi32, V128.ofQ]
  rfl

/-- the sixteen 32-byte stores of one u8.h iteration, in program order, fill 512 bytes in address order -/
theorem store16_u8 (c : Bytes) (v0 v1 v2 v3 v4 v5 v6 v7 v8 v9 v10 v11 v12 v13 v14 v15 : M256)
    (hc : 512 ≤ c.length) :
    storeBytes (storeBytes (storeBytes (storeBytes (storeBytes (storeBytes (storeBytes (storeBytes
    (storeBytes (storeBytes (storeBytes (storeBytes (storeBytes (storeBytes (storeBytes (storeBytes c
      0 v0.toBytes) 64 v1.toBytes) 128 v2.toBytes) 192 v3.toBytes)
      256 v4.toBytes) 320 v5.toBytes) 384 v6.toBytes) 448 v7.toBytes)
      32 v8.toBytes) 96 v9.toBytes) 160 v10.toBytes) 224 v11.toBytes)
      288 v12.toBytes) 352 v13.toBytes) 416 v14.toBytes) 480 v15.toBytes =
    v0.toBytes ++ (v8.toBytes ++ (v1.toBytes ++ (v9.toBytes ++ (v2.toBytes ++ (v10.toBytes ++ (v3.toBytes ++
      (v11.toBytes ++ (v4.toBytes ++ (v12.toBytes ++ (v5.toBytes ++ (v13.toBytes ++ (v6.toBytes ++ (v14.toBytes ++
      (v7.toBytes ++ (v15.toBytes ++ c.drop 512))))))))))))))) := by
  have := storeAll_aligned 32 16 c [(0, v0.toBytes), (64, v1.toBytes), (128, v2.toBytes), (192, v3.toBytes),
      (256, v4.toBytes), (320, v5.toBytes), (384, v6.toBytes), (448, v7.toBytes),
      (32, v8.toBytes), (96, v9.toBytes), (160, v10.toBytes), (224, v11.toBytes),
      (288, v12.toBytes), (352, v13.toBytes), (416, v14.toBytes), (480, v15.toBytes)]
      (by simp [M256.toBytes_length]) hc
  have r16 : List.range 16 = [0, 1, 2, 3, 4, 5, 6, 7, 8, 9, 10, 11, 12, 13, 14, 15] := by decide
  simp only [storeAll] at this
  rw [this]
  simp [r16, lastStore]

theorem blocksN_8 (j : W16) (n : UInt64) (m : Bytes) :
    blocksN 8 (withCtr j n) m =
      (blk (withCtr j n) m ++ (blk (withCtr j (n + 1)) (m.drop 64) ++ (blk (withCtr j (n + 2)) (m.drop 128) ++
        (blk (withCtr j (n + 3)) (m.drop 192) ++ (blk (withCtr j (n + 4)) (m.drop 256) ++
        (blk (withCtr j (n + 5)) (m.drop 320) ++ (blk (withCtr j (n + 6)) (m.drop 384) ++
        blk (withCtr j (n + 7)) (m.drop 448))))))), withCtr j (n + 8)) := by
  simp only [blocksN, block_ctr_withCtr, chacha20_block_fst, blk, List.drop_drop, List.append_nil,
    UInt64.add_assoc, Nat.reduceAdd, UInt64.reduceAdd]

theorem perm20 (a b : M256) : mm256_permute2x128_si256 a b 0x20 = ⟨a.lo, b.lo⟩ := rfl
theorem perm31 (a b : M256) : mm256_permute2x128_si256 a b 0x31 = ⟨a.hi, b.hi⟩ := rfl

/-- u8.h, one iteration: the 512 bytes at `c` become eight consecutive reference blocks, the rest of the
    buffer is untouched, the context counter is advanced by 8 -/
theorem u8_iter_spec (x : W16) (m c : Bytes) (hc : 64 * 8 ≤ c.length) :
    u8_iter x m c = ((blocksN 8 x m).1 ++ c.drop (64 * 8), (blocksN 8 x m).2) := by
  have hx : blocksN 8 x m = blocksN 8 (withCtr x (qOf x)) m := by rw [withCtr_qOf]
  rw [hx, blocksN_8]
  simp only [u8_iter, u8_counters_spec, forUpBy2_rounds]
  generalize hX0 : (X16.mk (mm256_set1_epi32 x.x0) _ _ _ _ _ _ _ _ _ _ _ _ _ _ _) = X0
  have h0 : laneW16 (fun v : M256 => v.lo.e0) X0 = withCtr x (qOf x) := by subst hX0; rfl
  have h1 : laneW16 (fun v : M256 => v.lo.e1) X0 = withCtr x (qOf x + 1) := by subst hX0; rfl
  have h2 : laneW16 (fun v : M256 => v.lo.e2) X0 = withCtr x (qOf x + 2) := by subst hX0; rfl
  have h3 : laneW16 (fun v : M256 => v.lo.e3) X0 = withCtr x (qOf x + 3) := by subst hX0; rfl
  have h4 : laneW16 (fun v : M256 => v.hi.e0) X0 = withCtr x (qOf x + 4) := by subst hX0; rfl
  have h5 : laneW16 (fun v : M256 => v.hi.e1) X0 = withCtr x (qOf x + 5) := by subst hX0; rfl
  have h6 : laneW16 (fun v : M256 => v.hi.e2) X0 = withCtr x (qOf x + 6) := by subst hX0; rfl
  have h7 : laneW16 (fun v : M256 => v.hi.e3) X0 = withCtr x (qOf x + 7) := by subst hX0; rfl
  have L := fun ℓ (h : IsLane256 ℓ) =>
    iter_proj u8_doubleRound chachaDoubleRound (laneW16 ℓ) (u8_doubleRound_lane ℓ h) 10 X0
  have L0 := L _ isLane256_0; have L1 := L _ isLane256_1; have L2 := L _ isLane256_2; have L3 := L _ isLane256_3
  have L4 := L _ isLane256_4; have L5 := L _ isLane256_5; have L6 := L _ isLane256_6; have L7 := L _ isLane256_7
  rw [h0] at L0; rw [h1] at L1; rw [h2] at L2; rw [h3] at L3
  rw [h4] at L4; rw [h5] at L5; rw [h6] at L6; rw [h7] at L7
  clear L h0 h1 h2 h3 h4 h5 h6 h7 hX0
  generalize Chacha.iter u8_doubleRound 10 X0 = X at *
  simp only [u8_ONEOCTO, u8_ONEQUAD_UNPCK, mm256_storeu_si256, Nat.add_zero, Nat.zero_add, Nat.reduceAdd]
  rw [store16_u8 c _ _ _ _ _ _ _ _ _ _ _ _ _ _ _ _ hc]
  simp only [blk, ksWords, ← L0, ← L1, ← L2, ← L3, ← L4, ← L5, ← L6, ← L7, mask32]
  simp only [laneW16, withCtr, qOf, W16.zipWith, W16.load, W16.store, XOR, M256.toBytes, V128.toBytes,
    perm20, perm31, mm256_xor_si256, mm256_add_epi32, mm256_loadu_si256, M256.ofBytes,
    mm256_unpacklo_epi32, mm256_unpackhi_epi32, mm256_unpacklo_epi64, mm256_unpackhi_epi64, mm256_set1_epi32,
    mm_xor_si128, mm_add_epi32,
    V128.zip32, V128.ofBytes, unpacklo_epi64_eq, unpackhi_epi64_eq, mm_unpacklo_epi32,
    mm_unpackhi_epi32, mm_set1_epi32, List.drop_drop, List.drop_zero, Nat.reduceAdd, List.append_assoc, Nat.reduceMul]

theorem u8_loop_spec (fuel : Nat) (x : W16) (m c : Bytes) (hmc : m.length ≤ c.length) (hf : m.length / 512 ≤ fuel) :
    u8_loop fuel x m c =
      ((blocksN (8 * (m.length / 512)) x m).1, (blocksN (8 * (m.length / 512)) x m).2,
       m.drop (512 * (m.length / 512)), c.drop (512 * (m.length / 512))) := by
  exact loop_spec 8 (by decide) u8_iter u8_iter_spec u8_loop (fun _ _ _ => rfl) (fun _ _ _ _ => rfl)
    fuel x m c hmc hf

theorem chacha20_encrypt_bytes_avx2_eq (ctx : W16) (m c : Bytes) (hc : m.length ≤ c.length) :
    chacha20_encrypt_bytes_avx2 ctx m c = simdSpec ctx m := by
  by_cases h0 : m.length = 0
  · have : m = [] := List.eq_nil_of_length_eq_zero h0
    subst this
    simp [chacha20_encrypt_bytes_avx2, simdSpec, blocksN, xorBytes_nil_left]
  · simp only [chacha20_encrypt_bytes_avx2, if_neg h0]
    rw [u8_loop_spec _ ctx m c hc (Nat.div_le_self _ _)]
    simp only []
    generalize hk8 : m.length / 512 = k8
    have hl8 : (m.drop (512 * k8)).length = m.length - 512 * k8 := List.length_drop
    have hl8c : (c.drop (512 * k8)).length = c.length - 512 * k8 := List.length_drop
    rw [u4_loop_spec _ _ _ _ (by rw [hl8, hl8c]; omega)
      (by rw [hl8]; exact Nat.le_trans (Nat.div_le_self _ _) (by omega))]
    simp only [List.drop_drop, hl8]
    generalize hk4 : (m.length - 512 * k8) / 256 = k4
    have hl4 : (m.drop (512 * k8 + 256 * k4)).length = m.length - (512 * k8 + 256 * k4) := List.length_drop
    have hl4c : (c.drop (512 * k8 + 256 * k4)).length = c.length - (512 * k8 + 256 * k4) := List.length_drop
    rw [u1_loop_spec _ _ _ _ (by rw [hl4, hl4c]; omega)
      (by rw [hl4]; exact Nat.le_trans (Nat.div_le_self _ _) (by omega))]
    simp only [List.drop_drop, hl4]
    generalize hk1 : (m.length - (512 * k8 + 256 * k4)) / 64 = k1
    have hk : 8 * k8 + (4 * k4 + k1) = m.length / 64 := by omega
    have hd : 512 * k8 + 256 * k4 + 64 * k1 = 64 * (m.length / 64) := by omega
    have hb := blocksN_add (8 * k8) (4 * k4 + k1) ctx m
    have hb2 := blocksN_add (4 * k4) k1 (blocksN (8 * k8) ctx m).2 (m.drop (64 * (8 * k8)))
    rw [hb2, hk] at hb
    simp only [List.drop_drop] at hb
    have e1 : 64 * (8 * k8) = 512 * k8 := by omega
    have e2 : 512 * k8 + 64 * (4 * k4) = 512 * k8 + 256 * k4 := by omega
    rw [e1] at hb
    rw [e2] at hb
    rw [hd]
    have hl2 : (m.drop (64 * (m.length / 64))).length = m.length - 64 * (m.length / 64) := List.length_drop
    have hl2c : (c.drop (64 * (m.length / 64))).length = c.length - 64 * (m.length / 64) := List.length_drop
    rw [u0_spec _ _ _ (by rw [hl2]; omega) (by rw [hl2, hl2c]; omega)]
    simp only [simdSpec, hb, List.append_assoc]

/-! ### the loop bodies with `m == c` -/

theorem getD_take (b : Bytes) (n i : Nat) (h : i < n) : (b.take n).getD i 0 = b.getD i 0 := by
  simp [List.getD_eq_getElem?_getD, h]

theorem load32_le_take (b : Bytes) (n : Nat) (h : 4 ≤ n) : load32_le (b.take n) = load32_le b := by
  simp only [load32_le, getD_take b n 0 (by omega), getD_take b n 1 (by omega), getD_take b n 2 (by omega),
    getD_take b n 3 (by omega)]

theorem V128.ofBytes_take (b : Bytes) (n : Nat) (h : 16 ≤ n) : V128.ofBytes (b.take n) = V128.ofBytes b := by
  simp only [V128.ofBytes, List.drop_take, load32_le_take _ _ (show 4 ≤ n by omega),
    load32_le_take _ _ (show 4 ≤ n - 4 by omega), load32_le_take _ _ (show 4 ≤ n - 8 by omega),
    load32_le_take _ _ (show 4 ≤ n - 12 by omega)]

theorem M256.ofBytes_take (b : Bytes) : M256.ofBytes (b.take 32) = M256.ofBytes b := by
  simp only [M256.ofBytes, List.drop_take, V128.ofBytes_take _ _ (show 16 ≤ 32 by omega),
    V128.ofBytes_take _ _ (show 16 ≤ 32 - 16 by omega)]

/-- a 16-byte load only sees the 16 bytes at its address -/
theorem loadu_seg (X : Bytes) (a : Nat) : mm_loadu_si128 (X.drop a) = V128.ofBytes (seg a 16 X) := by
  rw [mm_loadu_si128, seg, V128.ofBytes_take _ _ (Nat.le_refl _)]
theorem loadu256_seg (X : Bytes) (a : Nat) : mm256_loadu_si256 (X.drop a) = M256.ofBytes (seg a 32 X) := by
  rw [mm256_loadu_si256, seg, M256.ofBytes_take]

theorem lastStore_untouched (a : Nat) (d : Bytes) (l : List (Nat × Bytes)) (h : ∀ p ∈ l, p.1 ≠ a) :
    lastStore a d l = d := by
  induction l generalizing d with
  | nil => rfl
  | cons p l ih =>
    obtain ⟨off, b⟩ := p
    rw [lastStore, if_neg (h (off, b) List.mem_cons_self), ih _ (fun q hq => h q (List.mem_cons_of_mem _ hq))]

/-- stores elsewhere do not change a segment -/
theorem storeAll_seg_untouched (a s : Nat) (c : Bytes) (l : List (Nat × Bytes))
    (h : ∀ p ∈ l, p.2.length = s ∧ p.1 + s ≤ c.length ∧ (a + s ≤ p.1 ∨ p.1 + s ≤ a)) (hs : 0 < s) :
    seg a s (storeAll c l) = seg a s c := by
  rw [storeAll_seg a s c l (fun p hp => ⟨(h p hp).1, (h p hp).2.1, by have := (h p hp).2.2; omega⟩),
    lastStore_untouched _ _ _ (fun p hp => by have := (h p hp).2.2; omega)]

theorem storeAll_append (c : Bytes) (l1 l2 : List (Nat × Bytes)) :
    storeAll (storeAll c l1) l2 = storeAll c (l1 ++ l2) := by
  induction l1 generalizing c with
  | nil => rfl
  | cons p l ih => obtain ⟨off, b⟩ := p; simp only [storeAll, List.cons_append, ih]

/-- u1.h with `m == c` -/
theorem u1_iter_inplace_eq (x : W16) (c : Bytes) : u1_iter_inplace x c = u1_iter x c c := rfl

/-- `ONEQUAD` with `m == c`: the later loads are above the earlier stores -/
theorem u4_ONEQUAD_inplace_eq (xA xB xC xD oA oB oC oD : V128) (c : Bytes) (coff : Nat)
    (hc : coff + 208 ≤ c.length) :
    u4_ONEQUAD_inplace xA xB xC xD oA oB oC oD c coff = u4_ONEQUAD xA xB xC xD oA oB oC oD (c.drop coff) c coff := by
  have hl : ∀ v : V128, v.toBytes.length = 16 := fun _ => rfl
  simp only [u4_ONEQUAD_inplace, u4_ONEQUAD, mm_storeu_si128, List.drop_drop]
  have e1 : ∀ b : Bytes, b.length = 16 → (storeBytes c (coff + 0) b).drop (coff + 64) = c.drop (coff + 64) :=
    fun b hb => drop_storeBytes _ _ _ _ (by omega) (by omega)
  have l1 : ∀ b : Bytes, b.length = 16 → (storeBytes c (coff + 0) b).length = c.length :=
    fun b hb => storeBytes_length _ _ _ (by omega)
  have e2 : ∀ b b' : Bytes, b.length = 16 → b'.length = 16 →
      (storeBytes (storeBytes c (coff + 0) b) (coff + 64) b').drop (coff + 128) = c.drop (coff + 128) := by
    intro b b' hb hb'
    rw [drop_storeBytes _ _ _ _ (by omega) (by rw [l1 b hb]; omega), drop_storeBytes _ _ _ _ (by omega) (by omega)]
  have l2 : ∀ b b' : Bytes, b.length = 16 → b'.length = 16 →
      (storeBytes (storeBytes c (coff + 0) b) (coff + 64) b').length = c.length := by
    intro b b' hb hb'; rw [storeBytes_length _ _ _ (by rw [l1 b hb]; omega), l1 b hb]
  have e3 : ∀ b b' b'' : Bytes, b.length = 16 → b'.length = 16 → b''.length = 16 →
      (storeBytes (storeBytes (storeBytes c (coff + 0) b) (coff + 64) b') (coff + 128) b'').drop (coff + 192) =
        c.drop (coff + 192) := by
    intro b b' b'' hb hb' hb''
    rw [drop_storeBytes _ _ _ _ (by omega) (by rw [l2 b b' hb hb']; omega),
      drop_storeBytes _ _ _ _ (by omega) (by rw [l1 b hb]; omega), drop_storeBytes _ _ _ _ (by omega) (by omega)]
  rw [e1 _ (hl _), e2 _ _ (hl _) (hl _), e3 _ _ _ (hl _) (hl _) (hl _)]

/-- `ONEQUAD` depends on `m` only through its four loads -/
theorem u4_ONEQUAD_congr (xA xB xC xD oA oB oC oD : V128) (m m' c : Bytes) (coff : Nat)
    (h0 : mm_loadu_si128 (m.drop 0) = mm_loadu_si128 (m'.drop 0))
    (h1 : mm_loadu_si128 (m.drop 64) = mm_loadu_si128 (m'.drop 64))
    (h2 : mm_loadu_si128 (m.drop 128) = mm_loadu_si128 (m'.drop 128))
    (h3 : mm_loadu_si128 (m.drop 192) = mm_loadu_si128 (m'.drop 192)) :
    u4_ONEQUAD xA xB xC xD oA oB oC oD m c coff = u4_ONEQUAD xA xB xC xD oA oB oC oD m' c coff := by
  simp only [u4_ONEQUAD, h0, h1, h2, h3]

/-- `ONEQUAD` is four 16-byte stores whose values do not depend on the buffer -/
theorem u4_ONEQUAD_stores (xA xB xC xD oA oB oC oD : V128) (m : Bytes) (coff : Nat) :
    ∃ v0 v1 v2 v3 : V128, ∀ c, u4_ONEQUAD xA xB xC xD oA oB oC oD m c coff =
      storeAll c [(coff + 0, v0.toBytes), (coff + 64, v1.toBytes), (coff + 128, v2.toBytes), (coff + 192, v3.toBytes)] :=
  ⟨_, _, _, _, fun _ => rfl⟩

/-- one in-place `ONEQUAD` at `c + k` on a buffer `ck` obtained from `c` by earlier stores `L` that avoid the
    four 16-byte slots it reads -/
theorem quad_step (xA xB xC xD oA oB oC oD : V128) (c : Bytes) (L : List (Nat × Bytes)) (k : Nat)
    (hL : ∀ p ∈ L, p.2.length = 16 ∧ p.1 + 16 ≤ c.length ∧
      ∀ o ∈ [0, 64, 128, 192], (k + o + 16 ≤ p.1 ∨ p.1 + 16 ≤ k + o))
    (hk : k + 208 ≤ c.length) :
    u4_ONEQUAD_inplace xA xB xC xD oA oB oC oD (storeAll c L) k =
      u4_ONEQUAD xA xB xC xD oA oB oC oD (c.drop k) (storeAll c L) k := by
  have hlen : (storeAll c L).length = c.length :=
    storeAll_length c L (fun p hp => by rw [(hL p hp).1]; exact (hL p hp).2.1)
  rw [u4_ONEQUAD_inplace_eq _ _ _ _ _ _ _ _ _ _ (by rw [hlen]; exact hk)]
  have key : ∀ o ∈ [0, 64, 128, 192],
      mm_loadu_si128 (((storeAll c L).drop k).drop o) = mm_loadu_si128 ((c.drop k).drop o) := by
    intro o ho
    rw [List.drop_drop, List.drop_drop, loadu_seg, loadu_seg,
      storeAll_seg_untouched (k + o) 16 c L (fun p hp => ⟨(hL p hp).1, (hL p hp).2.1, (hL p hp).2.2 o ho⟩) (by decide)]
  exact u4_ONEQUAD_congr _ _ _ _ _ _ _ _ _ _ _ _ (key 0 (by simp)) (key 64 (by simp)) (key 128 (by simp))
    (key 192 (by simp))

/-- u4.h loop body with `m == c` = the separate-buffer body on the old contents -/
theorem u4_iter_inplace_eq (x : W16) (c : Bytes) (hc : 256 ≤ c.length) : u4_iter_inplace x c = u4_iter x c c := by
  simp only [u4_iter_inplace, u4_iter, List.drop_drop, Nat.reduceAdd]
  refine Prod.ext ?_ rfl
  generalize ChachaSimd.forUpBy2 u4_doubleRound ROUNDS 0 _ = X
  generalize (u4_counters x.x12 x.x13).1 = o12
  generalize (u4_counters x.x12 x.x13).2.1 = o13
  obtain ⟨a0, a1, a2, a3, hA⟩ := u4_ONEQUAD_stores X.x_0 X.x_1 X.x_2 X.x_3 (mm_set1_epi32 x.x0) (mm_set1_epi32 x.x1)
    (mm_set1_epi32 x.x2) (mm_set1_epi32 x.x3) c 0
  obtain ⟨b0, b1, b2, b3, hB⟩ := u4_ONEQUAD_stores X.x_4 X.x_5 X.x_6 X.x_7 (mm_set1_epi32 x.x4) (mm_set1_epi32 x.x5)
    (mm_set1_epi32 x.x6) (mm_set1_epi32 x.x7) (c.drop 16) 16
  obtain ⟨d0, d1, d2, d3, hD⟩ := u4_ONEQUAD_stores X.x_8 X.x_9 X.x_10 X.x_11 (mm_set1_epi32 x.x8) (mm_set1_epi32 x.x9)
    (mm_set1_epi32 x.x10) (mm_set1_epi32 x.x11) (c.drop 32) 32
  have q0 := quad_step X.x_0 X.x_1 X.x_2 X.x_3 (mm_set1_epi32 x.x0) (mm_set1_epi32 x.x1)
    (mm_set1_epi32 x.x2) (mm_set1_epi32 x.x3) c [] 0 (fun p hp => by cases hp) (by omega)
  simp only [storeAll, List.drop_zero] at q0
  rw [q0, hA c]
  have q1 := quad_step X.x_4 X.x_5 X.x_6 X.x_7 (mm_set1_epi32 x.x4) (mm_set1_epi32 x.x5)
    (mm_set1_epi32 x.x6) (mm_set1_epi32 x.x7) c [(0 + 0, a0.toBytes), (0 + 64, a1.toBytes), (0 + 128, a2.toBytes), (0 + 192, a3.toBytes)] 16
    (by
      intro p hp
      simp only [List.mem_cons, List.mem_nil_iff, or_false] at hp
      rcases hp with rfl | rfl | rfl | rfl <;> exact ⟨rfl, by simp only []; omega, by dsimp only; decide⟩)
    (by omega)
  rw [q1, hB, storeAll_append]
  have q2 := quad_step X.x_8 X.x_9 X.x_10 X.x_11 (mm_set1_epi32 x.x8) (mm_set1_epi32 x.x9)
    (mm_set1_epi32 x.x10) (mm_set1_epi32 x.x11) c ([(0 + 0, a0.toBytes), (0 + 64, a1.toBytes), (0 + 128, a2.toBytes), (0 + 192, a3.toBytes)] ++ [(16 + 0, b0.toBytes), (16 + 64, b1.toBytes), (16 + 128, b2.toBytes), (16 + 192, b3.toBytes)]) 32
    (by
      intro p hp
      simp only [List.mem_cons, List.mem_append, List.mem_nil_iff, or_false] at hp
      rcases hp with (rfl | rfl | rfl | rfl) | (rfl | rfl | rfl | rfl) <;>
        exact ⟨rfl, by simp only []; omega, by dsimp only; decide⟩)
    (by omega)
  rw [q2, hD, storeAll_append]
  have q3 := quad_step X.x_12 X.x_13 X.x_14 X.x_15 o12 o13
    (mm_set1_epi32 x.x14) (mm_set1_epi32 x.x15) c ([(0 + 0, a0.toBytes), (0 + 64, a1.toBytes), (0 + 128, a2.toBytes), (0 + 192, a3.toBytes)] ++ [(16 + 0, b0.toBytes), (16 + 64, b1.toBytes), (16 + 128, b2.toBytes), (16 + 192, b3.toBytes)] ++ [(32 + 0, d0.toBytes), (32 + 64, d1.toBytes), (32 + 128, d2.toBytes), (32 + 192, d3.toBytes)]) 48
    (by
      intro p hp
      simp only [List.mem_cons, List.mem_append, List.mem_nil_iff, or_false] at hp
      rcases hp with ((rfl | rfl | rfl | rfl) | (rfl | rfl | rfl | rfl)) | (rfl | rfl | rfl | rfl) <;>
        exact ⟨rfl, by simp only []; omega, by dsimp only; decide⟩)
    (by omega)
  rw [q3]

/-- `ONEOCTO` depends on `m` only through its eight loads -/
theorem u8_ONEOCTO_congr (xA xB xC xD xA2 xB2 xC2 xD2 oA oB oC oD oA2 oB2 oC2 oD2 : M256) (m m' c : Bytes) (coff : Nat)
    (h : ∀ o ∈ [0, 64, 128, 192, 256, 320, 384, 448],
      mm256_loadu_si256 (m.drop o) = mm256_loadu_si256 (m'.drop o)) :
    u8_ONEOCTO xA xB xC xD xA2 xB2 xC2 xD2 oA oB oC oD oA2 oB2 oC2 oD2 m c coff =
      u8_ONEOCTO xA xB xC xD xA2 xB2 xC2 xD2 oA oB oC oD oA2 oB2 oC2 oD2 m' c coff := by
  simp only [u8_ONEOCTO, h 0 (by simp), h 64 (by simp), h 128 (by simp), h 192 (by simp), h 256 (by simp),
    h 320 (by simp), h 384 (by simp), h 448 (by simp)]

/-- `ONEOCTO` is eight 32-byte stores whose values do not depend on the buffer -/
theorem u8_ONEOCTO_stores (xA xB xC xD xA2 xB2 xC2 xD2 oA oB oC oD oA2 oB2 oC2 oD2 : M256) (m : Bytes) (coff : Nat) :
    ∃ v0 v1 v2 v3 v4 v5 v6 v7 : M256, ∀ c,
      u8_ONEOCTO xA xB xC xD xA2 xB2 xC2 xD2 oA oB oC oD oA2 oB2 oC2 oD2 m c coff =
        storeAll c [(coff + 0, v0.toBytes), (coff + 64, v1.toBytes), (coff + 128, v2.toBytes), (coff + 192, v3.toBytes),
          (coff + 256, v4.toBytes), (coff + 320, v5.toBytes), (coff + 384, v6.toBytes), (coff + 448, v7.toBytes)] :=
  ⟨_, _, _, _, _, _, _, _, fun _ => rfl⟩

/-- u8.h loop body with `m == c` = the separate-buffer body on the old contents -/
theorem u8_iter_inplace_eq (x : W16) (c : Bytes) (hc : 512 ≤ c.length) : u8_iter_inplace x c = u8_iter x c c := by
  simp only [u8_iter_inplace, u8_iter, List.drop_zero]
  refine Prod.ext ?_ rfl
  generalize ChachaSimd.forUpBy2 u8_doubleRound ROUNDS 0 _ = X
  generalize (u8_counters x.x12 x.x13).1 = o12
  generalize (u8_counters x.x12 x.x13).2.1 = o13
  obtain ⟨a0, a1, a2, a3, a4, a5, a6, a7, hA⟩ := u8_ONEOCTO_stores X.x_0 X.x_1 X.x_2 X.x_3 X.x_4 X.x_5 X.x_6 X.x_7
    (mm256_set1_epi32 x.x0) (mm256_set1_epi32 x.x1) (mm256_set1_epi32 x.x2) (mm256_set1_epi32 x.x3)
    (mm256_set1_epi32 x.x4) (mm256_set1_epi32 x.x5) (mm256_set1_epi32 x.x6) (mm256_set1_epi32 x.x7) c 0
  show u8_ONEOCTO _ _ _ _ _ _ _ _ _ _ _ _ _ _ _ _ _ _ 32 = u8_ONEOCTO _ _ _ _ _ _ _ _ _ _ _ _ _ _ _ _ _ _ 32
  rw [hA c]
  apply u8_ONEOCTO_congr
  intro o ho
  rw [List.drop_drop, List.drop_drop, loadu256_seg, loadu256_seg]
  congr 1
  apply storeAll_seg_untouched _ _ _ _ _ (by decide)
  intro p hp
  simp only [List.mem_cons, List.mem_nil_iff, or_false] at hp ho
  rcases hp with rfl | rfl | rfl | rfl | rfl | rfl | rfl | rfl <;>
    refine ⟨rfl, by simp only []; omega, ?_⟩ <;>
    rcases ho with rfl | rfl | rfl | rfl | rfl | rfl | rfl | rfl <;> dsimp only <;> decide

theorem u0_xorloop_inplace_aux (bytes : Nat) (pb c0 : Bytes) :
    ∀ (d i : Nat) (c : Bytes), bytes - i = d → (∀ k, i ≤ k → c.getD k 0 = c0.getD k 0) →
      u0_xorloop_inplace bytes pb i c = u0_xorloop bytes c0 pb i c := by
  intro d
  induction d with
  | zero =>
    intro i c hd _
    rw [u0_xorloop_inplace, u0_xorloop, if_neg (by omega), if_neg (by omega)]
  | succ d ih =>
    intro i c hd hinv
    rw [u0_xorloop_inplace, u0_xorloop, if_pos (by omega), if_pos (by omega), hinv i (Nat.le_refl _)]
    apply ih (i + 1) _ (by omega)
    intro k hk
    rw [← hinv k (by omega)]
    simp only [List.getD_eq_getElem?_getD, List.getElem?_set]
    rw [if_neg (by omega)]

/-- u0.h byte loop with `m == c`: byte `i` is read before it is written and never again -/
theorem u0_xorloop_inplace_eq (bytes : Nat) (pb c : Bytes) :
    u0_xorloop_inplace bytes pb 0 c = u0_xorloop bytes c pb 0 c :=
  u0_xorloop_inplace_aux bytes pb c _ 0 c rfl (fun _ _ => rfl)

end Sodium.ChachaSimdP
