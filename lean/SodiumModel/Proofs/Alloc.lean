import SodiumModel.Model.Alloc
namespace Sodium.AllocP
end Sodium.AllocP
