import SodiumModel.Model.Alloc
import SodiumModel.Proofs.Pad
/-
  Helper lemmas for C17 (guarded allocation). Put all lemmas in namespace Sodium.AllocP.
  `Proofs/Pad.lean` already has `pow2_of_and_pred` / `and_pred_eq_mod` (n &&& (2^k - 1) = n % 2^k).
-/
open Sodium Sodium.Model
namespace Sodium.AllocP

end Sodium.AllocP
