import SodiumModel.Model.Alloc
import SodiumModel.Proofs.Pad
/-
  Helper lemmas for C17 (guarded allocation). All lemmas live in namespace Sodium.AllocP.
  Page sizes are given as `pg.toNat = 2 ^ k` with `5 ≤ k ≤ 30`.
-/
open Sodium Sodium.Model Sodium.Model.Alloc
namespace Sodium.AllocP

/-! ### the page mask `~~~(pg - 1)` -/

/-- `n &&& (2^64 - 2^k)` clears the low `k` bits -/
theorem and_himask (n k : Nat) (hn : n < 2 ^ 64) (hk : k ≤ 64) :
    n &&& (2 ^ 64 - 2 ^ k) = n / 2 ^ k * 2 ^ k := by
  have e : 2 ^ 64 - 2 ^ k = 2 ^ k * (2 ^ (64 - k) - 1) := by
    rw [Nat.mul_sub, ← Nat.pow_add]
    congr 2 <;> omega
  apply Nat.eq_of_testBit_eq
  intro i
  rw [Nat.testBit_and, e, Nat.testBit_two_pow_mul, Nat.testBit_mul_two_pow, Nat.testBit_two_pow_sub_one,
    Nat.testBit_div_two_pow]
  by_cases h1 : k ≤ i
  · have e2 : i - k + k = i := by omega
    rw [e2]
    by_cases h2 : i < 64
    · have : i - k < 64 - k := by omega
      simp [h1, this]
    · have : n.testBit i = false :=
        Nat.testBit_lt_two_pow (Nat.lt_of_lt_of_le hn (Nat.pow_le_pow_right (by omega) (by omega)))
      have h3 : ¬ (i - k < 64 - k) := by omega
      simp [this, h3]
  · simp [h1]

theorem pg_bounds (pg : UInt64) (k : Nat) (hk5 : 5 ≤ k) (hk30 : k ≤ 30) (hpg : pg.toNat = 2 ^ k) :
    32 ≤ pg.toNat ∧ pg.toNat ≤ 2 ^ 30 := by
  rw [hpg]
  have h1 : 2 ^ 5 ≤ 2 ^ k := Nat.pow_le_pow_right (by decide) hk5
  have h2 : 2 ^ k ≤ 2 ^ 30 := Nat.pow_le_pow_right (by decide) hk30
  exact ⟨h1, h2⟩

theorem pg_dvd_two64 (pg : UInt64) (k : Nat) (hk30 : k ≤ 30) (hpg : pg.toNat = 2 ^ k) :
    2 ^ 64 = pg.toNat * 2 ^ (64 - k) := by
  rw [hpg, ← Nat.pow_add]; congr 1; omega

theorem pred_toNat (pg : UInt64) (h : 1 ≤ pg.toNat) : (pg - 1).toNat = pg.toNat - 1 := by
  rw [UInt64.toNat_sub_of_le _ _ (UInt64.le_iff_toNat_le.mpr (by simpa using h))]; rfl

theorem mask_toNat (pg : UInt64) (h : 1 ≤ pg.toNat) : (~~~(pg - 1)).toNat = 2 ^ 64 - pg.toNat := by
  have := pg.toNat_lt
  rw [UInt64.toNat_not, pred_toNat pg h]; simp only [UInt64.size]; omega

theorem and_mask_toNat (pg x : UInt64) (k : Nat) (hk30 : k ≤ 30) (hpg : pg.toNat = 2 ^ k) :
    (x &&& ~~~(pg - 1)).toNat = x.toNat / pg.toNat * pg.toNat := by
  have h1 : 1 ≤ pg.toNat := by rw [hpg]; exact Nat.one_le_two_pow
  rw [UInt64.toNat_and, mask_toNat pg h1, hpg]
  exact and_himask x.toNat k x.toNat_lt (by omega)

/-- `_page_round` -/
theorem pageRound_toNat (pg size : UInt64) (k : Nat) (hk30 : k ≤ 30) (hpg : pg.toNat = 2 ^ k)
    (hs : size.toNat + pg.toNat ≤ 2 ^ 64) :
    (pageRound pg size).toNat = (size.toNat + pg.toNat - 1) / pg.toNat * pg.toNat := by
  have h1 : 1 ≤ pg.toNat := by rw [hpg]; exact Nat.one_le_two_pow
  unfold pageRound
  rw [and_mask_toNat pg _ k hk30 hpg, UInt64.toNat_add, pred_toNat pg h1]
  have : (size.toNat + (pg.toNat - 1)) % 2 ^ 64 = size.toNat + pg.toNat - 1 := by
    rw [Nat.mod_eq_of_lt] <;> omega
  rw [this]

/-- rounding facts in a form `omega` can use -/
theorem round_facts (n P : Nat) (hP : 0 < P) :
    P ∣ (n + P - 1) / P * P ∧ n ≤ (n + P - 1) / P * P ∧ (n + P - 1) / P * P < n + P := by
  have hd := Nat.div_add_mod (n + P - 1) P
  have hm := Nat.mod_lt (n + P - 1) hP
  rw [Nat.mul_comm] at hd
  exact ⟨Nat.dvd_mul_left _ _, by omega, by omega⟩

/-! ### layout -/

/-- `toNat` of every field of the layout, under the acceptance condition of `_sodium_malloc` -/
theorem layout_toNat (pg size : UInt64) (k : Nat) (hk5 : 5 ≤ k) (hk30 : k ≤ 30) (hpg : pg.toNat = 2 ^ k)
    (h : size.toNat < 2 ^ 64 - 1 - 4 * pg.toNat) :
    (layout pg size).unprotSize.toNat = (16 + size.toNat + pg.toNat - 1) / pg.toNat * pg.toNat ∧
    (layout pg size).unprotOff.toNat = 2 * pg.toNat ∧
    (layout pg size).canaryOff.toNat = 2 * pg.toNat + (layout pg size).unprotSize.toNat - (16 + size.toNat) ∧
    (layout pg size).userOff.toNat = 2 * pg.toNat + (layout pg size).unprotSize.toNat - size.toNat ∧
    (layout pg size).total.toNat = (3 * pg.toNat + (layout pg size).unprotSize.toNat) % 2 ^ 64 := by
  obtain ⟨hlo, hhi⟩ := pg_bounds pg k hk5 hk30 hpg
  have hswc : (CANARY_SIZE + size).toNat = 16 + size.toNat := by
    rw [UInt64.toNat_add]; show (16 + size.toNat) % 2 ^ 64 = _; omega
  have hR : (pageRound pg (CANARY_SIZE + size)).toNat = (16 + size.toNat + pg.toNat - 1) / pg.toNat * pg.toNat := by
    rw [pageRound_toNat pg _ k hk30 hpg (by omega), hswc]
  obtain ⟨-, r1, r2⟩ := round_facts (16 + size.toNat) pg.toNat (by omega)
  rw [← hR] at r1 r2
  have h2 : (pg * 2).toNat = 2 * pg.toNat := by rw [UInt64.toNat_mul]; show (pg.toNat * 2) % 2 ^ 64 = _; omega
  have h3 : (pg * 2 + pageRound pg (CANARY_SIZE + size)).toNat = 2 * pg.toNat + (pageRound pg (CANARY_SIZE + size)).toNat := by
    rw [UInt64.toNat_add, h2]; omega
  have h4 : (pg * 2 + pageRound pg (CANARY_SIZE + size) - (CANARY_SIZE + size)).toNat =
      2 * pg.toNat + (pageRound pg (CANARY_SIZE + size)).toNat - (16 + size.toNat) := by
    rw [UInt64.toNat_sub_of_le _ _ (UInt64.le_iff_toNat_le.mpr (by rw [h3, hswc]; omega)), h3, hswc]
  refine ⟨hR, h2, h4, ?_, ?_⟩
  · show (pg * 2 + pageRound pg (CANARY_SIZE + size) - (CANARY_SIZE + size) + CANARY_SIZE).toNat = _
    rw [UInt64.toNat_add, h4]
    show (_ + 16) % 2 ^ 64 = 2 * pg.toNat + (pageRound pg (CANARY_SIZE + size)).toNat - size.toNat
    omega
  · show (pg + pg + pageRound pg (CANARY_SIZE + size) + pg).toNat = (3 * pg.toNat + (pageRound pg (CANARY_SIZE + size)).toNat) % 2 ^ 64
    rw [UInt64.toNat_add, UInt64.toNat_add, UInt64.toNat_add]
    omega

theorem round_le_of_le_mul (n P M : Nat) (hP : 0 < P) (h : n ≤ M * P) : (n + P - 1) / P * P ≤ M * P := by
  apply Nat.mul_le_mul_right
  apply Nat.le_of_lt_succ
  apply Nat.div_lt_of_lt_mul
  rw [Nat.mul_succ, Nat.mul_comm]; omega

theorem round_ge_of_mul_lt (n P M : Nat) (hP : 0 < P) (h : M * P < n) : (M + 1) * P ≤ (n + P - 1) / P * P := by
  apply Nat.mul_le_mul_right
  rw [Nat.le_div_iff_mul_le hP, Nat.add_mul]; omega

/-- below `2^64 − 4·pg − 15` the total mapping size does not wrap -/
theorem total_nowrap (pg size : UInt64) (k : Nat) (hk5 : 5 ≤ k) (hk30 : k ≤ 30) (hpg : pg.toNat = 2 ^ k)
    (h : size.toNat + 16 + 4 * pg.toNat ≤ 2 ^ 64) :
    3 * pg.toNat + (16 + size.toNat + pg.toNat - 1) / pg.toNat * pg.toNat < 2 ^ 64 := by
  obtain ⟨hlo, hhi⟩ := pg_bounds pg k hk5 hk30 hpg
  have hN := pg_dvd_two64 pg k hk30 hpg
  have e4 : (2 ^ (64 - k) - 4) * pg.toNat = 2 ^ 64 - 4 * pg.toNat := by
    rw [Nat.sub_mul, Nat.mul_comm _ pg.toNat, ← hN]
  have := round_le_of_le_mul (16 + size.toNat) pg.toNat (2 ^ (64 - k) - 4) (by omega)
    (by rw [e4]; omega)
  rw [e4] at this
  omega

/-- in the 14-byte window just below the ENOMEM threshold the rounded size is `2^64 − 3·pg`
    and `total_size` wraps to 0 -/
theorem total_wrap (pg size : UInt64) (k : Nat) (hk5 : 5 ≤ k) (hk30 : k ≤ 30) (hpg : pg.toNat = 2 ^ k)
    (h : size.toNat < 2 ^ 64 - 1 - 4 * pg.toNat) (hc : 2 ^ 64 < size.toNat + 16 + 4 * pg.toNat) :
    (16 + size.toNat + pg.toNat - 1) / pg.toNat * pg.toNat = 2 ^ 64 - 3 * pg.toNat := by
  obtain ⟨hlo, hhi⟩ := pg_bounds pg k hk5 hk30 hpg
  have hN := pg_dvd_two64 pg k hk30 hpg
  have hNge : 2 ^ 34 ≤ 2 ^ (64 - k) := Nat.pow_le_pow_right (by decide) (by omega)
  have e4 : (2 ^ (64 - k) - 4) * pg.toNat = 2 ^ 64 - 4 * pg.toNat := by
    rw [Nat.sub_mul, Nat.mul_comm _ pg.toNat, ← hN]
  have e3 : (2 ^ (64 - k) - 4 + 1) * pg.toNat = 2 ^ 64 - 3 * pg.toNat := by
    have : 2 ^ (64 - k) - 4 + 1 = 2 ^ (64 - k) - 3 := by omega
    rw [this, Nat.sub_mul, Nat.mul_comm _ pg.toNat, ← hN]
  have h1 := round_le_of_le_mul (16 + size.toNat) pg.toNat (2 ^ (64 - k) - 4 + 1) (by omega)
    (by rw [e3]; omega)
  have h2 := round_ge_of_mul_lt (16 + size.toNat) pg.toNat (2 ^ (64 - k) - 4) (by omega)
    (by rw [e4]; omega)
  rw [e3] at h1 h2
  omega

/-! ### recovering the mapping base -/

/-- masking an aligned address plus an in-page offset gives the aligned address back -/
theorem and_mask_add (pg a d : UInt64) (k : Nat) (hk30 : k ≤ 30) (hpg : pg.toNat = 2 ^ k)
    (ha : a.toNat % pg.toNat = 0) (hd : d.toNat < pg.toNat) : (a + d) &&& ~~~(pg - 1) = a := by
  have hN := pg_dvd_two64 pg k hk30 hpg
  have hP : 0 < pg.toNat := by omega
  obtain ⟨c, hc⟩ := Nat.dvd_of_mod_eq_zero ha
  have hal := a.toNat_lt
  have hcN : c < 2 ^ (64 - k) := by
    apply Nat.lt_of_mul_lt_mul_left (a := pg.toNat); rw [← hc, ← hN]; exact hal
  have hfit : a.toNat + pg.toNat ≤ 2 ^ 64 := by
    have : pg.toNat * (c + 1) ≤ pg.toNat * 2 ^ (64 - k) := Nat.mul_le_mul_left _ hcN
    rw [← hN, Nat.mul_succ, ← hc] at this; exact this
  rw [← UInt64.toNat_inj, and_mask_toNat pg _ k hk30 hpg, UInt64.toNat_add,
    Nat.mod_eq_of_lt (by omega), hc, Nat.mul_add_div hP, Nat.div_eq_of_lt hd, Nat.add_zero, Nat.mul_comm]

theorem ring_id (base p2 R swc c : UInt64) :
    base + (p2 + R - swc + c) - c = (base + p2) + (R - swc) := by
  grind


theorem recover_base (pg size base : UInt64) (k : Nat) (hk5 : 5 ≤ k) (hk30 : k ≤ 30) (hpg : pg.toNat = 2 ^ k)
    (h : size.toNat < 2 ^ 64 - 1 - 4 * pg.toNat) (hbase : base.toNat % pg.toNat = 0) :
    unprotectedFromUser pg (base + (layout pg size).userOff) = base + (layout pg size).unprotOff := by
  obtain ⟨hlo, hhi⟩ := pg_bounds pg k hk5 hk30 hpg
  have hN := pg_dvd_two64 pg k hk30 hpg
  have hswc : (CANARY_SIZE + size).toNat = 16 + size.toNat := by
    rw [UInt64.toNat_add]; show (16 + size.toNat) % 2 ^ 64 = _; omega
  have hR : (pageRound pg (CANARY_SIZE + size)).toNat = (16 + size.toNat + pg.toNat - 1) / pg.toNat * pg.toNat := by
    rw [pageRound_toNat pg _ k hk30 hpg (by omega), hswc]
  obtain ⟨-, r1, r2⟩ := round_facts (16 + size.toNat) pg.toNat (by omega)
  rw [← hR] at r1 r2
  have hd : (pageRound pg (CANARY_SIZE + size) - (CANARY_SIZE + size)).toNat < pg.toNat := by
    rw [UInt64.toNat_sub_of_le _ _ (UInt64.le_iff_toNat_le.mpr (by rw [hswc]; omega)), hswc]; omega
  have ha : (base + pg * 2).toNat % pg.toNat = 0 := by
    rw [UInt64.toNat_add, UInt64.toNat_mul]
    show (base.toNat + pg.toNat * 2 % 2 ^ 64) % 2 ^ 64 % pg.toNat = 0
    rw [Nat.mod_eq_of_lt (a := pg.toNat * 2) (by omega), Nat.mod_mod_of_dvd _ ⟨_, hN⟩, Nat.mul_comm,
      Nat.add_mul_mod_self_right, hbase]
  show (base + (pg * 2 + pageRound pg (CANARY_SIZE + size) - (CANARY_SIZE + size) + CANARY_SIZE) - CANARY_SIZE)
    &&& ~~~(pg - 1) = base + pg * 2
  rw [ring_id]
  exact and_mask_add pg _ _ k hk30 hpg ha hd

/-! ### ENOMEM conditions -/

theorem malloc_enomem_iff (pg size : UInt64) (k : Nat) (hk5 : 5 ≤ k) (hk30 : k ≤ 30) (hpg : pg.toNat = 2 ^ k) :
    sodium_malloc pg size = .enomem ↔ 2 ^ 64 - 1 - 5 * pg.toNat ≤ size.toNat := by
  obtain ⟨hlo, hhi⟩ := pg_bounds pg k hk5 hk30 hpg
  have h5 : (pg * 5).toNat = 5 * pg.toNat := by
    rw [UInt64.toNat_mul]; show (pg.toNat * 5) % 2 ^ 64 = _; omega
  have hthr : ((0xFFFFFFFFFFFFFFFF : UInt64) - pg * 5).toNat = 2 ^ 64 - 1 - 5 * pg.toNat := by
    rw [UInt64.toNat_sub_of_le _ _ (UInt64.le_iff_toNat_le.mpr (by rw [h5]; show _ ≤ 2 ^ 64 - 1; omega)), h5]; rfl
  unfold sodium_malloc
  have hc : (size ≥ (0xFFFFFFFFFFFFFFFF : UInt64) - pg * 5) ↔ 2 ^ 64 - 1 - 5 * pg.toNat ≤ size.toNat := by
    show (0xFFFFFFFFFFFFFFFF : UInt64) - pg * 5 ≤ size ↔ _
    rw [UInt64.le_iff_toNat_le, hthr]
  by_cases c : 2 ^ 64 - 1 - 5 * pg.toNat ≤ size.toNat
  · simp [hc.mpr c, c]
  · rw [if_neg (fun x => c (hc.mp x))]; simp [c]

theorem allocarray_ok (pg count size : UInt64) (h : sodium_allocarray pg count size ≠ .enomem) :
    count.toNat * size.toNat < 2 ^ 64 ∧
    sodium_allocarray pg count size = sodium_malloc pg (UInt64.ofNat (count.toNat * size.toNat)) := by
  unfold sodium_allocarray at h ⊢
  by_cases c : count > 0 ∧ size ≥ (0xFFFFFFFFFFFFFFFF : UInt64) / count
  · rw [if_pos c] at h; exact absurd rfl h
  · rw [if_neg c]
    have hmul : count * size = UInt64.ofNat (count.toNat * size.toNat) := by
      rw [← UInt64.toNat_inj, UInt64.toNat_mul]; simp
    refine ⟨?_, by rw [hmul]⟩
    by_cases c0 : count.toNat = 0
    · rw [c0]; omega
    · have hpos : count > 0 := by
        show (0 : UInt64) < count
        rw [UInt64.lt_iff_toNat_lt]; show 0 < count.toNat; omega
      have hlt : size.toNat < (2 ^ 64 - 1) / count.toNat := by
        have : ¬ ((0xFFFFFFFFFFFFFFFF : UInt64) / count ≤ size) := fun x => c ⟨hpos, x⟩
        rw [UInt64.le_iff_toNat_le, UInt64.toNat_div] at this
        exact Nat.lt_of_not_le this
      have h1 : count.toNat * (size.toNat + 1) ≤ 2 ^ 64 - 1 := by
        calc count.toNat * (size.toNat + 1) ≤ count.toNat * ((2 ^ 64 - 1) / count.toNat) :=
              Nat.mul_le_mul_left _ hlt
          _ ≤ 2 ^ 64 - 1 := Nat.mul_div_le _ _
      rw [Nat.mul_succ] at h1
      omega

theorem allocarray_overflow (pg count size : UInt64) (h : 2 ^ 64 ≤ count.toNat * size.toNat) :
    sodium_allocarray pg count size = .enomem := by
  by_cases c : sodium_allocarray pg count size = .enomem
  · exact c
  · have := (allocarray_ok pg count size c).1; omega

/-! ### protection state machine -/

/-- effect of one system call on the protection of page `i` -/
def stepAt (pg : UInt64) (i : Nat) (q : Prot) : Sys → Prot
  | .mprotect off len p =>
    if off.toNat ≤ i * pg.toNat ∧ i * pg.toNat < off.toNat + len.toNat then p else q
  | _ => q

theorem applyCall_get (pg : UInt64) (pages : List Prot) (c : Sys) (i : Nat) :
    (applyCall pg pages c)[i]? = (pages[i]?).map fun q => stepAt pg i q c := by
  cases c <;> simp [applyCall, stepAt, List.getElem?_mapIdx]

theorem foldl_applyCall_get (pg : UInt64) (cs : List Sys) (pages : List Prot) (i : Nat) :
    (cs.foldl (applyCall pg) pages)[i]? = (pages[i]?).map fun q => cs.foldl (stepAt pg i) q := by
  induction cs generalizing pages with
  | nil => simp
  | cons c cs ih =>
    rw [List.foldl_cons, ih, applyCall_get]
    cases pages[i]? <;> simp

/-- a history of whole-region requests leaves page `i` with the last request's protection if the
    page is inside the region, untouched otherwise -/
theorem foldl_ops (pg : UInt64) (L : Layout) (i : Nat) (ops : List Op) (q : Prot) :
    (ops.map (mprotectCall L)).foldl (stepAt pg i) q =
      if L.unprotOff.toNat ≤ i * pg.toNat ∧ i * pg.toNat < L.unprotOff.toNat + L.unprotSize.toNat
      then (ops.getLast?.map Op.prot).getD q else q := by
  induction ops generalizing q with
  | nil => simp
  | cons o ops ih =>
    rw [List.map_cons, List.foldl_cons, ih]
    by_cases c : L.unprotOff.toNat ≤ i * pg.toNat ∧ i * pg.toNat < L.unprotOff.toNat + L.unprotSize.toNat
    · rw [if_pos c, if_pos c]
      cases ops with
      | nil => simp [mprotectCall, stepAt, c]
      | cons o' ops' =>
        rw [List.getLast?_cons_cons, List.getLast?_eq_some_getLast (List.cons_ne_nil o' ops')]
        rfl
    · rw [if_neg c, if_neg c]; simp [mprotectCall, stepAt, c]

theorem range_iff (P a b i : Nat) (hP : 0 < P) : (a * P ≤ i * P ∧ i * P < b * P) ↔ (a ≤ i ∧ i < b) := by
  rw [Nat.mul_le_mul_right_iff hP, Nat.mul_lt_mul_right hP]

/-- page protections after malloc and any history, in terms of the page count `3 + m` -/
theorem pages_after_malloc (pg : UInt64) (L : Layout) (m : Nat) (hP : 0 < pg.toNat)
    (hoff : L.unprotOff.toNat = 2 * pg.toNat) (hsz : L.unprotSize.toNat = m * pg.toNat)
    (hend : (L.unprotOff + L.unprotSize).toNat = (2 + m) * pg.toNat)
    (htot : L.total.toNat = (3 + m) * pg.toNat) (ops : List Op) (i : Nat) (hi : i < 3 + m) :
    (pagesAfter pg L [.mmap L.total, .mprotect pg pg .none, .mprotect (L.unprotOff + L.unprotSize) pg .none,
        .mlock L.unprotOff L.unprotSize, .mprotect 0 pg .ro] ops)[i]? = some
      (if i = 0 then Prot.ro
       else if i = 1 ∨ i = 2 + m then Prot.none
       else (ops.getLast?.map Op.prot).getD Prot.rw) := by
  have hn : L.total.toNat / pg.toNat = 3 + m := by rw [htot]; exact Nat.mul_div_cancel _ hP
  have c1 : (pg.toNat ≤ i * pg.toNat ∧ i * pg.toNat < pg.toNat + pg.toNat) ↔ i = 1 := by
    have := range_iff pg.toNat 1 2 i hP
    rw [Nat.one_mul, Nat.two_mul] at this; rw [this]; omega
  have c2 : ((2 + m) * pg.toNat ≤ i * pg.toNat ∧ i * pg.toNat < (2 + m) * pg.toNat + pg.toNat) ↔ i = 2 + m := by
    have := range_iff pg.toNat (2 + m) (2 + m + 1) i hP
    rw [Nat.add_mul (2 + m) 1, Nat.one_mul] at this; rw [this]; omega
  have c3 : ((0 : UInt64).toNat ≤ i * pg.toNat ∧ i * pg.toNat < (0 : UInt64).toNat + pg.toNat) ↔ i = 0 := by
    have := range_iff pg.toNat 0 1 i hP
    rw [Nat.one_mul, Nat.zero_mul] at this
    show (0 ≤ i * pg.toNat ∧ i * pg.toNat < 0 + pg.toNat) ↔ i = 0
    rw [Nat.zero_add, this]; omega
  have c4 : (2 * pg.toNat ≤ i * pg.toNat ∧ i * pg.toNat < 2 * pg.toNat + m * pg.toNat) ↔ (2 ≤ i ∧ i < 2 + m) := by
    rw [← Nat.add_mul]; exact range_iff pg.toNat 2 (2 + m) i hP
  unfold pagesAfter
  rw [foldl_applyCall_get, hn, List.getElem?_replicate, if_pos hi, Option.map_some, List.foldl_append, foldl_ops,
    hoff, hsz]
  simp only [List.foldl_cons, List.foldl_nil, stepAt, hend, c1, c2, c3, c4]
  congr 1
  by_cases h0 : i = 0
  · subst h0; simp
  · by_cases h1 : i = 1
    · subst h1; simp
    · by_cases h2 : i = 2 + m
      · subst h2; simp
      · have : 2 ≤ i ∧ i < 2 + m := by omega
        simp [h0, h1, h2, this]

theorem malloc_ok_inv (pg size : UInt64) (L : Layout) (calls : List Sys)
    (hm : sodium_malloc pg size = .ok L calls) :
    L = layout pg size ∧
    calls = [.mmap L.total, .mprotect pg pg .none, .mprotect (L.unprotOff + L.unprotSize) pg .none,
             .mlock L.unprotOff L.unprotSize, .mprotect 0 pg .ro] := by
  unfold sodium_malloc at hm
  split at hm
  · cases hm
  · injection hm with h1 h2
    subst h1; exact ⟨rfl, h2.symm⟩

theorem protections (pg size : UInt64) (k : Nat) (hk5 : 5 ≤ k) (hk30 : k ≤ 30) (hpg : pg.toNat = 2 ^ k)
    (h : size.toNat < 2 ^ 64 - 1 - 4 * pg.toNat) (L : Layout) (calls : List Sys)
    (hm : sodium_malloc pg size = .ok L calls) (ops : List Op) (i : Nat) (hi : i < L.total.toNat / pg.toNat) :
    (pagesAfter pg L calls ops)[i]? = some
      (if i = 0 then Prot.ro
       else if i = 1 ∨ i = L.total.toNat / pg.toNat - 1 then Prot.none
       else (ops.getLast?.map Op.prot).getD Prot.rw) := by
  obtain ⟨hL, hcalls⟩ := malloc_ok_inv pg size L calls hm
  obtain ⟨hlo, hhi⟩ := pg_bounds pg k hk5 hk30 hpg
  have hP : 0 < pg.toNat := by omega
  obtain ⟨hsz, hoff, -, -, htot⟩ := layout_toNat pg size k hk5 hk30 hpg h
  rw [← hL] at hsz hoff htot
  by_cases hc : 2 ^ 64 < size.toNat + 16 + 4 * pg.toNat
  · -- total_size wrapped to 0: no pages
    exfalso
    rw [hsz, total_wrap pg size k hk5 hk30 hpg h hc] at htot
    have : 3 * pg.toNat + (2 ^ 64 - 3 * pg.toNat) = 2 ^ 64 := by omega
    rw [this, Nat.mod_self] at htot
    rw [htot, Nat.zero_div] at hi
    exact Nat.not_lt_zero _ hi
  · have hnw := total_nowrap pg size k hk5 hk30 hpg (by omega)
    rw [← hsz] at hnw
    rw [Nat.mod_eq_of_lt hnw] at htot
    have hend : (L.unprotOff + L.unprotSize).toNat = (2 + (16 + size.toNat + pg.toNat - 1) / pg.toNat) * pg.toNat := by
      rw [UInt64.toNat_add, Nat.mod_eq_of_lt (by omega), hoff, hsz, Nat.add_mul]
    have htot' : L.total.toNat = (3 + (16 + size.toNat + pg.toNat - 1) / pg.toNat) * pg.toNat := by
      rw [htot, hsz, Nat.add_mul]
    have hn : L.total.toNat / pg.toNat = 3 + (16 + size.toNat + pg.toNat - 1) / pg.toNat := by
      rw [htot']; exact Nat.mul_div_cancel _ hP
    rw [hn] at hi ⊢
    rw [hcalls, pages_after_malloc pg L _ hP hoff hsz hend htot' ops i hi]
    have : 3 + (16 + size.toNat + pg.toNat - 1) / pg.toNat - 1 = 2 + (16 + size.toNat + pg.toNat - 1) / pg.toNat := by
      omega
    rw [this]

/-! ### layout specification -/

/-- all layout facts that hold for every accepted size (total_size only modulo 2^64) -/
theorem layout_spec_mod (pg size : UInt64) (k : Nat) (hk5 : 5 ≤ k) (hk30 : k ≤ 30) (hpg : pg.toNat = 2 ^ k)
    (h : size.toNat < 2 ^ 64 - 1 - 4 * pg.toNat) :
    let L := layout pg size
    L.userOff.toNat + size.toNat = L.unprotOff.toNat + L.unprotSize.toNat ∧
    L.canaryOff.toNat + 16 = L.userOff.toNat ∧
    L.unprotOff.toNat ≤ L.canaryOff.toNat ∧
    L.unprotOff.toNat = 2 * pg.toNat ∧
    L.total.toNat = (3 * pg.toNat + L.unprotSize.toNat) % 2 ^ 64 ∧
    pg.toNat ∣ L.unprotSize.toNat ∧
    16 + size.toNat ≤ L.unprotSize.toNat ∧ L.unprotSize.toNat < 16 + size.toNat + pg.toNat := by
  dsimp only
  obtain ⟨hlo, hhi⟩ := pg_bounds pg k hk5 hk30 hpg
  obtain ⟨hsz, hoff, hcan, husr, htot⟩ := layout_toNat pg size k hk5 hk30 hpg h
  obtain ⟨r0, r1, r2⟩ := round_facts (16 + size.toNat) pg.toNat (by omega)
  rw [← hsz] at r0 r1 r2
  refine ⟨?_, ?_, ?_, hoff, htot, r0, r1, r2⟩
  · rw [husr, hoff]; omega
  · rw [husr, hcan]; omega
  · rw [hcan, hoff]; omega

theorem layout_total_nowrap (pg size : UInt64) (k : Nat) (hk5 : 5 ≤ k) (hk30 : k ≤ 30) (hpg : pg.toNat = 2 ^ k)
    (h : size.toNat + 16 + 4 * pg.toNat ≤ 2 ^ 64) :
    (layout pg size).total.toNat = 3 * pg.toNat + (layout pg size).unprotSize.toNat := by
  obtain ⟨hlo, hhi⟩ := pg_bounds pg k hk5 hk30 hpg
  obtain ⟨hsz, -, -, -, htot⟩ := layout_toNat pg size k hk5 hk30 hpg (by omega)
  have hnw := total_nowrap pg size k hk5 hk30 hpg h
  rw [← hsz] at hnw
  rw [htot, Nat.mod_eq_of_lt hnw]

theorem layout_total_wrap (pg size : UInt64) (k : Nat) (hk5 : 5 ≤ k) (hk30 : k ≤ 30) (hpg : pg.toNat = 2 ^ k)
    (h : size.toNat < 2 ^ 64 - 1 - 4 * pg.toNat) (hc : 2 ^ 64 < size.toNat + 16 + 4 * pg.toNat) :
    (layout pg size).total = 0 ∧ (layout pg size).unprotSize.toNat = 2 ^ 64 - 3 * pg.toNat := by
  obtain ⟨hlo, hhi⟩ := pg_bounds pg k hk5 hk30 hpg
  obtain ⟨hsz, -, -, -, htot⟩ := layout_toNat pg size k hk5 hk30 hpg h
  have hw := total_wrap pg size k hk5 hk30 hpg h hc
  refine ⟨?_, by rw [hsz, hw]⟩
  rw [← UInt64.toNat_inj, htot, hsz, hw]
  have : 3 * pg.toNat + (2 ^ 64 - 3 * pg.toNat) = 2 ^ 64 := by omega
  rw [this, Nat.mod_self]; rfl

/-- every accepted request satisfies the hypothesis of the layout theorems -/
theorem malloc_ok_bound (pg size : UInt64) (k : Nat) (hk5 : 5 ≤ k) (hk30 : k ≤ 30) (hpg : pg.toNat = 2 ^ k)
    (L : Layout) (calls : List Sys) (hm : sodium_malloc pg size = .ok L calls) :
    size.toNat < 2 ^ 64 - 1 - 5 * pg.toNat := by
  apply Nat.lt_of_not_le
  intro hge
  rw [(malloc_enomem_iff pg size k hk5 hk30 hpg).mpr hge] at hm
  cases hm

end Sodium.AllocP
