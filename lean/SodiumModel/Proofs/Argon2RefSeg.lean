import SodiumModel.Proofs.Argon2RefBlock
import SodiumModel.Proofs.Argon2RefIndex
/-
  Helper lemmas for Properties/C08Core.lean, part 3: `generate_addresses` and `argon2_fill_segment_ref`
  (argon2-fill-block-ref.c) against §3.4.1.2 / `Spec.Argon2.fillSegment`.  The model memory (an array of
  128-word blocks) is related to the flat word memory of the specification by `Rel`.
-/
open Sodium Sodium.Spec Sodium.Model Sodium.Model.Argon2Ref
namespace Sodium.Argon2RefP


theorem init_zero : init_block_value 0 = Argon2.zeroBlock := by
  unfold init_block_value Argon2.zeroBlock
  rfl

theorem size_zeroBlock : Argon2.zeroBlock.size = 128 := by simp [Argon2.zeroBlock]

theorem xorBlock_zero (x : Block) (hx : x.size = 128) : Argon2.xorBlock x Argon2.zeroBlock = x := by
  apply ext!
  · rw [size_xorBlock]
  · intro k hk
    rw [size_xorBlock] at hk
    rw [get!_xorBlock _ _ _ hk]
    have : Argon2.zeroBlock[k]! = 0 := by
      rw [get!_eq _ _ (by rw [size_zeroBlock]; omega)]; simp [Argon2.zeroBlock]
    rw [this, UInt64.xor_zero]

/-- the input block of §3.4.1.2 with counter k -/
def specInput (a b c d e f k : UInt64) : Block := #[a, b, c, d, e, f, k] ++ Array.replicate 121 0

theorem input_eq (a b c d e f : UInt64) :
    ((((((Argon2.zeroBlock.set! 0 a).set! 1 b).set! 2 c).set! 3 d).set! 4 e).set! 5 f) =
      specInput a b c d e f 0 := by
  apply Array.ext'
  simp [specInput, Argon2.zeroBlock, List.replicate]

theorem specInput_step (a b c d e f k : UInt64) :
    (specInput a b c d e f k).set! 6 ((specInput a b c d e f k)[6]! + 1) = specInput a b c d e f (k + 1) := by
  apply Array.ext'
  simp [specInput]

theorem size_specInput (a b c d e f k : UInt64) : (specInput a b c d e f k).size = 128 := by
  simp [specInput]

theorem addressBlock_eq (r l sl m t y k : Nat) :
    Argon2.addressBlock r l sl m t y k =
      Argon2.G Argon2.zeroBlock (Argon2.G Argon2.zeroBlock
        (specInput (.ofNat r) (.ofNat l) (.ofNat sl) (.ofNat m) (.ofNat t) (.ofNat y) (.ofNat k))) := rfl

/-- one refill of `address_block` in `generate_addresses` -/
theorem address_refill (inp : Block) (hi : inp.size = 128) :
    fill_block_with_xor (init_block_value 0) (fill_block_with_xor (init_block_value 0) inp (init_block_value 0))
      (init_block_value 0) = Argon2.G Argon2.zeroBlock (Argon2.G Argon2.zeroBlock inp) := by
  rw [init_zero]
  have h1 : fill_block_with_xor Argon2.zeroBlock inp Argon2.zeroBlock = Argon2.G Argon2.zeroBlock inp := by
    rw [fill_block_with_xor_eq _ _ _ size_zeroBlock hi, xorBlock_zero _ (by rw [size_G, size_zeroBlock])]
  rw [h1, fill_block_with_xor_eq _ _ _ size_zeroBlock (by rw [size_G, size_zeroBlock]),
    xorBlock_zero _ (by rw [size_G, size_zeroBlock])]


/-- invariant of the `generate_addresses` loop after `n` iterations -/
structure GenInv (ab : Nat → Block) (a b c d e f : UInt64) (size : Nat) (n : Nat) (s : GenState) : Prop where
  inp : s.input_block = specInput a b c d e f (.ofNat ((n + 127) / 128))
  addr : n % 128 ≠ 0 → s.address_block = ab (n / 128 + 1)
  size : s.pseudo_rands.size = size
  get : ∀ j, j < n → s.pseudo_rands[j]! = (ab (j / 128 + 1))[j % 128]!

theorem gen_step (a b c d e f : UInt64) (size n : Nat) (s : GenState) (hn : n < size)
    (h : GenInv (fun k => Argon2.G Argon2.zeroBlock (Argon2.G Argon2.zeroBlock (specInput a b c d e f (.ofNat k))))
      a b c d e f size n s) :
    GenInv (fun k => Argon2.G Argon2.zeroBlock (Argon2.G Argon2.zeroBlock (specInput a b c d e f (.ofNat k))))
      a b c d e f size (n + 1) (generate_addresses_step (init_block_value 0) n s) := by
  obtain ⟨h1, h2, h3, h4⟩ := h
  unfold generate_addresses_step ARGON2_ADDRESSES_IN_BLOCK
  by_cases cc : n % 128 = 0
  · rw [if_pos cc]
    dsimp only
    have hk : (n + 1 + 127) / 128 = (n + 127) / 128 + 1 := by omega
    have hk2 : (n + 127) / 128 + 1 = n / 128 + 1 := by omega
    have hin : s.input_block.set! 6 (s.input_block[6]! + 1) = specInput a b c d e f (.ofNat (n / 128 + 1)) := by
      rw [h1, specInput_step, ← hk2, UInt64.ofNat_add]; rfl
    rw [hin, address_refill _ (size_specInput ..)]
    refine ⟨by rw [hk, hk2], ?_, by rw [size_set!, h3], ?_⟩
    · intro _
      have : (n + 1) / 128 = n / 128 := by omega
      rw [this]
    · intro j hj
      rw [get!_set! _ _ _ _ (by omega)]
      by_cases cj : n = j
      · subst cj; rw [if_pos rfl]
      · rw [if_neg cj]; exact h4 j (by omega)
  · rw [if_neg cc]
    dsimp only
    have hk : (n + 1 + 127) / 128 = (n + 127) / 128 := by omega
    refine ⟨by rw [hk, h1], ?_, by rw [size_set!, h3], ?_⟩
    · intro c2
      have : (n + 1) / 128 = n / 128 := by omega
      rw [this]; exact h2 cc
    · intro j hj
      rw [get!_set! _ _ _ _ (by omega)]
      by_cases cj : n = j
      · subst cj; rw [if_pos rfl, h2 cc]
      · rw [if_neg cj]; exact h4 j (by omega)

theorem gen_loop (a b c d e f : UInt64) (size : Nat) (m n : Nat) (s : GenState) (hn : n + m ≤ size)
    (h : GenInv (fun k => Argon2.G Argon2.zeroBlock (Argon2.G Argon2.zeroBlock (specInput a b c d e f (.ofNat k))))
      a b c d e f size n s) :
    GenInv (fun k => Argon2.G Argon2.zeroBlock (Argon2.G Argon2.zeroBlock (specInput a b c d e f (.ofNat k))))
      a b c d e f size (n + m) (forLoop (generate_addresses_step (init_block_value 0)) m n s) := by
  induction m generalizing n s with
  | zero => exact h
  | succ m ih =>
    rw [forLoop, show n + (m + 1) = (n + 1) + m by omega]
    exact ih (n + 1) _ (by omega) (gen_step a b c d e f size n s (by omega) h)

theorem u32_ofNat_toUInt64 (x : UInt32) : UInt64.ofNat x.toNat = x.toUInt64 := by
  apply UInt64.toNat_inj.mp
  rw [UInt64.toNat_ofNat', UInt32.toNat_toUInt64]
  have := x.toNat_lt
  omega

theorem u8_ofNat_toUInt64 (x : UInt8) : UInt64.ofNat x.toNat = x.toUInt64 := by
  apply UInt64.toNat_inj.mp
  rw [UInt64.toNat_ofNat', UInt8.toNat_toUInt64]
  have := x.toNat_lt
  omega

/-- `generate_addresses` writes the J_1‖J_2 words of §3.4.1.2 for the whole segment -/
theorem generate_addresses_spec (inst : Instance) (pos : Position) (pr : Array UInt64)
    (hs : pr.size = inst.segment_length.toNat) :
    (generate_addresses inst pos pr).size = pr.size ∧
    ∀ j, j < inst.segment_length.toNat → (generate_addresses inst pos pr)[j]! =
      (Argon2.addressBlock pos.pass.toNat pos.lane.toNat pos.slice.toNat inst.memory_blocks.toNat
        inst.passes.toNat inst.type.toNat (j / 128 + 1))[j % 128]! := by
  unfold generate_addresses
  dsimp only
  rw [init_zero, input_eq, ← init_zero]
  have := gen_loop pos.pass.toUInt64 pos.lane.toUInt64 pos.slice.toUInt64 inst.memory_blocks.toUInt64
    inst.passes.toUInt64 inst.type.toUInt64 pr.size inst.segment_length.toNat 0
    { input_block := specInput pos.pass.toUInt64 pos.lane.toUInt64 pos.slice.toUInt64 inst.memory_blocks.toUInt64
        inst.passes.toUInt64 inst.type.toUInt64 0, address_block := init_block_value 0, pseudo_rands := pr }
    (by omega) ⟨rfl, by simp, rfl, by intro j hj; omega⟩
  rw [Nat.zero_add] at this
  refine ⟨this.size, ?_⟩
  intro j hj
  rw [this.get j hj, addressBlock_eq, u32_ofNat_toUInt64, u32_ofNat_toUInt64, u8_ofNat_toUInt64,
    u32_ofNat_toUInt64, u32_ofNat_toUInt64, u32_ofNat_toUInt64]



structure InstOk (inst : Instance) : Prop where
  hll : inst.lane_length.toNat = 4 * inst.segment_length.toNat
  hS : 2 ≤ inst.segment_length.toNat
  hmb : inst.memory_blocks.toNat = inst.lanes.toNat * inst.lane_length.toNat
  hlanes : 1 ≤ inst.lanes.toNat
  htype : inst.type = 1 ∨ inst.type = 2

theorem u32_eq_iff (a b : UInt32) : a = b ↔ a.toNat = b.toNat := by rw [UInt32.toNat_inj]
theorem u64_eq_iff (a b : UInt64) : a = b ↔ a.toNat = b.toNat := by rw [UInt64.toNat_inj]
theorem u8_eq_iff (a b : UInt8) : a = b ↔ a.toNat = b.toNat := by rw [UInt8.toNat_inj]

/-- the data-independent/dependent switch -/
theorem di_eq (inst : Instance) (pos : Position) (ht : inst.type = 1 ∨ inst.type = 2) :
    (!(inst.type == Argon2_id && (pos.pass != 0 || pos.slice.toUInt32 >= ARGON2_SYNC_POINTS / 2))) = true ↔
      (inst.type.toNat = 1 ∨ (inst.type.toNat = 2 ∧ pos.pass.toNat = 0 ∧ pos.slice.toNat < 2)) := by
  have h2 : ARGON2_SYNC_POINTS / 2 = 2 := by decide
  have hge : (pos.slice.toUInt32 ≥ 2) ↔ 2 ≤ pos.slice.toNat := by
    rw [ge_iff_le, UInt32.le_iff_toNat_le, u8_toUInt32_toNat]; rfl
  have hp : pos.pass = 0 ↔ pos.pass.toNat = 0 := u32_eq_iff _ _
  rw [h2]
  rcases ht with ht | ht <;> rw [ht] <;> simp [Argon2_id, hge, hp]



/-- the model memory (an array of blocks) represents the flat memory of the specification -/
structure Rel (M : Array Block) (mem : Array UInt64) : Prop where
  size : mem.size = 128 * M.size
  bsize : ∀ n, n < M.size → M[n]!.size = 128
  get : ∀ n k, n < M.size → k < 128 → mem[128 * n + k]! = M[n]![k]!

theorem getBlock_rel {M : Array Block} {mem : Array UInt64} (h : Rel M mem) (n : Nat) (hn : n < M.size) :
    Argon2.getBlock mem n = M[n]! := by
  have hs : (Argon2.getBlock mem n).size = 128 := by
    simp [Argon2.getBlock, h.size]; omega
  apply ext!
  · rw [hs, h.bsize n hn]
  · intro k hk
    rw [hs] at hk
    rw [← h.get n k hn hk, get!_eq _ _ (by omega), get!_eq _ _ (by rw [h.size]; omega)]
    simp [Argon2.getBlock]

/-- `for (k = 0; k < n; ++k) m[off + k] = b[k];` -/
theorem foldl_set_off_spec {α} [Inhabited α] (b : Array α) (off : Nat) (m : Array α) (n : Nat) :
    ((List.range' 0 n).foldl (fun m k => m.set! (off + k) b[k]!) m).size = m.size ∧
    ∀ i, i < m.size → ((List.range' 0 n).foldl (fun m k => m.set! (off + k) b[k]!) m)[i]! =
      if off ≤ i ∧ i < off + n then b[i - off]! else m[i]! := by
  induction n with
  | zero => simp; intro i _ h1 h2; omega
  | succ n ih =>
    rw [List.range'_1_concat, List.foldl_append]
    simp only [List.foldl_cons, List.foldl_nil, Nat.zero_add]
    obtain ⟨h1, h2⟩ := ih
    refine ⟨by rw [size_set!, h1], ?_⟩
    intro i hi
    rw [get!_set! _ _ _ _ (by omega), h2 i hi]
    by_cases c : off + n = i
    · subst c
      rw [if_pos rfl, if_pos (by omega)]
      congr 1; omega
    · rw [if_neg c]
      by_cases c2 : off ≤ i ∧ i < off + n
      · rw [if_pos c2, if_pos (by omega)]
      · rw [if_neg c2, if_neg (by omega)]

theorem setBlock_eq (mem : Array UInt64) (n : Nat) (b : Argon2.Block) : Argon2.setBlock mem n b =
    (List.range' 0 128).foldl (fun m k => m.set! (128 * n + k) b[k]!) mem := by
  unfold Argon2.setBlock
  dsimp only
  rw [forIn_range_foldl _ _ _ _ (fun k m => m.set! (128 * n + k) b[k]!)]
  · rfl
  · intro i s; rfl

theorem setBlock_rel {M : Array Block} {mem : Array UInt64} (h : Rel M mem) (n : Nat) (_hn : n < M.size)
    (b : Block) (hb : b.size = 128) : Rel (M.set! n b) (Argon2.setBlock mem n b) := by
  obtain ⟨s1, s2⟩ := foldl_set_off_spec b (128 * n) mem 128
  rw [← setBlock_eq] at s1 s2
  refine ⟨by rw [s1, h.size, size_set!], ?_, ?_⟩
  · intro m hm
    rw [size_set!] at hm
    rw [get!_set! _ _ _ _ hm]
    split
    · exact hb
    · exact h.bsize m hm
  · intro m k hm hk
    rw [size_set!] at hm
    rw [s2 _ (by rw [h.size]; omega), get!_set! _ _ _ _ hm]
    by_cases c : n = m
    · subst c
      rw [if_pos (by omega), if_pos rfl]
      congr 1; omega
    · rw [if_neg (by omega), if_neg c]
      exact h.get m k hm hk



/-- the loop body of `Spec.Argon2.fillSegment` as a function on the loop state (memory, address block) -/
def segBody (y t mPrime p q r sl lane first idx : Nat) (s : Array UInt64 × Argon2.Block) : Array UInt64 × Argon2.Block :=
  let segLen := q / 4
  let dataIndependent := y = 1 ∨ (y = 2 ∧ r = 0 ∧ sl < 2)
  let mem := s.1
  let addr := s.2
  let j := sl * segLen + idx
  let jPrev := if j = 0 then q - 1 else j - 1
  let prev := Argon2.getBlock mem (lane * q + jPrev)
  let addr := if dataIndependent ∧ (idx % 128 = 0 ∨ idx = first) then Argon2.addressBlock r lane sl mPrime t y (idx / 128 + 1) else addr
  let w := if dataIndependent then addr[idx % 128]! else prev[0]!
  let J1 := (Argon2.lo w).toNat
  let J2 := (w >>> 32).toNat
  let lz := Argon2.refIndex p q r lane sl idx J1 J2
  let ref := Argon2.getBlock mem (lz.1 * q + lz.2)
  let new := Argon2.G prev ref
  let new := if r = 0 then new else Argon2.xorBlock new (Argon2.getBlock mem (lane * q + j))
  (Argon2.setBlock mem (lane * q + j) new, addr)

theorem fillSegment_eq (y t mPrime p q r sl lane : Nat) (mem : Array UInt64) :
    Argon2.fillSegment y t mPrime p q r sl lane mem =
      ((List.range' (if r = 0 ∧ sl = 0 then 2 else 0) (q / 4 - (if r = 0 ∧ sl = 0 then 2 else 0))).foldl
        (fun s idx => segBody y t mPrime p q r sl lane (if r = 0 ∧ sl = 0 then 2 else 0) idx s) (mem, #[])).1 := by
  unfold Argon2.fillSegment
  generalize (if r = 0 ∧ sl = 0 then 2 else 0) = first
  dsimp only
  rw [forIn_range_foldl _ _ _ _ (segBody y t mPrime p q r sl lane first)]
  · rfl
  · intro i s
    unfold segBody
    dsimp only
    by_cases h : (y = 1 ∨ y = 2 ∧ r = 0 ∧ sl < 2) ∧ (i % 128 = 0 ∨ i = first)
    · rw [if_pos h, if_pos h]
    · rw [if_neg h, if_neg h]

/-- the same loop body with the address block looked up directly (§3.4.1.2: word idx mod 128 of block idx / 128 + 1) -/
def specStep (y t mPrime p q r sl lane idx : Nat) (mem : Array UInt64) : Array UInt64 :=
  let segLen := q / 4
  let j := sl * segLen + idx
  let jPrev := if j = 0 then q - 1 else j - 1
  let prev := Argon2.getBlock mem (lane * q + jPrev)
  let w := if y = 1 ∨ (y = 2 ∧ r = 0 ∧ sl < 2) then (Argon2.addressBlock r lane sl mPrime t y (idx / 128 + 1))[idx % 128]!
    else prev[0]!
  let lz := Argon2.refIndex p q r lane sl idx (Argon2.lo w).toNat (w >>> 32).toNat
  let ref := Argon2.getBlock mem (lz.1 * q + lz.2)
  let new := Argon2.G prev ref
  let new := if r = 0 then new else Argon2.xorBlock new (Argon2.getBlock mem (lane * q + j))
  Argon2.setBlock mem (lane * q + j) new

theorem seg_fold (y t mPrime p q r sl lane first : Nat) (n a : Nat) (mem : Array UInt64) (addr : Argon2.Block)
    (h : (y = 1 ∨ (y = 2 ∧ r = 0 ∧ sl < 2)) → a % 128 = 0 ∨ a = first ∨
      addr = Argon2.addressBlock r lane sl mPrime t y (a / 128 + 1)) :
    ((List.range' a n).foldl (fun s idx => segBody y t mPrime p q r sl lane first idx s) (mem, addr)).1 =
      (List.range' a n).foldl (fun m idx => specStep y t mPrime p q r sl lane idx m) mem := by
  induction n generalizing a mem addr with
  | zero => rfl
  | succ n ih =>
    rw [List.range'_succ, List.foldl_cons, List.foldl_cons]
    have key : segBody y t mPrime p q r sl lane first a (mem, addr) =
        (specStep y t mPrime p q r sl lane a mem,
          if (y = 1 ∨ (y = 2 ∧ r = 0 ∧ sl < 2)) ∧ (a % 128 = 0 ∨ a = first) then
            Argon2.addressBlock r lane sl mPrime t y (a / 128 + 1) else addr) := by
      unfold segBody specStep
      dsimp only
      by_cases c : y = 1 ∨ (y = 2 ∧ r = 0 ∧ sl < 2)
      · have hh := h c
        simp only [if_pos c]
        by_cases c2 : a % 128 = 0 ∨ a = first
        · simp only [c, c2, and_self, if_true]
        · have : addr = Argon2.addressBlock r lane sl mPrime t y (a / 128 + 1) := by
            rcases hh with h1 | h1 | h1
            · exact absurd (Or.inl h1) c2
            · exact absurd (Or.inr h1) c2
            · exact h1
          simp only [c, c2, and_false, if_false, this]
      · simp only [c, false_and, if_false]
    rw [key]
    apply ih
    intro c
    by_cases c3 : (a + 1) % 128 = 0
    · left; exact c3
    · right; right
      have e : (a + 1) / 128 = a / 128 := by omega
      rw [e]
      by_cases c2 : a % 128 = 0 ∨ a = first
      · rw [if_pos ⟨c, c2⟩]
      · rw [if_neg (fun hh => c2 hh.2)]
        rcases h c with h1 | h1 | h1
        · exact absurd (Or.inl h1) c2
        · exact absurd (Or.inr h1) c2
        · exact h1

theorem fillSegment_eq_steps (y t mPrime p q r sl lane : Nat) (mem : Array UInt64) :
    Argon2.fillSegment y t mPrime p q r sl lane mem =
      (List.range' (if r = 0 ∧ sl = 0 then 2 else 0) (q / 4 - (if r = 0 ∧ sl = 0 then 2 else 0))).foldl
        (fun m idx => specStep y t mPrime p q r sl lane idx m) mem := by
  rw [fillSegment_eq, seg_fold]
  intro _; right; left; rfl


/-- column of the previous block -/
def jPrev (q x : Nat) : Nat := if x = 0 then q - 1 else x - 1

/-- the array accesses of one iteration of the loop of `argon2_fill_segment_ref` are inside the allocations:
    `memory[curr_offset]`, `memory[prev_offset]` (after the rotation), the reference block
    `memory[lane_length * ref_lane + ref_index]`, and `pseudo_rands[i]` -/
def StepInBounds (inst : Instance) (pos : Position) (DI : Bool) (pr : Array UInt64) (i : Nat) (s : SegState) : Prop :=
  let po := if s.curr_offset % inst.lane_length = 1 then s.curr_offset - 1 else s.prev_offset
  let w : UInt64 := if DI = true then pr[i]! else s.memory[po.toNat]![0]!
  let rl : UInt64 := if pos.pass = 0 ∧ pos.slice = 0 then pos.lane.toUInt64 else (w >>> 32) % inst.lanes.toUInt64
  s.curr_offset.toNat < s.memory.size ∧ po.toNat < s.memory.size ∧
  (inst.lane_length.toUInt64 * rl + (index_alpha inst { pos with index := UInt32.ofNat i }
    (w &&& 0xFFFFFFFF).toUInt32 (rl == pos.lane.toUInt64)).toUInt64).toNat < s.memory.size ∧
  (DI = true → i < pr.size)

theorem seg_step (inst : Instance) (pos : Position) (pr : Array UInt64) (i : Nat) (s : SegState)
    (mem : Array UInt64) (DI : Bool) (hI : InstOk inst)
    (hsl : pos.slice.toNat < 4) (hlane : pos.lane.toNat < inst.lanes.toNat)
    (hi : i < inst.segment_length.toNat) (hi0 : pos.pass = 0 → pos.slice = 0 → 2 ≤ i)
    (hM : Rel s.memory mem) (hMs : s.memory.size = inst.memory_blocks.toNat)
    (hc : s.curr_offset.toNat = pos.lane.toNat * inst.lane_length.toNat +
      (pos.slice.toNat * inst.segment_length.toNat + i))
    (hp : pos.slice.toNat * inst.segment_length.toNat + i ≠ 1 →
      s.prev_offset.toNat = pos.lane.toNat * inst.lane_length.toNat +
        jPrev inst.lane_length.toNat (pos.slice.toNat * inst.segment_length.toNat + i))
    (hDI : DI = true ↔ (inst.type.toNat = 1 ∨ (inst.type.toNat = 2 ∧ pos.pass.toNat = 0 ∧ pos.slice.toNat < 2)))
    (hpr : DI = true → pr[i]! = (Argon2.addressBlock pos.pass.toNat pos.lane.toNat pos.slice.toNat
      inst.memory_blocks.toNat inst.passes.toNat inst.type.toNat (i / 128 + 1))[i % 128]!)
    (hprsz : pr.size = inst.segment_length.toNat) :
    Rel (fill_segment_step inst pos DI pr i s).memory
      (specStep inst.type.toNat inst.passes.toNat inst.memory_blocks.toNat inst.lanes.toNat
        inst.lane_length.toNat pos.pass.toNat pos.slice.toNat pos.lane.toNat i mem) ∧
    (fill_segment_step inst pos DI pr i s).memory.size = s.memory.size ∧
    (fill_segment_step inst pos DI pr i s).curr_offset.toNat = pos.lane.toNat * inst.lane_length.toNat +
      (pos.slice.toNat * inst.segment_length.toNat + (i + 1)) ∧
    (pos.slice.toNat * inst.segment_length.toNat + (i + 1) ≠ 1 →
      (fill_segment_step inst pos DI pr i s).prev_offset.toNat = pos.lane.toNat * inst.lane_length.toNat +
        jPrev inst.lane_length.toNat (pos.slice.toNat * inst.segment_length.toNat + (i + 1))) ∧
    StepInBounds inst pos DI pr i s := by
  obtain ⟨hll, hS, hmb, hlanes, htype⟩ := hI
  have hmbl := inst.memory_blocks.toNat_lt
  -- abbreviations
  generalize hq : inst.lane_length.toNat = q at *
  generalize hSv : inst.segment_length.toNat = S at *
  generalize hpv : inst.lanes.toNat = p at *
  generalize hlv : pos.lane.toNat = lane at *
  generalize hslv : pos.slice.toNat = sl at *
  have hx : sl * S + i < q := by
    have : sl * S ≤ 3 * S := Nat.mul_le_mul_right _ (by omega)
    omega
  have hlq : lane * q + q ≤ p * q := by
    have : (lane + 1) * q ≤ p * q := Nat.mul_le_mul_right _ (by omega)
    rw [Nat.add_mul] at this; omega
  have hmodq : (lane * q + (sl * S + i)) % q = sl * S + i := by
    rw [Nat.mul_comm, Nat.mul_add_mod, Nat.mod_eq_of_lt hx]
  generalize hxv : sl * S + i = x at *
  -- 1.1 prev_offset
  have hprev : (if s.curr_offset % inst.lane_length = 1 then s.curr_offset - 1 else s.prev_offset).toNat =
      lane * q + jPrev q x := by
    have h1 : (s.curr_offset % inst.lane_length = 1) ↔ x = 1 := by
      rw [u32_eq_iff, UInt32.toNat_mod, hc, hq, hmodq]; rfl
    by_cases c : x = 1
    · rw [if_pos (h1.mpr c), UInt32.toNat_sub, hc]
      have : (1 : UInt32).toNat = 1 := rfl
      rw [this, c]; unfold jPrev; simp; omega
    · rw [if_neg (fun hh => c (h1.mp hh))]; exact hp c
  have hjp : jPrev q x < q := by unfold jPrev; split <;> omega
  generalize hpo : (if s.curr_offset % inst.lane_length = 1 then s.curr_offset - 1 else s.prev_offset) = po at hprev
  have hpoM : po.toNat < s.memory.size := by rw [hMs, hmb, hprev]; omega
  have hcM : s.curr_offset.toNat < s.memory.size := by rw [hMs, hmb, hc]; omega
  have hprevB : s.memory[po.toNat]! = Argon2.getBlock mem (lane * q + jPrev q x) := by
    rw [← hprev]; exact (getBlock_rel hM _ hpoM).symm
  have hcurrB : s.memory[s.curr_offset.toNat]! = Argon2.getBlock mem (lane * q + x) := by
    rw [← hc]; exact (getBlock_rel hM _ hcM).symm
  have hprevS : (Argon2.getBlock mem (lane * q + jPrev q x)).size = 128 := by
    rw [← hprevB]; exact hM.bsize _ hpoM
  -- 1.2.1 pseudo_rand
  have hw : (if DI = true then pr[i]! else s.memory[po.toNat]![0]!) =
      (if inst.type.toNat = 1 ∨ (inst.type.toNat = 2 ∧ pos.pass.toNat = 0 ∧ sl < 2) then
        (Argon2.addressBlock pos.pass.toNat lane sl inst.memory_blocks.toNat inst.passes.toNat inst.type.toNat
          (i / 128 + 1))[i % 128]!
       else (Argon2.getBlock mem (lane * q + jPrev q x))[0]!) := by
    by_cases c : DI = true
    · rw [if_pos c, if_pos (hDI.mp c), hpr c]
    · rw [if_neg c, if_neg (fun hh => c (hDI.mpr hh)), hprevB]
  generalize hwv : (if inst.type.toNat = 1 ∨ (inst.type.toNat = 2 ∧ pos.pass.toNat = 0 ∧ sl < 2) then
        (Argon2.addressBlock pos.pass.toNat lane sl inst.memory_blocks.toNat inst.passes.toNat inst.type.toNat
          (i / 128 + 1))[i % 128]!
       else (Argon2.getBlock mem (lane * q + jPrev q x))[0]!) = w at hw
  -- 1.2.2 ref_lane
  have hp0 : pos.pass = 0 ↔ pos.pass.toNat = 0 := u32_eq_iff _ _
  have hs0 : pos.slice = 0 ↔ sl = 0 := by rw [u8_eq_iff, hslv]; rfl
  have hrl : (if pos.pass = 0 ∧ pos.slice = 0 then pos.lane.toUInt64 else (w >>> 32) % inst.lanes.toUInt64).toNat =
      (if pos.pass.toNat = 0 ∧ sl = 0 then lane else (w >>> 32).toNat % p) := by
    by_cases c : pos.pass = 0 ∧ pos.slice = 0
    · rw [if_pos c, if_pos ⟨hp0.mp c.1, hs0.mp c.2⟩, UInt32.toNat_toUInt64, hlv]
    · rw [if_neg c, if_neg (fun hh => c ⟨hp0.mpr hh.1, hs0.mpr hh.2⟩), UInt64.toNat_mod, UInt32.toNat_toUInt64, hpv]
  generalize hrlv : (if pos.pass = 0 ∧ pos.slice = 0 then pos.lane.toUInt64 else (w >>> 32) % inst.lanes.toUInt64) = rl at hrl
  have hl : (if pos.pass.toNat = 0 ∧ sl = 0 then lane else (w >>> 32).toNat % p) < p := by
    split
    · exact hlane
    · exact Nat.mod_lt _ (by omega)
  generalize hlv' : (if pos.pass.toNat = 0 ∧ sl = 0 then lane else (w >>> 32).toNat % p) = l at hrl hl
  have hsame : (rl == pos.lane.toUInt64) = decide (l = lane) := by
    rw [Bool.eq_iff_iff, beq_iff_eq, decide_eq_true_iff, u64_eq_iff, hrl, UInt32.toNat_toUInt64, hlv]
  -- 1.2.3 index_alpha
  have hJ1 : ((w &&& 0xFFFFFFFF).toUInt32).toNat = (Argon2.lo w).toNat := by
    unfold Argon2.lo
    rw [UInt64.toNat_toUInt32, UInt64.toNat_and]
    have : (4294967295 : UInt64).toNat = 2 ^ 32 - 1 := rfl
    rw [this, Nat.and_two_pow_sub_one_eq_mod, Nat.mod_mod]
  have hiN : (UInt32.ofNat i).toNat = i := by
    rw [UInt32.toNat_ofNat', Nat.mod_eq_of_lt (by omega)]
  have hidx := index_alpha_eq inst { pos with index := UInt32.ofNat i } (w &&& 0xFFFFFFFF).toUInt32
    (rl == pos.lane.toUInt64)
    ⟨by rw [hq, hSv]; exact hll, by rw [hSv]; exact hS, by show pos.slice.toNat < 4; rw [hslv]; exact hsl,
     by show (UInt32.ofNat i).toNat < _; rw [hiN, hSv]; exact hi,
     by
      intro a b
      refine ⟨by show 2 ≤ (UInt32.ofNat i).toNat; rw [hiN]; exact hi0 a b, ?_⟩
      rw [hsame, decide_eq_true_iff, ← hlv', if_pos ⟨hp0.mp a, hs0.mp b⟩]⟩
  rw [hJ1, hq, hsame] at hidx
  simp only [hiN, hslv] at hidx
  have hz : refZ q pos.pass.toNat sl i (Argon2.lo w).toNat (decide (l = lane)) < q := by
    unfold refZ; exact Nat.mod_lt _ (by omega)
  generalize hzv : refZ q pos.pass.toNat sl i (Argon2.lo w).toNat (decide (l = lane)) = z at hidx hz
  have hlq2 : l * q + q ≤ p * q := by
    have : (l + 1) * q ≤ p * q := Nat.mul_le_mul_right _ (by omega)
    rw [Nat.add_mul] at this; omega
  have href : (inst.lane_length.toUInt64 * rl +
      (index_alpha inst { pos with index := UInt32.ofNat i } (w &&& 0xFFFFFFFF).toUInt32
        (rl == pos.lane.toUInt64)).toUInt64).toNat = l * q + z := by
    rw [UInt64.toNat_add, UInt64.toNat_mul, UInt32.toNat_toUInt64, UInt32.toNat_toUInt64, hq, hrl, hsame, hidx,
      Nat.mul_comm q l]
    omega
  have hrefM : l * q + z < s.memory.size := by rw [hMs, hmb]; omega
  have hrefB : s.memory[l * q + z]! = Argon2.getBlock mem (l * q + z) := (getBlock_rel hM _ hrefM).symm
  have hrefS : (Argon2.getBlock mem (l * q + z)).size = 128 := by
    rw [← hrefB]; exact hM.bsize _ hrefM
  -- the specification side
  have hspec : specStep inst.type.toNat inst.passes.toNat inst.memory_blocks.toNat p q pos.pass.toNat sl lane i mem =
      Argon2.setBlock mem (lane * q + x)
        (if pos.pass.toNat = 0 then Argon2.G (Argon2.getBlock mem (lane * q + jPrev q x)) (Argon2.getBlock mem (l * q + z))
         else Argon2.xorBlock (Argon2.G (Argon2.getBlock mem (lane * q + jPrev q x)) (Argon2.getBlock mem (l * q + z)))
           (Argon2.getBlock mem (lane * q + x))) := by
    unfold specStep
    dsimp only
    rw [show q / 4 = S by omega, hxv]
    have hjpe : (if x = 0 then q - 1 else x - 1) = jPrev q x := rfl
    rw [hjpe, hwv, refIndex_eq]
    dsimp only
    rw [hlv', hzv]
  have hinb : StepInBounds inst pos DI pr i s := by
    unfold StepInBounds
    dsimp only
    rw [hpo, hw, hrlv, href]
    exact ⟨hcM, hpoM, hrefM, fun _ => by omega⟩
  rw [hspec]
  -- the model side
  have hmodel : fill_segment_step inst pos DI pr i s =
      { curr_offset := s.curr_offset + 1, prev_offset := po + 1,
        memory := s.memory.set! s.curr_offset.toNat
          (if pos.pass ≠ 0 then fill_block_with_xor s.memory[po.toNat]! s.memory[l * q + z]! s.memory[s.curr_offset.toNat]!
           else fill_block s.memory[po.toNat]! s.memory[l * q + z]!) } := by
    unfold fill_segment_step
    dsimp only
    rw [hpo, hw, hrlv, href]
  rw [hmodel]
  dsimp only
  refine ⟨?_, by rw [size_set!], ?_, ?_, hinb⟩
  · rw [hprevB, hrefB, hcurrB, ← hc]
    by_cases c : pos.pass = 0
    · rw [if_neg (by simp [c]), if_pos (hp0.mp c), fill_block_eq _ _ hprevS hrefS]
      exact setBlock_rel hM _ hcM _ (by rw [size_G, hprevS])
    · rw [if_pos c, if_neg (fun hh => c (hp0.mpr hh)), fill_block_with_xor_eq _ _ _ hprevS hrefS]
      exact setBlock_rel hM _ hcM _ (by rw [size_xorBlock, size_G, hprevS])
  · have : (1 : UInt32).toNat = 1 := rfl
    rw [UInt32.toNat_add, hc, this]; omega
  · intro hne
    have : (1 : UInt32).toNat = 1 := rfl
    rw [UInt32.toNat_add, hprev, this]
    unfold jPrev
    rw [if_neg (by omega)]
    split <;> omega

theorem seg_loop (inst : Instance) (pos : Position) (pr : Array UInt64) (DI : Bool) (hI : InstOk inst)
    (hsl : pos.slice.toNat < 4) (hlane : pos.lane.toNat < inst.lanes.toNat)
    (hDI : DI = true ↔ (inst.type.toNat = 1 ∨ (inst.type.toNat = 2 ∧ pos.pass.toNat = 0 ∧ pos.slice.toNat < 2)))
    (hpr : ∀ i, i < inst.segment_length.toNat → DI = true →
      pr[i]! = (Argon2.addressBlock pos.pass.toNat pos.lane.toNat pos.slice.toNat
        inst.memory_blocks.toNat inst.passes.toNat inst.type.toNat (i / 128 + 1))[i % 128]!)
    (hprsz : pr.size = inst.segment_length.toNat)
    (n i : Nat) (s : SegState) (mem : Array UInt64)
    (hin : i + n ≤ inst.segment_length.toNat) (hi0 : pos.pass = 0 → pos.slice = 0 → 2 ≤ i)
    (hM : Rel s.memory mem) (hMs : s.memory.size = inst.memory_blocks.toNat)
    (hc : s.curr_offset.toNat = pos.lane.toNat * inst.lane_length.toNat +
      (pos.slice.toNat * inst.segment_length.toNat + i))
    (hp : pos.slice.toNat * inst.segment_length.toNat + i ≠ 1 →
      s.prev_offset.toNat = pos.lane.toNat * inst.lane_length.toNat +
        jPrev inst.lane_length.toNat (pos.slice.toNat * inst.segment_length.toNat + i)) :
    Rel (forLoop (fill_segment_step inst pos DI pr) n i s).memory
      ((List.range' i n).foldl (fun m idx => specStep inst.type.toNat inst.passes.toNat inst.memory_blocks.toNat
        inst.lanes.toNat inst.lane_length.toNat pos.pass.toNat pos.slice.toNat pos.lane.toNat idx m) mem) ∧
    (forLoop (fill_segment_step inst pos DI pr) n i s).memory.size = inst.memory_blocks.toNat ∧
    ∀ k, k < n → StepInBounds inst pos DI pr (i + k) (forLoop (fill_segment_step inst pos DI pr) k i s) := by
  induction n generalizing i s mem with
  | zero => exact ⟨hM, hMs, fun k hk => absurd hk (Nat.not_lt_zero k)⟩
  | succ n ih =>
    rw [forLoop, List.range'_succ, List.foldl_cons]
    obtain ⟨a1, a2, a3, a4, a5⟩ := seg_step inst pos pr i s mem DI hI hsl hlane (by omega) hi0 hM hMs hc hp hDI
      (hpr i (by omega)) hprsz
    obtain ⟨b1, b2, b3⟩ := ih (i + 1) _ _ (by omega) (fun a b => by have := hi0 a b; omega) a1 (by rw [a2, hMs]) a3 a4
    refine ⟨b1, b2, ?_⟩
    intro k hk
    cases k with
    | zero => exact a5
    | succ k =>
      rw [forLoop, show i + (k + 1) = i + 1 + k by omega]
      exact b3 k (by omega)

/-- `argon2_fill_segment_ref` = `Spec.Argon2.fillSegment` on related memories -/
theorem fill_segment_rel (inst : Instance) (pos : Position) (st : State) (mem : Array UInt64) (hI : InstOk inst)
    (hsl : pos.slice.toNat < 4) (hlane : pos.lane.toNat < inst.lanes.toNat)
    (hM : Rel st.memory mem) (hMs : st.memory.size = inst.memory_blocks.toNat)
    (hprs : st.pseudo_rands.size = inst.segment_length.toNat) :
    Rel (argon2_fill_segment_ref inst pos st).memory
      (Argon2.fillSegment inst.type.toNat inst.passes.toNat inst.memory_blocks.toNat inst.lanes.toNat
        inst.lane_length.toNat pos.pass.toNat pos.slice.toNat pos.lane.toNat mem) ∧
    (argon2_fill_segment_ref inst pos st).memory.size = inst.memory_blocks.toNat ∧
    (argon2_fill_segment_ref inst pos st).pseudo_rands.size = inst.segment_length.toNat ∧
    ∀ k, k < inst.segment_length.toNat - (fill_segment_init inst pos st).starting_index.toNat →
      StepInBounds inst pos (fill_segment_init inst pos st).data_independent_addressing
        (fill_segment_init inst pos st).pseudo_rands ((fill_segment_init inst pos st).starting_index.toNat + k)
        (forLoop (fill_segment_step inst pos (fill_segment_init inst pos st).data_independent_addressing
          (fill_segment_init inst pos st).pseudo_rands) k (fill_segment_init inst pos st).starting_index.toNat
          (fill_segment_init inst pos st).state) := by
  have hI' := hI
  obtain ⟨hll, hS, hmb, hlanes, htype⟩ := hI
  have hmbl := inst.memory_blocks.toNat_lt
  have hp0 : pos.pass = 0 ↔ pos.pass.toNat = 0 := u32_eq_iff _ _
  have hs0 : pos.slice = 0 ↔ pos.slice.toNat = 0 := by rw [u8_eq_iff]; rfl
  rw [fillSegment_eq_steps, show inst.lane_length.toNat / 4 = inst.segment_length.toNat by omega]
  unfold argon2_fill_segment_ref fill_segment_init
  dsimp only
  generalize hDIv : (!(inst.type == Argon2_id && (pos.pass != 0 || pos.slice.toUInt32 >= ARGON2_SYNC_POINTS / 2))) = DI
  have hDI := di_eq inst pos htype
  rw [hDIv] at hDI
  -- starting_index
  have hst : (if pos.pass = 0 ∧ pos.slice = 0 then (2 : UInt32) else 0).toNat =
      (if pos.pass.toNat = 0 ∧ pos.slice.toNat = 0 then 2 else 0) := by
    by_cases c : pos.pass = 0 ∧ pos.slice = 0
    · rw [if_pos c, if_pos ⟨hp0.mp c.1, hs0.mp c.2⟩]; rfl
    · rw [if_neg c, if_neg (fun hh => c ⟨hp0.mpr hh.1, hs0.mpr hh.2⟩)]; rfl
  generalize hstv : (if pos.pass = 0 ∧ pos.slice = 0 then (2 : UInt32) else 0) = st32 at hst
  have hfirst : (if pos.pass.toNat = 0 ∧ pos.slice.toNat = 0 then 2 else 0) ≤ 2 := by split <;> omega
  have hfirst0 : pos.pass = 0 → pos.slice = 0 → 2 ≤ (if pos.pass.toNat = 0 ∧ pos.slice.toNat = 0 then 2 else 0) := by
    intro a b; rw [if_pos ⟨hp0.mp a, hs0.mp b⟩]; exact Nat.le_refl 2
  have hfirstsl : (if pos.pass.toNat = 0 ∧ pos.slice.toNat = 0 then 2 else 0) ≠ 0 →
      pos.slice.toNat * inst.segment_length.toNat = 0 := by
    split
    · next h => intro _; rw [h.2, Nat.zero_mul]
    · intro h; exact absurd rfl h
  generalize hfv : (if pos.pass.toNat = 0 ∧ pos.slice.toNat = 0 then 2 else 0) = first at *
  -- pseudo_rands
  obtain ⟨g1, g2⟩ := generate_addresses_spec inst pos st.pseudo_rands hprs
  have hprs' : (if DI = true then generate_addresses inst pos st.pseudo_rands else st.pseudo_rands).size =
      inst.segment_length.toNat := by
    split
    · rw [g1, hprs]
    · exact hprs
  have hpr : ∀ i, i < inst.segment_length.toNat → DI = true →
      (if DI = true then generate_addresses inst pos st.pseudo_rands else st.pseudo_rands)[i]! =
        (Argon2.addressBlock pos.pass.toNat pos.lane.toNat pos.slice.toNat
          inst.memory_blocks.toNat inst.passes.toNat inst.type.toNat (i / 128 + 1))[i % 128]! := by
    intro i hi c
    rw [if_pos c]; exact g2 i hi
  generalize (if DI = true then generate_addresses inst pos st.pseudo_rands else st.pseudo_rands) = pr at hprs' hpr
  -- offsets
  have hslS : pos.slice.toNat * inst.segment_length.toNat ≤ 3 * inst.segment_length.toNat :=
    Nat.mul_le_mul_right _ (by omega)
  have hlq : pos.lane.toNat * inst.lane_length.toNat + inst.lane_length.toNat ≤
      inst.lanes.toNat * inst.lane_length.toNat := by
    have : (pos.lane.toNat + 1) * inst.lane_length.toNat ≤ inst.lanes.toNat * inst.lane_length.toNat :=
      Nat.mul_le_mul_right _ (by omega)
    rw [Nat.add_mul] at this; omega
  have hcurr : (pos.lane * inst.lane_length + pos.slice.toUInt32 * inst.segment_length + st32).toNat =
      pos.lane.toNat * inst.lane_length.toNat + (pos.slice.toNat * inst.segment_length.toNat + first) := by
    rw [UInt32.toNat_add, UInt32.toNat_add, UInt32.toNat_mul, UInt32.toNat_mul, u8_toUInt32_toNat, hst]
    generalize pos.lane.toNat * inst.lane_length.toNat = a at *
    generalize pos.slice.toNat * inst.segment_length.toNat = b at *
    omega
  generalize (pos.lane * inst.lane_length + pos.slice.toUInt32 * inst.segment_length + st32) = curr at hcurr
  have hmodq : (pos.lane.toNat * inst.lane_length.toNat + (pos.slice.toNat * inst.segment_length.toNat + first)) %
      inst.lane_length.toNat = pos.slice.toNat * inst.segment_length.toNat + first := by
    rw [Nat.mul_comm, Nat.mul_add_mod, Nat.mod_eq_of_lt (by omega)]
  have hprev : (if curr % inst.lane_length = 0 then curr + inst.lane_length - 1 else curr - 1).toNat =
      pos.lane.toNat * inst.lane_length.toNat +
        jPrev inst.lane_length.toNat (pos.slice.toNat * inst.segment_length.toNat + first) := by
    have h1 : (curr % inst.lane_length = 0) ↔ pos.slice.toNat * inst.segment_length.toNat + first = 0 := by
      rw [u32_eq_iff, UInt32.toNat_mod, hcurr, hmodq]; rfl
    have one : (1 : UInt32).toNat = 1 := rfl
    unfold jPrev
    by_cases c : pos.slice.toNat * inst.segment_length.toNat + first = 0
    · rw [if_pos (h1.mpr c), if_pos c, UInt32.toNat_sub, UInt32.toNat_add, hcurr, one]
      generalize pos.lane.toNat * inst.lane_length.toNat = a at *
      generalize pos.slice.toNat * inst.segment_length.toNat = b at *
      omega
    · rw [if_neg (fun hh => c (h1.mp hh)), if_neg c, UInt32.toNat_sub, hcurr, one]
      generalize pos.lane.toNat * inst.lane_length.toNat = a at *
      generalize pos.slice.toNat * inst.segment_length.toNat = b at *
      omega
  have := seg_loop inst pos pr DI hI' hsl hlane hDI hpr hprs' (inst.segment_length.toNat - st32.toNat) first
    { curr_offset := curr, prev_offset := (if curr % inst.lane_length = 0 then curr + inst.lane_length - 1 else curr - 1),
      memory := st.memory } mem (by rw [hst]; omega) hfirst0 hM hMs hcurr (fun _ => hprev)
  rw [hst]
  rw [hst] at this
  exact ⟨this.1, this.2.1, hprs', this.2.2⟩


end Sodium.Argon2RefP
