import SodiumModel.Model.X86Sse
import SodiumModel.Proofs.ChachaSimd
/-
  Lemmas about the byte memory of `Model/X86Sse.lean`: a read after a write, at byte and at 32-bit granularity.
-/
namespace Sodium.X86SseP
open Sodium Sodium.Model.X86Sse Sodium.Model.ChachaSimd

theorem read8_write8_ne (m : Mem) (a b : Nat) (v : UInt8) (h : b ≠ a) : (m.write8 a v).read8 b = m.read8 b := by
  unfold Mem.write8 Mem.read8
  split
  · simp [Array.getD_eq_getD_getElem?, Ne.symm h]
  · split
    · rename_i h1 h2
      simp only [Array.getD_eq_getD_getElem?, Array.getElem?_push, Array.size_append, Array.size_replicate]
      have : m.size + (a - m.size) = a := by omega
      rw [this]
      simp only [h, if_false]
      rw [Array.getElem?_append]
      split
      · rfl
      · rename_i h3
        rw [Array.getElem?_eq_none (xs := m) (by omega)]
        simp [Array.getElem?_replicate]
        split <;> simp
    · rfl

theorem read8_write8_same (m : Mem) (a : Nat) (v : UInt8) (h : a < MEM_LIMIT) : (m.write8 a v).read8 a = v := by
  unfold Mem.write8 Mem.read8
  split
  · rename_i h1
    simp [Array.getD_eq_getD_getElem?, h1]
  · simp only [Array.getD_eq_getD_getElem?, Array.getElem?_push, Array.size_append, Array.size_replicate]
    have : m.size + (a - m.size) = a := by omega
    rw [this]
    simp

theorem read32_write8_disj (m : Mem) (a b : Nat) (v : UInt8) (h : a < b ∨ b + 4 ≤ a) :
    (m.write8 a v).read32 b = m.read32 b := by
  unfold Mem.read32
  rw [read8_write8_ne _ _ _ _ (by omega), read8_write8_ne _ _ _ _ (by omega), read8_write8_ne _ _ _ _ (by omega),
    read8_write8_ne _ _ _ _ (by omega)]

theorem read32_write32_disj (m : Mem) (a b : Nat) (v : UInt32) (h : a + 4 ≤ b ∨ b + 4 ≤ a) :
    (m.write32 a v).read32 b = m.read32 b := by
  unfold Mem.write32
  rw [read32_write8_disj _ _ _ _ (by omega), read32_write8_disj _ _ _ _ (by omega), read32_write8_disj _ _ _ _ (by omega),
    read32_write8_disj _ _ _ _ (by omega)]

theorem read32_write32_same (m : Mem) (a : Nat) (v : UInt32) (h : a + 3 < MEM_LIMIT) :
    (m.write32 a v).read32 a = v := by
  unfold Mem.write32 Mem.read32
  rw [read8_write8_same _ _ _ (by omega), read8_write8_ne _ (a + 3) (a + 2) _ (by omega), read8_write8_same _ _ _ (by omega),
    read8_write8_ne _ (a + 3) (a + 1) _ (by omega), read8_write8_ne _ (a + 2) (a + 1) _ (by omega), read8_write8_same _ _ _ (by omega),
    read8_write8_ne _ (a + 3) a _ (by omega), read8_write8_ne _ (a + 2) a _ (by omega), read8_write8_ne _ (a + 1) a _ (by omega),
    read8_write8_same _ _ _ (by omega)]
  exact ChachaSimdP.word_bytes v
end Sodium.X86SseP
