import SodiumModel.Model.Globals
import SodiumModel.Proofs.Init
/-
  The combined system (sodium_init protocol + API events): an API event of thread t only happens in a
  protocol state in which t has returned from sodium_init; helper lemmas for Properties/C19Globals.lean.
-/
namespace GlobalsP
open Sodium.Model.Init Sodium.Model.Globals

theorem runC_eq {s s' : State} {acts : List Act} (h : runC s acts = some s') : s' = run s (schedOf acts) := by
  induction acts generalizing s with
  | nil => simp [runC] at h; simp [schedOf, run, h]
  | cons a as ih =>
    cases a with
    | init t =>
      simp only [runC, stepC] at h
      have := ih h
      simpa [schedOf, run] using this
    | api t e =>
      simp only [runC, stepC] at h
      split at h
      · rename_i s'' heq
        split at heq
        · cases heq
          have := ih h
          simpa [schedOf, run] using this
        · cases heq
      · cases h

theorem runC_split {s s' : State} {a b : List Act} {t : Nat} {e : Eff}
    (h : runC s (a ++ Act.api t e :: b) = some s') :
    ∃ s1, runC s a = some s1 ∧ hasReturned s1 t = true ∧ runC s1 b = some s' := by
  induction a generalizing s with
  | nil =>
    simp only [List.nil_append, runC, stepC] at h
    cases hr : hasReturned s t with
    | true => simp [hr] at h; exact ⟨s, rfl, hr, h⟩
    | false => simp [hr] at h
  | cons x xs ih =>
    simp only [List.cons_append, runC] at h ⊢
    cases hx : stepC s x with
    | none => simp [hx] at h
    | some s2 =>
      simp only [hx] at h ⊢
      exact ih h

theorem rets_ne_nil_of_returned {s : State} {t : Nat} (h : hasReturned s t = true) : rets s ≠ [] := by
  unfold hasReturned at h
  split at h
  · rename_i r hp
    intro hn
    have hm : Pc.done r ∈ s.pcs := List.mem_of_getElem? hp
    have : r ∈ rets s := by
      rw [Sodium.InitP.rets_eq, List.mem_filterMap]
      exact ⟨_, hm, rfl⟩
    rw [hn] at this; cases this
  · cases h

theorem bodyWrites_step_le (s : State) (t : Nat) : s.bodyWrites ≤ (step s t).bodyWrites := by
  unfold step
  split <;> (try split) <;> simp [setPc]

theorem bodyWrites_run_le (s : State) (l : List Nat) : s.bodyWrites ≤ (run s l).bodyWrites := by
  induction l generalizing s with
  | nil => simp [run]
  | cons t ts ih =>
    have h1 := bodyWrites_step_le s t
    have h2 := ih (step s t)
    simp only [run, List.foldl_cons] at h2 ⊢
    exact Nat.le_trans h1 h2

theorem initialized_step (s : State) (t : Nat) (h : s.initialized = true) : (step s t).initialized = true := by
  unfold step
  split <;> (try split) <;> simp [setPc, h]

/-- `initialized` is never reset -/
theorem initialized_run (s : State) (l : List Nat) (h : s.initialized = true) : (run s l).initialized = true := by
  induction l generalizing s with
  | nil => simpa [run] using h
  | cons t ts ih =>
    have h2 := ih (step s t) (initialized_step s t h)
    simpa [run, List.foldl_cons] using h2

/-- in a protocol state in which some thread has returned, no thread is inside the initialisation body -/
theorem no_body_of_returned {n : Nat} {s : State} (hi : Sodium.InitP.Inv n s) {t : Nat} (h : hasReturned s t = true) :
    s.initialized = true ∧ s.bodyWrites = 1 ∧ s.bodyRuns = 1 ∧ s.pcs.count .body + s.pcs.count .bodyDone = 0 := by
  have hs := (Sodium.InitP.inv_safety hi).2.2.2.2 (rets_ne_nil_of_returned h)
  have h1 := (Sodium.InitP.inv_safety hi).1
  have h2 := (Sodium.InitP.inv_safety hi).2.1
  exact ⟨hs.1, hs.2, by omega, hi.ini2 hs.1⟩

end GlobalsP
