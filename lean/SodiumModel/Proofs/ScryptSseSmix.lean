import SodiumModel.Proofs.ScryptSseBlockmix
/-
  Helper lemmas for Properties/C08ScryptSse.lean, part 4: the two main loops of the SSE2 `smix` (everything between the
  shuffling load of `B` and the shuffling store) compute scryptROMix on rows in the shuffled layout.
-/
namespace Sodium.ScryptSseP
open Sodium Sodium.Model Sodium.Model.ScryptSse Sodium.Spec Sodium.ScryptRefP
open Sodium.Model.ChachaSimd (V128 mm_add_epi32 mm_xor_si128 mm_slli_epi32 mm_srli_epi32 mm_shuffle_epi32)
open Sodium.Model.ScryptRef (forU64 forU32 load32_le store32_le)

/-! ### the three parts of `smix` -/

/-- `1: X <-- B` (into row 0 of `V`, shuffled) -/
def smix_load (B : Array UInt8) (boff : Nat) (r : UInt64) (M : Array UInt32) (X32 : Nat) : Array UInt32 :=
  forU64 (2 * r) 1 (fun k M =>
      forU64 16 1 (fun i M =>
        M.setIfInBounds (X32 + (k * 16 + i).toNat) (load32_le B (boff + ((k * 16 + (i * 5 % 16)) * 4).toNat))) 16 0 M)
    (2 * r).toNat 0 M

/-- steps 2 to 9 -/
def smix_mid (r N : UInt64) (M : Array UInt32) (V XY : Nat) : Array UInt32 :=
  let s : UInt64 := 128 * r
  let X : Nat := V
  let ist := forB (N - 1) (smix_loop1_body r s V) N.toNat 1 (M, X)
  let i := ist.1; let M := ist.2.1; let X := ist.2.2
  let Y := ptrAdd V (i * s)
  let M := blockmix_salsa8 M X Y r
  let X := XY
  let M := blockmix_salsa8 M Y X r
  let Y := ptrAdd XY s
  let j := integerify M X r &&& (N - 1)
  let ist := forB N (smix_loop2_body r N s V X Y) N.toNat 0 (M, j)
  ist.2.1

/-- `10: B' <-- X` -/
def smix_store (B : Array UInt8) (boff : Nat) (r : UInt64) (M : Array UInt32) (X32 : Nat) : Array UInt8 :=
  forU64 (2 * r) 1 (fun k B =>
      forU64 16 1 (fun i B =>
        store32_le B (boff + ((k * 16 + (i * 5 % 16)) * 4).toNat) (M.getD (X32 + (k * 16 + i).toNat) 0)) 16 0 B)
    (2 * r).toNat 0 B

theorem smix_parts (B : Array UInt8) (boff : Nat) (r N : UInt64) (M : Array UInt32) (V XY : Nat) :
    smix B boff r N M V XY =
      (smix_store B boff r (smix_mid r N (smix_load B boff r M V) V XY) XY, smix_mid r N (smix_load B boff r M V) V XY) := rfl

/-! ### rows -/

theorem RowS_frame {M M' : Array UInt32} {p : Nat} {A : Array UInt32} (h : RowS M p A)
    (hf : ∀ t, p ≤ t → t < p + A.size → M'.getD t 0 = M.getD t 0) : RowS M' p A := by
  intro t ht
  rw [hf (p + t) (by omega) (by omega)]; exact h t ht

theorem row_le (W q a : Nat) (h : q < a) : W * q + W ≤ W * a := by
  have := Nat.mul_le_mul_left W (show q + 1 ≤ a from h)
  rw [Nat.mul_succ] at this; exact this

theorem ptr_row (V : Nat) (r i : UInt64) (Nn : Nat) (h : 128 * r.toNat * Nn < 2 ^ 64) (hN : 1 ≤ Nn) (hi : i.toNat ≤ Nn) :
    ptrAdd V (i * (128 * r)) = V + 32 * r.toNat * i.toNat := by
  have h1 : 128 * r.toNat * 1 ≤ 128 * r.toNat * Nn := Nat.mul_le_mul_left _ hN
  have h2 : 128 * r.toNat * i.toNat ≤ 128 * r.toNat * Nn := Nat.mul_le_mul_left _ hi
  have hr : (128 * r).toNat = 128 * r.toNat := by u64
  unfold ptrAdd
  rw [UInt64.toNat_mul, hr, Nat.mod_eq_of_lt (by rw [Nat.mul_comm]; omega)]
  have : i.toNat * (128 * r.toNat) = 4 * (32 * r.toNat * i.toNat) := by
    rw [Nat.mul_comm i.toNat, show 128 * r.toNat = 4 * (32 * r.toNat) by omega, Nat.mul_assoc]
  rw [this, Nat.mul_div_cancel_left _ (by decide)]

/-- one `blockmix_salsa8` from row `a` of `V` to row `a + 1` -/
theorem bm_step (M : Array UInt32) (V : Nat) (r : UInt64) (B0 : Array UInt32) (a : Nat) (hr : 1 ≤ r.toNat)
    (hr2 : 32 * r.toNat < 2 ^ 64) (hB0 : B0.size = 32 * r.toNat) (hfit : V + 32 * r.toNat * (a + 2) ≤ M.size)
    (hrows : ∀ q, q ≤ a → RowS M (V + 32 * r.toNat * q) (xs r.toNat B0 q)) :
    (blockmix_salsa8 M (V + 32 * r.toNat * a) (V + 32 * r.toNat * (a + 1)) r).size = M.size ∧
      ∀ q, q ≤ a + 1 →
        RowS (blockmix_salsa8 M (V + 32 * r.toNat * a) (V + 32 * r.toNat * (a + 1)) r) (V + 32 * r.toNat * q) (xs r.toNat B0 q) := by
  have e1 : 32 * r.toNat * (a + 1) = 32 * r.toNat * a + 32 * r.toNat := Nat.mul_succ _ _
  have e2 : 32 * r.toNat * (a + 2) = 32 * r.toNat * a + 32 * r.toNat + 32 * r.toNat := by
    rw [show a + 2 = (a + 1) + 1 by omega, Nat.mul_succ, e1]
  have spec := blockmix_sse_spec M (V + 32 * r.toNat * a) (V + 32 * r.toNat * (a + 1)) r (xs r.toNat B0 a) hr hr2
    (xs_size _ _ hr hB0 a) (by omega) (by omega) (Or.inl (by omega)) (hrows a (Nat.le_refl _))
  refine ⟨spec.1, fun q hq => ?_⟩
  by_cases hqa : q = a + 1
  · subst hqa; rw [xs_succ]; exact spec.2.1
  · have := row_le (32 * r.toNat) q (a + 1) (by omega)
    exact RowS_frame (hrows q (by omega)) (fun t h1 h2 => spec.2.2 t (by rw [xs_size _ _ hr hB0 q] at h2; omega))

/-! ### first loop -/

/-- pass `k` of the first loop on (memory, `X`) -/
def l1N (r : UInt64) (V : Nat) (k : Nat) (st : Array UInt32 × Nat) : Array UInt32 × Nat :=
  (blockmix_salsa8 (blockmix_salsa8 st.1 st.2 (V + 32 * r.toNat * (2 * k + 1)) r) (V + 32 * r.toNat * (2 * k + 1))
     (V + 32 * r.toNat * (2 * k + 2)) r, V + 32 * r.toNat * (2 * k + 2))

def L1Inv (r : UInt64) (V sz : Nat) (B0 : Array UInt32) (k : Nat) (st : Array UInt32 × Nat) : Prop :=
  st.1.size = sz ∧ st.2 = V + 32 * r.toNat * (2 * k) ∧ ∀ q, q ≤ 2 * k → RowS st.1 (V + 32 * r.toNat * q) (xs r.toNat B0 q)

theorem l1N_inv (r : UInt64) (V sz : Nat) (B0 : Array UInt32) (hr : 1 ≤ r.toNat) (hr2 : 32 * r.toNat < 2 ^ 64)
    (hB0 : B0.size = 32 * r.toNat) (k : Nat) (hfit : V + 32 * r.toNat * (2 * k + 3) ≤ sz) (st : Array UInt32 × Nat)
    (h : L1Inv r V sz B0 k st) : L1Inv r V sz B0 (k + 1) (l1N r V k st) := by
  obtain ⟨M, X⟩ := st
  simp only [L1Inv] at h
  obtain ⟨h1, h2, h3⟩ := h
  subst h2
  have hle : 32 * r.toNat * (2 * k + 2) ≤ 32 * r.toNat * (2 * k + 3) := Nat.mul_le_mul_left _ (by omega)
  have s1 := bm_step M V r B0 (2 * k) hr hr2 hB0 (by rw [h1]; omega) h3
  have s2 := bm_step (blockmix_salsa8 M (V + 32 * r.toNat * (2 * k)) (V + 32 * r.toNat * (2 * k + 1)) r) V r B0 (2 * k + 1)
    hr hr2 hB0 (by rw [s1.1, h1]; omega) s1.2
  simp only [L1Inv, l1N]
  refine ⟨?_, ?_, fun q hq => s2.2 q (by omega)⟩
  · rw [s2.1, s1.1, h1]
  · rw [show 2 * (k + 1) = 2 * k + 2 by omega]

/-! ### second loop -/

theorem srli4 (v : V128) : mm_cvtsi128_si32 (mm_srli_si128 v 4) = v.e1 := by
  obtain ⟨a, b, c, d⟩ := v
  show Sodium.Model.CoresRef.load32_le (Sodium.Model.CoresRef.store32_le b ++ _) = b
  exact Sodium.CoresRefP.load32_le_store32_le b _

theorem integerify_sse_eq (M : Array UInt32) (p : Nat) (r : UInt64) (A : Array UInt32) (hr : 1 ≤ r.toNat)
    (hr2 : 32 * r.toNat < 2 ^ 64) (hA : A.size = 32 * r.toNat) (h : RowS M p A) :
    integerify M p r = ScryptRef.integerify A r := by
  unfold integerify ScryptRef.integerify
  simp only [srli4]
  have e1 : ((2 * r - 1) * 4).toNat = 4 * (2 * r.toNat - 1) := by u64
  have e2 : ((2 * r - 1) * 16).toNat = 16 * (2 * r.toNat - 1) := by u64
  rw [e1, e2]
  have a0 := h (16 * (2 * r.toNat - 1)) (by omega)
  have a1 := h (16 * (2 * r.toNat - 1) + 13) (by omega)
  have f0 : 16 * (16 * (2 * r.toNat - 1) / 16) + 16 * (2 * r.toNat - 1) % 16 * 5 % 16 = 16 * (2 * r.toNat - 1) + 0 := by omega
  have f1 : 16 * ((16 * (2 * r.toNat - 1) + 13) / 16) + (16 * (2 * r.toNat - 1) + 13) % 16 * 5 % 16 =
      16 * (2 * r.toNat - 1) + 1 := by omega
  rw [f0] at a0; rw [f1] at a1
  rw [← a0, ← a1]
  simp only [mm_cvtsi128_si32, ld128]
  have g1 : p + 4 * (4 * (2 * r.toNat - 1)) + 4 * 3 + 1 = p + (16 * (2 * r.toNat - 1) + 13) := by omega
  have g0 : p + 4 * (4 * (2 * r.toNat - 1)) + 4 * 0 = p + 16 * (2 * r.toNat - 1) := by omega
  rw [g1, g0]

/-- the 32-bit return value of `blockmix_salsa8_xor`, masked, is Integerify mod N for N = 2^n ≤ 2^32 -/
theorem ret_integerify (A : Array UInt32) (r N : UInt64) (n : Nat) (hr : 1 ≤ r.toNat) (hr2 : 32 * r.toNat < 2 ^ 64)
    (hA : A.size = 32 * r.toNat) (hN : N.toNat = 2 ^ n) (hn : n ≤ 32) :
    ((A.getD (16 * (2 * r.toNat - 1)) 0).toUInt64 &&& (N - 1)).toNat = Scrypt.integerify r.toNat A % N.toNat := by
  rw [← integerify_spec A r N n hr hr2 hA hN (by omega)]
  have hpos : 0 < 2 ^ n := Nat.pow_pos (by decide)
  have hN1 : (N - 1).toNat = 2 ^ n - 1 := by
    rw [UInt64.toNat_sub_of_le _ _ (by rw [UInt64.le_iff_toNat_le, hN]; simp; omega), hN]; rfl
  have e2 : ((2 * r - 1) * 16).toNat = 16 * (2 * r.toNat - 1) := by u64
  unfold ScryptRef.integerify
  simp only []
  rw [UInt64.toNat_and, UInt64.toNat_and, hN1, Nat.and_two_pow_sub_one_eq_mod, Nat.and_two_pow_sub_one_eq_mod, e2]
  generalize A.getD (16 * (2 * r.toNat - 1) + 1) 0 = hi
  rw [Nat.add_zero]
  generalize A.getD (16 * (2 * r.toNat - 1)) 0 = lo
  have hw0 := lo.toNat_lt
  have hw1 := hi.toNat_lt
  have e64 : ((hi.toUInt64 <<< 32) + lo.toUInt64).toNat = lo.toNat + 2 ^ 32 * hi.toNat := by
    rw [UInt64.toNat_add, UInt64.toNat_shiftLeft]
    simp only [UInt32.toNat_toUInt64, UInt64.toNat_ofNat, Nat.reducePow, Nat.reduceMod, Nat.shiftLeft_eq]
    omega
  rw [e64, UInt32.toNat_toUInt64]
  obtain ⟨q, hq⟩ : 2 ^ n ∣ 2 ^ 32 := Nat.pow_dvd_pow 2 hn
  rw [hq, Nat.mul_assoc, Nat.add_mul_mod_self_left]

/-- one `blockmix_salsa8_xor(X, V_j, Y, r)` with `j = Integerify(X) mod N`: `Y` receives the next state of the second loop of
    scryptROMix, the masked return value is the next `j` -/
theorem half2 (M : Array UInt32) (V X Y : Nat) (r N j : UInt64) (n : Nat) (B0 Yk : Array UInt32) (hr : 1 ≤ r.toNat)
    (h128 : 128 * r.toNat * N.toNat < 2 ^ 64) (hN : N.toNat = 2 ^ n) (hn : n ≤ 32) (hB0 : B0.size = 32 * r.toNat)
    (hYk : Yk.size = 32 * r.toNat) (hVX : V + 32 * r.toNat * N.toNat ≤ X) (hVY : V + 32 * r.toNat * N.toNat ≤ Y)
    (hX : X + 32 * r.toNat ≤ M.size) (hY : Y + 32 * r.toNat ≤ M.size) (hXY : X + 32 * r.toNat ≤ Y ∨ Y + 32 * r.toNat ≤ X)
    (rows : ∀ q, q < N.toNat → RowS M (V + 32 * r.toNat * q) (xs r.toNat B0 q)) (hrow : RowS M X Yk)
    (hj : j.toNat = Scrypt.integerify r.toNat Yk % N.toNat) :
    (blockmix_salsa8_xor M X (ptrAdd V (j * (128 * r))) Y r).1.size = M.size ∧
    (∀ q, q < N.toNat → RowS (blockmix_salsa8_xor M X (ptrAdd V (j * (128 * r))) Y r).1 (V + 32 * r.toNat * q) (xs r.toNat B0 q)) ∧
    RowS (blockmix_salsa8_xor M X (ptrAdd V (j * (128 * r))) Y r).1 Y (step2 r.toNat N.toNat B0 Yk) ∧
    ((blockmix_salsa8_xor M X (ptrAdd V (j * (128 * r))) Y r).2.toUInt64 &&& (N - 1)).toNat =
      Scrypt.integerify r.toNat (step2 r.toNat N.toNat B0 Yk) % N.toNat := by
  have hpos : 0 < N.toNat := by rw [hN]; exact Nat.pow_pos (by decide)
  have hjlt : j.toNat < N.toNat := by rw [hj]; exact Nat.mod_lt _ hpos
  have hr2 : 32 * r.toNat < 2 ^ 64 := by
    have := Nat.mul_le_mul_left (128 * r.toNat) (show 1 ≤ N.toNat from hpos); omega
  rw [ptr_row V r j N.toNat h128 hpos (by omega)]
  have hjrow := row_le (32 * r.toNat) j.toNat N.toNat hjlt
  have spec := blockmix_xor_sse_spec M X (V + 32 * r.toNat * j.toNat) Y r Yk (xs r.toNat B0 j.toNat) hr hr2 hYk
    (xs_size _ _ hr hB0 _) hX (by omega) hY hXY (Or.inl (by omega)) hrow (rows _ hjlt)
  have hst : step2 r.toNat N.toNat B0 Yk = Scrypt.blockMix r.toNat (Scrypt.xorWords Yk (xs r.toNat B0 j.toNat)) := by
    rw [step2, hj]
  rw [hst]
  refine ⟨spec.1, fun q hq => ?_, spec.2.1, ?_⟩
  · have := row_le (32 * r.toNat) q N.toNat hq
    exact RowS_frame (rows q hq) (fun t h1 h2 => spec.2.2.1 t (by rw [xs_size _ _ hr hB0 q] at h2; omega))
  · rw [spec.2.2.2]
    exact ret_integerify _ r N n hr hr2 (blockMix_size _ _ hr (by rw [xorWords_size, hYk])) hN hn

/-- pass of the second loop on (memory, `j`) -/
def l2N (r N : UInt64) (V XY : Nat) (st : Array UInt32 × UInt64) : Array UInt32 × UInt64 :=
  (smix_loop2_body r N (128 * r) V XY (ptrAdd XY (128 * r)) 0 st).2

def L2Inv (r N : UInt64) (V XY sz : Nat) (B0 : Array UInt32) (k : Nat) (st : Array UInt32 × UInt64) : Prop :=
  st.1.size = sz ∧ (∀ q, q < N.toNat → RowS st.1 (V + 32 * r.toNat * q) (xs r.toNat B0 q)) ∧
    RowS st.1 XY (ys r.toNat N.toNat B0 (2 * k)) ∧ st.2.toNat = Scrypt.integerify r.toNat (ys r.toNat N.toNat B0 (2 * k)) % N.toNat

theorem ptr_xy (XY : Nat) (r : UInt64) (hr2 : 128 * r.toNat < 2 ^ 64) : ptrAdd XY (128 * r) = XY + 32 * r.toNat := by
  unfold ptrAdd
  have : (128 * r).toNat = 128 * r.toNat := by
    have := r.toNat_lt
    rw [UInt64.toNat_mul]; simp only [UInt64.toNat_ofNat, Nat.reducePow, Nat.reduceMod]; omega
  rw [this]; omega

theorem l2N_inv (r N : UInt64) (V XY sz n : Nat) (B0 : Array UInt32) (hr : 1 ≤ r.toNat)
    (h128 : 128 * r.toNat * N.toNat < 2 ^ 64) (hr4 : 128 * r.toNat < 2 ^ 64) (hN : N.toNat = 2 ^ n) (hn : n ≤ 32) (hB0 : B0.size = 32 * r.toNat)
    (hV : V + 32 * r.toNat * N.toNat ≤ XY) (hXY : XY + 64 * r.toNat ≤ sz) (k : Nat) (st : Array UInt32 × UInt64)
    (h : L2Inv r N V XY sz B0 k st) : L2Inv r N V XY sz B0 (k + 1) (l2N r N V XY st) := by
  obtain ⟨M, j⟩ := st
  simp only [L2Inv] at h
  obtain ⟨h1, h2, h3, h4⟩ := h
  have a := half2 M V XY (XY + 32 * r.toNat) r N j n B0 _ hr h128 hN hn hB0 (ys_size _ _ _ hr hB0 _) hV (by omega)
    (by omega) (by omega) (Or.inl (Nat.le_refl _)) h2 h3 h4
  obtain ⟨a1, a2, a3, a4⟩ := a
  have b := half2 _ V (XY + 32 * r.toNat) XY r N _ n B0 _ hr h128 hN hn hB0
    (by rw [← ys_succ]; exact ys_size _ _ _ hr hB0 _) (by omega) hV
    (by rw [a1]; omega) (by rw [a1]; omega) (Or.inr (Nat.le_refl _)) a2 a3 a4
  obtain ⟨b1, b2, b3, b4⟩ := b
  simp only [L2Inv, l2N, smix_loop2_body, ptr_xy XY r hr4]
  rw [show 2 * (k + 1) = (2 * k + 1) + 1 by omega, ys_succ, ys_succ]
  exact ⟨by rw [b1, a1, h1], b2, b3, b4⟩

theorem ys_zero (r N : Nat) (B : Array UInt32) : ys r N B 0 = xs r B N := by rw [ys]

/-! ### steps 2 to 9 of `smix` -/

theorem smix_mid_spec (r N : UInt64) (M : Array UInt32) (V XY n : Nat) (B0 : Array UInt32) (hr : 1 ≤ r.toNat)
    (h128 : 128 * r.toNat * N.toNat < 2 ^ 64) (hN : N.toNat = 2 ^ n) (hn1 : 1 ≤ n) (hn : n ≤ 32) (hB0 : B0.size = 32 * r.toNat)
    (hV : V + 32 * r.toNat * N.toNat ≤ XY) (hXY : XY + 64 * r.toNat ≤ M.size) (hrow : RowS M V B0) :
    (smix_mid r N M V XY).size = M.size ∧ RowS (smix_mid r N M V XY) XY (Scrypt.roMix r.toNat N.toNat B0) := by
  obtain ⟨n', rfl⟩ : ∃ n', n = n' + 1 := ⟨n - 1, by omega⟩
  have hm : N.toNat = 2 * 2 ^ n' := by rw [hN, Nat.pow_succ]; omega
  generalize hmm : 2 ^ n' = m at hm
  have hmpos : 1 ≤ m := by rw [← hmm]; exact Nat.pow_pos (by decide)
  have hNlt := N.toNat_lt
  have hr4 : 128 * r.toNat < 2 ^ 64 := by
    have := Nat.mul_le_mul_left (128 * r.toNat) (show 1 ≤ N.toNat by omega); omega
  have hN1 : (N - 1).toNat = 2 * m - 1 := by
    rw [UInt64.toNat_sub_of_le _ _ (by rw [UInt64.le_iff_toNat_le, hm]; simp; omega), hm]; rfl
  -- first loop
  have hloop1 := forB_eq_iter (N - 1) (smix_loop1_body r (128 * r) V) (l1N r V) 1 2 (m - 1) 0 N.toNat (M, V)
    (by omega) (by omega) (fun k _ hk => by omega) (by omega)
    (fun k _ hk st => by
      have i1 : (UInt64.ofNat (1 + 2 * k)).toNat = 2 * k + 1 := by rw [ofNat_toNat_lt (by omega)]; omega
      have i2 : (UInt64.ofNat (1 + 2 * k) + 1).toNat = 2 * k + 2 := by rw [UInt64.toNat_add, i1]; simp; omega
      have i3 : UInt64.ofNat (1 + 2 * k) + 2 = UInt64.ofNat (1 + 2 * (k + 1)) := by
        apply UInt64.toNat_inj.mp; rw [UInt64.toNat_add, i1, ofNat_toNat_lt (by omega)]; simp; omega
      unfold smix_loop1_body l1N
      simp only []
      rw [ptr_row V r _ N.toNat h128 (by omega) (by omega), ptr_row V r _ N.toNat h128 (by omega) (by omega), i1, i2, i3])
  rw [show UInt64.ofNat (1 + 2 * 0) = 1 from rfl] at hloop1
  have hinv1 := iter_inv (l1N r V) (L1Inv r V M.size B0) (m - 1) 0 (M, V)
    ⟨rfl, by simp, fun q hq => by
      have : q = 0 := by omega
      subst this
      show RowS M (V + 32 * r.toNat * 0) B0
      rw [Nat.mul_zero, Nat.add_zero]; exact hrow⟩
    (fun k st _ hk h => l1N_inv r V M.size B0 hr (by omega) hB0 k (by
      have := Nat.mul_le_mul_left (32 * r.toNat) (show 2 * k + 3 ≤ N.toNat by omega); omega) st h)
  rw [Nat.zero_add] at hinv1
  generalize iter (l1N r V) (m - 1) 0 (M, V) = st1 at hloop1 hinv1
  obtain ⟨M1, X1⟩ := st1
  simp only [L1Inv] at hinv1
  obtain ⟨c1, c2, c3⟩ := hinv1
  subst c2
  -- the two blockmix calls after the loop
  have hi : (UInt64.ofNat (1 + 2 * (0 + (m - 1)))).toNat = 2 * (m - 1) + 1 := by rw [ofNat_toNat_lt (by omega)]; omega
  have s1 := bm_step M1 V r B0 (2 * (m - 1)) hr (by omega) hB0 (by
    have := Nat.mul_le_mul_left (32 * r.toNat) (show 2 * (m - 1) + 2 ≤ N.toNat by omega); omega) c3
  have hlast : V + 32 * r.toNat * (2 * (m - 1) + 1) + 32 * r.toNat ≤ XY := by
    have := row_le (32 * r.toNat) (2 * (m - 1) + 1) N.toNat (by omega); omega
  have s2 := blockmix_sse_spec (blockmix_salsa8 M1 (V + 32 * r.toNat * (2 * (m - 1))) (V + 32 * r.toNat * (2 * (m - 1) + 1)) r)
    (V + 32 * r.toNat * (2 * (m - 1) + 1)) XY r (xs r.toNat B0 (2 * (m - 1) + 1)) hr (by omega) (xs_size _ _ hr hB0 _)
    (by rw [s1.1, c1]; omega) (by rw [s1.1, c1]; omega) (Or.inl hlast) (s1.2 _ (Nat.le_refl _))
  -- second loop
  unfold smix_mid
  simp only []
  rw [hloop1]
  simp only []
  rw [ptr_row V r _ N.toNat h128 (by omega) (by rw [hi]; omega), hi]
  generalize hM2 : blockmix_salsa8 (blockmix_salsa8 M1 (V + 32 * r.toNat * (2 * (m - 1))) (V + 32 * r.toNat * (2 * (m - 1) + 1)) r)
    (V + 32 * r.toNat * (2 * (m - 1) + 1)) XY r = M2 at s2
  have d1 : M2.size = M.size := by rw [s2.1, s1.1, c1]
  have hxsN : xs r.toNat B0 (2 * (m - 1) + 1 + 1) = ys r.toNat N.toNat B0 0 := by
    exact (congrArg (xs r.toNat B0) (by omega : 2 * (m - 1) + 1 + 1 = N.toNat)).trans (ys_zero _ _ _).symm
  have d3 : RowS M2 XY (ys r.toNat N.toNat B0 0) := by rw [← hxsN, xs_succ]; exact s2.2.1
  have d2 : ∀ q, q < N.toNat → RowS M2 (V + 32 * r.toNat * q) (xs r.toNat B0 q) := by
    intro q hq
    have := row_le (32 * r.toNat) q N.toNat hq
    exact RowS_frame (s1.2 q (by omega)) (fun t h1 h2 => s2.2.2 t (by rw [xs_size _ _ hr hB0 q] at h2; omega))
  have d4 : (integerify M2 XY r &&& (N - 1)).toNat = Scrypt.integerify r.toNat (ys r.toNat N.toNat B0 0) % N.toNat := by
    rw [integerify_sse_eq M2 XY r _ hr (by omega) (ys_size _ _ _ hr hB0 0) d3]
    exact integerify_spec _ r N (n' + 1) hr (by omega) (ys_size _ _ _ hr hB0 0) hN (by omega)
  have hloop2 := forB_eq_iter N (smix_loop2_body r N (128 * r) V XY (ptrAdd XY (128 * r))) (fun _ st => l2N r N V XY st) 0 2 m 0
    N.toNat (M2, integerify M2 XY r &&& (N - 1)) (by omega) (by omega) (fun k _ hk => by omega) (by omega)
    (fun k _ hk st => by
      have i3 : UInt64.ofNat (0 + 2 * k) + 2 = UInt64.ofNat (0 + 2 * (k + 1)) := by
        apply UInt64.toNat_inj.mp; rw [UInt64.toNat_add, ofNat_toNat_lt (by omega), ofNat_toNat_lt (by omega)]; simp; omega
      rw [← i3]; simp only [l2N, smix_loop2_body])
  rw [show UInt64.ofNat (0 + 2 * 0) = 0 from rfl] at hloop2
  rw [hloop2]
  have hinv2 := iter_inv (fun _ st => l2N r N V XY st) (L2Inv r N V XY M.size B0) m 0 (M2, integerify M2 XY r &&& (N - 1))
    ⟨d1, d2, d3, d4⟩
    (fun k st _ hk h => l2N_inv r N V XY M.size (n' + 1) B0 hr h128 hr4 hN hn hB0 hV hXY k st h)
  rw [Nat.zero_add] at hinv2
  obtain ⟨e1, _, e3, _⟩ := hinv2
  have hfin : ys r.toNat N.toNat B0 N.toNat = ys r.toNat N.toNat B0 (2 * m) := congrArg _ hm
  rw [roMix_eq, hfin]
  exact ⟨e1, e3⟩

end Sodium.ScryptSseP
