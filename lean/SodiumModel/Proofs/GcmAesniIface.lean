import SodiumModel.Model.GcmAesni
/-
  Shared vocabulary for the proofs about `Model/GcmAesni.lean` (core Lean only):
  the C-form of ONE sequential GHASH step, its n-fold iteration over a byte buffer, and the interface
  `GhOK` ("the aggregated / deferred-reduction GHASH code of the C file computes the sequential GHASH")
  through which the loop proofs (`Proofs/GcmAesniEnc.lean`, `Proofs/GcmAesniDec.lean`) use the algebraic
  facts proved in `Proofs/GcmAesniGhash.lean` / `Proofs/GcmAesniAgg.lean`.
-/
namespace Sodium.GcmAesniP
open Sodium Sodium.Model.GcmAesni

/-- `gcm_reduce(clmul128(a, b))` -/
def mont (a b : BlockVec) : BlockVec := gcm_reduce (clmul128 a b)

/-- the first statements of `precomp_for_block_count`: `hx[0]` from `h0 = REV128(LOAD128(gh_key))` -/
def hshift (h0 : BlockVec) : BlockVec :=
  let carry := SET64x2 0xc200000000000000 1
  let mask := SUB64x2 ZERO128 (SHR64x2 h0 63)
  let mask := SHUFFLE32x4 mask 3 3 3 3
  let carry := AND128 carry mask
  let h0_shifted := SHL128 h0 1
  XOR128 h0_shifted carry

/-- one sequential GHASH step in the C's representation: `acc ← (acc ⊕ block) • H` with
    `h0 = REV128(LOAD128(H))`; reads the 16 bytes at `blk` -/
def ghB (h0 acc : BlockVec) (blk : Bytes) : BlockVec :=
  mont (XOR128 acc (REV128 (LOAD128 blk))) (hshift h0)

/-- `n` sequential GHASH steps over the blocks `data[0..16), data[16..32), …` -/
def ghFold (h0 acc : BlockVec) (data : Bytes) (n : Nat) : BlockVec :=
  (List.range n).foldl (fun a j => ghB h0 a (data.drop (16 * j))) acc

/-- the aggregated GHASH of the C file (precomputed powers `st.hx`, deferred reduction) computes the
    sequential GHASH for the key `h0` -/
structure GhOK (st : State) (h0 : BlockVec) : Prop where
  /-- `u = gh_update0(sth, p, hx[n-1]); for (j = 1; j < n; j++) gh_update(&u, p + 16 j, hx[n-1-j]); acc = gcm_reduce(u)` -/
  agg : ∀ (acc : BlockVec) (p : Bytes) (n : Nat), 1 ≤ n → n ≤ PC_COUNT → gh_agg st acc p n = ghFold h0 acc p n
  /-- the 2·PARALLEL_BLOCKS form of the encrypt / decrypt main loops: the first 7 blocks from `p` with
      `hx[13..7]`, the next 7 from `q` with `hx[6..0]`, one reduction -/
  split : ∀ (acc : BlockVec) (p q : Bytes),
    gcm_reduce ((List.range PARALLEL_BLOCKS).foldl
        (fun u j => gh_update u (q.drop (j * 16)) (st.hx.getD (PARALLEL_BLOCKS - 1 - j) 0))
        ((List.range' 1 (PARALLEL_BLOCKS - 1)).foldl
          (fun u j => gh_update u (p.drop (j * 16)) (st.hx.getD (2 * PARALLEL_BLOCKS - 1 - j) 0))
          (gh_update0 acc p (st.hx.getD (2 * PARALLEL_BLOCKS - 1 - 0) 0))))
      = ghFold h0 (ghFold h0 acc p PARALLEL_BLOCKS) q PARALLEL_BLOCKS
  /-- `gh_ad_blocks` over a whole number of blocks -/
  ad_blocks : ∀ (acc : BlockVec) (p : Bytes) (len : Nat), len % 16 = 0 →
    gh_ad_blocks st acc p len = ghFold h0 acc p (len / 16)

end Sodium.GcmAesniP
