import SodiumModel.Model.GcmAesni
import SodiumModel.Spec.Gcm
import SodiumModel.Proofs.GcmAesniIface
import SodiumModel.Proofs.GcmAesniAes
import SodiumModel.Proofs.GcmAesniCtr
/-
  Generic lemmas for the loop proofs about `Model/GcmAesni.lean` (`Proofs/GcmAesniEnc.lean`):
  * `forLoop`: unfolding and the invariant rule (with the exit condition);
  * `chunks` / `gctr`: one-block unfolding, splitting after `m` whole blocks;
  * `ghFold` / `ghB`: successor, addition, independence of the bytes that are not read;
  * `xorBytes`: commutativity, truncation;
  * the `size_t` masks `& ~15`, `& 15`.
  Core Lean only.
-/
namespace Sodium.GcmAesniP.Loop
open Sodium Sodium.Spec Sodium.Model.GcmAesni Sodium.GcmAesniP
open Sodium.Spec.Aes (chunks chunksAux)

/-! ### `forLoop` -/

theorem forLoop_zero {σ : Type} (cond : Nat → Bool) (step : Nat) (body : Nat → σ → σ) (i : Nat) (s : σ) :
    forLoop cond step body 0 i s = (i, s) := rfl

theorem forLoop_succ {σ : Type} (cond : Nat → Bool) (step : Nat) (body : Nat → σ → σ) (fuel i : Nat) (s : σ) :
    forLoop cond step body (fuel + 1) i s =
      if cond i then forLoop cond step body fuel (i + step) (body i s) else (i, s) := rfl

theorem forLoop_false {σ : Type} (cond : Nat → Bool) (step : Nat) (body : Nat → σ → σ) (fuel i : Nat) (s : σ)
    (h : cond i = false) : forLoop cond step body fuel i s = (i, s) := by
  cases fuel with
  | zero => rfl
  | succ f => rw [forLoop_succ, h]; rfl

/-- Invariant rule.  `cond i` implies `i < n` (so at most `n - i` iterations happen), `step > 0`, enough fuel
    (`n < fuel + i`, e.g. `fuel = n + 1`): the invariant holds at exit AND the exit test failed. -/
theorem forLoop_inv {σ : Type} (cond : Nat → Bool) (step : Nat) (hstep : 0 < step) (body : Nat → σ → σ)
    (P : Nat → σ → Prop) (n : Nat) (hcond : ∀ i, cond i = true → i < n)
    (hbody : ∀ i s, P i s → cond i = true → P (i + step) (body i s)) :
    ∀ (fuel i : Nat) (s : σ), n < fuel + i → P i s →
      P (forLoop cond step body fuel i s).1 (forLoop cond step body fuel i s).2 ∧
      cond (forLoop cond step body fuel i s).1 = false := by
  intro fuel
  induction fuel with
  | zero =>
    intro i s hf hP
    refine ⟨hP, ?_⟩
    show cond i = false
    cases hc : cond i with
    | false => rfl
    | true => have := hcond i hc; omega
  | succ f ih =>
    intro i s hf hP
    rw [forLoop_succ]
    cases hc : cond i with
    | false => exact ⟨hP, hc⟩
    | true =>
      simp only [if_true]
      exact ih (i + step) (body i s) (by omega) (hbody i s hP hc)

/-- the `for (; i + k <= n; i += k)` form used by every aggregation loop (`fuel = n + 1`) -/
theorem forLoop_le_inv {σ : Type} (k : Nat) (hk : 0 < k) (n : Nat) (body : Nat → σ → σ) (P : Nat → σ → Prop)
    (hbody : ∀ i s, P i s → i + k ≤ n → P (i + k) (body i s)) (i : Nat) (s : σ) (hP : P i s) :
    P (forLoop (fun i => i + k ≤ n) k body (n + 1) i s).1 (forLoop (fun i => i + k ≤ n) k body (n + 1) i s).2 ∧
    n < (forLoop (fun i => i + k ≤ n) k body (n + 1) i s).1 + k := by
  have := forLoop_inv (fun i => decide (i + k ≤ n)) k hk body P n
    (fun i h => by have := of_decide_eq_true h; omega)
    (fun i s hP h => hbody i s hP (of_decide_eq_true h)) (n + 1) i s (by omega) hP
  refine ⟨this.1, ?_⟩
  have h2 := this.2
  simp only [decide_eq_false_iff_not] at h2
  omega

/-- the strict `for (; i + k < n; i += k)` form (`fuel = n + 1`) -/
theorem forLoop_lt_inv {σ : Type} (k : Nat) (hk : 0 < k) (n : Nat) (body : Nat → σ → σ) (P : Nat → σ → Prop)
    (hbody : ∀ i s, P i s → i + k < n → P (i + k) (body i s)) (i : Nat) (s : σ) (hP : P i s) :
    P (forLoop (fun i => i + k < n) k body (n + 1) i s).1 (forLoop (fun i => i + k < n) k body (n + 1) i s).2 ∧
    n ≤ (forLoop (fun i => i + k < n) k body (n + 1) i s).1 + k := by
  have := forLoop_inv (fun i => decide (i + k < n)) k hk body P n
    (fun i h => by have := of_decide_eq_true h; omega)
    (fun i s hP h => hbody i s hP (of_decide_eq_true h)) (n + 1) i s (by omega) hP
  refine ⟨this.1, ?_⟩
  have h2 := this.2
  simp only [decide_eq_false_iff_not] at h2
  omega

/-! ### lists -/

theorem foldl_append_eq_flatten {α : Type} (f : Nat → List α) (m : Nat) (d : List α) :
    (List.range m).foldl (fun dst j => dst ++ f j) d = d ++ ((List.range m).map f).flatten := by
  induction m with
  | zero => simp
  | succ m ih =>
    rw [List.range_succ, List.foldl_append, ih]
    simp [List.map_append, List.flatten_append, List.append_assoc]

/-! ### `xorBytes` -/

theorem xorBytes_comm : ∀ a b : Bytes, xorBytes a b = xorBytes b a
  | [], [] => rfl
  | [], _ :: _ => rfl
  | _ :: _, [] => rfl
  | x :: xs, y :: ys => by
    simp only [xorBytes, xorBytes_comm xs ys]
    rw [show x ^^^ y = y ^^^ x from UInt8.xor_comm x y]

theorem xorBytes_length : ∀ a b : Bytes, (xorBytes a b).length = min a.length b.length :=
  AesK.xorBytes_length

theorem xorBytes_take : ∀ (n : Nat) (a b : Bytes), (xorBytes a b).take n = xorBytes (a.take n) (b.take n)
  | 0, a, b => by cases a <;> cases b <;> simp [xorBytes]
  | n + 1, [], b => by cases b <;> simp [xorBytes]
  | n + 1, _ :: _, [] => by simp [xorBytes]
  | n + 1, x :: xs, y :: ys => by simp [xorBytes, xorBytes_take n xs ys]

/-- `xorBytes` only uses the first `a.length` bytes of its second argument -/
theorem xorBytes_take_right : ∀ a b : Bytes, xorBytes a (b.take a.length) = xorBytes a b
  | [], b => by cases b <;> simp [xorBytes]
  | _ :: _, [] => by simp [xorBytes]
  | x :: xs, y :: ys => by simp [xorBytes, xorBytes_take_right xs ys]

/-! ### `chunks` (same statements as in `Proofs/AegisRef.lean`, re-proved to avoid the import) and `gctr` -/

theorem chunksAux_fuel (n : Nat) (hn : 0 < n) : ∀ (f1 f2 : Nat) (l : Bytes), l.length ≤ f1 → l.length ≤ f2 →
    chunksAux n f1 l = chunksAux n f2 l
  | 0, f2, l, h1, _ => by
    have : l = [] := List.eq_nil_of_length_eq_zero (by omega)
    subst this; cases f2 <;> simp [chunksAux]
  | f1 + 1, 0, l, _, h2 => by
    have : l = [] := List.eq_nil_of_length_eq_zero (by omega)
    subst this; simp [chunksAux]
  | f1 + 1, f2 + 1, l, h1, h2 => by
    simp only [chunksAux]
    by_cases he : l.isEmpty
    · simp [he]
    · simp only [he, Bool.false_eq_true, if_false]
      have : 0 < l.length := by cases l <;> simp_all
      rw [chunksAux_fuel n hn f1 f2 (l.drop n) (by simp; omega) (by simp; omega)]

theorem chunks_nil (n : Nat) : chunks n [] = [] := by simp [chunks, chunksAux]

theorem chunks_cons (n : Nat) (hn : 0 < n) (l : Bytes) (hl : 0 < l.length) :
    chunks n l = l.take n :: chunks n (l.drop n) := by
  unfold chunks
  obtain ⟨k, hk⟩ : ∃ k, l.length = k + 1 := ⟨l.length - 1, by omega⟩
  have he : l.isEmpty = false := by cases l <;> simp_all
  rw [hk, chunksAux, he]
  simp only [Bool.false_eq_true, if_false]
  rw [chunksAux_fuel n hn k (l.drop n).length (l.drop n) (by simp; omega) (Nat.le_refl _)]

theorem chunks_single (n : Nat) (hn : 0 < n) (l : Bytes) (h0 : 0 < l.length) (h : l.length ≤ n) :
    chunks n l = [l] := by
  rw [chunks_cons n hn l h0, List.take_of_length_le h, List.drop_eq_nil_of_le h, chunks_nil]

theorem gctr_nil (ciph : Bytes → Bytes) (icb : Bytes) : Gcm.gctr ciph icb [] = [] := by
  simp [Gcm.gctr, chunks_nil, Gcm.gctrBlocks]

/-- one step of GCTR on counter blocks `npub ‖ BE32(c)` -/
theorem gctr_cons (ciph : Bytes → Bytes) (npub : Bytes) (hn : npub.length = 12) (c : Nat) (x : Bytes)
    (hx : 0 < x.length) :
    Gcm.gctr ciph (Ctr.ctrBlock npub c) x =
      xorBytes (x.take 16) (ciph (Ctr.ctrBlock npub c)) ++ Gcm.gctr ciph (Ctr.ctrBlock npub (c + 1)) (x.drop 16) := by
  unfold Gcm.gctr
  rw [chunks_cons 16 (by decide) x hx, Gcm.gctrBlocks, Ctr.inc32_ctrBlock_gen npub hn, List.flatten_cons]

/-- a last block of at most 16 bytes -/
theorem gctr_single (ciph : Bytes → Bytes) (npub : Bytes) (hn : npub.length = 12) (c : Nat) (x : Bytes)
    (hx : 0 < x.length) (hx16 : x.length ≤ 16) :
    Gcm.gctr ciph (Ctr.ctrBlock npub c) x = xorBytes x (ciph (Ctr.ctrBlock npub c)) := by
  rw [gctr_cons ciph npub hn c x hx, List.take_of_length_le hx16, List.drop_eq_nil_of_le hx16, gctr_nil,
    List.append_nil]

/-- `m` keystream blocks from counter value `c`: block `j` of `x` XOR `CIPH(npub ‖ BE32(c + j))` -/
def ks (ciph : Bytes → Bytes) (npub : Bytes) (m c : Nat) (x : Bytes) : Bytes :=
  ((List.range m).map fun j => xorBytes ((x.drop (16 * j)).take 16) (ciph (Ctr.ctrBlock npub (c + j)))).flatten

theorem ks_succ (ciph : Bytes → Bytes) (npub : Bytes) (m c : Nat) (x : Bytes) :
    ks ciph npub (m + 1) c x =
      ks ciph npub m c x ++ xorBytes ((x.drop (16 * m)).take 16) (ciph (Ctr.ctrBlock npub (c + m))) := by
  simp [ks, List.range_succ, List.map_append, List.flatten_append]

/-- GCTR splits after `m` whole blocks -/
theorem gctr_split (ciph : Bytes → Bytes) (npub : Bytes) (hn : npub.length = 12) (c : Nat) (x : Bytes) :
    ∀ m, 16 * m ≤ x.length →
      Gcm.gctr ciph (Ctr.ctrBlock npub c) x =
        ks ciph npub m c x ++ Gcm.gctr ciph (Ctr.ctrBlock npub (c + m)) (x.drop (16 * m)) := by
  intro m
  induction m with
  | zero => intro _; simp [ks]
  | succ m ih =>
    intro h
    rw [ih (by omega), ks_succ, gctr_cons ciph npub hn (c + m) (x.drop (16 * m)) (by simp; omega),
      List.append_assoc, List.drop_drop]
    rfl

theorem ks_length (ciph : Bytes → Bytes) (npub : Bytes) (hciph : ∀ c, (ciph (Ctr.ctrBlock npub c)).length = 16)
    (c : Nat) (x : Bytes) :
    ∀ m, 16 * m ≤ x.length → (ks ciph npub m c x).length = 16 * m := by
  intro m
  induction m with
  | zero => intro _; simp [ks]
  | succ m ih =>
    intro h
    rw [ks_succ, List.length_append, ih (by omega), xorBytes_length, hciph]
    simp
    omega

/-! ### `ghB` / `ghFold` -/

theorem ghFold_zero (h0 acc : BlockVec) (d : Bytes) : ghFold h0 acc d 0 = acc := rfl

theorem ghFold_succ (h0 acc : BlockVec) (d : Bytes) (n : Nat) :
    ghFold h0 acc d (n + 1) = ghB h0 (ghFold h0 acc d n) (d.drop (16 * n)) := by
  simp [ghFold, List.range_succ, List.foldl_append]

theorem ghFold_one (h0 acc : BlockVec) (d : Bytes) : ghFold h0 acc d 1 = ghB h0 acc d := by
  rw [ghFold_succ, ghFold_zero, Nat.mul_zero, List.drop_zero]

theorem ghFold_add (h0 acc : BlockVec) (d : Bytes) (a b : Nat) :
    ghFold h0 acc d (a + b) = ghFold h0 (ghFold h0 acc d a) (d.drop (16 * a)) b := by
  induction b with
  | zero => rw [Nat.add_zero, ghFold_zero]
  | succ b ih =>
    rw [← Nat.add_assoc, ghFold_succ, ghFold_succ, ih, List.drop_drop, Nat.mul_add]

/-- `ghB` reads only 16 bytes -/
theorem ghB_congr (h0 acc : BlockVec) (b b' : Bytes) (h : b.take 16 = b'.take 16) : ghB h0 acc b = ghB h0 acc b' := by
  unfold ghB
  rw [← AesK.LOAD128_take b, ← AesK.LOAD128_take b', h]

theorem ghB_take (h0 acc : BlockVec) (b : Bytes) : ghB h0 acc (b.take 16) = ghB h0 acc b :=
  ghB_congr h0 acc _ _ (by rw [List.take_take, Nat.min_self])

/-- `ghFold … n` reads only the first `16 n` bytes -/
theorem ghFold_congr (h0 acc : BlockVec) (d d' : Bytes) :
    ∀ n, d.take (16 * n) = d'.take (16 * n) → ghFold h0 acc d n = ghFold h0 acc d' n := by
  intro n
  induction n with
  | zero => intro _; rw [ghFold_zero, ghFold_zero]
  | succ n ih =>
    intro h
    have h1 : d.take (16 * n) = d'.take (16 * n) := by
      have := congrArg (List.take (16 * n)) h
      rw [List.take_take, List.take_take, Nat.min_eq_left (by omega)] at this
      exact this
    rw [ghFold_succ, ghFold_succ, ih h1]
    apply ghB_congr
    rw [List.take_drop, List.take_drop, show 16 * n + 16 = 16 * (n + 1) from by omega, h]

theorem ghFold_append (h0 acc : BlockVec) (d x : Bytes) (n : Nat) (h : 16 * n ≤ d.length) :
    ghFold h0 acc (d ++ x) n = ghFold h0 acc d n :=
  ghFold_congr h0 acc _ _ n (List.take_append_of_le_length h)

theorem ghFold_take (h0 acc : BlockVec) (d : Bytes) (n : Nat) :
    ghFold h0 acc (d.take (16 * n)) n = ghFold h0 acc d n :=
  ghFold_congr h0 acc _ _ n (by rw [List.take_take, Nat.min_self])

/-- catching up: the accumulator covers the first `a` blocks of `d`; hashing `m` more blocks read from
    `(d ++ b) + 16 a` gives the accumulator over the first `a + m` blocks of `d ++ b` -/
theorem ghFold_extend (h0 A : BlockVec) (d b : Bytes) (a m : Nat) (h : 16 * a ≤ d.length) :
    ghFold h0 (ghFold h0 A d a) ((d ++ b).drop (16 * a)) m = ghFold h0 A (d ++ b) (a + m) := by
  rw [ghFold_add, ghFold_append h0 A d b a h]

/-! ### the `size_t` masks of the associated-data prologue -/

theorem and_15 (n : Nat) : n &&& 15 = n % 16 := Nat.and_two_pow_sub_one_eq_mod n 4

/-- `n & ~(size_t) 15` -/
theorem and_not_15 (n : Nat) (h : n < 2 ^ 64) : n &&& (2 ^ 64 - 16) = n - n % 16 := by
  have e1 : (2 : Nat) ^ 64 - 16 = (2 ^ 60 - 1) * 2 ^ 4 := by decide
  have e2 : n - n % 16 = n / 2 ^ 4 * 2 ^ 4 := by omega
  rw [e1, e2]
  apply Nat.eq_of_testBit_eq
  intro i
  rw [Nat.testBit_and, Nat.testBit_mul_two_pow, Nat.testBit_mul_two_pow, Nat.testBit_two_pow_sub_one,
    Nat.testBit_div_two_pow]
  by_cases h4 : 4 ≤ i
  · by_cases h64 : i - 4 < 60
    · simp [h4, h64, Nat.sub_add_cancel h4]
    · have : n.testBit i = false :=
        Nat.testBit_lt_two_pow (Nat.lt_of_lt_of_le h (Nat.pow_le_pow_right (by decide) (by omega)))
      simp [h4, this, Nat.sub_add_cancel h4]
  · simp [h4]

end Sodium.GcmAesniP.Loop
