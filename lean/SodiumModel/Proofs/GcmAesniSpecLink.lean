import SodiumModel.Proofs.GcmAesniPrecomp
import SodiumModel.Proofs.GcmAesniBasic
import SodiumModel.Proofs.GcmAesniAes
/-
  Bytes ↔ specification blocks ↔ registers; one C GHASH step = (Y ⊕ X) • H of SP 800-38D; `mont_eq_gmul` (theorem (3) on bytes);
  `ghFold` from the zero accumulator = `Spec.Gcm.ghash`.
-/
open Polynomial
namespace Sodium.GcmAesniP.GF
open Sodium Sodium.Model.GcmAesni Sodium.Spec Sodium.Spec.Gcm Sodium.GcmAesniP

/-! ### spec blocks ↔ bytes ↔ registers -/

theorem be_cons (x : UInt8) (l : Bytes) : be (x :: l) = x.toNat * 256 ^ l.length + be l := by
  have := Ctr.be_append [x] l
  simpa [be, le] using this

theorem be64_step (acc : UInt64) (x : UInt8) (h : acc.toNat < 2 ^ 56) :
    ((acc <<< 8) ||| x.toUInt64).toNat = acc.toNat * 256 + x.toNat := by
  have hx := x.toNat_lt
  rw [UInt64.toNat_or, UInt64.toNat_shiftLeft]
  have e1 : (8 : UInt64).toNat % 64 = 8 := by decide
  have e2 : acc.toNat <<< 8 % 2 ^ 64 = acc.toNat <<< 8 := by
    rw [Nat.shiftLeft_eq]; apply Nat.mod_eq_of_lt; omega
  have e3 : x.toUInt64.toNat = x.toNat := by simp
  rw [e1, e2, e3, ← Nat.shiftLeft_add_eq_or_of_lt (by omega), Nat.shiftLeft_eq]

theorem be64_fold (b : Bytes) : ∀ (acc : UInt64), b.length ≤ 8 → acc.toNat < 2 ^ (64 - 8 * b.length) →
    (b.foldl (fun (acc : UInt64) (x : UInt8) => (acc <<< 8) ||| x.toUInt64) acc).toNat = acc.toNat * 256 ^ b.length + be b := by
  induction b with
  | nil => intro acc _ _; simp [be, le]
  | cons x l ih =>
    intro acc hl ha
    simp only [List.length_cons] at hl ha
    have hacc : acc.toNat < 2 ^ 56 := by
      refine Nat.lt_of_lt_of_le ha (Nat.pow_le_pow_right (by decide) (by omega))
    have hs := be64_step acc x hacc
    rw [List.foldl_cons, ih _ (by omega), hs, be_cons, List.length_cons, Nat.pow_succ]
    · ring
    · rw [hs]
      have hx := x.toNat_lt
      have : 2 ^ (64 - 8 * (l.length + 1)) * 256 = 2 ^ (64 - 8 * l.length) := by
        have : 64 - 8 * l.length = (64 - 8 * (l.length + 1)) + 8 := by omega
        rw [this, Nat.pow_add]
      omega

theorem be64_toNat (b : Bytes) (h : b.length ≤ 8) : (be64 b).toNat = be b := by
  have := be64_fold b 0 h (by simp)
  simpa [be64] using this

theorem bn_ofBytes (b : Bytes) (h : b.length = 16) : bn (Block.ofBytes b) = be b := by
  unfold bn Block.ofBytes
  rw [be64_toNat _ (by simp), be64_toNat _ (by simp)]
  have hb : b = b.take 8 ++ b.drop 8 := (List.take_append_drop 8 b).symm
  have h2 : (b.drop 8).take 8 = b.drop 8 := List.take_of_length_le (by simp; omega)
  rw [h2]
  conv_rhs => rw [hb, Ctr.be_append]
  simp [h]; ring

theorem toBytes_eq (y : Block) : y.toBytes = toBE 16 (bn y) := by
  unfold Block.toBytes bn
  have := Ctr.toBE_add 8 8 y.hi.toNat y.lo.toNat (by have := y.lo.toNat_lt; omega)
  rw [← this]; congr 1; ring


theorem REV128_LOAD128_toNat' (blk : Bytes) (h : 16 ≤ blk.length) :
    (REV128 (LOAD128 blk)).toNat = bn (Block.ofBytes (blk.take 16)) := by
  rw [← AesK.LOAD128_take, Ctr.REV128_LOAD128_toNat _ (by simp; omega), bn_ofBytes _ (by simp; omega)]

/-- (3) one GHASH step of the C (`gcm_reduce(clmul128(acc ^ REV128(block), hx[0]))`) is
    `(Y ⊕ X) • H` of SP 800-38D §6.3/§6.4 -/
theorem ghB_spec (h : Bytes) (hh : h.length = 16) (acc : BlockVec) (y : Block) (hy : acc.toNat = bn y)
    (blk : Bytes) (hb : 16 ≤ blk.length) :
    (ghB (REV128 (LOAD128 h)) acc blk).toNat = bn ((y.xor (Block.ofBytes (blk.take 16))).mul (Block.ofBytes h)) := by
  apply kap_inj (BitVec.isLt _) (bn_lt _)
  rw [kap_ghB, kap_mul, kap_bn_xor, theta, hy, REV128_LOAD128_toNat' blk hb, Ctr.REV128_LOAD128_toNat h hh, bn_ofBytes h hh]
  ring

/-- (3) `clmul128` + `gcm_reduce` with the shifted key = multiplication in GF(2^128) (SP 800-38D §6.3), on bytes -/
theorem mont_eq_gmul (a h : Bytes) (ha : a.length = 16) (hh : h.length = 16) :
    STORE128 (REV128 (gcm_reduce (clmul128 (REV128 (LOAD128 a)) (hshift (REV128 (LOAD128 h)))))) = Gcm.gmul a h := by
  have := ghB_spec h hh 0 ⟨0, 0⟩ rfl a (by omega)
  have hx : XOR128 0 (REV128 (LOAD128 a)) = REV128 (LOAD128 a) := by simp [XOR128, mm_xor_si128]
  rw [ghB, mont, hx] at this
  rw [Ctr.STORE128_REV128, this, gmul, toBytes_eq]
  have e1 : a.take 16 = a := List.take_of_length_le (by omega)
  have e2 : (⟨0, 0⟩ : Block).xor (Block.ofBytes a) = Block.ofBytes a := by
    simp [Block.xor]
  rw [e1, e2]


/-- (3) `clsq128` is squaring: same product as `clmul128(a, a)` -/
theorem clsq_eq_clmul (a : BlockVec) : gcm_reduce (clsq128 a) = gcm_reduce (clmul128 a a) := by
  apply toNat_inj_of_kap
  rw [kap_sq, ← mont, kap_mont]

/-! ### sequential GHASH: `ghFold` = `Spec.Gcm.ghash` -/

theorem foldl_range_succ' {β : Type} (g : β → Nat → β) (y : β) (n : Nat) :
    (List.range (n + 1)).foldl g y = (List.range n).foldl (fun y j => g y (j + 1)) (g y 0) := by
  rw [List.range_succ_eq_map, List.foldl_cons, List.foldl_map]

theorem chunks_foldl {β : Type} (f : β → Bytes → β) :
    ∀ (n : Nat) (l : Bytes) (fuel : Nat) (y : β), l.length = 16 * n → n ≤ fuel →
      (Aes.chunksAux 16 fuel l).foldl f y = (List.range n).foldl (fun y j => f y ((l.drop (16 * j)).take 16)) y := by
  intro n
  induction n with
  | zero =>
    intro l fuel y hl _
    have : l = [] := List.eq_nil_of_length_eq_zero (by omega)
    subst this
    cases fuel <;> simp [Aes.chunksAux]
  | succ n ih =>
    intro l fuel y hl hf
    obtain ⟨fuel', rfl⟩ : ∃ f', fuel = f' + 1 := ⟨fuel - 1, by omega⟩
    have hne : l.isEmpty = false := by
      cases l with
      | nil => simp at hl
      | cons _ _ => rfl
    rw [Aes.chunksAux, hne, foldl_range_succ']
    simp only [Bool.false_eq_true, if_false, List.foldl_cons, Nat.mul_zero, List.drop_zero]
    rw [ih (l.drop 16) fuel' _ (by simp; omega) (by omega)]
    congr 1
    funext y j
    rw [List.drop_drop]
    have : 16 + 16 * j = 16 * (j + 1) := by omega
    rw [this]

theorem ghFold_spec (h : Bytes) (hh : h.length = 16) (data : Bytes) (n : Nat) (hd : 16 * n ≤ data.length)
    (acc : BlockVec) (y : Block) (hy : acc.toNat = bn y) :
    (ghFold (REV128 (LOAD128 h)) acc data n).toNat
      = bn ((List.range n).foldl (fun y j => (y.xor (Block.ofBytes ((data.drop (16 * j)).take 16))).mul (Block.ofBytes h)) y) := by
  induction n with
  | zero => simpa [ghFold_zero] using hy
  | succ n ih =>
    rw [ghFold_succ, List.range_succ, List.foldl_append]
    simp only [List.foldl_cons, List.foldl_nil]
    exact ghB_spec h hh _ _ (ih (by omega)) _ (by simp; omega)

/-- (4) sequential form: `ghFold` from the zero accumulator is GHASH_H of SP 800-38D §6.4 -/
theorem ghFold_eq_ghash (h : Bytes) (hh : h.length = 16) (data : Bytes) (n : Nat) (hd : data.length = 16 * n) :
    STORE128 (REV128 (ghFold (REV128 (LOAD128 h)) gh_init data n)) = Gcm.ghash h data := by
  rw [Ctr.STORE128_REV128, ghFold_spec h hh data n (by omega) gh_init ⟨0, 0⟩ rfl, ghash, toBytes_eq, Aes.chunks,
    chunks_foldl _ n data _ _ hd (by omega)]

end Sodium.GcmAesniP.GF
