import SodiumModel.Proofs.ScryptSseStore
/-
  Helper lemmas for Properties/C08ScryptSse.lean, part 7: both `smix` functions on the bytes of `B`, the p-loop, the link
  between the array-level statements and `wordsOfBytes` / `bytesOfWords` / `flatMap` of Spec/Scrypt.lean, and
  `escrypt_kdf_sse` / `escrypt_kdf_nosse` end to end.
-/
namespace Sodium.ScryptSseP
open Sodium Sodium.Model Sodium.Model.ScryptSse Sodium.Spec Sodium.ScryptRefP
open Sodium.Model.ScryptRef (forU64 forU32 load32_le store32_le escrypt_PBKDF2_SHA256)

theorem wordsLE_size (B : Array UInt8) (boff n : Nat) : (wordsLE B boff n).size = n := by unfold wordsLE; rw [Array.size_ofFn]

theorem roMix_size (r N : Nat) (B : Array UInt32) (hr : 1 ≤ r) (hB : B.size = 32 * r) : (Scrypt.roMix r N B).size = 32 * r := by
  rw [roMix_eq]; exact ys_size r N B hr hB N

/-! ### both `smix` functions on bytes -/

/-- the SSE2 `smix(B, r, N, V, XY)`: the 128 r bytes at `B` are replaced by scryptROMix of them (as little-endian words) -/
theorem smix_sse_bytes (B : Array UInt8) (boff : Nat) (r N : UInt64) (M : Array UInt32) (V XY n : Nat) (hr : 1 ≤ r.toNat)
    (h128 : 128 * r.toNat * N.toNat < 2 ^ 64) (hN : N.toNat = 2 ^ n) (hn1 : 1 ≤ n) (hn : n ≤ 32)
    (hV : V + 32 * r.toNat * N.toNat ≤ XY) (hXY : XY + 64 * r.toNat ≤ M.size) (hfit : boff + 128 * r.toNat ≤ B.size) :
    Stored (smix B boff r N M V XY).1 B boff (Scrypt.roMix r.toNat N.toNat (wordsLE B boff (32 * r.toNat))) ∧
      (smix B boff r N M V XY).2.size = M.size := by
  have hpos : 1 ≤ N.toNat := by rw [hN]; exact Nat.pow_pos (by decide)
  have h1 := Nat.mul_le_mul_left (128 * r.toNat) hpos
  have h2 := Nat.mul_le_mul_left (32 * r.toNat) hpos
  have ld := smix_load_spec B boff r M V (by omega) (by omega)
  have mid := smix_mid_spec r N _ V XY n _ hr h128 hN hn1 hn (wordsLE_size _ _ _) hV (by rw [ld.1]; exact hXY) ld.2
  rw [smix_parts]
  exact ⟨smix_store_spec B boff r _ XY _ (by omega) (roMix_size _ _ _ hr (wordsLE_size _ _ _)) mid.2 hfit, by rw [mid.1, ld.1]⟩

/-- sizes of the scratch buffers of the reference `smix` -/
def MemOK (r N : UInt64) (m : ScryptRef.Mem) : Prop :=
  m.V.size = 32 * r.toNat * N.toNat ∧ m.X.size = 32 * r.toNat ∧ m.Y.size = 32 * r.toNat ∧ m.Z.size = 16

/-- the reference `smix(B, r, N, V, XY)` -/
theorem smix_ref_bytes (m : ScryptRef.Mem) (boff : Nat) (r N : UInt64) (n : Nat) (hr : 1 ≤ r.toNat)
    (h128 : 128 * r.toNat * N.toNat < 2 ^ 64) (hN : N.toNat = 2 ^ n) (hn1 : 1 ≤ n) (hn : n < 64) (hm : MemOK r N m)
    (hfit : boff + 128 * r.toNat ≤ m.B.size) :
    Stored (ScryptRef.smix m boff r N).B m.B boff (Scrypt.roMix r.toNat N.toNat (wordsLE m.B boff (32 * r.toNat))) ∧
      MemOK r N (ScryptRef.smix m boff r N) := by
  obtain ⟨mV, mX, mY, mZ⟩ := hm
  have hpos : 1 ≤ N.toNat := by rw [hN]; exact Nat.pow_pos (by decide)
  have h1 := Nat.mul_le_mul_left (128 * r.toNat) hpos
  have hr4 : 128 * r.toNat < 2 ^ 64 := by omega
  unfold ScryptRef.smix
  simp only []
  rw [ref_load m.B boff r m.X hr4 mX]
  have sp := smix_loops_spec r N n (wordsLE m.B boff (32 * r.toNat)) m.V m.Y m.Z hr h128 hN hn1 hn (wordsLE_size _ _ _) mV mY mZ
  simp only [] at sp
  generalize ScryptRef.smix_loop1 r N m.V (wordsLE m.B boff (32 * r.toNat)) m.Y m.Z = S1 at sp ⊢
  generalize ScryptRef.smix_loop2 r N S1.1 S1.2.1 S1.2.2.1 S1.2.2.2 = S2 at sp ⊢
  obtain ⟨s1, s2, s3, s4⟩ := sp
  have hXs : S2.1.size = 32 * r.toNat := by rw [s1]; exact roMix_size _ _ _ hr (wordsLE_size _ _ _)
  have st := ref_store m.B boff r S2.1 hr4 hXs hfit
  rw [s1] at st
  simp only [MemOK]
  exact ⟨by rw [← s1]; exact (s1 ▸ st), by rw [s2, mV], hXs, s3, s4⟩

/-! ### `forU32` loops -/

theorem forU32_eq_iter {α : Type} (n : UInt64) (body : UInt32 → α → α) (bodyN : Nat → α → α) (hn : n.toNat < 2 ^ 32) :
    ∀ (cnt a fuel : Nat) (s : α), n.toNat = a + cnt → cnt ≤ fuel →
    (∀ j, a ≤ j → j < a + cnt → ∀ s, body (UInt32.ofNat j) s = bodyN j s) →
    forU32 n body fuel (UInt32.ofNat a) s = iter bodyN cnt a s
  | 0, a, fuel, s, h, _, _ => by
    cases fuel with
    | zero => rfl
    | succ f =>
      rw [forU32, if_neg, iter]
      rw [UInt64.lt_iff_toNat_lt, UInt32.toNat_toUInt64, UInt32.toNat_ofNat', Nat.mod_eq_of_lt (by omega)]; omega
  | cnt + 1, a, fuel, s, h, hf, hb => by
    cases fuel with
    | zero => omega
    | succ f =>
      rw [forU32, if_pos (by rw [UInt64.lt_iff_toNat_lt, UInt32.toNat_toUInt64, UInt32.toNat_ofNat', Nat.mod_eq_of_lt (by omega)]; omega),
        hb a (Nat.le_refl _) (by omega), iter]
      have e : UInt32.ofNat a + 1 = UInt32.ofNat (a + 1) := by
        apply UInt32.toNat_inj.mp
        rw [UInt32.toNat_add, UInt32.toNat_ofNat', UInt32.toNat_ofNat', Nat.mod_eq_of_lt (by omega : a < 2 ^ 32),
          Nat.mod_eq_of_lt (by omega : a + 1 < 2 ^ 32)]
        simp; omega
      rw [e]
      exact forU32_eq_iter n body bodyN hn cnt (a + 1) f _ (by omega) (by omega) (fun j h1 h2 => hb j (by omega) (by omega))

/-! ### the p-loop -/

theorem load32_congr (B B' : Array UInt8) (off : Nat) (h : ∀ u, off ≤ u → B'.getD u 0 = B.getD u 0) :
    load32_le B' off = load32_le B off := by
  unfold load32_le
  rw [h _ (by omega), h _ (by omega), h _ (by omega), h _ (by omega)]

theorem wordsLE_congr (B B' : Array UInt8) (boff n : Nat) (h : ∀ u, boff ≤ u → B'.getD u 0 = B.getD u 0) :
    wordsLE B' boff n = wordsLE B boff n := by
  apply ext_getD 0
  · rw [wordsLE_size, wordsLE_size]
  · intro t ht
    rw [wordsLE_size] at ht
    rw [wordsLE_getD _ _ _ _ ht, wordsLE_getD _ _ _ _ ht, load32_congr B B' _ (fun u hu => h u (by omega))]

/-- the bytes of `B` after `i` passes of the p-loop -/
def PInv (W : Nat) (F : Array UInt32 → Array UInt32) (B0 : Array UInt8) (i : Nat) (B : Array UInt8) : Prop :=
  B.size = B0.size ∧
  (∀ q v, q < i → v < 4 * W → B.getD (4 * W * q + v) 0 = byteOf ((F (wordsLE B0 (4 * W * q) W)).getD (v / 4) 0) (v % 4)) ∧
  (∀ u, 4 * W * i ≤ u → B.getD u 0 = B0.getD u 0)

theorem pinv_step (W : Nat) (F : Array UInt32 → Array UInt32) (hF : ∀ x, x.size = W → (F x).size = W) (B0 B B' : Array UInt8)
    (i : Nat) (h : PInv W F B0 i B) (hst : Stored B' B (4 * W * i) (F (wordsLE B (4 * W * i) W))) : PInv W F B0 (i + 1) B' := by
  obtain ⟨h1, h2, h3⟩ := h
  obtain ⟨t1, t2⟩ := hst
  have hw : wordsLE B (4 * W * i) W = wordsLE B0 (4 * W * i) W := wordsLE_congr B0 B _ _ (fun u hu => h3 u hu)
  rw [hw] at t2
  have hsz : (F (wordsLE B0 (4 * W * i) W)).size = W := hF _ (wordsLE_size _ _ _)
  rw [hsz] at t2
  have e1 : 4 * W * (i + 1) = 4 * W * i + 4 * W := Nat.mul_succ _ _
  refine ⟨by rw [t1, h1], fun q v hq hv => ?_, fun u hu => ?_⟩
  · rw [t2]
    by_cases hqi : q = i
    · subst hqi
      rw [if_pos ⟨by omega, by omega⟩, Nat.add_sub_cancel_left]
    · have := row_le (4 * W) q i (by omega)
      rw [if_neg (by omega)]
      exact h2 q v (by omega) hv
  · rw [t2, if_neg (by omega)]
    exact h3 u (by omega)

/-! ### lists -/

theorem range_flatMap_length (f : Nat → Bytes) (c : Nat) (hf : ∀ k, (f k).length = c) : ∀ l, ((List.range l).flatMap f).length = c * l
  | 0 => rfl
  | l + 1 => by rw [List.range_succ, List.flatMap_append, List.length_append, range_flatMap_length f c hf l]; simp [hf, Nat.mul_succ]

theorem range_flatMap_getD (f : Nat → Bytes) (c : Nat) (hf : ∀ k, (f k).length = c) : ∀ l q v, q < l → v < c →
    ((List.range l).flatMap f).getD (c * q + v) 0 = (f q).getD v 0
  | 0, q, v, h, _ => by omega
  | l + 1, q, v, hq, hv => by
    rw [List.range_succ, List.flatMap_append]
    simp only [List.flatMap_cons, List.flatMap_nil, List.append_nil, List.getD_eq_getElem?_getD, List.getElem?_append,
      range_flatMap_length f c hf l]
    by_cases h : q < l
    · have := row_le c q l h
      rw [if_pos (by omega)]
      have := range_flatMap_getD f c hf l q v h hv
      simpa [List.getD_eq_getElem?_getD] using this
    · have e : q = l := by omega
      subst e
      rw [if_neg (by omega), Nat.add_sub_cancel_left]

theorem flatMap4_getD (f : UInt32 → Bytes) (hf : ∀ x, (f x).length = 4) : ∀ (l : List UInt32) (v : Nat), v < 4 * l.length →
    (l.flatMap f).getD v 0 = (f (l.getD (v / 4) 0)).getD (v % 4) 0
  | [], v, h => by simp at h
  | a :: t, v, h => by
    simp only [List.flatMap_cons, List.getD_eq_getElem?_getD, List.getElem?_append, hf]
    by_cases hv : v < 4
    · rw [if_pos hv]
      have e1 : v / 4 = 0 := by omega
      have e2 : v % 4 = v := by omega
      rw [e1, e2]; rfl
    · rw [if_neg hv]
      have := flatMap4_getD f hf t (v - 4) (by simp at h; omega)
      simp only [List.getD_eq_getElem?_getD] at this
      rw [this]
      have e1 : v / 4 = (v - 4) / 4 + 1 := by omega
      have e2 : (v - 4) % 4 = v % 4 := by omega
      rw [e1, e2]; rfl

theorem bytesOfWords_length (A : Array UInt32) : (Scrypt.bytesOfWords A).length = 4 * A.size := by
  unfold Scrypt.bytesOfWords
  have : ∀ l : List UInt32, (l.flatMap fun x => toLE 4 x.toNat).length = 4 * l.length := by
    intro l; induction l with
    | nil => rfl
    | cons a t ih => simp only [List.flatMap_cons, List.length_append, ih, List.length_cons]; rw [show (toLE 4 a.toNat).length = 4 from rfl]; omega
  rw [this]; simp

theorem bytesOfWords_getD (A : Array UInt32) (v : Nat) (hv : v < 4 * A.size) :
    (Scrypt.bytesOfWords A).getD v 0 = byteOf (A.getD (v / 4) 0) (v % 4) := by
  unfold Scrypt.bytesOfWords byteOf
  rw [flatMap4_getD _ (fun _ => rfl) A.toList v (by simpa using hv), Sodium.CoresRefP.store32_le_eq_toLE]
  congr 3
  simp [Array.getD_eq_getD_getElem?, List.getD_eq_getElem?_getD]

theorem load32_list (B : Array UInt8) (off : Nat) :
    UInt32.ofNat (le ((B.toList.drop off).take 4)) = load32_le B off := by
  have h1 : UInt32.ofNat (le ((B.toList.drop off).take 4)) = Sodium.Model.CoresRef.load32_le (B.toList.drop off) :=
    Sodium.CoresRefP.load32_le_eq_chacha (B.toList.drop off)
  rw [h1]
  unfold Sodium.Model.CoresRef.load32_le load32_le
  simp [List.getD_eq_getElem?_getD, List.getElem?_drop, Array.getD_eq_getD_getElem?]

theorem wordsOfBytes_eq (B : Array UInt8) : ∀ (n off : Nat),
    Scrypt.wordsOfBytes n (B.toList.drop off) = (List.range n).map fun k => load32_le B (off + 4 * k)
  | 0, _ => rfl
  | n + 1, off => by
    rw [Scrypt.wordsOfBytes, load32_list, List.drop_drop, wordsOfBytes_eq B n (off + 4), List.range_succ_eq_map]
    simp only [List.map_cons, List.map_map, Nat.mul_zero, Nat.add_zero]
    congr 1
    apply List.map_congr_left
    intro k _
    simp only [Function.comp]
    congr 1; omega

theorem wordsOfBytes_toArray (B : Array UInt8) (n off : Nat) :
    (Scrypt.wordsOfBytes n (B.toList.drop off)).toArray = wordsLE B off n := by
  rw [wordsOfBytes_eq]
  apply ext_getD 0
  · simp [wordsLE_size]
  · intro t ht
    have ht : t < n := by simpa using ht
    rw [wordsLE_getD _ _ _ _ ht]
    simp [Array.getD_eq_getD_getElem?, ht]

/-! ### assembling scrypt -/

theorem ploop_final (R Nn P : Nat) (hR : 1 ≤ R) (B0 Bp : Array UInt8) (hB0 : B0.size = 128 * R * P)
    (h : PInv (32 * R) (Scrypt.roMix R Nn) B0 P Bp) :
    Bp.toList = (List.range P).flatMap fun i =>
      Scrypt.bytesOfWords (Scrypt.roMix R Nn (Scrypt.wordsOfBytes (32 * R) (B0.toList.drop (128 * R * i))).toArray) := by
  obtain ⟨h1, h2, _⟩ := h
  have e4 : 4 * (32 * R) = 128 * R := by omega
  rw [e4] at h2
  have hchunk : ∀ k, (Scrypt.bytesOfWords (Scrypt.roMix R Nn (Scrypt.wordsOfBytes (32 * R) (B0.toList.drop (128 * R * k))).toArray)).length
      = 128 * R := by
    intro k
    rw [bytesOfWords_length, wordsOfBytes_toArray, roMix_size _ _ _ hR (wordsLE_size _ _ _)]; omega
  apply list_eq_of_getD
  · rw [range_flatMap_length _ (128 * R) hchunk, Array.length_toList, h1, hB0]
  · intro u hu
    rw [Array.length_toList, h1, hB0] at hu
    have hpos : 0 < 128 * R := by omega
    have hq : u / (128 * R) < P := Nat.div_lt_of_lt_mul hu
    have hv : u % (128 * R) < 128 * R := Nat.mod_lt _ hpos
    have hu' : u = 128 * R * (u / (128 * R)) + u % (128 * R) := (Nat.div_add_mod u (128 * R)).symm
    generalize u / (128 * R) = q at hq hu'
    generalize u % (128 * R) = v at hv hu'
    subst hu'
    rw [range_flatMap_getD _ (128 * R) hchunk P q v hq hv, wordsOfBytes_toArray,
      bytesOfWords_getD _ _ (by rw [roMix_size _ _ _ hR (wordsLE_size _ _ _)]; omega), ← h2 q v hq (by omega)]
    simp [Array.getD_eq_getD_getElem?, List.getD_eq_getElem?_getD]

theorem scrypt_assemble (mac : Bytes → Bytes → Bytes) (pw salt : Bytes) (R Nn P dk : Nat) (hR : 1 ≤ R) (Bp : Array UInt8)
    (hlen : (Scrypt.pbkdf2HmacSha256 mac pw salt 1 (128 * R * P)).length = 128 * R * P)
    (h : PInv (32 * R) (Scrypt.roMix R Nn) (Scrypt.pbkdf2HmacSha256 mac pw salt 1 (128 * R * P)).toArray P Bp) :
    Scrypt.pbkdf2HmacSha256 mac pw Bp.toList 1 dk = Scrypt.scrypt mac pw salt Nn R P dk := by
  have e : P * 128 * R = 128 * R * P := by rw [Nat.mul_assoc, Nat.mul_comm]
  unfold Scrypt.scrypt
  simp only []
  rw [e, ploop_final R Nn P hR _ Bp (by simpa using hlen) h]

theorem pbkdf2_length (mac : Bytes → Bytes → Bytes) (hlen : ∀ k m, (mac k m).length = 32) (pw salt : Bytes) (c dk : Nat) :
    (Scrypt.pbkdf2HmacSha256 mac pw salt c dk).length = dk := by
  unfold Scrypt.pbkdf2HmacSha256
  simp only []
  rw [List.length_take, flatMap_range_length _ (fun k => pbkdf2F_length mac pw salt hlen c (k + 1))]
  omega

theorem poff (r : UInt64) (j P : Nat) (hj : j < P) (hP : P < 2 ^ 32) (h : 128 * r.toNat * P < 2 ^ 64) :
    (128 * (UInt32.ofNat j).toUInt64 * r).toNat = 128 * r.toNat * j := by
  have h1 : 128 * r.toNat * j ≤ 128 * r.toNat * P := Nat.mul_le_mul_left _ (by omega)
  have e1 : (128 * (UInt32.ofNat j).toUInt64).toNat = 128 * j := by
    rw [UInt64.toNat_mul, UInt32.toNat_toUInt64, UInt32.toNat_ofNat', Nat.mod_eq_of_lt (by omega : j < 2 ^ 32)]
    simp only [UInt64.toNat_ofNat, Nat.reducePow, Nat.reduceMod]; omega
  rw [UInt64.toNat_mul, e1]
  have e2 : 128 * j * r.toNat = 128 * r.toNat * j := by rw [Nat.mul_assoc, Nat.mul_comm j, Nat.mul_assoc]
  rw [e2]; exact Nat.mod_eq_of_lt (by omega)

theorem ploop_generic {σ : Type} (sm : σ → Nat → σ) (bOf : σ → Array UInt8) (Inv : σ → Prop) (R Nn P : Nat) (hR : 1 ≤ R)
    (hsm : ∀ s boff, Inv s → boff + 128 * R ≤ (bOf s).size →
      Stored (bOf (sm s boff)) (bOf s) boff (Scrypt.roMix R Nn (wordsLE (bOf s) boff (32 * R))) ∧ Inv (sm s boff))
    (s0 : σ) (h0 : Inv s0) (hB : (bOf s0).size = 128 * R * P) :
    PInv (32 * R) (Scrypt.roMix R Nn) (bOf s0) P (bOf (iter (fun j s => sm s (128 * R * j)) P 0 s0)) := by
  have e4 : 128 * R = 4 * (32 * R) := by omega
  have hinv := iter_inv (fun j s => sm s (128 * R * j)) (fun j s => PInv (32 * R) (Scrypt.roMix R Nn) (bOf s0) j (bOf s) ∧ Inv s)
    P 0 s0 ⟨⟨rfl, fun q v hq _ => by omega, fun u _ => rfl⟩, h0⟩
    (fun j s _ hj h => by
      obtain ⟨hp, hi⟩ := h
      have hrow := row_le (128 * R) j P (by omega)
      have st := hsm s (128 * R * j) hi (by rw [hp.1, hB]; omega)
      refine ⟨?_, st.2⟩
      apply pinv_step (32 * R) _ (fun x hx => roMix_size R Nn x hR hx) (bOf s0) (bOf s) _ j hp
      rw [← e4]; exact st.1)
  rw [Nat.zero_add] at hinv
  exact hinv.1

theorem no_wrap (a b : UInt64) (h : ¬ a + b < b) : (a + b).toNat = a.toNat + b.toNat := by
  have ha := a.toNat_lt
  have hb := b.toNat_lt
  rw [UInt64.lt_iff_toNat_lt, UInt64.toNat_add] at h
  rw [UInt64.toNat_add]
  omega

theorem mul3 (a : UInt64) (b c : UInt64) (k : Nat) (ha : a.toNat = k) (hk : k * b.toNat * c.toNat < 2 ^ 64) (hc : 1 ≤ c.toNat) :
    (a * b * c).toNat = k * b.toNat * c.toNat := by
  have h1 : k * b.toNat * 1 ≤ k * b.toNat * c.toNat := Nat.mul_le_mul_left _ hc
  have h2 : k * b.toNat < 2 ^ 64 := by omega
  rw [UInt64.toNat_mul, UInt64.toNat_mul, ha, Nat.mod_eq_of_lt h2, Nat.mod_eq_of_lt hk]

/-- `escrypt_kdf_sse` when all parameter tests pass, the two size additions do not wrap and the allocation succeeds -/
theorem kdf_sse_ok {σ : Type} (H : HashOps σ) (mac : Bytes → Bytes → Bytes) (pw salt : Bytes)
    (m1 : ∀ U, hmacFinal H (hmacUpdate H (hmacInit H pw) U) = mac pw U)
    (m2 : ∀ salt iv, hmacFinal H (hmacUpdate H (hmacUpdate H (hmacInit H pw) salt) iv) = mac pw (salt ++ iv))
    (hlen : ∀ k m, (mac k m).length = 32) (allocOk : UInt64 → Bool) (N : UInt64) (r p : UInt32) (buflen : UInt64)
    (hchk : KdfChecksPass N r p buflen)
    (hw1 : ¬ 128 * r.toUInt64 * p.toUInt64 + 128 * r.toUInt64 * N < 128 * r.toUInt64 * N)
    (hw2 : ¬ 128 * r.toUInt64 * p.toUInt64 + 128 * r.toUInt64 * N + (256 * r.toUInt64 + 64) < 256 * r.toUInt64 + 64)
    (hal : allocOk (128 * r.toUInt64 * p.toUInt64 + 128 * r.toUInt64 * N + (256 * r.toUInt64 + 64)) = true) :
    escrypt_kdf_sse H allocOk pw salt N r p buflen =
      { rc := 0, out := Scrypt.scrypt mac pw salt N.toNat r.toNat p.toNat buflen.toNat } := by
  obtain ⟨g1, g2, g3, g4, ⟨n, gN, gn1, gn⟩, g6, g7⟩ := kdf_guards_aux N r p buflen hchk
  obtain ⟨c1, c2, c3, c4, c5, c6⟩ := hchk
  have hr32 := r.toNat_lt
  have hp32 := p.toNat_lt
  have hr64 : r.toUInt64.toNat = r.toNat := UInt32.toNat_toUInt64 r
  have hp64 : p.toUInt64.toNat = p.toNat := UInt32.toNat_toUInt64 p
  have hBs : (128 * r.toUInt64 * p.toUInt64).toNat = 128 * r.toNat * p.toNat := by
    rw [mul3 128 _ _ 128 rfl (by rw [hr64, hp64]; exact g6) (by omega), hr64, hp64]
  have hVs : (128 * r.toUInt64 * N).toNat = 128 * r.toNat * N.toNat := by
    have : 1 ≤ N.toNat := by rw [gN]; exact Nat.pow_pos (by decide)
    rw [mul3 128 _ _ 128 rfl (by rw [hr64]; exact g7) this, hr64]
  have hXYs : (256 * r.toUInt64 + 64).toNat = 256 * r.toNat + 64 := by
    rw [UInt64.toNat_add, UInt64.toNat_mul, hr64]; simp only [UInt64.toNat_ofNat, Nat.reducePow, Nat.reduceMod]; omega
  have nw1 := no_wrap _ _ hw1
  have nw2 := no_wrap _ _ hw2
  rw [nw1, hBs, hVs, hXYs] at nw2
  have hlt := (128 * r.toUInt64 * p.toUInt64 + 128 * r.toUInt64 * N + (256 * r.toUInt64 + 64)).toNat_lt
  rw [nw2] at hlt
  have eV : 128 * r.toNat * N.toNat = 4 * (32 * r.toNat * N.toNat) := by rw [← Nat.mul_assoc, ← Nat.mul_assoc]
  have hMsz : ((128 * r.toUInt64 * N + (256 * r.toUInt64 + 64)) / 4).toNat = 32 * r.toNat * N.toNat + 64 * r.toNat + 16 := by
    rw [UInt64.toNat_div, UInt64.toNat_add, hVs, hXYs]; simp only [UInt64.toNat_ofNat, Nat.reducePow, Nat.reduceMod]; omega
  have hXYoff : 0 + (128 * r.toUInt64 * N).toNat / 4 = 32 * r.toNat * N.toNat := by rw [hVs]; omega
  unfold escrypt_kdf_sse
  simp only []
  rw [if_neg c1, if_neg c2, if_neg c3, if_neg c4, if_neg c5, if_neg c6, if_neg hw1, if_neg hw2, hal]
  simp only [Bool.not_true, Bool.false_eq_true, if_false]
  -- first PBKDF2
  rw [pbkdf2_spec H mac pw salt 1 _ _ m1 (m2 salt) hlen (by decide) (by simp)]
  have hB37 : ¬ 128 * r.toUInt64 * p.toUInt64 > 0x1fffffffe0 := by
    rw [gt_iff_lt, UInt64.lt_iff_toNat_lt, hBs]
    have e : (0x1fffffffe0 : UInt64).toNat = 0x1fffffffe0 := rfl
    have : 128 * r.toNat * p.toNat = 128 * (r.toNat * p.toNat) := Nat.mul_assoc _ _ _
    rw [e]; omega
  rw [if_neg hB37]
  simp only [hBs, show (1 : UInt64).toNat = 1 from rfl]
  -- the p-loop
  have hloop := forU32_eq_iter p.toUInt64
    (fun i (bm : Array UInt8 × Array UInt32) => smix bm.1 (128 * i.toUInt64 * r.toUInt64).toNat r.toUInt64 N bm.2 0
      (0 + (128 * r.toUInt64 * N).toNat / 4))
    (fun j bm => (fun (bm : Array UInt8 × Array UInt32) (boff : Nat) =>
      smix bm.1 boff r.toUInt64 N bm.2 0 (32 * r.toNat * N.toNat)) bm (128 * r.toNat * j))
    (by rw [hp64]; exact hp32) p.toNat 0 p.toUInt64.toNat
    ((Scrypt.pbkdf2HmacSha256 mac pw salt 1 (128 * r.toNat * p.toNat)).toArray,
      Array.replicate ((128 * r.toUInt64 * N + (256 * r.toUInt64 + 64)) / 4).toNat 0)
    (by rw [hp64]; omega) (by rw [hp64]; omega)
    (fun j _ hj bm => by
      rw [poff r.toUInt64 j p.toNat (by omega) hp32 (by rw [hr64]; exact g6), hr64, hXYoff])
  rw [show UInt32.ofNat 0 = 0 from rfl] at hloop
  rw [hloop]
  have hgen := ploop_generic (fun (bm : Array UInt8 × Array UInt32) (boff : Nat) =>
      smix bm.1 boff r.toUInt64 N bm.2 0 (32 * r.toNat * N.toNat)) (fun bm => bm.1)
    (fun bm => bm.2.size = 32 * r.toNat * N.toNat + 64 * r.toNat + 16) r.toNat N.toNat p.toNat g2
    (fun bm boff hi hfit => by
      have := smix_sse_bytes bm.1 boff r.toUInt64 N bm.2 0 (32 * r.toNat * N.toNat) n (by rw [hr64]; exact g2)
        (by rw [hr64]; exact g7) gN gn1 (by omega) (by rw [hr64]; omega) (by rw [hr64, hi]; omega) (by rw [hr64]; exact hfit)
      rw [hr64] at this
      exact ⟨this.1, by rw [this.2, hi]⟩)
    ((Scrypt.pbkdf2HmacSha256 mac pw salt 1 (128 * r.toNat * p.toNat)).toArray,
      Array.replicate ((128 * r.toUInt64 * N + (256 * r.toUInt64 + 64)) / 4).toNat 0)
    (by simp only [Array.size_replicate]; exact hMsz)
    (by simp only [List.size_toArray]; exact pbkdf2_length mac hlen pw salt 1 _)
  simp only [] at hgen
  -- second PBKDF2
  rw [pbkdf2_spec H mac pw _ 1 buflen _ m1 (m2 _) hlen (by decide) (by simp)]
  have hb : ¬ buflen > 0x1fffffffe0 := by
    rw [gt_iff_lt, UInt64.lt_iff_toNat_lt]
    have e : (0x1fffffffe0 : UInt64).toNat = 0x1fffffffe0 := rfl
    rw [e]; omega
  rw [if_neg hb]
  simp only [show (1 : UInt64).toNat = 1 from rfl]
  rw [scrypt_assemble mac pw salt r.toNat N.toNat p.toNat buflen.toNat g2 _ (pbkdf2_length mac hlen pw salt 1 _) hgen]

/-- `escrypt_kdf_nosse` when all parameter tests pass, the two size additions do not wrap and the allocation succeeds -/
theorem kdf_nosse_ok {σ : Type} (H : HashOps σ) (mac : Bytes → Bytes → Bytes) (pw salt : Bytes)
    (m1 : ∀ U, hmacFinal H (hmacUpdate H (hmacInit H pw) U) = mac pw U)
    (m2 : ∀ salt iv, hmacFinal H (hmacUpdate H (hmacUpdate H (hmacInit H pw) salt) iv) = mac pw (salt ++ iv))
    (hlen : ∀ k m, (mac k m).length = 32) (allocOk : UInt64 → Bool) (N : UInt64) (r p : UInt32) (buflen : UInt64)
    (hchk : KdfChecksPass N r p buflen)
    (hw1 : ¬ 128 * r.toUInt64 * p.toUInt64 + 128 * r.toUInt64 * N < 128 * r.toUInt64 * N)
    (hw2 : ¬ 128 * r.toUInt64 * p.toUInt64 + 128 * r.toUInt64 * N + (256 * r.toUInt64 + 64) < 256 * r.toUInt64 + 64)
    (hal : allocOk (128 * r.toUInt64 * p.toUInt64 + 128 * r.toUInt64 * N + (256 * r.toUInt64 + 64)) = true) :
    ScryptRef.escrypt_kdf_nosse H allocOk pw salt N r p buflen =
      { rc := 0, out := Scrypt.scrypt mac pw salt N.toNat r.toNat p.toNat buflen.toNat } := by
  obtain ⟨g1, g2, g3, g4, ⟨n, gN, gn1, gn⟩, g6, g7⟩ := kdf_guards_aux N r p buflen hchk
  obtain ⟨c1, c2, c3, c4, c5, c6⟩ := hchk
  have hr32 := r.toNat_lt
  have hp32 := p.toNat_lt
  have hr64 : r.toUInt64.toNat = r.toNat := UInt32.toNat_toUInt64 r
  have hp64 : p.toUInt64.toNat = p.toNat := UInt32.toNat_toUInt64 p
  have hBs : (128 * r.toUInt64 * p.toUInt64).toNat = 128 * r.toNat * p.toNat := by
    rw [mul3 128 _ _ 128 rfl (by rw [hr64, hp64]; exact g6) (by omega), hr64, hp64]
  have hVs : (128 * r.toUInt64 * N).toNat = 128 * r.toNat * N.toNat := by
    have : 1 ≤ N.toNat := by rw [gN]; exact Nat.pow_pos (by decide)
    rw [mul3 128 _ _ 128 rfl (by rw [hr64]; exact g7) this, hr64]
  have hXYs : (256 * r.toUInt64 + 64).toNat = 256 * r.toNat + 64 := by
    rw [UInt64.toNat_add, UInt64.toNat_mul, hr64]; simp only [UInt64.toNat_ofNat, Nat.reducePow, Nat.reduceMod]; omega
  have nw1 := no_wrap _ _ hw1
  have nw2 := no_wrap _ _ hw2
  rw [nw1, hBs, hVs, hXYs] at nw2
  have hlt := (128 * r.toUInt64 * p.toUInt64 + 128 * r.toUInt64 * N + (256 * r.toUInt64 + 64)).toNat_lt
  rw [nw2] at hlt
  have eV : 128 * r.toNat * N.toNat = 4 * (32 * r.toNat * N.toNat) := by rw [← Nat.mul_assoc, ← Nat.mul_assoc]
  have hMsz : (128 * r.toUInt64 * N / 4).toNat = 32 * r.toNat * N.toNat := by
    rw [UInt64.toNat_div, hVs]; simp only [UInt64.toNat_ofNat, Nat.reducePow, Nat.reduceMod]; omega
  have hXsz : (32 * r.toUInt64).toNat = 32 * r.toNat := by
    rw [UInt64.toNat_mul, hr64]; simp only [UInt64.toNat_ofNat, Nat.reducePow, Nat.reduceMod]; omega
  unfold ScryptRef.escrypt_kdf_nosse
  simp only []
  rw [if_neg c1, if_neg c2, if_neg c3, if_neg c4, if_neg c5, if_neg c6, if_neg hw1, if_neg hw2, hal]
  simp only [Bool.not_true, Bool.false_eq_true, if_false]
  -- first PBKDF2
  rw [pbkdf2_spec H mac pw salt 1 _ _ m1 (m2 salt) hlen (by decide) (by simp)]
  have hB37 : ¬ 128 * r.toUInt64 * p.toUInt64 > 0x1fffffffe0 := by
    rw [gt_iff_lt, UInt64.lt_iff_toNat_lt, hBs]
    have e : (0x1fffffffe0 : UInt64).toNat = 0x1fffffffe0 := rfl
    have : 128 * r.toNat * p.toNat = 128 * (r.toNat * p.toNat) := Nat.mul_assoc _ _ _
    rw [e]; omega
  rw [if_neg hB37]
  simp only [hBs, show (1 : UInt64).toNat = 1 from rfl]
  -- the p-loop
  have hloop := forU32_eq_iter p.toUInt64
    (fun i (m : ScryptRef.Mem) => ScryptRef.smix m (128 * i.toUInt64 * r.toUInt64).toNat r.toUInt64 N)
    (fun j m => (fun (m : ScryptRef.Mem) (boff : Nat) => ScryptRef.smix m boff r.toUInt64 N) m (128 * r.toNat * j))
    (by rw [hp64]; exact hp32) p.toNat 0 p.toUInt64.toNat
    ⟨(Scrypt.pbkdf2HmacSha256 mac pw salt 1 (128 * r.toNat * p.toNat)).toArray,
      Array.replicate (128 * r.toUInt64 * N / 4).toNat 0, Array.replicate (32 * r.toUInt64).toNat 0,
      Array.replicate (32 * r.toUInt64).toNat 0, Array.replicate 16 0⟩
    (by rw [hp64]; omega) (by rw [hp64]; omega)
    (fun j _ hj m => by
      rw [poff r.toUInt64 j p.toNat (by omega) hp32 (by rw [hr64]; exact g6), hr64])
  rw [show UInt32.ofNat 0 = 0 from rfl] at hloop
  rw [hloop]
  have hgen := ploop_generic (fun (m : ScryptRef.Mem) (boff : Nat) => ScryptRef.smix m boff r.toUInt64 N) (fun m => m.B)
    (fun m => MemOK r.toUInt64 N m) r.toNat N.toNat p.toNat g2
    (fun m boff hi hfit => by
      have := smix_ref_bytes m boff r.toUInt64 N n (by rw [hr64]; exact g2)
        (by rw [hr64]; exact g7) gN gn1 (by omega) hi (by rw [hr64]; exact hfit)
      rw [hr64] at this
      exact this)
    ⟨(Scrypt.pbkdf2HmacSha256 mac pw salt 1 (128 * r.toNat * p.toNat)).toArray,
      Array.replicate (128 * r.toUInt64 * N / 4).toNat 0, Array.replicate (32 * r.toUInt64).toNat 0,
      Array.replicate (32 * r.toUInt64).toNat 0, Array.replicate 16 0⟩
    (by simp only [MemOK, Array.size_replicate, hMsz, hXsz, hr64]; exact ⟨trivial, trivial, trivial, trivial⟩)
    (by simp only [List.size_toArray]; exact pbkdf2_length mac hlen pw salt 1 _)
  simp only [] at hgen
  -- second PBKDF2
  rw [pbkdf2_spec H mac pw _ 1 buflen _ m1 (m2 _) hlen (by decide) (by simp)]
  have hb : ¬ buflen > 0x1fffffffe0 := by
    rw [gt_iff_lt, UInt64.lt_iff_toNat_lt]
    have e : (0x1fffffffe0 : UInt64).toNat = 0x1fffffffe0 := rfl
    rw [e]; omega
  rw [if_neg hb]
  simp only [show (1 : UInt64).toNat = 1 from rfl]
  rw [scrypt_assemble mac pw salt r.toNat N.toNat p.toNat buflen.toNat g2 _ (pbkdf2_length mac hlen pw salt 1 _) hgen]


end Sodium.ScryptSseP
