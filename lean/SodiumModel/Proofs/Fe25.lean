import Mathlib.Tactic.Ring
import SodiumModel.Model.Fe25
import SodiumModel.Proofs.Fe25Gen
import SodiumModel.Proofs.Fe51
set_option linter.unusedVariables false
/-
  Helper lemmas for `Properties/C10Fe25.lean`: the radix-2^25.5 limb arithmetic of
  `private/ed25519_ref10_fe_25_5.h` / `fe_25_5/fe.h` (`Model/Fe25.lean`, `Model/Fe25Gen.lean`) implements GF(2^255-19).

  Method: every function is cut into (1) the refinement of the fixed-width statements by the same statements over
  `Int` under interval bounds — i.e. no `int32_t`/`int64_t` overflow (`Proofs/Fe25Gen.lean`, generated, for
  `fe25519_mul`/`sq`/`sq2`/`mul32`/`frombytes`; by hand here for the rest), (2) the effect of the ideal statements on
  the weighted sum `valI`/`valA` (carries move value between neighbouring limbs; the wrap-around carry multiplies by 19
  and changes the sum by a multiple of p), (3) one polynomial identity 2^255 ≡ 19 (`ring`).
-/
open Sodium Sodium.Model Sodium.Model.Fe25 Sodium.Model.LadderRef10 Sodium.Spec Sodium.ScReduceP
namespace Sodium.Fe25P

/-! ### representation -/

/-- the limbs as integers -/
def toI (f : Fe) : FeI :=
  ⟨f.l0.toInt, f.l1.toInt, f.l2.toInt, f.l3.toInt, f.l4.toInt, f.l5.toInt, f.l6.toInt, f.l7.toInt, f.l8.toInt, f.l9.toInt⟩

/-- Σ x_i · 2^⌈25.5 i⌉ -/
def valI (x : FeI) : Int :=
  x.l0 + x.l1 * 2 ^ 26 + x.l2 * 2 ^ 51 + x.l3 * 2 ^ 77 + x.l4 * 2 ^ 102 + x.l5 * 2 ^ 128 + x.l6 * 2 ^ 153 +
    x.l7 * 2 ^ 179 + x.l8 * 2 ^ 204 + x.l9 * 2 ^ 230

/-- the same weighted sum of the ten `int64_t` accumulators -/
def valA (x : AccI) : Int :=
  x.h0 + x.h1 * 2 ^ 26 + x.h2 * 2 ^ 51 + x.h3 * 2 ^ 77 + x.h4 * 2 ^ 102 + x.h5 * 2 ^ 128 + x.h6 * 2 ^ 153 +
    x.h7 * 2 ^ 179 + x.h8 * 2 ^ 204 + x.h9 * 2 ^ 230

/-- the integer represented by ten signed limbs -/
def val (f : Fe) : Int := valI (toI f)

/-- the field prime as an integer -/
def P : Int := 2 ^ 255 - 19

/-- the field element represented by `f`: the canonical representative of `val f` modulo p -/
def fval (f : Fe) : Nat := (val f % P).toNat

/-- limb-wise bounds `|f_i| ≤ B_i` -/
def BndN (B : FeN) (f : Fe) : Prop := RF f (toI f) B

/-- `|f_i| ≤ Be` for even `i`, `|f_i| ≤ Bo` for odd `i` -/
def Bnd (Be Bo : Nat) (f : Fe) : Prop := BndN ⟨Be, Bo, Be, Bo, Be, Bo, Be, Bo, Be, Bo⟩ f

/-- the precondition of `fe25519_add`/`sub`/`neg` in the C comments: |f| ≤ 1.1·2^25, 1.1·2^24, … -/
def Tight (f : Fe) : Prop := Bnd 36909875 18454937 f
/-- the precondition of `fe25519_mul`/`sq`/`sq2` in the C comments: |f| ≤ 1.65·2^26, 1.65·2^25, … -/
def Loose (f : Fe) : Prop := Bnd 110729625 55364812 f
/-- what the carry chain of `fe25519_mul`/`sq`/`sq2` returns: |h| ≤ 2^25, 2^24 + 1036, 2^25, 2^24, … (within the
    postcondition 1.01·2^25, 1.01·2^24 of the C comments) -/
def Carried (f : Fe) : Prop := BndN B_ccout f

theorem RF.eq {f : Fe} {x : FeI} {B : FeN} (h : RF f x B) : x = toI f := by
  obtain ⟨x0, x1, x2, x3, x4, x5, x6, x7, x8, x9⟩ := x
  obtain ⟨h0, h1, h2, h3, h4, h5, h6, h7, h8, h9⟩ := h
  simp only [toI, h0.1, h1.1, h2.1, h3.1, h4.1, h5.1, h6.1, h7.1, h8.1, h9.1]

theorem RF.bnd {f : Fe} {x : FeI} {B : FeN} (h : RF f x B) : BndN B f := by
  have e := h.eq; subst e; exact h

theorem RF.mono {f : Fe} {x : FeI} {B B' : FeN} (h : RF f x B)
    (hb : B.l0 ≤ B'.l0 ∧ B.l1 ≤ B'.l1 ∧ B.l2 ≤ B'.l2 ∧ B.l3 ≤ B'.l3 ∧ B.l4 ≤ B'.l4 ∧ B.l5 ≤ B'.l5 ∧ B.l6 ≤ B'.l6 ∧
      B.l7 ≤ B'.l7 ∧ B.l8 ≤ B'.l8 ∧ B.l9 ≤ B'.l9) : RF f x B' :=
  ⟨R32_weaken h.l0 hb.1, R32_weaken h.l1 hb.2.1, R32_weaken h.l2 hb.2.2.1, R32_weaken h.l3 hb.2.2.2.1,
   R32_weaken h.l4 hb.2.2.2.2.1, R32_weaken h.l5 hb.2.2.2.2.2.1, R32_weaken h.l6 hb.2.2.2.2.2.2.1,
   R32_weaken h.l7 hb.2.2.2.2.2.2.2.1, R32_weaken h.l8 hb.2.2.2.2.2.2.2.2.1, R32_weaken h.l9 hb.2.2.2.2.2.2.2.2.2⟩

theorem RA.mono {a : Acc} {x : AccI} {B B' : AccN} (h : RA a x B)
    (hb : B.h0 ≤ B'.h0 ∧ B.h1 ≤ B'.h1 ∧ B.h2 ≤ B'.h2 ∧ B.h3 ≤ B'.h3 ∧ B.h4 ≤ B'.h4 ∧ B.h5 ≤ B'.h5 ∧ B.h6 ≤ B'.h6 ∧
      B.h7 ≤ B'.h7 ∧ B.h8 ≤ B'.h8 ∧ B.h9 ≤ B'.h9) : RA a x B' :=
  ⟨R_weaken h.h0 hb.1, R_weaken h.h1 hb.2.1, R_weaken h.h2 hb.2.2.1, R_weaken h.h3 hb.2.2.2.1,
   R_weaken h.h4 hb.2.2.2.2.1, R_weaken h.h5 hb.2.2.2.2.2.1, R_weaken h.h6 hb.2.2.2.2.2.2.1,
   R_weaken h.h7 hb.2.2.2.2.2.2.2.1, R_weaken h.h8 hb.2.2.2.2.2.2.2.2.1, R_weaken h.h9 hb.2.2.2.2.2.2.2.2.2⟩

theorem Bnd.mono {a b c d : Nat} {f : Fe} (h : Bnd a b f) (h1 : a ≤ c) (h2 : b ≤ d) : Bnd c d f :=
  RF.mono h ⟨h1, h2, h1, h2, h1, h2, h1, h2, h1, h2⟩

theorem Carried.bnd101 {f : Fe} (h : Carried f) : Bnd 33889976 16944988 f := RF.mono h (by decide)
theorem Carried.tight {f : Fe} (h : Carried f) : Tight f := RF.mono h (by decide)
theorem Tight.loose {f : Fe} (h : Tight f) : Loose f := Bnd.mono h (by decide) (by decide)
theorem Carried.loose {f : Fe} (h : Carried f) : Loose f := h.tight.loose

theorem loose_iff (f : Fe) : Loose f ↔ RF f (toI f) BLoose := Iff.rfl

/-! ### arithmetic modulo p: `Int` ↔ the specification's `Nat` -/

theorem P_pos : 0 < P := by decide
theorem P_cast : ((F25519.p : Nat) : Int) = P := by decide

theorem fval_cast (a : Int) : (((a % P).toNat : Nat) : Int) = a % P :=
  Int.toNat_of_nonneg (Int.emod_nonneg _ (by decide))

theorem fval_lt (a : Int) : (a % P).toNat < F25519.p := by
  have h1 := Int.emod_nonneg a (show P ≠ 0 by decide)
  have h2 := Int.emod_lt_of_pos a P_pos
  have : P = ((F25519.p : Nat) : Int) := P_cast.symm
  omega

theorem toNat_eq_of_cast {n : Nat} {a : Int} (h : (n : Int) = a) : a.toNat = n := by omega

theorem fmul_eq (a b : Int) : ((a * b) % P).toNat = F25519.mul (a % P).toNat (b % P).toNat := by
  apply toNat_eq_of_cast
  rw [F25519.mul, Int.natCast_mod, Int.natCast_mul, fval_cast, fval_cast, P_cast, ← Int.mul_emod]

theorem fadd_eq (a b : Int) : ((a + b) % P).toNat = F25519.add (a % P).toNat (b % P).toNat := by
  apply toNat_eq_of_cast
  rw [F25519.add, Int.natCast_mod, Int.natCast_add, fval_cast, fval_cast, P_cast, ← Int.add_emod]

theorem fsub_eq (a b : Int) : ((a - b) % P).toNat = F25519.sub (a % P).toNat (b % P).toNat := by
  have h1 := fval_lt a; have h2 := fval_lt b
  have e1 := fval_cast a; have e2 := fval_cast b
  generalize (a % P).toNat = u at *
  generalize (b % P).toNat = v at *
  rw [Int.sub_emod a b P, ← e1, ← e2, F25519.sub]
  apply toNat_eq_of_cast
  rw [Nat.mod_eq_of_lt h1, Nat.mod_eq_of_lt h2, Int.natCast_mod, P_cast]
  have hp : F25519.p = 2 ^ 255 - 19 := rfl
  have hP : P = 2 ^ 255 - 19 := rfl
  rw [hp] at h1 h2 ⊢; rw [hP]
  omega

theorem fneg_eq (a : Int) : ((-a) % P).toNat = F25519.neg (a % P).toNat := by
  have h := fsub_eq 0 a
  have e : (0 : Int) % P = 0 := by decide
  rw [Int.zero_sub, e] at h
  rw [h, F25519.sub, F25519.neg]
  simp

/-! ### fe25519_add, fe25519_sub, fe25519_neg -/

def addI (x y : FeI) : FeI :=
  ⟨x.l0 + y.l0, x.l1 + y.l1, x.l2 + y.l2, x.l3 + y.l3, x.l4 + y.l4, x.l5 + y.l5, x.l6 + y.l6, x.l7 + y.l7,
   x.l8 + y.l8, x.l9 + y.l9⟩
def subI (x y : FeI) : FeI :=
  ⟨x.l0 - y.l0, x.l1 - y.l1, x.l2 - y.l2, x.l3 - y.l3, x.l4 - y.l4, x.l5 - y.l5, x.l6 - y.l6, x.l7 - y.l7,
   x.l8 - y.l8, x.l9 - y.l9⟩
def negI (x : FeI) : FeI := ⟨-x.l0, -x.l1, -x.l2, -x.l3, -x.l4, -x.l5, -x.l6, -x.l7, -x.l8, -x.l9⟩

theorem valI_add (x y : FeI) : valI (addI x y) = valI x + valI y := by simp only [valI, addI]; ring
theorem valI_sub (x y : FeI) : valI (subI x y) = valI x - valI y := by simp only [valI, subI]; ring
theorem valI_neg (x : FeI) : valI (negI x) = -valI x := by simp only [valI, negI]; ring

theorem add_ref {f g : Fe} {a b c d : Nat} (hf : Bnd a b f) (hg : Bnd c d g) (h1 : a + c < 2 ^ 31)
    (h2 : b + d < 2 ^ 31) :
    RF (fe25519_add f g) (addI (toI f) (toI g)) ⟨a + c, b + d, a + c, b + d, a + c, b + d, a + c, b + d, a + c, b + d⟩ :=
  ⟨R32_add hf.l0 hg.l0 h1, R32_add hf.l1 hg.l1 h2, R32_add hf.l2 hg.l2 h1, R32_add hf.l3 hg.l3 h2,
   R32_add hf.l4 hg.l4 h1, R32_add hf.l5 hg.l5 h2, R32_add hf.l6 hg.l6 h1, R32_add hf.l7 hg.l7 h2,
   R32_add hf.l8 hg.l8 h1, R32_add hf.l9 hg.l9 h2⟩

theorem sub_ref {f g : Fe} {a b c d : Nat} (hf : Bnd a b f) (hg : Bnd c d g) (h1 : a + c < 2 ^ 31)
    (h2 : b + d < 2 ^ 31) :
    RF (fe25519_sub f g) (subI (toI f) (toI g)) ⟨a + c, b + d, a + c, b + d, a + c, b + d, a + c, b + d, a + c, b + d⟩ :=
  ⟨R32_sub hf.l0 hg.l0 h1, R32_sub hf.l1 hg.l1 h2, R32_sub hf.l2 hg.l2 h1, R32_sub hf.l3 hg.l3 h2,
   R32_sub hf.l4 hg.l4 h1, R32_sub hf.l5 hg.l5 h2, R32_sub hf.l6 hg.l6 h1, R32_sub hf.l7 hg.l7 h2,
   R32_sub hf.l8 hg.l8 h1, R32_sub hf.l9 hg.l9 h2⟩

theorem neg_ref {f : Fe} {a b : Nat} (hf : Bnd a b f) (h1 : a < 2 ^ 31) (h2 : b < 2 ^ 31) :
    RF (fe25519_neg f) (negI (toI f)) ⟨a, b, a, b, a, b, a, b, a, b⟩ :=
  ⟨R32_neg hf.l0 h1, R32_neg hf.l1 h2, R32_neg hf.l2 h1, R32_neg hf.l3 h2, R32_neg hf.l4 h1, R32_neg hf.l5 h2,
   R32_neg hf.l6 h1, R32_neg hf.l7 h2, R32_neg hf.l8 h1, R32_neg hf.l9 h2⟩

/-- `fe25519_add`: exact limb-wise sum, no `int32_t` overflow when the bounds add up below 2^31 -/
theorem add_spec {f g : Fe} {a b c d : Nat} (hf : Bnd a b f) (hg : Bnd c d g) (h1 : a + c < 2 ^ 31)
    (h2 : b + d < 2 ^ 31) :
    Bnd (a + c) (b + d) (fe25519_add f g) ∧ val (fe25519_add f g) = val f + val g := by
  have h := add_ref hf hg h1 h2
  exact ⟨h.bnd, by rw [val, ← h.eq, valI_add]; rfl⟩

theorem sub_spec {f g : Fe} {a b c d : Nat} (hf : Bnd a b f) (hg : Bnd c d g) (h1 : a + c < 2 ^ 31)
    (h2 : b + d < 2 ^ 31) :
    Bnd (a + c) (b + d) (fe25519_sub f g) ∧ val (fe25519_sub f g) = val f - val g := by
  have h := sub_ref hf hg h1 h2
  exact ⟨h.bnd, by rw [val, ← h.eq, valI_sub]; rfl⟩

theorem neg_spec {f : Fe} {a b : Nat} (hf : Bnd a b f) (h1 : a < 2 ^ 31) (h2 : b < 2 ^ 31) :
    Bnd a b (fe25519_neg f) ∧ val (fe25519_neg f) = -val f := by
  have h := neg_ref hf h1 h2
  exact ⟨h.bnd, by rw [val, ← h.eq, valI_neg]; rfl⟩

/-! ### fe25519_mul, fe25519_sq, fe25519_sq2: the value of the ideal statements -/

/-- the multiple of p removed by the 19× / 38× pre-multiplications: Σ_{i+j ≥ 10} x_i y_j 2^(w_i + w_j - 255) -/
def mulQ (x y : FeI) : Int :=
  2 * x.l1 * y.l9 + x.l2 * y.l8 + x.l2 * y.l9 * 2 ^ 26 + 2 * x.l3 * y.l7 + x.l3 * y.l8 * 2 ^ 26 + 2 * x.l3 * y.l9 * 2 ^ 51 + x.l4 * y.l6 + x.l4 * y.l7 * 2 ^ 26 + x.l4 * y.l8 * 2 ^ 51 + x.l4 * y.l9 * 2 ^ 77 + 2 * x.l5 * y.l5 + x.l5 * y.l6 * 2 ^ 26 + 2 * x.l5 * y.l7 * 2 ^ 51 + x.l5 * y.l8 * 2 ^ 77 + 2 * x.l5 * y.l9 * 2 ^ 102 + x.l6 * y.l4 + x.l6 * y.l5 * 2 ^ 26 + x.l6 * y.l6 * 2 ^ 51 + x.l6 * y.l7 * 2 ^ 77 + x.l6 * y.l8 * 2 ^ 102 + x.l6 * y.l9 * 2 ^ 128 + 2 * x.l7 * y.l3 + x.l7 * y.l4 * 2 ^ 26 + 2 * x.l7 * y.l5 * 2 ^ 51 + x.l7 * y.l6 * 2 ^ 77 + 2 * x.l7 * y.l7 * 2 ^ 102 + x.l7 * y.l8 * 2 ^ 128 + 2 * x.l7 * y.l9 * 2 ^ 153 + x.l8 * y.l2 + x.l8 * y.l3 * 2 ^ 26 + x.l8 * y.l4 * 2 ^ 51 + x.l8 * y.l5 * 2 ^ 77 + x.l8 * y.l6 * 2 ^ 102 + x.l8 * y.l7 * 2 ^ 128 + x.l8 * y.l8 * 2 ^ 153 + x.l8 * y.l9 * 2 ^ 179 + 2 * x.l9 * y.l1 + x.l9 * y.l2 * 2 ^ 26 + 2 * x.l9 * y.l3 * 2 ^ 51 + x.l9 * y.l4 * 2 ^ 77 + 2 * x.l9 * y.l5 * 2 ^ 102 + x.l9 * y.l6 * 2 ^ 128 + 2 * x.l9 * y.l7 * 2 ^ 153 + x.l9 * y.l8 * 2 ^ 179 + 2 * x.l9 * y.l9 * 2 ^ 204

/-- 2^255 ≡ 19: the weighted sum of the ten accumulators represents the product -/
theorem mul_accI_val (x y : FeI) : valA (mul_accI x y) = valI x * valI y - mulQ x y * P := by
  simp only [mul_accI, valA, valI, mulQ, P]
  ring

/-- the accumulators of `fe25519_sq` are those of `fe25519_mul(f, f)` (as integers) -/
theorem sq_accI_eq (x : FeI) : sq_accI x = mul_accI x x := by
  simp only [sq_accI, mul_accI, AccI.mk.injEq]
  refine ⟨?_, ?_, ?_, ?_, ?_, ?_, ?_, ?_, ?_, ?_⟩ <;> ring

theorem sq2_dblI_val (y : AccI) : valA (sq2_dblI y) = 2 * valA y := by
  simp only [sq2_dblI, valA]; ring

theorem cc1I_val (y : AccI) : valA (cc1I y) = valA y := by simp only [cc1I, valA]; ring
theorem cc2I_val (y : AccI) : valA (cc2I y) = valA y := by simp only [cc2I, valA]; ring
theorem cc3I_val (y : AccI) : valA (cc3I y) = valA y := by simp only [cc3I, valA]; ring
theorem cc4I_val (y : AccI) : valA (cc4I y) = valA y := by simp only [cc4I, valA]; ring
theorem cc5I_val (y : AccI) : valA (cc5I y) = valA y := by simp only [cc5I, valA]; ring
theorem cc6I_val (y : AccI) : valA (cc6I y) = valA y - (y.h9 + 16777216) / 33554432 * P := by
  simp only [cc6I, valA, P]; ring
theorem cc7I_val (y : AccI) : valA (cc7I y) = valA y := by simp only [cc7I, valA]; ring
theorem acc_storeI_val (y : AccI) : valI (acc_storeI y) = valA y := rfl

/-- the carry chain changes the weighted sum by a multiple of p (the wrap-around carry `carry9 * 19`) -/
theorem carry_chainI_val (y : AccI) : ∃ c : Int, valI (carry_chainI y) = valA y - c * P :=
  ⟨((cc5I (cc4I (cc3I (cc2I (cc1I y))))).h9 + 16777216) / 33554432, by
    rw [carry_chainI, acc_storeI_val, cc7I_val, cc6I_val, cc5I_val, cc4I_val, cc3I_val, cc2I_val, cc1I_val]⟩

theorem emod_sub_mul (a c : Int) : (a - c * P) % P = a % P := Int.sub_mul_emod_self_right _ _ _

/-! ### fe25519_mul -/

theorem mul_spec {f g : Fe} (hf : Loose f) (hg : Loose g) :
    Carried (fe25519_mul f g) ∧ val (fe25519_mul f g) % P = (val f * val g) % P := by
  have h1 := mul_acc_ref hf hg
  have h2 := carry_chain_ref (h1.mono (by decide))
  refine ⟨h2.bnd, ?_⟩
  obtain ⟨c, hc⟩ := carry_chainI_val (mul_accI (toI f) (toI g))
  have e : val (fe25519_mul f g) = valI (carry_chainI (mul_accI (toI f) (toI g))) := congrArg valI h2.eq.symm
  rw [e, hc, mul_accI_val, emod_sub_mul, emod_sub_mul]; rfl

theorem sq_spec {f : Fe} (hf : Loose f) :
    Carried (fe25519_sq f) ∧ val (fe25519_sq f) % P = (val f * val f) % P := by
  have h1 := sq_acc_ref hf
  have h2 := carry_chain_ref (h1.mono (by decide))
  refine ⟨h2.bnd, ?_⟩
  obtain ⟨c, hc⟩ := carry_chainI_val (sq_accI (toI f))
  have e : val (fe25519_sq f) = valI (carry_chainI (sq_accI (toI f))) := congrArg valI h2.eq.symm
  rw [e, hc, sq_accI_eq, mul_accI_val, emod_sub_mul, emod_sub_mul]; rfl

theorem sq2_spec {f : Fe} (hf : Loose f) :
    Carried (fe25519_sq2 f) ∧ val (fe25519_sq2 f) % P = (2 * (val f * val f)) % P := by
  have h1 := sq2_dbl_ref (sq_acc_ref hf)
  have h2 := carry_chain_ref (h1.mono (by decide))
  refine ⟨h2.bnd, ?_⟩
  obtain ⟨c, hc⟩ := carry_chainI_val (sq2_dblI (sq_accI (toI f)))
  have e : val (fe25519_sq2 f) = valI (carry_chainI (sq2_dblI (sq_accI (toI f)))) := congrArg valI h2.eq.symm
  have e2 : 2 * (valI (toI f) * valI (toI f) - mulQ (toI f) (toI f) * P) =
      2 * (valI (toI f) * valI (toI f)) - 2 * mulQ (toI f) (toI f) * P := by ring
  rw [e, hc, sq2_dblI_val, sq_accI_eq, mul_accI_val, emod_sub_mul, e2, emod_sub_mul]; rfl

/-! ### fe25519_mul32 -/

theorem m32_accI_val (x : FeI) (n : Int) : valA (m32_accI x n) = valI x * n := by
  simp only [m32_accI, valA, valI]; ring
theorem m32c1I_val (y : AccI) : valA (m32c1I y) = valA y - (y.h9 + 16777216) / 33554432 * P := by
  simp only [m32c1I, valA, P]; ring
theorem m32c2I_val (y : AccI) : valA (m32c2I y) = valA y := by simp only [m32c2I, valA]; ring

theorem sn_ref (n : UInt32) (hn : n.toNat ≤ 2 ^ 19) : R64 n.toUInt64.toInt64 (n.toNat : Int) 524288 := by
  have h : n.toUInt64.toNat = n.toNat := UInt32.toNat_toUInt64 n
  have e := toInt_toInt64_of_lt n.toUInt64 (by rw [h]; omega)
  rw [h] at e
  exact ⟨e, by omega, by omega⟩

/-- `fe25519_mul32` on a loose `f` and `n ≤ 2^19` (the library only ever passes 121666) -/
theorem mul32_spec {f : Fe} (n : UInt32) (hf : Loose f) (hn : n.toNat ≤ 2 ^ 19) :
    BndN B_m32out (fe25519_mul32 f n) ∧ val (fe25519_mul32 f n) % P = (val f * (n.toNat : Int)) % P := by
  have h1 := m32_acc_ref hf (sn_ref n hn)
  have h2 := m32_chain_ref h1
  refine ⟨h2.bnd, ?_⟩
  have e : val (fe25519_mul32 f n) = valI (m32_chainI (m32_accI (toI f) (n.toNat : Int))) := congrArg valI h2.eq.symm
  rw [e, m32_chainI, acc_storeI_val, m32c2I_val, m32c1I_val, m32_accI_val, emod_sub_mul]; rfl

theorem m32out_tight {f : Fe} (h : BndN B_m32out f) : Tight f := RF.mono h (by decide)

/-! ### fe25519_frombytes -/

/-- the ten loaded values as integers -/
def fb_loadsI (s : Bytes) : AccI :=
  ⟨(w4 s 0 : Nat), (w3 s 4 * 64 : Nat), (w3 s 7 * 32 : Nat), (w3 s 10 * 8 : Nat), (w3 s 13 * 4 : Nat), (w4 s 16 : Nat),
   (w3 s 20 * 128 : Nat), (w3 s 23 * 32 : Nat), (w3 s 26 * 16 : Nat), (w3 s 29 % 8388608 * 4 : Nat)⟩

theorem R64_ofU (v : UInt64) (n B : Nat) (h : v.toNat = n) (hb : n ≤ B) (hB : B < 2 ^ 63) : R64 v.toInt64 (n : Int) B := by
  have e := toInt_toInt64_of_lt v (by omega)
  rw [h] at e
  exact ⟨e, by omega, by omega⟩

theorem shl_toNat (v k : UInt64) (kn : Nat) (hk : k.toNat % 64 = kn) (h : v.toNat * 2 ^ kn < 2 ^ 64) :
    (v <<< k).toNat = v.toNat * 2 ^ kn := by
  rw [UInt64.toNat_shiftLeft, hk, Nat.shiftLeft_eq, Nat.mod_eq_of_lt h]

theorem and_mask23 (v : UInt64) : (v &&& 8388607).toNat = v.toNat % 8388608 := by
  rw [UInt64.toNat_and]; exact Nat.and_two_pow_sub_one_eq_mod v.toNat 23

theorem fb_loads_ref (s : Bytes) : RA (fb_loads s) (fb_loadsI s) B_fb := by
  have a0 := w4_lt s 0; have a5 := w4_lt s 16
  have a1 := w3_lt s 4; have a2 := w3_lt s 7; have a3 := w3_lt s 10; have a4 := w3_lt s 13
  have a6 := w3_lt s 20; have a7 := w3_lt s 23; have a8 := w3_lt s 26; have a9 := w3_lt s 29
  refine ⟨?_, ?_, ?_, ?_, ?_, ?_, ?_, ?_, ?_, ?_⟩ <;> dsimp only [fb_loads, fb_loadsI, B_fb]
  · exact R64_ofU _ _ _ (load_4_toNat s 0) (by omega) (by decide)
  · exact R64_ofU _ _ _ (by rw [shl_toNat _ _ 6 (by decide) (by rw [load_3_toNat]; omega), load_3_toNat]; omega) (by omega) (by decide)
  · exact R64_ofU _ _ _ (by rw [shl_toNat _ _ 5 (by decide) (by rw [load_3_toNat]; omega), load_3_toNat]; omega) (by omega) (by decide)
  · exact R64_ofU _ _ _ (by rw [shl_toNat _ _ 3 (by decide) (by rw [load_3_toNat]; omega), load_3_toNat]; omega) (by omega) (by decide)
  · exact R64_ofU _ _ _ (by rw [shl_toNat _ _ 2 (by decide) (by rw [load_3_toNat]; omega), load_3_toNat]; omega) (by omega) (by decide)
  · exact R64_ofU _ _ _ (load_4_toNat s 16) (by omega) (by decide)
  · exact R64_ofU _ _ _ (by rw [shl_toNat _ _ 7 (by decide) (by rw [load_3_toNat]; omega), load_3_toNat]; omega) (by omega) (by decide)
  · exact R64_ofU _ _ _ (by rw [shl_toNat _ _ 5 (by decide) (by rw [load_3_toNat]; omega), load_3_toNat]; omega) (by omega) (by decide)
  · exact R64_ofU _ _ _ (by rw [shl_toNat _ _ 4 (by decide) (by rw [load_3_toNat]; omega), load_3_toNat]; omega) (by omega) (by decide)
  · exact R64_ofU _ _ _ (by rw [shl_toNat _ _ 2 (by decide) (by rw [and_mask23, load_3_toNat]; omega), and_mask23, load_3_toNat]; omega) (by omega) (by decide)

theorem byteN_eq (s : Bytes) (j : Nat) : byteN s j = (s[j]!).toNat := by unfold byteN; rfl

theorem le_take_succ (s : Bytes) (n : Nat) : le (s.take (n + 1)) = byteN s 0 + 256 * le (s.tail.take n) := by
  cases s with
  | nil => simp [le, byteN_eq]; rfl
  | cons b t => simp [le, byteN_eq]

theorem byteN_tail (s : Bytes) (j : Nat) : byteN s.tail j = byteN s (j + 1) := by
  cases s with
  | nil => simp [byteN_eq]
  | cons b t => simp [byteN_eq]

/-- the little-endian value of the first 32 bytes (bytes beyond the end read as 0), any length -/
theorem le_take32 (s : Bytes) : le (s.take 32) = byteN s 0 + 256 * (byteN s 1 + 256 * (byteN s 2 + 256 * (byteN s 3 + 256 * (byteN s 4 + 256 * (byteN s 5 + 256 * (byteN s 6 + 256 * (byteN s 7 + 256 * (byteN s 8 + 256 * (byteN s 9 + 256 * (byteN s 10 + 256 * (byteN s 11 + 256 * (byteN s 12 + 256 * (byteN s 13 + 256 * (byteN s 14 + 256 * (byteN s 15 + 256 * (byteN s 16 + 256 * (byteN s 17 + 256 * (byteN s 18 + 256 * (byteN s 19 + 256 * (byteN s 20 + 256 * (byteN s 21 + 256 * (byteN s 22 + 256 * (byteN s 23 + 256 * (byteN s 24 + 256 * (byteN s 25 + 256 * (byteN s 26 + 256 * (byteN s 27 + 256 * (byteN s 28 + 256 * (byteN s 29 + 256 * (byteN s 30 + 256 * (byteN s 31))))))))))))))))))))))))))))))) := by
  simp only [le_take_succ, byteN_tail, List.take_zero, le, Nat.zero_add, Nat.reduceAdd, Nat.mul_zero, Nat.add_zero]

/-- the ten loads cover bits 0 … 254 of the 32 bytes exactly once -/
theorem fb_loads_nat (s : Bytes) :
    w4 s 0 + w3 s 4 * 64 * 2 ^ 26 + w3 s 7 * 32 * 2 ^ 51 + w3 s 10 * 8 * 2 ^ 77 + w3 s 13 * 4 * 2 ^ 102 +
      w4 s 16 * 2 ^ 128 + w3 s 20 * 128 * 2 ^ 153 + w3 s 23 * 32 * 2 ^ 179 + w3 s 26 * 16 * 2 ^ 204 +
      w3 s 29 % 8388608 * 4 * 2 ^ 230 = le (s.take 32) % 2 ^ 255 := by
  rw [le_take32]
  simp only [w3, w4]
  have b0 := byteN_lt s 0
  have b1 := byteN_lt s 1
  have b2 := byteN_lt s 2
  have b3 := byteN_lt s 3
  have b4 := byteN_lt s 4
  have b5 := byteN_lt s 5
  have b6 := byteN_lt s 6
  have b7 := byteN_lt s 7
  have b8 := byteN_lt s 8
  have b9 := byteN_lt s 9
  have b10 := byteN_lt s 10
  have b11 := byteN_lt s 11
  have b12 := byteN_lt s 12
  have b13 := byteN_lt s 13
  have b14 := byteN_lt s 14
  have b15 := byteN_lt s 15
  have b16 := byteN_lt s 16
  have b17 := byteN_lt s 17
  have b18 := byteN_lt s 18
  have b19 := byteN_lt s 19
  have b20 := byteN_lt s 20
  have b21 := byteN_lt s 21
  have b22 := byteN_lt s 22
  have b23 := byteN_lt s 23
  have b24 := byteN_lt s 24
  have b25 := byteN_lt s 25
  have b26 := byteN_lt s 26
  have b27 := byteN_lt s 27
  have b28 := byteN_lt s 28
  have b29 := byteN_lt s 29
  have b30 := byteN_lt s 30
  have b31 := byteN_lt s 31
  generalize byteN s 0 = c0 at *
  generalize byteN s 1 = c1 at *
  generalize byteN s 2 = c2 at *
  generalize byteN s 3 = c3 at *
  generalize byteN s 4 = c4 at *
  generalize byteN s 5 = c5 at *
  generalize byteN s 6 = c6 at *
  generalize byteN s 7 = c7 at *
  generalize byteN s 8 = c8 at *
  generalize byteN s 9 = c9 at *
  generalize byteN s 10 = c10 at *
  generalize byteN s 11 = c11 at *
  generalize byteN s 12 = c12 at *
  generalize byteN s 13 = c13 at *
  generalize byteN s 14 = c14 at *
  generalize byteN s 15 = c15 at *
  generalize byteN s 16 = c16 at *
  generalize byteN s 17 = c17 at *
  generalize byteN s 18 = c18 at *
  generalize byteN s 19 = c19 at *
  generalize byteN s 20 = c20 at *
  generalize byteN s 21 = c21 at *
  generalize byteN s 22 = c22 at *
  generalize byteN s 23 = c23 at *
  generalize byteN s 24 = c24 at *
  generalize byteN s 25 = c25 at *
  generalize byteN s 26 = c26 at *
  generalize byteN s 27 = c27 at *
  generalize byteN s 28 = c28 at *
  generalize byteN s 29 = c29 at *
  generalize byteN s 30 = c30 at *
  generalize byteN s 31 = c31 at *
  omega

theorem fb_loadsI_val (s : Bytes) : valA (fb_loadsI s) = ((le (s.take 32) % 2 ^ 255 : Nat) : Int) := by
  rw [← fb_loads_nat]
  simp only [fb_loadsI, valA]
  push_cast
  ring

theorem fbc1I_val (y : AccI) : valA (fbc1I y) = valA y - (y.h9 + 16777216) / 33554432 * P := by
  simp only [fbc1I, valA, P]; ring
theorem fbc2I_val (y : AccI) : valA (fbc2I y) = valA y := by simp only [fbc2I, valA]; ring

theorem fval_nat (n : Nat) : ((n : Int) % P).toNat = n % F25519.p := by
  apply toNat_eq_of_cast
  rw [Int.natCast_mod, P_cast]

/-- `fe25519_frombytes`: bit 255 is ignored, the result is carried, for every byte string -/
theorem frombytes_spec (s : Bytes) :
    BndN B_fbout (fe25519_frombytes s) ∧
    val (fe25519_frombytes s) % P = ((le (s.take 32) % 2 ^ 255 : Nat) : Int) % P := by
  have h2 := fb_chain_ref (fb_loads_ref s)
  refine ⟨h2.bnd, ?_⟩
  have e : val (fe25519_frombytes s) = valI (fb_chainI (fb_loadsI s)) := congrArg valI h2.eq.symm
  rw [e, fb_chainI, acc_storeI_val, fbc2I_val, fbc1I_val, fb_loadsI_val, emod_sub_mul]

theorem fbout_tight {f : Fe} (h : BndN B_fbout f) : Tight f := RF.mono h (by decide)

end Sodium.Fe25P
