import SodiumModel.Model.Secretstream
import SodiumModel.Proofs.Utils
/-
  Helper lemmas for C09 (secretstream).
-/
open Sodium Sodium.Model
namespace Sodium

end Sodium
