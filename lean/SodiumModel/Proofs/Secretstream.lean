import SodiumModel.Model.Secretstream
import SodiumModel.Proofs.Utils
import SodiumModel.Properties.C14
/-
  Helper lemmas for C09 (secretstream).
-/
open Sodium Sodium.Model
namespace Sodium

/-! ### xorBytes -/

theorem ss_xorBytes_length : ∀ a b : Bytes, (xorBytes a b).length = min a.length b.length
  | [], _ => by simp [xorBytes]
  | _ :: _, [] => by simp [xorBytes]
  | x :: xs, y :: ys => by simp [xorBytes, ss_xorBytes_length xs ys, Nat.succ_min_succ]

/-- XOR with the same keystream twice is the identity -/
theorem xorBytes_cancel : ∀ a k : Bytes, a.length ≤ k.length → xorBytes (xorBytes a k) k = a
  | [], _, _ => by simp [xorBytes]
  | x :: xs, [], h => by simp at h
  | x :: xs, y :: ys, h => by
    have ih := xorBytes_cancel xs ys (by simpa using h)
    simp [xorBytes, ih, UInt8.xor_assoc]

/-! ### list splitting -/

theorem split3 (a c t : Bytes) (n : Nat) (ha : a.length = 1) (hc : c.length = n) :
    (a ++ c ++ t).take 1 = a ∧ ((a ++ c ++ t).drop 1).take n = c ∧ (a ++ c ++ t).drop (1 + n) = t := by
  refine ⟨?_, ?_, ?_⟩
  · rw [List.append_assoc, List.take_left' ha]
  · rw [List.append_assoc, List.drop_left' ha, List.take_left' hc]
  · rw [List.drop_left' (by simp [ha, hc])]

/-! ### the tag block -/

theorem block_roundtrip (tag : UInt8) (z ks : Bytes) (h : 1 ≤ ks.length) :
    (xorBytes ((xorBytes (tag :: z) ks).take 1 ++ z) ks).headD 0 = tag ∧
    (xorBytes (tag :: z) ks).take 1 ++ (xorBytes ((xorBytes (tag :: z) ks).take 1 ++ z) ks).drop 1
      = xorBytes (tag :: z) ks := by
  cases ks with
  | nil => simp at h
  | cons k0 kt => simp [xorBytes, UInt8.xor_assoc]

theorem block_take1_length (tag : UInt8) (z ks : Bytes) (h : 1 ≤ ks.length) :
    ((xorBytes (tag :: z) ks).take 1).length = 1 := by
  cases ks with
  | nil => simp at h
  | cons k0 kt => simp [xorBytes]

/-! ### state shapes -/
namespace SSP
open Sodium.Model.SS

theorem counter_length (s : State) (h : s.nonce.length = 12) : (counter s).length = 4 := by
  simp [counter, h]

theorem inonce_length (s : State) (h : s.nonce.length = 12) : (inonce s).length = 8 := by
  simp [inonce, h]

theorem rekey_shape (P : Prims) (hks : ∀ k n ic len, (P.ks k n ic len).length = len) (s : State)
    (hk : s.k.length = 32) (hn : s.nonce.length = 12) :
    (rekey P s).k.length = 32 ∧ (rekey P s).nonce.length = 12 := by
  have hi := inonce_length s hn
  simp only [rekey]
  constructor
  · simp [ss_xorBytes_length, hks, hk, hi]
  · simp [ss_xorBytes_length, hks, hk, hi]

theorem advance_shape (P : Prims) (hks : ∀ k n ic len, (P.ks k n ic len).length = len) (s : State)
    (hk : s.k.length = 32) (hn : s.nonce.length = 12) (mac : Bytes) (hm : mac.length = 16) (tag : UInt8) :
    (advance P s mac tag).k.length = 32 ∧ (advance P s mac tag).nonce.length = 12 := by
  have hi := inonce_length s hn
  have hc := counter_length s hn
  have h1 : (sodium_increment_generic (counter s) ++ xorBytes (inonce s) (mac.take 8)).length = 12 := by
    simp [sodium_increment_generic, incLoop_length, ss_xorBytes_length, hi, hc, hm]
  simp only [advance]
  split
  · exact rekey_shape P hks _ hk h1
  · exact ⟨hk, h1⟩

theorem push_shape (P : Prims) (hks : ∀ k n ic len, (P.ks k n ic len).length = len)
    (hmac : ∀ k d, (P.mac k d).length = 16) (s : State)
    (hk : s.k.length = 32) (hn : s.nonce.length = 12) (m ad : Bytes) (tag : UInt8) :
    (push P s m ad tag).1.k.length = 32 ∧ (push P s m ad tag).1.nonce.length = 12 :=
  advance_shape P hks s hk hn _ (hmac _ _) tag

/-! ### pull ∘ push -/

theorem pull_push (P : Prims) (hks : ∀ k n ic len, (P.ks k n ic len).length = len)
    (hmac : ∀ k d, (P.mac k d).length = 16) (s : State) (m ad : Bytes) (tag : UInt8) :
    pull P s (push P s m ad tag).2 ad = .ok (push P s m ad tag).1 m tag := by
  have hk1 : 1 ≤ (P.ks s.k s.nonce 1 64).length := by rw [hks]; omega
  have hb1 := block_take1_length tag (zeros 63) (P.ks s.k s.nonce 1 64) hk1
  obtain ⟨hr1, hr2⟩ := block_roundtrip tag (zeros 63) (P.ks s.k s.nonce 1 64) hk1
  have hc : (xorBytes m (P.ks s.k s.nonce 2 m.length)).length = m.length := by
    simp [ss_xorBytes_length, hks]
  have hdec : xorBytes (xorBytes m (P.ks s.k s.nonce 2 m.length)) (P.ks s.k s.nonce 2 m.length) = m :=
    xorBytes_cancel _ _ (by rw [hks]; omega)
  simp only [push]
  generalize hblock : xorBytes (tag :: zeros 63) (P.ks s.k s.nonce 1 64) = block at *
  generalize hcc : xorBytes m (P.ks s.k s.nonce 2 m.length) = c at *
  generalize hmm : P.mac (List.take 32 (P.ks s.k s.nonce 0 64)) (macInput ad block c) = mac
  have hml : mac.length = 16 := by rw [← hmm]; exact hmac _ _
  obtain ⟨h1, h2, h3⟩ := split3 (block.take 1) c mac m.length hb1 hc
  have hlen : (block.take 1 ++ c ++ mac).length - 17 = m.length := by
    simp only [List.length_append, hb1, hc, hml]; omega
  have hlt : ¬ (block.take 1 ++ c ++ mac).length < 17 := by
    simp only [List.length_append, hb1, hc, hml]; omega
  unfold pull
  rw [if_neg hlt]
  simp only [hlen, h1, h2, h3, hr1, hr2, hmm, hdec]
  rw [C14.memcmp_exact mac mac rfl]
  simp

/-! ### acceptance -/

theorem pull_accept_mac (P : Prims) (hmac : ∀ k d, (P.mac k d).length = 16) (s s' : State)
    (inp ad m : Bytes) (tag : UInt8) (h : pull P s inp ad = .ok s' m tag) :
    17 ≤ inp.length ∧
    inp.drop (inp.length - 16) =
      P.mac ((P.ks s.k s.nonce 0 64).take 32)
        (macInput ad (inp.take 1 ++ (xorBytes (inp.take 1 ++ zeros 63) (P.ks s.k s.nonce 1 64)).drop 1)
          ((inp.drop 1).take (inp.length - 17))) := by
  unfold pull at h
  split at h
  · cases h
  · rename_i hlen
    simp only [] at h
    split at h
    · cases h
    · rename_i hcmp
      refine ⟨by omega, ?_⟩
      have he : 1 + (inp.length - 17) = inp.length - 16 := by omega
      rw [he] at hcmp
      rw [C14.memcmp_exact _ _ (by rw [hmac, List.length_drop]; omega)] at hcmp
      split at hcmp
      · rename_i heq; exact heq.symm
      · exact absurd (by decide) hcmp

/-! ### MAC input encoding -/

theorem toLE8_inj (a b : Nat) (ha : a < 2 ^ 64) (hb : b < 2 ^ 64) (h : toLE 8 a = toLE 8 b) : a = b := by
  have := congrArg le h
  rw [le_toLE, le_toLE] at this
  omega

theorem macInput_injective (ad ad' b b' c c' : Bytes) (hb : b.length = 64) (hb' : b'.length = 64)
    (hl : ad.length < 2 ^ 64 ∧ ad'.length < 2 ^ 64 ∧ c.length < 2 ^ 64 - 64 ∧ c'.length < 2 ^ 64 - 64)
    (h : macInput ad b c = macInput ad' b' c') : ad = ad' ∧ b = b' ∧ c = c' := by
  obtain ⟨h1, h2, h3, h4⟩ := hl
  simp only [macInput] at h
  obtain ⟨h, hc⟩ := List.append_inj' h (by simp [toLE_length])
  obtain ⟨h, ha⟩ := List.append_inj' h (by simp [toLE_length])
  have hal : ad.length = ad'.length := toLE8_inj _ _ h1 h2 ha
  have hcl : c.length = c'.length := by
    have := toLE8_inj _ _ (by omega) (by omega) hc
    omega
  rw [hal, hcl] at h
  obtain ⟨h, _⟩ := List.append_inj' h rfl
  obtain ⟨h, hc⟩ := List.append_inj' h hcl
  obtain ⟨h, hb⟩ := List.append_inj' h (by omega)
  obtain ⟨h, _⟩ := List.append_inj' h rfl
  exact ⟨h, hb, hc⟩

/-! ### counter arithmetic -/

theorem increment4 (c : Bytes) (hc : c.length = 4) :
    sodium_increment_generic c = toLE 4 ((le c + 1) % 2 ^ 32) := by
  have h := C14.increment_generic_exact c
  apply le_inj _ _ (by rw [h.1, hc, toLE_length])
  rw [h.2, le_toLE, hc]
  have : (le c + 1) % 2 ^ 32 < 2 ^ 32 := Nat.mod_lt _ (by decide)
  omega

theorem toLE4_zero_iff (v : Nat) (hv : v < 2 ^ 32) : toLE 4 v = zeros 4 ↔ v = 0 := by
  constructor
  · intro h
    have := congrArg le h
    rw [le_toLE] at this
    have hz : le (zeros 4) = 0 := by decide
    omega
  · rintro rfl; decide

theorem is_zero_toLE4 (v : Nat) (hv : v < 2 ^ 32) : sodium_is_zero (toLE 4 v) = 1 ↔ v = 0 := by
  rw [C14.is_zero_exact, toLE_length, ← toLE4_zero_iff v hv]
  split <;> simp [*]

theorem advance_eq (P : Prims) (s : State) (hn : s.nonce.length = 12) (mac : Bytes) (tag : UInt8) :
    advance P s mac tag =
      let s1 : State := ⟨s.k, toLE 4 ((le (counter s) + 1) % 2 ^ 32) ++ xorBytes (inonce s) (mac.take 8)⟩
      if (tag &&& 0x02) ≠ 0 ∨ (le (counter s) + 1) % 2 ^ 32 = 0 then SS.rekey P s1 else s1 := by
  have hc := counter_length s hn
  have hv : (le (counter s) + 1) % 2 ^ 32 < 2 ^ 32 := Nat.mod_lt _ (by decide)
  simp only [advance, increment4 _ hc]
  have hcnt : counter { k := s.k, nonce := toLE 4 ((le (counter s) + 1) % 2 ^ 32) ++ xorBytes (inonce s) (mac.take 8) }
      = toLE 4 ((le (counter s) + 1) % 2 ^ 32) := by
    simp only [counter]; rw [List.take_left' (toLE_length _ _)]
  rw [hcnt]
  simp only [is_zero_toLE4 _ hv]

theorem counter_wrap (P : Prims) (s : State) (hn : s.nonce.length = 12) (mac : Bytes) (tag : UInt8)
    (hc : counter s = [0xff, 0xff, 0xff, 0xff]) :
    advance P s mac tag = SS.rekey P ⟨s.k, zeros 4 ++ xorBytes (inonce s) (mac.take 8)⟩ := by
  have hle : (le (counter s) + 1) % 2 ^ 32 = 0 := by rw [hc]; decide
  rw [advance_eq P s hn mac tag]
  simp only [hle, or_true, if_true]
  rfl

theorem counter_rekey (P : Prims) (s : State) : counter (SS.rekey P s) = [1, 0, 0, 0] := rfl

end SSP

end Sodium
