import Mathlib.RingTheory.AdjoinRoot
import Mathlib.Algebra.CharP.Two
import Mathlib.Tactic.ComputeDegree
import Mathlib.Tactic.LinearCombination
import Mathlib.Data.ZMod.Basic
import SodiumModel.Model.GcmAesni
/-
  GF(2)[x] as bit strings: `phi : Nat → (ZMod 2)[X]` (bit k ↦ x^k) turns XOR into +, `<<<` into ·x^k and the carry-less
  product `clmulNat` (the PCLMULQDQ semantics) into ·; it is injective.  `K = (ZMod 2)[X] / (Q)`,
  Q = x^128 + x^127 + x^126 + x^121 + 1 (the bit-reflection of the GCM polynomial x^128 + x^7 + x^2 + x + 1), `kap = mk ∘ phi`
  is injective on 128-bit numbers and x is a unit (`u = x⁻¹`).
  C side, as exact polynomial identities: `polyI (clmul128 a b) = phi a · phi b`, `polyI (clsq128 a) = (phi a)²`,
  `x^128 · phi (gcm_reduce w) = polyI w + m·Q` (a two-step Montgomery reduction).   Mathlib: Polynomial, AdjoinRoot.
-/

open Polynomial
namespace Sodium.GcmAesniP.GF
open Sodium.Model.GcmAesni

abbrev P2 := Polynomial (ZMod 2)

noncomputable def psi (k n : Nat) : P2 := ∑ i ∈ Finset.range k, if n.testBit i then X ^ i else 0
noncomputable def phi (n : Nat) : P2 := psi n n

theorem psi_succ (k n : Nat) : psi (k + 1) n = psi k n + (if n.testBit k then X ^ k else 0) := by
  simp [psi, Finset.sum_range_succ]

theorem psi_add (k j n : Nat) (h : n < 2 ^ k) : psi (k + j) n = psi k n := by
  induction j with
  | zero => rfl
  | succ j ih =>
    rw [← Nat.add_assoc, psi_succ, ih]
    have : n.testBit (k + j) = false := Nat.testBit_lt_two_pow (Nat.lt_of_lt_of_le h (Nat.pow_le_pow_right (by decide) (by omega)))
    simp [this]

theorem psi_eq_phi (k n : Nat) (h : n < 2 ^ k) : psi k n = phi n := by
  unfold phi
  rcases Nat.le_total k n with hk | hk
  · obtain ⟨j, rfl⟩ := Nat.exists_eq_add_of_le hk
    exact (psi_add k j _ h).symm
  · obtain ⟨j, rfl⟩ := Nat.exists_eq_add_of_le hk
    exact psi_add n j n Nat.lt_two_pow_self

theorem two_eq_zero : (2 : P2) = 0 := CharTwo.two_eq_zero

theorem add_self (p : P2) : p + p = 0 := by
  linear_combination p * two_eq_zero

theorem psi_xor (k a b : Nat) : psi k (a ^^^ b) = psi k a + psi k b := by
  unfold psi
  rw [← Finset.sum_add_distrib]
  apply Finset.sum_congr rfl
  intro i _
  rw [Nat.testBit_xor]
  cases a.testBit i <;> cases b.testBit i <;> simp [add_self]

theorem phi_xor (a b : Nat) : phi (a ^^^ b) = phi a + phi b := by
  have ha : a < 2 ^ (a + b) := Nat.lt_of_lt_of_le Nat.lt_two_pow_self (Nat.pow_le_pow_right (by decide) (by omega))
  have hb : b < 2 ^ (a + b) := Nat.lt_of_lt_of_le Nat.lt_two_pow_self (Nat.pow_le_pow_right (by decide) (by omega))
  rw [← psi_eq_phi (a + b) _ (Nat.xor_lt_two_pow ha hb), psi_xor, psi_eq_phi _ _ ha, psi_eq_phi _ _ hb]

theorem psi_shift (k s a : Nat) : psi (k + s) (a <<< s) = X ^ s * psi k a := by
  induction k with
  | zero =>
    simp only [Nat.zero_add]
    have : psi 0 a = 0 := by simp [psi]
    rw [this, mul_zero]
    unfold psi
    apply Finset.sum_eq_zero
    intro i hi
    have : i < s := Finset.mem_range.mp hi
    simp [Nat.testBit_shiftLeft, this]
  | succ k ih =>
    have : k + 1 + s = (k + s) + 1 := by omega
    rw [this, psi_succ, ih, psi_succ, mul_add]
    congr 1
    simp [Nat.testBit_shiftLeft]
    cases a.testBit k <;> simp [pow_add, mul_comm]

theorem phi_shift (s a : Nat) : phi (a <<< s) = X ^ s * phi a := by
  have ha : a < 2 ^ a := Nat.lt_two_pow_self
  rw [← psi_eq_phi a a ha, ← psi_shift, psi_eq_phi]
  rw [Nat.shiftLeft_eq, Nat.pow_add]
  exact Nat.mul_lt_mul_of_lt_of_le ha (Nat.le_refl _) (Nat.two_pow_pos _)

theorem phi_zero : phi 0 = 0 := by simp [phi, psi]

theorem phi_clmul (n x y : Nat) : phi (clmulNat n x y) = psi n x * phi y := by
  induction n with
  | zero => simp [clmulNat, phi_zero, psi]
  | succ n ih =>
    rw [clmulNat, phi_xor, ih, psi_succ, add_mul]
    congr 1
    cases x.testBit n <;> simp [phi_zero, phi_shift]

theorem psi_coeff (k n i : Nat) : (psi k n).coeff i = if i < k ∧ n.testBit i then 1 else 0 := by
  unfold psi
  rw [Polynomial.finsetSum_coeff]
  simp only [apply_ite (fun p : P2 => p.coeff i), coeff_X_pow, coeff_zero]
  by_cases h : i < k
  · rw [Finset.sum_eq_single i]
    · simp [h]
    · intro b _ hb; simp [Ne.symm hb]
    · intro hi; exact absurd (Finset.mem_range.mpr h) hi
  · simp only [h, false_and, if_false]
    apply Finset.sum_eq_zero
    intro b hb
    have : b < k := Finset.mem_range.mp hb
    have : i ≠ b := by omega
    simp [this]

theorem phi_coeff (n i : Nat) : (phi n).coeff i = if n.testBit i then 1 else 0 := by
  unfold phi
  rw [psi_coeff]
  by_cases h : i < n
  · simp [h]
  · have : n.testBit i = false := Nat.testBit_lt_two_pow (Nat.lt_of_lt_of_le Nat.lt_two_pow_self (Nat.pow_le_pow_right (by decide) (by omega)))
    simp [this]

theorem phi_inj {a b : Nat} (h : phi a = phi b) : a = b := by
  apply Nat.eq_of_testBit_eq
  intro i
  have := congrArg (fun p : P2 => p.coeff i) h
  simp only [phi_coeff] at this
  cases ha : a.testBit i <;> cases hb : b.testBit i <;> simp_all

theorem phi_degree_lt {a k : Nat} (h : a < 2 ^ k) : (phi a).degree < k := by
  rw [Polynomial.degree_lt_iff_coeff_zero]
  intro m hm
  rw [phi_coeff]
  have : a.testBit m = false := Nat.testBit_lt_two_pow (Nat.lt_of_lt_of_le h (Nat.pow_le_pow_right (by decide) hm))
  simp [this]


/-! ### the field -/
noncomputable def Q : P2 := X ^ 128 + X ^ 127 + X ^ 126 + X ^ 121 + 1
theorem Q_def : Q = X ^ 128 + X ^ 127 + X ^ 126 + X ^ 121 + 1 := by unfold Q; rfl
theorem Q_degree : Q.degree = 128 := by unfold Q; compute_degree!
theorem Q_monic : Q.Monic := by unfold Q; monicity!
attribute [irreducible] Q
abbrev K := AdjoinRoot Q
noncomputable def kap (n : Nat) : K := AdjoinRoot.mk Q (phi n)
noncomputable def x : K := AdjoinRoot.root Q

theorem K_two : (2 : K) = 0 := by
  have := congrArg (AdjoinRoot.mk Q) two_eq_zero
  rwa [map_ofNat, map_zero] at this
theorem K_add_self (a : K) : a + a = 0 := by linear_combination a * K_two

theorem kap_xor (a b : Nat) : kap (a ^^^ b) = kap a + kap b := by simp [kap, phi_xor]
theorem kap_zero : kap 0 = 0 := by simp [kap, phi_zero]
theorem kap_shift (s a : Nat) : kap (a <<< s) = x ^ s * kap a := by
  simp [kap, phi_shift, x]

theorem kap_inj {a b : Nat} (ha : a < 2 ^ 128) (hb : b < 2 ^ 128) (h : kap a = kap b) : a = b := by
  unfold kap at h
  rw [AdjoinRoot.mk_eq_mk, CharTwo.sub_eq_add, ← phi_xor] at h
  have hlt : a ^^^ b < 2 ^ 128 := Nat.xor_lt_two_pow ha hb
  have hdeg : (phi (a ^^^ b)).degree < Q.degree := by
    rw [Q_degree]; exact_mod_cast phi_degree_lt hlt
  have h0 : phi (a ^^^ b) = 0 := by
    by_contra hne
    exact Polynomial.Monic.not_dvd_of_degree_lt Q_monic hne hdeg h
  rw [← phi_zero] at h0
  have := phi_inj h0
  exact Nat.eq_of_testBit_eq fun i => by
    have h1 := congrArg (fun n => n.testBit i) this
    simp only [Nat.testBit_xor, Nat.zero_testBit] at h1
    cases ha : a.testBit i <;> cases hb : b.testBit i <;> simp_all

def Qn : Nat := 2 ^ 128 + 2 ^ 127 + 2 ^ 126 + 2 ^ 121 + 1
theorem phi_one : phi 1 = 1 := by simp [phi, psi]
theorem phi_two_pow (k : Nat) : phi (2 ^ k) = X ^ k := by
  have : 2 ^ k = 1 <<< k := by simp [Nat.shiftLeft_eq]
  rw [this, phi_shift, phi_one, mul_one]
theorem phi_Qn : phi Qn = Q := by
  have : Qn = 2 ^ 128 ^^^ 2 ^ 127 ^^^ 2 ^ 126 ^^^ 2 ^ 121 ^^^ 1 := by decide +kernel
  rw [this, phi_xor, phi_xor, phi_xor, phi_xor, phi_two_pow, phi_two_pow, phi_two_pow, phi_two_pow, phi_one]
  rw [Q_def]
theorem kap_Qn : kap Qn = 0 := by simp [kap, phi_Qn]

/-- x is invertible: u = x⁻¹ -/
noncomputable def u : K := kap (Qn / 2)
theorem x_mul_u : x * u = 1 := by
  have h1 : (Qn / 2) <<< 1 = Qn ^^^ 1 := by decide +kernel
  have := kap_shift 1 (Qn / 2)
  rw [h1, kap_xor, kap_Qn] at this
  have h2 : kap 1 = 1 := by simp [kap, phi_one]
  rw [h2] at this
  simp only [pow_one, zero_add] at this
  exact this.symm


/-! ### the C side: clmul128 / clsq128 / gcm_reduce as polynomial identities -/


theorem nat_hl (h l k : Nat) (hl : l < 2 ^ k) : 2 ^ k * h + l = (h <<< k) ^^^ l := by
  apply Nat.eq_of_testBit_eq
  intro j
  rw [Nat.testBit_two_pow_mul_add _ hl, Nat.testBit_xor, Nat.testBit_shiftLeft]
  by_cases hj : j < k
  · have : ¬ (j ≥ k) := by omega
    simp [hj, this]
  · have h1 : j ≥ k := by omega
    have : l.testBit j = false := Nat.testBit_lt_two_pow (Nat.lt_of_lt_of_le hl (Nat.pow_le_pow_right (by decide) h1))
    simp [hj, h1, this]

theorem phi_hl (h l k : Nat) (hl : l < 2 ^ k) : phi (2 ^ k * h + l) = X ^ k * phi h + phi l := by
  rw [nat_hl h l k hl, phi_xor, phi_shift]

theorem phi_split (n k : Nat) : phi n = X ^ k * phi (n / 2 ^ k) + phi (n % 2 ^ k) := by
  rw [← phi_hl _ _ k (Nat.mod_lt _ (Nat.two_pow_pos k)), Nat.div_add_mod]

theorem q0_toNat (a : BlockVec) : (q0 a).toNat = a.toNat % 2 ^ 64 := by
  simp [q0, UInt64.toNat_ofNat']
theorem q1_toNat (a : BlockVec) : (q1 a).toNat = a.toNat / 2 ^ 64 := by
  have := a.isLt
  simp [q1, UInt64.toNat_ofNat']
  omega

theorem ofQ_toNat (e1 e0 : UInt64) : (ofQ e1 e0).toNat = 2 ^ 64 * e1.toNat + e0.toNat := by
  have := e1.toNat_lt; have := e0.toNat_lt
  simp only [ofQ, BitVec.toNat_ofNat]
  omega

theorem clmulNat_lt (n x y m : Nat) (hy : y < 2 ^ m) : clmulNat n x y < 2 ^ (n + m) := by
  induction n with
  | zero => simp [clmulNat]
  | succ n ih =>
    rw [clmulNat]
    apply Nat.xor_lt_two_pow
    · exact Nat.lt_of_lt_of_le ih (Nat.pow_le_pow_right (by decide) (by omega))
    · split
      · rw [Nat.shiftLeft_eq]
        calc y * 2 ^ n < 2 ^ m * 2 ^ n := Nat.mul_lt_mul_of_pos_right hy (Nat.two_pow_pos _)
          _ = 2 ^ (n + m) := by rw [← Nat.pow_add, Nat.add_comm]
          _ ≤ 2 ^ (n + 1 + m) := Nat.pow_le_pow_right (by decide) (by omega)
      · exact Nat.two_pow_pos _

theorem phi_clmul64 (x y : Nat) (hx : x < 2 ^ 64) : phi (clmulNat 64 x y) = phi x * phi y := by
  rw [phi_clmul, psi_eq_phi 64 x hx]

/-- the four PCLMULQDQ selections -/
theorem clmul_toNat (a b : BlockVec) (imm : Nat) :
    (mm_clmulepi64_si128 a b imm).toNat =
      clmulNat 64 (if imm % 2 = 0 then a.toNat % 2 ^ 64 else a.toNat / 2 ^ 64)
        (if imm / 16 % 2 = 0 then b.toNat % 2 ^ 64 else b.toNat / 2 ^ 64) := by
  have ha := a.isLt; have hb := b.isLt
  unfold mm_clmulepi64_si128
  simp only [BitVec.toNat_ofNat]
  have h1 : (if imm % 2 = 0 then q0 a else q1 a).toNat = (if imm % 2 = 0 then a.toNat % 2 ^ 64 else a.toNat / 2 ^ 64) := by
    split <;> simp [q0_toNat, q1_toNat]
  have h2 : (if imm / 16 % 2 = 0 then q0 b else q1 b).toNat = (if imm / 16 % 2 = 0 then b.toNat % 2 ^ 64 else b.toNat / 2 ^ 64) := by
    split <;> simp [q0_toNat, q1_toNat]
  rw [h1, h2]
  apply Nat.mod_eq_of_lt
  apply clmulNat_lt 64 _ _ 64
  split <;> omega

theorem phi_CLMULLO (a b : BlockVec) : phi (CLMULLO128 a b).toNat = phi (a.toNat % 2 ^ 64) * phi (b.toNat % 2 ^ 64) := by
  rw [CLMULLO128, clmul_toNat]; exact phi_clmul64 _ _ (Nat.mod_lt _ (by decide))
theorem phi_CLMULHI (a b : BlockVec) : phi (CLMULHI128 a b).toNat = phi (a.toNat / 2 ^ 64) * phi (b.toNat / 2 ^ 64) := by
  have := a.isLt
  rw [CLMULHI128, clmul_toNat]; exact phi_clmul64 _ _ (by simp; omega)
theorem phi_CLMULLOHI (a b : BlockVec) : phi (CLMULLOHI128 a b).toNat = phi (a.toNat % 2 ^ 64) * phi (b.toNat / 2 ^ 64) := by
  rw [CLMULLOHI128, clmul_toNat]; exact phi_clmul64 _ _ (Nat.mod_lt _ (by decide))
theorem phi_CLMULHILO (a b : BlockVec) : phi (CLMULHILO128 a b).toNat = phi (a.toNat / 2 ^ 64) * phi (b.toNat % 2 ^ 64) := by
  have := a.isLt
  rw [CLMULHILO128, clmul_toNat]; exact phi_clmul64 _ _ (by simp; omega)

theorem XOR128_toNat (a b : BlockVec) : (XOR128 a b).toNat = a.toNat ^^^ b.toNat := by
  simp [XOR128, mm_xor_si128]

/-- the polynomial held by an `I256`: hi·x^128 + mid·x^64 + lo -/
noncomputable def polyI (u : I256) : P2 := X ^ 128 * phi u.hi.toNat + X ^ 64 * phi u.mid.toNat + phi u.lo.toNat

theorem polyI_clmul128 (a b : BlockVec) : polyI (clmul128 a b) = phi a.toNat * phi b.toNat := by
  unfold polyI clmul128
  simp only [XOR128_toNat, phi_xor, phi_CLMULLO, phi_CLMULHI, phi_CLMULLOHI, phi_CLMULHILO]
  rw [phi_split a.toNat 64, phi_split b.toNat 64]
  ring

theorem polyI_clsq128 (a : BlockVec) : polyI (clsq128 a) = phi a.toNat * phi a.toNat := by
  unfold polyI clsq128
  simp only [phi_CLMULLO, phi_CLMULHI]
  have hz : phi (ZERO128 : BlockVec).toNat = 0 := by simp [ZERO128, mm_setzero_si128, phi_zero]
  rw [hz, phi_split a.toNat 64]
  linear_combination (- X ^ 64 * phi (a.toNat / 2 ^ 64) * phi (a.toNat % 2 ^ 64)) * two_eq_zero


theorem BYTESHR128_8_toNat (m : BlockVec) : (BYTESHR128 m 8).toNat = m.toNat / 2 ^ 64 := by
  simp [BYTESHR128, mm_srli_si128, Nat.shiftRight_eq_div_pow]
theorem BYTESHL128_8_toNat (m : BlockVec) : (BYTESHL128 m 8).toNat = 2 ^ 64 * (m.toNat % 2 ^ 64) := by
  have := m.isLt
  simp [BYTESHL128, mm_slli_si128, Nat.shiftLeft_eq]
  omega
theorem swap64_toNat (v : BlockVec) : (SHUFFLE32x4 v 2 3 0 1).toNat = 2 ^ 64 * (v.toNat % 2 ^ 64) + v.toNat / 2 ^ 64 := by
  obtain ⟨l0, l1, l2, l3, h0, h1, h2, h3, hv⟩ : ∃ l0 l1 l2 l3 : Nat, l0 < 2 ^ 32 ∧ l1 < 2 ^ 32 ∧ l2 < 2 ^ 32 ∧ l3 < 2 ^ 32 ∧
      v.toNat = l0 + 2 ^ 32 * l1 + 2 ^ 64 * l2 + 2 ^ 96 * l3 :=
    ⟨v.toNat % 2 ^ 32, v.toNat / 2 ^ 32 % 2 ^ 32, v.toNat / 2 ^ 64 % 2 ^ 32, v.toNat / 2 ^ 96, by omega, by omega, by omega,
      by have := v.isLt; omega, by omega⟩
  have e0 : v.toNat % 2 ^ 32 = l0 := by omega
  have e1 : v.toNat / 2 ^ 32 % 2 ^ 32 = l1 := by omega
  have e2 : v.toNat / 2 ^ 64 % 2 ^ 32 = l2 := by omega
  have e3 : v.toNat / 2 ^ 96 % 2 ^ 32 = l3 := by omega
  have e4 : v.toNat % 2 ^ 64 = l0 + 2 ^ 32 * l1 := by omega
  have e5 : v.toNat / 2 ^ 64 = l2 + 2 ^ 32 * l3 := by omega
  have s0 : MM_SHUFFLE 1 0 3 2 % 4 = 2 := by decide
  have s1 : MM_SHUFFLE 1 0 3 2 / 4 % 4 = 3 := by decide
  have s2 : MM_SHUFFLE 1 0 3 2 / 16 % 4 = 0 := by decide
  have s3 : MM_SHUFFLE 1 0 3 2 / 64 % 4 = 1 := by decide
  simp only [SHUFFLE32x4, mm_shuffle_epi32, lane32, Nat.shiftRight_eq_div_pow, BitVec.toNat_ofNat, s0, s1, s2, s3,
    Nat.reduceMul, Nat.pow_zero, Nat.div_one, e0, e1, e2, e3]
  omega

/-- x^63 + x^62 + x^57 -/
noncomputable def pp : P2 := X ^ 63 + X ^ 62 + X ^ 57
theorem p64_lo : (SET64x2 0 0xc200000000000000).toNat % 2 ^ 64 = 2 ^ 63 ^^^ 2 ^ 62 ^^^ 2 ^ 57 := by
  decide +kernel
theorem pp_def : pp = X ^ 63 + X ^ 62 + X ^ 57 := by unfold pp; rfl
theorem phi_p64a : phi (2 ^ 63 ^^^ 2 ^ 62 ^^^ 2 ^ 57) = pp := by
  rw [phi_xor, phi_xor, phi_two_pow, phi_two_pow, phi_two_pow, pp_def]
theorem phi_p64 : phi ((SET64x2 0 0xc200000000000000).toNat % 2 ^ 64) = pp := by
  rw [p64_lo]; exact phi_p64a
theorem Q_pp : Q = X ^ 128 + X ^ 64 * pp + 1 := by
  rw [Q_def, pp_def]; ring

theorem phi_mul64 (n : Nat) : phi (2 ^ 64 * n) = X ^ 64 * phi n := by
  have := phi_hl n 0 64 (by decide)
  simpa [phi_zero] using this

theorem gcm_reduce_poly (u : I256) : ∃ m : P2, X ^ 128 * phi (gcm_reduce u).toNat = polyI u + m * Q := by
  dsimp only [gcm_reduce]
  generalize hhi : XOR128 u.hi (BYTESHR128 u.mid 8) = hi
  generalize hlo : XOR128 u.lo (BYTESHL128 u.mid 8) = lo
  generalize hb : XOR128 (SHUFFLE32x4 lo 2 3 0 1) (CLMULLO128 lo (SET64x2 0 0xc200000000000000)) = b
  have E0 : polyI u = X ^ 128 * phi hi.toNat + phi lo.toNat := by
    have hm := phi_split u.mid.toNat 64
    unfold polyI
    simp only [← hhi, ← hlo, XOR128_toNat, phi_xor, BYTESHR128_8_toNat, BYTESHL128_8_toNat, phi_mul64]
    rw [hm]
    ring
  have E1 : X ^ 64 * phi (b.toNat / 2 ^ 64) + phi (b.toNat % 2 ^ 64)
      = X ^ 64 * phi (lo.toNat % 2 ^ 64) + phi (lo.toNat / 2 ^ 64) + phi (lo.toNat % 2 ^ 64) * pp := by
    rw [← phi_split, ← hb, XOR128_toNat, phi_xor, swap64_toNat, phi_hl _ _ 64 (by have := lo.isLt; omega), phi_CLMULLO, phi_p64]
  refine ⟨phi (lo.toNat % 2 ^ 64) + X ^ 64 * phi (b.toNat % 2 ^ 64), ?_⟩
  simp only [XOR128_toNat, phi_xor, swap64_toNat, phi_CLMULLO, phi_p64]
  rw [phi_hl _ _ 64 (by have := b.isLt; omega), E0, phi_split lo.toNat 64, Q_pp]
  linear_combination X ^ 64 * E1 + (- phi (lo.toNat % 2 ^ 64) - X ^ 64 * phi (b.toNat % 2 ^ 64)) * two_eq_zero


end Sodium.GcmAesniP.GF
