import SodiumModel.Proofs.EdSign2Decode
import SodiumModel.Proofs.EdSignSlide
import SodiumModel.Proofs.EdSignFull
import SodiumModel.Properties.C06Ge
import SodiumModel.Properties.C07Reduce
/-
  The curve hypothesis `Faithful` (on top of `CurveGroup`), the specification's `scalarMult` under it, clamping,
  and keygen / sign of `Model/Ed25519Full.lean` against `Spec/Ed25519.lean`.
-/
open Sodium Sodium.Spec Sodium.Model Sodium.Model.Ge25519 Sodium.Model.Ed25519Full
open Sodium.Ge25519P (CurveGroup toPoint K)
open Sodium.ScalarmultLow (c_add c_mul c_sqr c_sub)
open Sodium.RistrettoRefP (F c_neg c_inv cast_inj normX mul_lt sqr_lt neg_lt)
open Sodium.Model.Sign (u8i i2u8)
namespace Sodium.EdSignP

/-- THE SECOND ASSUMPTION ABOUT THE CURVE (again a property of edwards25519, not of libsodium): the representation
    relation of `CurveGroup` is FAITHFUL — every representative of a group element is a projective point of the curve
    with consistent T and Z ≠ 0 (`Spec.Ed25519.isOnCurve`), and two representatives of the same element are the same
    projective point (`Spec.Ed25519.pointEq`: X₁Z₂ = X₂Z₁, Y₁Z₂ = Y₂Z₁).  Without it `CurveGroup` says nothing about
    bytes (its degenerate instance `Rep := True` identifies all points). -/
structure Faithful {G : Type} [AddCommGroup G] (C : CurveGroup G) : Prop where
  on_curve : ∀ {P : Ed25519.Point} {g : G}, C.Rep P g → Ed25519.isOnCurve P = true
  inj : ∀ {P Q : Ed25519.Point} {g : G}, C.Rep P g → C.Rep Q g → Ed25519.pointEq P Q = true

theorem isOnCurve_Z {P : Ed25519.Point} (h : Ed25519.isOnCurve P = true) : ((P.Z : Nat) : F) ≠ 0 := by
  unfold Ed25519.isOnCurve at h
  simp only [Bool.and_eq_true, bne_iff_ne] at h
  intro hz
  exact h.2 ((ZMod.natCast_eq_zero_iff _ _).1 hz |> Nat.mod_eq_zero_of_dvd)

/-- same projective point, nonzero Z: same affine coordinates, hence the same encoding -/
theorem toAffine_eq {P Q : Ed25519.Point} (hP : ((P.Z : Nat) : F) ≠ 0) (hQ : ((Q.Z : Nat) : F) ≠ 0)
    (h : Ed25519.pointEq P Q = true) : Ed25519.toAffine P = Ed25519.toAffine Q := by
  unfold Ed25519.pointEq at h
  simp only [Bool.and_eq_true, beq_iff_eq] at h
  have h1 := congrArg (Nat.cast : Nat → F) h.1
  have h2 := congrArg (Nat.cast : Nat → F) h.2
  simp only [c_mul] at h1 h2
  unfold Ed25519.toAffine
  refine Prod.ext ?_ ?_
  · apply cast_inj (mul_lt _ _) (mul_lt _ _)
    simp only [c_mul, c_inv]
    field_simp
    linear_combination h1
  · apply cast_inj (mul_lt _ _) (mul_lt _ _)
    simp only [c_mul, c_inv]
    field_simp
    linear_combination h2

theorem encode_eq {P Q : Ed25519.Point} (hP : Ed25519.isOnCurve P = true) (hQ : Ed25519.isOnCurve Q = true)
    (h : Ed25519.pointEq P Q = true) : Ed25519.encode P = Ed25519.encode Q := by
  unfold Ed25519.encode
  rw [toAffine_eq (isOnCurve_Z hP) (isOnCurve_Z hQ) h]

section
variable {G : Type} [AddCommGroup G] (C : CurveGroup G)

theorem rep_scalarMultLoop : ∀ (fuel s : Nat) (Q P : Ed25519.Point) (q g : G), s < 2 ^ fuel →
    C.Rep Q q → C.Rep P g → C.Rep (Ed25519.scalarMultLoop fuel s Q P) (q + s • g)
  | 0, s, Q, P, q, g, hs, hQ, _ => by
    have : s = 0 := by simpa using hs
    subst this; simpa [Ed25519.scalarMultLoop] using hQ
  | fuel + 1, s, Q, P, q, g, hs, hQ, hP => by
    unfold Ed25519.scalarMultLoop
    by_cases h0 : s = 0
    · subst h0; simpa using hQ
    · rw [if_neg h0]
      have hs2 : s / 2 < 2 ^ fuel := by rw [Nat.pow_succ] at hs; omega
      have key : ∀ q' : G, q' + (s / 2) • (g + g) = q' + (2 * (s / 2)) • g := by
        intro q'; rw [mul_smul, two_smul]
        rw [smul_add]
      by_cases h1 : s % 2 = 1
      · rw [if_pos h1]
        have := rep_scalarMultLoop fuel (s / 2) _ _ (q + g) (g + g) hs2 (C.rep_add hQ hP) (C.rep_double hP)
        rw [key] at this
        have e : q + g + (2 * (s / 2)) • g = q + s • g := by
          have hs' : s = 2 * (s / 2) + 1 := by omega
          conv_rhs => rw [hs', add_smul, one_smul]
          abel
        rwa [e] at this
      · rw [if_neg h1]
        have := rep_scalarMultLoop fuel (s / 2) _ _ q (g + g) hs2 hQ (C.rep_double hP)
        rw [key] at this
        have hs' : 2 * (s / 2) = s := by omega
        rwa [hs'] at this

/-- the specification's double-and-add `[n]P` represents n·g -/
theorem rep_scalarMult {P : Ed25519.Point} {g : G} (hP : C.Rep P g) (n : Nat) :
    C.Rep (Ed25519.scalarMult n P) (n • g) := by
  have := rep_scalarMultLoop C (n.log2 + 1) n Ed25519.identity P 0 g Nat.lt_log2_self C.rep_identity hP
  simpa [Ed25519.scalarMult] using this

end

/-! ### clamping -/

set_option maxRecDepth 100000 in
theorem clamp_bytes : ∀ z : UInt8,
    (i2u8 (u8i z &&& 248)).toNat = z.toNat - z.toNat % 8 ∧
    (i2u8 (u8i (i2u8 (u8i z &&& 127)) ||| 64)).toNat = z.toNat % 64 + 64 := by decide +kernel

theorem clamp32 (a z : UInt8) (mid : Bytes) (hm : mid.length = 30) :
    Sign.clamp (a :: (mid ++ [z])) =
      i2u8 (u8i a &&& 248) :: (mid ++ [i2u8 (u8i (i2u8 (u8i z &&& 127)) ||| 64)]) := by
  simp [Sign.clamp, hm, List.getD_eq_getElem?_getD, List.set_append_right, List.getElem?_append_right]

theorem take_clamp (k : Bytes) (hk : 32 ≤ k.length) : (Sign.clamp k).take 32 = Sign.clamp (k.take 32) := by
  have h1 : 31 < k.length := by omega
  have h2 : 31 < min 32 k.length := by omega
  simp [Sign.clamp, List.take_set, List.getD_eq_getElem?_getD, List.getElem?_take, List.getElem?_set, h1, h2]

theorem clamp_length (k : Bytes) : (Sign.clamp k).length = k.length := by simp [Sign.clamp]

/-- `_crypto_sign_ed25519_clamp` on the first 32 bytes is the RFC 8032 pruning; the top byte is ≤ 127 -/
theorem clamp_le (k : Bytes) (hk : 32 ≤ k.length) :
    le ((Sign.clamp k).take 32) = Ed25519.clamp k ∧ ((Sign.clamp k).take 32).length = 32 ∧
    (((Sign.clamp k).take 32).getD 31 0).toNat ≤ 127 := by
  rw [take_clamp k hk]
  have hl : (k.take 32).length = 32 := by simp; omega
  obtain ⟨a, mid, z, hm, hs⟩ := ScalarP.split32 _ hl
  unfold Ed25519.clamp
  dsimp only
  rw [hs, clamp32 _ _ _ hm, ScalarP.le_split32 _ _ _ hm, ScalarP.le_split32 _ _ _ hm]
  obtain ⟨c1, -⟩ := clamp_bytes a
  obtain ⟨-, c2⟩ := clamp_bytes z
  rw [c1, c2]
  have ha := a.toNat_lt; have hz := z.toNat_lt
  have hmid := le_lt mid; rw [hm] at hmid
  refine ⟨by omega, by simp [hm], ?_⟩
  have : (i2u8 (u8i a &&& 248) :: (mid ++ [i2u8 (u8i (i2u8 (u8i z &&& 127)) ||| 64)])).getD 31 0
      = i2u8 (u8i (i2u8 (u8i z &&& 127)) ||| 64) := by simp [hm]
  rw [this, c2]; omega

theorem top_le_127 (a : Bytes) (ha : a.length = 32) (h : le a < 2 ^ 255) : (a.getD 31 0).toNat ≤ 127 := by
  obtain ⟨x, mid, z, hm, rfl⟩ := ScalarP.split32 a ha
  have hg : (x :: (mid ++ [z])).getD 31 0 = z := by simp [hm]
  rw [ScalarP.le_split32 _ _ _ hm] at h
  rw [hg]; omega

/-! ### scalar multiplication of the base point, in bytes -/

section
variable {G : Type} [AddCommGroup G] (C : CurveGroup G)

theorem smb_encode (hF : Faithful C) {B : G} (hB : C.Rep Ed25519.basePoint B) (a : Bytes) (ha : a.length = 32)
    (h31 : (a.getD 31 0).toNat ≤ 127) :
    ge25519_p3_tobytes specGe (ge25519_scalarmult_base specGe a) =
      Ed25519.encode (Ed25519.scalarMult (le a) Ed25519.basePoint) := by
  rw [p3_tobytes_eq]
  have r1 := C06Ge.scalarmult_base_correct C hB a ha h31
  have r2 := rep_scalarMult C hB (le a)
  rw [← natCast_zsmul] at r2
  exact encode_eq (hF.on_curve r1) (hF.on_curve r2) (hF.inj r1 r2)

end

end Sodium.EdSignP
