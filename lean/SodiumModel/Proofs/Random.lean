import SodiumModel.Model.Random
import SodiumModel.Spec.Chacha
import SodiumModel.Proofs.Stream
import SodiumModel.Properties.C03
/-
  Helper lemmas for C18 (randomness). Put all lemmas in namespace Sodium.RandP.
-/
open Sodium Sodium.Model
namespace Sodium.RandP

/-! ### `randombytes_uniform`: the rejection threshold -/

theorem two_toNat : (2 : UInt32).toNat = 2 := rfl

theorem lt_two_iff (n : UInt32) : n < 2 ↔ n.toNat < 2 := by
  rw [UInt32.lt_iff_toNat_lt, two_toNat]

/-- `1U + ~n` is `2^32 − n` (mod 2^32) -/
theorem one_add_not_toNat (n : UInt32) : (1 + ~~~n).toNat = (2 ^ 32 - n.toNat) % 2 ^ 32 := by
  have h := n.toNat_lt
  rw [UInt32.toNat_add, UInt32.toNat_not]
  have h1 : (1 : UInt32).toNat = 1 := rfl
  have h2 : 1 + (UInt32.size - 1 - n.toNat) = 2 ^ 32 - n.toNat := by
    have : UInt32.size = 2 ^ 32 := rfl
    omega
  rw [h1, h2]

theorem sub_self_mod (N n : Nat) (h : n ≤ N) : (N - n) % n = N % n := by
  conv => rhs; rw [show N = (N - n) + n by omega, Nat.add_mod_right]

theorem uniformMin_toNat (n : UInt32) (hn : 1 ≤ n.toNat) :
    (uniformMin n).toNat = 2 ^ 32 % n.toNat := by
  have h := n.toNat_lt
  rw [uniformMin, UInt32.toNat_mod, one_add_not_toNat,
    Nat.mod_eq_of_lt (show 2 ^ 32 - n.toNat < 2 ^ 32 by omega), sub_self_mod _ _ (by omega)]

theorem mod_eq_ofNat (d n : UInt32) (hn : 1 ≤ n.toNat) : d % n = UInt32.ofNat (d.toNat % n.toNat) := by
  apply UInt32.toNat_inj.mp
  have h := n.toNat_lt
  have h2 : d.toNat % n.toNat < n.toNat := Nat.mod_lt _ (by omega)
  rw [UInt32.toNat_mod, UInt32.toNat_ofNat',
    Nat.mod_eq_of_lt (show d.toNat % n.toNat < 2 ^ 32 by omega)]

/-! ### the rejection loop -/

theorem uniformLoop_lt (n min : UInt32) (hn : 1 ≤ n.toNat) :
    ∀ (ds : List UInt32) (v : UInt32) (k : Nat), uniformLoop n min ds = some (v, k) → v.toNat < n.toNat
  | [], v, k, h => by simp [uniformLoop] at h
  | r :: rs, v, k, h => by
    rw [uniformLoop] at h
    by_cases hr : r < min
    · rw [if_pos hr] at h
      cases hl : uniformLoop n min rs with
      | none => rw [hl] at h; simp at h
      | some t =>
        rw [hl] at h
        simp only [Option.map_some, Option.some.injEq, Prod.mk.injEq] at h
        have := uniformLoop_lt n min hn rs t.1 t.2 hl
        rw [← h.1]; exact this
    · rw [if_neg hr] at h
      simp only [Option.some.injEq, Prod.mk.injEq] at h
      rw [← h.1, UInt32.toNat_mod]
      exact Nat.mod_lt _ (by omega)

theorem uniformLoop_accept (n min : UInt32) (d : UInt32) (post : List UInt32) (hd : ¬ d < min) :
    ∀ (pre : List UInt32), (∀ x ∈ pre, x < min) →
      uniformLoop n min (pre ++ d :: post) = some (d % n, pre.length + 1)
  | [], _ => by simp [uniformLoop, hd]
  | r :: rs, h => by
    have hr : r < min := h r (by simp)
    have ih := uniformLoop_accept n min d post hd rs (fun x hx => h x (by simp [hx]))
    simp [uniformLoop, hr, ih]

theorem uniformLoop_reject (n min : UInt32) :
    ∀ (ds : List UInt32), (∀ x ∈ ds, x < min) → uniformLoop n min ds = none
  | [], _ => rfl
  | r :: rs, h => by
    have hr : r < min := h r (by simp)
    have ih := uniformLoop_reject n min rs (fun x hx => h x (by simp [hx]))
    simp [uniformLoop, hr, ih]

/-! ### counting residues: exact uniformity (for an arbitrary modulus `N` of the draws) -/

theorem step_arith (n N v : Nat) (hn : 0 < n) (hv : v < n) :
    (N + 1) / n + (if v < (N + 1) % n then 1 else 0) =
      N / n + (if v < N % n then 1 else 0) + (if N % n = v then 1 else 0) := by
  have hr := Nat.mod_lt N hn
  have hN : N + 1 = n * (N / n) + (N % n + 1) := by have := Nat.div_add_mod N n; omega
  rw [hN, Nat.mul_add_div hn, Nat.mul_add_mod]
  generalize N % n = r at hr ⊢
  generalize N / n = q
  by_cases h : r + 1 < n
  · rw [Nat.div_eq_of_lt h, Nat.mod_eq_of_lt h]
    split <;> split <;> split <;> omega
  · have e : r + 1 = n := by omega
    rw [e, Nat.div_self hn, Nat.mod_self]
    split <;> split <;> split <;> omega

/-- among `0 … N−1`, residue `v` modulo `n` occurs `N / n` times, plus once if `v < N mod n` -/
theorem count_residue (n v : Nat) (hn : 0 < n) (hv : v < n) (N : Nat) :
    ((List.range N).filter fun r => decide (r % n = v)).length =
      N / n + (if v < N % n then 1 else 0) := by
  induction N with
  | zero => simp
  | succ N ih =>
    rw [List.range_succ, List.filter_append, List.length_append, ih, step_arith n N v hn hv]
    congr 1
    by_cases h : N % n = v <;> simp [h]

/-- EXACT UNIFORMITY, general modulus: among the draws `0 … N−1` the accepted ones (`N mod n ≤ r`)
    hit every residue `v < n` exactly `(N − N mod n) / n` times -/
theorem accepted_count (N n v : Nat) (hn : 0 < n) (hv : v < n) :
    ((List.range N).filter fun r => decide (N % n ≤ r) && decide (r % n = v)).length =
      (N - N % n) / n := by
  have hm : N % n ≤ N := Nat.mod_le _ _
  have hmn : N % n < n := Nat.mod_lt _ hn
  have hsplit : List.range N = List.range (N % n) ++ List.range' (N % n) (N - N % n) := by
    rw [List.range_eq_range', List.range_eq_range']
    have := List.range'_append_1 (s := 0) (m := N % n) (n := N - N % n)
    rw [Nat.zero_add, Nat.add_sub_cancel' hm] at this
    exact this.symm
  have hcN := count_residue n v hn hv N
  have hcm := count_residue n v hn hv (N % n)
  rw [Nat.mod_mod, Nat.div_eq_of_lt hmn] at hcm
  have h1 : (List.range (N % n)).filter (fun r => decide (N % n ≤ r) && decide (r % n = v)) = [] := by
    rw [List.filter_eq_nil_iff]
    intro a ha
    rw [List.mem_range] at ha
    simp; omega
  have h2 : (List.range' (N % n) (N - N % n)).filter (fun r => decide (N % n ≤ r) && decide (r % n = v)) =
      (List.range' (N % n) (N - N % n)).filter (fun r => decide (r % n = v)) := by
    apply List.filter_congr
    intro a ha
    rw [List.mem_range'_1] at ha
    simp [ha.1]
  have hdiv : (N - N % n) / n = N / n := by
    have : N - N % n = n * (N / n) := by have := Nat.div_add_mod N n; omega
    rw [this, Nat.mul_div_cancel_left _ hn]
  rw [hsplit, List.filter_append, List.length_append, hcm] at hcN
  rw [hsplit, List.filter_append, h1, h2, List.nil_append, hdiv]
  omega

/-! ### the deterministic generator -/

theorem drg_loop_eq (Bi : BlockFn) (hB : ∀ a b, (Bi a b).length = 64) (n0 : UInt32) (size : Nat)
    (h : size ≤ 2 ^ 38) :
    chacha_ietf_ext_xor_ic Bi n0 0 (zeros size) =
      Spec.Chacha.streamFrom (fun i => Bi (UInt32.ofNat i) n0) 0 size := by
  have hl : (zeros size).length = size := by simp [zeros]
  have h0 : (0 : UInt32).toNat = 0 := rfl
  have hs := streamFrom_length (fun i => Bi (UInt32.ofNat i) n0) (fun _ => hB _ _) 0 size
  rw [Nat.mul_zero] at hs
  rw [ietf_loop_eq Bi hB n0 0 (zeros size) (by rw [hl, h0]; omega), hl, h0, Nat.mul_zero,
    xorBytes_zeros_left, List.take_of_length_le (by omega)]

/-! ### scalar generation -/

theorem scalarRandomLoop_first (isCanon : Bytes → Bool) (mask : Bytes → Bytes)
    (hmask : ∀ x, mask x = x.take 31 ++ [(x.getD 31 0) &&& 0x1f]) (b : Bytes) (post : List Bytes)
    (hb : isCanon (mask b) = true ∧ (mask b).all (· == 0) = false) :
    ∀ (pre : List Bytes), (∀ x ∈ pre, isCanon (mask x) = false ∨ (mask x).all (· == 0) = true) →
      scalarRandomLoop isCanon (pre ++ b :: post) = some (mask b, pre.length + 1)
  | [], _ => by
    have h1 := hb.1; have h2 := hb.2
    rw [hmask] at h1 h2
    rw [List.nil_append, scalarRandomLoop]
    simp only [h1, h2, hmask]
    simp
  | r :: rs, h => by
    have hr := h r (by simp)
    rw [hmask] at hr
    have ih := scalarRandomLoop_first isCanon mask hmask b post hb rs (fun x hx => h x (by simp [hx]))
    rw [List.cons_append, scalarRandomLoop, ih]
    rcases hr with hr | hr <;> simp only [hr] <;> simp

end Sodium.RandP
