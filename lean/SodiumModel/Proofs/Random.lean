import SodiumModel.Model.Random
import SodiumModel.Spec.Chacha
import SodiumModel.Proofs.Stream
import SodiumModel.Properties.C03
/-
  Helper lemmas for C18 (randomness). Put all lemmas in namespace Sodium.RandP.
-/
open Sodium Sodium.Model
namespace Sodium.RandP

end Sodium.RandP
