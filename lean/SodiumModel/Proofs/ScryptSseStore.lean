import SodiumModel.Proofs.ScryptSseGlue
/-
  Helper lemmas for Properties/C08ScryptSse.lean, part 6: STORE32_LE loops (step 10 of both `smix` functions), the reference
  load loop, and both `smix` functions as functions on the bytes of `B`.
-/
namespace Sodium.ScryptSseP
open Sodium Sodium.Model Sodium.Model.ScryptSse Sodium.Spec Sodium.ScryptRefP
open Sodium.Model.ScryptRef (forU64 forU32 load32_le store32_le)

/-- byte `b` of a word as STORE32_LE writes it -/
def byteOf (w : UInt32) (b : Nat) : UInt8 := (Sodium.Model.CoresRef.store32_le w).getD b 0

theorem store32_le_iter (dst : Array UInt8) (off : Nat) (w : UInt32) :
    store32_le dst off w =
      iter (fun j d => d.setIfInBounds (off + j) ((fun j (_ : UInt8) => byteOf w j) j (d.getD (off + j) 0))) 4 0 dst := rfl

theorem store32_size (dst : Array UInt8) (off : Nat) (w : UInt32) : (store32_le dst off w).size = dst.size := by
  rw [store32_le_iter]; exact iter_set_size off (fun j (_ : UInt8) => byteOf w j) 0 4 0 dst

theorem store32_getD (dst : Array UInt8) (off : Nat) (w : UInt32) (u : Nat) (hfit : off + 4 ≤ dst.size) :
    (store32_le dst off w).getD u 0 = if off ≤ u ∧ u < off + 4 then byteOf w (u - off) else dst.getD u 0 := by
  rw [store32_le_iter, iter_set_getD off (fun j (_ : UInt8) => byteOf w j) 0 4 0 dst u]
  by_cases h : off ≤ u ∧ u < off + 4
  · rw [if_pos (by omega), if_pos h]
  · rw [if_neg (by omega), if_neg h]

/-- `B'` is `B` with the `4 * A.size` bytes at `boff` replaced by the little-endian bytes of the words of `A` -/
def Stored (B' B : Array UInt8) (boff : Nat) (A : Array UInt32) : Prop :=
  B'.size = B.size ∧ ∀ u, B'.getD u 0 =
    if boff ≤ u ∧ u < boff + 4 * A.size then byteOf (A.getD ((u - boff) / 4) 0) ((u - boff) % 4) else B.getD u 0

/-! ### the reference `smix`: load and store loops -/

theorem ref_load (B : Array UInt8) (boff : Nat) (r : UInt64) (X : Array UInt32) (hr4 : 128 * r.toNat < 2 ^ 64)
    (hX : X.size = 32 * r.toNat) :
    forU64 (32 * r) 1 (fun k X => X.setIfInBounds k.toNat (load32_le B (boff + (4 * k).toNat))) (32 * r).toNat 0 X =
      wordsLE B boff (32 * r.toNat) := by
  have hw : (32 * r).toNat = 32 * r.toNat := by u64
  rw [forU64_one (32 * r) _ (fun k X => X.setIfInBounds (0 + k) ((fun k (_ : UInt32) => load32_le B (boff + 4 * k)) k (X.getD (0 + k) 0)))
    _ X (Nat.le_refl _) (fun k hk X => by
      rw [hw] at hk
      have e1 : (UInt64.ofNat k).toNat = 0 + k := by u64
      have e2 : boff + (4 * UInt64.ofNat k).toNat = boff + 4 * k := by u64
      rw [e1, e2]), hw]
  apply ext_getD 0
  · rw [iter_set_size 0 (fun k (_ : UInt32) => load32_le B (boff + 4 * k)) 0, hX, wordsLE, Array.size_ofFn]
  · intro t ht
    rw [iter_set_size 0 (fun k (_ : UInt32) => load32_le B (boff + 4 * k)) 0, hX] at ht
    rw [iter_set_getD 0 (fun k (_ : UInt32) => load32_le B (boff + 4 * k)) 0, if_pos ⟨by omega, by omega, by omega⟩,
      wordsLE_getD _ _ _ _ ht]
    rfl

theorem ref_store (B : Array UInt8) (boff : Nat) (r : UInt64) (X : Array UInt32) (hr4 : 128 * r.toNat < 2 ^ 64)
    (hX : X.size = 32 * r.toNat) (hfit : boff + 128 * r.toNat ≤ B.size) :
    Stored (forU64 (32 * r) 1 (fun k B => store32_le B (boff + (4 * k).toNat) (X.getD k.toNat 0)) (32 * r).toNat 0 B) B boff X := by
  have hw : (32 * r).toNat = 32 * r.toNat := by u64
  rw [forU64_one (32 * r) _ (fun k B => store32_le B (boff + 4 * k) (X.getD k 0)) _ B (Nat.le_refl _) (fun k hk B => by
      rw [hw] at hk
      have e1 : (UInt64.ofNat k).toNat = k := by u64
      have e2 : boff + (4 * UInt64.ofNat k).toNat = boff + 4 * k := by u64
      rw [e1, e2]), hw]
  have hinv := iter_inv (fun k B => store32_le B (boff + 4 * k) (X.getD k 0))
    (fun k B' => B'.size = B.size ∧ ∀ u, B'.getD u 0 =
      if boff ≤ u ∧ u < boff + 4 * k then byteOf (X.getD ((u - boff) / 4) 0) ((u - boff) % 4) else B.getD u 0)
    (32 * r.toNat) 0 B ⟨rfl, fun u => by rw [if_neg (by omega)]⟩
    (fun k B' _ hk h => by
      obtain ⟨h1, h2⟩ := h
      refine ⟨by rw [store32_size, h1], fun u => ?_⟩
      rw [store32_getD _ _ _ _ (by omega)]
      by_cases hin : boff + 4 * k ≤ u ∧ u < boff + 4 * k + 4
      · rw [if_pos hin, if_pos (by omega)]
        have e1 : (u - boff) / 4 = k := by omega
        have e2 : (u - boff) % 4 = u - (boff + 4 * k) := by omega
        rw [e1, e2]
      · rw [if_neg hin, h2 u]
        by_cases h3 : boff ≤ u ∧ u < boff + 4 * k
        · rw [if_pos h3, if_pos (by omega)]
        · rw [if_neg h3, if_neg (by omega)])
  rw [Nat.zero_add] at hinv
  refine ⟨hinv.1, fun u => ?_⟩
  rw [hinv.2 u, hX]

/-! ### the SSE2 `smix`: step 10 -/

theorem perm_iff : ∀ w, w < 16 → ∀ i, i < 16 → (w * 13 % 16 = i ↔ w = i * 5 % 16) := by decide

/-- pass `k` of the outer store loop -/
def storeN (boff : Nat) (M : Array UInt32) (XY : Nat) (k : Nat) (B : Array UInt8) : Array UInt8 :=
  iter (fun i B => store32_le B (boff + 4 * (16 * k + i * 5 % 16)) (M.getD (XY + (16 * k + i)) 0)) 16 0 B

theorem smix_store_eq (B : Array UInt8) (boff : Nat) (r : UInt64) (M : Array UInt32) (XY : Nat) (hr4 : 128 * r.toNat < 2 ^ 64) :
    smix_store B boff r M XY = iter (storeN boff M XY) (2 * r.toNat) 0 B := by
  have h2r : (2 * r).toNat = 2 * r.toNat := by u64
  unfold smix_store
  rw [forU64_one (2 * r) _ (storeN boff M XY) _ B (Nat.le_refl _), h2r]
  intro k hk B
  rw [h2r] at hk
  unfold storeN
  apply forU64_one 16 _ _ 16 B (by decide)
  intro i hi B
  have hi : i < 16 := hi
  have e1 : XY + (UInt64.ofNat k * 16 + UInt64.ofNat i).toNat = XY + (16 * k + i) := by u64
  have h16 : (16 : UInt64).toNat = 16 := rfl
  have a1 : (UInt64.ofNat i * 5 % 16).toNat = i * 5 % 16 := by
    rw [UInt64.toNat_mod, h16, UInt64.toNat_mul, UInt64.toNat_ofNat']
    simp only [UInt64.toNat_ofNat, Nat.reducePow, Nat.reduceMod]
    omega
  have a2 : (UInt64.ofNat k * 16).toNat = 16 * k := by u64
  have a3 : i * 5 % 16 < 16 := Nat.mod_lt _ (by decide)
  have e2 : boff + ((UInt64.ofNat k * 16 + UInt64.ofNat i * 5 % 16) * 4).toNat = boff + 4 * (16 * k + i * 5 % 16) := by
    rw [UInt64.toNat_mul, UInt64.toNat_add, a1, a2]
    simp only [UInt64.toNat_ofNat, Nat.reducePow, Nat.reduceMod]
    omega
  rw [e1, e2]

theorem storeN_spec (boff : Nat) (M : Array UInt32) (XY : Nat) (A : Array UInt32) (R : Nat) (hA : A.size = 32 * R)
    (hrow : RowS M XY A) (k : Nat) (hk : k < 2 * R) (B : Array UInt8) (hfit : boff + 128 * R ≤ B.size) :
    (storeN boff M XY k B).size = B.size ∧ ∀ u, (storeN boff M XY k B).getD u 0 =
      if boff + 64 * k ≤ u ∧ u < boff + 64 * k + 64 then byteOf (A.getD ((u - boff) / 4) 0) ((u - boff) % 4) else B.getD u 0 := by
  have hinv := iter_inv (fun i B => store32_le B (boff + 4 * (16 * k + i * 5 % 16)) (M.getD (XY + (16 * k + i)) 0))
    (fun i B' => B'.size = B.size ∧ ∀ u, B'.getD u 0 =
      if boff + 64 * k ≤ u ∧ u < boff + 64 * k + 64 ∧ (u - boff - 64 * k) / 4 * 13 % 16 < i then
        byteOf (A.getD ((u - boff) / 4) 0) ((u - boff) % 4) else B.getD u 0)
    16 0 B ⟨rfl, fun u => by rw [if_neg (by omega)]⟩
    (fun i B' _ hi h => by
      obtain ⟨h1, h2⟩ := h
      have hi : i < 16 := by omega
      have a3 : i * 5 % 16 < 16 := Nat.mod_lt _ (by decide)
      have hval : M.getD (XY + (16 * k + i)) 0 = A.getD (16 * k + i * 5 % 16) 0 := by
        rw [hrow (16 * k + i) (by omega)]; congr 1; omega
      refine ⟨by rw [store32_size, h1], fun u => ?_⟩
      rw [store32_getD _ _ _ _ (by omega), hval]
      by_cases hin : boff + 4 * (16 * k + i * 5 % 16) ≤ u ∧ u < boff + 4 * (16 * k + i * 5 % 16) + 4
      · have e0 : (u - boff - 64 * k) / 4 = i * 5 % 16 := by omega
        have := perm_inv' i hi
        rw [if_pos hin, if_pos ⟨by omega, by omega, by rw [e0, this]; omega⟩]
        have e1 : (u - boff) / 4 = 16 * k + i * 5 % 16 := by omega
        have e2 : (u - boff) % 4 = u - (boff + 4 * (16 * k + i * 5 % 16)) := by omega
        rw [e1, e2]
      · rw [if_neg hin, h2 u]
        by_cases hblk : boff + 64 * k ≤ u ∧ u < boff + 64 * k + 64
        · have hw : (u - boff - 64 * k) / 4 < 16 := by omega
          have hne : (u - boff - 64 * k) / 4 ≠ i * 5 % 16 := by omega
          have := perm_iff _ hw i hi
          by_cases hlt : (u - boff - 64 * k) / 4 * 13 % 16 < i
          · rw [if_pos ⟨hblk.1, hblk.2, hlt⟩, if_pos ⟨hblk.1, hblk.2, by omega⟩]
          · rw [if_neg (by omega), if_neg (by omega)]
        · rw [if_neg (by omega), if_neg (by omega)])
  rw [Nat.zero_add] at hinv
  unfold storeN
  refine ⟨hinv.1, fun u => ?_⟩
  rw [hinv.2 u]
  by_cases hblk : boff + 64 * k ≤ u ∧ u < boff + 64 * k + 64
  · have : (u - boff - 64 * k) / 4 * 13 % 16 < 16 := Nat.mod_lt _ (by decide)
    rw [if_pos ⟨hblk.1, hblk.2, this⟩, if_pos hblk]
  · rw [if_neg (by omega), if_neg hblk]

theorem smix_store_spec (B : Array UInt8) (boff : Nat) (r : UInt64) (M : Array UInt32) (XY : Nat) (A : Array UInt32)
    (hr4 : 128 * r.toNat < 2 ^ 64) (hA : A.size = 32 * r.toNat) (hrow : RowS M XY A) (hfit : boff + 128 * r.toNat ≤ B.size) :
    Stored (smix_store B boff r M XY) B boff A := by
  rw [smix_store_eq B boff r M XY hr4]
  have hinv := iter_inv (storeN boff M XY)
    (fun k B' => B'.size = B.size ∧ ∀ u, B'.getD u 0 =
      if boff ≤ u ∧ u < boff + 64 * k then byteOf (A.getD ((u - boff) / 4) 0) ((u - boff) % 4) else B.getD u 0)
    (2 * r.toNat) 0 B ⟨rfl, fun u => by rw [if_neg (by omega)]⟩
    (fun k B' _ hk h => by
      obtain ⟨h1, h2⟩ := h
      have sp := storeN_spec boff M XY A r.toNat hA hrow k (by omega) B' (by rw [h1]; exact hfit)
      refine ⟨by rw [sp.1, h1], fun u => ?_⟩
      rw [sp.2 u]
      by_cases hblk : boff + 64 * k ≤ u ∧ u < boff + 64 * k + 64
      · rw [if_pos hblk, if_pos (by omega)]
      · rw [if_neg hblk, h2 u]
        by_cases h3 : boff ≤ u ∧ u < boff + 64 * k
        · rw [if_pos h3, if_pos (by omega)]
        · rw [if_neg h3, if_neg (by omega)])
  rw [Nat.zero_add] at hinv
  refine ⟨hinv.1, fun u => ?_⟩
  rw [hinv.2 u, hA]
  by_cases h3 : boff ≤ u ∧ u < boff + 64 * (2 * r.toNat)
  · rw [if_pos h3, if_pos (by omega)]
  · rw [if_neg h3, if_neg (by omega)]

end Sodium.ScryptSseP
