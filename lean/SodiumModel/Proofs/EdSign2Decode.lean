import SodiumModel.Proofs.EdSign2Codec
/-
  Lax RFC 8032 §5.1.3 decoding stated through the root selection (`pick` on the RFC candidate), and the two C
  decoders against it.
-/
open Sodium Sodium.Spec Sodium.Model.Ge25519
open Sodium.ScalarmultLow (c_add c_mul c_sqr c_sub)
open Sodium.RistrettoRefP (F c_neg cast_inj normX mul_lt sqr_lt neg_lt)
namespace Sodium.EdSignP

/-- the `ge25519_p3` value with the coordinates of a specification point -/
def ofPoint (P : Ed25519.Point) : P3 Nat := ⟨P.X, P.Y, P.Z, P.T⟩

/-- RFC 8032 §5.1.3 decoding, LAX form (what the code does): y = the low 255 bits reduced mod p (a non-canonical y is
    NOT rejected), u = y²−1, v = dy²+1, x = the RFC candidate root u·v³·(uv⁷)^((p−5)/8) (times sqrt(−1) if v·x² = −u;
    failure if neither), negated iff its parity differs from bit 255; x = 0 with bit 255 set is ACCEPTED as x = 0 -/
def decodeP (s : Bytes) : Option Ed25519.Point :=
  (pick (uOf (F25519.fromBytesMasked s)) (vOf (F25519.fromBytesMasked s))
      (cand2 (uOf (F25519.fromBytesMasked s)) (vOf (F25519.fromBytesMasked s)))).map
    fun x => Ed25519.ofAffine (normX x (signBit s)) (F25519.fromBytesMasked s)

theorem fbm_lt (s : Bytes) : F25519.fromBytesMasked s < F25519.p := Nat.mod_lt _ (by decide)

theorem normX_lt {x : Nat} (hx : x < F25519.p) (sg : Bool) : normX x sg < F25519.p := by
  unfold normX; cases (F25519.isNegative x != sg)
  · exact hx
  · exact neg_lt _

theorem normX_not {x : Nat} (hx : x < F25519.p) (sg : Bool) : normX x (!sg) = F25519.neg (normX x sg) := by
  by_cases h0 : x = 0
  · subst h0; cases sg <;> decide +kernel
  · unfold normX
    cases hn : F25519.isNegative x <;> cases sg <;>
      simp [RistrettoRefP.neg_neg' hx]

theorem ofPoint_ofAffine {x y : Nat} (hx : x < F25519.p) (hy : y < F25519.p) :
    ofPoint (Ed25519.ofAffine x y) = ⟨x, y, 1, F25519.mul x y⟩ := by
  simp [ofPoint, Ed25519.ofAffine, Nat.mod_eq_of_lt hx, Nat.mod_eq_of_lt hy]

theorem mul_neg_left (x y : Nat) : F25519.mul (F25519.neg x) y = F25519.neg (F25519.mul x y) := by
  apply cast_inj (mul_lt _ _) (neg_lt _)
  rw [c_mul, c_neg, c_neg, c_mul]; ring

theorem ofPoint_neg_ofAffine {x y : Nat} (hx : x < F25519.p) (hy : y < F25519.p) :
    ofPoint (Ed25519.neg (Ed25519.ofAffine x y)) = ⟨F25519.neg x, y, 1, F25519.mul (F25519.neg x) y⟩ := by
  have h1 : 1 % F25519.p = 1 := by decide +kernel
  simp [ofPoint, Ed25519.neg, Ed25519.ofAffine, Nat.mod_eq_of_lt hx, Nat.mod_eq_of_lt hy, h1, mul_neg_left]

/-- both candidates select, after normalisation, the same x -/
theorem pick12 (y : Nat) (sg : Bool) (o1 o2 : Option Nat) (h : o1.map (normX · sg) = o2.map (normX · sg)) (d : Nat) :
    o1.isSome = o2.isSome ∧ ∀ x2, o2 = some x2 → normX (o1.getD d) sg = normX x2 sg := by
  cases o1 <;> cases o2 <;> simp_all

/-- `ge25519_frombytes` = lax RFC 8032 decoding -/
theorem frombytes_decode (s : Bytes) :
    (ge25519_frombytes specGe s).1 = (if (decodeP s).isSome then 0 else -1) ∧
    ∀ P, decodeP s = some P → ge25519_frombytes specGe s = (0, ofPoint P) := by
  rw [frombytes_closed]
  unfold decodeP
  have ha := pick_agree (F25519.fromBytesMasked s) (signBit s)
  have hy := fbm_lt s
  generalize F25519.fromBytesMasked s = y at *
  obtain ⟨k1, -⟩ := pick_spec (c := cand2 (uOf y) (vOf y)) (uOf_lt y) (mul_lt _ _)
    (cand2_hcw (uOf y) (vOf y)) (cand2_hw (vOf_ne y))
  generalize pick (uOf y) (vOf y) (cand1 (uOf y) (vOf y)) = o1 at *
  generalize pick (uOf y) (vOf y) (cand2 (uOf y) (vOf y)) = o2 at *
  generalize F25519.mul (cand1 (uOf y) (vOf y)) F25519.sqrtM1 = d
  obtain ⟨e1, e2⟩ := pick12 y (signBit s) o1 o2 ha d
  refine ⟨by simp [e1], ?_⟩
  intro P hP
  cases o2 with
  | none => simp at hP
  | some x2 =>
    simp only [Option.map_some, Option.some.injEq] at hP
    subst hP
    have hx : normX x2 (signBit s) < F25519.p := normX_lt (k1 x2 rfl).1 _
    rw [ofPoint_ofAffine hx hy]
    simp [e1, fbPoint, e2 x2 rfl]

/-- `ge25519_frombytes_negate_vartime` = lax RFC 8032 decoding followed by point negation -/
theorem frombytes_negate_decode (s : Bytes) :
    (ge25519_frombytes_negate_vartime specGe s).1 = (if (decodeP s).isSome then 0 else -1) ∧
    ∀ P, decodeP s = some P → ge25519_frombytes_negate_vartime specGe s = (0, ofPoint (Ed25519.neg P)) := by
  rw [frombytes_negate_closed]
  unfold decodeP
  have hy := fbm_lt s
  generalize F25519.fromBytesMasked s = y at *
  rw [cand2'_eq]
  obtain ⟨k1, -⟩ := pick_spec (c := cand2 (uOf y) (vOf y)) (uOf_lt y) (mul_lt _ _)
    (cand2_hcw (uOf y) (vOf y)) (cand2_hw (vOf_ne y))
  generalize pick (uOf y) (vOf y) (cand2 (uOf y) (vOf y)) = o2 at *
  cases o2 with
  | none => simp
  | some x2 =>
    refine ⟨by simp, ?_⟩
    intro P hP
    simp only [Option.map_some, Option.some.injEq] at hP
    subst hP
    have hx2 := (k1 x2 rfl).1
    have hx : normX x2 (signBit s) < F25519.p := normX_lt hx2 _
    rw [ofPoint_neg_ofAffine hx hy]
    simp [fbPoint, normX_not hx2]

end Sodium.EdSignP
