import Mathlib.Data.ZMod.Basic
import Mathlib.Tactic.Ring
import Mathlib.Tactic.LinearCombination
import SodiumModel.Model.RistrettoRef10
import SodiumModel.Spec.Ristretto255
import SodiumModel.Spec.H2c
import SodiumModel.Proofs.Fe51
import SodiumModel.Proofs.ScalarmultLowOrder
import SodiumModel.Proofs.Scalar
import SodiumModel.Proofs.Prime25519
import Mathlib.FieldTheory.Finite.Basic
/-
  Helper lemmas for `Properties/C07Maps.lean`: the C-structured Ristretto255 / Elligator 2 code of
  `Model/RistrettoRef10.lean`, instantiated with the specification field, computes the functions of
  `Spec/Ristretto255.lean` (RFC 9496) and `Spec/H2c.lean` (RFC 9380).
-/
open Sodium Sodium.Model Sodium.Spec Sodium.Model.RistrettoRef10
open Sodium.Model.LadderRef10 (P3)
namespace Sodium.RistrettoRefP

abbrev p := F25519.p
abbrev F := ZMod F25519.p

theorem p_val : F25519.p = 57896044618658097711785492504343953926634992332820282019728792003956564819949 := by
  decide +kernel

/-! ### the specification field: ranges, unfolding of `specOps` -/

theorem add_lt (a b : Nat) : F25519.add a b < p := Nat.mod_lt _ (by decide)
theorem sub_lt (a b : Nat) : F25519.sub a b < p := Nat.mod_lt _ (by decide)
theorem mul_lt (a b : Nat) : F25519.mul a b < p := Nat.mod_lt _ (by decide)
theorem sqr_lt (a : Nat) : F25519.sqr a < p := Nat.mod_lt _ (by decide)
theorem neg_lt (a : Nat) : F25519.neg a < p := Nat.mod_lt _ (by decide)
theorem pow_lt (a e : Nat) : F25519.pow a e < p := LadderRef10P.powLoop_lt _ _ _ _ (by decide)

@[simp] theorem ops_add : specOps.add = F25519.add := rfl
@[simp] theorem ops_sub : specOps.sub = F25519.sub := rfl
@[simp] theorem ops_mul : specOps.mul = F25519.mul := rfl
@[simp] theorem ops_sq : specOps.sq = F25519.sqr := rfl
@[simp] theorem ops_neg : specOps.neg = F25519.neg := rfl
@[simp] theorem ops_one : specOps.one = 1 := rfl
@[simp] theorem ops_zero : specOps.zero = 0 := rfl
@[simp] theorem ops_invert (a : Nat) : specOps.invert a = F25519.inv a := by
  simp only [specOps, LadderRef10.specField]
@[simp] theorem ops_frombytes : specOps.frombytes = F25519.fromBytesMasked := rfl
@[simp] theorem ops_tobytes : specOps.tobytes = F25519.toBytes := rfl
@[simp] theorem ops_cmov (f g : Nat) (b : UInt32) : specOps.cmov f g b = if b = 0 then f else g := rfl
@[simp] theorem ops_iszero (f : Nat) : specOps.iszero f = if F25519.isZero f then 1 else 0 := rfl
@[simp] theorem ops_isnegative (f : Nat) : specOps.isnegative f = if F25519.isNegative f then 1 else 0 := rfl
@[simp] theorem ops_mul32 (f : Nat) (n : UInt32) : specOps.mul32 f n = F25519.mul f n.toNat := rfl
@[simp] theorem ops_sq2 (f : Nat) : specOps.sq2 f = F25519.mul 2 (F25519.sqr f) := rfl
@[simp] theorem ops_reduce (f : Nat) : specOps.reduce f = f % F25519.p := rfl
@[simp] theorem ops_addLimb0 (f : Nat) (c : UInt64) : specOps.addLimb0 f c = F25519.add f c.toNat := rfl
@[simp] theorem ops_addMul38 (f g : Nat) : specOps.addMul38 f g = F25519.add f (F25519.mul 38 g) := rfl

/-! ### the constants of fe_51/constants.h are the constants of the RFCs -/

theorem const_sqrtm1 : specOps.const fe25519_sqrtm1 = F25519.sqrtM1 := by decide +kernel
theorem const_d : specOps.const ed25519_d = Ristretto.D := by decide +kernel
theorem const_d_ed : specOps.const ed25519_d = Ed25519.d := by decide +kernel
theorem const_d2 : specOps.const ed25519_d2 = F25519.mul 2 Ed25519.d := by decide +kernel
theorem const_A : specOps.const ed25519_A = H2c.montA := by decide +kernel
theorem const_A_32 : ed25519_A_32.toNat = H2c.montA := by decide +kernel
theorem const_sqrtam2 : specOps.const ed25519_sqrtam2 = H2c.sqrtNeg486664 := by decide +kernel
theorem const_sqrtadm1 : specOps.const ed25519_sqrtadm1 = Ristretto.sqrtAdMinusOne := by decide +kernel
theorem const_invsqrtamd : specOps.const ed25519_invsqrtamd = Ristretto.invsqrtAMinusD := by decide +kernel
theorem const_onemsqd : specOps.const ed25519_onemsqd = Ristretto.oneMinusDSq := by decide +kernel
theorem const_sqdmone : specOps.const ed25519_sqdmone = Ristretto.dMinusOneSq := by decide +kernel

/-! ### exponent bookkeeping for the addition chains -/

def IsPow (x t k : Nat) : Prop := t % p = x ^ k % p

theorem IsPow.one (x : Nat) : IsPow x x 1 := by simp [IsPow]

theorem IsPow.mul {x s t j k : Nat} (hs : IsPow x s j) (ht : IsPow x t k) :
    IsPow x (F25519.mul s t) (j + k) := by
  unfold IsPow at *
  rw [F25519.mul, Nat.mod_mod, Nat.mul_mod, hs, ht, ← Nat.mul_mod, Nat.pow_add]

theorem IsPow.sq {x t k : Nat} (h : IsPow x t k) : IsPow x (F25519.sqr t) (2 * k) := by
  have := h.mul h
  rw [show k + k = 2 * k by omega] at this
  exact this

theorem IsPow.sqN {x : Nat} : ∀ (n : Nat) {t k : Nat}, IsPow x t k → IsPow x (sqN specOps n t) (2 ^ n * k)
  | 0, t, k, h => by simpa [RistrettoRef10.sqN] using h
  | n + 1, t, k, h => by
    have := IsPow.sqN n h.sq
    rw [show 2 ^ n * (2 * k) = 2 ^ (n + 1) * k by rw [Nat.pow_succ]; ac_rfl] at this
    exact this

theorem IsPow.cast {x t k k' : Nat} (h : IsPow x t k) (e : k = k') : IsPow x t k' := e ▸ h

theorem pow22523_pow (z : Nat) : IsPow z (fe25519_pow22523 specOps z) (2 ^ 252 - 3) := by
  have z1 : IsPow z z 1 := IsPow.one z
  have a0 : IsPow z _ 2 := z1.sq                                          -- t0 = z^2
  have a1 : IsPow z _ 8 := (a0.sq).sq                                     -- t1 = z^8
  have a2 : IsPow z _ 9 := z1.mul a1                                      -- t1 = z^9
  have a3 : IsPow z _ 11 := a0.mul a2                                     -- t0 = z^11
  have a4 : IsPow z _ 22 := a3.sq                                         -- t0 = z^22
  have a5 : IsPow z _ (2 ^ 5 - 1) := a2.mul a4                            -- t0 = z^31
  have a6 : IsPow z _ (2 ^ 10 - 2 ^ 5) := (IsPow.sqN 4 a5.sq).cast (by decide)
  have a7 : IsPow z _ (2 ^ 10 - 1) := (a6.mul a5).cast (by decide)        -- t0
  have a8 : IsPow z _ (2 ^ 20 - 2 ^ 10) := (IsPow.sqN 9 a7.sq).cast (by decide)
  have a9 : IsPow z _ (2 ^ 20 - 1) := (a8.mul a7).cast (by decide)        -- t1
  have a10 : IsPow z _ (2 ^ 40 - 2 ^ 20) := (IsPow.sqN 19 a9.sq).cast (by decide)
  have a11 : IsPow z _ (2 ^ 40 - 1) := (a10.mul a9).cast (by decide)      -- t1
  have a12 : IsPow z _ (2 ^ 50 - 2 ^ 10) := (IsPow.sqN 10 a11).cast (by decide)
  have a13 : IsPow z _ (2 ^ 50 - 1) := (a12.mul a7).cast (by decide)      -- t0
  have a14 : IsPow z _ (2 ^ 100 - 2 ^ 50) := (IsPow.sqN 49 a13.sq).cast (by decide)
  have a15 : IsPow z _ (2 ^ 100 - 1) := (a14.mul a13).cast (by decide)    -- t1
  have a16 : IsPow z _ (2 ^ 200 - 2 ^ 100) := (IsPow.sqN 99 a15.sq).cast (by decide)
  have a17 : IsPow z _ (2 ^ 200 - 1) := (a16.mul a15).cast (by decide)    -- t1
  have a18 : IsPow z _ (2 ^ 250 - 2 ^ 50) := (IsPow.sqN 50 a17).cast (by decide)
  have a19 : IsPow z _ (2 ^ 250 - 1) := (a18.mul a13).cast (by decide)    -- t0
  have a20 : IsPow z _ (2 ^ 252 - 4) := (a19.sq.sq).cast (by decide)
  have a21 : IsPow z _ (2 ^ 252 - 3) := (a20.mul z1).cast (by decide)     -- out
  exact a21

theorem pow22523_eq (z : Nat) : fe25519_pow22523 specOps z = F25519.pow z ((F25519.p - 5) / 8) := by
  have h := pow22523_pow z
  unfold IsPow at h
  rw [Fe51P.pow_eq, show (F25519.p - 5) / 8 = 2 ^ 252 - 3 by decide +kernel, ← h]
  exact (Nat.mod_eq_of_lt (mul_lt _ _)).symm

/-! ### `F25519` as naturals: the few algebraic facts needed without leaving `Nat` -/

theorem mul_comm' (a b : Nat) : F25519.mul a b = F25519.mul b a := by
  unfold F25519.mul; rw [Nat.mul_comm]

theorem mul_assoc' (a b c : Nat) : F25519.mul (F25519.mul a b) c = F25519.mul a (F25519.mul b c) := by
  unfold F25519.mul; rw [Nat.mod_mul_mod, Nat.mul_mod_mod, Nat.mul_assoc]

theorem mul_mod_left (a b : Nat) : F25519.mul (a % F25519.p) b = F25519.mul a b := by
  unfold F25519.mul; rw [Nat.mod_mul_mod]

theorem mul_mod_right (a b : Nat) : F25519.mul a (b % F25519.p) = F25519.mul a b := by
  unfold F25519.mul; rw [Nat.mul_mod_mod]

theorem sqr_eq_mul (a : Nat) : F25519.sqr a = F25519.mul a a := rfl

theorem add_self (a : Nat) : F25519.add a a = F25519.mul 2 a := by
  unfold F25519.add F25519.mul; congr 1; omega

theorem neg_mod (a : Nat) : F25519.neg (a % F25519.p) = F25519.neg a := by
  unfold F25519.neg; rw [Nat.mod_mod]

/-- `fe25519_iszero(vxx - u)` is the comparison `vxx == u` of the canonical representatives -/
theorem isZero_sub {a : Nat} (ha : a < F25519.p) (b : Nat) :
    F25519.isZero (F25519.sub a b) = (a == b % F25519.p) := by
  rw [Bool.eq_iff_iff]
  simp only [F25519.isZero, F25519.sub, beq_iff_eq, p_val] at *
  omega

/-- `fe25519_iszero(vxx + u)` is the comparison `vxx == -u` -/
theorem isZero_add {a : Nat} (ha : a < F25519.p) (b : Nat) :
    F25519.isZero (F25519.add a b) = (a == F25519.neg b) := by
  rw [Bool.eq_iff_iff]
  simp only [F25519.isZero, F25519.add, F25519.neg, beq_iff_eq, p_val] at *
  omega

/-! ### fe25519_cneg / fe25519_abs over the specification field -/

theorem b2u_eq_zero (c : Bool) : ((if c then (1 : Int32) else 0).toUInt32 = 0) = (c = false) := by
  cases c <;> decide

theorem cneg_eq (h : Nat) (b : UInt32) :
    fe25519_cneg specOps h b = if b = 0 then h else F25519.neg h := by
  simp [fe25519_cneg]

theorem abs_eq {h : Nat} (hh : h < F25519.p) : fe25519_abs specOps h = F25519.abs h := by
  simp only [fe25519_abs, cneg_eq, ops_isnegative, b2u_eq_zero, F25519.abs, Nat.mod_eq_of_lt hh]
  cases F25519.isNegative h <;> simp

/-! ### ristretto255_sqrt_ratio_m1 = SQRT_RATIO_M1 (RFC 9496 §4.2) -/

/-- a C truth value -/
def b2i (b : Bool) : Int32 := if b then 1 else 0

theorem ite_b2i (c : Bool) : (if c = true then (1 : Int32) else 0) = b2i c := rfl

theorem b2i_or (a b : Bool) : (b2i a ||| b2i b) = b2i (a || b) := by
  cases a <;> cases b <;> decide

theorem b2i_toUInt32_eq_zero (c : Bool) : ((b2i c).toUInt32 = 0) = (c = false) := by
  cases c <;> decide

theorem sqrt_ratio_m1_eq (u v : Nat) :
    ristretto255_sqrt_ratio_m1 specOps u v =
      (b2i (F25519.sqrtRatioM1 u v).1, (F25519.sqrtRatioM1 u v).2) := by
  simp only [ristretto255_sqrt_ratio_m1, F25519.sqrtRatioM1]
  simp only [ops_sq, ops_mul, ops_sub, ops_add, ops_iszero, ops_cmov, const_sqrtm1, pow22523_eq, ite_b2i]
  generalize F25519.mul (F25519.sqr v) v = v3
  -- the two orders of multiplication
  have huv7 : F25519.mul (F25519.mul (F25519.sqr v3) u) v
      = F25519.mul (u % F25519.p) (F25519.mul (F25519.sqr v3) v) := by
    rw [mul_mod_left, mul_comm' _ u, mul_assoc']
  rw [huv7]
  generalize F25519.pow (F25519.mul (u % F25519.p) (F25519.mul (F25519.sqr v3) v)) ((F25519.p - 5) / 8) = P
  have hr : F25519.mul (F25519.mul P v3) u = F25519.mul (F25519.mul (u % F25519.p) v3) P := by
    rw [mul_mod_left, mul_comm' _ u, mul_comm' P v3, mul_assoc']
  rw [hr]
  generalize hrr : F25519.mul (F25519.mul (u % F25519.p) v3) P = r
  have h2 : r < F25519.p := hrr ▸ mul_lt _ _
  have h1 : F25519.mul F25519.sqrtM1 r < F25519.p := mul_lt _ _
  rw [mul_comm' (F25519.sqr r) v, isZero_sub (mul_lt _ _), isZero_add (mul_lt _ _), isZero_add (mul_lt _ _),
    ← mul_mod_left u F25519.sqrtM1, ← neg_mod u, mul_comm' r F25519.sqrtM1]
  generalize (F25519.mul v (F25519.sqr r) == u % F25519.p) = b1
  generalize (F25519.mul v (F25519.sqr r) == F25519.neg (u % F25519.p)) = b2
  generalize (F25519.mul v (F25519.sqr r) == F25519.neg (F25519.mul (u % F25519.p) F25519.sqrtM1)) = b3
  simp only [b2i_or, b2i_toUInt32_eq_zero]
  congr 1
  cases (b2 || b3)
  · simp [abs_eq h2]
  · simp [abs_eq h1]

/-! ### ristretto255_is_canonical -/

theorem canonLoop_eq_zero (s : Bytes) : ∀ (n : Nat) (c : UInt8),
    canonLoop s n c = 0 ↔ c = 0 ∧ ∀ i, i < n → s.getD (i + 1) 0 = 0xff
  | 0, c => by simp [canonLoop]
  | n + 1, c => by
    rw [canonLoop, canonLoop_eq_zero s n, UInt8.or_eq_zero_iff, UInt8.xor_eq_zero_iff]
    constructor
    · rintro ⟨⟨hc, hn⟩, h⟩
      refine ⟨hc, fun i hi => ?_⟩
      by_cases hi' : i = n
      · rw [hi', hn]
      · exact h i (by omega)
    · rintro ⟨hc, h⟩
      exact ⟨⟨hc, h n (by omega)⟩, fun i hi => h i (by omega)⟩

theorem all_ff_iff : ∀ m : Bytes, (∀ i, i < m.length → m.getD i 0 = 0xff) ↔ le m = 256 ^ m.length - 1
  | [] => by simp [le]
  | b :: bs => by
    have ih := all_ff_iff bs
    have hl := Sodium.le_lt bs
    have hb := b.toNat_lt
    have hpos : 0 < 256 ^ bs.length := Nat.pow_pos (by decide)
    simp only [le, List.length_cons, Nat.pow_succ]
    generalize 256 ^ bs.length = K at *
    constructor
    · intro h
      have h0 : b = 0xff := by simpa using h 0 (by omega)
      have h1 : le bs = K - 1 := ih.1 (fun i hi => by simpa using h (i + 1) (by omega))
      rw [h0, h1]
      have : (0xff : UInt8).toNat = 255 := rfl
      omega
    · intro h
      have h1 : le bs = K - 1 := by omega
      have h0 : b.toNat = 255 := by omega
      intro i hi
      cases i with
      | zero => simp [← UInt8.toNat_inj, h0]
      | succ i => simpa using ih.2 h1 i (by omega)

set_option maxRecDepth 100000 in
theorem canon_c_eq : ∀ c : UInt8, ((c.toUInt32 - 1) >>> 8).toUInt8 = if c = 0 then 0xff else 0 := by
  decide +kernel
set_option maxRecDepth 100000 in
theorem canon_d_eq : ∀ a : UInt8, ((0xed - 1 - a.toUInt32) >>> 8).toUInt8 = if 0xed ≤ a.toNat then 0xff else 0 := by
  decide +kernel
set_option maxRecDepth 100000 in
theorem canon_e_eq : ∀ z : UInt8, z >>> 7 = if 128 ≤ z.toNat then 1 else 0 := by
  decide +kernel
set_option maxRecDepth 100000 in
theorem canon_c0_eq : ∀ z : UInt8, ((z &&& 0x7f) ^^^ 0x7f = 0) = (z.toNat % 128 = 127) := by
  decide +kernel
set_option maxRecDepth 100000 in
theorem canon_final : ∀ (bc bd be : Bool) (a : UInt8),
    1 - ((((if bc then (0xff : UInt8) else 0) &&& (if bd then (0xff : UInt8) else 0)) ||| (if be then 1 else 0) ||| a) &&& 1).toUInt32.toInt32
      = b2i (!((bc && bd) || be || a.toNat % 2 == 1)) := by
  decide +kernel

theorem is_canonical_parts (a z : UInt8) (mid : Bytes) (hm : mid.length = 30) :
    ristretto255_is_canonical (a :: (mid ++ [z])) =
      b2i (!((decide (z.toNat % 128 = 127 ∧ le mid = 256 ^ 30 - 1) && decide (0xed ≤ a.toNat)) ||
        decide (128 ≤ z.toNat) || a.toNat % 2 == 1)) := by
  have h0 : (a :: (mid ++ [z])).getD 0 0 = a := by simp
  have h31 : (a :: (mid ++ [z])).getD 31 0 = z := by simp [hm]
  have hloop : ∀ c, (canonLoop (a :: (mid ++ [z])) 30 c = 0) = (c = 0 ∧ le mid = 256 ^ 30 - 1) := by
    intro c
    rw [canonLoop_eq_zero, ← hm, ← all_ff_iff]
    apply propext
    constructor
    · rintro ⟨hc, h⟩
      refine ⟨hc, fun i hi => ?_⟩
      have := h i hi
      simpa [List.getD_eq_getElem?_getD, List.getElem?_append, hi] using this
    · rintro ⟨hc, h⟩
      refine ⟨hc, fun i hi => ?_⟩
      have := h i hi
      simpa [List.getD_eq_getElem?_getD, List.getElem?_append, hi] using this
  simp only [ristretto255_is_canonical, h0, h31, canon_c_eq, canon_d_eq, canon_e_eq, hloop, canon_c0_eq]
  have := canon_final (decide (z.toNat % 128 = 127 ∧ le mid = 256 ^ 30 - 1)) (decide (0xed ≤ a.toNat))
    (decide (128 ≤ z.toNat)) a
  simpa using this

/-! ### ristretto255_frombytes = DECODE (RFC 9496 §4.3.1) -/

theorem canon_arith (a M z : Nat) (ha : a < 256) (hM : M < 256 ^ 30) (hz : z < 256) :
    (((z % 128 = 127 ∧ M = 256 ^ 30 - 1) ∧ 237 ≤ a) ∨ 128 ≤ z) ∨ a % 2 = 1 ↔
      a + 256 * M + 256 ^ 31 * z ≥ F25519.p ∨ (a + 256 * M + 256 ^ 31 * z) % F25519.p % 2 = 1 := by
  rw [p_val]
  by_cases hS : a + 256 * M + 256 ^ 31 * z ≥ 57896044618658097711785492504343953926634992332820282019728792003956564819949
  · refine ⟨fun _ => Or.inl hS, fun _ => ?_⟩
    omega
  · have hmod := Nat.mod_eq_of_lt (Nat.lt_of_not_ge hS)
    constructor
    · intro h; right; rw [hmod]; omega
    · intro h
      rcases h with h | h
      · exact absurd h hS
      · rw [hmod] at h; omega

theorem is_canonical_eq (s : Bytes) (hs : s.length = 32) :
    ristretto255_is_canonical s = b2i (!(decide (le s ≥ F25519.p) || F25519.isNegative (le s))) := by
  obtain ⟨a, mid, z, hm, rfl⟩ := ScalarP.split32 s hs
  rw [is_canonical_parts a z mid hm, ScalarP.le_split32 a z mid hm]
  congr 2
  have ha := a.toNat_lt; have hz := z.toNat_lt
  have hmid := Sodium.le_lt mid; rw [hm] at hmid
  rw [Bool.eq_iff_iff]
  simp only [Bool.or_eq_true, Bool.and_eq_true, decide_eq_true_eq, beq_iff_eq, F25519.isNegative]
  exact canon_arith _ _ _ ha hmid hz

theorem dbl_mul (A s : Nat) :
    F25519.add (F25519.mul A s) (F25519.mul A s) = F25519.mul (F25519.mul 2 s) A := by
  unfold F25519.add F25519.mul
  rw [Nat.mod_mul_mod, ← Nat.add_mod]
  congr 1; ring

theorem rc_bits (w n z : Bool) : -(1 - b2i w ||| b2i n ||| b2i z) = -b2i (!w || n || z) := by
  cases w <;> cases n <;> cases z <;> decide

/-- the part of DECODE after the canonicity check: (reject, point) -/
def decodeBody (s : Nat) : Bool × Ed25519.Point :=
  let ss := F25519.sqr s
  let u1 := F25519.sub 1 ss
  let u2 := F25519.add 1 ss
  let u2Sqr := F25519.sqr u2
  let v := F25519.sub (F25519.neg (F25519.mul Ristretto.D (F25519.sqr u1))) u2Sqr
  let r := F25519.sqrtRatioM1 1 (F25519.mul v u2Sqr)
  let denX := F25519.mul r.2 u2
  let denY := F25519.mul (F25519.mul r.2 denX) v
  let x := F25519.abs (F25519.mul (F25519.mul 2 s) denX)
  let y := F25519.mul u1 denY
  let t := F25519.mul x y
  (!r.1 || F25519.isNegative t || y == 0, { X := x, Y := y, Z := 1, T := t })

theorem decode_unfold (b : Bytes) :
    Ristretto.decode b =
      if b.length != 32 then none
      else if (decide (le b ≥ F25519.p) || F25519.isNegative (le b)) then none
      else bif (decodeBody (le b)).1 then none else some (decodeBody (le b)).2 := by
  unfold Ristretto.decode
  split
  · rfl
  · dsimp only
    split
    · rfl
    · simp only [decodeBody]
      generalize (F25519.sqrtRatioM1 _ _) = r
      generalize (!r.1 || _ || _) = c
      cases c <;> rfl

theorem frombytes_canonical (h0 : P3 Nat) (s : Bytes) (hs : s.length = 32)
    (hc : (decide (le s ≥ F25519.p) || F25519.isNegative (le s)) = false) :
    ristretto255_frombytes specOps h0 s =
      (- b2i (decodeBody (le s)).1, ofPoint (decodeBody (le s)).2) := by
  have hcan : (ristretto255_is_canonical s == 0) = false := by
    rw [is_canonical_eq s hs, hc]; decide
  have hlt : le s < F25519.p := by
    simp only [Bool.or_eq_false_iff, decide_eq_false_iff_not] at hc; omega
  have hfb : F25519.fromBytesMasked s = le s := by
    have h255 : le s % 2 ^ 255 = le s := by rw [p_val] at hlt; omega
    rw [F25519.fromBytesMasked, List.take_of_length_le (by omega), h255, Nat.mod_eq_of_lt hlt]
  simp only [ristretto255_frombytes, hcan, decodeBody, sqrt_ratio_m1_eq]
  simp only [ops_sq, ops_mul, ops_sub, ops_add, ops_neg, ops_one, ops_iszero, ops_isnegative, ops_frombytes,
    const_d, ite_b2i, hfb]
  generalize le s = s_
  generalize F25519.sqrtRatioM1 _ _ = r
  generalize F25519.add 1 (F25519.sqr s_) = u2
  generalize F25519.sub 1 (F25519.sqr s_) = u1
  rw [dbl_mul, abs_eq (mul_lt _ _)]
  generalize F25519.abs _ = x
  generalize hy : F25519.mul u1 _ = y
  have hyz : F25519.isZero y = (y == 0) := by
    have : y < F25519.p := hy ▸ mul_lt _ _
    rw [F25519.isZero, Nat.mod_eq_of_lt this]
  rw [hyz, rc_bits]
  simp [ofPoint]

theorem frombytes_noncanonical (h0 : P3 Nat) (s : Bytes) (hs : s.length = 32)
    (hc : (decide (le s ≥ F25519.p) || F25519.isNegative (le s)) = true) :
    ristretto255_frombytes specOps h0 s = (-1, h0) := by
  have hcan : (ristretto255_is_canonical s == 0) = true := by
    rw [is_canonical_eq s hs, hc]; decide
  simp only [ristretto255_frombytes, hcan, if_true]

/-- `ristretto255_frombytes` against DECODE, for every 32-byte string -/
theorem frombytes_eq (h0 : P3 Nat) (s : Bytes) (hs : s.length = 32) :
    match Ristretto.decode s with
    | some P => ristretto255_frombytes specOps h0 s = (0, ofPoint P)
    | none => (ristretto255_frombytes specOps h0 s).1 = -1 := by
  have hl : (s.length != 32) = false := by simp [hs]
  rw [decode_unfold, hl]
  simp only [Bool.false_eq_true, if_false]
  cases hc : (decide (le s ≥ F25519.p) || F25519.isNegative (le s))
  · rw [frombytes_canonical h0 s hs hc]
    simp only [Bool.false_eq_true, if_false]
    cases (decodeBody (le s)).1
    · simp [b2i]
    · simp [b2i]
  · rw [frombytes_noncanonical h0 s hs hc]
    simp

/-! ### ristretto255_p3_tobytes = ENCODE (RFC 9496 §4.3.2) -/

theorem cmov_b2i (f g : Nat) (c : Bool) : specOps.cmov f g (b2i c).toUInt32 = bif c then g else f := by
  cases c <;> rfl

theorem cneg_b2i (h : Nat) (c : Bool) :
    fe25519_cneg specOps h (b2i c).toUInt32 = bif c then F25519.neg h else h := by
  cases c <;> rfl

theorem ite_eq_cond {α : Type} (c : Bool) (a b : α) : (if c = true then a else b) = bif c then a else b := by
  cases c <;> rfl

/-! `simp only` rewrites with `rfl`-lemmas definitionally (no proof term), and the kernel then has to
    re-check the whole goal by conversion, which diverges on these terms; the following are the same
    facts with proofs that are NOT syntactically `rfl`. -/
theorem ite_tt {α : Type} (a b : α) : (if true = true then a else b) = a := by rw [if_pos (Eq.refl true)]
theorem ite_ff {α : Type} (a b : α) : (if false = true then a else b) = b := by rw [if_neg Bool.false_ne_true]
theorem ite_T {α : Type} [Decidable True] (a b : α) : (if True then a else b) = a := by rw [if_pos trivial]
theorem cond_tt {α : Type} (a b : α) : (bif true then a else b) = a := by rw [cond_true]
theorem cond_ff {α : Type} (a b : α) : (bif false then a else b) = b := by rw [cond_false]

theorem toBytes_of_lt {a : Nat} (h : a < F25519.p) : F25519.toBytes a = toLE 32 a := by
  rw [F25519.toBytes, Nat.mod_eq_of_lt h]

theorem abs_lt (a : Nat) : F25519.abs a < F25519.p := by
  unfold F25519.abs; split
  · exact neg_lt _
  · exact Nat.mod_lt _ (by decide)

attribute [local irreducible] F25519.mul F25519.sqr F25519.add F25519.sub F25519.neg F25519.pow F25519.isZero
  F25519.isNegative F25519.abs F25519.inv F25519.sqrtRatioM1 F25519.sqrtM1 in
theorem p3_tobytes_eq (h : P3 Nat) :
    ristretto255_p3_tobytes specOps h = Ristretto.encode (toPoint h) := by
  unfold Ristretto.encode
  dsimp only [toPoint]
  simp only [ristretto255_p3_tobytes]
  simp only [ops_sq, ops_mul, ops_sub, ops_add, ops_one, ops_isnegative, ops_tobytes, sqrt_ratio_m1_eq,
    const_sqrtm1, const_invsqrtamd, ite_b2i]
  simp only [cmov_b2i, cneg_b2i]
  rw [abs_eq (mul_lt _ _), toBytes_of_lt (abs_lt _)]
  generalize F25519.sqrtRatioM1 _ _ = r
  generalize F25519.isNegative (F25519.mul h.T _) = rot
  cases rot
  · simp only [ite_ff, cond_ff]
    generalize F25519.isNegative _ = sg
    cases sg
    · simp only [ite_ff, cond_ff]
    · simp only [ite_T, cond_tt]
  · simp only [ite_T, cond_tt]
    generalize F25519.isNegative _ = sg
    cases sg
    · simp only [ite_ff, cond_ff]
    · simp only [ite_T, cond_tt]

/-! ### ristretto255_elligator = MAP, ristretto255_from_hash = the one-way map (RFC 9496 §4.3.4) -/

theorem cmov_not_b2i (f g : Nat) (c : Bool) :
    specOps.cmov f g (1 - b2i c).toUInt32 = bif c then f else g := by
  cases c <;> rfl

theorem elligator_eq (t : Nat) : toPoint (ristretto255_elligator specOps t) = Ristretto.map t := by
  unfold Ristretto.map
  dsimp only
  simp only [ristretto255_elligator, toPoint]
  simp only [ops_sq, ops_mul, ops_sub, ops_add, ops_neg, ops_one, sqrt_ratio_m1_eq,
    const_sqrtm1, const_d, const_onemsqd, const_sqdmone, const_sqrtadm1, cmov_not_b2i]
  generalize F25519.sqrtRatioM1 _ _ = r
  generalize r.1 = ws
  generalize r.2 = s
  rw [abs_eq (mul_lt _ _)]
  cases ws
  · simp only [ite_ff, cond_ff, add_self, mul_comm' (F25519.sub _ 1)]
  · simp only [ite_T, cond_tt, add_self, mul_comm' (F25519.sub _ 1)]

theorem toPoint_ofPoint (P : Ed25519.Point) : toPoint (ofPoint P) = P := rfl

theorem from_hash_eq (h : Bytes) :
    ristretto255_from_hash specOps specGe h = Ristretto.fromUniform h := by
  unfold ristretto255_from_hash Ristretto.fromUniform Ristretto.fromUniformPoint Ristretto.add
  rw [p3_tobytes_eq]
  show Ristretto.encode (toPoint (ofPoint (Ed25519.add (toPoint (ristretto255_elligator specOps _))
    (toPoint (ristretto255_elligator specOps _))))) = _
  rw [toPoint_ofPoint, elligator_eq, elligator_eq]
  rfl

/-! ### core_ristretto255.c / scalarmult_ristretto255_ref10.c wrappers -/

theorem mask31_le (n : Bytes) (hn : n.length = 32) :
    le ((n.take 32).set 31 ((n.take 32).getD 31 0 &&& 127)) = le n % 2 ^ 255 := by
  have h1 : n.take 32 = n := List.take_of_length_le (by omega)
  obtain ⟨a, mid, z, hm, rfl⟩ := ScalarP.split32 n hn
  have hg : (a :: (mid ++ [z])).getD 31 0 = z := by simp [hm]
  rw [h1, hg, ScalarP.set31 _ _ _ mid hm, ScalarP.le_split32 _ _ _ hm, ScalarP.le_split32 _ _ _ hm,
    ScalarP.byte_mask_hi]
  have := a.toNat_lt; have := z.toNat_lt; have := Sodium.le_lt mid; rw [hm] at this
  omega

theorem is_valid_point_eq (h0 : P3 Nat) (p : Bytes) (hp : p.length = 32) :
    crypto_core_ristretto255_is_valid_point specOps h0 p = b2i (Ristretto.isValidPoint p) := by
  have h := frombytes_eq h0 p hp
  unfold crypto_core_ristretto255_is_valid_point Ristretto.isValidPoint
  cases hd : Ristretto.decode p with
  | none => rw [hd] at h; rw [h]; rfl
  | some P => rw [hd] at h; rw [h]; rfl

theorem encode_length (P : Ed25519.Point) : (Ristretto.encode P).length = 32 := by
  unfold Ristretto.encode; exact toLE_length _ _

theorem core_add_eq (h0 : P3 Nat) (r0 p q : Bytes) (hp : p.length = 32) (hq : q.length = 32) :
    crypto_core_ristretto255_add specOps specGe h0 r0 p q =
      match Ristretto.coreAdd p q with
      | some r => (0, r)
      | none => (-1, r0) := by
  have h1 := frombytes_eq h0 p hp
  have h2 := frombytes_eq h0 q hq
  unfold crypto_core_ristretto255_add Ristretto.coreAdd
  cases hd1 : Ristretto.decode p with
  | none => rw [hd1] at h1; simp only [h1]; rfl
  | some P =>
    rw [hd1] at h1
    cases hd2 : Ristretto.decode q with
    | none => rw [hd2] at h2; simp only [h1, h2]; rfl
    | some Q =>
      rw [hd2] at h2; simp only [h1, h2, p3_tobytes_eq]; rfl

theorem core_sub_eq (h0 : P3 Nat) (r0 p q : Bytes) (hp : p.length = 32) (hq : q.length = 32) :
    crypto_core_ristretto255_sub specOps specGe h0 r0 p q =
      match Ristretto.coreSub p q with
      | some r => (0, r)
      | none => (-1, r0) := by
  have h1 := frombytes_eq h0 p hp
  have h2 := frombytes_eq h0 q hq
  unfold crypto_core_ristretto255_sub Ristretto.coreSub
  cases hd1 : Ristretto.decode p with
  | none => rw [hd1] at h1; simp only [h1]; rfl
  | some P =>
    rw [hd1] at h1
    cases hd2 : Ristretto.decode q with
    | none => rw [hd2] at h2; simp only [h1, h2]; rfl
    | some Q =>
      rw [hd2] at h2; simp only [h1, h2, p3_tobytes_eq]; rfl

theorem is_zero_ne (q : Bytes) (hq : q.length = 32) : (sodium_is_zero q != 0) = (q == zeros 32) := by
  rw [C14.is_zero_exact, hq]
  by_cases h : q = zeros 32
  · simp [h]
  · simp [h]

theorem scalarmult_eq (h0 : P3 Nat) (q0 n p : Bytes) (hn : n.length = 32) (hp : p.length = 32) :
    match Ristretto.scalarmult n p with
    | some q => crypto_scalarmult_ristretto255 specOps specGe h0 q0 n p = (0, q)
    | none => (crypto_scalarmult_ristretto255 specOps specGe h0 q0 n p).1 = -1 := by
  have h1 := frombytes_eq h0 p hp
  unfold crypto_scalarmult_ristretto255 Ristretto.scalarmult
  cases hd1 : Ristretto.decode p with
  | none => rw [hd1] at h1; simp only [h1]; rfl
  | some P =>
    rw [hd1] at h1
    have ht : n.take 32 = n := List.take_of_length_le (by omega)
    have hQ : toPoint (specGe.scalarmult ((n.take 32).set 31 ((n.take 32).getD 31 0 &&& 127)) (ofPoint P))
        = Ristretto.scalarMult (le (n.take 32) % 2 ^ 255) P := by
      show Ed25519.scalarMult (le _) _ = _
      rw [mask31_le n hn, ht]; rfl
    simp only [h1, p3_tobytes_eq, hQ, is_zero_ne _ (encode_length _)]
    cases hz : (Ristretto.encode (Ristretto.scalarMult (le (n.take 32) % 2 ^ 255) P) == zeros 32)
    · simp
    · simp

theorem scalarmult_base_eq (n : Bytes) (hn : n.length = 32) :
    match Ristretto.scalarmultBase n with
    | some q => crypto_scalarmult_ristretto255_base specOps specGe n = (0, q)
    | none => (crypto_scalarmult_ristretto255_base specOps specGe n).1 = -1 := by
  unfold crypto_scalarmult_ristretto255_base Ristretto.scalarmultBase
  have ht : n.take 32 = n := List.take_of_length_le (by omega)
  have hQ : toPoint (specGe.scalarmult_base ((n.take 32).set 31 ((n.take 32).getD 31 0 &&& 127)))
      = Ristretto.scalarMult (le (n.take 32) % 2 ^ 255) Ristretto.generator := by
    show Ed25519.scalarMult (le _) _ = _
    rw [mask31_le n hn, ht]; rfl
  simp only [p3_tobytes_eq, hQ, is_zero_ne _ (encode_length _)]
  cases hz : (Ristretto.encode (Ristretto.scalarMult (le (n.take 32) % 2 ^ 255) Ristretto.generator) == zeros 32)
  · simp
  · simp

/-! ### `Spec.F25519` seen in the field `ZMod p` (p is prime: `Proofs/Prime25519.lean`) -/

open Sodium.ScalarmultLow (c_add c_mul c_sqr c_sub)

theorem c_neg (a : Nat) : ((F25519.neg a : Nat) : F) = -(a : F) := by
  have h : F25519.neg a = F25519.sub 0 a := by
    unfold F25519.neg F25519.sub; simp
  rw [h, c_sub]; simp

theorem c_pow (a e : Nat) : ((F25519.pow a e : Nat) : F) = (a : F) ^ e := by
  rw [Fe51P.pow_eq, ZMod.natCast_mod, Nat.cast_pow]

theorem c_mod (a : Nat) : ((a % F25519.p : Nat) : F) = (a : F) := ZMod.natCast_mod a _

theorem cast_inj {a b : Nat} (ha : a < F25519.p) (hb : b < F25519.p) (h : (a : F) = (b : F)) : a = b := by
  have := (ZMod.natCast_eq_natCast_iff' a b F25519.p).1 h
  rwa [Nat.mod_eq_of_lt ha, Nat.mod_eq_of_lt hb] at this

theorem cast_eq_zero {a : Nat} (ha : a < F25519.p) : (a : F) = 0 ↔ a = 0 := by
  constructor
  · intro h; exact cast_inj ha (by decide) (by simpa using h)
  · intro h; simp [h]

theorem fermat {a : F} (ha : a ≠ 0) : a ^ (F25519.p - 1) = 1 := ZMod.pow_card_sub_one_eq_one ha

/-- `fe25519_invert` is the field inverse (0 ↦ 0) -/
theorem c_inv (a : Nat) : ((F25519.inv a : Nat) : F) = (a : F)⁻¹ := by
  rw [F25519.inv, c_pow]
  by_cases h : (a : F) = 0
  · rw [h, inv_zero, zero_pow (by decide)]
  · apply eq_inv_of_mul_eq_one_right
    rw [← pow_succ', show F25519.p - 2 + 1 = F25519.p - 1 by decide, fermat h]

/-- the quadratic character x ↦ x^((p-1)/2) -/
def chi (a : F) : F := a ^ ((F25519.p - 1) / 2)

theorem chi_mul (a b : F) : chi (a * b) = chi a * chi b := mul_pow a b _

theorem chi_sq_mul (a : F) : chi a * chi a = if a = 0 then 0 else 1 := by
  unfold chi
  rw [← pow_add, show (F25519.p - 1) / 2 + (F25519.p - 1) / 2 = F25519.p - 1 by decide]
  split
  · next h => rw [h, zero_pow (by decide)]
  · next h => exact fermat h

theorem chi_cases (a : F) : chi a = 0 ∨ chi a = 1 ∨ chi a = -1 := by
  have h := chi_sq_mul a
  split at h
  · left; exact mul_self_eq_zero.1 h
  · right; exact mul_self_eq_one_iff.1 h

theorem chi_zero : chi 0 = 0 := zero_pow (by decide)

theorem chi_two : chi (2 : F) = -1 := by
  have hn : F25519.pow 2 ((F25519.p - 1) / 2) = F25519.p - 1 := by decide +kernel
  have h : ((F25519.pow 2 ((F25519.p - 1) / 2) : Nat) : F) = ((F25519.p - 1 : Nat) : F) := by rw [hn]
  rw [c_pow] at h
  rw [chi, show (2 : F) = ((2 : Nat) : F) by norm_num, h, Nat.cast_sub (by decide), ZMod.natCast_self]
  simp

theorem one_ne_neg_one : (1 : F) ≠ -1 := by
  intro h
  have h2 : ((2 : Nat) : F) = 0 := by
    have : (1 : F) + 1 = 0 := by nth_rewrite 2 [h]; ring
    push_cast; rw [← this]; norm_num
  exact absurd ((cast_eq_zero (by decide)).1 h2) (by decide)
open Sodium.ScalarmultLow (c_add c_mul c_sqr c_sub)

/-! ### fe25519_notsquare = ¬ is_square (Euler's criterion) -/

theorem IsPow.sqmul {x s a j k : Nat} (n : Nat) (hs : IsPow x s j) (ha : IsPow x a k) :
    IsPow x (fe25519_sqmul specOps s n a) (2 ^ n * j + k) := (IsPow.sqN n hs).mul ha

/-- the addition chain of `fe25519_notsquare` computes x^((p-1)/2) -/
theorem notsquare_chain (x : Nat) :
    fe25519_notsquare specOps x =
      (((F25519.toBytes (F25519.pow x ((F25519.p - 1) / 2))).getD 1 0) &&& 1).toUInt32.toInt32 := by
  have x1 : IsPow x x 1 := IsPow.one x
  have a10 : IsPow x _ 2 := x1.mul x1
  have a11 : IsPow x _ 3 := x1.mul a10
  have a1100 : IsPow x _ 12 := (a11.sq.sq).cast (by decide)
  have a1111 : IsPow x _ 15 := a11.mul a1100
  have af0 : IsPow x _ 240 := (a1111.sq.sq.sq.sq).cast (by decide)
  have aff : IsPow x _ (2 ^ 8 - 1) := (a1111.mul af0).cast (by decide)
  have t1 : IsPow x _ (2 ^ 10 - 1) := (IsPow.sqmul 2 aff a11).cast (by decide)
  have t2 : IsPow x _ (2 ^ 20 - 1) := (IsPow.sqmul 10 t1 t1).cast (by decide)
  have t3 : IsPow x _ (2 ^ 30 - 1) := (IsPow.sqmul 10 t2 t1).cast (by decide)
  have t4 : IsPow x _ (2 ^ 60 - 1) := (IsPow.sqmul 30 t3 t3).cast (by decide)
  have t5 : IsPow x _ (2 ^ 120 - 1) := (IsPow.sqmul 60 t4 t4).cast (by decide)
  have t6 : IsPow x _ (2 ^ 240 - 1) := (IsPow.sqmul 120 t5 t5).cast (by decide)
  have t7 : IsPow x _ (2 ^ 250 - 1) := (IsPow.sqmul 10 t6 t1).cast (by decide)
  have t8 : IsPow x _ (2 ^ 253 - 5) := (IsPow.sqmul 3 t7 a11).cast (by decide)
  have t9 : IsPow x _ ((F25519.p - 1) / 2) := (t8.sq).cast (by decide +kernel)
  unfold IsPow at t9
  rw [Fe51P.pow_eq, ← t9, Nat.mod_eq_of_lt (sqr_lt _)]
  rfl

set_option maxRecDepth 100000 in
theorem notsquare_eq (x : Nat) : fe25519_notsquare specOps x = b2i (!F25519.isSquare x) := by
  rw [notsquare_chain]
  unfold F25519.isSquare
  dsimp only
  have hl := pow_lt x ((F25519.p - 1) / 2)
  have hc := chi_cases (x : F)
  rw [chi, ← c_pow] at hc
  generalize F25519.pow x ((F25519.p - 1) / 2) = l at *
  rcases hc with h | h | h
  · have : l = 0 := (cast_eq_zero hl).1 h
    subst this; decide +kernel
  · have : l = 1 := cast_inj hl (by decide) (by simpa using h)
    subst this; decide +kernel
  · have : l = F25519.p - 1 := cast_inj hl (by decide) (by
      rw [h, Nat.cast_sub (by decide), ZMod.natCast_self]; simp)
    subst this; decide +kernel
open Sodium.ScalarmultLow (c_add c_mul c_sqr c_sub)

/-! ### fe25519_unchecked_sqrt / fe25519_sqrt against the RFC 8032 square root -/

theorem isZero_sub' (a b : Nat) : F25519.isZero (F25519.sub a b) = (a % F25519.p == b % F25519.p) := by
  rw [Bool.eq_iff_iff]
  simp only [F25519.isZero, F25519.sub, beq_iff_eq, p_val]
  omega

theorem c_sqrtM1_sq : (F25519.sqrtM1 : F) * (F25519.sqrtM1 : F) = -1 := by
  have h : F25519.sqr F25519.sqrtM1 = F25519.neg 1 := by decide +kernel
  have := congrArg (Nat.cast : Nat → F) h
  rwa [c_sqr, c_neg, Nat.cast_one] at this

theorem sqr_mul_sqrtM1 (X : Nat) : F25519.sqr (F25519.mul X F25519.sqrtM1) = F25519.neg (F25519.sqr X) := by
  apply cast_inj (sqr_lt _) (neg_lt _)
  rw [c_sqr, c_mul, c_neg, c_sqr]
  linear_combination ((X : F) * X) * c_sqrtM1_sq

theorem beq_neg_comm {u v : Nat} (hu : u < F25519.p) (hv : v < F25519.p) :
    (u == F25519.neg v) = (v == F25519.neg u) := by
  rw [Bool.eq_iff_iff]
  simp only [F25519.neg, beq_iff_eq, p_val] at *
  omega

theorem self_eq_neg {u : Nat} (hu : u < F25519.p) (h : u = F25519.neg u) : u = 0 := by
  unfold F25519.neg at h
  rw [Nat.mod_eq_of_lt hu] at h
  by_cases h0 : u = 0
  · exact h0
  · exfalso
    have hm : (F25519.p - u) % F25519.p = F25519.p - u := Nat.mod_eq_of_lt (by omega)
    rw [hm, p_val] at h
    rw [p_val] at hu
    omega

theorem neg_neg' {u : Nat} (hu : u < F25519.p) : F25519.neg (F25519.neg u) = u := by
  apply cast_inj (neg_lt _) hu
  rw [c_neg, c_neg, neg_neg]

theorem pow_succ_eq (a : Nat) :
    F25519.mul (F25519.pow a ((F25519.p - 5) / 8)) a = F25519.pow (a % F25519.p) ((F25519.p + 3) / 8) := by
  apply cast_inj (mul_lt _ _) (pow_lt _ _)
  rw [c_mul, c_pow, c_pow, c_mod, ← pow_succ]
  congr 1

theorem pow_zero_sqrt : F25519.pow 0 ((F25519.p + 3) / 8) = 0 := by decide +kernel

theorem sqrt_eq (a : Nat) :
    fe25519_sqrt specOps a =
      match F25519.sqrt a with
      | some x => (0, x)
      | none => (-1, F25519.pow (a % F25519.p) ((F25519.p + 3) / 8)) := by
  unfold F25519.sqrt
  dsimp only
  simp only [fe25519_sqrt, fe25519_unchecked_sqrt]
  simp only [ops_sq, ops_mul, ops_sub, ops_iszero, const_sqrtm1, pow22523_eq, ite_b2i, cmov_b2i, pow_succ_eq,
    sqr_mul_sqrtM1, isZero_sub']
  have ha : a % F25519.p < F25519.p := Nat.mod_lt _ (by decide)
  generalize hX : F25519.pow (a % F25519.p) ((F25519.p + 3) / 8) = X
  have hxx : F25519.sqr X < F25519.p := sqr_lt _
  rw [Nat.mod_eq_of_lt (neg_lt _), beq_neg_comm ha hxx]
  cases h2 : (F25519.sqr X == F25519.neg (a % F25519.p))
  · -- not the flipped sign
    simp only [cond_ff, Nat.mod_eq_of_lt hxx]
    cases h1 : (F25519.sqr X == a % F25519.p)
    · simp only [ite_ff]; rfl
    · simp only [ite_T]; rfl
  · simp only [cond_tt, sqr_mul_sqrtM1, Nat.mod_eq_of_lt (neg_lt _)]
    have hn : (F25519.neg (F25519.sqr X) == a % F25519.p) = true := by
      rw [beq_iff_eq] at h2 ⊢
      rw [h2, neg_neg' ha]
    rw [hn]
    cases h1 : (F25519.sqr X == a % F25519.p)
    · simp only [ite_ff, ite_T]; rfl
    · -- both signs: a = 0
      rw [beq_iff_eq] at h1 h2
      have h0 : a % F25519.p = 0 := self_eq_neg ha (h1.symm.trans h2)
      rw [h0] at hX
      rw [pow_zero_sqrt] at hX
      subst hX
      simp only [ite_T]
      decide +kernel
open Sodium.ScalarmultLow (c_add c_mul c_sqr c_sub)

/-! ### ge25519_mont_to_ed = the rational map of RFC 9380 Appendix D.1 -/

theorem inv_zero' : F25519.inv 0 = 0 := by decide +kernel

theorem inv_lt (a : Nat) : F25519.inv a < F25519.p := pow_lt _ _

theorem inv_ne_zero' {a : Nat} (ha : a < F25519.p) (h : a ≠ 0) : F25519.inv a ≠ 0 := by
  intro h0
  have := congrArg (Nat.cast : Nat → F) h0
  rw [c_inv, Nat.cast_zero, inv_eq_zero] at this
  exact h ((cast_eq_zero ha).1 this)

theorem mul_zero' (a : Nat) : F25519.mul a 0 = 0 := by simp [F25519.mul]
theorem zero_mul' (a : Nat) : F25519.mul 0 a = 0 := by simp [F25519.mul]

theorem isZero_of_lt {a : Nat} (ha : a < F25519.p) : F25519.isZero a = (a == 0) := by
  rw [F25519.isZero, Nat.mod_eq_of_lt ha]

theorem montToEdwards_zero (s t : Nat) (h : F25519.mul (F25519.add s 1) t = 0) :
    H2c.montToEdwards s t = (0, 1) := by
  unfold H2c.montToEdwards
  simp [h]

theorem montToEdwards_ne (s t : Nat) (h : F25519.mul (F25519.add s 1) t ≠ 0) :
    H2c.montToEdwards s t =
      (F25519.mul (F25519.mul (F25519.mul H2c.sqrtNeg486664 s) (F25519.add s 1)) (F25519.inv (F25519.mul (F25519.add s 1) t)),
       F25519.mul (F25519.mul (F25519.sub s 1) t) (F25519.inv (F25519.mul (F25519.add s 1) t))) := by
  unfold H2c.montToEdwards
  simp [h]

theorem mont_to_ed_eq (x y : Nat) : ge25519_mont_to_ed specOps x y = H2c.montToEdwards x y := by
  simp only [ge25519_mont_to_ed]
  simp only [ops_mul, ops_sub, ops_add, ops_one, ops_iszero, ops_invert, const_sqrtam2, ite_b2i, cmov_b2i]
  rw [isZero_of_lt (inv_lt _)]
  by_cases hz : F25519.mul (F25519.add x 1) y = 0
  · rw [montToEdwards_zero x y hz, hz, inv_zero']
    rw [Prod.mk.injEq]
    constructor
    · rw [mul_zero', zero_mul']
    · rw [beq_self_eq_true, cond_tt]
  · rw [montToEdwards_ne x y hz]
    have hi : (F25519.inv (F25519.mul (F25519.add x 1) y) == 0) = false := by
      simpa using inv_ne_zero' (mul_lt _ _) hz
    rw [hi, cond_ff]
    generalize F25519.inv _ = I
    rw [Prod.mk.injEq]
    constructor
    · rw [mul_comm' x, mul_assoc', mul_assoc', mul_comm' I, ← mul_assoc', ← mul_assoc']
    · rw [mul_comm' _ (F25519.sub x 1), ← mul_assoc', mul_assoc', mul_comm' I y, ← mul_assoc']
open Sodium.ScalarmultLow (c_add c_mul c_sqr c_sub)

/-! ### Elligator 2: the square root always exists (`abort()` is unreachable) -/

theorem chi_neg_one : chi (-1 : F) = 1 := by
  unfold chi
  exact Even.neg_one_pow (by decide +kernel)

/-- 1 + 2r² ≠ 0: -1/2 is not a square -/
theorem one_add_two_sq_ne_zero (r : F) : 1 + 2 * (r * r) ≠ 0 := by
  intro h
  have h1 : 2 * (r * r) = -1 := by linear_combination h
  have h2 := congrArg chi h1
  rw [chi_mul, chi_mul, chi_two, chi_neg_one, chi_sq_mul] at h2
  split at h2
  · simp at h2
  · have h3 : (-1 : F) = 1 := by simpa using h2
    exact one_ne_neg_one h3.symm

/-- g(x) = x³ + A·x² + x in the shape of `H2c.montRhs` -/
def gF (A x : F) : F := (x * x) * x + A * (x * x) + x

theorem ell_key (A q x1 : F) (h : -x1 - A = q * x1) : gF A (-x1 - A) = q * gF A x1 := by
  unfold gF
  linear_combination (1 - x1 * (-x1 - A)) * h

theorem ell_x2 (A q I : F) (hI : I * (1 + q) = 1) : -(-(A * I)) - A = q * (-(A * I)) := by
  linear_combination A * hI

/-- if χ(a) ∈ {0, 1} the RFC 8032 square-root procedure succeeds -/
theorem sqrt_isSome_of_chi (a : Nat) (h : chi (a : F) = 0 ∨ chi (a : F) = 1) : (F25519.sqrt a).isSome = true := by
  unfold F25519.sqrt
  dsimp only
  have ha : a % F25519.p < F25519.p := Nat.mod_lt _ (by decide)
  generalize hX : F25519.pow (a % F25519.p) ((F25519.p + 3) / 8) = X
  have hXF : (X : F) * X = (a : F) * (a : F) ^ ((F25519.p - 1) / 4) := by
    rw [← hX, c_pow, c_mod, ← pow_add, ← pow_succ']
    congr 1
  have hw : ((a : F) ^ ((F25519.p - 1) / 4)) * ((a : F) ^ ((F25519.p - 1) / 4)) = chi (a : F) := by
    rw [chi, ← pow_add]; congr 1
  rcases h with h | h
  · -- a = 0
    have h0 : (a : F) = 0 := pow_eq_zero_iff (by decide) |>.1 h
    have : F25519.sqr X = a % F25519.p := by
      apply cast_inj (sqr_lt _) ha
      rw [c_sqr, c_mod, hXF, h0]; ring
    rw [beq_iff_eq.2 this]; rfl
  · rw [h] at hw
    rcases mul_self_eq_one_iff.1 hw with hw1 | hw1
    · have : F25519.sqr X = a % F25519.p := by
        apply cast_inj (sqr_lt _) ha
        rw [c_sqr, c_mod, hXF, hw1]; ring
      rw [beq_iff_eq.2 this]; rfl
    · have : F25519.sqr X = F25519.neg (a % F25519.p) := by
        apply cast_inj (sqr_lt _) (neg_lt _)
        rw [c_sqr, c_neg, c_mod, hXF, hw1]; ring
      rw [beq_iff_eq.2 this]
      split <;> rfl
open Sodium.ScalarmultLow (c_add c_mul c_sqr c_sub)

/-! ### ge25519_elligator2 = map_to_curve_elligator2 (RFC 9380 §6.7.1), before the sign of y is fixed -/

/-- x1 = -A / (1 + 2u²) -/
def ell2X1 (u : Nat) : Nat :=
  F25519.neg (F25519.mul H2c.montA (F25519.inv (F25519.add 1 (F25519.mul 2 (F25519.sqr u)))))

/-- Elligator 2 without the final choice of the sign of y: (x, sqrt(g(x)), gx1_is_square) -/
def ell2Raw (u : Nat) : Nat × Nat × Bool :=
  let x1 := ell2X1 u
  let e := F25519.isSquare (H2c.montRhs x1)
  let x := bif e then x1 else F25519.sub (F25519.neg x1) H2c.montA
  (x, (F25519.sqrt (H2c.montRhs x)).getD 0, e)

theorem c_montRhs (x : Nat) : ((H2c.montRhs x : Nat) : F) = gF (H2c.montA : F) (x : F) := by
  unfold H2c.montRhs gF
  rw [c_add, c_add, c_mul, c_mul, c_sqr]

theorem c_x1 (u : Nat) :
    ((ell2X1 u : Nat) : F) = -((H2c.montA : F) * (1 + 2 * ((u : F) * (u : F)))⁻¹) := by
  unfold ell2X1
  rw [c_neg, c_mul, c_inv, c_add, c_mul, c_sqr]
  norm_num

theorem montA_ne_zero : ((H2c.montA : Nat) : F) ≠ 0 := by
  intro h
  exact absurd ((cast_eq_zero (by decide)).1 h) (by decide)

theorem x1_ne_zero (u : Nat) : (ell2X1 u == 0) = false := by
  rw [beq_eq_false_iff_ne]
  intro h
  have := congrArg (Nat.cast : Nat → F) h
  rw [c_x1, Nat.cast_zero, neg_eq_zero, mul_eq_zero] at this
  rcases this with h1 | h1
  · exact montA_ne_zero h1
  · exact one_add_two_sq_ne_zero _ (inv_eq_zero.1 h1)

theorem chi_of_isSquare (a : Nat) :
    (F25519.isSquare a = true → (chi (a : F) = 0 ∨ chi (a : F) = 1)) ∧
    (F25519.isSquare a = false → chi (a : F) = -1) := by
  unfold F25519.isSquare
  dsimp only
  have hl := pow_lt a ((F25519.p - 1) / 2)
  have hc : ((F25519.pow a ((F25519.p - 1) / 2) : Nat) : F) = chi (a : F) := by rw [c_pow, chi]
  generalize F25519.pow a ((F25519.p - 1) / 2) = l at *
  constructor
  · intro h
    rw [Bool.or_eq_true, beq_iff_eq, beq_iff_eq] at h
    rcases h with h | h
    · left; rw [← hc, h]; simp
    · right; rw [← hc, h]; simp
  · intro h
    rw [Bool.or_eq_false_iff, beq_eq_false_iff_ne, beq_eq_false_iff_ne] at h
    rcases chi_cases (a : F) with h0 | h0 | h0
    · rw [← hc] at h0; exact absurd ((cast_eq_zero hl).1 h0) h.1
    · rw [← hc] at h0; exact absurd (cast_inj hl (by decide) (by simpa using h0)) h.2
    · exact h0

/-- the x chosen by Elligator 2 always has a square g(x): `ge25519_elligator2` never reaches `abort()` -/
theorem ell2_sqrt_isSome (u : Nat) : (F25519.sqrt (H2c.montRhs (ell2Raw u).1)).isSome = true := by
  unfold ell2Raw
  dsimp only
  cases he : F25519.isSquare (H2c.montRhs (ell2X1 u))
  · -- gx1 is not a square: g(x2) = 2u²·g(x1)
    rw [cond_ff]
    apply sqrt_isSome_of_chi
    have h1 := (chi_of_isSquare _).2 he
    rw [c_montRhs] at h1
    have hT := one_add_two_sq_ne_zero (u : F)
    have hI : (1 + 2 * ((u : F) * (u : F)))⁻¹ * (1 + 2 * ((u : F) * (u : F))) = 1 := inv_mul_cancel₀ hT
    have hx2 := ell_x2 (H2c.montA : F) (2 * ((u : F) * (u : F))) _ hI
    rw [← c_x1] at hx2
    have hk := ell_key _ _ _ hx2
    rw [c_montRhs, c_sub, c_neg, hk, chi_mul, chi_mul, chi_mul, chi_two, h1, mul_assoc (-1 : F), chi_sq_mul]
    split
    · left; ring
    · right; ring
  · rw [cond_tt]
    exact sqrt_isSome_of_chi _ ((chi_of_isSquare _).1 he)
open Sodium.ScalarmultLow (c_add c_mul c_sqr c_sub)

theorem add_comm' (a b : Nat) : F25519.add a b = F25519.add b a := by
  unfold F25519.add; rw [Nat.add_comm]

theorem gx_eq (x : Nat) :
    F25519.add (F25519.add (F25519.mul x (F25519.sqr x)) x) (F25519.mul (F25519.sqr x) H2c.montA)
      = H2c.montRhs x := by
  unfold H2c.montRhs
  apply cast_inj (add_lt _ _) (add_lt _ _)
  simp only [c_add, c_mul, c_sqr]
  ring

theorem sub_zero' {a : Nat} (ha : a < F25519.p) : F25519.sub a 0 = a := by
  unfold F25519.sub
  rw [p_val] at *
  omega

theorem ell2X1_lt (u : Nat) : ell2X1 u < F25519.p := neg_lt _

/-- `ge25519_elligator2` over the specification field: never aborts, and returns the x, the root
    computed by `fe25519_sqrt` (sign not yet chosen) and `notsquare` = ¬ is_square(g(x1)) -/
theorem elligator2_eq (r : Nat) :
    ge25519_elligator2 specOps r =
      some ((ell2Raw r).1, (ell2Raw r).2.1, b2i (!(ell2Raw r).2.2)) := by
  have hx1 : F25519.neg (F25519.mul (F25519.inv (F25519.add (F25519.mul 2 (F25519.sqr r)) 1)) H2c.montA)
      = ell2X1 r := by
    unfold ell2X1; rw [mul_comm', add_comm']
  have hone : (1 : UInt64).toNat = 1 := rfl
  simp only [ge25519_elligator2, ge25519_xmont_to_ymont]
  simp only [ops_sq, ops_mul, ops_sub, ops_add, ops_neg, ops_zero, ops_invert, ops_mul32, ops_sq2, ops_addLimb0,
    const_A, const_A_32, hone, hx1, gx_eq, notsquare_eq, cmov_b2i, sqrt_eq]
  have hsome := ell2_sqrt_isSome r
  unfold ell2Raw at hsome ⊢
  dsimp only at hsome ⊢
  cases he : F25519.isSquare (H2c.montRhs (ell2X1 r))
  · rw [he] at hsome
    simp only [Bool.not_false, cond_tt, cond_ff] at hsome ⊢
    obtain ⟨y, hy⟩ := Option.isSome_iff_exists.1 hsome
    rw [hy]
    rfl
  · rw [he] at hsome
    simp only [Bool.not_true, cond_tt, cond_ff, sub_zero' (ell2X1_lt r)] at hsome ⊢
    obtain ⟨y, hy⟩ := Option.isSome_iff_exists.1 hsome
    rw [hy]
    rfl
open Sodium.ScalarmultLow (c_add c_mul c_sqr c_sub)

/-- the sign choice of RFC 9380 §6.7.1: sgn0(y) = 1 iff g(x1) is a square -/
def normY (y : Nat) (e : Bool) : Nat := bif (F25519.isNegative y != e) then F25519.neg y else y

/-- `H2c.elligator2` is `ell2Raw` followed by the sign choice (the branch `x1 == 0` of the
    specification is dead: 1 + 2u² ≠ 0 and A ≠ 0) -/
theorem spec_elligator2 (u : Nat) :
    H2c.elligator2 u = ((ell2Raw u).1, normY (ell2Raw u).2.1 (ell2Raw u).2.2, (ell2Raw u).2.2) := by
  unfold H2c.elligator2 ell2Raw normY
  dsimp only
  rw [show F25519.neg (F25519.mul H2c.montA (F25519.inv (F25519.add 1 (F25519.mul 2 (F25519.sqr u))))) = ell2X1 u
    from rfl]
  rw [x1_ne_zero u, if_neg Bool.false_ne_true]
  cases he : F25519.isSquare (H2c.montRhs (ell2X1 u))
  · rw [if_neg Bool.false_ne_true, if_neg Bool.false_ne_true, cond_ff]
    generalize (F25519.sqrt _).getD 0 = y
    cases hb : (F25519.isNegative y != false)
    · rw [if_neg Bool.false_ne_true, cond_ff]
    · rw [if_pos rfl, cond_tt]
  · rw [if_pos rfl, if_pos rfl, cond_tt]
    generalize (F25519.sqrt _).getD 0 = y
    cases hb : (F25519.isNegative y != true)
    · rw [if_neg Bool.false_ne_true, cond_ff]
    · rw [if_pos rfl, cond_tt]
open Sodium.ScalarmultLow (c_add c_mul c_sqr c_sub)

/-! ### fe25519_reduce64: 64 little-endian bytes modulo p -/

theorem two255 : (57896044618658097711785492504343953926634992332820282019728792003956564819968 : F) = 19 := by
  have h : ((F25519.p : Nat) : F) = 0 := ZMod.natCast_self _
  have hp : F25519.p + 19 = 2 ^ 255 := by decide +kernel
  have := congrArg (Nat.cast : Nat → F) hp
  rw [Nat.cast_add, h] at this
  push_cast at this
  rw [← this]; ring

set_option maxRecDepth 100000 in
theorem shr7_toNat : ∀ z : UInt8, (z >>> 7).toNat = z.toNat / 128 := by decide +kernel

theorem topbit32 (n : Bytes) (hn : n.length = 32) : (n.getD 31 0 >>> 7).toNat = le n / 2 ^ 255 := by
  obtain ⟨a, mid, z, hm, rfl⟩ := ScalarP.split32 n hn
  have hg : (a :: (mid ++ [z])).getD 31 0 = z := by simp [hm]
  rw [hg, shr7_toNat, ScalarP.le_split32 _ _ _ hm]
  have := a.toNat_lt; have := z.toNat_lt; have := Sodium.le_lt mid; rw [hm] at this
  omega

theorem reduce64_const (b0 b1 : UInt8) (h0 : b0.toNat ≤ 1) (h1 : b1.toNat ≤ 1) :
    ((b0.toUInt32.toInt32 * (19 : Int32) + b1.toUInt32.toInt32 * (722 : Int32)).toInt64.toUInt64).toNat
      = 19 * b0.toNat + 722 * b1.toNat := by
  have e0 : b0 = 0 ∨ b0 = 1 := by
    rcases Nat.le_one_iff_eq_zero_or_eq_one.1 h0 with h | h
    · left; exact UInt8.toNat_inj.1 h
    · right; exact UInt8.toNat_inj.1 h
  have e1 : b1 = 0 ∨ b1 = 1 := by
    rcases Nat.le_one_iff_eq_zero_or_eq_one.1 h1 with h | h
    · left; exact UInt8.toNat_inj.1 h
    · right; exact UInt8.toNat_inj.1 h
  rcases e0 with rfl | rfl <;> rcases e1 with rfl | rfl <;> decide

theorem fromBytesMasked_set31 (n : Bytes) (hn : n.length = 32) :
    F25519.fromBytesMasked (n.set 31 (n.getD 31 0 &&& 0x7f)) = (le n % 2 ^ 255) % F25519.p := by
  have h := mask31_le n hn
  rw [List.take_of_length_le (by omega)] at h
  unfold F25519.fromBytesMasked
  rw [List.take_of_length_le (by simp [hn]), h, Nat.mod_mod]

theorem reduce64_eq (h : Bytes) (hh : h.length = 64) :
    fe25519_reduce64 specOps h = le (h.take 64) % F25519.p := by
  have hlo : (h.take 32).length = 32 := by simp [hh]
  have hhi : ((h.drop 32).take 32).length = 32 := by simp [hh]
  have hsplit : h.take 64 = h.take 32 ++ (h.drop 32).take 32 := by
    rw [List.take_of_length_le (by omega)]
    have : (h.drop 32).take 32 = h.drop 32 := List.take_of_length_le (by simp [hh])
    rw [this, List.take_append_drop]
  have g31 : h.getD 31 0 = (h.take 32).getD 31 0 := by
    simp [List.getD_eq_getElem?_getD]
  have g63 : h.getD 63 0 = ((h.drop 32).take 32).getD 31 0 := by
    simp [List.getD_eq_getElem?_getD, List.getElem?_drop]
  simp only [fe25519_reduce64, ops_frombytes, ops_addLimb0, ops_addMul38, ops_reduce]
  rw [fromBytesMasked_set31 _ hlo, fromBytesMasked_set31 _ hhi, g31, g63]
  have t0 := topbit32 _ hlo
  have t1 := topbit32 _ hhi
  have l0 := ScalarP.le_lt32 _ hlo
  have l1 := ScalarP.le_lt32 _ hhi
  rw [reduce64_const _ _ (by rw [t0]; omega) (by rw [t1]; omega), t0, t1, hsplit, Sodium.le_append, hlo]
  generalize le (h.take 32) = A at *
  generalize le ((h.drop 32).take 32) = B at *
  apply cast_inj (Nat.mod_lt _ (by decide)) (Nat.mod_lt _ (by decide))
  rw [c_mod, c_mod, c_add, c_add, c_mul, c_mod, c_mod]
  have hA := (Nat.mod_add_div A (2 ^ 255)).symm
  have hB := (Nat.mod_add_div B (2 ^ 255)).symm
  generalize A % 2 ^ 255 = L0 at *
  generalize A / 2 ^ 255 = b0 at *
  generalize B % 2 ^ 255 = L1 at *
  generalize B / 2 ^ 255 = b1 at *
  subst hA hB
  push_cast
  have h256 : (115792089237316195423570985008687907853269984665640564039457584007913129639936 : F) = 2 * 57896044618658097711785492504343953926634992332820282019728792003956564819968 := by norm_num
  rw [h256]
  linear_combination (-(b0 : F) - 2 * L1 - 2 * ((57896044618658097711785492504343953926634992332820282019728792003956564819968 : F) + 19) * b1) * two255
open Sodium.ScalarmultLow (c_add c_mul c_sqr c_sub)

/-! ### ge25519_from_hash = map_to_curve_elligator2_edwards25519 + clear_cofactor (RFC 9380 §6.8.2, §7) -/

theorem ysign_eq (y : Nat) (e : Bool) :
    specOps.cmov y (F25519.neg y)
      ((b2i (F25519.isNegative y)) ^^^ ((b2i (!e) ^^^ 1).toUInt32.toUInt8).toUInt32.toInt32).toUInt32
      = normY y e := by
  unfold normY
  cases e <;> cases F25519.isNegative y <;> rfl

theorem montToEdwards_lt (s t : Nat) :
    (H2c.montToEdwards s t).1 < F25519.p ∧ (H2c.montToEdwards s t).2 < F25519.p := by
  by_cases hz : F25519.mul (F25519.add s 1) t = 0
  · rw [montToEdwards_zero s t hz]; decide
  · rw [montToEdwards_ne s t hz]; exact ⟨mul_lt _ _, mul_lt _ _⟩

theorem clear_cofactor_eq (P : P3 Nat) :
    ge25519_clear_cofactor specGe P = ofPoint (Ed25519.mulByCofactor (toPoint P)) := by
  rw [ge25519_clear_cofactor]; rfl

theorem ofAffine_of_lt {v w : Nat} (hv : v < F25519.p) (hw : w < F25519.p) :
    Ed25519.ofAffine v w = toPoint ⟨v, w, 1, F25519.mul v w⟩ := by
  unfold Ed25519.ofAffine toPoint
  rw [Nat.mod_eq_of_lt hv, Nat.mod_eq_of_lt hw]

theorem spec_mapToCurve (u : Nat) :
    H2c.mapToCurveElligator2Edwards25519 u =
      Ed25519.ofAffine
        (H2c.montToEdwards (ell2Raw u).1 (normY (ell2Raw u).2.1 (ell2Raw u).2.2)).1
        (H2c.montToEdwards (ell2Raw u).1 (normY (ell2Raw u).2.1 (ell2Raw u).2.2)).2 := by
  unfold H2c.mapToCurveElligator2Edwards25519
  rw [spec_elligator2]

theorem ge_from_hash_eq (h : Bytes) (hh : h.length = 64) :
    ge25519_from_hash specOps specGe h = some (H2c.fromHash64 h) := by
  unfold H2c.fromHash64 H2c.clearCofactor
  rw [spec_mapToCurve]
  rw [ge25519_from_hash, reduce64_eq h hh, elligator2_eq]
  dsimp only
  generalize ell2Raw _ = raw
  rw [ops_neg, ops_isnegative, ite_b2i, ysign_eq, mont_to_ed_eq, clear_cofactor_eq, ops_mul, ops_one]
  have hlt := montToEdwards_lt raw.1 (normY raw.2.1 raw.2.2)
  generalize H2c.montToEdwards _ _ = vw at *
  rw [ofAffine_of_lt hlt.1 hlt.2]
  rfl
open Sodium.ScalarmultLow (c_add c_mul c_sqr c_sub)

/-! ### ge25519_from_uniform (libsodium's legacy 32-byte map) -/

/-- the sign choice of `ge25519_from_uniform`: the Edwards x gets the sign bit `sg` -/
def normX (v : Nat) (sg : Bool) : Nat := bif (F25519.isNegative v != sg) then F25519.neg v else v

set_option maxRecDepth 100000 in
theorem shr7_cases : ∀ z : UInt8, z >>> 7 = 0 ∨ z >>> 7 = 1 := by decide +kernel

theorem xsign_eq (X : Nat) (z : UInt8) (hz : z = 0 ∨ z = 1) :
    specOps.cmov X (F25519.neg X) ((b2i (F25519.isNegative X)) ^^^ z.toUInt32.toInt32).toUInt32
      = normX X (z.toNat == 1) := by
  unfold normX
  rcases hz with rfl | rfl <;> cases F25519.isNegative X <;> rfl

/-- what `ge25519_from_uniform` computes (it never aborts): Elligator 2 on the low 255 bits, the
    rational map, the sign of the Edwards x set to bit 255 of the input, cofactor clearing, encoding -/
theorem ge_from_uniform_eq (r : Bytes) (hr : r.length = 32) :
    ge25519_from_uniform specOps specGe r =
      some (Ed25519.encode (Ed25519.mulByCofactor (Ed25519.ofAffine
        (normX (H2c.montToEdwards (ell2Raw ((le r % 2 ^ 255) % F25519.p)).1
          (ell2Raw ((le r % 2 ^ 255) % F25519.p)).2.1).1 (le r / 2 ^ 255 == 1))
        (H2c.montToEdwards (ell2Raw ((le r % 2 ^ 255) % F25519.p)).1
          (ell2Raw ((le r % 2 ^ 255) % F25519.p)).2.1).2))) := by
  have ht : r.take 32 = r := List.take_of_length_le (by omega)
  rw [ge25519_from_uniform, ht, ops_frombytes, fromBytesMasked_set31 r hr, elligator2_eq]
  dsimp only
  generalize ell2Raw _ = raw
  rw [mont_to_ed_eq, ops_neg, ops_isnegative, ite_b2i, xsign_eq _ _ (shr7_cases _), topbit32 r hr,
    clear_cofactor_eq, ops_mul, ops_one]
  have hlt := montToEdwards_lt raw.1 raw.2.1
  generalize H2c.montToEdwards _ _ = vw at *
  have hn : normX vw.1 (le r / 2 ^ 255 == 1) < F25519.p := by
    unfold normX; cases (F25519.isNegative vw.1 != (le r / 2 ^ 255 == 1))
    · exact hlt.1
    · exact neg_lt _
  rw [ofAffine_of_lt hn hlt.2]
  rfl
open Sodium.ScalarmultLow (c_add c_mul c_sqr c_sub)

/-! the result of `ge25519_from_uniform` does not depend on the sign of the Montgomery y, so it equals
    `H2c.fromUniform`, which runs the RFC 9380 Elligator 2 (with its sign choice for y) first -/

theorem neg_zero' : F25519.neg 0 = 0 := by decide +kernel

theorem neg_of_pos {v : Nat} (hv : v < F25519.p) (h0 : v ≠ 0) : F25519.neg v = F25519.p - v := by
  unfold F25519.neg
  rw [Nat.mod_eq_of_lt hv, Nat.mod_eq_of_lt (by omega)]

theorem isNegative_neg {v : Nat} (hv : v < F25519.p) (h0 : v ≠ 0) :
    F25519.isNegative (F25519.neg v) = !F25519.isNegative v := by
  rw [neg_of_pos hv h0]
  unfold F25519.isNegative
  rw [Nat.mod_eq_of_lt hv, Nat.mod_eq_of_lt (show F25519.p - v < F25519.p by omega)]
  rw [p_val] at *
  have h2 : (57896044618658097711785492504343953926634992332820282019728792003956564819949 - v) % 2 = 1 - v % 2 := by
    omega
  rw [h2]
  rcases Nat.mod_two_eq_zero_or_one v with h | h <;> rw [h] <;> rfl

theorem normX_neg {v : Nat} (hv : v < F25519.p) (sg : Bool) : normX (F25519.neg v) sg = normX v sg := by
  by_cases h0 : v = 0
  · rw [h0, neg_zero']
  · unfold normX
    rw [isNegative_neg hv h0, neg_neg' hv]
    cases F25519.isNegative v <;> cases sg <;> rfl

theorem montToEdwards_neg (x y : Nat) :
    H2c.montToEdwards x (F25519.neg y) =
      (F25519.neg (H2c.montToEdwards x y).1, (H2c.montToEdwards x y).2) := by
  have hden : ((F25519.mul (F25519.add x 1) (F25519.neg y) : Nat) : F)
      = -((F25519.mul (F25519.add x 1) y : Nat) : F) := by
    rw [c_mul, c_mul, c_neg]; ring
  by_cases hz : F25519.mul (F25519.add x 1) y = 0
  · have hz' : F25519.mul (F25519.add x 1) (F25519.neg y) = 0 := by
      apply (cast_eq_zero (mul_lt _ _)).1
      rw [hden, hz]; simp
    rw [montToEdwards_zero x y hz, montToEdwards_zero x _ hz', neg_zero']
  · have hz' : F25519.mul (F25519.add x 1) (F25519.neg y) ≠ 0 := by
      intro h
      apply hz
      apply (cast_eq_zero (mul_lt _ _)).1
      have := congrArg (Nat.cast : Nat → F) h
      rw [hden, Nat.cast_zero, neg_eq_zero] at this
      exact this
    rw [montToEdwards_ne x y hz, montToEdwards_ne x _ hz']
    dsimp only
    rw [Prod.mk.injEq]
    constructor
    · apply cast_inj (mul_lt _ _) (neg_lt _)
      simp only [c_neg, c_mul, c_inv, mul_neg, inv_neg]
    · apply cast_inj (mul_lt _ _) (mul_lt _ _)
      simp only [c_neg, c_mul, c_inv, neg_mul, mul_neg, inv_neg, neg_neg]

theorem ge_from_uniform_spec (r : Bytes) (hr : r.length = 32) :
    ge25519_from_uniform specOps specGe r = some (H2c.fromUniform r) := by
  have ht : r.take 32 = r := List.take_of_length_le (by omega)
  rw [ge_from_uniform_eq r hr]
  unfold H2c.fromUniform H2c.clearCofactor
  conv => rhs; zeta
  rw [ht, spec_elligator2]
  have hsg : (le r / 2 ^ 255 % 2 == 1) = (le r / 2 ^ 255 == 1) := by
    have := ScalarP.le_lt32 r hr
    have h2 : le r / 2 ^ 255 % 2 = le r / 2 ^ 255 := by omega
    rw [h2]
  rw [hsg]
  dsimp only
  generalize hraw : ell2Raw _ = raw
  have hlt := montToEdwards_lt raw.1 raw.2.1
  have hnorm : normY raw.2.1 raw.2.2 = raw.2.1 ∨ normY raw.2.1 raw.2.2 = F25519.neg raw.2.1 := by
    unfold normY; cases (F25519.isNegative raw.2.1 != raw.2.2)
    · left; rfl
    · right; rfl
  have hn : ∀ v, (if (F25519.isNegative v != (le r / 2 ^ 255 == 1)) = true then F25519.neg v else v)
      = normX v (le r / 2 ^ 255 == 1) := by
    intro v; unfold normX; cases (F25519.isNegative v != (le r / 2 ^ 255 == 1)) <;> rfl
  have key : H2c.montToEdwards raw.1 (normY raw.2.1 raw.2.2) =
      ((H2c.montToEdwards raw.1 raw.2.1).1, (H2c.montToEdwards raw.1 raw.2.1).2) ∨
      H2c.montToEdwards raw.1 (normY raw.2.1 raw.2.2) =
      (F25519.neg (H2c.montToEdwards raw.1 raw.2.1).1, (H2c.montToEdwards raw.1 raw.2.1).2) := by
    rcases hnorm with h | h
    · left; rw [h]
    · right; rw [h, montToEdwards_neg]
  generalize H2c.montToEdwards raw.1 raw.2.1 = vw at *
  rcases key with h | h
  · rw [h]; dsimp only; rw [hn]
  · rw [h]; dsimp only; rw [hn, normX_neg hlt.1]

end Sodium.RistrettoRefP
