import SodiumModel.Proofs.EdSign3Complete
/-
  The exact reading of the final `ge25519_has_small_order` test of the verifier.
-/
open Sodium Sodium.Spec Sodium.Model Sodium.Model.Ge25519
open Sodium.Ge25519P (CurveGroup toPoint K dK Sc Sc2 cast_d)
open Sodium.ScalarmultLow (c_add c_mul c_sqr c_sub)
open Sodium.RistrettoRefP (c_neg c_inv c_mod)
namespace Sodium.EdSignP

theorem four_ne_zero : (4 : K) ≠ 0 := by
  intro h
  have : ((4 : Nat) : K) = 0 := by exact_mod_cast h
  exact absurd ((RistrettoRefP.cast_eq_zero (by decide)).1 this) (by decide)

/-- the pure field statement behind the final test -/
theorem final_field (Nx Ny Dp Dm i : K) :
    (4 * Nx * Dp * (4 * Dm * Dp)⁻¹ = 0 ∨ 4 * Ny * Dm * (4 * Dm * Dp)⁻¹ = 0 ∨
      4 * Ny * Dm * (4 * Dm * Dp)⁻¹ * i = 4 * Nx * Dp * (4 * Dm * Dp)⁻¹ ∨
      4 * Ny * Dm * (4 * Dm * Dp)⁻¹ * i = -(4 * Nx * Dp)) ↔
    (Dm * Dp = 0 ∨ Nx = 0 ∨ Ny = 0 ∨ Ny * i * Dm = Nx * Dp ∨ Ny * i = -(4 * Nx * Dp) * Dp) := by
  by_cases hz : Dm * Dp = 0
  · have : (4 : K) * Dm * Dp = 0 := by rw [mul_assoc, hz, mul_zero]
    simp [hz, this]
  · have hm : Dm ≠ 0 := fun h => hz (by rw [h, zero_mul])
    have hp : Dp ≠ 0 := fun h => hz (by rw [h, mul_zero])
    have h4 := four_ne_zero
    have ex : 4 * Nx * Dp * (4 * Dm * Dp)⁻¹ = Nx / Dm := by field_simp
    have ey : 4 * Ny * Dm * (4 * Dm * Dp)⁻¹ = Ny / Dp := by field_simp
    have a1 : Nx / Dm = 0 ↔ Nx = 0 := by simp [hm]
    have a2 : Ny / Dp = 0 ↔ Ny = 0 := by simp [hp]
    have a3 : Ny / Dp * i = Nx / Dm ↔ Ny * i * Dm = Nx * Dp := by
      rw [div_mul_eq_mul_div, div_eq_div_iff hp hm]
    have a4 : Ny / Dp * i = -(4 * Nx * Dp) ↔ Ny * i = -(4 * Nx * Dp) * Dp := by
      rw [div_mul_eq_mul_div, div_eq_iff hp]
    rw [ex, ey, a1, a2, a3, a4]
    simp [hz]

/-- THE FINAL TEST, exactly as the code computes it: with expected_r = (x1, y1, 1, t1) and the projective output
    Q = (X : Y : Z) of `ge25519_double_scalarmult_vartime`,
      Nx = x1·Y − y1·X,  Ny = y1·Y − x1·X,  Dp = Z + d·t1·X·Y,  Dm = Z − d·t1·X·Y   (the SPOILED denominators: a consistent
      extended point would have d·t1·X·Y/Z there),
    `ge25519_has_small_order(expected_r − p2_to_p3(Q)) = 1` iff a spoiled denominator vanishes, or Nx = 0, or Ny = 0, or one
    of the two order-8 equations on the spoiled coordinates holds -/
theorem final_test_iff (x1 y1 t1 : Nat) (Q : P2 Nat) :
    ge25519_has_small_order specGe (ge25519_p3_sub specGe ⟨x1, y1, 1, t1⟩ (ge25519_p2_to_p3 specGe Q)) = 1 ↔
      (((Q.Z : K) - dK * t1 * Q.X * Q.Y) * (Q.Z + dK * t1 * Q.X * Q.Y) = 0 ∨
       (x1 : K) * Q.Y - y1 * Q.X = 0 ∨ (y1 : K) * Q.Y - x1 * Q.X = 0 ∨
       ((y1 : K) * Q.Y - x1 * Q.X) * (F25519.sqrtM1 : K) * (Q.Z - dK * t1 * Q.X * Q.Y) =
          ((x1 : K) * Q.Y - y1 * Q.X) * (Q.Z + dK * t1 * Q.X * Q.Y) ∨
       ((y1 : K) * Q.Y - x1 * Q.X) * (F25519.sqrtM1 : K) =
          -(4 * ((x1 : K) * Q.Y - y1 * Q.X) * (Q.Z + dK * t1 * Q.X * Q.Y)) * (Q.Z + dK * t1 * Q.X * Q.Y)) := by
  obtain ⟨cx, cy, cz⟩ := check_coords x1 y1 t1 Q
  rw [hso_iff, cx, cy, cz]
  exact final_field _ _ _ _ _

/-- the TRUE difference, for comparison: the RFC 8032 subtraction of a consistent extended point Q' = (X, Y, Z, T) from
    (x1, y1, 1, t1) has the SAME numerators Nx, Ny and the denominators Z ± d·t1·T -/
theorem true_difference_coords (x1 y1 t1 : Nat) (Q : Ed25519.Point) :
    (((Ed25519.sub ⟨x1, y1, 1, t1⟩ Q).X : Nat) : K) = 4 * ((x1 : K) * Q.Y - y1 * Q.X) * (Q.Z + dK * t1 * Q.T) ∧
    (((Ed25519.sub ⟨x1, y1, 1, t1⟩ Q).Y : Nat) : K) = 4 * ((y1 : K) * Q.Y - x1 * Q.X) * (Q.Z - dK * t1 * Q.T) ∧
    (((Ed25519.sub ⟨x1, y1, 1, t1⟩ Q).Z : Nat) : K) = 4 * ((Q.Z : K) + dK * t1 * Q.T) * (Q.Z - dK * t1 * Q.T) := by
  simp only [Ed25519.sub, Ed25519.add, Ed25519.neg, c_add, c_sub, c_mul, c_neg, c_mod, cast_d, Nat.cast_ofNat,
    Nat.cast_one]
  refine ⟨by ring, by ring, by ring⟩

section
variable {G : Type} [AddCommGroup G] (C : CurveGroup G)

/-- GROUP-LEVEL READING.  Let expected_r be the decoded R (affine, representing gR) and let the projective output Q of
    `ge25519_double_scalarmult_vartime` be l·(X, Y, Z) of a representative P of gQ (what `C06Ge.double_scalarmult_correct`
    provides, gQ = S·B − h·A).  Then Δ := `Spec.Ed25519.sub R P` represents gR − gQ, and the numerators tested by the code
    vanish exactly when the x resp. y coordinate of Δ does:  Nx = 0 ⟺ X(Δ) = 0,  Ny = 0 ⟺ Y(Δ) = 0. -/
theorem numerators_group (hF : Faithful C) {gR gQ : G} {xr yr : Nat}
    (hR : C.Rep (Ed25519.ofAffine xr yr) gR) {P : Ed25519.Point} {l : K} (hl : IsUnit l) (hP : C.Rep P gQ)
    {Q : P2 Nat} (hsc : Sc2 l P Q) :
    C.Rep (Ed25519.sub (Ed25519.ofAffine xr yr) P) (gR - gQ) ∧
    ((xr : K) * Q.Y - yr * Q.X = 0 ↔ (((Ed25519.sub (Ed25519.ofAffine xr yr) P).X : Nat) : K) = 0) ∧
    ((yr : K) * Q.Y - xr * Q.X = 0 ↔ (((Ed25519.sub (Ed25519.ofAffine xr yr) P).Y : Nat) : K) = 0) := by
  have hsub := C.rep_sub hR hP
  have hz := isOnCurve_Z (hF.on_curve hsub)
  obtain ⟨tx, ty, tz⟩ := true_difference_coords (xr % F25519.p) (yr % F25519.p) (F25519.mul xr yr) P
  have e : (⟨xr % F25519.p, yr % F25519.p, 1, F25519.mul xr yr⟩ : Ed25519.Point) = Ed25519.ofAffine xr yr := rfl
  rw [e] at tx ty tz
  obtain ⟨sx, sy, sz⟩ := hsc
  rw [tz] at hz
  rw [tx, ty, sx, sy]
  simp only [c_mod] at hz ⊢
  have h4 := four_ne_zero
  have hl0 : l ≠ 0 := hl.ne_zero
  have hp : (P.Z : K) + dK * ((F25519.mul xr yr : Nat) : K) * P.T ≠ 0 := fun h => hz (by rw [h]; ring)
  have hm : (P.Z : K) - dK * ((F25519.mul xr yr : Nat) : K) * P.T ≠ 0 := fun h => hz (by rw [h]; ring)
  refine ⟨hsub, ?_, ?_⟩
  · rw [show (xr : K) * (l * P.Y) - yr * (l * P.X) = l * ((xr : K) * P.Y - yr * P.X) by ring]
    simp [hl0, h4, hp]
  · rw [show (yr : K) * (l * P.Y) - xr * (l * P.X) = l * ((yr : K) * P.Y - xr * P.X) by ring]
    simp [hl0, h4, hm]

/-- a curve point with x = 0 doubles to the neutral element (projectively) -/
theorem double_of_X_zero {P : Ed25519.Point} (hc : Ed25519.isOnCurve P = true) (hx : ((P.X : Nat) : K) = 0) :
    Ed25519.pointEq (Ed25519.double P) Ed25519.identity = true := by
  have hz := isOnCurve_Z hc
  unfold Ed25519.isOnCurve at hc
  simp only [Bool.and_eq_true, beq_iff_eq] at hc
  have hcurve := congrArg (Nat.cast : Nat → K) hc.1.1
  simp only [c_mul, c_sub, c_add, c_sqr, hx] at hcurve
  unfold Ed25519.pointEq Ed25519.identity Ed25519.double
  simp only [Bool.and_eq_true, beq_iff_eq, Ge25519P.mul_eq_iff, c_mul, c_sub, c_add, c_sqr, hx, Nat.cast_one,
    Nat.cast_zero, Nat.cast_ofNat]
  have hY : ((P.Y : Nat) : K) * P.Y = (P.Z : K) * P.Z := by
    have h2 : ((P.Z : Nat) : K) * P.Z ≠ 0 := mul_ne_zero hz hz
    apply mul_right_cancel₀ h2
    linear_combination hcurve
  constructor
  · ring
  · linear_combination (-2 * ((P.Y : Nat) : K) * P.Y) * hY

/-- a point with y = 0 doubles to a point with x = 0 -/
theorem double_of_Y_zero {P : Ed25519.Point} (hy : ((P.Y : Nat) : K) = 0) :
    (((Ed25519.double P).X : Nat) : K) = 0 := by
  unfold Ed25519.double
  simp only [c_mul, c_sub, c_add, c_sqr, hy]
  ring

/-- hence, if moreover only the neutral element is represented by (0 : 1 : 1) (`hid`), a represented point with
    x = 0 or y = 0 has order dividing 4 -/
theorem torsion4 (hF : Faithful C)
    (hid : ∀ {P : Ed25519.Point} {g : G}, C.Rep P g → Ed25519.pointEq P Ed25519.identity = true → g = 0)
    {P : Ed25519.Point} {g : G} (hP : C.Rep P g) (h : ((P.X : Nat) : K) = 0 ∨ ((P.Y : Nat) : K) = 0) :
    (g + g) + (g + g) = 0 := by
  rcases h with h | h
  · have := hid (C.rep_double hP) (double_of_X_zero (hF.on_curve hP) h)
    rw [this, add_zero]
  · have h2 := C.rep_double hP
    exact hid (C.rep_double h2) (double_of_X_zero (hF.on_curve h2) (double_of_Y_zero h))

end

end Sodium.EdSignP
