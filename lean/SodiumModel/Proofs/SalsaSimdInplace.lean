import SodiumModel.Proofs.SalsaSimd
/-
  Helper lemmas for `Properties/C03SalsaSimd.lean`, part 3: the loop bodies of the vectorised Salsa20 when `m == c`
  (`stream_sse2` / `stream_avx2` encrypt the zeroed output buffer in place): every load reads bytes that no earlier
  store of the same pass has written.
-/
open Sodium Sodium.Model Sodium.Model.CoresRef Sodium.Model.SalsaSimd Sodium.Spec Sodium.CoresRefP Sodium.ChachaSimdP
open Sodium.Model.ChachaSimd hiding ROUNDS row_block u1_iter u1_loop u0 u4_doubleRound u4_counters u4_ONEQUAD u4_iter
  u4_loop u8_doubleRound u8_counters u8_ONEQUAD_UNPCK u8_ONEOCTO u8_iter u8_loop u1_iter_inplace u4_ONEQUAD_inplace
  u4_iter_inplace u8_iter_inplace Impl avx2
namespace Sodium.SalsaSimdP

/-! ### u1.h -/

/-- a 4-byte load only sees the 4 bytes at its address -/
theorem load32_seg (X : Bytes) (a : Nat) : load32_le (X.drop a) = load32_le (seg a 4 X) := by
  rw [seg, load32_le_take _ _ (Nat.le_refl _)]

/-- 4-byte stores elsewhere do not change a 4-byte load -/
theorem load32_storeAll (c : Bytes) (L : List (Nat × Bytes)) (a : Nat)
    (h : ∀ p ∈ L, p.2.length = 4 ∧ p.1 + 4 ≤ c.length ∧ (a + 4 ≤ p.1 ∨ p.1 + 4 ≤ a)) :
    load32_le ((storeAll c L).drop a) = load32_le (c.drop a) := by
  rw [load32_seg, load32_seg, storeAll_seg_untouched a 4 c L h (by decide)]

/-- the four stores of one u1.h `ONEQUAD`, as a list -/
def quadStores (A B C D : Nat) (diag0 diag1 diag2 diag3 : V128) (m : Bytes) : List (Nat × Bytes) :=
  [(A * 4, store32_le (mm_cvtsi128_si32 diag0 ^^^ load32_le (m.drop (A * 4)))),
   (B * 4, store32_le (mm_cvtsi128_si32 diag1 ^^^ load32_le (m.drop (B * 4)))),
   (C * 4, store32_le (mm_cvtsi128_si32 diag2 ^^^ load32_le (m.drop (C * 4)))),
   (D * 4, store32_le (mm_cvtsi128_si32 diag3 ^^^ load32_le (m.drop (D * 4))))]

theorem u1_ONEQUAD_eq (A B C D : Nat) (d0 d1 d2 d3 : V128) (m c : Bytes) :
    u1_ONEQUAD A B C D d0 d1 d2 d3 m c =
      (mm_shuffle_epi32 d0 0x39, mm_shuffle_epi32 d1 0x39, mm_shuffle_epi32 d2 0x39, mm_shuffle_epi32 d3 0x39,
       storeAll c (quadStores A B C D d0 d1 d2 d3 m)) := rfl

/-- one in-place `ONEQUAD` on a buffer obtained from `c` by earlier 4-byte stores `L` that avoid the four words it
    reads: it reads what the separate-buffer form reads from `c` -/
theorem quad1_step (A B C D : Nat) (d0 d1 d2 d3 : V128) (c : Bytes) (L : List (Nat × Bytes))
    (hL : ∀ p ∈ L, p.2.length = 4 ∧ p.1 + 4 ≤ c.length ∧
      ∀ o ∈ [A * 4, B * 4, C * 4, D * 4], (o + 4 ≤ p.1 ∨ p.1 + 4 ≤ o)) :
    u1_ONEQUAD_inplace A B C D d0 d1 d2 d3 (storeAll c L) = u1_ONEQUAD A B C D d0 d1 d2 d3 c (storeAll c L) := by
  have key : ∀ o ∈ [A * 4, B * 4, C * 4, D * 4], load32_le ((storeAll c L).drop o) = load32_le (c.drop o) :=
    fun o ho => load32_storeAll c L o (fun p hp => ⟨(hL p hp).1, (hL p hp).2.1, (hL p hp).2.2 o ho⟩)
  simp only [u1_ONEQUAD_inplace, u1_ONEQUAD, key (A * 4) (by simp), key (B * 4) (by simp), key (C * 4) (by simp),
    key (D * 4) (by simp)]

/-- u1.h loop body with `m == c` = the separate-buffer body on the old contents -/
theorem u1_iter_inplace_eq (x : W16) (c : Bytes) (hc : 64 ≤ c.length) :
    SalsaSimd.u1_iter_inplace x c = SalsaSimd.u1_iter x c c := by
  simp only [SalsaSimd.u1_iter_inplace, SalsaSimd.u1_iter]
  refine Prod.ext ?_ rfl
  generalize (SalsaSimd.row_block x).diag0 = d0
  generalize (SalsaSimd.row_block x).diag1 = d1
  generalize (SalsaSimd.row_block x).diag2 = d2
  generalize (SalsaSimd.row_block x).diag3 = d3
  have hlen : ∀ w : UInt32, (store32_le w).length = 4 := fun _ => rfl
  have q1 := quad1_step 0 12 8 4 d0 d1 d2 d3 c [] (fun p hp => by cases hp)
  simp only [storeAll] at q1
  rw [q1]
  simp only [u1_ONEQUAD_eq]
  rw [quad1_step 5 1 13 9 _ _ _ _ c (quadStores 0 12 8 4 d0 d1 d2 d3 c) (by
    intro p hp
    simp only [quadStores, List.mem_cons, List.mem_nil_iff, or_false] at hp
    rcases hp with rfl | rfl | rfl | rfl <;> exact ⟨rfl, by simp only []; omega, by dsimp only; decide⟩)]
  simp only [u1_ONEQUAD_eq, storeAll_append]
  rw [quad1_step 10 6 2 14 _ _ _ _ c _ (by
    intro p hp
    simp only [quadStores, List.mem_cons, List.mem_append, List.mem_nil_iff, or_false] at hp
    rcases hp with (rfl | rfl | rfl | rfl) | (rfl | rfl | rfl | rfl) <;>
      exact ⟨rfl, by simp only []; omega, by dsimp only; decide⟩)]
  simp only [u1_ONEQUAD_eq, storeAll_append]
  rw [quad1_step 15 11 7 3 _ _ _ _ c _ (by
    intro p hp
    simp only [quadStores, List.mem_cons, List.mem_append, List.mem_nil_iff, or_false] at hp
    rcases hp with ((rfl | rfl | rfl | rfl) | (rfl | rfl | rfl | rfl)) | (rfl | rfl | rfl | rfl) <;>
      exact ⟨rfl, by simp only []; omega, by dsimp only; decide⟩)]
  simp only [u1_ONEQUAD_eq, storeAll_append]

/-! ### u4.h / u8.h: the store macros are those of the dolbeau ChaCha20 code (same text up to local names) -/

theorem u4_ONEQUAD_eq_chacha : SalsaSimd.u4_ONEQUAD = ChachaSimd.u4_ONEQUAD := rfl
theorem u4_ONEQUAD_inplace_eq_chacha : SalsaSimd.u4_ONEQUAD_inplace = ChachaSimd.u4_ONEQUAD_inplace := rfl
theorem u8_ONEOCTO_eq_chacha : SalsaSimd.u8_ONEOCTO = ChachaSimd.u8_ONEOCTO := rfl

/-- four in-place `ONEQUAD_TRANSPOSE`s at `c + 0 / 16 / 32 / 48` = the separate-buffer ones reading the old contents:
    each reads 16-byte slots that the earlier ones did not write -/
theorem four_quads_inplace (c : Bytes) (hc : 256 ≤ c.length)
    (a0 a1 a2 a3 p0 p1 p2 p3 b0 b1 b2 b3 q0 q1 q2 q3 d0 d1 d2 d3 r0 r1 r2 r3 e0 e1 e2 e3 s0 s1 s2 s3 : V128) :
    ChachaSimd.u4_ONEQUAD_inplace e0 e1 e2 e3 s0 s1 s2 s3
      (ChachaSimd.u4_ONEQUAD_inplace d0 d1 d2 d3 r0 r1 r2 r3
        (ChachaSimd.u4_ONEQUAD_inplace b0 b1 b2 b3 q0 q1 q2 q3
          (ChachaSimd.u4_ONEQUAD_inplace a0 a1 a2 a3 p0 p1 p2 p3 c 0) 16) 32) 48 =
    ChachaSimd.u4_ONEQUAD e0 e1 e2 e3 s0 s1 s2 s3 (c.drop 48)
      (ChachaSimd.u4_ONEQUAD d0 d1 d2 d3 r0 r1 r2 r3 (c.drop 32)
        (ChachaSimd.u4_ONEQUAD b0 b1 b2 b3 q0 q1 q2 q3 (c.drop 16)
          (ChachaSimd.u4_ONEQUAD a0 a1 a2 a3 p0 p1 p2 p3 c c 0) 16) 32) 48 := by
  obtain ⟨A0, A1, A2, A3, hA⟩ := u4_ONEQUAD_stores a0 a1 a2 a3 p0 p1 p2 p3 c 0
  obtain ⟨B0, B1, B2, B3, hB⟩ := u4_ONEQUAD_stores b0 b1 b2 b3 q0 q1 q2 q3 (c.drop 16) 16
  obtain ⟨D0, D1, D2, D3, hD⟩ := u4_ONEQUAD_stores d0 d1 d2 d3 r0 r1 r2 r3 (c.drop 32) 32
  have h0 := quad_step a0 a1 a2 a3 p0 p1 p2 p3 c [] 0 (fun p hp => by cases hp) (by omega)
  simp only [storeAll, List.drop_zero] at h0
  rw [h0, hA c]
  have h1 := quad_step b0 b1 b2 b3 q0 q1 q2 q3 c
    [(0 + 0, A0.toBytes), (0 + 64, A1.toBytes), (0 + 128, A2.toBytes), (0 + 192, A3.toBytes)] 16
    (by
      intro p hp
      simp only [List.mem_cons, List.mem_nil_iff, or_false] at hp
      rcases hp with rfl | rfl | rfl | rfl <;> exact ⟨rfl, by simp only []; omega, by dsimp only; decide⟩)
    (by omega)
  rw [h1, hB, storeAll_append]
  have h2 := quad_step d0 d1 d2 d3 r0 r1 r2 r3 c
    ([(0 + 0, A0.toBytes), (0 + 64, A1.toBytes), (0 + 128, A2.toBytes), (0 + 192, A3.toBytes)] ++
      [(16 + 0, B0.toBytes), (16 + 64, B1.toBytes), (16 + 128, B2.toBytes), (16 + 192, B3.toBytes)]) 32
    (by
      intro p hp
      simp only [List.mem_cons, List.mem_append, List.mem_nil_iff, or_false] at hp
      rcases hp with (rfl | rfl | rfl | rfl) | (rfl | rfl | rfl | rfl) <;>
        exact ⟨rfl, by simp only []; omega, by dsimp only; decide⟩)
    (by omega)
  rw [h2, hD, storeAll_append]
  have h3 := quad_step e0 e1 e2 e3 s0 s1 s2 s3 c
    ([(0 + 0, A0.toBytes), (0 + 64, A1.toBytes), (0 + 128, A2.toBytes), (0 + 192, A3.toBytes)] ++
      [(16 + 0, B0.toBytes), (16 + 64, B1.toBytes), (16 + 128, B2.toBytes), (16 + 192, B3.toBytes)] ++
      [(32 + 0, D0.toBytes), (32 + 64, D1.toBytes), (32 + 128, D2.toBytes), (32 + 192, D3.toBytes)]) 48
    (by
      intro p hp
      simp only [List.mem_cons, List.mem_append, List.mem_nil_iff, or_false] at hp
      rcases hp with ((rfl | rfl | rfl | rfl) | (rfl | rfl | rfl | rfl)) | (rfl | rfl | rfl | rfl) <;>
        exact ⟨rfl, by simp only []; omega, by dsimp only; decide⟩)
    (by omega)
  rw [h3]

/-- u4.h loop body with `m == c` = the separate-buffer body on the old contents -/
theorem u4_iter_inplace_eq (x : W16) (c : Bytes) (hc : 256 ≤ c.length) :
    SalsaSimd.u4_iter_inplace x c = SalsaSimd.u4_iter x c c := by
  simp only [SalsaSimd.u4_iter_inplace, SalsaSimd.u4_iter, List.drop_drop, Nat.reduceAdd, u4_ONEQUAD_eq_chacha,
    u4_ONEQUAD_inplace_eq_chacha]
  refine Prod.ext ?_ rfl
  exact four_quads_inplace c hc _ _ _ _ _ _ _ _ _ _ _ _ _ _ _ _ _ _ _ _ _ _ _ _ _ _ _ _ _ _ _ _

/-- two `ONEOCTO`s, the second reading the buffer left by the first = both reading the old contents: the second
    one's 32-byte slots (`c + 32 + 64j`) are not written by the first (`c + 64j`) -/
theorem two_octos_inplace (c : Bytes) (hc : 512 ≤ c.length)
    (a0 a1 a2 a3 a4 a5 a6 a7 p0 p1 p2 p3 p4 p5 p6 p7 b0 b1 b2 b3 b4 b5 b6 b7 q0 q1 q2 q3 q4 q5 q6 q7 : M256) :
    ChachaSimd.u8_ONEOCTO b0 b1 b2 b3 b4 b5 b6 b7 q0 q1 q2 q3 q4 q5 q6 q7
      ((ChachaSimd.u8_ONEOCTO a0 a1 a2 a3 a4 a5 a6 a7 p0 p1 p2 p3 p4 p5 p6 p7 c c 0).drop 32)
      (ChachaSimd.u8_ONEOCTO a0 a1 a2 a3 a4 a5 a6 a7 p0 p1 p2 p3 p4 p5 p6 p7 c c 0) 32 =
    ChachaSimd.u8_ONEOCTO b0 b1 b2 b3 b4 b5 b6 b7 q0 q1 q2 q3 q4 q5 q6 q7 (c.drop 32)
      (ChachaSimd.u8_ONEOCTO a0 a1 a2 a3 a4 a5 a6 a7 p0 p1 p2 p3 p4 p5 p6 p7 c c 0) 32 := by
  obtain ⟨A0, A1, A2, A3, A4, A5, A6, A7, hA⟩ :=
    u8_ONEOCTO_stores a0 a1 a2 a3 a4 a5 a6 a7 p0 p1 p2 p3 p4 p5 p6 p7 c 0
  rw [hA c]
  apply u8_ONEOCTO_congr
  intro o ho
  rw [List.drop_drop, List.drop_drop, loadu256_seg, loadu256_seg]
  congr 1
  apply storeAll_seg_untouched _ _ _ _ _ (by decide)
  intro p hp
  simp only [List.mem_cons, List.mem_nil_iff, or_false] at hp ho
  rcases hp with rfl | rfl | rfl | rfl | rfl | rfl | rfl | rfl <;>
    refine ⟨rfl, by simp only []; omega, ?_⟩ <;>
    rcases ho with rfl | rfl | rfl | rfl | rfl | rfl | rfl | rfl <;> dsimp only <;> decide

/-- u8.h loop body with `m == c` = the separate-buffer body on the old contents -/
theorem u8_iter_inplace_eq (x : W16) (c : Bytes) (hc : 512 ≤ c.length) :
    SalsaSimd.u8_iter_inplace x c = SalsaSimd.u8_iter x c c := by
  simp only [SalsaSimd.u8_iter_inplace, SalsaSimd.u8_iter, List.drop_zero, u8_ONEOCTO_eq_chacha]
  refine Prod.ext ?_ rfl
  exact two_octos_inplace c hc _ _ _ _ _ _ _ _ _ _ _ _ _ _ _ _ _ _ _ _ _ _ _ _ _ _ _ _ _ _ _ _

end Sodium.SalsaSimdP
