import Mathlib.Tactic.Ring
import Mathlib.Tactic.NormNum
import SodiumModel.Proofs.Fe25
import SodiumModel.Proofs.Utils
set_option linter.unusedVariables false
/-
  `fe25519_reduce` / `fe25519_tobytes` of fe_25_5/fe.h (`Model/Fe25.lean`): the `int32_t` statements are the same
  statements over `Int` under the loose bounds (no overflow), the ten nested `(h_i + q) >> k` are one floor division of
  the represented integer by 2^255, the final carry chain yields the base-2^25.5 digits of `val f + 19 q` modulo 2^255.
  The first `q` is computed in `uint32_t` (logical shift): for `19·h9 + 2^24 < 0` it is 128 too large; the result is
  still canonical when `-p ≤ val f` (in particular for every tight `f`) and is WRONG for some loose `f`
  (`Properties/C10Fe25.lean`, `reduce_wrong_in_documented_range`).
-/
open Sodium Sodium.Model Sodium.Model.Fe25 Sodium.Spec Sodium.ScReduceP
namespace Sodium.Fe25P

/-! ### Int32 / UInt32 helper lemmas -/

theorem toNat_toUInt32 (a : Int32) : ((a.toUInt32.toNat : Nat) : Int) = a.toInt % 4294967296 := by
  have h1 : a.toUInt32.toNat = a.toBitVec.toNat := by rw [← UInt32.toNat_toBitVec, Int32.toBitVec_toUInt32]
  have h2 := BitVec.toInt_eq_toNat_cond a.toBitVec
  rw [Int32.toInt_toBitVec] at h2
  have h3 := a.toBitVec.isLt
  rw [h1]
  split at h2 <;> omega

theorem toInt_toInt32_of_lt (v : UInt32) (h : v.toNat < 2 ^ 31) : v.toInt32.toInt = v.toNat := by
  have h2 := BitVec.toInt_eq_toNat_cond v.toInt32.toBitVec
  rw [Int32.toInt_toBitVec] at h2
  have h4 : v.toInt32.toBitVec = v.toBitVec := rfl
  rw [h4, UInt32.toNat_toBitVec] at h2
  split at h2 <;> omega

theorem toNat_toUInt32_of_nonneg (a : Int32) (n : Nat) (h : a.toInt = n) : a.toUInt32.toNat = n := by
  have := toNat_toUInt32 a
  have hl := Int32.toInt_lt a
  omega

theorem toInt32_shr25 (a : Int32) : (a >>> 25).toInt = a.toInt / 33554432 := toInt32_shr_of a 25 25 (by decide)
theorem toInt32_shr26 (a : Int32) : (a >>> 26).toInt = a.toInt / 67108864 := toInt32_shr_of a 26 26 (by decide)

theorem subcU32_25_eq (a c : Int32) :
    (a.toUInt32 - c.toUInt32 * ((1 : UInt32) <<< 25)).toInt32 = a - c * 33554432 := by
  rw [UInt32.toInt32_sub, UInt32.toInt32_mul, Int32.toInt32_toUInt32, Int32.toInt32_toUInt32]
  rfl
theorem subcU32_26_eq (a c : Int32) :
    (a.toUInt32 - c.toUInt32 * ((1 : UInt32) <<< 26)).toInt32 = a - c * 67108864 := by
  rw [UInt32.toInt32_sub, UInt32.toInt32_mul, Int32.toInt32_toUInt32, Int32.toInt32_toUInt32]
  rfl

/-- the first `q` of `fe25519_reduce`, as computed: in `uint32_t`, with a logical shift -/
def q0I (h9 : Int) : Int := (19 * h9 + 16777216) % 4294967296 / 33554432

theorem q0_aux (u : Nat) (i : Int) (e1 : (u : Int) = 19 * i % 4294967296) :
    (((u + 16777216) % 2 ^ 32 / 2 ^ 25 : Nat) : Int) = q0I i ∧ (u + 16777216) % 2 ^ 32 / 2 ^ 25 < 128 := by
  rw [q0I]; omega

theorem R32_of_small (v : UInt32) (n : Nat) (j : Int) (h : v.toNat = n) (hn : n < 128) (hj : (n : Int) = j) :
    R32 v.toInt32 j 127 := by
  have e := toInt_toInt32_of_lt v (by omega)
  rw [h] at e
  exact ⟨by omega, by omega, by omega⟩

/-- `q = (19 * h9 + ((uint32_t) 1L << 24)) >> 25` -/
theorem R32_q0 {a : Int32} {i : Int} {A : Nat} (ha : R32 a i A) (h : 19 * A + 16777216 < 2 ^ 31) :
    R32 ((((19 * a).toUInt32 + ((1 : UInt32) <<< 24)) >>> 25).toInt32) (q0I i) 127 := by
  obtain ⟨hm, hm1, hm2⟩ := R32_mulc19 ha (by omega)
  have e1 := toNat_toUInt32 (19 * a)
  rw [hm] at e1
  have k1 : ((1 : UInt32) <<< 24).toNat = 16777216 := by decide
  have k2 : (25 : UInt32).toNat % 32 = 25 := by decide
  obtain ⟨e2, e3⟩ := q0_aux _ _ e1
  exact R32_of_small _ _ _ (by rw [UInt32.toNat_shiftRight, UInt32.toNat_add, k1, k2, Nat.shiftRight_eq_div_pow]) e3 e2

theorem R32_shradd26 {a b : Int32} {i j : Int} {A B : Nat} (ha : R32 a i A) (hb : R32 b j B) (h : A + B < 2 ^ 31) :
    R32 ((a + b) >>> 26) ((i + j) / 67108864) ((A + B) / 67108864 + 1) := by
  obtain ⟨hs, hs1, hs2⟩ := R32_add ha hb h
  exact ⟨by rw [toInt32_shr26, hs], by omega, by omega⟩

theorem R32_shradd25 {a b : Int32} {i j : Int} {A B : Nat} (ha : R32 a i A) (hb : R32 b j B) (h : A + B < 2 ^ 31) :
    R32 ((a + b) >>> 25) ((i + j) / 33554432) ((A + B) / 33554432 + 1) := by
  obtain ⟨hs, hs1, hs2⟩ := R32_add ha hb h
  exact ⟨by rw [toInt32_shr25, hs], by omega, by omega⟩

theorem R32_carryF26 {a : Int32} {i : Int} {A : Nat} (ha : R32 a i A) :
    R32 (a >>> 26) (i / 67108864) (A / 67108864 + 1) := by
  obtain ⟨ha, ha1, ha2⟩ := ha
  exact ⟨by rw [toInt32_shr26, ha], by omega, by omega⟩

theorem R32_carryF25 {a : Int32} {i : Int} {A : Nat} (ha : R32 a i A) :
    R32 (a >>> 25) (i / 33554432) (A / 33554432 + 1) := by
  obtain ⟨ha, ha1, ha2⟩ := ha
  exact ⟨by rw [toInt32_shr25, ha], by omega, by omega⟩

/-- `a -= carry * ((uint32_t) 1L << 26)` after `carry = a >> 26`: the remainder in [0, 2^26) -/
theorem R32_carryF26_lo {a : Int32} {i : Int} {A : Nat} (ha : R32 a i A) :
    R32 ((a.toUInt32 - (a >>> 26).toUInt32 * ((1 : UInt32) <<< 26)).toInt32) (i - i / 67108864 * 67108864) 67108864 := by
  obtain ⟨hc, hc1, hc2⟩ := R32_carryF26 ha
  obtain ⟨ha, ha1, ha2⟩ := ha
  have hk : (67108864 : Int32).toInt = 67108864 := by decide
  have hlo := Int32.le_toInt a
  have hhi := Int32.toInt_lt a
  have hm := toInt32_mul_exact (a >>> 26) 67108864 (by rw [hc, hk]; omega) (by rw [hc, hk]; omega)
  rw [hc, hk] at hm
  refine ⟨?_, by omega, by omega⟩
  rw [subcU32_26_eq, toInt32_sub_exact, hm, ha] <;> rw [hm, ha] <;> omega

theorem R32_carryF25_lo {a : Int32} {i : Int} {A : Nat} (ha : R32 a i A) :
    R32 ((a.toUInt32 - (a >>> 25).toUInt32 * ((1 : UInt32) <<< 25)).toInt32) (i - i / 33554432 * 33554432) 33554432 := by
  obtain ⟨hc, hc1, hc2⟩ := R32_carryF25 ha
  obtain ⟨ha, ha1, ha2⟩ := ha
  have hk : (33554432 : Int32).toInt = 33554432 := by decide
  have hlo := Int32.le_toInt a
  have hhi := Int32.toInt_lt a
  have hm := toInt32_mul_exact (a >>> 25) 33554432 (by rw [hc, hk]; omega) (by rw [hc, hk]; omega)
  rw [hc, hk] at hm
  refine ⟨?_, by omega, by omega⟩
  rw [subcU32_25_eq, toInt32_sub_exact, hm, ha] <;> rw [hm, ha] <;> omega

/-! ### the ideal statements -/

/-- the ten statements `q = (h_i + q) >> k` over `Int` -/
def reduceQ (x : FeI) (q : Int) : Int :=
  let q := (x.l0 + q) / 67108864
  let q := (x.l1 + q) / 33554432
  let q := (x.l2 + q) / 67108864
  let q := (x.l3 + q) / 33554432
  let q := (x.l4 + q) / 67108864
  let q := (x.l5 + q) / 33554432
  let q := (x.l6 + q) / 67108864
  let q := (x.l7 + q) / 33554432
  let q := (x.l8 + q) / 67108864
  let q := (x.l9 + q) / 33554432
  q

/-- `h0 += 19 * q` and the final carry chain over `Int` -/
def reduceC (x : FeI) (q : Int) : FeI :=
  let h0 := x.l0 + 19 * q
  let carry0 := h0 / 67108864
  let h1 := x.l1 + carry0
  let h0 := h0 - carry0 * 67108864
  let carry1 := h1 / 33554432
  let h2 := x.l2 + carry1
  let h1 := h1 - carry1 * 33554432
  let carry2 := h2 / 67108864
  let h3 := x.l3 + carry2
  let h2 := h2 - carry2 * 67108864
  let carry3 := h3 / 33554432
  let h4 := x.l4 + carry3
  let h3 := h3 - carry3 * 33554432
  let carry4 := h4 / 67108864
  let h5 := x.l5 + carry4
  let h4 := h4 - carry4 * 67108864
  let carry5 := h5 / 33554432
  let h6 := x.l6 + carry5
  let h5 := h5 - carry5 * 33554432
  let carry6 := h6 / 67108864
  let h7 := x.l7 + carry6
  let h6 := h6 - carry6 * 67108864
  let carry7 := h7 / 33554432
  let h8 := x.l8 + carry7
  let h7 := h7 - carry7 * 33554432
  let carry8 := h8 / 67108864
  let h9 := x.l9 + carry8
  let h8 := h8 - carry8 * 67108864
  let carry9 := h9 / 33554432
  let h9 := h9 - carry9 * 33554432
  ⟨h0, h1, h2, h3, h4, h5, h6, h7, h8, h9⟩

def reduceI (x : FeI) : FeI := reduceC x (reduceQ x (q0I x.l9))

/-- `fe25519_reduce` on a loose input: every `int32_t` statement is the statement over `Int` (no overflow) -/
theorem reduce_toI {f : Fe} (hf : Loose f) : toI (fe25519_reduce f) = reduceI (toI f) := by
  obtain ⟨f0, f1, f2, f3, f4, f5, f6, f7, f8, f9⟩ := f
  obtain ⟨g0, g1, g2, g3, g4, g5, g6, g7, g8, g9⟩ := hf
  dsimp only [toI] at g0 g1 g2 g3 g4 g5 g6 g7 g8 g9
  have q0 := R32_q0 g9 (by decide)
  have q1 := R32_shradd26 g0 q0 (by decide)
  have q2 := R32_shradd25 g1 q1 (by decide)
  have q3 := R32_shradd26 g2 q2 (by decide)
  have q4 := R32_shradd25 g3 q3 (by decide)
  have q5 := R32_shradd26 g4 q4 (by decide)
  have q6 := R32_shradd25 g5 q5 (by decide)
  have q7 := R32_shradd26 g6 q6 (by decide)
  have q8 := R32_shradd25 g7 q7 (by decide)
  have q9 := R32_shradd26 g8 q8 (by decide)
  have q10 := R32_shradd25 g9 q9 (by decide)
  have a0 := R32_add g0 (R32_mulc19 q10 (by decide)) (by decide)
  have l0 := R32_carryF26_lo a0
  have a1 := R32_add g1 (R32_carryF26 a0) (by decide)
  have l1 := R32_carryF25_lo a1
  have a2 := R32_add g2 (R32_carryF25 a1) (by decide)
  have l2 := R32_carryF26_lo a2
  have a3 := R32_add g3 (R32_carryF26 a2) (by decide)
  have l3 := R32_carryF25_lo a3
  have a4 := R32_add g4 (R32_carryF25 a3) (by decide)
  have l4 := R32_carryF26_lo a4
  have a5 := R32_add g5 (R32_carryF26 a4) (by decide)
  have l5 := R32_carryF25_lo a5
  have a6 := R32_add g6 (R32_carryF25 a5) (by decide)
  have l6 := R32_carryF26_lo a6
  have a7 := R32_add g7 (R32_carryF26 a6) (by decide)
  have l7 := R32_carryF25_lo a7
  have a8 := R32_add g8 (R32_carryF25 a7) (by decide)
  have l8 := R32_carryF26_lo a8
  have a9 := R32_add g9 (R32_carryF26 a8) (by decide)
  have l9 := R32_carryF25_lo a9
  simp only [toI, fe25519_reduce, reduceI, reduceC, reduceQ, FeI.mk.injEq]
  exact ⟨l0.1, l1.1, l2.1, l3.1, l4.1, l5.1, l6.1, l7.1, l8.1, l9.1⟩

/-- the loose bounds on ideal limbs -/
def RF' (x : FeI) : Prop :=
  (-110729625 ≤ x.l0 ∧ x.l0 ≤ 110729625) ∧ (-55364812 ≤ x.l1 ∧ x.l1 ≤ 55364812) ∧
  (-110729625 ≤ x.l2 ∧ x.l2 ≤ 110729625) ∧ (-55364812 ≤ x.l3 ∧ x.l3 ≤ 55364812) ∧
  (-110729625 ≤ x.l4 ∧ x.l4 ≤ 110729625) ∧ (-55364812 ≤ x.l5 ∧ x.l5 ≤ 55364812) ∧
  (-110729625 ≤ x.l6 ∧ x.l6 ≤ 110729625) ∧ (-55364812 ≤ x.l7 ∧ x.l7 ≤ 55364812) ∧
  (-110729625 ≤ x.l8 ∧ x.l8 ≤ 110729625) ∧ (-55364812 ≤ x.l9 ∧ x.l9 ≤ 55364812)

/-! ### the quotient -/

theorem nest (a b m n mn c : Int) (hm : 0 < m) (hmn : m * n = mn) (hc : a * m + b = c) :
    (a + b / m) / n = c / mn := by
  rw [← hmn, ← hc, ← Int.ediv_ediv_of_nonneg (Int.le_of_lt hm), Int.add_comm (a * m) b,
    Int.add_mul_ediv_right _ _ (Int.ne_of_gt hm), Int.add_comm]

/-- the ten nested shifts are ONE floor division of the represented integer (plus the first `q`) by 2^255 -/
theorem reduceQ_eq (x : FeI) (q : Int) : reduceQ x q = (valI x + q) / 2 ^ 255 := by
  obtain ⟨x0, x1, x2, x3, x4, x5, x6, x7, x8, x9⟩ := x
  simp only [reduceQ, valI]
  rw [nest x1 (x0 + q) 67108864 33554432 (2 ^ 51) (x0 + x1 * 2 ^ 26 + q) (by decide) (by norm_num) (by ring)]
  rw [nest x2 _ (2 ^ 51) 67108864 (2 ^ 77) (x0 + x1 * 2 ^ 26 + x2 * 2 ^ 51 + q) (by norm_num) (by norm_num) (by ring)]
  rw [nest x3 _ (2 ^ 77) 33554432 (2 ^ 102) (x0 + x1 * 2 ^ 26 + x2 * 2 ^ 51 + x3 * 2 ^ 77 + q) (by norm_num) (by norm_num) (by ring)]
  rw [nest x4 _ (2 ^ 102) 67108864 (2 ^ 128) (x0 + x1 * 2 ^ 26 + x2 * 2 ^ 51 + x3 * 2 ^ 77 + x4 * 2 ^ 102 + q) (by norm_num) (by norm_num) (by ring)]
  rw [nest x5 _ (2 ^ 128) 33554432 (2 ^ 153) (x0 + x1 * 2 ^ 26 + x2 * 2 ^ 51 + x3 * 2 ^ 77 + x4 * 2 ^ 102 + x5 * 2 ^ 128 + q) (by norm_num) (by norm_num) (by ring)]
  rw [nest x6 _ (2 ^ 153) 67108864 (2 ^ 179) (x0 + x1 * 2 ^ 26 + x2 * 2 ^ 51 + x3 * 2 ^ 77 + x4 * 2 ^ 102 + x5 * 2 ^ 128 + x6 * 2 ^ 153 + q) (by norm_num) (by norm_num) (by ring)]
  rw [nest x7 _ (2 ^ 179) 33554432 (2 ^ 204) (x0 + x1 * 2 ^ 26 + x2 * 2 ^ 51 + x3 * 2 ^ 77 + x4 * 2 ^ 102 + x5 * 2 ^ 128 + x6 * 2 ^ 153 + x7 * 2 ^ 179 + q) (by norm_num) (by norm_num) (by ring)]
  rw [nest x8 _ (2 ^ 204) 67108864 (2 ^ 230) (x0 + x1 * 2 ^ 26 + x2 * 2 ^ 51 + x3 * 2 ^ 77 + x4 * 2 ^ 102 + x5 * 2 ^ 128 + x6 * 2 ^ 153 + x7 * 2 ^ 179 + x8 * 2 ^ 204 + q) (by norm_num) (by norm_num) (by ring)]
  rw [nest x9 _ (2 ^ 230) 33554432 (2 ^ 255) (x0 + x1 * 2 ^ 26 + x2 * 2 ^ 51 + x3 * 2 ^ 77 + x4 * 2 ^ 102 + x5 * 2 ^ 128 + x6 * 2 ^ 153 + x7 * 2 ^ 179 + x8 * 2 ^ 204 + x9 * 2 ^ 230 + q) (by norm_num) (by norm_num) (by ring)]

theorem q_range (Q r h9 rest q0 tm : Int) (hq : q0 * 33554432 + tm = 19 * h9 + 16777216) (t1 : 0 ≤ tm) (t2 : tm < 33554432)
    (hr1 : 0 ≤ r) (hr2 : r < 2 ^ 255 - 19) (hh : Q * (2 ^ 255 - 19) + r = h9 * 2 ^ 230 + rest)
    (b1 : -55364812 ≤ h9) (b2 : h9 ≤ 55364812) (r1 : -(2 ^ 231) < rest) (r2 : rest < 2 ^ 231) :
    0 ≤ r + q0 - 19 * Q ∧ r + q0 - 19 * Q < 2 ^ 255 := by
  have hQ1 : -3 < Q := by omega
  have hQ2 : Q < 3 := by omega
  have key : (q0 - 19 * Q) * 2 ^ 255 = 2 ^ 254 - tm * 2 ^ 230 - 19 * rest + 19 * r - 361 * Q := by omega
  constructor <;> omega

/-- the case `19·h9 + 2^24 < 0` (the first `q` is 128 too large), for `-p ≤ h` -/
theorem q_range_neg (Q r h9 rest q0 tm : Int) (hq : q0 * 33554432 + tm = 19 * h9 + 16777216) (t1 : 0 ≤ tm) (t2 : tm < 33554432)
    (hr1 : 0 ≤ r) (hr2 : r < 2 ^ 255 - 19) (hh : Q * (2 ^ 255 - 19) + r = h9 * 2 ^ 230 + rest)
    (b1 : -55364812 ≤ h9) (b2 : h9 ≤ 55364812) (r1 : -(2 ^ 231) < rest) (r2 : rest < 2 ^ 231)
    (hneg : 19 * h9 + 16777216 < 0) (hlow : -(2 ^ 255 - 19) ≤ h9 * 2 ^ 230 + rest) :
    0 ≤ r + (q0 + 128) - 19 * Q ∧ r + (q0 + 128) - 19 * Q < 2 ^ 255 := by
  obtain ⟨k1, k2⟩ := q_range Q r h9 rest q0 tm hq t1 t2 hr1 hr2 hh b1 b2 r1 r2
  have hQ : Q = -1 := by omega
  subst hQ
  have key : (q0 - 19 * (-1)) * 2 ^ 255 = 2 ^ 254 - tm * 2 ^ 230 - 19 * rest + 19 * r - 361 * (-1) := by omega
  constructor <;> omega

theorem q0I_cases (h9 : Int) (b1 : -55364812 ≤ h9) (b2 : h9 ≤ 55364812) :
    (0 ≤ 19 * h9 + 16777216 → q0I h9 = (19 * h9 + 16777216) / 33554432) ∧
    (19 * h9 + 16777216 < 0 → q0I h9 = (19 * h9 + 16777216) / 33554432 + 128) := by
  rw [q0I]; constructor <;> intro _ <;> omega

/-- **the quotient is right**: `⌊(h + q0) / 2^255⌋ = ⌊h / p⌋` when the first `q` is not spoilt (`0 ≤ 19·h9 + 2^24`) or `-p ≤ h` -/
theorem q_correct (h h9 rest : Int) (hh : h = h9 * 2 ^ 230 + rest)
    (b1 : -55364812 ≤ h9) (b2 : h9 ≤ 55364812) (r1 : -(2 ^ 231) < rest) (r2 : rest < 2 ^ 231)
    (hyp : 0 ≤ 19 * h9 + 16777216 ∨ -(2 ^ 255 - 19) ≤ h) :
    (h + q0I h9) / 2 ^ 255 = h / (2 ^ 255 - 19) := by
  obtain ⟨c1, c2⟩ := q0I_cases h9 b1 b2
  have e := Int.mul_ediv_add_emod h (2 ^ 255 - 19)
  have hr1 : 0 ≤ h % (2 ^ 255 - 19) := Int.emod_nonneg _ (by decide)
  have hr2 : h % (2 ^ 255 - 19) < 2 ^ 255 - 19 := Int.emod_lt_of_pos _ (by decide)
  generalize h / (2 ^ 255 - 19) = Q at *
  generalize h % (2 ^ 255 - 19) = r at *
  have e' : Q * (2 ^ 255 - 19) + r = h9 * 2 ^ 230 + rest := by rw [← hh, ← e]; ring
  have hq := Int.mul_ediv_add_emod (19 * h9 + 16777216) 33554432
  have t1 : 0 ≤ (19 * h9 + 16777216) % 33554432 := Int.emod_nonneg _ (by decide)
  have t2 : (19 * h9 + 16777216) % 33554432 < 33554432 := Int.emod_lt_of_pos _ (by decide)
  generalize (19 * h9 + 16777216) / 33554432 = q0 at *
  generalize (19 * h9 + 16777216) % 33554432 = tm at *
  have hq' : q0 * 33554432 + tm = 19 * h9 + 16777216 := by rw [← hq]; ring
  by_cases hs : 0 ≤ 19 * h9 + 16777216
  · rw [c1 hs]
    obtain ⟨k1, k2⟩ := q_range Q r h9 rest q0 tm hq' t1 t2 hr1 hr2 e' b1 b2 r1 r2
    clear c1 c2 hq hq' e hyp
    omega
  · have hneg : 19 * h9 + 16777216 < 0 := by omega
    rw [c2 hneg]
    have hlow : -(2 ^ 255 - 19) ≤ h9 * 2 ^ 230 + rest := by
      rcases hyp with h1 | h1
      · omega
      · rw [← hh]; exact h1
    obtain ⟨k1, k2⟩ := q_range_neg Q r h9 rest q0 tm hq' t1 t2 hr1 hr2 e' b1 b2 r1 r2 hneg hlow
    clear c1 c2 hq hq' e hyp
    omega

theorem add19_mod (h : Int) : (h + 19 * (h / (2 ^ 255 - 19))) % 2 ^ 255 = h % (2 ^ 255 - 19) := by
  have e := Int.mul_ediv_add_emod h (2 ^ 255 - 19)
  have hr1 : 0 ≤ h % (2 ^ 255 - 19) := Int.emod_nonneg _ (by decide)
  have hr2 : h % (2 ^ 255 - 19) < 2 ^ 255 - 19 := Int.emod_lt_of_pos _ (by decide)
  generalize h / (2 ^ 255 - 19) = Q at *
  generalize h % (2 ^ 255 - 19) = r at *
  omega

/-! ### the final carry chain -/

/-- fully carried, non-negative limbs: the base-2^25.5 digits -/
def Canon (y : FeI) : Prop :=
  (0 ≤ y.l0 ∧ y.l0 < 67108864) ∧ (0 ≤ y.l1 ∧ y.l1 < 33554432) ∧ (0 ≤ y.l2 ∧ y.l2 < 67108864) ∧
  (0 ≤ y.l3 ∧ y.l3 < 33554432) ∧ (0 ≤ y.l4 ∧ y.l4 < 67108864) ∧ (0 ≤ y.l5 ∧ y.l5 < 33554432) ∧
  (0 ≤ y.l6 ∧ y.l6 < 67108864) ∧ (0 ≤ y.l7 ∧ y.l7 < 33554432) ∧ (0 ≤ y.l8 ∧ y.l8 < 67108864) ∧
  (0 ≤ y.l9 ∧ y.l9 < 33554432)

theorem digit26 (a : Int) : 0 ≤ a - a / 67108864 * 67108864 ∧ a - a / 67108864 * 67108864 < 67108864 := by omega
theorem digit25 (a : Int) : 0 ≤ a - a / 33554432 * 33554432 ∧ a - a / 33554432 * 33554432 < 33554432 := by omega

theorem reduceC_canon (x : FeI) (q : Int) : Canon (reduceC x q) := by
  simp only [reduceC, Canon]
  exact ⟨digit26 _, digit25 _, digit26 _, digit25 _, digit26 _, digit25 _, digit26 _, digit25 _, digit26 _, digit25 _⟩

theorem canon_range (y : FeI) (h : Canon y) : 0 ≤ valI y ∧ valI y < 2 ^ 255 := by
  obtain ⟨y0, y1, y2, y3, y4, y5, y6, y7, y8, y9⟩ := y
  simp only [Canon] at h
  simp only [valI]
  omega

/-- `carry9` of the final chain -/
def reduceCarry9 (x : FeI) (q : Int) : Int :=
  let h0 := x.l0 + 19 * q
  let carry0 := h0 / 67108864
  let h1 := x.l1 + carry0
  let carry1 := h1 / 33554432
  let h2 := x.l2 + carry1
  let carry2 := h2 / 67108864
  let h3 := x.l3 + carry2
  let carry3 := h3 / 33554432
  let h4 := x.l4 + carry3
  let carry4 := h4 / 67108864
  let h5 := x.l5 + carry4
  let carry5 := h5 / 33554432
  let h6 := x.l6 + carry5
  let carry6 := h6 / 67108864
  let h7 := x.l7 + carry6
  let carry7 := h7 / 33554432
  let h8 := x.l8 + carry7
  let carry8 := h8 / 67108864
  let h9 := x.l9 + carry8
  h9 / 33554432

theorem reduceC_val (x : FeI) (q : Int) :
    valI (reduceC x q) = valI x + 19 * q - reduceCarry9 x q * 2 ^ 255 := by
  simp only [reduceC, reduceCarry9, valI]; ring

/-- the final chain returns the digits of `(val + 19 q) mod 2^255`: the last carry is dropped -/
theorem reduceC_mod (x : FeI) (q : Int) : valI (reduceC x q) = (valI x + 19 * q) % 2 ^ 255 := by
  have h1 := reduceC_val x q
  obtain ⟨h2, h3⟩ := canon_range _ (reduceC_canon x q)
  generalize valI (reduceC x q) = v at *
  generalize reduceCarry9 x q = c at *
  generalize valI x + 19 * q = w at *
  omega

/-- `rest` = the part of the value below limb 9 -/
theorem rest_bound (x : FeI) (h : RF' x) :
    -(2 ^ 231) < valI x - x.l9 * 2 ^ 230 ∧ valI x - x.l9 * 2 ^ 230 < 2 ^ 231 := by
  obtain ⟨x0, x1, x2, x3, x4, x5, x6, x7, x8, x9⟩ := x
  simp only [RF'] at h
  simp only [valI]
  omega

theorem loose_RF' {f : Fe} (hf : Loose f) : RF' (toI f) := by
  obtain ⟨g0, g1, g2, g3, g4, g5, g6, g7, g8, g9⟩ := hf
  obtain ⟨_, a0, b0⟩ := g0; obtain ⟨_, a1, b1⟩ := g1; obtain ⟨_, a2, b2⟩ := g2; obtain ⟨_, a3, b3⟩ := g3
  obtain ⟨_, a4, b4⟩ := g4; obtain ⟨_, a5, b5⟩ := g5; obtain ⟨_, a6, b6⟩ := g6; obtain ⟨_, a7, b7⟩ := g7
  obtain ⟨_, a8, b8⟩ := g8; obtain ⟨_, a9, b9⟩ := g9
  exact ⟨⟨a0, b0⟩, ⟨a1, b1⟩, ⟨a2, b2⟩, ⟨a3, b3⟩, ⟨a4, b4⟩, ⟨a5, b5⟩, ⟨a6, b6⟩, ⟨a7, b7⟩, ⟨a8, b8⟩, ⟨a9, b9⟩⟩

/-- **`fe25519_reduce`** on a loose input whose first `q` is not spoilt, or with `-p ≤ val f`: the canonical digits -/
theorem reduce_spec {f : Fe} (hf : Loose f) (hyp : 0 ≤ 19 * f.l9.toInt + 16777216 ∨ -P ≤ val f) :
    Canon (toI (fe25519_reduce f)) ∧ val (fe25519_reduce f) = val f % P := by
  have hx := loose_RF' hf
  have e := reduce_toI hf
  obtain ⟨r1, r2⟩ := rest_bound _ hx
  have hq := q_correct (valI (toI f)) (toI f).l9 (valI (toI f) - (toI f).l9 * 2 ^ 230) (by ring)
    hx.2.2.2.2.2.2.2.2.2.1 hx.2.2.2.2.2.2.2.2.2.2 r1 r2 hyp
  refine ⟨by rw [e]; exact reduceC_canon _ _, ?_⟩
  rw [val, e, reduceI, reduceC_mod, reduceQ_eq, hq, add19_mod]; rfl


/-! ### fe25519_tobytes -/

/-- `s[i] = a >> k` for a non-negative limb -/
theorem byteA32 {a : Int32} {n : Nat} (k : Int32) (sh : Nat) (hk : (k.toBitVec.smod 32).toNat = sh)
    (h : a.toInt = n) : ((a >>> k).toUInt32.toUInt8).toNat = n / 2 ^ sh % 256 := by
  have h1 : (a >>> k).toInt = ((n / 2 ^ sh : Nat) : Int) := by
    rw [toInt32_shr_of a k sh hk, h, Int.natCast_ediv]
  rw [UInt32.toNat_toUInt8, toNat_toUInt32_of_nonneg _ _ h1]

/-- `s[i] = (a >> k) | (b * ((uint32_t) 1 << m))` for non-negative limbs with disjoint bit ranges -/
theorem byteB32 {a b : Int32} {na nb : Nat} (k : Int32) (sh : Nat) (hk : (k.toBitVec.smod 32).toNat = sh)
    (m : UInt32) (ml : Nat) (hm : ((1 : UInt32) <<< m).toNat = 2 ^ ml)
    (ha : a.toInt = na) (hb : b.toInt = nb) (hlt : na / 2 ^ sh < 2 ^ ml) (hb2 : nb * 2 ^ ml < 2 ^ 32) :
    (((a >>> k).toUInt32 ||| (b.toUInt32 * ((1 : UInt32) <<< m))).toUInt8).toNat
      = (na / 2 ^ sh + nb * 2 ^ ml) % 256 := by
  have h1 : (a >>> k).toInt = ((na / 2 ^ sh : Nat) : Int) := by
    rw [toInt32_shr_of a k sh hk, ha, Int.natCast_ediv]
  rw [UInt32.toNat_toUInt8, UInt32.toNat_or, UInt32.toNat_mul, hm, toNat_toUInt32_of_nonneg _ _ hb,
    toNat_toUInt32_of_nonneg _ _ h1, Nat.mod_eq_of_lt hb2, or_mul_eq_add _ _ _ hlt]

/-- bytes 0 … 15 from limbs 0 … 4 -/
theorem pack_lo (n0 n1 n2 n3 n4 : Nat) (h0 : n0 < 2 ^ 26) (h1 : n1 < 2 ^ 25) (h2 : n2 < 2 ^ 26) (h3 : n3 < 2 ^ 25) (h4 : n4 < 2 ^ 26) :
    n0 / 2 ^ 0 % 256 + 256 * (n0 / 2 ^ 8 % 256 + 256 * (n0 / 2 ^ 16 % 256 + 256 * ((n0 / 2 ^ 24 + n1 * 2 ^ 2) % 256 + 256 * (n1 / 2 ^ 6 % 256 + 256 * (n1 / 2 ^ 14 % 256 + 256 * ((n1 / 2 ^ 22 + n2 * 2 ^ 3) % 256 + 256 * (n2 / 2 ^ 5 % 256 + 256 * (n2 / 2 ^ 13 % 256 + 256 * ((n2 / 2 ^ 21 + n3 * 2 ^ 5) % 256 + 256 * (n3 / 2 ^ 3 % 256 + 256 * (n3 / 2 ^ 11 % 256 + 256 * ((n3 / 2 ^ 19 + n4 * 2 ^ 6) % 256 + 256 * (n4 / 2 ^ 2 % 256 + 256 * (n4 / 2 ^ 10 % 256 + 256 * (n4 / 2 ^ 18 % 256)))))))))))))))
    = n0 + n1 * 2 ^ 26 + n2 * 2 ^ 51 + n3 * 2 ^ 77 + n4 * 2 ^ 102 := by
  have c0_24 : (n0 / 2 ^ 24 + n1 * 2 ^ 2) % 256 = n0 / 2 ^ 24 + 2 ^ 2 * (n1 % 2 ^ 6) := by omega
  have c1_22 : (n1 / 2 ^ 22 + n2 * 2 ^ 3) % 256 = n1 / 2 ^ 22 + 2 ^ 3 * (n2 % 2 ^ 5) := by omega
  have c2_21 : (n2 / 2 ^ 21 + n3 * 2 ^ 5) % 256 = n2 / 2 ^ 21 + 2 ^ 5 * (n3 % 2 ^ 3) := by omega
  have c3_19 : (n3 / 2 ^ 19 + n4 * 2 ^ 6) % 256 = n3 / 2 ^ 19 + 2 ^ 6 * (n4 % 2 ^ 2) := by omega
  have d0 : n0 / 2 ^ 0 % 256 + 2 ^ 8 * (n0 / 2 ^ 8 % 256) + 2 ^ 16 * (n0 / 2 ^ 16 % 256) + 2 ^ 24 * (n0 / 2 ^ 24) = n0 := by omega
  have d1 : n1 % 2 ^ 6 + 2 ^ 6 * (n1 / 2 ^ 6 % 256) + 2 ^ 14 * (n1 / 2 ^ 14 % 256) + 2 ^ 22 * (n1 / 2 ^ 22) = n1 := by omega
  have d2 : n2 % 2 ^ 5 + 2 ^ 5 * (n2 / 2 ^ 5 % 256) + 2 ^ 13 * (n2 / 2 ^ 13 % 256) + 2 ^ 21 * (n2 / 2 ^ 21) = n2 := by omega
  have d3 : n3 % 2 ^ 3 + 2 ^ 3 * (n3 / 2 ^ 3 % 256) + 2 ^ 11 * (n3 / 2 ^ 11 % 256) + 2 ^ 19 * (n3 / 2 ^ 19) = n3 := by omega
  have d4 : n4 % 2 ^ 2 + 2 ^ 2 * (n4 / 2 ^ 2 % 256) + 2 ^ 10 * (n4 / 2 ^ 10 % 256) + 2 ^ 18 * (n4 / 2 ^ 18 % 256) = n4 := by omega
  rw [c0_24, c1_22, c2_21, c3_19]
  clear c0_24 c1_22 c2_21 c3_19
  generalize n0 / 2 ^ 0 % 256 = a0 at *
  generalize n0 / 2 ^ 8 % 256 = a1 at *
  generalize n0 / 2 ^ 16 % 256 = a2 at *
  generalize n0 / 2 ^ 24 = a3 at *
  generalize n1 % 2 ^ 6 = a4 at *
  generalize n1 / 2 ^ 6 % 256 = a5 at *
  generalize n1 / 2 ^ 14 % 256 = a6 at *
  generalize n1 / 2 ^ 22 = a7 at *
  generalize n2 % 2 ^ 5 = a8 at *
  generalize n2 / 2 ^ 5 % 256 = a9 at *
  generalize n2 / 2 ^ 13 % 256 = a10 at *
  generalize n2 / 2 ^ 21 = a11 at *
  generalize n3 % 2 ^ 3 = a12 at *
  generalize n3 / 2 ^ 3 % 256 = a13 at *
  generalize n3 / 2 ^ 11 % 256 = a14 at *
  generalize n3 / 2 ^ 19 = a15 at *
  generalize n4 % 2 ^ 2 = a16 at *
  generalize n4 / 2 ^ 2 % 256 = a17 at *
  generalize n4 / 2 ^ 10 % 256 = a18 at *
  generalize n4 / 2 ^ 18 % 256 = a19 at *
  rw [← d0, ← d1, ← d2, ← d3, ← d4]
  ring

/-- bytes 16 … 31 from limbs 5 … 9 -/
theorem pack_hi (n5 n6 n7 n8 n9 : Nat) (h5 : n5 < 2 ^ 25) (h6 : n6 < 2 ^ 26) (h7 : n7 < 2 ^ 25) (h8 : n8 < 2 ^ 26) (h9 : n9 < 2 ^ 25) :
    n5 / 2 ^ 0 % 256 + 256 * (n5 / 2 ^ 8 % 256 + 256 * (n5 / 2 ^ 16 % 256 + 256 * ((n5 / 2 ^ 24 + n6 * 2 ^ 1) % 256 + 256 * (n6 / 2 ^ 7 % 256 + 256 * (n6 / 2 ^ 15 % 256 + 256 * ((n6 / 2 ^ 23 + n7 * 2 ^ 3) % 256 + 256 * (n7 / 2 ^ 5 % 256 + 256 * (n7 / 2 ^ 13 % 256 + 256 * ((n7 / 2 ^ 21 + n8 * 2 ^ 4) % 256 + 256 * (n8 / 2 ^ 4 % 256 + 256 * (n8 / 2 ^ 12 % 256 + 256 * ((n8 / 2 ^ 20 + n9 * 2 ^ 6) % 256 + 256 * (n9 / 2 ^ 2 % 256 + 256 * (n9 / 2 ^ 10 % 256 + 256 * (n9 / 2 ^ 18 % 256)))))))))))))))
    = n5 + n6 * 2 ^ 25 + n7 * 2 ^ 51 + n8 * 2 ^ 76 + n9 * 2 ^ 102 := by
  have c5_24 : (n5 / 2 ^ 24 + n6 * 2 ^ 1) % 256 = n5 / 2 ^ 24 + 2 ^ 1 * (n6 % 2 ^ 7) := by omega
  have c6_23 : (n6 / 2 ^ 23 + n7 * 2 ^ 3) % 256 = n6 / 2 ^ 23 + 2 ^ 3 * (n7 % 2 ^ 5) := by omega
  have c7_21 : (n7 / 2 ^ 21 + n8 * 2 ^ 4) % 256 = n7 / 2 ^ 21 + 2 ^ 4 * (n8 % 2 ^ 4) := by omega
  have c8_20 : (n8 / 2 ^ 20 + n9 * 2 ^ 6) % 256 = n8 / 2 ^ 20 + 2 ^ 6 * (n9 % 2 ^ 2) := by omega
  have d5 : n5 / 2 ^ 0 % 256 + 2 ^ 8 * (n5 / 2 ^ 8 % 256) + 2 ^ 16 * (n5 / 2 ^ 16 % 256) + 2 ^ 24 * (n5 / 2 ^ 24) = n5 := by omega
  have d6 : n6 % 2 ^ 7 + 2 ^ 7 * (n6 / 2 ^ 7 % 256) + 2 ^ 15 * (n6 / 2 ^ 15 % 256) + 2 ^ 23 * (n6 / 2 ^ 23) = n6 := by omega
  have d7 : n7 % 2 ^ 5 + 2 ^ 5 * (n7 / 2 ^ 5 % 256) + 2 ^ 13 * (n7 / 2 ^ 13 % 256) + 2 ^ 21 * (n7 / 2 ^ 21) = n7 := by omega
  have d8 : n8 % 2 ^ 4 + 2 ^ 4 * (n8 / 2 ^ 4 % 256) + 2 ^ 12 * (n8 / 2 ^ 12 % 256) + 2 ^ 20 * (n8 / 2 ^ 20) = n8 := by omega
  have d9 : n9 % 2 ^ 2 + 2 ^ 2 * (n9 / 2 ^ 2 % 256) + 2 ^ 10 * (n9 / 2 ^ 10 % 256) + 2 ^ 18 * (n9 / 2 ^ 18 % 256) = n9 := by omega
  rw [c5_24, c6_23, c7_21, c8_20]
  clear c5_24 c6_23 c7_21 c8_20
  generalize n5 / 2 ^ 0 % 256 = a0 at *
  generalize n5 / 2 ^ 8 % 256 = a1 at *
  generalize n5 / 2 ^ 16 % 256 = a2 at *
  generalize n5 / 2 ^ 24 = a3 at *
  generalize n6 % 2 ^ 7 = a4 at *
  generalize n6 / 2 ^ 7 % 256 = a5 at *
  generalize n6 / 2 ^ 15 % 256 = a6 at *
  generalize n6 / 2 ^ 23 = a7 at *
  generalize n7 % 2 ^ 5 = a8 at *
  generalize n7 / 2 ^ 5 % 256 = a9 at *
  generalize n7 / 2 ^ 13 % 256 = a10 at *
  generalize n7 / 2 ^ 21 = a11 at *
  generalize n8 % 2 ^ 4 = a12 at *
  generalize n8 / 2 ^ 4 % 256 = a13 at *
  generalize n8 / 2 ^ 12 % 256 = a14 at *
  generalize n8 / 2 ^ 20 = a15 at *
  generalize n9 % 2 ^ 2 = a16 at *
  generalize n9 / 2 ^ 2 % 256 = a17 at *
  generalize n9 / 2 ^ 10 % 256 = a18 at *
  generalize n9 / 2 ^ 18 % 256 = a19 at *
  rw [← d5, ← d6, ← d7, ← d8, ← d9]
  ring

/-- the 32 stores of `fe25519_tobytes` on canonical limbs: the little-endian value is the represented integer -/
theorem tobytes_le {f : Fe} (hc : Canon (toI (fe25519_reduce f))) :
    le (fe25519_tobytes f) = (valI (toI (fe25519_reduce f))).toNat := by
  simp only [fe25519_tobytes]
  generalize fe25519_reduce f = t at *
  obtain ⟨t0, t1, t2, t3, t4, t5, t6, t7, t8, t9⟩ := t
  simp only [toI, Canon] at hc
  obtain ⟨⟨p0, q0⟩, ⟨p1, q1⟩, ⟨p2, q2⟩, ⟨p3, q3⟩, ⟨p4, q4⟩, ⟨p5, q5⟩, ⟨p6, q6⟩, ⟨p7, q7⟩, ⟨p8, q8⟩, ⟨p9, q9⟩⟩ := hc
  obtain ⟨n0, e0⟩ : ∃ n : Nat, t0.toInt = n := ⟨t0.toInt.toNat, (Int.toNat_of_nonneg p0).symm⟩
  obtain ⟨n1, e1⟩ : ∃ n : Nat, t1.toInt = n := ⟨t1.toInt.toNat, (Int.toNat_of_nonneg p1).symm⟩
  obtain ⟨n2, e2⟩ : ∃ n : Nat, t2.toInt = n := ⟨t2.toInt.toNat, (Int.toNat_of_nonneg p2).symm⟩
  obtain ⟨n3, e3⟩ : ∃ n : Nat, t3.toInt = n := ⟨t3.toInt.toNat, (Int.toNat_of_nonneg p3).symm⟩
  obtain ⟨n4, e4⟩ : ∃ n : Nat, t4.toInt = n := ⟨t4.toInt.toNat, (Int.toNat_of_nonneg p4).symm⟩
  obtain ⟨n5, e5⟩ : ∃ n : Nat, t5.toInt = n := ⟨t5.toInt.toNat, (Int.toNat_of_nonneg p5).symm⟩
  obtain ⟨n6, e6⟩ : ∃ n : Nat, t6.toInt = n := ⟨t6.toInt.toNat, (Int.toNat_of_nonneg p6).symm⟩
  obtain ⟨n7, e7⟩ : ∃ n : Nat, t7.toInt = n := ⟨t7.toInt.toNat, (Int.toNat_of_nonneg p7).symm⟩
  obtain ⟨n8, e8⟩ : ∃ n : Nat, t8.toInt = n := ⟨t8.toInt.toNat, (Int.toNat_of_nonneg p8).symm⟩
  obtain ⟨n9, e9⟩ : ∃ n : Nat, t9.toInt = n := ⟨t9.toInt.toNat, (Int.toNat_of_nonneg p9).symm⟩
  have h0 : n0 < 2 ^ 26 := by omega
  have h1 : n1 < 2 ^ 25 := by omega
  have h2 : n2 < 2 ^ 26 := by omega
  have h3 : n3 < 2 ^ 25 := by omega
  have h4 : n4 < 2 ^ 26 := by omega
  have h5 : n5 < 2 ^ 25 := by omega
  have h6 : n6 < 2 ^ 26 := by omega
  have h7 : n7 < 2 ^ 25 := by omega
  have h8 : n8 < 2 ^ 26 := by omega
  have h9 : n9 < 2 ^ 25 := by omega
  have b0 := byteA32 (a := t0) 0 0 (by decide) e0
  have b1 := byteA32 (a := t0) 8 8 (by decide) e0
  have b2 := byteA32 (a := t0) 16 16 (by decide) e0
  have b3 := byteB32 (a := t0) (b := t1) 24 24 (by decide) 2 2 (by decide) e0 e1 (by omega) (by omega)
  have b4 := byteA32 (a := t1) 6 6 (by decide) e1
  have b5 := byteA32 (a := t1) 14 14 (by decide) e1
  have b6 := byteB32 (a := t1) (b := t2) 22 22 (by decide) 3 3 (by decide) e1 e2 (by omega) (by omega)
  have b7 := byteA32 (a := t2) 5 5 (by decide) e2
  have b8 := byteA32 (a := t2) 13 13 (by decide) e2
  have b9 := byteB32 (a := t2) (b := t3) 21 21 (by decide) 5 5 (by decide) e2 e3 (by omega) (by omega)
  have b10 := byteA32 (a := t3) 3 3 (by decide) e3
  have b11 := byteA32 (a := t3) 11 11 (by decide) e3
  have b12 := byteB32 (a := t3) (b := t4) 19 19 (by decide) 6 6 (by decide) e3 e4 (by omega) (by omega)
  have b13 := byteA32 (a := t4) 2 2 (by decide) e4
  have b14 := byteA32 (a := t4) 10 10 (by decide) e4
  have b15 := byteA32 (a := t4) 18 18 (by decide) e4
  have b16 := byteA32 (a := t5) 0 0 (by decide) e5
  have b17 := byteA32 (a := t5) 8 8 (by decide) e5
  have b18 := byteA32 (a := t5) 16 16 (by decide) e5
  have b19 := byteB32 (a := t5) (b := t6) 24 24 (by decide) 1 1 (by decide) e5 e6 (by omega) (by omega)
  have b20 := byteA32 (a := t6) 7 7 (by decide) e6
  have b21 := byteA32 (a := t6) 15 15 (by decide) e6
  have b22 := byteB32 (a := t6) (b := t7) 23 23 (by decide) 3 3 (by decide) e6 e7 (by omega) (by omega)
  have b23 := byteA32 (a := t7) 5 5 (by decide) e7
  have b24 := byteA32 (a := t7) 13 13 (by decide) e7
  have b25 := byteB32 (a := t7) (b := t8) 21 21 (by decide) 4 4 (by decide) e7 e8 (by omega) (by omega)
  have b26 := byteA32 (a := t8) 4 4 (by decide) e8
  have b27 := byteA32 (a := t8) 12 12 (by decide) e8
  have b28 := byteB32 (a := t8) (b := t9) 20 20 (by decide) 6 6 (by decide) e8 e9 (by omega) (by omega)
  have b29 := byteA32 (a := t9) 2 2 (by decide) e9
  have b30 := byteA32 (a := t9) 10 10 (by decide) e9
  have b31 := byteA32 (a := t9) 18 18 (by decide) e9
  simp only [le, toI, valI, b0, b1, b2, b3, b4, b5, b6, b7, b8, b9, b10, b11, b12, b13, b14, b15, b16, b17, b18, b19, b20, b21, b22, b23, b24, b25, b26, b27, b28, b29, b30, b31, e0, e1, e2, e3, e4, e5, e6, e7, e8, e9]
  have lo := pack_lo n0 n1 n2 n3 n4 h0 h1 h2 h3 h4
  have hi := pack_hi n5 n6 n7 n8 n9 h5 h6 h7 h8 h9
  clear b0 b1 b2 b3 b4 b5 b6 b7 b8 b9 b10 b11 b12 b13 b14 b15 b16 b17 b18 b19 b20 b21 b22 b23 b24 b25 b26 b27 b28 b29 b30 b31 e0 p0 q0 e1 p1 q1 e2 p2 q2 e3 p3 q3 e4 p4 q4 e5 p5 q5 e6 p6 q6 e7 p7 q7 e8 p8 q8 e9 p9 q9
  have ev : ((n0 : Int) + n1 * 2 ^ 26 + n2 * 2 ^ 51 + n3 * 2 ^ 77 + n4 * 2 ^ 102 + n5 * 2 ^ 128 + n6 * 2 ^ 153 + n7 * 2 ^ 179 +
      n8 * 2 ^ 204 + n9 * 2 ^ 230) = (((n0 + n1 * 2 ^ 26 + n2 * 2 ^ 51 + n3 * 2 ^ 77 + n4 * 2 ^ 102) +
      2 ^ 128 * (n5 + n6 * 2 ^ 25 + n7 * 2 ^ 51 + n8 * 2 ^ 76 + n9 * 2 ^ 102) : Nat) : Int) := by
    push_cast; ring
  rw [ev, Int.toNat_natCast, ← lo, ← hi]
  ring


theorem tobytes_length (f : Fe) : (fe25519_tobytes f).length = 32 := by simp [fe25519_tobytes]

/-- on canonical limbs the 32 bytes are the little-endian encoding of the represented integer -/
theorem tobytes_eq {f : Fe} (hc : Canon (toI (fe25519_reduce f))) :
    fe25519_tobytes f = toLE 32 (valI (toI (fe25519_reduce f))).toNat := by
  obtain ⟨r1, r2⟩ := canon_range _ hc
  apply le_inj
  · rw [toLE_length, tobytes_length]
  · rw [tobytes_le hc, le_toLE]
    refine (Nat.mod_eq_of_lt ?_).symm
    have e : (256 : Nat) ^ 32 = 2 ^ 256 := by norm_num
    rw [e]
    generalize valI (toI (fe25519_reduce f)) = v at *
    omega

/-- **`fe25519_tobytes`**: the canonical encoding of `val f mod p` -/
theorem tobytes_spec {f : Fe} (hf : Loose f) (hyp : 0 ≤ 19 * f.l9.toInt + 16777216 ∨ -P ≤ val f) :
    fe25519_tobytes f = F25519.toBytes (fval f) := by
  obtain ⟨hc, hv⟩ := reduce_spec hf hyp
  have e : fval f % F25519.p = fval f := Nat.mod_eq_of_lt (fval_lt _)
  rw [tobytes_eq hc, F25519.toBytes, e]
  show toLE 32 (val (fe25519_reduce f)).toNat = _
  rw [hv]; rfl

/-- a tight element is above `-p` -/
theorem tight_low {f : Fe} (hf : Tight f) : -P ≤ val f := by
  obtain ⟨g0, g1, g2, g3, g4, g5, g6, g7, g8, g9⟩ := hf
  obtain ⟨_, a0, b0⟩ := g0; obtain ⟨_, a1, b1⟩ := g1; obtain ⟨_, a2, b2⟩ := g2; obtain ⟨_, a3, b3⟩ := g3
  obtain ⟨_, a4, b4⟩ := g4; obtain ⟨_, a5, b5⟩ := g5; obtain ⟨_, a6, b6⟩ := g6; obtain ⟨_, a7, b7⟩ := g7
  obtain ⟨_, a8, b8⟩ := g8; obtain ⟨_, a9, b9⟩ := g9
  simp only [val, valI, P]
  dsimp only [toI] at *
  omega

theorem tobytes_tight {f : Fe} (hf : Tight f) : fe25519_tobytes f = F25519.toBytes (fval f) :=
  tobytes_spec hf.loose (Or.inr (tight_low hf))

end Sodium.Fe25P
