import SodiumModel.Proofs.GcmAesniSpecLink
/-
  `beforenm_ok` (round keys + table of powers ⇒ `GhOK`), the authenticated string S (`authBlock_eq`), the length block,
  the tag T = GCTR_K(J0, S).
-/
open Polynomial
namespace Sodium.GcmAesniP.GF
open Sodium Sodium.Model.GcmAesni Sodium.Spec Sodium.Spec.Gcm Sodium.GcmAesniP

theorem HxOK_of_upTo {st : State} {h0 : BlockVec} (h : HxUpTo h0 14 st.hx) : HxOK st h0 := fun j hj => h.2 j hj

theorem GhOK_of_HxOK {st : State} {h0 : BlockVec} (h : HxOK st h0) : GhOK st h0 :=
  ⟨agg_ok h, split_ok h, ad_blocks_ok (agg_ok h)⟩

/-- the state built by `crypto_aead_aes256gcm_beforenm`: FIPS-197 round keys and a correct table of powers of
    H = AES-256_k(0^128), whatever the previous content of `st->hx` -/
theorem beforenm_ok (k : Bytes) (hk : k.length = 32) (hx_init : List Precomp) (hl : hx_init.length = 14) :
    let st := crypto_aead_aes256gcm_beforenm k hx_init
    st.rkeys.length = 15 ∧ st.rkeys.map STORE128 = Aes.keyExpansion256 k ∧
    GhOK st (REV128 (LOAD128 (Aes.encryptBlock256 k (zeros 16)))) := by
  dsimp only [crypto_aead_aes256gcm_beforenm]
  refine ⟨AesK.expand256_length k, AesK.expand256_eq k hk, GhOK_of_HxOK (HxOK_of_upTo ?_)⟩
  dsimp only
  rw [AesK.encrypt_expand256 k hk hx_init (zeros 16) (by simp [zeros])]
  exact precomp_ok hx_init hl _

/-! ### the authenticated block string -/

theorem ghB_take (h0 acc : BlockVec) (blk : Bytes) : ghB h0 acc (blk.take 16) = ghB h0 acc blk := by
  unfold ghB; rw [AesK.LOAD128_take]

theorem ghFold_append (h0 acc : BlockVec) (X Y : Bytes) (n : Nat) (hX : 16 * n ≤ X.length) :
    ghFold h0 acc (X ++ Y) n = ghFold h0 acc X n := by
  induction n with
  | zero => rw [ghFold_zero, ghFold_zero]
  | succ n ih =>
    rw [ghFold_succ, ghFold_succ, ih (by omega), ← ghB_take, ← ghB_take h0 _ (X.drop (16 * n))]
    congr 1
    rw [List.drop_append_of_le_length (by omega), List.take_append_of_le_length (by simp; omega)]

theorem pad16_length (n : Nat) : n + (pad16 n).length = 16 * ((n + 15) / 16) := by
  simp [pad16, zeros]; omega

theorem final_block_bytes (al sl : Nat) : STORE128 (final_block al sl) = toBE 8 (8 * al) ++ toBE 8 (8 * sl) := by
  unfold final_block
  rw [Ctr.STORE128_REV128]
  have hv : (SET64x2 (UInt64.ofNat al * 8) (UInt64.ofNat sl * 8)).toNat = (8 * al % 2 ^ 64) * 256 ^ 8 + 8 * sl % 2 ^ 64 := by
    simp only [SET64x2, mm_set_epi64x, ofQ_toNat, UInt64.toNat_mul, UInt64.toNat_ofNat']
    have : (8 : UInt64).toNat = 8 := rfl
    rw [this]
    omega
  rw [hv, Ctr.toBE_add 8 8 _ _ (by omega)]
  have e : (2 : Nat) ^ 64 = 256 ^ 8 := by decide
  rw [e, Ctr.toBE_mod, Ctr.toBE_mod]

theorem auth_core (h : Bytes) (hh : h.length = 16) (A' C' L : Bytes) (a c : Nat)
    (lA : A'.length = 16 * a) (lC : C'.length = 16 * c) (lL : L.length = 16) :
    STORE128 (REV128 (ghB (REV128 (LOAD128 h)) (ghFold (REV128 (LOAD128 h)) (ghFold (REV128 (LOAD128 h)) gh_init A' a) C' c) L))
      = Gcm.ghash h (A' ++ (C' ++ L)) := by
  rw [← ghFold_eq_ghash h hh (A' ++ (C' ++ L)) (a + c + 1)
    (by rw [List.length_append, List.length_append, lA, lC, lL]; omega)]
  congr 2
  have d1 : (A' ++ (C' ++ L)).drop (16 * a) = C' ++ L := by
    rw [List.drop_append_of_le_length (by omega), List.drop_of_length_le (by omega), List.nil_append]
  have d2 : (A' ++ (C' ++ L)).drop (16 * (a + c)) = L := by
    rw [← List.append_assoc, List.drop_append_of_le_length (by rw [List.length_append]; omega),
      List.drop_of_length_le (by rw [List.length_append]; omega), List.nil_append]
  rw [ghFold_add, ghFold_add, ghFold_append _ _ _ _ _ (by omega), d1, d2, ghFold_append _ _ _ _ _ (by omega),
    ghFold_succ, ghFold_zero, Nat.mul_zero, List.drop_zero]

/-- the accumulator the generic functions end with is S of SP 800-38D §7.1 step 5 -/
theorem authBlock_eq (h : Bytes) (hh : h.length = 16) (ad ct : Bytes) :
    STORE128 (REV128 (ghB (REV128 (LOAD128 h))
      (ghFold (REV128 (LOAD128 h)) (ghFold (REV128 (LOAD128 h)) gh_init (ad ++ pad16 ad.length) ((ad.length + 15) / 16))
        (ct ++ pad16 ct.length) ((ct.length + 15) / 16))
      (STORE128 (final_block ad.length ct.length)))) = Gcm.authBlock h ad ct := by
  rw [auth_core h hh _ _ _ _ _ (by simpa using pad16_length ad.length) (by simpa using pad16_length ct.length)
    (Ctr.STORE128_length _), final_block_bytes]
  unfold authBlock
  simp [List.append_assoc]


/-! ### the tag -/

theorem xorBytes_comm : ∀ a b : Bytes, xorBytes a b = xorBytes b a
  | [], [] => rfl
  | [], _ :: _ => rfl
  | _ :: _, [] => rfl
  | x :: xs, y :: ys => by simp [xorBytes, xorBytes_comm xs ys, UInt8.xor_comm]

theorem chunks16_single (s : Bytes) (hs : s.length = 16) : Aes.chunks 16 s = [s] := by
  have hne : s.isEmpty = false := by cases s <;> simp_all
  have hd : s.drop 16 = [] := List.drop_of_length_le (by omega)
  have ht : s.take 16 = s := List.take_of_length_le (by omega)
  rw [Aes.chunks, hs]
  simp [Aes.chunksAux, hne, hd, ht]

theorem cipher_length (rkeys : List BlockVec) (hk : rkeys.length = 15) (b : Bytes) (hb : b.length = 16) :
    (Aes.cipher (rkeys.map STORE128) b).length = 16 := by
  have := AesK.rounds_eq rkeys hk (LOAD128 b)
  rw [AesK.STORE128_LOAD128 b hb] at this
  rw [← this]; exact AesK.STORE128_length _

/-- T = GCTR_K(J0, S) for the 16-byte S (SP 800-38D §7.1 step 6) -/
theorem tag_eq (rkeys : List BlockVec) (hk : rkeys.length = 15) (j0 : Bytes) (hj : j0.length = 16) (accF : BlockVec) :
    STORE128 (XOR128 (LOAD128 (Aes.cipher (rkeys.map STORE128) j0)) (REV128 accF))
      = Gcm.gctr (Aes.cipher (rkeys.map STORE128)) j0 (STORE128 (REV128 accF)) := by
  rw [AesK.STORE128_XOR128, AesK.STORE128_LOAD128 _ (cipher_length rkeys hk j0 hj), gctr,
    chunks16_single _ (AesK.STORE128_length _)]
  simp [gctrBlocks, xorBytes_comm]

end Sodium.GcmAesniP.GF
