import SodiumModel.Proofs.EdSignDecode
open Sodium Sodium.Spec Sodium.Model.Ge25519
open Sodium.ScalarmultLow (c_add c_mul c_sqr c_sub)
open Sodium.RistrettoRefP (F c_neg c_pow c_mod c_inv cast_inj cast_eq_zero chi chi_cases c_sqrtM1_sq
  normX normX_neg mul_lt sqr_lt neg_lt pow_lt add_lt sub_lt inv_lt p_val)
namespace Sodium.EdSignP
/-! ### the two candidates -/

/-- u = y² − 1 and v = d·y² + 1, as both the C code and the specification compute them -/
def uOf (y : Nat) : Nat := F25519.sub (F25519.sqr y) 1
def vOf (y : Nat) : Nat := F25519.add (F25519.mul Ed25519.d (F25519.sqr y)) 1

/-- `ge25519_frombytes`: u·(u·v)^((p−5)/8) -/
def cand1 (u v : Nat) : Nat := F25519.mul u (F25519.pow (F25519.mul u v) ((p - 5) / 8))

/-- RFC 8032 / `F25519.sqrtRatio8032`: u·v³·(u·v⁷)^((p−5)/8) -/
def cand2 (u v : Nat) : Nat :=
  F25519.mul (F25519.mul u (F25519.mul (F25519.sqr v) v))
    (F25519.pow (F25519.mul u (F25519.mul (F25519.sqr (F25519.mul (F25519.sqr v) v)) v)) ((p - 5) / 8))

/-- the same in the multiplication order of `ge25519_frombytes_negate_vartime` -/
def cand2' (u v : Nat) : Nat :=
  F25519.mul (F25519.mul
    (F25519.pow (F25519.mul (F25519.mul (F25519.sqr (F25519.mul (F25519.sqr v) v)) v) u) ((p - 5) / 8))
    (F25519.mul (F25519.sqr v) v)) u

theorem cand2'_eq (u v : Nat) : cand2' u v = cand2 u v := by
  apply cast_inj (mul_lt _ _) (mul_lt _ _)
  simp only [cand2', cand2, c_mul, c_sqr, c_pow]
  generalize (p - 5) / 8 = e
  ring

theorem vOf_ne (y : Nat) : ((vOf y : Nat) : F) ≠ 0 := by
  rw [vOf, c_add, c_mul, c_sqr, Nat.cast_one]
  exact v_ne_zero _

theorem uOf_lt (y : Nat) : uOf y < p := sub_lt _ _

theorem cand1_hcw (u v : Nat) :
    (v : F) * ((cand1 u v : F) * (cand1 u v : F)) = (u : F) * ((F25519.mul u v : Nat) : F) ^ ((p - 1) / 4) := by
  rw [← qexp]
  simp only [cand1, c_mul, c_pow]
  generalize (p - 5) / 8 = e
  exact cand1_eq _ _ e

theorem cand2_hcw (u v : Nat) :
    (v : F) * ((cand2 u v : F) * (cand2 u v : F)) =
      (u : F) * ((F25519.mul u (F25519.mul (F25519.sqr (F25519.mul (F25519.sqr v) v)) v) : Nat) : F) ^ ((p - 1) / 4) := by
  rw [← qexp]
  simp only [cand2, c_mul, c_pow, c_sqr]
  generalize (p - 5) / 8 = e
  exact cand2_eq _ _ e

theorem cand1_hw {u v : Nat} (hv : (v : F) ≠ 0) (r : F) (hr : (v : F) * (r * r) = (u : F)) :
    ∃ z, ((F25519.mul u v : Nat) : F) = z * z ∧ (z = 0 → (u : F) = 0) := by
  rw [c_mul]; exact sq1 hv r hr

theorem cand2_hw {u v : Nat} (hv : (v : F) ≠ 0) (r : F) (hr : (v : F) * (r * r) = (u : F)) :
    ∃ z, ((F25519.mul u (F25519.mul (F25519.sqr (F25519.mul (F25519.sqr v) v)) v) : Nat) : F) = z * z ∧
      (z = 0 → (u : F) = 0) := by
  simp only [c_mul, c_sqr]; exact sq2 hv r hr

/-- two canonical roots have the same sign-normalised value -/
theorem root_norm {u v x0 x1 : Nat} (hv : (v : F) ≠ 0) (h0 : x0 < p) (h1 : x1 < p) (r0 : Root u v x0) (r1 : Root u v x1)
    (sg : Bool) : normX x0 sg = normX x1 sg := by
  rcases root_pm hv r0 r1 with h | h
  · rw [cast_inj h0 h1 h]
  · have : x0 = F25519.neg x1 := cast_inj h0 (neg_lt _) (by rw [c_neg]; exact h)
    rw [this, normX_neg h1]

/-- the different root formula of `ge25519_frombytes` gives the same result after sign normalisation -/
theorem pick_agree (y : Nat) (sg : Bool) :
    (pick (uOf y) (vOf y) (cand1 (uOf y) (vOf y))).map (normX · sg) =
    (pick (uOf y) (vOf y) (cand2 (uOf y) (vOf y))).map (normX · sg) := by
  obtain ⟨a1, a2, -⟩ := pick_spec (uOf_lt y) (mul_lt _ _) (cand1_hcw (uOf y) (vOf y)) (cand1_hw (vOf_ne y))
  obtain ⟨b1, b2, -⟩ := pick_spec (uOf_lt y) (mul_lt _ _) (cand2_hcw (uOf y) (vOf y)) (cand2_hw (vOf_ne y))
  cases h1 : pick (uOf y) (vOf y) (cand1 (uOf y) (vOf y)) with
  | none =>
    cases h2 : pick (uOf y) (vOf y) (cand2 (uOf y) (vOf y)) with
    | none => rfl
    | some x2 => exact absurd ⟨_, (b1 x2 h2).2⟩ (a2 h1)
  | some x1 =>
    cases h2 : pick (uOf y) (vOf y) (cand2 (uOf y) (vOf y)) with
    | none => exact absurd ⟨_, (a1 x1 h1).2⟩ (b2 h2)
    | some x2 =>
      simp only [Option.map_some]
      rw [root_norm (vOf_ne y) (a1 x1 h1).1 (b1 x2 h2).1 (a1 x1 h1).2 (b1 x2 h2).2]

theorem sqrtRatio_eq_pick (u v : Nat) (hu : u < p) : F25519.sqrtRatio8032 u v = pick u v (cand2 u v) := by
  unfold F25519.sqrtRatio8032 pick cand2
  simp only [Nat.mod_eq_of_lt hu, RistrettoRefP.mul_comm' v]

theorem uOf_def (y : Nat) : F25519.sub (F25519.sqr y) 1 = uOf y := rfl
theorem vOf_def (y : Nat) : F25519.add (F25519.mul Ed25519.d (F25519.sqr y)) 1 = vOf y := rfl

end Sodium.EdSignP
