/-
  Bounded universal quantification over `UInt8` is decidable (256 cases); used with
  `decide` only for single-byte tables (character maps, final-mask lemmas).
-/
namespace Sodium

theorem UInt8.forall_iff_fin (P : UInt8 → Prop) : (∀ d, P d) ↔ ∀ n : Fin 256, P (UInt8.ofFin n) :=
  ⟨fun h _ => h _, fun h d => by simpa using h d.toFin⟩

instance instDecidableForallUInt8 (P : UInt8 → Prop) [DecidablePred P] : Decidable (∀ d, P d) :=
  decidable_of_iff _ (UInt8.forall_iff_fin P).symm

end Sodium
