import SodiumModel.Proofs.X86Scalar
/-
  Helper lemmas for `Properties/C05Asm2.lean`, part 1: the freeze of fe51_pack.S (the conditional
  subtraction of p), executed symbolically and as limb algebra.
-/
namespace Sodium.X86ScalarP
open Sodium Sodium.Model Sodium.Model.X86Scalar Sodium.Model.Fe51 Sodium.Fe51P Sodium.Spec
open Generated.Sandy2xAsm

/-! ### the freeze: `mov $1,%r12` … `sub %rax,%rsi` (19 instructions) -/

/-- `r12` before `neg %r12`: 1 iff the five compare / cmov pairs all leave it alone -/
def geP (g : Fe) : UInt64 :=
  if (!g.l4 - 0x7FFFFFFFFFFFF == 0) = true then 0
  else if (!g.l3 - 0x7FFFFFFFFFFFF == 0) = true then 0
  else if (!g.l2 - 0x7FFFFFFFFFFFF == 0) = true then 0
  else if (!g.l1 - 0x7FFFFFFFFFFFF == 0) = true then 0
  else if (msb (g.l0 - 0x7FFFFFFFFFFED) !=
      (msb g.l0 != msb 0x7FFFFFFFFFFED && msb (g.l0 - 0x7FFFFFFFFFFED) != msb g.l0)) = true then 0
  else 1

/-- the limb registers after the masked subtraction -/
def freezeU (g : Fe) : Fe :=
  ⟨g.l0 - (0x7FFFFFFFFFFED &&& (0 - geP g)), g.l1 - (0x7FFFFFFFFFFFF &&& (0 - geP g)),
   g.l2 - (0x7FFFFFFFFFFFF &&& (0 - geP g)), g.l3 - (0x7FFFFFFFFFFFF &&& (0 - geP g)),
   g.l4 - (0x7FFFFFFFFFFFF &&& (0 - geP g))⟩

/-- **symbolic execution of the freeze** -/
theorem pack_freeze_exec (s : State) (h : s.rax = 0x7FFFFFFFFFFFF) (h10 : s.r10 = 0x7FFFFFFFFFFED) (h11 : s.r11 = 0) :
    limbs (run (fe51_pack_b2.take 19) s) = freezeU (limbs s) ∧
    (run (fe51_pack_b2.take 19) s).mem = s.mem ∧ (run (fe51_pack_b2.take 19) s).rsp = s.rsp ∧
    (run (fe51_pack_b2.take 19) s).rdi = s.rdi ∧ (run (fe51_pack_b2.take 19) s).ok = s.ok ∧
    (run (fe51_pack_b2.take 19) s).rbx = s.rbx ∧ (run (fe51_pack_b2.take 19) s).rbp = s.rbp ∧
    (run (fe51_pack_b2.take 19) s).r13 = s.r13 ∧ (run (fe51_pack_b2.take 19) s).r14 = s.r14 ∧
    (run (fe51_pack_b2.take 19) s).r15 = s.r15 := by
  simp only [fe51_pack_b2, List.take, run, step, stepAlu, State.read, State.write, State.get, State.set, State.flags,
    State.useFlags, State.cond, limbs, h, h10, h11, if_true, freezeU, geP, and_true]
  rfl

theorem msb_eq (x : UInt64) : msb x = decide (2 ^ 63 ≤ x.toNat) := by
  unfold msb
  have h : (x >>> 63).toNat = x.toNat / 2 ^ 63 := by rw [shr_lit]; rfl
  have hl := x.toNat_lt
  have z : (0 : UInt64).toNat = 0 := rfl
  by_cases hx : 2 ^ 63 ≤ x.toNat
  · have h' : x >>> 63 ≠ 0 := by
      intro e; rw [e, z] at h; omega
    rw [decide_eq_true hx]
    exact bne_iff_ne.mpr h'
  · have h' : x >>> 63 = 0 := by
      apply UInt64.toNat_inj.mp; rw [h, z]; omega
    rw [decide_eq_false hx, h']; rfl

theorem ne_mask (x : UInt64) : ((!x - 0x7FFFFFFFFFFFF == 0) = true) ↔ x.toNat ≠ 2 ^ 51 - 1 := by
  have k1 : (0x7FFFFFFFFFFFF : UInt64).toNat = 2 ^ 51 - 1 := rfl
  have z : (0 : UInt64).toNat = 0 := rfl
  have hl := x.toNat_lt
  by_cases hx : x.toNat = 2 ^ 51 - 1
  · have : x = 0x7FFFFFFFFFFFF := UInt64.toNat_inj.mp hx
    subst this
    constructor
    · intro h; exact absurd h (by decide)
    · intro h; exact absurd rfl h
  · have hne : x - 0x7FFFFFFFFFFFF ≠ 0 := by
      intro e
      have e' := congrArg UInt64.toNat e
      rw [UInt64.toNat_sub, k1, z] at e'
      omega
    have hb : (x - 0x7FFFFFFFFFFFF == 0) = false := beq_eq_false_iff_ne.mpr hne
    rw [hb]
    exact ⟨fun _ => hx, fun _ => rfl⟩

theorem slt_small (x : UInt64) (hx : x.toNat < 2 ^ 51) :
    ((msb (x - 0x7FFFFFFFFFFED) != (msb x != msb 0x7FFFFFFFFFFED && msb (x - 0x7FFFFFFFFFFED) != msb x)) = true) ↔
      x.toNat < 2 ^ 51 - 19 := by
  have c : (0x7FFFFFFFFFFED : UInt64).toNat = 2 ^ 51 - 19 := rfl
  have hs : (x - 0x7FFFFFFFFFFED).toNat = (2 ^ 64 - (2 ^ 51 - 19) + x.toNat) % 2 ^ 64 := by
    rw [UInt64.toNat_sub, c]
  have a2 : msb x = false := by rw [msb_eq]; exact decide_eq_false (by omega)
  have a3 : msb 0x7FFFFFFFFFFED = false := by decide
  rw [a2, a3]
  by_cases hl : x.toNat < 2 ^ 51 - 19
  · have a1 : msb (x - 0x7FFFFFFFFFFED) = true := by rw [msb_eq, hs]; exact decide_eq_true (by omega)
    rw [a1]; exact ⟨fun _ => hl, fun _ => by decide⟩
  · have a1 : msb (x - 0x7FFFFFFFFFFED) = false := by rw [msb_eq, hs]; exact decide_eq_false (by omega)
    rw [a1]; exact ⟨fun h => absurd h (by decide), fun h => absurd h hl⟩

/-- `geP` on fully carried limbs: 1 iff the value is at least p -/
theorem geP_eq (g : Fe) (hb : Bounded (2 ^ 51) g) :
    geP g = if (2 ^ 51 - 19 ≤ g.l0.toNat ∧ g.l1.toNat = 2 ^ 51 - 1 ∧ g.l2.toNat = 2 ^ 51 - 1 ∧
      g.l3.toNat = 2 ^ 51 - 1 ∧ g.l4.toNat = 2 ^ 51 - 1) then 1 else 0 := by
  obtain ⟨b0, b1, b2, b3, b4⟩ := hb
  unfold geP
  simp only [ne_mask, slt_small g.l0 b0]
  by_cases h4 : g.l4.toNat = 2 ^ 51 - 1
  · by_cases h3 : g.l3.toNat = 2 ^ 51 - 1
    · by_cases h2 : g.l2.toNat = 2 ^ 51 - 1
      · by_cases h1 : g.l1.toNat = 2 ^ 51 - 1
        · by_cases h0 : g.l0.toNat < 2 ^ 51 - 19
          · rw [if_neg (not_not.mpr h4), if_neg (not_not.mpr h3), if_neg (not_not.mpr h2), if_neg (not_not.mpr h1),
              if_pos h0, if_neg (by omega)]
          · rw [if_neg (not_not.mpr h4), if_neg (not_not.mpr h3), if_neg (not_not.mpr h2), if_neg (not_not.mpr h1),
              if_neg h0, if_pos ⟨by omega, h1, h2, h3, h4⟩]
        · rw [if_neg (not_not.mpr h4), if_neg (not_not.mpr h3), if_neg (not_not.mpr h2), if_pos h1,
            if_neg (fun h => h1 h.2.1)]
      · rw [if_neg (not_not.mpr h4), if_neg (not_not.mpr h3), if_pos h2, if_neg (fun h => h2 h.2.2.1)]
    · rw [if_neg (not_not.mpr h4), if_pos h3, if_neg (fun h => h3 h.2.2.2.1)]
  · rw [if_pos h4, if_neg (fun h => h4 h.2.2.2.2)]

/-- **the freeze is the canonical reduction**: on fully carried limbs it subtracts p iff the value is ≥ p -/
theorem freeze_spec (g : Fe) (hb : Bounded (2 ^ 51) g) :
    Bounded (2 ^ 51) (freezeU g) ∧ val (freezeU g) = val g % (2 ^ 255 - 19) := by
  have hg := geP_eq g hb
  obtain ⟨b0, b1, b2, b3, b4⟩ := hb
  unfold freezeU
  by_cases hc : (2 ^ 51 - 19 ≤ g.l0.toNat ∧ g.l1.toNat = 2 ^ 51 - 1 ∧ g.l2.toNat = 2 ^ 51 - 1 ∧
      g.l3.toNat = 2 ^ 51 - 1 ∧ g.l4.toNat = 2 ^ 51 - 1)
  · rw [hg, if_pos hc]
    obtain ⟨c0, c1, c2, c3, c4⟩ := hc
    have e0 : ((0x7FFFFFFFFFFED : UInt64) &&& ((0 : UInt64) - 1)) = 0x7FFFFFFFFFFED := by decide
    have e1 : ((0x7FFFFFFFFFFFF : UInt64) &&& ((0 : UInt64) - 1)) = 0x7FFFFFFFFFFFF := by decide
    rw [e0, e1]
    have k0 : (0x7FFFFFFFFFFED : UInt64).toNat = 2 ^ 51 - 19 := rfl
    have k1 : (0x7FFFFFFFFFFFF : UInt64).toNat = 2 ^ 51 - 1 := rfl
    have s0 : (g.l0 - 0x7FFFFFFFFFFED).toNat = g.l0.toNat - (2 ^ 51 - 19) := by rw [UInt64.toNat_sub, k0]; omega
    have s1 : (g.l1 - 0x7FFFFFFFFFFFF).toNat = 0 := by rw [UInt64.toNat_sub, k1]; omega
    have s2 : (g.l2 - 0x7FFFFFFFFFFFF).toNat = 0 := by rw [UInt64.toNat_sub, k1]; omega
    have s3 : (g.l3 - 0x7FFFFFFFFFFFF).toNat = 0 := by rw [UInt64.toNat_sub, k1]; omega
    have s4 : (g.l4 - 0x7FFFFFFFFFFFF).toNat = 0 := by rw [UInt64.toNat_sub, k1]; omega
    refine ⟨⟨by show (g.l0 - 0x7FFFFFFFFFFED).toNat < _; omega, by show (g.l1 - 0x7FFFFFFFFFFFF).toNat < _; omega,
      by show (g.l2 - 0x7FFFFFFFFFFFF).toNat < _; omega, by show (g.l3 - 0x7FFFFFFFFFFFF).toNat < _; omega,
      by show (g.l4 - 0x7FFFFFFFFFFFF).toNat < _; omega⟩, ?_⟩
    simp only [val, s0, s1, s2, s3, s4]
    omega
  · rw [hg, if_neg hc]
    have e0 : ((0x7FFFFFFFFFFED : UInt64) &&& ((0 : UInt64) - 0)) = 0 := by decide
    have e1 : ((0x7FFFFFFFFFFFF : UInt64) &&& ((0 : UInt64) - 0)) = 0 := by decide
    rw [e0, e1]
    simp only [UInt64.sub_zero]
    refine ⟨⟨b0, b1, b2, b3, b4⟩, ?_⟩
    simp only [val]
    omega

end Sodium.X86ScalarP
