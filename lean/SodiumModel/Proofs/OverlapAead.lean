import SodiumModel.Model.OverlapAead
import SodiumModel.Proofs.Overlap
/-
  Helper lemmas for C13 / AEAD at memory level, part 1 (ChaCha20-Poly1305 family):
  the statement-order functions are two stores (ciphertext, tag) / one store (plaintext or zeros)
  of the value-level results of `Model/Aead.lean`.
-/
open Sodium Sodium.Model Sodium.Model.Aead Sodium.Model.Overlap Sodium.Model.OverlapAead Sodium.OverlapP
namespace Sodium.OverlapAeadP

theorem xorLoop_eq : ∀ (sizes : List Nat) (mem : Mem) (c m : Nat) (ks : Bytes),
    (xorLoop mem c m ks sizes).2 = xorChunks mem c m ks sizes
  | [], _, _, _, _ => rfl
  | s :: ss, mem, c, m, ks => by rw [xorLoop, xorChunks, xorLoop_eq ss]

theorem xorChunks_run (P : Prims) (hks : ∀ k n ic len, (P.ks k n ic len).length = len)
    (sizes : List Nat) (mem : Mem) (c m len : Nat) (k n : Bytes) (hs : sizes.sum = len)
    (h : c ≤ m ∨ m + len ≤ c) :
    xorChunks mem c m (P.ks k n 1 len) sizes = write mem c (xorBytes (read mem m len) (P.ks k n 1 len)) := by
  subst hs
  exact xorChunks_eq sizes mem c m _ h (by rw [hks]; exact Nat.le_refl _)

theorem xor_len (P : Prims) (hks : ∀ k n ic len, (P.ks k n ic len).length = len)
    (mem : Mem) (m len : Nat) (k n : Bytes) :
    (xorBytes (read mem m len) (P.ks k n 1 len)).length = len := by
  simp [aead_xorBytes_length, hks]

/-- encrypt_detached in statement order = store the value-level ciphertext, then the value-level tag -/
theorem encryptDetachedMem_eq (P : Prims) (hks : ∀ k n ic len, (P.ks k n ic len).length = len)
    (f : Flavor) (sizes : List Nat) (ldN ldK : Loader) (mem : Mem) (c mac m mlen ad adlen : Nat)
    (hs : sizes.sum = mlen) (h : c ≤ m ∨ m + mlen ≤ c) :
    encryptDetachedMem P f sizes ldN ldK mem c mac m mlen ad adlen =
      (0, write (write mem c (Aead.encryptDetached P f (read mem m mlen) (read mem ad adlen) (ldN mem) (ldK mem)).1) mac
        (Aead.encryptDetached P f (read mem m mlen) (read mem ad adlen) (ldN mem) (ldK mem)).2) := by
  cases f <;>
  simp only [encryptDetachedMem, origEncryptDetached, ietfEncryptDetached, Poly.init, Poly.update, Poly.final,
    Aead.encryptDetached, macData, length_read, List.nil_append, xorLoop_eq,
    xorChunks_run P hks sizes mem c m mlen _ _ hs h,
    read_write_same _ _ _ _ (xor_len P hks mem m mlen _ _).symm, xor_len P hks, List.append_assoc]

/-- decrypt_detached in statement order: the verdict of the value-level function on the bytes found
    at `c` / `mac` on entry, and either nothing, or `memset`, or one store of the plaintext -/
theorem decryptDetachedMem_eq (P : Prims) (hks : ∀ k n ic len, (P.ks k n ic len).length = len)
    (f : Flavor) (sizes : List Nat) (ldN ldK : Loader) (mem : Mem) (m c clen mac ad adlen : Nat)
    (hs : sizes.sum = clen) (h : m ≤ c ∨ c + clen ≤ m) :
    decryptDetachedMem P f sizes ldN ldK mem m c clen mac ad adlen =
      ((Aead.decryptDetached P f (decide (m ≠ 0)) (read mem c clen) (read mem mac 16) (read mem ad adlen)
          (ldN mem) (ldK mem)).rc,
       match (Aead.decryptDetached P f (decide (m ≠ 0)) (read mem c clen) (read mem mac 16) (read mem ad adlen)
          (ldN mem) (ldK mem)).mbuf with
       | none => mem
       | some out => write mem m out) := by
  cases f <;>
  · simp only [decryptDetachedMem, origDecryptDetached, ietfDecryptDetached, Poly.init, Poly.update, Poly.final,
      Aead.decryptDetached, macData, length_read, List.nil_append, List.append_assoc, xorLoop_eq,
      xorChunks_run P hks sizes mem m c clen _ _ hs h]
    by_cases hm : m = 0
    · simp [hm]
    · simp only [hm, if_false, ne_eq, not_false_eq_true, decide_true, Bool.not_true, Bool.false_eq_true]
      split <;> simp [Overlap.memset, zeros]

theorem xNonce_read (mem : Mem) (npub : Nat) : xNonce (read mem npub 24) = zeros 4 ++ read mem (npub + 16) 8 := by
  rw [xNonce, drop_read _ _ _ _ (by omega), take_read _ _ _ _ (by omega)]

theorem xSubkey_read (P : Prims) (mem : Mem) (npub : Nat) (kb : Bytes) :
    xSubkey P (read mem npub 24) kb = P.hcore (read mem npub 16) kb := by
  rw [xSubkey, take_read _ _ _ _ (by omega)]

theorem decryptDetached_mbuf_length (P : Prims) (hks : ∀ k n ic len, (P.ks k n ic len).length = len)
    (f : Flavor) (w : Bool) (c mac ad n k out : Bytes)
    (h : (Aead.decryptDetached P f w c mac ad n k).mbuf = some out) : out.length = c.length := by
  simp only [Aead.decryptDetached] at h
  split at h
  · simp at h
  · split at h <;> simp at h <;> rw [← h] <;> simp [aead_xorBytes_length, hks, zeros]

theorem decryptDetached_mbuf_none_false (P : Prims) (f : Flavor) (c mac ad n k : Bytes) :
    (Aead.decryptDetached P f true c mac ad n k).mbuf ≠ none := by
  simp only [Aead.decryptDetached]
  split
  · simp_all
  · split <;> simp

end Sodium.OverlapAeadP
