import Mathlib.Tactic.FieldSimp
import SodiumModel.Proofs.Ge25519Chains
import SodiumModel.Proofs.RistrettoRef10
/-
  Helper lemmas for `Properties/C06Full.lean`, part 1: `ge25519_frombytes`, `ge25519_frombytes_negate_vartime`,
  `ge25519_p3_tobytes`, `ge25519_tobytes` of `Model/Ge25519Ref10.lean` over the specification field are the
  RFC 8032 §5.1.3 / §5.1.2 decoding / encoding of `Spec/Ed25519.lean`.

  The square-root step is done in the FIELD `ZMod p` (p prime: `Proofs/Prime25519.lean`):
  both candidate formulas  c = u·(uv)^((p-5)/8)  (ge25519_frombytes)  and  c = u·v³·(uv⁷)^((p-5)/8)
  (ge25519_frombytes_negate_vartime, RFC 8032) satisfy  v·c² = u·w^((p-1)/4)  with w = uv resp. uv⁷, a square
  exactly when u/v is one; so "a check passes" ⟺ "a root of v·x² = u exists", and two roots differ by a sign,
  which the sign normalisation removes.
-/
open Sodium Sodium.Spec Sodium.Model.Ge25519
open Sodium.ScalarmultLow (c_add c_mul c_sqr c_sub)
open Sodium.RistrettoRefP (F c_neg c_pow c_mod c_inv cast_inj cast_eq_zero chi chi_cases c_sqrtM1_sq
  normX normX_neg mul_lt sqr_lt neg_lt pow_lt add_lt sub_lt inv_lt p_val)
namespace Sodium.EdSignP

abbrev p := F25519.p

/-! ### the square-root step in the field -/

theorem qexp : 2 * ((p - 5) / 8) + 1 = (p - 1) / 4 := by decide +kernel
theorem hexp : 2 * ((p - 1) / 4) = (p - 1) / 2 := by decide +kernel

/-- if `w = z²` then `w^((p-1)/4)` is the quadratic character of `z` -/
theorem pow_quarter_sq (z : F) : (z * z) ^ ((p - 1) / 4) = chi z := by
  rw [chi, ← pow_two, ← pow_mul, hexp]

theorem chi_eq_zero {z : F} (h : chi z = 0) : z = 0 := by
  unfold chi at h; exact (pow_eq_zero_iff (by decide)).1 h

/-- completeness of the two checks `v·c² = u`, `v·c² = −u` for a candidate with `v·c² = u·w^((p-1)/4)`, w a square -/
theorem cand_complete {u v c w z : F} (hw : w = z * z) (hc : v * (c * c) = u * w ^ ((p - 1) / 4))
    (hz : z = 0 → u = 0) : v * (c * c) = u ∨ v * (c * c) = -u := by
  rw [hw, pow_quarter_sq] at hc
  rcases chi_cases z with h | h | h
  · left; rw [hc, hz (chi_eq_zero h)]; ring
  · left; rw [hc, h]; ring
  · right; rw [hc, h]; ring

/-- soundness of the second check: `c·sqrt(-1)` is then a root -/
theorem cand_sound_p {u v c i : F} (hi : i * i = -1) (h : v * (c * c) = -u) : v * ((c * i) * (c * i)) = u := by
  linear_combination (-1 : F) * h + v * c * c * hi

/-- two roots differ by a sign -/
theorem root_pm {v a b u : F} (hv : v ≠ 0) (ha : v * (a * a) = u) (hb : v * (b * b) = u) : a = b ∨ a = -b := by
  have : a * a = b * b := mul_left_cancel₀ hv (ha.trans hb.symm)
  exact mul_self_eq_mul_self_iff.1 this

/-- "a check passes" ⟺ "a root exists", for a candidate with `v·c² = u·w^((p-1)/4)` where `w` is a square whenever
    a root exists (through a `z` that vanishes only if `u` does) -/
theorem cand_iff {u v c w : F} (hc : v * (c * c) = u * w ^ ((p - 1) / 4))
    (hw : ∀ r, v * (r * r) = u → ∃ z, w = z * z ∧ (z = 0 → u = 0)) :
    (∃ r, v * (r * r) = u) ↔ (v * (c * c) = u ∨ v * (c * c) = -u) := by
  constructor
  · rintro ⟨r, hr⟩
    obtain ⟨z, hz, hz0⟩ := hw r hr
    exact cand_complete hz hc hz0
  · rintro (h | h)
    · exact ⟨c, h⟩
    · exact ⟨_, cand_sound_p c_sqrtM1_sq h⟩

/-- candidate of `ge25519_frombytes`: c = u·(uv)^e, 2e + 1 = (p-1)/4 -/
theorem cand1_eq (u v : F) (e : Nat) :
    v * ((u * (u * v) ^ e) * (u * (u * v) ^ e)) = u * (u * v) ^ (2 * e + 1) := by ring

/-- candidate of RFC 8032 / `ge25519_frombytes_negate_vartime`: c = u·v³·(u·v⁷)^e -/
theorem cand2_eq (u v : F) (e : Nat) :
    v * ((u * (v * v * v) * (u * ((v * v * v) * (v * v * v) * v)) ^ e) *
         (u * (v * v * v) * (u * ((v * v * v) * (v * v * v) * v)) ^ e))
      = u * (u * ((v * v * v) * (v * v * v) * v)) ^ (2 * e + 1) := by ring

theorem sq1 {u v : F} (hv : v ≠ 0) (r : F) (hr : v * (r * r) = u) : ∃ z, u * v = z * z ∧ (z = 0 → u = 0) :=
  ⟨v * r, by rw [← hr]; ring, fun h => by
    rcases mul_eq_zero.1 h with h | h
    · exact absurd h hv
    · rw [← hr, h]; ring⟩

theorem sq2 {u v : F} (hv : v ≠ 0) (r : F) (hr : v * (r * r) = u) :
    ∃ z, u * ((v * v * v) * (v * v * v) * v) = z * z ∧ (z = 0 → u = 0) :=
  ⟨v * v * v * v * r, by rw [← hr]; ring, fun h => by
    have : r = 0 := by
      rcases mul_eq_zero.1 h with h | h
      · exact absurd h (by simp [hv])
      · exact h
    rw [← hr, this]; ring⟩

/-! ### v = d·y² + 1 never vanishes (d is a non-square, −1 is a square) -/

theorem chi_d : chi ((Ed25519.d : Nat) : F) = -1 := by
  have hn : F25519.pow Ed25519.d ((p - 1) / 2) = p - 1 := by decide +kernel
  have h : ((F25519.pow Ed25519.d ((p - 1) / 2) : Nat) : F) = ((p - 1 : Nat) : F) := by rw [hn]
  rw [c_pow] at h
  rw [chi, h, Nat.cast_sub (by decide), ZMod.natCast_self]
  simp

theorem v_ne_zero (y : F) : ((Ed25519.d : Nat) : F) * (y * y) + 1 ≠ 0 := by
  intro h
  -- d·y² = −1 = i², so d = (i/y)² would be a square
  have hy : y ≠ 0 := by
    rintro rfl
    rw [mul_zero, mul_zero, zero_add] at h
    exact one_ne_zero h
  have hd : ((Ed25519.d : Nat) : F) = ((F25519.sqrtM1 : F) * y⁻¹) * ((F25519.sqrtM1 : F) * y⁻¹) := by
    have h1 : ((Ed25519.d : Nat) : F) * (y * y) = -1 := by linear_combination h
    field_simp
    linear_combination h1 - c_sqrtM1_sq
  have := pow_quarter_sq ((F25519.sqrtM1 : F) * y⁻¹)
  have hc : chi ((Ed25519.d : Nat) : F) * chi ((Ed25519.d : Nat) : F) = 1 := by
    have h2 := RistrettoRefP.chi_sq_mul ((Ed25519.d : Nat) : F)
    rw [chi_d] at h2 ⊢; ring
  -- chi d = chi(z)² ∈ {0, 1} contradicts chi d = −1
  have h3 : chi ((Ed25519.d : Nat) : F) = chi ((F25519.sqrtM1 : F) * y⁻¹) * chi ((F25519.sqrtM1 : F) * y⁻¹) := by
    conv_lhs => rw [hd]
    exact RistrettoRefP.chi_mul _ _
  rw [RistrettoRefP.chi_sq_mul, chi_d] at h3
  split at h3
  · have : (1 : F) = 0 := by linear_combination (-1 : F) * h3
    exact one_ne_zero this
  · exact RistrettoRefP.one_ne_neg_one h3.symm

/-! ### the selection of the root, on canonical naturals -/

/-- `x` is a root of `v·x² = u` (in the field) -/
def Root (u v x : Nat) : Prop := (v : F) * ((x : F) * (x : F)) = (u : F)

/-- the selection both C functions and `F25519.sqrtRatio8032` perform on a candidate `c`:
    `v·c² = u → c`, `v·c² = −u → c·sqrt(−1)`, else failure -/
def pick (u v c : Nat) : Option Nat :=
  if F25519.mul (F25519.sqr c) v == u then some c
  else if F25519.mul (F25519.sqr c) v == F25519.neg u then some (F25519.mul c F25519.sqrtM1)
  else none

theorem beq_iff_cast {a b : Nat} (ha : a < p) (hb : b < p) : (a == b) = true ↔ (a : F) = (b : F) := by
  rw [beq_iff_eq]
  exact ⟨fun h => by rw [h], cast_inj ha hb⟩

theorem pick_spec {u v c w : Nat} (hu : u < p) (hc : c < p)
    (hcw : (v : F) * ((c : F) * (c : F)) = (u : F) * (w : F) ^ ((p - 1) / 4))
    (hw : ∀ r : F, (v : F) * (r * r) = (u : F) → ∃ z, (w : F) = z * z ∧ (z = 0 → (u : F) = 0)) :
    (∀ x, pick u v c = some x → x < p ∧ Root u v x) ∧
    (pick u v c = none → ¬ ∃ r : F, (v : F) * (r * r) = (u : F)) ∧
    ((pick u v c).isSome = (F25519.mul (F25519.sqr c) v == u || F25519.mul (F25519.sqr c) v == F25519.neg u)) ∧
    ((F25519.mul (F25519.sqr c) v == u) = true → pick u v c = some c) ∧
    ((F25519.mul (F25519.sqr c) v == u) = false → (F25519.mul (F25519.sqr c) v == F25519.neg u) = true →
      pick u v c = some (F25519.mul c F25519.sqrtM1)) := by
  have hvxx : ((F25519.mul (F25519.sqr c) v : Nat) : F) = (v : F) * ((c : F) * (c : F)) := by
    rw [c_mul, c_sqr]; ring
  have e1 := beq_iff_cast (mul_lt (F25519.sqr c) v) hu
  have e2 := beq_iff_cast (mul_lt (F25519.sqr c) v) (neg_lt u)
  rw [hvxx] at e1
  rw [hvxx, c_neg] at e2
  have key := cand_iff hcw hw
  unfold pick
  refine ⟨?_, ?_, ?_, ?_, ?_⟩
  · intro x hx
    split at hx
    · next h =>
      have hx' := Option.some.inj hx
      subst hx'
      exact ⟨hc, e1.1 h⟩
    · split at hx
      · next h1 h2 =>
        have hx' := Option.some.inj hx
        subst hx'
        refine ⟨mul_lt _ _, ?_⟩
        unfold Root
        rw [c_mul]
        exact cand_sound_p c_sqrtM1_sq (e2.1 h2)
      · cases hx
  · intro h
    split at h
    · cases h
    · split at h
      · cases h
      · next h1 h2 =>
        rw [key]
        rintro (h3 | h3)
        · exact h1 (e1.2 h3)
        · exact h2 (e2.2 h3)
  · split
    · next h => simp [h]
    · next h1 =>
      split
      · next h2 => simp [h2]
      · next h2 => simp [h1, h2]
  · intro h; rw [if_pos h]
  · intro h1 h2; rw [if_neg (by simp [h1]), if_pos h2]

end Sodium.EdSignP
