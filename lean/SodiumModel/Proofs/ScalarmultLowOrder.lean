import Mathlib.Data.ZMod.Basic
import Mathlib.Tactic.Ring
import SodiumModel.Proofs.Scalarmult
/-
  The RFC 7748 ladder maps every u-coordinate of the ref10 blocklist to 0 for EVERY scalar that is a
  multiple of 8 below 2^255 (in particular for every clamped scalar).

  Method: the ladder state is a pair of projective points (x2 : z2), (x3 : z3).  For a low-order
  u-coordinate the projective classes visited form a table of 8 entries indexed by the scalar prefix
  mod 8.  The doubling and differential-addition formulas are homogeneous (two symbolic lemmas, proved
  by `ring` in `ZMod p`), so the class of the output is determined by the class representatives; the
  closure of each table under the formulas is a finite numeric check (`decide +kernel`).
  No primality of p and no group law is used.  Only this file imports Mathlib (ZMod, `ring`).
-/
open Sodium Sodium.Spec Sodium.Spec.F25519 Sodium.Spec.X25519 Sodium.Model.Scalarmult

namespace Sodium.ScalarmultLow

abbrev F := ZMod F25519.p

/-! ### the field operations of the specification, seen in `ZMod p` -/

theorem c_add (a b : Nat) : ((F25519.add a b : Nat) : F) = (a : F) + b := by
  simp [F25519.add, ZMod.natCast_mod]

theorem c_mul (a b : Nat) : ((F25519.mul a b : Nat) : F) = (a : F) * b := by
  simp [F25519.mul, ZMod.natCast_mod]

theorem c_sqr (a : Nat) : ((F25519.sqr a : Nat) : F) = (a : F) * a := by
  simp [F25519.sqr, ZMod.natCast_mod]

theorem c_sub (a b : Nat) : ((F25519.sub a b : Nat) : F) = (a : F) - b := by
  have hp : 0 < F25519.p := by decide
  unfold F25519.sub
  rw [ZMod.natCast_mod, Nat.cast_add, Nat.cast_sub (Nat.le_of_lt (Nat.mod_lt _ hp)), ZMod.natCast_mod,
    ZMod.natCast_mod, ZMod.natCast_self]
  ring

/-! ### the two formulas of one ladder step -/

def dblx (x z : Nat) : Nat := F25519.mul (sqr (F25519.add x z)) (sqr (F25519.sub x z))
def dblz (x z : Nat) : Nat :=
  let AA := sqr (F25519.add x z)
  let E := F25519.sub AA (sqr (F25519.sub x z))
  F25519.mul E (F25519.add AA (F25519.mul a24 E))
def addx (x2 z2 x3 z3 : Nat) : Nat :=
  sqr (F25519.add (F25519.mul (F25519.sub x3 z3) (F25519.add x2 z2)) (F25519.mul (F25519.add x3 z3) (F25519.sub x2 z2)))
def addz (x1 x2 z2 x3 z3 : Nat) : Nat :=
  F25519.mul x1 (sqr (F25519.sub (F25519.mul (F25519.sub x3 z3) (F25519.add x2 z2)) (F25519.mul (F25519.add x3 z3) (F25519.sub x2 z2))))

theorem ladderStep_eq (x1 : Nat) (kt : Bool) (s : Ladder) :
    ladderStep x1 kt s =
      if (s.swap != kt) = true then
        { x2 := dblx s.x3 s.z3, z2 := dblz s.x3 s.z3, x3 := addx s.x3 s.z3 s.x2 s.z2,
          z3 := addz x1 s.x3 s.z3 s.x2 s.z2, swap := kt }
      else
        { x2 := dblx s.x2 s.z2, z2 := dblz s.x2 s.z2, x3 := addx s.x2 s.z2 s.x3 s.z3,
          z3 := addz x1 s.x2 s.z2 s.x3 s.z3, swap := kt } := by
  cases h : (s.swap != kt) <;> simp [ladderStep, cswap, h, dblx, dblz, addx, addz]

theorem c_dblx (x z : Nat) : ((dblx x z : Nat) : F) = ((x : F) + z) ^ 2 * ((x : F) - z) ^ 2 := by
  simp only [dblx, c_mul, c_sqr, c_add, c_sub]; ring

theorem c_dblz (x z : Nat) : ((dblz x z : Nat) : F) =
    (((x : F) + z) ^ 2 - ((x : F) - z) ^ 2) *
      (((x : F) + z) ^ 2 + (a24 : F) * (((x : F) + z) ^ 2 - ((x : F) - z) ^ 2)) := by
  simp only [dblz, c_mul, c_sqr, c_add, c_sub]; ring

theorem c_addx (x2 z2 x3 z3 : Nat) : ((addx x2 z2 x3 z3 : Nat) : F) =
    (((x3 : F) - z3) * ((x2 : F) + z2) + ((x3 : F) + z3) * ((x2 : F) - z2)) ^ 2 := by
  simp only [addx, c_mul, c_sqr, c_add, c_sub]; ring

theorem c_addz (x1 x2 z2 x3 z3 : Nat) : ((addz x1 x2 z2 x3 z3 : Nat) : F) =
    (x1 : F) * (((x3 : F) - z3) * ((x2 : F) + z2) - ((x3 : F) + z3) * ((x2 : F) - z2)) ^ 2 := by
  simp only [addz, c_mul, c_sqr, c_add, c_sub]; ring

/-! ### projective classes -/

/-- `(x : z)` is a multiple of the representative `(a : b)` -/
def MemR (a b x z : Nat) : Prop := ∃ l : F, (x : F) = l * a ∧ (z : F) = l * b

theorem mem_dbl {a b x z : Nat} (h : MemR a b x z) : MemR (dblx a b) (dblz a b) (dblx x z) (dblz x z) := by
  obtain ⟨l, hx, hz⟩ := h
  refine ⟨l ^ 4, ?_, ?_⟩
  · simp only [c_dblx, hx, hz]; ring
  · simp only [c_dblz, hx, hz]; ring

theorem mem_add (x1 : Nat) {a b c d x2 z2 x3 z3 : Nat} (h2 : MemR a b x2 z2) (h3 : MemR c d x3 z3) :
    MemR (addx a b c d) (addz x1 a b c d) (addx x2 z2 x3 z3) (addz x1 x2 z2 x3 z3) := by
  obtain ⟨l, hx2, hz2⟩ := h2
  obtain ⟨m, hx3, hz3⟩ := h3
  refine ⟨(l * m) ^ 2, ?_, ?_⟩
  · simp only [c_addx, hx2, hz2, hx3, hz3]; ring
  · simp only [c_addz, hx2, hz2, hx3, hz3]; ring

/-- a projective class in normal form: the point at infinity `(1 : 0)` or `(c : 1)` -/
inductive Cls
  | inf
  | fin (c : Nat)
  deriving DecidableEq

def rep : Cls → Nat × Nat
  | .inf => (1, 0)
  | .fin c => (c, 1)

def Mem (cl : Cls) (x z : Nat) : Prop := MemR (rep cl).1 (rep cl).2 x z

/-- `(a : b)` and the class representative are proportional (cross-multiplication, numeric) -/
def cross (a b : Nat) (cl : Cls) : Bool :=
  (a * (rep cl).2) % F25519.p == (b * (rep cl).1) % F25519.p

theorem mem_norm {a b : Nat} {cl : Cls} {x z : Nat} (hc : cross a b cl = true) (h : MemR a b x z) :
    Mem cl x z := by
  obtain ⟨l, hx, hz⟩ := h
  have hc' : (((a * (rep cl).2) % F25519.p : Nat) : F) = (((b * (rep cl).1) % F25519.p : Nat) : F) := by
    rw [cross, beq_iff_eq] at hc; rw [hc]
  rw [ZMod.natCast_mod, ZMod.natCast_mod] at hc'
  cases cl with
  | inf =>
    simp only [rep, Nat.mul_zero, Nat.mul_one, Nat.cast_zero] at hc'
    refine ⟨l * a, ?_, ?_⟩
    · simp [rep, hx]
    · simp [rep, hz, ← hc']
  | fin c =>
    simp only [rep, Nat.mul_one, Nat.cast_mul] at hc'
    refine ⟨l * b, ?_, ?_⟩
    · simp only [rep, hx, hc']; ring
    · simp [rep, hz]

/-! ### class tables closed under the step formulas -/

def Tm (T : List Cls) (m : Nat) : Cls := T.getD (m % 8) .inf

/-- the table starts with (∞, u) and is closed under doubling and differential addition
    (both argument orders) with the index arithmetic of the ladder -/
def closed (u : Nat) (T : List Cls) : Bool :=
  Tm T 0 == .inf && Tm T 1 == .fin (u % F25519.p) &&
  (List.range 8).all fun j =>
    let r := rep (Tm T j)
    let r' := rep (Tm T (j + 1))
    cross (dblx r.1 r.2) (dblz r.1 r.2) (Tm T (2 * j)) &&
    cross (addx r.1 r.2 r'.1 r'.2) (addz (u % F25519.p) r.1 r.2 r'.1 r'.2) (Tm T (2 * j + 1)) &&
    cross (addx r'.1 r'.2 r.1 r.2) (addz (u % F25519.p) r'.1 r'.2 r.1 r.2) (Tm T (2 * j + 1))

theorem Tm_mod (T : List Cls) (m : Nat) : Tm T (m % 8) = Tm T m := by simp [Tm]

theorem closed_at {u : Nat} {T : List Cls} (h : closed u T = true) (m : Nat) :
    cross (dblx (rep (Tm T m)).1 (rep (Tm T m)).2) (dblz (rep (Tm T m)).1 (rep (Tm T m)).2) (Tm T (2 * m)) = true ∧
    cross (addx (rep (Tm T m)).1 (rep (Tm T m)).2 (rep (Tm T (m + 1))).1 (rep (Tm T (m + 1))).2)
      (addz (u % F25519.p) (rep (Tm T m)).1 (rep (Tm T m)).2 (rep (Tm T (m + 1))).1 (rep (Tm T (m + 1))).2)
      (Tm T (2 * m + 1)) = true ∧
    cross (addx (rep (Tm T (m + 1))).1 (rep (Tm T (m + 1))).2 (rep (Tm T m)).1 (rep (Tm T m)).2)
      (addz (u % F25519.p) (rep (Tm T (m + 1))).1 (rep (Tm T (m + 1))).2 (rep (Tm T m)).1 (rep (Tm T m)).2)
      (Tm T (2 * m + 1)) = true := by
  simp only [closed, Bool.and_eq_true, List.all_eq_true, List.mem_range] at h
  have hj := h.2 (m % 8) (Nat.mod_lt _ (by decide))
  have e1 : Tm T (m % 8 + 1) = Tm T (m + 1) := by simp only [Tm]; congr 1; omega
  have e2 : Tm T (2 * (m % 8)) = Tm T (2 * m) := by simp only [Tm]; congr 1; omega
  have e3 : Tm T (2 * (m % 8) + 1) = Tm T (2 * m + 1) := by simp only [Tm]; congr 1; omega
  rw [Tm_mod, e1, e2, e3] at hj
  exact ⟨hj.1.1, hj.1.2, hj.2⟩

/-- ladder invariant for the scalar prefix `m`: the two points are in the classes of `m`, `m + 1`
    (in the order given by the pending swap) -/
structure Inv (T : List Cls) (m : Nat) (s : Ladder) : Prop where
  -- a structure (not a definition by `if`) so that elaboration never evaluates `s.swap` on a
  -- 255-step `ladderLoop` term
  out : if s.swap = true then Mem (Tm T (m + 1)) s.x2 s.z2 ∧ Mem (Tm T m) s.x3 s.z3
        else Mem (Tm T m) s.x2 s.z2 ∧ Mem (Tm T (m + 1)) s.x3 s.z3

theorem inv_step {u : Nat} {T : List Cls} (hT : closed u T = true) (m : Nat) (kt : Bool) (s : Ladder)
    (h : Inv T m s) : Inv T (2 * m + (if kt then 1 else 0)) (ladderStep (u % F25519.p) kt s) := by
  obtain ⟨c1, c2, c3⟩ := closed_at hT m
  obtain ⟨d1, -, -⟩ := closed_at hT (m + 1)
  have e : 2 * (m + 1) = 2 * m + 1 + 1 := by omega
  rw [e] at d1
  have h := h.out
  constructor
  rw [ladderStep_eq]
  rcases hs : s.swap with _ | _ <;> rcases kt with _ | _ <;> simp only [hs] at h ⊢ <;>
    simp only [Bool.false_eq_true, if_false, if_true, Nat.add_zero, bne, Bool.not_eq_true', BEq.beq] <;>
    first
      | exact ⟨mem_norm c1 (mem_dbl h.1), mem_norm c2 (mem_add _ h.1 h.2)⟩
      | exact ⟨mem_norm d1 (mem_dbl h.2), mem_norm c3 (mem_add _ h.2 h.1)⟩
      | exact ⟨mem_norm c1 (mem_dbl h.2), mem_norm c2 (mem_add _ h.2 h.1)⟩
      | exact ⟨mem_norm d1 (mem_dbl h.1), mem_norm c3 (mem_add _ h.1 h.2)⟩

theorem div_pow_succ (k t : Nat) :
    k / 2 ^ t = 2 * (k / 2 ^ (t + 1)) + (if k.testBit t then 1 else 0) := by
  rw [Nat.testBit_eq_decide_div_mod_eq, Nat.pow_succ, ← Nat.div_div_eq_div_mul]
  have := Nat.div_add_mod (k / 2 ^ t) 2
  by_cases h : k / 2 ^ t % 2 = 1
  · simp [h]; omega
  · simp [h]; omega

theorem inv_loop {u : Nat} {T : List Cls} (hT : closed u T = true) (k : Nat) {n : Nat} (s : Ladder)
    (h : Inv T (k / 2 ^ n) s) : Inv T k (ladderLoop (u % F25519.p) k n s) := by
  induction n generalizing s with
  | zero => simpa [ladderLoop] using h
  | succ t ih =>
    rw [ladderLoop]
    apply ih
    rw [div_pow_succ k t]
    exact inv_step hT _ _ s h

theorem pow_zero_base : F25519.pow 0 (F25519.p - 2) = 0 := by decide +kernel

/-- the ladder output is 0 whenever the final `(x2 : z2)` is in the class of the point at infinity -/
theorem ladder_closed {u : Nat} {T : List Cls} (hT : closed u T = true) (k : Nat)
    (hk : k < 2 ^ 255) (h8 : k % 8 = 0) : ladder k u = 0 := by
  have h0 : Tm T 0 = .inf ∧ Tm T 1 = .fin (u % F25519.p) := by
    simp only [closed, Bool.and_eq_true, beq_iff_eq] at hT; exact ⟨hT.1.1, hT.1.2⟩
  have hinit : Inv T (k / 2 ^ 255) { x2 := 1, z2 := 0, x3 := u % F25519.p, z3 := 1, swap := false } := by
    rw [Nat.div_eq_of_lt hk]
    constructor
    simp only [Bool.false_eq_true, if_false, Nat.zero_add, h0.1, h0.2]
    exact ⟨⟨1, by simp [rep], by simp [rep]⟩, ⟨1, by simp [rep], by simp [rep]⟩⟩
  have hfin := inv_loop hT k (n := 255) _ hinit
  have hk0 : Tm T k = .inf := by rw [← Tm_mod, h8, h0.1]
  -- class of the (x2 : z2) selected by the final cswap
  have hz : ∀ s : Ladder, Inv T k s → ((cswap s.swap s.z2 s.z3).1 : F) = 0 := by
    intro s hs
    have hs := hs.out
    rcases hsw : s.swap with _ | _ <;> simp only [hsw, Bool.false_eq_true, if_false, if_true, hk0] at hs
    · obtain ⟨l, -, hz⟩ := hs.1; simpa [cswap, rep] using hz
    · obtain ⟨l, -, hz⟩ := hs.2; simpa [cswap, rep] using hz
  have hz' := hz _ hfin
  rw [ZMod.natCast_eq_zero_iff] at hz'
  have hmod : (cswap (ladderLoop (u % F25519.p) k 255
      { x2 := 1, z2 := 0, x3 := u % F25519.p, z3 := 1, swap := false }).swap
      (ladderLoop (u % F25519.p) k 255 { x2 := 1, z2 := 0, x3 := u % F25519.p, z3 := 1, swap := false }).z2
      (ladderLoop (u % F25519.p) k 255 { x2 := 1, z2 := 0, x3 := u % F25519.p, z3 := 1, swap := false }).z3).1
      % F25519.p = 0 := Nat.mod_eq_zero_of_dvd hz'
  have hpow : ∀ z : Nat, z % F25519.p = 0 → F25519.pow z (F25519.p - 2) = 0 := by
    intro z hz
    have : F25519.pow z (F25519.p - 2) = F25519.pow 0 (F25519.p - 2) := by
      simp only [F25519.pow, hz]; rfl
    rw [this, pow_zero_base]
  unfold ladder
  simp only []
  rw [hpow _ hmod]
  simp [F25519.mul]

/-! ### the tables of the five low-order u-coordinates -/

def u8a : Nat := 325606250916557431795983626356110631294008115727848805560023387167927233504
def u8b : Nat := 39382357235489614581723060781553021112529911719440698176882885853963445705823

/-- x-coordinates of 0·P … 7·P for a point P of low order with x-coordinate `u` -/
def tableOf (u : Nat) : List Cls :=
  if u = 0 then [.inf, .fin 0, .inf, .fin 0, .inf, .fin 0, .inf, .fin 0]
  else if u = 1 then [.inf, .fin 1, .fin 0, .fin 1, .inf, .fin 1, .fin 0, .fin 1]
  else if u = F25519.p - 1 then
    [.inf, .fin (F25519.p - 1), .fin 0, .fin (F25519.p - 1), .inf, .fin (F25519.p - 1), .fin 0, .fin (F25519.p - 1)]
  else if u = u8a then [.inf, .fin u8a, .fin 1, .fin u8b, .fin 0, .fin u8b, .fin 1, .fin u8a]
  else [.inf, .fin u8b, .fin 1, .fin u8a, .fin 0, .fin u8a, .fin 1, .fin u8b]

theorem blocklist_closed :
    ∀ row ∈ blocklist, closed (decodeU row) (tableOf (decodeU row)) = true := by decide +kernel

/-- **Every blocklisted encoding is mapped to 0 by the RFC 7748 ladder, for every multiple of 8
    below 2^255** -/
theorem ladder_blocklist (row : Bytes) (hr : row ∈ blocklist) (k : Nat) (hk : k < 2 ^ 255)
    (h8 : k % 8 = 0) : ladder k (decodeU row) = 0 :=
  ladder_closed (blocklist_closed row hr) k hk h8

theorem decodeScalar_bounds (k : Bytes) : decodeScalar k < 2 ^ 255 ∧ decodeScalar k % 8 = 0 := by
  unfold decodeScalar
  generalize le (k.take 32) = n
  simp only [Nat.reducePow]
  omega

/-- X25519 of any scalar with a blocklisted encoding (bit 255 set or not) is the all-zero string -/
theorem x25519_blocklist (k u : Bytes) (hu : Sodium.ScalarmultP.clearTop u ∈ blocklist) :
    x25519 k u = zeros 32 := by
  have hb := decodeScalar_bounds k
  rw [← Sodium.ScalarmultP.x25519_clearTop, x25519, ladder_blocklist _ hu _ hb.1 hb.2]
  decide

end Sodium.ScalarmultLow
