import SodiumModel.Proofs.ScryptSse
/-
  Helper lemmas for Properties/C08ScryptSse.lean, part 2: the generic run shared by `blockmix_salsa8` and
  `blockmix_salsa8_xor` (one 64-byte block per step, output block `i/2` or `r + i/2`), its memory effect, and its value.
-/
namespace Sodium.ScryptSseP
open Sodium Sodium.Model Sodium.Model.ScryptSse Sodium.Spec Sodium.ScryptRefP
open Sodium.Model.ChachaSimd (V128 mm_add_epi32 mm_xor_si128 mm_slli_epi32 mm_srli_epi32 mm_shuffle_epi32)

/-- the registers after `m` blocks: `X_0`, `X_{i+1} = Salsa(X_i xor Z_i)` -/
def chainR (Z : Nat → Regs) (X0 : Regs) : Nat → Regs
  | 0 => X0
  | i + 1 => salsaX (xorR (chainR Z X0 i) (Z i))

/-- which input block ends up in output block `d` -/
def iOf (r d : Nat) : Nat := if d < r then 2 * d else 2 * (d - r) + 1
/-- the output block of input block `i` -/
def dOf (r i : Nat) : Nat := if i % 2 = 0 then i / 2 else r + i / 2

/-- one step: `X = Salsa(X xor (block i as read from the current memory))`, stored to output block `dOf r i` -/
def gstep (rd : Array UInt32 → Nat → Regs) (Bout r : Nat) (i : Nat) (s : Array UInt32 × Regs) : Array UInt32 × Regs :=
  (st4 s.1 (Bout + 16 * dOf r i) (salsaX (xorR s.2 (rd s.1 i))), salsaX (xorR s.2 (rd s.1 i)))

/-- the state after the first `m` steps, relative to the initial memory `M0` -/
def GInv (Z : Nat → Regs) (X0 : Regs) (M0 : Array UInt32) (Bout r : Nat) (m : Nat) (s : Array UInt32 × Regs) : Prop :=
  s.1.size = M0.size ∧ s.2 = chainR Z X0 m ∧
  ∀ t, s.1.getD t 0 =
    if Bout ≤ t ∧ t < Bout + 32 * r ∧ iOf r ((t - Bout) / 16) < m then
      (toWords (chainR Z X0 (iOf r ((t - Bout) / 16) + 1))).getD ((t - Bout) % 16) 0
    else M0.getD t 0

theorem gstep_inv (rd : Array UInt32 → Nat → Regs) (Z : Nat → Regs) (X0 : Regs) (M0 : Array UInt32) (Bout r : Nat)
    (hout : Bout + 32 * r ≤ M0.size)
    (hrd : ∀ M : Array UInt32, M.size = M0.size → (∀ t, ¬ (Bout ≤ t ∧ t < Bout + 32 * r) → M.getD t 0 = M0.getD t 0) →
      ∀ i, i < 2 * r → rd M i = Z i)
    (m : Nat) (hm : m < 2 * r) (s : Array UInt32 × Regs) (h : GInv Z X0 M0 Bout r m s) :
    GInv Z X0 M0 Bout r (m + 1) (gstep rd Bout r m s) := by
  obtain ⟨h1, h2, h3⟩ := h
  have hz : rd s.1 m = Z m := hrd s.1 h1 (fun t ht => by rw [h3 t, if_neg (by omega)]) m hm
  have hd : dOf r m < 2 * r := by unfold dOf; split <;> omega
  refine ⟨by simp only [gstep, st4_size, h1], by simp only [gstep, h2, hz, chainR], ?_⟩
  intro t
  simp only [gstep]
  rw [st4_getD _ _ _ _ (by omega), hz, h2]
  by_cases hin : Bout + 16 * dOf r m ≤ t ∧ t < Bout + 16 * dOf r m + 16
  · have e1 : (t - Bout) / 16 = dOf r m := by omega
    have e2 : iOf r (dOf r m) = m := by unfold iOf dOf; split <;> split <;> omega
    have e3 : t - (Bout + 16 * dOf r m) = (t - Bout) % 16 := by omega
    rw [if_pos hin, if_pos ⟨by omega, by omega, by rw [e1, e2]; omega⟩, e1, e2, e3]
    rfl
  · rw [if_neg hin, h3 t]
    by_cases hrow : Bout ≤ t ∧ t < Bout + 32 * r
    · have hne : (t - Bout) / 16 ≠ dOf r m := by omega
      have hd2 : (t - Bout) / 16 < 2 * r := by omega
      have e2 : iOf r ((t - Bout) / 16) ≠ m := by
        intro e; apply hne; rw [← e]; unfold iOf dOf; split <;> split <;> omega
      by_cases hlt : iOf r ((t - Bout) / 16) < m
      · rw [if_pos ⟨hrow.1, hrow.2, hlt⟩, if_pos ⟨hrow.1, hrow.2, by omega⟩]
      · rw [if_neg (by omega), if_neg (by omega)]
    · rw [if_neg (by omega), if_neg (by omega)]

/-- the memory and registers after all `2r` steps -/
theorem grun_spec (rd : Array UInt32 → Nat → Regs) (Z : Nat → Regs) (X0 : Regs) (M0 : Array UInt32) (Bout r : Nat)
    (hout : Bout + 32 * r ≤ M0.size)
    (hrd : ∀ M : Array UInt32, M.size = M0.size → (∀ t, ¬ (Bout ≤ t ∧ t < Bout + 32 * r) → M.getD t 0 = M0.getD t 0) →
      ∀ i, i < 2 * r → rd M i = Z i) :
    GInv Z X0 M0 Bout r (2 * r) (iter (gstep rd Bout r) (2 * r) 0 (M0, X0)) := by
  have := iter_inv (gstep rd Bout r) (GInv Z X0 M0 Bout r) (2 * r) 0 (M0, X0)
    ⟨rfl, rfl, fun t => by rw [if_neg (by omega)]⟩
    (fun j s _ h2 h => gstep_inv rd Z X0 M0 Bout r hout hrd j (by omega) s h)
  simpa using this

/-- the C loop shape: block 0; then `r - 1` passes (blocks `2k+1`, `2k+2`); then block `2r - 1` -/
theorem iter_pairs {α : Type} (f : Nat → α → α) : ∀ (cnt a : Nat) (s : α),
    iter (fun k s => f (2 * k + 2) (f (2 * k + 1) s)) cnt a s = iter f (2 * cnt) (2 * a + 1) s
  | 0, _, _ => rfl
  | cnt + 1, a, s => by
    have e : 2 * (cnt + 1) = (2 * cnt + 1) + 1 := by omega
    rw [iter, e, iter, iter, iter_pairs f cnt (a + 1)]
    have e2 : 2 * a + 1 + 1 + 1 = 2 * (a + 1) + 1 := by omega
    have e3 : 2 * a + 1 + 1 = 2 * a + 2 := by omega
    rw [e2, e3]

theorem run_shape {α : Type} (f : Nat → α → α) (r : Nat) (hr : 1 ≤ r) (s : α) :
    f (2 * r - 1) (iter (fun k s => f (2 * k + 2) (f (2 * k + 1) s)) (r - 1) 0 (f 0 s)) = iter f (2 * r) 0 s := by
  obtain ⟨q, rfl⟩ : ∃ q, r = q + 1 := ⟨r - 1, by omega⟩
  rw [iter_pairs]
  have e : 2 * (q + 1) = (2 * q + 1) + 1 := by omega
  have e0 : 2 * (q + 1) - 1 = 1 + 2 * q := by omega
  have e1 : q + 1 - 1 = q := by omega
  rw [e0, e, iter_succ_last, iter, e1]
  have e2 : 0 + (2 * q + 1) = 1 + 2 * q := by omega
  rw [e2]

/-! ### the values: the chain of the registers is the chain of scryptBlockMix -/

theorem chainR_diag (Z : Nat → Regs) (X0 : Regs) (r : Nat) (B : Array UInt32)
    (h0 : diag X0 = chain r B 0) (hZ : ∀ i, i < 2 * r → diag (Z i) = blk B i) :
    ∀ m, m ≤ 2 * r → diag (chainR Z X0 m) = chain r B m
  | 0, _ => h0
  | m + 1, hm => by
    rw [chainR, diag_salsaX, diag_xorR, chainR_diag Z X0 r B h0 hZ m (by omega), hZ m (by omega), chain]

theorem perm_inv : ∀ j, j < 16 → j * 13 % 16 * 5 % 16 = j := by decide
theorem perm_inv' : ∀ j, j < 16 → j * 5 % 16 * 13 % 16 = j := by decide

/-- "the `A.size` words at `p` hold `A` in the shuffled layout" -/
def RowS (M : Array UInt32) (p : Nat) (A : Array UInt32) : Prop :=
  ∀ t, t < A.size → M.getD (p + t) 0 = A.getD (16 * (t / 16) + t % 16 * 5 % 16) 0

theorem getD_extract (A : Array UInt32) (a b j : Nat) (hj : a + j < b) (hb : b ≤ A.size) :
    (A.extract a b).getD j 0 = A.getD (a + j) 0 := by
  simp only [Array.getD_eq_getD_getElem?]
  rw [Array.getElem?_eq_getElem (by rw [Array.size_extract]; omega), Array.getElem?_eq_getElem (by omega), Array.getElem_extract]

/-- reading block `i` of a row in the shuffled layout gives block `i` of the row's contents -/
theorem diag_ld4_row (M : Array UInt32) (p : Nat) (A : Array UInt32) (R : Nat) (hA : A.size = 32 * R) (h : RowS M p A)
    (i : Nat) (hi : i < 2 * R) : diag (ld4 M (p + 16 * i)) = blk A i := by
  apply ext_getD 0
  · rw [diag_size, blk, Array.size_extract]; omega
  · intro j hj
    rw [diag_size] at hj
    rw [diag_getD _ j hj, blk, getD_extract A _ _ j (by omega) (by omega)]
    have hw : ∀ k, k < 16 → (toWords (ld4 M (p + 16 * i))).getD k 0 = M.getD (p + (16 * i + k)) 0 := by
      intro k hk
      have e : p + (16 * i + k) = p + 16 * i + k := by omega
      rw [e]
      generalize p + 16 * i = q
      repeat (rcases k with _ | k; · rfl)
      omega
    rw [hw _ (by omega), h (16 * i + j * 13 % 16) (by omega)]
    congr 1
    have := perm_inv j hj
    have e1 : (16 * i + j * 13 % 16) / 16 = i := by omega
    have e2 : (16 * i + j * 13 % 16) % 16 = j * 13 % 16 := by omega
    rw [e1, e2, this]

end Sodium.ScryptSseP
