import SodiumModel.Proofs.Ge25519Ref10
/-
  Lemmas for `Properties/C06Ge.lean` (part 5): the GENERATED precomputed tables (`Model/Ge25519Tables.lean`, from
  fe_51/base.h and base2.h) hold the multiples of the base point their comments claim.  For every entry the
  multiple is recomputed with the RFC 8032 formulas of `Spec/Ed25519.lean` (8 doublings per row, one addition per
  entry), normalised to Z = 1, and compared with the table entry (y+x, y−x, 2dxy) numerically (`decide +kernel`).
  Under the curve hypothesis `CurveGroup` this yields the table hypotheses of the scalar multiplications.
-/
open Sodium Sodium.Spec Sodium.Spec.F25519 Sodium.Model.Ge25519
namespace Sodium.Ge25519P

/-- a projective point of the specification scaled to Z = 1 -/
def normalize (P : Ed25519.Point) : P3 Nat :=
  let zi := F25519.inv P.Z
  ⟨F25519.mul P.X zi, F25519.mul P.Y zi, F25519.mul P.Z zi, F25519.mul P.T zi⟩

/-- 256^pos·B by the RFC doubling formula (8 doublings per row) -/
def rowHead : Nat → Ed25519.Point
  | 0 => Ed25519.basePoint
  | n + 1 => Ed25519.double (Ed25519.double (Ed25519.double (Ed25519.double (Ed25519.double (Ed25519.double
      (Ed25519.double (Ed25519.double (rowHead n))))))))

/-- (j+1)·256^pos·B by the RFC addition formula -/
def rowEntry (pos : Nat) : Nat → Ed25519.Point
  | 0 => rowHead pos
  | j + 1 => Ed25519.add (rowEntry pos j) (rowHead pos)

/-- the table entry `e` is the precomputed form of the normalised point `R` -/
def entryMatches (e : Nat × Nat × Nat) (R : Ed25519.Point) : Bool :=
  let Q := normalize R
  Q.Z == 1 && e.1 % p == F25519.add Q.Y Q.X && e.2.1 % p == F25519.sub Q.Y Q.X &&
    e.2.2 % p == F25519.mul (F25519.mul 2 Ed25519.d) Q.T

def entryOK (pos j : Nat) : Bool :=
  entryMatches (Model.Ge25519Tables.base.getD (8 * pos + j) (0, 0, 0)) (rowEntry pos j)

def entry2OK (j : Nat) : Bool :=
  entryMatches (Model.Ge25519Tables.base2.getD j (0, 0, 0)) (rowEntry 0 (2 * j))

theorem table_check_0 : ∀ pos : Fin 8, ∀ j : Fin 8, entryOK pos.val j.val = true := by decide +kernel
theorem table_check_1 : ∀ pos : Fin 8, ∀ j : Fin 8, entryOK (8 + pos.val) j.val = true := by decide +kernel
theorem table_check_2 : ∀ pos : Fin 8, ∀ j : Fin 8, entryOK (16 + pos.val) j.val = true := by decide +kernel
theorem table_check_3 : ∀ pos : Fin 8, ∀ j : Fin 8, entryOK (24 + pos.val) j.val = true := by decide +kernel
theorem table2_check : ∀ j : Fin 8, entry2OK j.val = true := by decide +kernel

theorem table_check (pos j : Nat) (hpos : pos < 32) (hj : j < 8) : entryOK pos j = true := by
  by_cases h1 : pos < 8
  · exact table_check_0 ⟨pos, h1⟩ ⟨j, hj⟩
  by_cases h2 : pos < 16
  · have := table_check_1 ⟨pos - 8, by omega⟩ ⟨j, hj⟩
    simpa [show 8 + (pos - 8) = pos by omega] using this
  by_cases h3 : pos < 24
  · have := table_check_2 ⟨pos - 16, by omega⟩ ⟨j, hj⟩
    simpa [show 16 + (pos - 16) = pos by omega] using this
  · have := table_check_3 ⟨pos - 24, by omega⟩ ⟨j, hj⟩
    simpa [show 24 + (pos - 24) = pos by omega] using this

section
variable {G : Type} [AddCommGroup G] (C : CurveGroup G)

theorem rowHead_rep {B : G} (hB : C.Rep Ed25519.basePoint B) (pos : Nat) :
    C.Rep (rowHead pos) ((256 ^ pos : Int) • B) := by
  induction pos with
  | zero => show C.Rep Ed25519.basePoint _; rw [pow_zero, one_smul]; exact hB
  | succ n ih =>
    have := C.rep_double (C.rep_double (C.rep_double (C.rep_double (C.rep_double (C.rep_double
      (C.rep_double (C.rep_double ih)))))))
    rw [rowHead]
    convert this using 1
    rw [pow_succ]; module

theorem rowEntry_rep {B : G} (hB : C.Rep Ed25519.basePoint B) (pos j : Nat) :
    C.Rep (rowEntry pos j) (((j + 1 : Nat) : Int) • (256 ^ pos : Int) • B) := by
  induction j with
  | zero => show C.Rep (rowHead pos) _; rw [show ((0 + 1 : Nat) : Int) = 1 from rfl, one_smul]; exact rowHead_rep C hB pos
  | succ j ih =>
    have := C.rep_add ih (rowHead_rep C hB pos)
    rw [rowEntry]
    convert this using 1
    push_cast; module

/-- a matching entry is a precomputed representative of the same group element -/
theorem rp_of_entryMatches {e : Nat × Nat × Nat} {R : Ed25519.Point} {g : G} (hR : C.Rep R g)
    (h : entryMatches e R = true) : (specImpl C).Rp ⟨e.1, e.2.1, e.2.2⟩ g := by
  simp only [entryMatches, Bool.and_eq_true, beq_iff_eq] at h
  obtain ⟨⟨⟨hz, h1⟩, h2⟩, h3⟩ := h
  refine ⟨toPoint (normalize R), ?_, ?_⟩
  · -- `normalize R` is `R` scaled by the unit 1/Z
    have hunit : ((R.Z : Nat) : K) * ((F25519.inv R.Z : Nat) : K) = 1 := by
      have hz' : F25519.mul R.Z (F25519.inv R.Z) = 1 := hz
      have := congrArg (Nat.cast : Nat → K) hz'
      rw [ScalarmultLow.c_mul, Nat.cast_one] at this
      exact this
    refine C.rep_scale ((F25519.inv R.Z : Nat) : K) (normalize R) (IsUnit.of_mul_eq_one _ (by rw [mul_comm]; exact hunit)) hR ?_
    simp only [Sc, normalize, ScalarmultLow.c_mul]
    refine ⟨?_, ?_, ?_, ?_⟩ <;> ring
  · have e1 := congrArg (Nat.cast : Nat → K) h1
    have e2 := congrArg (Nat.cast : Nat → K) h2
    have e3 := congrArg (Nat.cast : Nat → K) h3
    have e4 := congrArg (Nat.cast : Nat → K) hz
    simp only [c_mod, ScalarmultLow.c_add, ScalarmultLow.c_sub, ScalarmultLow.c_mul, cast_d, Nat.cast_ofNat, Nat.cast_one] at e1 e2 e3 e4
    exact ⟨e1, e2, e3, e4⟩

theorem map_take_drop_getD {α β : Type} (l : List α) (f : α → β) (a j : Nat) (hj : j < 8) (h : a + j < l.length)
    (d : β) (d' : α) : (((l.drop a).take 8).map f).getD j d = f (l.getD (a + j) d') := by
  simp only [List.getD_eq_getElem?_getD, List.getElem?_map, List.getElem?_take, hj, if_true, List.getElem?_drop]
  rw [List.getElem?_eq_getElem h]; rfl

theorem base_length : Model.Ge25519Tables.base.length = 256 := by decide +kernel
theorem base2_length : Model.Ge25519Tables.base2.length = 8 := by decide +kernel

/-- the generated base table holds (j+1)·256^pos·B -/
theorem baseTable_ok {B : G} (hB : C.Rep Ed25519.basePoint B) : BaseTable (specImpl C) B := by
  intro pos hpos j hj
  unfold baseRow
  rw [map_take_drop_getD _ _ (8 * pos) j hj (by rw [base_length]; omega) _ (0, 0, 0)]
  exact rp_of_entryMatches C (rowEntry_rep C hB pos j) (table_check pos j hpos hj)

/-- the generated table `Bi` holds (2j+1)·B -/
theorem biTable_ok {B : G} (hB : C.Rep Ed25519.basePoint B) : OddPrecompTable (specImpl C) (Bi specGe) B := by
  intro j hj
  unfold Bi
  have hg : (Model.Ge25519Tables.base2.map fun e => (⟨specGe.ofNat e.1, specGe.ofNat e.2.1, specGe.ofNat e.2.2⟩ : Precomp Nat)).getD j
      (ge25519_precomp_0 specGe) =
      (fun e : Nat × Nat × Nat => (⟨e.1, e.2.1, e.2.2⟩ : Precomp Nat)) (Model.Ge25519Tables.base2.getD j (0, 0, 0)) := by
    simp only [List.getD_eq_getElem?_getD, List.getElem?_map]
    rw [List.getElem?_eq_getElem (by rw [base2_length]; exact hj)]; rfl
  rw [hg]
  have := rp_of_entryMatches C (rowEntry_rep C hB 0 (2 * j)) (table2_check ⟨j, hj⟩)
  convert this using 1
  simp

end
end Sodium.Ge25519P
