import SodiumModel.Proofs.Argon2RefSeg
import SodiumModel.Proofs.CoresRef
import SodiumModel.Proofs.CompressRef
import SodiumModel.Proofs.Pwhash
/-
  Helper lemmas for Properties/C08Core.lean, part 4: `blake2b_long` = H′, `load_block`/`store_block`,
  `argon2_initial_hash`, `argon2_fill_first_blocks`, `argon2_fill_memory_blocks`, `argon2_finalize`, and
  `argon2_ctx` steps 2–5 against `Spec.Argon2.argon2` (RFC 9106 §3.2).
-/
open Sodium Sodium.Spec Sodium.Model Sodium.Model.Argon2Ref
namespace Sodium.Argon2RefP


/-! ### blake2b_long = H′ -/

theorem store32_ofNat (x : Nat) (hx : x < 2 ^ 32) : CoresRef.store32_le (UInt32.ofNat x) = Argon2.le32 x := by
  rw [CoresRefP.store32_le_eq_toLE, UInt32.toNat_ofNat', Nat.mod_eq_of_lt hx]; rfl

theorem long_loop_eq (H : Nat → Bytes → Bytes) (last n : Nat) (v : Bytes) (h1 : 32 < last) (h2 : last ≤ 64) :
    v.take 32 ++ blake2b_long_loop H (last + 32 * n) v = Argon2.hPrime.go H last n v := by
  induction n generalizing v with
  | zero =>
    rw [blake2b_long_loop, dif_neg (by omega)]
    rfl
  | succ n ih =>
    rw [blake2b_long_loop, dif_pos (by omega)]
    dsimp only
    rw [show last + 32 * (n + 1) - 32 = last + 32 * n by omega, ih]
    rfl

theorem blake2b_long_eq (H : Nat → Bytes → Bytes) (outlen : Nat) (inp : Bytes) (h : outlen < 2 ^ 32) :
    (blake2b_long H outlen inp).2 = Argon2.hPrime H outlen inp := by
  unfold blake2b_long Argon2.hPrime
  rw [if_neg (by omega), store32_ofNat _ h]
  by_cases c : outlen ≤ 64
  · rw [if_pos c, if_pos c]
  · rw [if_neg c, if_neg c]
    dsimp only
    have e : (UInt32.ofNat outlen - 32).toNat = outlen - 32 := by
      rw [UInt32.toNat_sub, UInt32.toNat_ofNat', Nat.mod_eq_of_lt h]
      have : (32 : UInt32).toNat = 32 := rfl
      omega
    rw [e]
    have e2 : outlen - 32 = (outlen - 32 * ((outlen + 31) / 32 - 2)) + 32 * ((outlen + 31) / 32 - 2 - 1) := by omega
    rw [e2, long_loop_eq H _ _ _ (by omega) (by omega)]

/-! ### load_block, store_block -/

theorem wordsOfBytes_length (n : Nat) (b : Bytes) : (Argon2.wordsOfBytes n b).length = n := by
  induction n generalizing b with
  | zero => rfl
  | succ n ih => simp [Argon2.wordsOfBytes, ih]

theorem wordsOfBytes_get (n : Nat) (b : Bytes) (i : Nat) (hi : i < n) :
    (Argon2.wordsOfBytes n b)[i]! = UInt64.ofNat (le ((b.drop (8 * i)).take 8)) := by
  induction n generalizing b i with
  | zero => omega
  | succ n ih =>
    cases i with
    | zero => simp [Argon2.wordsOfBytes]
    | succ i =>
      simp only [Argon2.wordsOfBytes]
      have := ih (b.drop 8) i (by omega)
      simp only [List.getElem!_cons_succ, this, List.drop_drop]
      congr 4; omega

theorem load_block_eq (b : Bytes) : load_block b = Argon2.blockOfBytes b := by
  unfold load_block Argon2.blockOfBytes
  dsimp only
  rw [forLoop_eq_foldl]
  obtain ⟨h1, h2⟩ := foldl_set_spec (fun i _ => CompressRef.load64_le b.toArray (i * 8)) (Array.replicate 128 (0 : UInt64)) 128
  apply ext!
  · rw [h1]; simp [wordsOfBytes_length]
  · intro k hk
    rw [h1] at hk
    rw [h2 k hk, if_pos (by simpa using hk), CompressRefP.Sip.load64_le_eq_spec]
    have hk' : k < 128 := by simpa using hk
    have := wordsOfBytes_get 128 b k hk'
    rw [Nat.mul_comm k 8]
    simp only [Spec.SipHash.load64le]
    rw [← this]
    simp

theorem size_load_block (b : Bytes) : (load_block b).size = 128 := by
  rw [load_block_eq]; simp [Argon2.blockOfBytes, wordsOfBytes_length]

theorem store_loop (src : Block) (n : Nat) (acc : Array UInt8) :
    ((List.range' 0 n).foldl (fun (out : Array UInt8) i => out ++ CompressRef.SipHash.store64_le src[i]!) acc).toList =
      acc.toList ++ (List.range' 0 n).flatMap (fun i => toLE 8 src[i]!.toNat) := by
  induction n with
  | zero => simp
  | succ n ih =>
    rw [List.range'_1_concat, List.foldl_append, List.flatMap_append]
    simp only [List.foldl_cons, List.foldl_nil, Nat.zero_add, Array.toList_append, ih,
      CompressRefP.Sip.store64_le_eq, List.flatMap_cons, List.flatMap_nil, List.append_nil, List.append_assoc]

theorem toList_eq_map_range (b : Block) : b.toList = (List.range' 0 b.size).map (fun i => b[i]!) := by
  apply List.ext_getElem
  · simp
  · intro i h1 h2
    simp at h1 h2 ⊢
    simp [h1]

theorem store_block_eq (b : Block) (hb : b.size = 128) : store_block b = Argon2.bytesOfBlock b := by
  unfold store_block Argon2.bytesOfBlock
  rw [forLoop_eq_foldl, store_loop, toList_eq_map_range b, hb, List.flatMap_map]
  simp


/-! ### the hash returns as many bytes as requested -/

/-- the contract of `crypto_generichash_blake2b*`: `outlen` bytes are written -/
def HLen (H : Nat → Bytes → Bytes) : Prop := ∀ n m, n ≤ 64 → (H n m).length = n

theorem toLE_length (n v : Nat) : (toLE n v).length = n := by
  induction n generalizing v with
  | zero => rfl
  | succ n ih => simp [toLE, ih]

theorem blake2b_HLen : HLen (fun n m => Blake2b.hash n [] [] [] m) := by
  intro n m hn
  simp only [Blake2b.hash, Blake2b.digest]
  rw [List.length_take]
  have : ∀ (f : Nat → Nat) (l : List Nat), (l.flatMap fun i => toLE 8 (f i)).length = 8 * l.length := by
    intro f l
    induction l with
    | nil => rfl
    | cons a l ih => simp [List.flatMap_cons, toLE_length, ih]; omega
  rw [this]
  simp; omega


theorem forLoop_rel {σ τ : Type} (R : σ → τ → Prop) (f : Nat → σ → σ) (g : Nat → τ → τ) (n i : Nat) (s : σ) (t : τ)
    (hstep : ∀ k s t, i ≤ k → k < i + n → R s t → R (f k s) (g k t)) (h : R s t) :
    R (forLoop f n i s) ((List.range' i n).foldl (fun t k => g k t) t) := by
  induction n generalizing i s t with
  | zero => exact h
  | succ n ih =>
    rw [forLoop, List.range'_succ, List.foldl_cons]
    apply ih
    · intro k s t h1 h2 h3
      exact hstep k s t (by omega) (by omega) h3
    · exact hstep i s t (Nat.le_refl _) (by omega) h

theorem seed_lemma (h0 tail a b : Bytes) (hh : h0.length = 64) (ht : tail.length = 8) (ha : a.length = 4)
    (_hb : b.length = 4) :
    (((h0 ++ tail).take 64 ++ a ++ (h0 ++ tail).drop 68).take 68 ++ b ++
      ((h0 ++ tail).take 64 ++ a ++ (h0 ++ tail).drop 68).drop 72) = h0 ++ (a ++ b) := by
  have e1 : (h0 ++ tail).take 64 = h0 := by rw [List.take_append_of_le_length (by omega), List.take_of_length_le (by omega)]
  have e2 : (h0 ++ tail).drop 68 = tail.drop 4 := by
    rw [List.drop_append, List.drop_eq_nil_of_le (by omega), hh]; rfl
  rw [e1, e2]
  have e3 : (h0 ++ a ++ tail.drop 4).take 68 = h0 ++ a := by
    rw [List.take_append_of_le_length (by simp; omega), List.take_of_length_le (by simp; omega)]
  have e4 : (h0 ++ a ++ tail.drop 4).drop 72 = [] := by
    apply List.drop_eq_nil_of_le; simp; omega
  rw [e3, e4]; simp

theorem seed_lemma2 (h0 tail a : Bytes) (hh : h0.length = 64) (_ht : tail.length = 8) (_ha : a.length = 4) :
    ((h0 ++ tail).take 64 ++ a ++ (h0 ++ tail).drop 68) = h0 ++ (a ++ tail.drop 4) := by
  have e1 : (h0 ++ tail).take 64 = h0 := by rw [List.take_append_of_le_length (by omega), List.take_of_length_le (by omega)]
  have e2 : (h0 ++ tail).drop 68 = tail.drop 4 := by
    rw [List.drop_append, List.drop_eq_nil_of_le (by omega), hh]; rfl
  rw [e1, e2]; simp



/-- `Spec.Argon2.argon2` with its `for` loops written as folds -/
theorem argon2_eq (H : Nat → Bytes → Bytes) (ty : Nat) (pwd salt secret ad : Bytes) (t m lanes outlen : Nat) :
    Argon2.argon2 H ty pwd salt secret ad t m lanes outlen =
      let h0 := H 64 (Argon2.le32 lanes ++ Argon2.le32 outlen ++ Argon2.le32 m ++ Argon2.le32 t ++ Argon2.le32 0x13 ++
        Argon2.le32 ty ++ Argon2.le32 pwd.length ++ pwd ++ Argon2.le32 salt.length ++ salt ++
        Argon2.le32 secret.length ++ secret ++ Argon2.le32 ad.length ++ ad)
      let q := (max m (8 * lanes)) / (4 * lanes) * 4
      let mPrime := q * lanes
      let mem0 : Array UInt64 := Array.replicate (mPrime * 128) 0
      let mem1 := (List.range' 0 lanes).foldl (fun mem i =>
        Argon2.setBlock (Argon2.setBlock mem (i * q + 0)
            (Argon2.blockOfBytes (Argon2.hPrime H 1024 (h0 ++ Argon2.le32 0 ++ Argon2.le32 i))))
          (i * q + 1) (Argon2.blockOfBytes (Argon2.hPrime H 1024 (h0 ++ Argon2.le32 1 ++ Argon2.le32 i)))) mem0
      let mem2 := (List.range' 0 t).foldl (fun mem r =>
        (List.range' 0 4).foldl (fun mem sl =>
          (List.range' 0 lanes).foldl (fun mem lane => Argon2.fillSegment ty t mPrime lanes q r sl lane mem) mem) mem) mem1
      let c := (List.range' 0 lanes).foldl (fun c i => Argon2.xorBlock c (Argon2.getBlock mem2 (i * q + (q - 1))))
        Argon2.zeroBlock
      Argon2.hPrime H outlen (Argon2.bytesOfBlock c) := by
  unfold Argon2.argon2
  dsimp only
  rw [forIn_range_foldl _ _ _ _ (fun i mem =>
        Argon2.setBlock (Argon2.setBlock mem (i * (max m (8 * lanes) / (4 * lanes) * 4) + 0)
            (Argon2.blockOfBytes (Argon2.hPrime H 1024 (_ ++ Argon2.le32 0 ++ Argon2.le32 i))))
          (i * (max m (8 * lanes) / (4 * lanes) * 4) + 1) (Argon2.blockOfBytes (Argon2.hPrime H 1024 (_ ++ Argon2.le32 1 ++ Argon2.le32 i))))
      (fun _ _ => rfl)]
  simp only [Id.run, pure_bind]
  rw [forIn_range_foldl _ _ _ _ (fun r mem =>
        (List.range' 0 4).foldl (fun mem sl =>
          (List.range' 0 lanes).foldl (fun mem lane => Argon2.fillSegment ty t (max m (8 * lanes) / (4 * lanes) * 4 * lanes) lanes (max m (8 * lanes) / (4 * lanes) * 4) r sl lane mem) mem) mem)]
  · simp only [pure_bind]
    rw [forIn_range_foldl _ _ _ _ (fun i c => Argon2.xorBlock c (Argon2.getBlock _ (i * (max m (8 * lanes) / (4 * lanes) * 4) + ((max m (8 * lanes) / (4 * lanes) * 4) - 1))))
      (fun _ _ => rfl)]
    rfl
  · intro r mem
    rw [forIn_range_foldl _ _ _ _ (fun sl mem =>
          (List.range' 0 lanes).foldl (fun mem lane => Argon2.fillSegment ty t (max m (8 * lanes) / (4 * lanes) * 4 * lanes) lanes (max m (8 * lanes) / (4 * lanes) * 4) r sl lane mem) mem)]
    · rfl
    · intro sl mem
      rw [forIn_range_foldl _ _ _ _ (fun lane mem => Argon2.fillSegment ty t (max m (8 * lanes) / (4 * lanes) * 4 * lanes) lanes (max m (8 * lanes) / (4 * lanes) * 4) r sl lane mem) (fun _ _ => rfl)]
      rfl


/-! ### the passes -/

/-- the model state represents the specification memory -/
def SRel (inst : Instance) (st : State) (mem : Array UInt64) : Prop :=
  Rel st.memory mem ∧ st.memory.size = inst.memory_blocks.toNat ∧
    st.pseudo_rands.size = inst.segment_length.toNat

theorem fill_memory_rel (inst : Instance) (pass : UInt32) (st : State) (mem : Array UInt64) (hI : InstOk inst)
    (h : SRel inst st mem) :
    SRel inst (argon2_fill_memory_blocks inst pass st)
      ((List.range' 0 4).foldl (fun mem sl =>
        (List.range' 0 inst.lanes.toNat).foldl (fun mem lane =>
          Argon2.fillSegment inst.type.toNat inst.passes.toNat inst.memory_blocks.toNat inst.lanes.toNat
            inst.lane_length.toNat pass.toNat sl lane mem) mem) mem) := by
  unfold argon2_fill_memory_blocks
  have hl0 : ¬ inst.lanes = 0 := by
    rw [u32_eq_iff]; have := hI.hlanes; intro hh; rw [hh] at this; exact absurd this (by decide)
  rw [if_neg hl0]
  have h4 : ARGON2_SYNC_POINTS.toNat = 4 := rfl
  rw [h4]
  apply forLoop_rel (SRel inst) _ _ 4 0 st mem _ h
  intro s st mem _ hs h
  apply forLoop_rel (SRel inst) _ _ _ 0 st mem _ h
  intro l st mem _ hl h
  have hln := inst.lanes.toNat_lt
  have e1 : ((UInt32.ofNat s).toUInt8).toNat = s := by
    rw [UInt32.toNat_toUInt8, UInt32.toNat_ofNat']; omega
  have e2 : (UInt32.ofNat l).toNat = l := by
    rw [UInt32.toNat_ofNat']; omega
  have := fill_segment_rel inst { pass := pass, slice := (UInt32.ofNat s).toUInt8, lane := UInt32.ofNat l, index := 0 }
    st mem hI (by show ((UInt32.ofNat s).toUInt8).toNat < 4; omega)
    (by show (UInt32.ofNat l).toNat < _; omega) h.1 h.2.1 h.2.2
  have this := And.intro this.1 (And.intro this.2.1 this.2.2.1)
  dsimp only at this
  rw [e1, e2] at this
  exact this

theorem passes_rel (inst : Instance) (st : State) (mem : Array UInt64) (hI : InstOk inst) (h : SRel inst st mem) :
    SRel inst (forLoop (fun pass st => argon2_fill_memory_blocks inst (UInt32.ofNat pass) st) inst.passes.toNat 0 st)
      ((List.range' 0 inst.passes.toNat).foldl (fun mem r =>
        (List.range' 0 4).foldl (fun mem sl =>
          (List.range' 0 inst.lanes.toNat).foldl (fun mem lane =>
            Argon2.fillSegment inst.type.toNat inst.passes.toNat inst.memory_blocks.toNat inst.lanes.toNat
              inst.lane_length.toNat r sl lane mem) mem) mem) mem) := by
  apply forLoop_rel (SRel inst) _ _ _ 0 st mem _ h
  intro r st mem _ hr h
  have := fill_memory_rel inst (UInt32.ofNat r) st mem hI h
  have hp := inst.passes.toNat_lt
  rw [show (UInt32.ofNat r).toNat = r by rw [UInt32.toNat_ofNat']; omega] at this
  exact this

/-! ### initialisation -/

theorem le32_length (x : Nat) : (Argon2.le32 x).length = 4 := toLE_length 4 x

theorem initial_hash_eq (H : Nat → Bytes → Bytes) (c : Pwhash.Context) (pwd salt secret ad : Bytes) (type : UInt32)
    (h1 : c.lanes < 2 ^ 32) (h2 : c.outlen < 2 ^ 32) (h3 : c.m_cost < 2 ^ 32) (h4 : c.t_cost < 2 ^ 32)
    (h5 : c.pwdlen = pwd.length ∧ pwd.length < 2 ^ 32 ∧ (c.pwdNull = true → pwd = []))
    (h6 : c.saltlen = salt.length ∧ salt.length < 2 ^ 32 ∧ (c.saltNull = true → salt = []))
    (h7 : c.secretlen = secret.length ∧ secret.length < 2 ^ 32 ∧ (c.secretNull = true → secret = []))
    (h8 : c.adlen = ad.length ∧ ad.length < 2 ^ 32 ∧ (c.adNull = true → ad = [])) :
    argon2_initial_hash H c pwd salt secret ad type =
      H 64 (Argon2.le32 c.lanes ++ Argon2.le32 c.outlen ++ Argon2.le32 c.m_cost ++ Argon2.le32 c.t_cost ++
        Argon2.le32 0x13 ++ Argon2.le32 type.toNat ++ Argon2.le32 pwd.length ++ pwd ++ Argon2.le32 salt.length ++ salt ++
        Argon2.le32 secret.length ++ secret ++ Argon2.le32 ad.length ++ ad) := by
  unfold argon2_initial_hash ARGON2_PREHASH_DIGEST_LENGTH
  dsimp only
  have ev : CoresRef.store32_le ARGON2_VERSION_NUMBER = Argon2.le32 0x13 := by
    rw [CoresRefP.store32_le_eq_toLE]; rfl
  have et : CoresRef.store32_le type = Argon2.le32 type.toNat := by
    rw [CoresRefP.store32_le_eq_toLE]; rfl
  have n1 : (if c.pwdNull = true then [] else pwd) = pwd := by
    split
    · next h => exact (h5.2.2 h).symm
    · rfl
  have n2 : (if c.saltNull = true then [] else salt) = salt := by
    split
    · next h => exact (h6.2.2 h).symm
    · rfl
  have n3 : (if c.secretNull = true then [] else secret) = secret := by
    split
    · next h => exact (h7.2.2 h).symm
    · rfl
  have n4 : (if c.adNull = true then [] else ad) = ad := by
    split
    · next h => exact (h8.2.2 h).symm
    · rfl
  rw [n1, n2, n3, n4, ev, et, store32_ofNat _ h1, store32_ofNat _ h2, store32_ofNat _ h3, store32_ofNat _ h4,
    h5.1, h6.1, h7.1, h8.1, store32_ofNat _ h5.2.1, store32_ofNat _ h6.2.1, store32_ofNat _ h7.2.1,
    store32_ofNat _ h8.2.1]

theorem rel_replicate (n : Nat) :
    Rel (Array.replicate n (Array.replicate 128 (0 : UInt64))) (Array.replicate (n * 128) 0) := by
  refine ⟨by simp; omega, ?_, ?_⟩
  · intro k hk
    simp at hk
    simp [hk]
  · intro k j hk hj
    simp at hk
    have : 128 * k + j < n * 128 := by omega
    simp [hk, hj, this]

theorem first_blocks_rel (H : Nat → Bytes → Bytes) (h0 : Bytes) (hh : h0.length = 64) (inst : Instance)
    (hI : InstOk inst) (M : Array Block) (mem : Array UInt64) (hM : Rel M mem)
    (hMs : M.size = inst.memory_blocks.toNat) :
    Rel (argon2_fill_first_blocks H (h0 ++ zeros 8) inst M)
      ((List.range' 0 inst.lanes.toNat).foldl (fun mem i =>
        Argon2.setBlock (Argon2.setBlock mem (i * inst.lane_length.toNat + 0)
            (Argon2.blockOfBytes (Argon2.hPrime H 1024 (h0 ++ Argon2.le32 0 ++ Argon2.le32 i))))
          (i * inst.lane_length.toNat + 1)
          (Argon2.blockOfBytes (Argon2.hPrime H 1024 (h0 ++ Argon2.le32 1 ++ Argon2.le32 i)))) mem) ∧
    (argon2_fill_first_blocks H (h0 ++ zeros 8) inst M).size = inst.memory_blocks.toNat := by
  unfold argon2_fill_first_blocks
  have key := forLoop_rel
    (fun (s : Bytes × Array Block) (mem : Array UInt64) =>
      (∃ tail : Bytes, tail.length = 8 ∧ s.1 = h0 ++ tail) ∧ Rel s.2 mem ∧ s.2.size = inst.memory_blocks.toNat)
    (argon2_fill_first_blocks_step H inst) (fun i mem =>
        Argon2.setBlock (Argon2.setBlock mem (i * inst.lane_length.toNat + 0)
            (Argon2.blockOfBytes (Argon2.hPrime H 1024 (h0 ++ Argon2.le32 0 ++ Argon2.le32 i))))
          (i * inst.lane_length.toNat + 1)
          (Argon2.blockOfBytes (Argon2.hPrime H 1024 (h0 ++ Argon2.le32 1 ++ Argon2.le32 i))))
    inst.lanes.toNat 0 (h0 ++ zeros 8, M) mem ?_ ⟨⟨zeros 8, by simp [zeros], rfl⟩, hM, hMs⟩
  · exact ⟨key.2.1, key.2.2⟩
  · rintro l ⟨bh, M⟩ mem _ hl ⟨⟨tail, ht, hbh⟩, hM, hMs⟩
    obtain ⟨hll, hS, hmb, hlanes, htype⟩ := hI
    have hmbl := inst.memory_blocks.toNat_lt
    have hln := inst.lanes.toNat_lt
    dsimp only at hbh hM hMs ⊢
    subst hbh
    unfold argon2_fill_first_blocks_step
    dsimp only
    have hlq : l * inst.lane_length.toNat + inst.lane_length.toNat ≤ inst.lanes.toNat * inst.lane_length.toNat := by
      have : (l + 1) * inst.lane_length.toNat ≤ inst.lanes.toNat * inst.lane_length.toNat :=
        Nat.mul_le_mul_right _ (by omega)
      rw [Nat.add_mul] at this; omega
    have el : (UInt32.ofNat l).toNat = l := by rw [UInt32.toNat_ofNat']; omega
    have s0 : CoresRef.store32_le 0 = Argon2.le32 0 := by rw [CoresRefP.store32_le_eq_toLE]; rfl
    have s1 : CoresRef.store32_le 1 = Argon2.le32 1 := by rw [CoresRefP.store32_le_eq_toLE]; rfl
    have sl : CoresRef.store32_le (UInt32.ofNat l) = Argon2.le32 l := store32_ofNat l (by omega)
    rw [s0, s1, sl, seed_lemma h0 tail _ _ hh ht (le32_length 0) (le32_length l)]
    rw [seed_lemma2 h0 _ (Argon2.le32 1) hh (by simp [le32_length]) (le32_length 1)]
    have ed : (Argon2.le32 0 ++ Argon2.le32 l).drop 4 = Argon2.le32 l := by
      rw [List.drop_append_of_le_length (by rw [le32_length]; omega)]
      simp [List.drop_eq_nil_of_le, le32_length]
    rw [ed]
    have t1 : (h0 ++ (Argon2.le32 0 ++ Argon2.le32 l)).take ARGON2_PREHASH_SEED_LENGTH =
        h0 ++ Argon2.le32 0 ++ Argon2.le32 l := by
      rw [List.take_of_length_le (by simp [hh, le32_length, ARGON2_PREHASH_SEED_LENGTH]), List.append_assoc]
    have t2 : (h0 ++ (Argon2.le32 1 ++ Argon2.le32 l)).take ARGON2_PREHASH_SEED_LENGTH =
        h0 ++ Argon2.le32 1 ++ Argon2.le32 l := by
      rw [List.take_of_length_le (by simp [hh, le32_length, ARGON2_PREHASH_SEED_LENGTH]), List.append_assoc]
    rw [t1, t2]
    have b1 : (blake2b_long H ARGON2_BLOCK_SIZE (h0 ++ Argon2.le32 0 ++ Argon2.le32 l)).2 =
        Argon2.hPrime H 1024 (h0 ++ Argon2.le32 0 ++ Argon2.le32 l) := blake2b_long_eq H 1024 _ (by decide)
    have b2 : (blake2b_long H ARGON2_BLOCK_SIZE (h0 ++ Argon2.le32 1 ++ Argon2.le32 l)).2 =
        Argon2.hPrime H 1024 (h0 ++ Argon2.le32 1 ++ Argon2.le32 l) := blake2b_long_eq H 1024 _ (by decide)
    rw [b1, b2]
    have i0 : (UInt32.ofNat l * inst.lane_length + 0).toNat = l * inst.lane_length.toNat + 0 := by
      rw [UInt32.toNat_add, UInt32.toNat_mul, el]
      have : (0 : UInt32).toNat = 0 := rfl
      rw [this]; omega
    have i1 : (UInt32.ofNat l * inst.lane_length + 1).toNat = l * inst.lane_length.toNat + 1 := by
      rw [UInt32.toNat_add, UInt32.toNat_mul, el]
      have : (1 : UInt32).toNat = 1 := rfl
      rw [this]; omega
    rw [i0, i1]
    refine ⟨⟨_, by simp [le32_length], rfl⟩, ?_, by rw [size_set!, size_set!, hMs]⟩
    rw [load_block_eq, load_block_eq]
    have hb : ∀ b, (Argon2.blockOfBytes b).size = 128 := by
      intro b; simp [Argon2.blockOfBytes, wordsOfBytes_length]
    apply setBlock_rel (setBlock_rel hM _ (by rw [hMs, hmb]; omega) _ (hb _)) _ (by rw [size_set!, hMs, hmb]; omega) _ (hb _)

/-! ### finalisation -/

theorem zero_xorBlock (x : Block) (hx : x.size = 128) : Argon2.xorBlock Argon2.zeroBlock x = x := by
  rw [xorBlock_comm _ _ (by rw [size_zeroBlock, hx]), xorBlock_zero _ hx]

theorem finalize_eq (H : Nat → Bytes → Bytes) (outlen : UInt32) (inst : Instance) (st : State) (mem : Array UInt64)
    (hI : InstOk inst) (h : SRel inst st mem) :
    argon2_finalize H outlen inst st =
      Argon2.hPrime H outlen.toNat (Argon2.bytesOfBlock
        ((List.range' 0 inst.lanes.toNat).foldl (fun c i =>
          Argon2.xorBlock c (Argon2.getBlock mem (i * inst.lane_length.toNat + (inst.lane_length.toNat - 1))))
          Argon2.zeroBlock)) := by
  obtain ⟨hM, hMs, _⟩ := h
  obtain ⟨hll, hS, hmb, hlanes, htype⟩ := hI
  have hmbl := inst.memory_blocks.toNat_lt
  have hln := inst.lanes.toNat_lt
  have one : (1 : UInt32).toNat = 1 := rfl
  unfold argon2_finalize copy_block
  dsimp only
  have hlast : ∀ l, l < inst.lanes.toNat →
      (UInt32.ofNat l * inst.lane_length + (inst.lane_length - 1)).toNat =
        l * inst.lane_length.toNat + (inst.lane_length.toNat - 1) ∧
      l * inst.lane_length.toNat + (inst.lane_length.toNat - 1) < st.memory.size := by
    intro l hl
    have hlq : l * inst.lane_length.toNat + inst.lane_length.toNat ≤ inst.lanes.toNat * inst.lane_length.toNat := by
      have : (l + 1) * inst.lane_length.toNat ≤ inst.lanes.toNat * inst.lane_length.toNat :=
        Nat.mul_le_mul_right _ (by omega)
      rw [Nat.add_mul] at this; omega
    have el : (UInt32.ofNat l).toNat = l := by rw [UInt32.toNat_ofNat']; omega
    rw [UInt32.toNat_add, UInt32.toNat_mul, UInt32.toNat_sub, el, one, hMs, hmb]
    generalize l * inst.lane_length.toNat = a at *
    omega
  have h0 : (inst.lane_length - 1).toNat = 0 * inst.lane_length.toNat + (inst.lane_length.toNat - 1) ∧
      0 * inst.lane_length.toNat + (inst.lane_length.toNat - 1) < st.memory.size := by
    have := hlast 0 (by omega)
    rw [show UInt32.ofNat 0 * inst.lane_length + (inst.lane_length - 1) = inst.lane_length - 1 by
      rw [show UInt32.ofNat 0 = 0 from rfl, UInt32.zero_mul, UInt32.zero_add]] at this
    exact this
  rw [show inst.lanes.toNat = (inst.lanes.toNat - 1) + 1 by omega, List.range'_succ, List.foldl_cons,
    getBlock_rel hM _ h0.2, ← h0.1]
  have hb0 : st.memory[(inst.lane_length - 1).toNat]!.size = 128 := hM.bsize _ (by rw [h0.1]; exact h0.2)
  rw [zero_xorBlock _ hb0]
  have key := forLoop_rel (fun (a b : Block) => a = b ∧ a.size = 128)
    (fun l blockhash => xor_block blockhash
      st.memory[(UInt32.ofNat l * inst.lane_length + (inst.lane_length - 1)).toNat]!)
    (fun i c => Argon2.xorBlock c (Argon2.getBlock mem (i * inst.lane_length.toNat + (inst.lane_length.toNat - 1))))
    (inst.lanes.toNat - 1) 1 _ _ ?_ ⟨rfl, hb0⟩
  · show (blake2b_long H outlen.toNat (store_block (forLoop _ (inst.lanes.toNat - 1 + 1 - 1) 1 _))).2 = _
    rw [show inst.lanes.toNat - 1 + 1 - 1 = inst.lanes.toNat - 1 by omega]
    rw [blake2b_long_eq H _ _ outlen.toNat_lt, store_block_eq _ key.2, key.1]
  · rintro l a b h1 h2 ⟨rfl, ha⟩
    obtain ⟨e1, e2⟩ := hlast l (by omega)
    rw [e1, getBlock_rel hM _ e2, xor_block_eq _ _ ha]
    exact ⟨rfl, by rw [size_xorBlock, ha]⟩

/-! ### argon2_ctx steps 2–5 -/

/-- the contexts `argon2_validate_inputs` lets through, as far as the core is concerned -/
structure CoreOk (c : Pwhash.Context) (pwd salt secret ad : Bytes) : Prop where
  lanes : 1 ≤ c.lanes ∧ c.lanes ≤ 0xFFFFFF
  outlen : c.outlen < 2 ^ 32
  m_cost : c.m_cost < 2 ^ 32
  t_cost : c.t_cost < 2 ^ 32
  threads : c.threads < 2 ^ 32
  pwd : c.pwdlen = pwd.length ∧ pwd.length < 2 ^ 32 ∧ (c.pwdNull = true → pwd = [])
  salt : c.saltlen = salt.length ∧ salt.length < 2 ^ 32 ∧ (c.saltNull = true → salt = [])
  secret : c.secretlen = secret.length ∧ secret.length < 2 ^ 32 ∧ (c.secretNull = true → secret = [])
  ad : c.adlen = ad.length ∧ ad.length < 2 ^ 32 ∧ (c.adNull = true → ad = [])

theorem argon2_ctx_core_eq (H : Nat → Bytes → Bytes) (hH : HLen H) (c : Pwhash.Context)
    (pwd salt secret ad : Bytes) (type : UInt32) (ht : type = 1 ∨ type = 2) (hc : CoreOk c pwd salt secret ad) :
    argon2_ctx_core H c pwd salt secret ad type =
      Argon2.argon2 H type.toNat pwd salt secret ad c.t_cost c.m_cost c.lanes c.outlen := by
  obtain ⟨hl, ho, hm, htc, hth, hpw, hsa, hse, had⟩ := hc
  have el : (UInt32.ofNat c.lanes).toNat = c.lanes := by rw [UInt32.toNat_ofNat']; omega
  have em : (UInt32.ofNat c.m_cost).toNat = c.m_cost := by rw [UInt32.toNat_ofNat']; omega
  have et : (UInt32.ofNat c.t_cost).toNat = c.t_cost := by rw [UInt32.toNat_ofNat']; omega
  have eo : (UInt32.ofNat c.outlen).toNat = c.outlen := by rw [UInt32.toNat_ofNat']; omega
  obtain ⟨i1, i2, i3⟩ := PwhashP.instance_eq (UInt32.ofNat c.t_cost) (UInt32.ofNat c.m_cost) (UInt32.ofNat c.lanes)
    (UInt32.ofNat c.threads) (by rw [el]; exact hl.1) (by rw [el]; exact hl.2)
  rw [el, em] at i1 i2 i3
  obtain ⟨r1, r2, r3, r4⟩ := PwhashP.rounding_props c.m_cost c.lanes hl.1
  unfold argon2_ctx_core
  dsimp only
  generalize hinst : Instance.mk _ _ _ _ _ _ type = inst
  have hp : (Pwhash.argon2_instance (UInt32.ofNat c.t_cost) (UInt32.ofNat c.m_cost) (UInt32.ofNat c.lanes)
      (UInt32.ofNat c.threads)).passes = inst.passes := by rw [← hinst]
  rw [hp]
  have f1 : inst.segment_length.toNat = max c.m_cost (8 * c.lanes) / (4 * c.lanes) := by rw [← hinst]; exact i1
  have f2 : inst.memory_blocks.toNat = max c.m_cost (8 * c.lanes) / (4 * c.lanes) * (4 * c.lanes) := by
    rw [← hinst]; exact i2
  have f3 : inst.lane_length.toNat = 4 * (max c.m_cost (8 * c.lanes) / (4 * c.lanes)) := by rw [← hinst]; exact i3
  have f4 : inst.lanes.toNat = c.lanes := by rw [← hinst]; exact el
  have f5 : inst.passes.toNat = c.t_cost := by rw [← hinst]; exact et
  have f6 : inst.type = type := by rw [← hinst]
  have hS2 : 2 ≤ max c.m_cost (8 * c.lanes) / (4 * c.lanes) := by
    rw [Nat.le_div_iff_mul_le (by omega)]; omega
  have hI : InstOk inst := by
    refine ⟨by rw [f3, f1], by rw [f1]; exact hS2, ?_, by rw [f4]; exact hl.1, by rw [f6]; exact ht⟩
    rw [f2, f3, f4]
    generalize max c.m_cost (8 * c.lanes) / (4 * c.lanes) = S
    ac_rfl
  -- the specification, in terms of the instance
  rw [argon2_eq]
  dsimp only
  have hq : max c.m_cost (8 * c.lanes) / (4 * c.lanes) * 4 = inst.lane_length.toNat := by rw [f3, Nat.mul_comm]
  have hmp : max c.m_cost (8 * c.lanes) / (4 * c.lanes) * 4 * c.lanes = inst.memory_blocks.toNat := by
    rw [f2, Nat.mul_assoc]
  rw [hmp, hq, ← f4, ← f5, ← f6]
  -- H_0
  have hh0 := initial_hash_eq H c pwd salt secret ad inst.type (by omega) ho hm htc hpw hsa hse had
  rw [← f4, ← f5] at hh0
  generalize hh0v : H 64 (Argon2.le32 inst.lanes.toNat ++ Argon2.le32 c.outlen ++ Argon2.le32 c.m_cost ++
    Argon2.le32 inst.passes.toNat ++ Argon2.le32 0x13 ++ Argon2.le32 inst.type.toNat ++ Argon2.le32 pwd.length ++ pwd ++
    Argon2.le32 salt.length ++ salt ++ Argon2.le32 secret.length ++ secret ++ Argon2.le32 ad.length ++ ad) = h0 at hh0
  have hh0l : h0.length = 64 := by rw [← hh0v]; exact hH 64 _ (by omega)
  -- initialisation
  have hinit : SRel inst (argon2_initialize H inst c pwd salt secret ad)
      ((List.range' 0 inst.lanes.toNat).foldl (fun mem i =>
        Argon2.setBlock (Argon2.setBlock mem (i * inst.lane_length.toNat + 0)
            (Argon2.blockOfBytes (Argon2.hPrime H 1024 (h0 ++ Argon2.le32 0 ++ Argon2.le32 i))))
          (i * inst.lane_length.toNat + 1)
          (Argon2.blockOfBytes (Argon2.hPrime H 1024 (h0 ++ Argon2.le32 1 ++ Argon2.le32 i))))
        (Array.replicate (inst.memory_blocks.toNat * 128) 0)) := by
    unfold argon2_initialize
    dsimp only
    rw [hh0, List.take_of_length_le (by omega)]
    obtain ⟨a, b⟩ := first_blocks_rel H h0 hh0l inst hI _ _ (rel_replicate inst.memory_blocks.toNat) (by simp)
    exact ⟨a, b, by simp⟩
  -- the passes, the tag
  have hpass := passes_rel inst _ _ hI hinit
  rw [finalize_eq H _ inst _ _ hI hpass, eo]

end Sodium.Argon2RefP
