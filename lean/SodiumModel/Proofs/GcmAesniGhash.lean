import SodiumModel.Proofs.GcmAesniField
import SodiumModel.Proofs.GcmAesniIface
import SodiumModel.Spec.Gcm
/-
  K-level meaning of the C multiplication (`gcm_reduce ∘ clmul128` = a·b·x^(-128)), of SP 800-38D Algorithm 1 on the
  specification's `Block` (= a·b·x^(-127): the right-shift-and-conditionally-XOR-R loop divides by x modulo Q in the register's
  bit order), and of `hx[0]` (`hshift h0` = h0·x mod Q).
-/
open Polynomial
namespace Sodium.GcmAesniP.GF
open Sodium.Model.GcmAesni Sodium.Spec Sodium.Spec.Gcm

/-! ### K-level: Montgomery form of the C multiplication -/

theorem u_mul_x : u * x = 1 := by rw [mul_comm]; exact x_mul_u
theorem xu_pow (n : Nat) : x ^ n * u ^ n = 1 := by rw [← mul_pow, x_mul_u, one_pow]

theorem kap_def (n : Nat) : kap n = AdjoinRoot.mk Q (phi n) := rfl

theorem kap_reduce (w : I256) : x ^ 128 * kap (gcm_reduce w).toNat = AdjoinRoot.mk Q (polyI w) := by
  obtain ⟨m, hm⟩ := gcm_reduce_poly w
  have := congrArg (AdjoinRoot.mk Q) hm
  simp only [map_mul, map_add, map_pow, AdjoinRoot.mk_self, mul_zero, add_zero, AdjoinRoot.mk_X] at this
  exact this

theorem kap_reduce' (w : I256) : kap (gcm_reduce w).toNat = AdjoinRoot.mk Q (polyI w) * u ^ 128 := by
  rw [← kap_reduce w]
  calc kap (gcm_reduce w).toNat = kap (gcm_reduce w).toNat * (x ^ 128 * u ^ 128) := by rw [xu_pow, mul_one]
    _ = _ := by ring


theorem kap_mont (a b : BlockVec) : kap (mont a b).toNat = kap a.toNat * kap b.toNat * u ^ 128 := by
  rw [mont, kap_reduce', polyI_clmul128, map_mul]; rfl

theorem kap_sq (a : BlockVec) : kap (gcm_reduce (clsq128 a)).toNat = kap a.toNat * kap a.toNat * u ^ 128 := by
  rw [kap_reduce', polyI_clsq128, map_mul]; rfl

theorem toNat_inj_of_kap {a b : BlockVec} (h : kap a.toNat = kap b.toNat) : a = b :=
  BitVec.eq_of_toNat_eq (kap_inj a.isLt b.isLt h)

/-! ### the specification multiplication (SP 800-38D Algorithm 1) at K-level -/

/-- the 128-bit number of a spec block (x_0 = most significant bit) -/
def bn (b : Block) : Nat := 2 ^ 64 * b.hi.toNat + b.lo.toNat

theorem bn_lt (b : Block) : bn b < 2 ^ 128 := by
  have := b.hi.toNat_lt; have := b.lo.toNat_lt; unfold bn; omega

theorem phi_bn (b : Block) : phi (bn b) = X ^ 64 * phi b.hi.toNat + phi b.lo.toNat :=
  phi_hl _ _ 64 b.lo.toNat_lt

theorem kap_bn_xor (a b : Block) : kap (bn (a.xor b)) = kap (bn a) + kap (bn b) := by
  simp only [kap_def, phi_bn, Block.xor, UInt64.toNat_xor, phi_xor, map_add, map_mul]
  ring

theorem u64_bit (w : UInt64) (k : Nat) (hk : k < 64) :
    ((w >>> k.toUInt64) &&& 1 != 0) = w.toNat.testBit k := by
  have h1 : ((w >>> k.toUInt64) &&& 1).toNat = w.toNat / 2 ^ k % 2 := by
    simp [UInt64.toNat_shiftRight, UInt64.toNat_and, Nat.shiftRight_eq_div_pow, Nat.and_one_is_mod, Nat.mod_eq_of_lt hk
      ]
  rw [Nat.testBit_eq_decide_div_mod_eq, ← h1]
  have h2 : ((w >>> k.toUInt64) &&& 1).toNat < 2 := by rw [h1]; omega
  generalize ((w >>> k.toUInt64) &&& 1) = t at *
  by_cases ht : t = 0
  · subst ht; simp
  · have h3 : t.toNat ≠ 0 := fun h => ht (UInt64.toNat_inj.mp (by simpa using h))
    have h4 : t.toNat = 1 := by omega
    simp [ht, h4]

theorem block_bit (b : Block) (i : Nat) (hi : i < 128) : b.bit i = (bn b).testBit (127 - i) := by
  have hl := b.lo.toNat_lt
  unfold Block.bit bn
  rw [Nat.testBit_two_pow_mul_add _ hl]
  by_cases h : i < 64
  · have h1 : ¬ (127 - i < 64) := by omega
    have h2 : 127 - i - 64 = 63 - i := by omega
    simp only [h, h1, if_true, if_false, h2]
    exact u64_bit _ _ (by omega)
  · have h1 : 127 - i < 64 := by omega
    simp only [h, h1, if_true, if_false]
    exact u64_bit _ _ (by omega)

theorem block_lsb (b : Block) : b.lsb = (bn b).testBit 0 := by
  have := block_bit b 127 (by decide)
  simpa [Block.bit, Block.lsb] using this

theorem bn_shr1 (v : Block) : bn v.shr1 = bn v / 2 := by
  have hl := v.lo.toNat_lt; have hh := v.hi.toNat_lt
  unfold bn Block.shr1
  simp only [UInt64.toNat_or, UInt64.toNat_shiftRight, UInt64.toNat_shiftLeft]
  have e1 : (v.hi.toNat <<< ((63 : UInt64).toNat % 64)) % 2 ^ 64 = (v.hi.toNat % 2) <<< 63 := by
    simp [Nat.shiftLeft_eq]; omega
  have e2 : v.lo.toNat >>> ((1 : UInt64).toNat % 64) = v.lo.toNat / 2 := by simp [Nat.shiftRight_eq_div_pow]
  have e3 : v.hi.toNat >>> ((1 : UInt64).toNat % 64) = v.hi.toNat / 2 := by simp [Nat.shiftRight_eq_div_pow]
  rw [e1, e2, e3, Nat.or_comm, ← Nat.shiftLeft_add_eq_or_of_lt (by omega), Nat.shiftLeft_eq]
  omega


theorem kap_one : kap 1 = 1 := by simp [kap, phi_one]

theorem kap_half (n : Nat) : x * kap (n / 2) = kap n + kap (n % 2) := by
  have h := congrArg (AdjoinRoot.mk Q) (phi_split n 1)
  simp only [map_add, map_mul, AdjoinRoot.mk_X, pow_one] at h
  have h' : kap n = x * kap (n / 2) + kap (n % 2) := h
  linear_combination (-1 : K) * h' - kap (n % 2) * K_two

theorem bn_R : bn R = Qn / 2 := by decide +kernel

theorem kap_vstep (v : Block) : x * kap (bn (if v.lsb then v.shr1.xor R else v.shr1)) = kap (bn v) := by
  have hh := kap_half (bn v)
  rw [block_lsb, Nat.testBit_zero]
  by_cases h : bn v % 2 = 1
  · simp only [h, decide_true, if_true, kap_bn_xor, bn_shr1, bn_R]
    rw [h, kap_one] at hh
    have hu : x * kap (Qn / 2) = 1 := x_mul_u
    linear_combination hh + hu + K_two
  · have h0 : bn v % 2 = 0 := by omega
    simp only [h, decide_false, if_false, bn_shr1, Bool.false_eq_true]
    rw [h0, kap_zero] at hh
    linear_combination hh

/-- one iteration of Algorithm 1 steps 2–3 -/
def mulStep (a : Block) (s : Block × Block) (i : Nat) : Block × Block :=
  (if a.bit i then s.1.xor s.2 else s.1, if s.2.lsb then s.2.shr1.xor R else s.2.shr1)

theorem mul_eq_fold (a b : Block) : a.mul b = ((List.range 128).foldl (mulStep a) (⟨0, 0⟩, b)).1 := by
  unfold Block.mul
  have hf : (fun (x : Block × Block) (i : Nat) =>
      match x with
      | (z, v) =>
        let z' := if a.bit i = true then z.xor v else z
        let v' := if v.lsb = true then v.shr1.xor R else v.shr1
        (z', v')) = mulStep a := by
    funext ⟨z, v⟩ i; rfl
  simp only [hf]

theorem bn_zero : bn ⟨0, 0⟩ = 0 := rfl

theorem mul_inv (a b : Block) (n : Nat) :
    let s := (List.range n).foldl (mulStep a) (⟨0, 0⟩, b)
    x ^ n * kap (bn s.2) = kap (bn b) ∧
    kap (bn s.1) = kap (bn b) * ∑ i ∈ Finset.range n, (if a.bit i then u ^ i else 0) := by
  induction n with
  | zero => simp [bn_zero, kap_zero]
  | succ n ih =>
    simp only [List.range_succ, List.foldl_append, List.foldl_cons, List.foldl_nil]
    generalize (List.range n).foldl (mulStep a) (⟨0, 0⟩, b) = s at ih
    obtain ⟨ih2, ih1⟩ := ih
    have hv : kap (bn s.2) = kap (bn b) * u ^ n := by
      rw [← ih2]
      calc kap (bn s.2) = kap (bn s.2) * (x ^ n * u ^ n) := by rw [xu_pow, mul_one]
        _ = _ := by ring
    constructor
    · simp only [mulStep]
      rw [pow_succ, mul_assoc, kap_vstep, ih2]
    · simp only [mulStep, Finset.sum_range_succ]
      by_cases hb : a.bit n
      · simp only [hb, if_true, kap_bn_xor, ih1, hv]; ring
      · simp only [hb, if_false, ih1, Bool.false_eq_true]; ring

theorem kap_psi128 (n : Nat) (h : n < 2 ^ 128) :
    kap n = ∑ j ∈ Finset.range 128, (if n.testBit j then x ^ j else 0) := by
  rw [kap_def, ← psi_eq_phi 128 n h, psi, map_sum]
  apply Finset.sum_congr rfl
  intro j _
  split <;> simp [x]

theorem bitsum (a : Block) :
    ∑ i ∈ Finset.range 128, (if a.bit i then u ^ i else 0) = kap (bn a) * u ^ 127 := by
  rw [kap_psi128 _ (bn_lt a), Finset.sum_mul]
  rw [← Finset.sum_range_reflect]
  apply Finset.sum_congr rfl
  intro i hi
  have hi : i < 128 := Finset.mem_range.mp hi
  have e : 128 - 1 - i = 127 - i := by omega
  rw [e, block_bit a (127 - i) (by omega)]
  have e2 : 127 - (127 - i) = i := by omega
  rw [e2]
  split
  · have : (127 : Nat) = i + (127 - i) := by omega
    calc u ^ (127 - i) = (x ^ i * u ^ i) * u ^ (127 - i) := by rw [xu_pow, one_mul]
      _ = x ^ i * u ^ 127 := by rw [mul_assoc, ← pow_add, ← this]
  · simp

/-- SP 800-38D Algorithm 1 computes a·b·x^(-127) in GF(2)[x]/(Q) (register bit order) -/
theorem kap_mul (a b : Block) : kap (bn (a.mul b)) = kap (bn a) * kap (bn b) * u ^ 127 := by
  rw [mul_eq_fold, (mul_inv a b 128).2, bitsum]; ring


/-! ### `hx[0]`: the key shifted left by one bit, reduced -/

def cc : Nat := 0xc2000000000000000000000000000001

theorem SHR64x2_63_toNat (a : BlockVec) : (SHR64x2 a 63).toNat = 2 ^ 64 * (a.toNat / 2 ^ 127) + a.toNat % 2 ^ 64 / 2 ^ 63 := by
  have := a.isLt
  simp [SHR64x2, mm_srli_epi64, ofQ_toNat, q0_toNat, q1_toNat, UInt64.toNat_shiftRight, Nat.shiftRight_eq_div_pow]
  omega

theorem SHL64x2_1_toNat (a : BlockVec) : (SHL64x2 a 1).toNat = 2 ^ 64 * (2 * (a.toNat / 2 ^ 64) % 2 ^ 64) + 2 * (a.toNat % 2 ^ 64) % 2 ^ 64 := by
  have := a.isLt
  simp [SHL64x2, mm_slli_epi64, ofQ_toNat, q0_toNat, q1_toNat, UInt64.toNat_shiftLeft, Nat.shiftLeft_eq]
  omega

theorem mask_toNat (h0 : BlockVec) :
    (SHUFFLE32x4 (SUB64x2 ZERO128 (SHR64x2 h0 63)) 3 3 3 3).toNat = if h0.toNat < 2 ^ 127 then 0 else 2 ^ 128 - 1 := by
  have hlt := h0.isLt
  have hs := SHR64x2_63_toNat h0
  generalize SHR64x2 h0 63 = t at hs
  have hz : (ZERO128 : BlockVec).toNat = 0 := rfl
  have hb : h0.toNat % 2 ^ 64 / 2 ^ 63 ≤ 1 := by omega
  have ht1 : t.toNat / 2 ^ 64 = h0.toNat / 2 ^ 127 := by omega
  have ht0 : t.toNat % 2 ^ 64 = h0.toNat % 2 ^ 64 / 2 ^ 63 := by omega
  have h1 : (SUB64x2 ZERO128 t).toNat / 2 ^ 96 % 2 ^ 32 = if h0.toNat < 2 ^ 127 then 0 else 2 ^ 32 - 1 := by
    simp only [SUB64x2, mm_sub_epi64, ofQ_toNat, UInt64.toNat_sub, q0_toNat, q1_toNat, hz, Nat.zero_mod, Nat.zero_div,
      ht1, ht0]
    generalize h0.toNat % 2 ^ 64 / 2 ^ 63 = lb at hb
    rcases Nat.lt_or_ge h0.toNat (2 ^ 127) with hc | hc
    · have : h0.toNat / 2 ^ 127 = 0 := by omega
      rw [this, if_pos hc]; omega
    · have : h0.toNat / 2 ^ 127 = 1 := by omega
      rw [this, if_neg (by omega)]; omega
  have s0 : MM_SHUFFLE 3 3 3 3 % 4 = 3 := by decide
  have s1 : MM_SHUFFLE 3 3 3 3 / 4 % 4 = 3 := by decide
  have s2 : MM_SHUFFLE 3 3 3 3 / 16 % 4 = 3 := by decide
  have s3 : MM_SHUFFLE 3 3 3 3 / 64 % 4 = 3 := by decide
  simp only [SHUFFLE32x4, mm_shuffle_epi32, lane32, Nat.shiftRight_eq_div_pow, BitVec.toNat_ofNat, s0, s1, s2, s3,
    Nat.reduceMul, h1]
  split <;> omega


theorem or_disjoint (A' B C : Nat) (hB : B < 2 ^ 64) (hC : C < 2 ^ 1) :
    (2 ^ 64 * (2 ^ 1 * A') + B) ||| (2 ^ 64 * C) = 2 ^ 64 * (2 ^ 1 * A' + C) + B := by
  apply Nat.eq_of_testBit_eq
  intro j
  have h0 : (0 : Nat) < 2 ^ 64 := by decide
  have e : 2 ^ 64 * C = 2 ^ 64 * C + 0 := rfl
  rw [Nat.testBit_or, e, Nat.testBit_two_pow_mul_add _ hB, Nat.testBit_two_pow_mul_add _ hB, Nat.testBit_two_pow_mul_add _ h0]
  by_cases hj : j < 64
  · simp [hj]
  · simp only [hj, if_false]
    have e2 : 2 ^ 1 * A' = 2 ^ 1 * A' + 0 := rfl
    rw [Nat.testBit_two_pow_mul_add _ hC, e2, Nat.testBit_two_pow_mul_add _ (show 0 < 2 ^ 1 by decide)]
    by_cases hk : j - 64 < 1
    · simp [hk]
    · have : C.testBit (j - 64) = false := Nat.testBit_lt_two_pow (Nat.lt_of_lt_of_le hC (Nat.pow_le_pow_right (by decide) (by omega)))
      simp [hk, this]

theorem SHL128_1_toNat (h0 : BlockVec) : (SHL128 h0 1).toNat = 2 * h0.toNat % 2 ^ 128 := by
  have hlt := h0.isLt
  have e63 : 64 - 1 = 63 := rfl
  simp only [SHL128, OR128, mm_or_si128, BitVec.toNat_or, e63, SHL64x2_1_toNat, SHR64x2_63_toNat, BYTESHL128_8_toNat]
  obtain ⟨A', hA⟩ : ∃ A', 2 * (h0.toNat / 2 ^ 64) % 2 ^ 64 = 2 ^ 1 * A' := ⟨(h0.toNat / 2 ^ 64) % 2 ^ 63, by omega⟩
  have hY : 2 ^ 64 * (2 ^ 64 * (h0.toNat % 2 ^ 64) / 2 ^ 127) + 2 ^ 64 * (h0.toNat % 2 ^ 64) % 2 ^ 64 / 2 ^ 63
      = 2 ^ 64 * (h0.toNat % 2 ^ 64 / 2 ^ 63) := by omega
  rw [hY, hA, or_disjoint _ _ _ (by omega) (by omega)]
  omega

theorem carry_toNat : (SET64x2 0xc200000000000000 1).toNat = cc := by decide +kernel

theorem hshift_toNat (h0 : BlockVec) :
    (hshift h0).toNat = (2 * h0.toNat % 2 ^ 128) ^^^ (if h0.toNat < 2 ^ 127 then 0 else cc) := by
  simp only [hshift, XOR128_toNat, SHL128_1_toNat, AND128, mm_and_si128, BitVec.toNat_and, mask_toNat, carry_toNat]
  split
  · simp
  · congr 1

theorem cc_xor : cc = Qn ^^^ 2 ^ 128 := by decide +kernel

/-- `hx[0]` holds h·x (mod Q) -/
theorem kap_hshift (h0 : BlockVec) : kap (hshift h0).toNat = x * kap h0.toNat := by
  have hlt := h0.isLt
  rw [hshift_toNat, kap_xor]
  have h2 : kap (2 * h0.toNat) = x * kap h0.toNat := by
    have := kap_shift 1 h0.toNat
    simp only [Nat.shiftLeft_eq, pow_one] at this
    rwa [Nat.mul_comm] at this
  have hs := congrArg (AdjoinRoot.mk Q) (phi_split (2 * h0.toNat) 128)
  simp only [map_add, map_mul, map_pow, AdjoinRoot.mk_X] at hs
  have hs' : kap (2 * h0.toNat) = x ^ 128 * kap (2 * h0.toNat / 2 ^ 128) + kap (2 * h0.toNat % 2 ^ 128) := hs
  rw [h2] at hs'
  by_cases hc : h0.toNat < 2 ^ 127
  · have : 2 * h0.toNat / 2 ^ 128 = 0 := by omega
    rw [this, kap_zero] at hs'
    rw [if_pos hc, kap_zero, hs']; ring
  · have : 2 * h0.toNat / 2 ^ 128 = 1 := by omega
    rw [this, kap_one] at hs'
    have hcc : kap cc = x ^ 128 := by
      rw [cc_xor, kap_xor, kap_Qn, zero_add]
      have := kap_shift 128 1
      rwa [Nat.shiftLeft_eq, Nat.one_mul, kap_one, mul_one] at this
    rw [if_neg hc, hcc, hs']
    ring

end Sodium.GcmAesniP.GF
