import SodiumModel.Proofs.X86Sse2
import SodiumModel.Model.SalsaSimd
import Generated.SalsaXmm6Asm
/-
  The rounds loop `._mainloop2` of the 64-byte block path of `salsa20_xmm6-asm.S` (indices 676 .. 802 of the regenerated
  instruction list), executed symbolically: one pass of the loop body (127 instructions, four rounds) computes
  `SalsaSimd.row_body` (the transcription of u1.h / u0.h) on `%xmm0..%xmm3` (= diag0..diag3) and `%xmm4` (= a0), and
  subtracts 4 from `%rcx`; five passes from `%rcx = 20` are `forUpBy4 row_body ROUNDS 0`.
-/
namespace Sodium.X86SseP
open Sodium Sodium.Model.X86Sse Sodium.Model.ChachaSimd Sodium.Model.CoresRef Generated.SalsaXmm6Asm
open Sodium.Model.SalsaSimd (row_body Diag)

macro "xmm_step" f:term : tactic =>
  `(tactic| (rw [run_step _ _ _ _ rfl $f];
             simp only [step, Gprs.get, Gprs.set, Xmms.get, Xmms.set, Nat.reduceAdd]))

theorem mainloop2_body (g : Gprs) (s : Diag) (x5 x6 x7 x8 x9 x10 x11 x12 x13 x14 x15 : V128) (cf zf : Bool) (mem : Mem) (k : Nat) :
    ∃ y5 y6 y7 : V128,
    run prog (127 + k) { g := g, x := ⟨s.diag0, s.diag1, s.diag2, s.diag3, s.a0, x5, x6, x7, x8, x9, x10, x11, x12, x13, x14, x15⟩, cf := cf, zf := zf,
                         mem := mem, pc := 676, halted := false, fault := false } =
    run prog k { g := { g with rcx := g.rcx - 4 },
                 x := ⟨(row_body s).diag0, (row_body s).diag1, (row_body s).diag2,
                       (row_body s).diag3, (row_body s).a0, y5, y6, y7,
                       x8, x9, x10, x11, x12, x13, x14, x15⟩,
                 cf := decide (g.rcx < 4), zf := g.rcx == 4, mem := mem,
                 pc := if Cond.holds .a (decide (g.rcx < 4)) (g.rcx == 4) then 676 else 803, halted := false, fault := false } := by
  obtain ⟨d0, d1, d2, d3, a0⟩ := s
  rw [show 127 + k = (k + 126) + 1 by omega]
  xmm_step fetch_676
  xmm_step fetch_677
  xmm_step fetch_678
  xmm_step fetch_679
  xmm_step fetch_680
  xmm_step fetch_681
  xmm_step fetch_682
  xmm_step fetch_683
  xmm_step fetch_684
  xmm_step fetch_685
  xmm_step fetch_686
  xmm_step fetch_687
  xmm_step fetch_688
  xmm_step fetch_689
  xmm_step fetch_690
  xmm_step fetch_691
  xmm_step fetch_692
  xmm_step fetch_693
  xmm_step fetch_694
  xmm_step fetch_695
  xmm_step fetch_696
  xmm_step fetch_697
  xmm_step fetch_698
  xmm_step fetch_699
  xmm_step fetch_700
  xmm_step fetch_701
  xmm_step fetch_702
  xmm_step fetch_703
  xmm_step fetch_704
  xmm_step fetch_705
  xmm_step fetch_706
  xmm_step fetch_707
  xmm_step fetch_708
  xmm_step fetch_709
  xmm_step fetch_710
  xmm_step fetch_711
  xmm_step fetch_712
  xmm_step fetch_713
  xmm_step fetch_714
  xmm_step fetch_715
  xmm_step fetch_716
  xmm_step fetch_717
  xmm_step fetch_718
  xmm_step fetch_719
  xmm_step fetch_720
  xmm_step fetch_721
  xmm_step fetch_722
  xmm_step fetch_723
  xmm_step fetch_724
  xmm_step fetch_725
  xmm_step fetch_726
  xmm_step fetch_727
  xmm_step fetch_728
  xmm_step fetch_729
  xmm_step fetch_730
  xmm_step fetch_731
  xmm_step fetch_732
  xmm_step fetch_733
  xmm_step fetch_734
  xmm_step fetch_735
  xmm_step fetch_736
  xmm_step fetch_737
  xmm_step fetch_738
  xmm_step fetch_739
  xmm_step fetch_740
  xmm_step fetch_741
  xmm_step fetch_742
  xmm_step fetch_743
  xmm_step fetch_744
  xmm_step fetch_745
  xmm_step fetch_746
  xmm_step fetch_747
  xmm_step fetch_748
  xmm_step fetch_749
  xmm_step fetch_750
  xmm_step fetch_751
  xmm_step fetch_752
  xmm_step fetch_753
  xmm_step fetch_754
  xmm_step fetch_755
  xmm_step fetch_756
  xmm_step fetch_757
  xmm_step fetch_758
  xmm_step fetch_759
  xmm_step fetch_760
  xmm_step fetch_761
  xmm_step fetch_762
  xmm_step fetch_763
  xmm_step fetch_764
  xmm_step fetch_765
  xmm_step fetch_766
  xmm_step fetch_767
  xmm_step fetch_768
  xmm_step fetch_769
  xmm_step fetch_770
  xmm_step fetch_771
  xmm_step fetch_772
  xmm_step fetch_773
  xmm_step fetch_774
  xmm_step fetch_775
  xmm_step fetch_776
  xmm_step fetch_777
  xmm_step fetch_778
  xmm_step fetch_779
  xmm_step fetch_780
  xmm_step fetch_781
  xmm_step fetch_782
  xmm_step fetch_783
  xmm_step fetch_784
  xmm_step fetch_785
  xmm_step fetch_786
  xmm_step fetch_787
  xmm_step fetch_788
  xmm_step fetch_789
  xmm_step fetch_790
  xmm_step fetch_791
  xmm_step fetch_792
  xmm_step fetch_793
  xmm_step fetch_794
  xmm_step fetch_795
  xmm_step fetch_796
  xmm_step fetch_797
  xmm_step fetch_798
  xmm_step fetch_799
  xmm_step fetch_800
  xmm_step fetch_801
  rw [run_step _ _ _ _ rfl fetch_802]
  simp only [step, Nat.reduceAdd]
  exact ⟨_, _, _, rfl⟩

theorem ja_true (n : UInt64) (h : 4 < n) : Cond.holds .a (decide (n < 4)) (n == 4) = true := by
  have h' := UInt64.lt_iff_toNat_lt.mp h
  have e : (4 : UInt64).toNat = 4 := rfl
  have h1 : ¬ n < 4 := by rw [UInt64.lt_iff_toNat_lt]; omega
  have h2 : n ≠ 4 := by intro h3; rw [h3] at h'; omega
  simp [Cond.holds, h1, h2]

theorem ja_false : Cond.holds .a (decide ((4 : UInt64) < 4)) ((4 : UInt64) == 4) = false := by decide

/-- `for (i = 0; i < 20; i += 4) row_body` is five passes -/
theorem forUpBy4_five (s : Diag) :
    Sodium.Model.SalsaSimd.forUpBy4 row_body Sodium.Model.SalsaSimd.ROUNDS 0 s = row_body (row_body (row_body (row_body (row_body s)))) := rfl

/-- the whole rounds loop: entered at `._mainloop2` with `%rcx = 20`, it leaves at index 803 (the feed-forward `paddd`s)
    after 635 instructions with `%xmm0..%xmm3` = the four diagonals after `ROUNDS` = 20 rounds -/
theorem mainloop2_rounds (rax rdx rbx rsp rbp rsi rdi r8 r9 r10 r11 r12 r13 r14 r15 : UInt64)
    (s : Diag) (x5 x6 x7 x8 x9 x10 x11 x12 x13 x14 x15 : V128) (cf zf : Bool) (mem : Mem) (k : Nat) :
    ∃ y4 y5 y6 y7 : V128,
    run prog (635 + k) { g := ⟨rax, 20, rdx, rbx, rsp, rbp, rsi, rdi, r8, r9, r10, r11, r12, r13, r14, r15⟩,
                         x := ⟨s.diag0, s.diag1, s.diag2, s.diag3, s.a0, x5, x6, x7, x8, x9, x10, x11, x12, x13, x14, x15⟩, cf := cf, zf := zf,
                         mem := mem, pc := 676, halted := false, fault := false } =
    run prog k { g := ⟨rax, 0, rdx, rbx, rsp, rbp, rsi, rdi, r8, r9, r10, r11, r12, r13, r14, r15⟩,
                 x := ⟨(Sodium.Model.SalsaSimd.forUpBy4 row_body Sodium.Model.SalsaSimd.ROUNDS 0 s).diag0,
                       (Sodium.Model.SalsaSimd.forUpBy4 row_body Sodium.Model.SalsaSimd.ROUNDS 0 s).diag1,
                       (Sodium.Model.SalsaSimd.forUpBy4 row_body Sodium.Model.SalsaSimd.ROUNDS 0 s).diag2,
                       (Sodium.Model.SalsaSimd.forUpBy4 row_body Sodium.Model.SalsaSimd.ROUNDS 0 s).diag3,
                       y4, y5, y6, y7, x8, x9, x10, x11, x12, x13, x14, x15⟩,
                 cf := false, zf := true, mem := mem, pc := 803, halted := false, fault := false } := by
  have s20 : (20 : UInt64) - 4 = 16 := by decide
  have s16 : (16 : UInt64) - 4 = 12 := by decide
  have s12 : (12 : UInt64) - 4 = 8 := by decide
  have s8 : (8 : UInt64) - 4 = 4 := by decide
  have s4 : (4 : UInt64) - 4 = 0 := by decide
  have c20 := ja_true 20 (by decide)
  have c16 := ja_true 16 (by decide)
  have c12 := ja_true 12 (by decide)
  have c8 := ja_true 8 (by decide)
  rw [forUpBy4_five]
  rw [show 635 + k = 127 + (508 + k) by omega]
  obtain ⟨a5, a6, a7, h⟩ := mainloop2_body ⟨rax, 20, rdx, rbx, rsp, rbp, rsi, rdi, r8, r9, r10, r11, r12, r13, r14, r15⟩
    s x5 x6 x7 x8 x9 x10 x11 x12 x13 x14 x15 cf zf mem (508 + k)
  rw [h]; clear h
  simp only [s20, c20, if_true]
  rw [show 508 + k = 127 + (381 + k) by omega]
  obtain ⟨b5, b6, b7, h⟩ := mainloop2_body ⟨rax, 16, rdx, rbx, rsp, rbp, rsi, rdi, r8, r9, r10, r11, r12, r13, r14, r15⟩
    (row_body s) a5 a6 a7 x8 x9 x10 x11 x12 x13 x14 x15 (decide ((20 : UInt64) < 4)) ((20 : UInt64) == 4) mem (381 + k)
  rw [h]; clear h
  simp only [s16, c16, if_true]
  rw [show 381 + k = 127 + (254 + k) by omega]
  obtain ⟨c5, c6, c7, h⟩ := mainloop2_body ⟨rax, 12, rdx, rbx, rsp, rbp, rsi, rdi, r8, r9, r10, r11, r12, r13, r14, r15⟩
    (row_body (row_body s)) b5 b6 b7 x8 x9 x10 x11 x12 x13 x14 x15 (decide ((16 : UInt64) < 4)) ((16 : UInt64) == 4) mem (254 + k)
  rw [h]; clear h
  simp only [s12, c12, if_true]
  rw [show 254 + k = 127 + (127 + k) by omega]
  obtain ⟨e5, e6, e7, h⟩ := mainloop2_body ⟨rax, 8, rdx, rbx, rsp, rbp, rsi, rdi, r8, r9, r10, r11, r12, r13, r14, r15⟩
    (row_body (row_body (row_body s))) c5 c6 c7 x8 x9 x10 x11 x12 x13 x14 x15 (decide ((12 : UInt64) < 4)) ((12 : UInt64) == 4) mem (127 + k)
  rw [h]; clear h
  simp only [s8, c8, if_true]
  obtain ⟨f5, f6, f7, h⟩ := mainloop2_body ⟨rax, 4, rdx, rbx, rsp, rbp, rsi, rdi, r8, r9, r10, r11, r12, r13, r14, r15⟩
    (row_body (row_body (row_body (row_body s)))) e5 e6 e7 x8 x9 x10 x11 x12 x13 x14 x15 (decide ((8 : UInt64) < 4)) ((8 : UInt64) == 4) mem k
  rw [h]; clear h
  simp only [s4, ja_false, Bool.false_eq_true, if_false]
  exact ⟨_, f5, f6, f7, by
    have e1 : decide ((4 : UInt64) < 4) = false := by decide
    have e2 : ((4 : UInt64) == 4) = true := by decide
    rw [e1, e2]⟩

end Sodium.X86SseP
