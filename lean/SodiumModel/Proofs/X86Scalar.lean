import Generated.Sandy2xAsm
import SodiumModel.Proofs.Fe51
/-
  Helper lemmas for `Properties/C05Asm.lean`: symbolic execution of the instruction lists that
  `tools_new/asm2lean.py` generates from `fe51_pack.S` (`Generated/Sandy2xAsm.lean`) through the
  interpreter of `Model/X86Scalar.lean`, and the limb algebra of the freeze.
-/
namespace Sodium.X86ScalarP
open Sodium Sodium.Model Sodium.Model.X86Scalar Sodium.Model.Fe51 Sodium.Fe51P Sodium.Spec
open Generated.Sandy2xAsm

/-- one pass of `._reduceloop` of fe51_pack.S on the five limb registers (rdx rcx r8 r9 rsi):
    carry 0→1→2→3→4, then 19·carry back into limb 0 -/
def packRound (f : Fe) : Fe :=
  let m : UInt64 := 0x7FFFFFFFFFFFF
  let l1 := f.l1 + (f.l0 >>> 51)
  let l0 := f.l0 &&& m
  let l2 := f.l2 + (l1 >>> 51)
  let l1 := l1 &&& m
  let l3 := f.l3 + (l2 >>> 51)
  let l2 := l2 &&& m
  let l4 := f.l4 + (l3 >>> 51)
  let l3 := l3 &&& m
  let l0 := l0 + (l4 >>> 51) * 19
  let l4 := l4 &&& m
  ⟨l0, l1, l2, l3, l4⟩

/-- the limb registers of fe51_pack.S -/
def limbs (s : State) : Fe := ⟨s.rdx, s.rcx, s.r8, s.r9, s.rsi⟩

/-- what a block leaves alone: memory, rsp, rdi, rax, r10, the untouched callee-saved registers, `ok` -/
def Same (s s' : State) : Prop :=
  s'.mem = s.mem ∧ s'.rsp = s.rsp ∧ s'.rdi = s.rdi ∧ s'.rax = s.rax ∧ s'.r10 = s.r10 ∧ s'.rbx = s.rbx ∧
  s'.rbp = s.rbp ∧ s'.r13 = s.r13 ∧ s'.r14 = s.r14 ∧ s'.r15 = s.r15 ∧ s'.ok = s.ok

theorem Same.trans {a b c : State} (h1 : Same a b) (h2 : Same b c) : Same a c := by
  unfold Same at *
  obtain ⟨a1, a2, a3, a4, a5, a6, a7, a8, a9, a10, a11⟩ := h1
  obtain ⟨b1, b2, b3, b4, b5, b6, b7, b8, b9, b10, b11⟩ := h2
  exact ⟨b1.trans a1, b2.trans a2, b3.trans a3, b4.trans a4, b5.trans a5, b6.trans a6, b7.trans a7,
    b8.trans a8, b9.trans a9, b10.trans a10, b11.trans a11⟩

/-- **symbolic execution of the loop body** (23 instructions, `mov %rdx,%r12` … `sub $1,%r11`) -/
theorem pack_body (s : State) (h : s.rax = 0x7FFFFFFFFFFFF) :
    limbs (run fe51_pack_b1 s) = packRound (limbs s) ∧ Same s (run fe51_pack_b1 s) ∧
    (run fe51_pack_b1 s).r11 = s.r11 - 1 ∧ (run fe51_pack_b1 s).fdef = true ∧
    (run fe51_pack_b1 s).cf = decide (s.r11.toNat < (1 : UInt64).toNat) ∧
    (run fe51_pack_b1 s).zf = (s.r11 - 1 == 0) := by
  simp only [fe51_pack_b1, run, step, stepAlu, State.read, State.write, State.get, State.set, State.flags,
    packRound, limbs, Same, h, and_self]

theorem loop_continue (n : Nat) (body : List Instr) (c : Cond) (s : State)
    (hf : (run body s).fdef = true) (hc : (run body s).cond c = true) :
    loop (n + 1) body c s = loop n body c (run body s) := by
  simp only [loop, State.useFlags, hf, if_true, hc]

theorem loop_exit (n : Nat) (body : List Instr) (c : Cond) (s : State)
    (hf : (run body s).fdef = true) (hc : (run body s).cond c = false) :
    loop (n + 1) body c s = some (run body s) := by
  simp only [loop, State.useFlags, hf, if_true, hc]; rfl

/-- **the loop of fe51_pack.S**: entered with `r11 = 3` it runs exactly three passes -/
theorem pack_loop (n : Nat) (s : State) (h : s.rax = 0x7FFFFFFFFFFFF) (hk : s.r11 = 3) :
    ∃ s', loop (n + 3) fe51_pack_b1 .a s = some s' ∧ limbs s' = packRound (packRound (packRound (limbs s))) ∧
      Same s s' ∧ s'.r11 = 0 := by
  obtain ⟨l1, m1, k1, f1, c1, z1⟩ := pack_body s h
  have h1 : (run fe51_pack_b1 s).rax = 0x7FFFFFFFFFFFF := by rw [m1.2.2.2.1, h]
  obtain ⟨l2, m2, k2, f2, c2, z2⟩ := pack_body _ h1
  have h2 : (run fe51_pack_b1 (run fe51_pack_b1 s)).rax = 0x7FFFFFFFFFFFF := by rw [m2.2.2.2.1, h1]
  obtain ⟨l3, m3, k3, f3, c3, z3⟩ := pack_body _ h2
  rw [hk] at k1 c1 z1
  rw [k1] at k2 c2 z2
  rw [k2] at k3 c3 z3
  refine ⟨run fe51_pack_b1 (run fe51_pack_b1 (run fe51_pack_b1 s)), ?_, ?_, (m1.trans m2).trans m3, ?_⟩
  · rw [show n + 3 = (n + 2) + 1 from rfl, loop_continue _ _ _ _ f1 (by simp only [State.cond, c1, z1]; decide),
      show n + 2 = (n + 1) + 1 from rfl, loop_continue _ _ _ _ f2 (by simp only [State.cond, c2, z2]; decide),
      loop_exit _ _ _ _ f3 (by simp only [State.cond, c3, z3]; decide)]
  · rw [l3, l2, l1]
  · rw [k3]; decide

/-! ### the limb algebra of one pass -/

theorem m51 (x : UInt64) : (x &&& 0x7FFFFFFFFFFFF).toNat = x.toNat % 2 ^ 51 := mask_toNat x

theorem add_shr (a b : UInt64) (ha : a.toNat < 2 ^ 63) : (a + (b >>> 51)).toNat = a.toNat + b.toNat / 2 ^ 51 := by
  have := b.toNat_lt
  rw [UInt64.toNat_add, shr51]; omega

theorem add_mul19 (a b : UInt64) :
    ((a &&& (0x7FFFFFFFFFFFF : UInt64)) + (b >>> 51) * 19).toNat = a.toNat % 2 ^ 51 + b.toNat / 2 ^ 51 * 19 := by
  have := b.toNat_lt
  rw [UInt64.toNat_add, UInt64.toNat_mul, m51, shr51, c19]; omega

/-- the limbs of `packRound f` as natural numbers, when no 64-bit addition wraps -/
theorem packRound_nat (f : Fe) (h1 : f.l1.toNat < 2 ^ 63) (h2 : f.l2.toNat < 2 ^ 63)
    (h3 : f.l3.toNat < 2 ^ 63) (h4 : f.l4.toNat < 2 ^ 63) :
    (packRound f).l0.toNat = f.l0.toNat % 2 ^ 51 + (f.l4.toNat + (f.l3.toNat + (f.l2.toNat + (f.l1.toNat + f.l0.toNat / 2 ^ 51) / 2 ^ 51) / 2 ^ 51) / 2 ^ 51) / 2 ^ 51 * 19 ∧
    (packRound f).l1.toNat = (f.l1.toNat + f.l0.toNat / 2 ^ 51) % 2 ^ 51 ∧
    (packRound f).l2.toNat = (f.l2.toNat + (f.l1.toNat + f.l0.toNat / 2 ^ 51) / 2 ^ 51) % 2 ^ 51 ∧
    (packRound f).l3.toNat = (f.l3.toNat + (f.l2.toNat + (f.l1.toNat + f.l0.toNat / 2 ^ 51) / 2 ^ 51) / 2 ^ 51) % 2 ^ 51 ∧
    (packRound f).l4.toNat = (f.l4.toNat + (f.l3.toNat + (f.l2.toNat + (f.l1.toNat + f.l0.toNat / 2 ^ 51) / 2 ^ 51) / 2 ^ 51) / 2 ^ 51) % 2 ^ 51 := by
  simp only [packRound, m51, add_mul19, add_shr, h1, h2, h3, h4, and_self]

/-- first pass: limbs below 2^63 → limb 0 below 2^51 + 2^18, the others carried; the value changes by a multiple of p -/
theorem round_first (f : Fe) (h : Bounded (2 ^ 63) f) :
    (packRound f).l0.toNat < 2 ^ 51 + 2 ^ 18 ∧ (packRound f).l1.toNat < 2 ^ 51 ∧ (packRound f).l2.toNat < 2 ^ 51 ∧
    (packRound f).l3.toNat < 2 ^ 51 ∧ (packRound f).l4.toNat < 2 ^ 51 ∧
    ∃ c, val (packRound f) + c * (2 ^ 255 - 19) = val f := by
  obtain ⟨h0, h1, h2, h3, h4⟩ := h
  obtain ⟨e0, e1, e2, e3, e4⟩ := packRound_nat f h1 h2 h3 h4
  refine ⟨by omega, by omega, by omega, by omega, by omega,
    (f.l4.toNat + (f.l3.toNat + (f.l2.toNat + (f.l1.toNat + f.l0.toNat / 2 ^ 51) / 2 ^ 51) / 2 ^ 51) / 2 ^ 51) / 2 ^ 51, ?_⟩
  simp only [val, e0, e1, e2, e3, e4]
  omega

/-- a further pass: limb 0 below 2^52 and the others below 2^51 → fully carried -/
theorem round_next (f : Fe) (h0 : f.l0.toNat < 2 ^ 51 + 2 ^ 18) (h1 : f.l1.toNat < 2 ^ 51) (h2 : f.l2.toNat < 2 ^ 51)
    (h3 : f.l3.toNat < 2 ^ 51) (h4 : f.l4.toNat < 2 ^ 51) :
    Bounded (2 ^ 51) (packRound f) ∧ ∃ c, val (packRound f) + c * (2 ^ 255 - 19) = val f := by
  obtain ⟨e0, e1, e2, e3, e4⟩ := packRound_nat f (by omega) (by omega) (by omega) (by omega)
  refine ⟨⟨by omega, by omega, by omega, by omega, by omega⟩,
    (f.l4.toNat + (f.l3.toNat + (f.l2.toNat + (f.l1.toNat + f.l0.toNat / 2 ^ 51) / 2 ^ 51) / 2 ^ 51) / 2 ^ 51) / 2 ^ 51, ?_⟩
  simp only [val, e0, e1, e2, e3, e4]
  omega

end Sodium.X86ScalarP
