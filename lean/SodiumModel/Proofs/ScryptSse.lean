import SodiumModel.Model.ScryptSse
import SodiumModel.Proofs.ScryptRef
/-
  Helper lemmas for Properties/C08ScryptSse.lean, part 1: the SSE2 Salsa20/8 core on the shuffled layout, the generic
  "one block per step" run of the two blockmix functions, `blockmix_salsa8`, `blockmix_salsa8_xor`, `integerify`.
-/
namespace Sodium.ScryptSseP
open Sodium Sodium.Model Sodium.Model.ScryptSse Sodium.Spec Sodium.ScryptRefP
open Sodium.Model.ChachaSimd (V128 mm_add_epi32 mm_xor_si128 mm_slli_epi32 mm_srli_epi32 mm_shuffle_epi32)

/-! ### rotations built with XOR -/

theorem xo7 (x : UInt32) : (x <<< 7) ^^^ (x >>> 25) = (x <<< 7) ||| (x >>> 25) := by
  apply UInt32.eq_of_toBitVec_eq; apply BitVec.eq_of_getLsbD_eq; intro i hi; simp
  by_cases h : i < 7
  · simp [h]
  · have : x.toBitVec.getLsbD (25 + i) = false := BitVec.getLsbD_of_ge _ _ (by omega)
    simp [this]
theorem xo9 (x : UInt32) : (x <<< 9) ^^^ (x >>> 23) = (x <<< 9) ||| (x >>> 23) := by
  apply UInt32.eq_of_toBitVec_eq; apply BitVec.eq_of_getLsbD_eq; intro i hi; simp
  by_cases h : i < 9
  · simp [h]
  · have : x.toBitVec.getLsbD (23 + i) = false := BitVec.getLsbD_of_ge _ _ (by omega)
    simp [this]
theorem xo13 (x : UInt32) : (x <<< 13) ^^^ (x >>> 19) = (x <<< 13) ||| (x >>> 19) := by
  apply UInt32.eq_of_toBitVec_eq; apply BitVec.eq_of_getLsbD_eq; intro i hi; simp
  by_cases h : i < 13
  · simp [h]
  · have : x.toBitVec.getLsbD (19 + i) = false := BitVec.getLsbD_of_ge _ _ (by omega)
    simp [this]
theorem xo18 (x : UInt32) : (x <<< 18) ^^^ (x >>> 14) = (x <<< 18) ||| (x >>> 14) := by
  apply UInt32.eq_of_toBitVec_eq; apply BitVec.eq_of_getLsbD_eq; intro i hi; simp
  by_cases h : i < 18
  · simp [h]
  · have : x.toBitVec.getLsbD (14 + i) = false := BitVec.getLsbD_of_ge _ _ (by omega)
    simp [this]

/-- one lane of `ARX`: `o ^= R(a + b, k)` -/
def arx (o a b : UInt32) (k : UInt32) : UInt32 := o ^^^ Scrypt.R (a + b) k

theorem ARX7 (o a b : V128) : ARX o a b 7 = ⟨arx o.e0 a.e0 b.e0 7, arx o.e1 a.e1 b.e1 7, arx o.e2 a.e2 b.e2 7, arx o.e3 a.e3 b.e3 7⟩ := by
  simp only [ARX, mm_add_epi32, mm_xor_si128, mm_slli_epi32, mm_srli_epi32, V128.zip32, V128.map32, arx, Scrypt.R]
  simp [UInt32.xor_assoc, xo7]
theorem ARX9 (o a b : V128) : ARX o a b 9 = ⟨arx o.e0 a.e0 b.e0 9, arx o.e1 a.e1 b.e1 9, arx o.e2 a.e2 b.e2 9, arx o.e3 a.e3 b.e3 9⟩ := by
  simp only [ARX, mm_add_epi32, mm_xor_si128, mm_slli_epi32, mm_srli_epi32, V128.zip32, V128.map32, arx, Scrypt.R]
  simp [UInt32.xor_assoc, xo9]
theorem ARX13 (o a b : V128) : ARX o a b 13 = ⟨arx o.e0 a.e0 b.e0 13, arx o.e1 a.e1 b.e1 13, arx o.e2 a.e2 b.e2 13, arx o.e3 a.e3 b.e3 13⟩ := by
  simp only [ARX, mm_add_epi32, mm_xor_si128, mm_slli_epi32, mm_srli_epi32, V128.zip32, V128.map32, arx, Scrypt.R]
  simp [UInt32.xor_assoc, xo13]
theorem ARX18 (o a b : V128) : ARX o a b 18 = ⟨arx o.e0 a.e0 b.e0 18, arx o.e1 a.e1 b.e1 18, arx o.e2 a.e2 b.e2 18, arx o.e3 a.e3 b.e3 18⟩ := by
  simp only [ARX, mm_add_epi32, mm_xor_si128, mm_slli_epi32, mm_srli_epi32, V128.zip32, V128.map32, arx, Scrypt.R]
  simp [UInt32.xor_assoc, xo18]

/-! ### the layout: memory word `t` of a 64-byte block holds word `5 t mod 16` of the Salsa20 block -/

/-- the 16 memory words of `X0..X3` (`X0` first) -/
def toWords (x : Regs) : Array UInt32 :=
  #[x.X0.e0, x.X0.e1, x.X0.e2, x.X0.e3, x.X1.e0, x.X1.e1, x.X1.e2, x.X1.e3,
    x.X2.e0, x.X2.e1, x.X2.e2, x.X2.e3, x.X3.e0, x.X3.e1, x.X3.e2, x.X3.e3]

/-- the Salsa20 block held by `X0..X3`: word `j` is memory word `13 j mod 16` (`5 · 13 ≡ 1`) -/
def diag (x : Regs) : Array UInt32 :=
  #[x.X0.e0, x.X3.e1, x.X2.e2, x.X1.e3, x.X1.e0, x.X0.e1, x.X3.e2, x.X2.e3, x.X2.e0, x.X1.e1, x.X0.e2, x.X3.e3,
    x.X3.e0, x.X2.e1, x.X1.e2, x.X0.e3]

theorem diag_size (x : Regs) : (diag x).size = 16 := rfl
theorem toWords_size (x : Regs) : (toWords x).size = 16 := rfl

theorem toWords_getD (x : Regs) (j : Nat) (hj : j < 16) : (toWords x).getD j 0 = (diag x).getD (j * 5 % 16) 0 := by
  repeat (rcases j with _ | j; · rfl)
  omega

theorem diag_getD (x : Regs) (j : Nat) (hj : j < 16) : (diag x).getD j 0 = (toWords x).getD (j * 13 % 16) 0 := by
  repeat (rcases j with _ | j; · rfl)
  omega

/-- `SALSA20_2ROUNDS` is one double round of RFC 7914 §3 on the block held by the registers -/
theorem two_rounds (x : Regs) : diag (SALSA20_2ROUNDS x) = Scrypt.doubleRound (diag x) := by
  obtain ⟨⟨a0, a1, a2, a3⟩, ⟨b0, b1, b2, b3⟩, ⟨c0, c1, c2, c3⟩, ⟨d0, d1, d2, d3⟩⟩ := x
  simp only [SALSA20_2ROUNDS, ARX7, ARX9, ARX13, ARX18, mm_shuffle_epi32, V128.lane]
  simp [diag, Scrypt.doubleRound, Scrypt.quarter, Scrypt.step, arx]

/-! ### SALSA20_8_XOR as a function on registers -/

/-- `(in)[0..3]` -/
def ld4 (M : Array UInt32) (p : Nat) : Regs := ⟨ld128 M (p + 4 * 0), ld128 M (p + 4 * 1), ld128 M (p + 4 * 2), ld128 M (p + 4 * 3)⟩
def xorR (x z : Regs) : Regs := ⟨mm_xor_si128 x.X0 z.X0, mm_xor_si128 x.X1 z.X1, mm_xor_si128 x.X2 z.X2, mm_xor_si128 x.X3 z.X3⟩
/-- the Salsa20/8 core on registers: `Y = X`; four `SALSA20_2ROUNDS`; `X += Y` -/
def salsaX (x : Regs) : Regs :=
  let y := SALSA20_2ROUNDS (SALSA20_2ROUNDS (SALSA20_2ROUNDS (SALSA20_2ROUNDS x)))
  ⟨mm_add_epi32 y.X0 x.X0, mm_add_epi32 y.X1 x.X1, mm_add_epi32 y.X2 x.X2, mm_add_epi32 y.X3 x.X3⟩
/-- `(out)[0..3] = X0..X3` -/
def st4 (M : Array UInt32) (p : Nat) (x : Regs) : Array UInt32 :=
  st128 (st128 (st128 (st128 M (p + 4 * 0) x.X0) (p + 4 * 1) x.X1) (p + 4 * 2) x.X2) (p + 4 * 3) x.X3

theorem SALSA20_8_XOR_eq (M : Array UInt32) (x : Regs) (inp out : Nat) :
    SALSA20_8_XOR M x inp out = (st4 M out (salsaX (xorR x (ld4 M inp))), salsaX (xorR x (ld4 M inp))) := rfl
theorem XOR4_eq (M : Array UInt32) (x : Regs) (inp : Nat) : XOR4 M x inp = xorR x (ld4 M inp) := rfl
theorem XOR4_2_eq (M : Array UInt32) (a b : Nat) : XOR4_2 M a b = xorR (ld4 M a) (ld4 M b) := rfl

theorem diag_salsaX (x : Regs) : diag (salsaX x) = Scrypt.salsa20_8 (diag x) := by
  have h : diag (SALSA20_2ROUNDS (SALSA20_2ROUNDS (SALSA20_2ROUNDS (SALSA20_2ROUNDS x)))) =
      Scrypt.doubleRound (Scrypt.doubleRound (Scrypt.doubleRound (Scrypt.doubleRound (diag x)))) := by
    rw [two_rounds, two_rounds, two_rounds, two_rounds]
  unfold Scrypt.salsa20_8 salsaX
  simp only []
  rw [← h]
  generalize SALSA20_2ROUNDS (SALSA20_2ROUNDS (SALSA20_2ROUNDS (SALSA20_2ROUNDS x))) = y
  simp [diag, mm_add_epi32, V128.zip32]

theorem diag_xorR (x z : Regs) : diag (xorR x z) = Scrypt.xorWords (diag x) (diag z) := by
  simp [diag, xorR, Scrypt.xorWords, mm_xor_si128, V128.zip32]

theorem xorR_assoc (x a b : Regs) : xorR (xorR x a) b = xorR x (xorR a b) := by
  simp [xorR, mm_xor_si128, V128.zip32, UInt32.xor_assoc]

theorem st4_eq_iter (M : Array UInt32) (p : Nat) (x : Regs) :
    st4 M p x = iter (fun j d => d.setIfInBounds (p + j) ((fun j (_ : UInt32) => (toWords x).getD j 0) j (d.getD (p + j) 0))) 16 0 M := by
  rfl

theorem st4_size (M : Array UInt32) (p : Nat) (x : Regs) : (st4 M p x).size = M.size := by
  rw [st4_eq_iter]; exact iter_set_size p (fun j _ => (toWords x).getD j 0) 0 16 0 M

theorem st4_getD (M : Array UInt32) (p : Nat) (x : Regs) (t : Nat) (hp : p + 16 ≤ M.size) :
    (st4 M p x).getD t 0 = if p ≤ t ∧ t < p + 16 then (toWords x).getD (t - p) 0 else M.getD t 0 := by
  rw [st4_eq_iter, iter_set_getD p (fun j _ => (toWords x).getD j 0) 0 16 0 M t]
  by_cases h : p ≤ t ∧ t < p + 16
  · rw [if_pos (by omega), if_pos h]
  · rw [if_neg (by omega), if_neg h]

end Sodium.ScryptSseP
