import SodiumModel.Model.SalsaSimd
import SodiumModel.Proofs.ChachaSimd
import SodiumModel.Proofs.CoresRef
import SodiumModel.Proofs.Stream
/-
  Helper lemmas for `Properties/C03SalsaSimd.lean`, part 1: the rounds and the four strides of the vectorised
  Salsa20 (xmm6int u0/u1/u4/u8, `Model/SalsaSimd.lean`) against `salsaDoubleRound` / the block of the reference
  model `Model/CoresRef.lean`. Buffer / store lemmas are those of `Proofs/ChachaSimd.lean`.
-/
open Sodium Sodium.Model Sodium.Model.CoresRef Sodium.Model.SalsaSimd Sodium.Spec Sodium.CoresRefP Sodium.ChachaSimdP
open Sodium.Model.ChachaSimd hiding ROUNDS row_block u1_iter u1_loop u0 u4_doubleRound u4_counters u4_ONEQUAD u4_iter
  u4_loop u8_doubleRound u8_counters u8_ONEQUAD_UNPCK u8_ONEOCTO u8_iter u8_loop u1_iter_inplace u4_ONEQUAD_inplace
  u4_iter_inplace u8_iter_inplace Impl avx2
namespace Sodium.SalsaSimdP

/-! ### `z ^= t << k; z ^= t >> (32 - k)` is `z ^= rotl(t, k)` -/

theorem xor_eq_or_9 (x : UInt32) : (x <<< 9) ^^^ (x >>> 23) = (x <<< 9) ||| (x >>> 23) := by
  apply UInt32.eq_of_toBitVec_eq
  apply BitVec.eq_of_getLsbD_eq
  intro i hi
  simp
  by_cases h : i < 9
  · simp [h]
  · have : x.toBitVec.getLsbD (23 + i) = false := BitVec.getLsbD_of_ge _ _ (by omega)
    simp [this]
theorem xor_eq_or_13 (x : UInt32) : (x <<< 13) ^^^ (x >>> 19) = (x <<< 13) ||| (x >>> 19) := by
  apply UInt32.eq_of_toBitVec_eq
  apply BitVec.eq_of_getLsbD_eq
  intro i hi
  simp
  by_cases h : i < 13
  · simp [h]
  · have : x.toBitVec.getLsbD (19 + i) = false := BitVec.getLsbD_of_ge _ _ (by omega)
    simp [this]
theorem xor_eq_or_18 (x : UInt32) : (x <<< 18) ^^^ (x >>> 14) = (x <<< 18) ||| (x >>> 14) := by
  apply UInt32.eq_of_toBitVec_eq
  apply BitVec.eq_of_getLsbD_eq
  intro i hi
  simp
  by_cases h : i < 18
  · simp [h]
  · have : x.toBitVec.getLsbD (14 + i) = false := BitVec.getLsbD_of_ge _ _ (by omega)
    simp [this]
theorem rx7 (z t : UInt32) : (z ^^^ (t <<< 7)) ^^^ (t >>> 25) = z ^^^ ROTL32 t 7 := by
  rw [UInt32.xor_assoc, ChachaSimdP.xor_eq_or_7]; rfl
theorem rx9 (z t : UInt32) : (z ^^^ (t <<< 9)) ^^^ (t >>> 23) = z ^^^ ROTL32 t 9 := by
  rw [UInt32.xor_assoc, xor_eq_or_9]; rfl
theorem rx13 (z t : UInt32) : (z ^^^ (t <<< 13)) ^^^ (t >>> 19) = z ^^^ ROTL32 t 13 := by
  rw [UInt32.xor_assoc, xor_eq_or_13]; rfl
theorem rx18 (z t : UInt32) : (z ^^^ (t <<< 18)) ^^^ (t >>> 14) = z ^^^ ROTL32 t 18 := by
  rw [UInt32.xor_assoc, xor_eq_or_18]; rfl

/-- all additions of the vector code have their operands in the opposite order to `core_salsa_ref.c` -/
theorem lane_add {ℓ : V128 → UInt32} (h : IsLane ℓ) (a b : V128) : ℓ (mm_add_epi32 a b) = ℓ b + ℓ a := by
  rw [UInt32.add_comm]; exact h.zip _ a b
theorem lane256_add {ℓ : M256 → UInt32} (h : IsLane256 ℓ) (a b : M256) : ℓ (mm256_add_epi32 a b) = ℓ b + ℓ a := by
  obtain ⟨al, ah⟩ := a
  obtain ⟨bl, bh⟩ := b
  rw [UInt32.add_comm]; exact h.zip _ al ah bl bh
theorem vadd (a b : V128) : mm_add_epi32 a b = ⟨b.e0 + a.e0, b.e1 + a.e1, b.e2 + a.e2, b.e3 + a.e3⟩ := by
  simp only [mm_add_epi32, V128.zip32, UInt32.add_comm]
theorem lane_rx7 {ℓ : V128 → UInt32} (h : IsLane ℓ) (z t : V128) :
    ℓ (mm_xor_si128 (mm_xor_si128 z (mm_slli_epi32 t 7)) (mm_srli_epi32 t 25)) = ℓ z ^^^ ROTL32 (ℓ t) 7 := by
  simp only [mm_xor_si128, mm_slli_epi32, mm_srli_epi32, h.zip, h.map]
  simp +decide only [if_false, rx7]
theorem lane256_rx7 {ℓ : M256 → UInt32} (h : IsLane256 ℓ) (z t : M256) :
    ℓ (mm256_xor_si256 (mm256_xor_si256 z (mm256_slli_epi32 t 7)) (mm256_srli_epi32 t 25)) = ℓ z ^^^ ROTL32 (ℓ t) 7 := by
  obtain ⟨zl, zh⟩ := z
  obtain ⟨tl, th⟩ := t
  simp only [mm256_xor_si256, mm256_slli_epi32, mm256_srli_epi32, mm_xor_si128, mm_slli_epi32, mm_srli_epi32, h.zip, h.map]
  simp +decide only [if_false, rx7]
theorem vrx7 (z t : V128) : mm_xor_si128 (mm_xor_si128 z (mm_slli_epi32 t 7)) (mm_srli_epi32 t 25) =
    ⟨z.e0 ^^^ ROTL32 t.e0 7, z.e1 ^^^ ROTL32 t.e1 7, z.e2 ^^^ ROTL32 t.e2 7, z.e3 ^^^ ROTL32 t.e3 7⟩ := by
  simp only [mm_xor_si128, mm_slli_epi32, mm_srli_epi32, V128.zip32, V128.map32]
  simp +decide only [if_false, rx7]
theorem lane_rx9 {ℓ : V128 → UInt32} (h : IsLane ℓ) (z t : V128) :
    ℓ (mm_xor_si128 (mm_xor_si128 z (mm_slli_epi32 t 9)) (mm_srli_epi32 t 23)) = ℓ z ^^^ ROTL32 (ℓ t) 9 := by
  simp only [mm_xor_si128, mm_slli_epi32, mm_srli_epi32, h.zip, h.map]
  simp +decide only [if_false, rx9]
theorem lane256_rx9 {ℓ : M256 → UInt32} (h : IsLane256 ℓ) (z t : M256) :
    ℓ (mm256_xor_si256 (mm256_xor_si256 z (mm256_slli_epi32 t 9)) (mm256_srli_epi32 t 23)) = ℓ z ^^^ ROTL32 (ℓ t) 9 := by
  obtain ⟨zl, zh⟩ := z
  obtain ⟨tl, th⟩ := t
  simp only [mm256_xor_si256, mm256_slli_epi32, mm256_srli_epi32, mm_xor_si128, mm_slli_epi32, mm_srli_epi32, h.zip, h.map]
  simp +decide only [if_false, rx9]
theorem vrx9 (z t : V128) : mm_xor_si128 (mm_xor_si128 z (mm_slli_epi32 t 9)) (mm_srli_epi32 t 23) =
    ⟨z.e0 ^^^ ROTL32 t.e0 9, z.e1 ^^^ ROTL32 t.e1 9, z.e2 ^^^ ROTL32 t.e2 9, z.e3 ^^^ ROTL32 t.e3 9⟩ := by
  simp only [mm_xor_si128, mm_slli_epi32, mm_srli_epi32, V128.zip32, V128.map32]
  simp +decide only [if_false, rx9]
theorem lane_rx13 {ℓ : V128 → UInt32} (h : IsLane ℓ) (z t : V128) :
    ℓ (mm_xor_si128 (mm_xor_si128 z (mm_slli_epi32 t 13)) (mm_srli_epi32 t 19)) = ℓ z ^^^ ROTL32 (ℓ t) 13 := by
  simp only [mm_xor_si128, mm_slli_epi32, mm_srli_epi32, h.zip, h.map]
  simp +decide only [if_false, rx13]
theorem lane256_rx13 {ℓ : M256 → UInt32} (h : IsLane256 ℓ) (z t : M256) :
    ℓ (mm256_xor_si256 (mm256_xor_si256 z (mm256_slli_epi32 t 13)) (mm256_srli_epi32 t 19)) = ℓ z ^^^ ROTL32 (ℓ t) 13 := by
  obtain ⟨zl, zh⟩ := z
  obtain ⟨tl, th⟩ := t
  simp only [mm256_xor_si256, mm256_slli_epi32, mm256_srli_epi32, mm_xor_si128, mm_slli_epi32, mm_srli_epi32, h.zip, h.map]
  simp +decide only [if_false, rx13]
theorem vrx13 (z t : V128) : mm_xor_si128 (mm_xor_si128 z (mm_slli_epi32 t 13)) (mm_srli_epi32 t 19) =
    ⟨z.e0 ^^^ ROTL32 t.e0 13, z.e1 ^^^ ROTL32 t.e1 13, z.e2 ^^^ ROTL32 t.e2 13, z.e3 ^^^ ROTL32 t.e3 13⟩ := by
  simp only [mm_xor_si128, mm_slli_epi32, mm_srli_epi32, V128.zip32, V128.map32]
  simp +decide only [if_false, rx13]
theorem lane_rx18 {ℓ : V128 → UInt32} (h : IsLane ℓ) (z t : V128) :
    ℓ (mm_xor_si128 (mm_xor_si128 z (mm_slli_epi32 t 18)) (mm_srli_epi32 t 14)) = ℓ z ^^^ ROTL32 (ℓ t) 18 := by
  simp only [mm_xor_si128, mm_slli_epi32, mm_srli_epi32, h.zip, h.map]
  simp +decide only [if_false, rx18]
theorem lane256_rx18 {ℓ : M256 → UInt32} (h : IsLane256 ℓ) (z t : M256) :
    ℓ (mm256_xor_si256 (mm256_xor_si256 z (mm256_slli_epi32 t 18)) (mm256_srli_epi32 t 14)) = ℓ z ^^^ ROTL32 (ℓ t) 18 := by
  obtain ⟨zl, zh⟩ := z
  obtain ⟨tl, th⟩ := t
  simp only [mm256_xor_si256, mm256_slli_epi32, mm256_srli_epi32, mm_xor_si128, mm_slli_epi32, mm_srli_epi32, h.zip, h.map]
  simp +decide only [if_false, rx18]
theorem vrx18 (z t : V128) : mm_xor_si128 (mm_xor_si128 z (mm_slli_epi32 t 18)) (mm_srli_epi32 t 14) =
    ⟨z.e0 ^^^ ROTL32 t.e0 18, z.e1 ^^^ ROTL32 t.e1 18, z.e2 ^^^ ROTL32 t.e2 18, z.e3 ^^^ ROTL32 t.e3 18⟩ := by
  simp only [mm_xor_si128, mm_slli_epi32, mm_srli_epi32, V128.zip32, V128.map32]
  simp +decide only [if_false, rx18]

/-! ### u4.h / u8.h: one loop body = one reference double round on every lane -/

set_option maxRecDepth 8000 in
theorem u4_doubleRound_lane (ℓ : V128 → UInt32) (h : IsLane ℓ) (X : X16 V128) :
    laneW16 ℓ (SalsaSimd.u4_doubleRound X) = salsaDoubleRound (laneW16 ℓ X) := by
  simp only [SalsaSimd.u4_doubleRound, laneW16, salsaDoubleRound, lane_rx7 h, lane_rx9 h, lane_rx13 h, lane_rx18 h,
    lane_add h]

set_option maxRecDepth 8000 in
theorem u8_doubleRound_lane (ℓ : M256 → UInt32) (h : IsLane256 ℓ) (X : X16 M256) :
    laneW16 ℓ (SalsaSimd.u8_doubleRound X) = salsaDoubleRound (laneW16 ℓ X) := by
  simp only [SalsaSimd.u8_doubleRound, laneW16, salsaDoubleRound, lane256_rx7 h, lane256_rx9 h, lane256_rx13 h,
    lane256_rx18 h, lane256_add h]

/-! ### u1.h / u0.h: the diagonal form -/

/-- the first half (u1.h lines 15-85, 62 statements) of `row_body`; the second half (lines 87-157) is the same text -/
def row_half (s : Diag) : Diag :=
  let ⟨diag0, diag1, diag2, diag3, a0⟩ := s
  let a0 := mm_add_epi32 a0 diag0
  let a1 := diag0
  let b0 := a0
  let a0 := mm_slli_epi32 a0 7
  let b0 := mm_srli_epi32 b0 25
  let diag3 := mm_xor_si128 diag3 a0
  let diag3 := mm_xor_si128 diag3 b0
  let a1 := mm_add_epi32 a1 diag3
  let a2 := diag3
  let b1 := a1
  let a1 := mm_slli_epi32 a1 9
  let b1 := mm_srli_epi32 b1 23
  let diag2 := mm_xor_si128 diag2 a1
  let diag3 := mm_shuffle_epi32 diag3 0x93
  let diag2 := mm_xor_si128 diag2 b1
  let a2 := mm_add_epi32 a2 diag2
  let a3 := diag2
  let b2 := a2
  let a2 := mm_slli_epi32 a2 13
  let b2 := mm_srli_epi32 b2 19
  let diag1 := mm_xor_si128 diag1 a2
  let diag2 := mm_shuffle_epi32 diag2 0x4e
  let diag1 := mm_xor_si128 diag1 b2
  let a3 := mm_add_epi32 a3 diag1
  let a4 := diag3
  let b3 := a3
  let a3 := mm_slli_epi32 a3 18
  let b3 := mm_srli_epi32 b3 14
  let diag0 := mm_xor_si128 diag0 a3
  let diag1 := mm_shuffle_epi32 diag1 0x39
  let diag0 := mm_xor_si128 diag0 b3
  let a4 := mm_add_epi32 a4 diag0
  let a5 := diag0
  let b4 := a4
  let a4 := mm_slli_epi32 a4 7
  let b4 := mm_srli_epi32 b4 25
  let diag1 := mm_xor_si128 diag1 a4
  let diag1 := mm_xor_si128 diag1 b4
  let a5 := mm_add_epi32 a5 diag1
  let a6 := diag1
  let b5 := a5
  let a5 := mm_slli_epi32 a5 9
  let b5 := mm_srli_epi32 b5 23
  let diag2 := mm_xor_si128 diag2 a5
  let diag1 := mm_shuffle_epi32 diag1 0x93
  let diag2 := mm_xor_si128 diag2 b5
  let a6 := mm_add_epi32 a6 diag2
  let a7 := diag2
  let b6 := a6
  let a6 := mm_slli_epi32 a6 13
  let b6 := mm_srli_epi32 b6 19
  let diag3 := mm_xor_si128 diag3 a6
  let diag2 := mm_shuffle_epi32 diag2 0x4e
  let diag3 := mm_xor_si128 diag3 b6
  let a7 := mm_add_epi32 a7 diag3
  let a0 := diag1
  let b7 := a7
  let a7 := mm_slli_epi32 a7 18
  let b7 := mm_srli_epi32 b7 14
  let diag0 := mm_xor_si128 diag0 a7
  let diag3 := mm_shuffle_epi32 diag3 0x39
  let diag0 := mm_xor_si128 diag0 b7
  ⟨diag0, diag1, diag2, diag3, a0⟩

theorem row_body_eq (s : Diag) : row_body s = row_half (row_half s) := rfl

/-- the sixteen STANDARD Salsa20 words as the four diagonal registers (and `a0 = diag1`) -/
def diagOf (w : W16) : Diag :=
  ⟨⟨w.x0, w.x5, w.x10, w.x15⟩, ⟨w.x12, w.x1, w.x6, w.x11⟩, ⟨w.x8, w.x13, w.x2, w.x7⟩, ⟨w.x4, w.x9, w.x14, w.x3⟩,
   ⟨w.x12, w.x1, w.x6, w.x11⟩⟩

set_option maxRecDepth 8000 in
/-- half a loop body of u1.h / u0.h (column round on the diagonals, lane rotations 0x93 / 0x4e / 0x39, row round,
    rotations back) is one reference double round -/
theorem row_half_spec (w : W16) : row_half (diagOf w) = diagOf (salsaDoubleRound w) := by
  simp only [row_half, diagOf, salsaDoubleRound, vrx7, vrx9, vrx13, vrx18, vadd, shuf93, shuf4e, shuf39]

theorem row_body_spec (w : W16) : row_body (diagOf w) = diagOf (salsaDoubleRound (salsaDoubleRound w)) := by
  rw [row_body_eq, row_half_spec, row_half_spec]

/-! ### contexts, counters, blocks -/

/-- memory order ↔ standard word order: word `i` of one is word `TR[i]` of the other (`TR` is an involution) -/
def tpose (x : W16) : W16 :=
  ⟨x.x0, x.x5, x.x10, x.x15, x.x12, x.x1, x.x6, x.x11, x.x8, x.x13, x.x2, x.x7, x.x4, x.x9, x.x14, x.x3⟩

theorem tpose_tpose (x : W16) : tpose (tpose x) = x := rfl

/-- the words of the keystream block of the STANDARD-order state `j`: ten double rounds, plus the input words
    (`crypto_core_salsa` before serialisation) -/
def ksWords (j : W16) : W16 := W16.zipWith (· + ·) (Chacha.iter salsaDoubleRound 10 j) j

/-- the 64 output bytes of one block of the (memory-order) context `x` on the message at `m` -/
def blk (x : W16) (m : Bytes) : Bytes := W16.store (W16.zipWith XOR (ksWords (tpose x)) (W16.load m))

/-- the 64-bit number `x[8] | x[13] << 32` -/
def qOf (x : W16) : UInt64 := x.x8.toUInt64 ||| (x.x13.toUInt64 <<< 32)

/-- context `x` with the 64-bit number `n` in words 8 (low) and 13 (high) -/
def withCtr (x : W16) (n : UInt64) : W16 := { x with x8 := n.toUInt32, x13 := (n >>> 32).toUInt32 }

/-- `in8 = x[8]; in9 = x[13]; in8++; if (in8 == 0) in9++; x[8] = in8; x[13] = in9` -/
def ctrStep (x : W16) : W16 := { x with x8 := x.x8 + 1, x13 := if x.x8 + 1 = 0 then x.x13 + 1 else x.x13 }

theorem withCtr_qOf (x : W16) : withCtr x (qOf x) = x := by
  simp only [withCtr, qOf, q_lo, q_hi]

theorem withCtr_withCtr (x : W16) (a b : UInt64) : withCtr (withCtr x a) b = withCtr x b := rfl

theorem qOf_withCtr (x : W16) (n : UInt64) : qOf (withCtr x n) = n := q_join n

theorem ctrStep_withCtr (x : W16) (n : UInt64) : ctrStep (withCtr x n) = withCtr x (n + 1) := by
  simp only [ctrStep, withCtr, W16.mk.injEq, true_and, and_true]
  exact ctr_step n

theorem blk_length (x : W16) (m : Bytes) : (blk x m).length = 64 := rfl

/-- `n` blocks in a row with the counter stepped after each: the bytes written and the context afterwards -/
def blocksN : Nat → W16 → Bytes → Bytes × W16
  | 0, x, _ => ([], x)
  | n + 1, x, m =>
    let s := blocksN n (ctrStep x) (m.drop 64)
    (blk x m ++ s.1, s.2)

/-! ### loops -/

theorem forUpBy4_rounds {α : Type} (body : α → α) (x : α) :
    forUpBy4 body SalsaSimd.ROUNDS 0 x = Chacha.iter body 5 x := rfl

theorem forUpBy2_rounds {α : Type} (body : α → α) (x : α) :
    ChachaSimd.forUpBy2 body SalsaSimd.ROUNDS 0 x = Chacha.iter body 10 x := rfl

theorem iter_double {α : Type} (f : α → α) (n : Nat) (x : α) :
    Chacha.iter (fun s => f (f s)) n x = Chacha.iter f (2 * n) x := by
  induction n generalizing x with
  | zero => rfl
  | succ n ih =>
    have : 2 * (n + 1) = 2 * n + 1 + 1 := by omega
    rw [this]
    simp only [Chacha.iter, ih]

/-! ### u1.h / u0.h -/

theorem row_block_spec (x : W16) :
    (row_block x).diag0 = ⟨(ksWords (tpose x)).x0, (ksWords (tpose x)).x5, (ksWords (tpose x)).x10, (ksWords (tpose x)).x15⟩ ∧
    (row_block x).diag1 = ⟨(ksWords (tpose x)).x12, (ksWords (tpose x)).x1, (ksWords (tpose x)).x6, (ksWords (tpose x)).x11⟩ ∧
    (row_block x).diag2 = ⟨(ksWords (tpose x)).x8, (ksWords (tpose x)).x13, (ksWords (tpose x)).x2, (ksWords (tpose x)).x7⟩ ∧
    (row_block x).diag3 = ⟨(ksWords (tpose x)).x4, (ksWords (tpose x)).x9, (ksWords (tpose x)).x14, (ksWords (tpose x)).x3⟩ := by
  have h := iter_conj row_body (fun w => salsaDoubleRound (salsaDoubleRound w)) diagOf row_body_spec 5 (tpose x)
  rw [iter_double] at h
  have h0 : (⟨⟨x.x0, x.x1, x.x2, x.x3⟩, ⟨x.x4, x.x5, x.x6, x.x7⟩, ⟨x.x8, x.x9, x.x10, x.x11⟩, ⟨x.x12, x.x13, x.x14, x.x15⟩,
      ⟨x.x4, x.x5, x.x6, x.x7⟩⟩ : Diag) = diagOf (tpose x) := rfl
  simp only [row_block, loadu_words, forUpBy4_rounds, h0, h]
  simp only [diagOf, ksWords, W16.zipWith, mm_add_epi32, V128.zip32, tpose, and_self]

/-- the sixteen 4-byte stores of the four `ONEQUAD`s of u1.h / u0.h, in program order, fill 64 bytes -/
theorem store16x4 (c : Bytes) (w0 w1 w2 w3 w4 w5 w6 w7 w8 w9 w10 w11 w12 w13 w14 w15 : UInt32) (hc : 64 ≤ c.length) :
    storeBytes (storeBytes (storeBytes (storeBytes (storeBytes (storeBytes (storeBytes (storeBytes
    (storeBytes (storeBytes (storeBytes (storeBytes (storeBytes (storeBytes (storeBytes (storeBytes c
      0 (store32_le w0)) 48 (store32_le w12)) 32 (store32_le w8)) 16 (store32_le w4))
      20 (store32_le w5)) 4 (store32_le w1)) 52 (store32_le w13)) 36 (store32_le w9))
      40 (store32_le w10)) 24 (store32_le w6)) 8 (store32_le w2)) 56 (store32_le w14))
      60 (store32_le w15)) 44 (store32_le w11)) 28 (store32_le w7)) 12 (store32_le w3) =
    W16.store ⟨w0, w1, w2, w3, w4, w5, w6, w7, w8, w9, w10, w11, w12, w13, w14, w15⟩ ++ c.drop 64 := by
  have := storeAll_aligned 4 16 c [(0, store32_le w0), (48, store32_le w12), (32, store32_le w8), (16, store32_le w4),
      (20, store32_le w5), (4, store32_le w1), (52, store32_le w13), (36, store32_le w9),
      (40, store32_le w10), (24, store32_le w6), (8, store32_le w2), (56, store32_le w14),
      (60, store32_le w15), (44, store32_le w11), (28, store32_le w7), (12, store32_le w3)]
      (by simp [store32_le_length]) hc
  have r16 : List.range 16 = [0, 1, 2, 3, 4, 5, 6, 7, 8, 9, 10, 11, 12, 13, 14, 15] := by decide
  simp only [storeAll] at this
  rw [this]
  simp [r16, lastStore, W16.store]

/-- u1.h, one iteration: the 64 bytes at `c` become the block of context `x` on `m`, the rest of the buffer is
    untouched, and the counter words are stepped -/
theorem u1_iter_spec (x : W16) (m c : Bytes) (hc : 64 ≤ c.length) :
    u1_iter x m c = (blk x m ++ c.drop 64, ctrStep x) := by
  obtain ⟨h0, h1, h2, h3⟩ := row_block_spec x
  simp only [u1_iter, u1_ONEQUAD, h0, h1, h2, h3, shuf39, mm_cvtsi128_si32, store_u32, Nat.reduceMul]
  refine Prod.ext ?_ rfl
  simp only []
  rw [store16x4 c _ _ _ _ _ _ _ _ _ _ _ _ _ _ _ _ hc]
  simp only [blk, W16.zipWith, W16.load, XOR, List.drop_zero]

/-- u0.h: the first `bytes` bytes at `c` become `m XOR` the keystream block of context `x` -/
theorem u0_spec (x : W16) (m c : Bytes) (hm : m.length ≤ 64) (hc : m.length ≤ c.length) :
    (SalsaSimd.u0 x m c).take m.length = xorBytes m (W16.store (ksWords (tpose x))) := by
  by_cases h0 : m.length > 0
  · obtain ⟨h0', h1, h2, h3⟩ := row_block_spec x
    simp only [SalsaSimd.u0, if_pos h0, u0_ONEQUAD, h0', h1, h2, h3, shuf39, mm_cvtsi128_si32, store_u32, Nat.reduceMul]
    rw [store16x4 _ _ _ _ _ _ _ _ _ _ _ _ _ _ _ _ _ (by rw [zeros64_len]; exact Nat.le_refl _)]
    have hd : (zeros 64).drop 64 = [] := by decide
    rw [hd, List.append_nil, u0_xorloop_spec m _ c hc (by show m.length ≤ 64; exact hm)]
  · have : m = [] := List.eq_nil_of_length_eq_zero (by omega)
    subst this; simp [xorBytes_nil_left]

/-! ### u4.h -/

theorem u4_counters_eq : SalsaSimd.u4_counters = ChachaSimd.u4_counters := rfl
theorem u8_counters_eq : SalsaSimd.u8_counters = ChachaSimd.u8_counters := rfl

/-- the broadcast registers of u4.h: `orig<i>` holds STANDARD word `i` = `x[TR[i]]` in all four lanes -/
theorem u4_origs_spec (x : W16) :
    u4_origs x = ⟨mm_set1_epi32 x.x0, mm_set1_epi32 x.x5, mm_set1_epi32 x.x10, mm_set1_epi32 x.x15,
      mm_set1_epi32 x.x12, mm_set1_epi32 x.x1, mm_set1_epi32 x.x6, mm_set1_epi32 x.x11,
      ⟨0, 0, 0, 0⟩, ⟨0, 0, 0, 0⟩, mm_set1_epi32 x.x2, mm_set1_epi32 x.x7,
      mm_set1_epi32 x.x4, mm_set1_epi32 x.x9, mm_set1_epi32 x.x14, mm_set1_epi32 x.x3⟩ := by
  simp only [u4_origs, loadu_words]
  rfl

theorem blocksN_4 (j : W16) (n : UInt64) (m : Bytes) :
    blocksN 4 (withCtr j n) m =
      (blk (withCtr j n) m ++ (blk (withCtr j (n + 1)) (m.drop 64) ++ (blk (withCtr j (n + 2)) (m.drop 128) ++
        blk (withCtr j (n + 3)) (m.drop 192))), withCtr j (n + 4)) := by
  simp only [blocksN, ctrStep_withCtr, List.drop_drop, List.append_nil,
    UInt64.add_assoc, Nat.reduceAdd, UInt64.reduceAdd]

/-- u4.h, one iteration: the 256 bytes at `c` become four consecutive blocks (counters n, n+1, n+2, n+3 as 64-bit
    numbers), the rest of the buffer is untouched, the context counter is advanced by 4 -/
theorem u4_iter_spec (x : W16) (m c : Bytes) (hc : 64 * 4 ≤ c.length) :
    SalsaSimd.u4_iter x m c = ((blocksN 4 x m).1 ++ c.drop (64 * 4), (blocksN 4 x m).2) := by
  have hx : blocksN 4 x m = blocksN 4 (withCtr x (qOf x)) m := by rw [withCtr_qOf]
  rw [hx, blocksN_4]
  simp only [SalsaSimd.u4_iter, u4_counters_eq, u4_counters_spec, forUpBy2_rounds, u4_origs_spec]
  generalize hX0 : (X16.mk (mm_set1_epi32 x.x0) _ _ _ _ _ _ _ _ _ _ _ _ _ _ _) = X0
  have h0 : laneW16 V128.e0 X0 = tpose (withCtr x (qOf x)) := by subst hX0; rfl
  have h1 : laneW16 V128.e1 X0 = tpose (withCtr x (qOf x + 1)) := by subst hX0; rfl
  have h2 : laneW16 V128.e2 X0 = tpose (withCtr x (qOf x + 2)) := by subst hX0; rfl
  have h3 : laneW16 V128.e3 X0 = tpose (withCtr x (qOf x + 3)) := by subst hX0; rfl
  have L := fun ℓ (h : IsLane ℓ) =>
    iter_proj SalsaSimd.u4_doubleRound salsaDoubleRound (laneW16 ℓ) (u4_doubleRound_lane ℓ h) 10 X0
  have L0 := L _ isLane_e0; have L1 := L _ isLane_e1; have L2 := L _ isLane_e2; have L3 := L _ isLane_e3
  rw [h0] at L0; rw [h1] at L1; rw [h2] at L2; rw [h3] at L3
  clear L h0 h1 h2 h3 hX0
  generalize Chacha.iter SalsaSimd.u4_doubleRound 10 X0 = X at *
  simp only [SalsaSimd.u4_ONEQUAD, mm_storeu_si128, Nat.add_zero, Nat.zero_add, Nat.reduceAdd]
  rw [store16_u4' c _ _ _ _ _ _ _ _ _ _ _ _ _ _ _ _ hc]
  simp only [blk, ksWords, ← L0, ← L1, ← L2, ← L3, mask32]
  simp only [laneW16, withCtr, qOf, tpose, W16.zipWith, W16.load, W16.store, XOR, V128.toBytes, mm_xor_si128, mm_add_epi32,
    V128.zip32, mm_loadu_si128, V128.ofBytes, unpacklo_epi64_eq, unpackhi_epi64_eq, mm_unpacklo_epi32,
    mm_unpackhi_epi32, mm_set1_epi32, List.drop_drop, List.drop_zero, Nat.reduceAdd, Nat.reduceMul, List.append_assoc]

/-! ### u8.h -/

theorem blocksN_8 (j : W16) (n : UInt64) (m : Bytes) :
    blocksN 8 (withCtr j n) m =
      (blk (withCtr j n) m ++ (blk (withCtr j (n + 1)) (m.drop 64) ++ (blk (withCtr j (n + 2)) (m.drop 128) ++
        (blk (withCtr j (n + 3)) (m.drop 192) ++ (blk (withCtr j (n + 4)) (m.drop 256) ++
        (blk (withCtr j (n + 5)) (m.drop 320) ++ (blk (withCtr j (n + 6)) (m.drop 384) ++
        blk (withCtr j (n + 7)) (m.drop 448))))))), withCtr j (n + 8)) := by
  simp only [blocksN, ctrStep_withCtr, List.drop_drop, List.append_nil,
    UInt64.add_assoc, Nat.reduceAdd, UInt64.reduceAdd]

/-- u8.h, one iteration: the 512 bytes at `c` become eight consecutive blocks, the rest of the buffer is
    untouched, the context counter is advanced by 8 -/
theorem u8_iter_spec (x : W16) (m c : Bytes) (hc : 64 * 8 ≤ c.length) :
    SalsaSimd.u8_iter x m c = ((blocksN 8 x m).1 ++ c.drop (64 * 8), (blocksN 8 x m).2) := by
  have hx : blocksN 8 x m = blocksN 8 (withCtr x (qOf x)) m := by rw [withCtr_qOf]
  rw [hx, blocksN_8]
  simp only [SalsaSimd.u8_iter, u8_counters_eq, u8_counters_spec, forUpBy2_rounds, u8_origs]
  generalize hX0 : (X16.mk (mm256_set1_epi32 x.x0) _ _ _ _ _ _ _ _ _ _ _ _ _ _ _) = X0
  have h0 : laneW16 (fun v : M256 => v.lo.e0) X0 = tpose (withCtr x (qOf x)) := by subst hX0; rfl
  have h1 : laneW16 (fun v : M256 => v.lo.e1) X0 = tpose (withCtr x (qOf x + 1)) := by subst hX0; rfl
  have h2 : laneW16 (fun v : M256 => v.lo.e2) X0 = tpose (withCtr x (qOf x + 2)) := by subst hX0; rfl
  have h3 : laneW16 (fun v : M256 => v.lo.e3) X0 = tpose (withCtr x (qOf x + 3)) := by subst hX0; rfl
  have h4 : laneW16 (fun v : M256 => v.hi.e0) X0 = tpose (withCtr x (qOf x + 4)) := by subst hX0; rfl
  have h5 : laneW16 (fun v : M256 => v.hi.e1) X0 = tpose (withCtr x (qOf x + 5)) := by subst hX0; rfl
  have h6 : laneW16 (fun v : M256 => v.hi.e2) X0 = tpose (withCtr x (qOf x + 6)) := by subst hX0; rfl
  have h7 : laneW16 (fun v : M256 => v.hi.e3) X0 = tpose (withCtr x (qOf x + 7)) := by subst hX0; rfl
  have L := fun ℓ (h : IsLane256 ℓ) =>
    iter_proj SalsaSimd.u8_doubleRound salsaDoubleRound (laneW16 ℓ) (u8_doubleRound_lane ℓ h) 10 X0
  have L0 := L _ isLane256_0; have L1 := L _ isLane256_1; have L2 := L _ isLane256_2; have L3 := L _ isLane256_3
  have L4 := L _ isLane256_4; have L5 := L _ isLane256_5; have L6 := L _ isLane256_6; have L7 := L _ isLane256_7
  rw [h0] at L0; rw [h1] at L1; rw [h2] at L2; rw [h3] at L3
  rw [h4] at L4; rw [h5] at L5; rw [h6] at L6; rw [h7] at L7
  clear L h0 h1 h2 h3 h4 h5 h6 h7 hX0
  generalize Chacha.iter SalsaSimd.u8_doubleRound 10 X0 = X at *
  simp only [SalsaSimd.u8_ONEOCTO, SalsaSimd.u8_ONEQUAD_UNPCK, mm256_storeu_si256, Nat.add_zero, Nat.zero_add, Nat.reduceAdd]
  rw [store16_u8 c _ _ _ _ _ _ _ _ _ _ _ _ _ _ _ _ hc]
  simp only [blk, ksWords, ← L0, ← L1, ← L2, ← L3, ← L4, ← L5, ← L6, ← L7, mask32]
  simp only [laneW16, withCtr, qOf, tpose, W16.zipWith, W16.load, W16.store, XOR, M256.toBytes, V128.toBytes,
    perm20, perm31, mm256_xor_si256, mm256_add_epi32, mm256_loadu_si256, M256.ofBytes,
    mm256_unpacklo_epi32, mm256_unpackhi_epi32, mm256_unpacklo_epi64, mm256_unpackhi_epi64, mm256_set1_epi32,
    mm_xor_si128, mm_add_epi32,
    V128.zip32, V128.ofBytes, unpacklo_epi64_eq, unpackhi_epi64_eq, mm_unpacklo_epi32,
    mm_unpackhi_epi32, mm_set1_epi32, List.drop_drop, List.drop_zero, Nat.reduceAdd, List.append_assoc, Nat.reduceMul]
end Sodium.SalsaSimdP
