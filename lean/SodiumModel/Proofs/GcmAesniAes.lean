import SodiumModel.Model.GcmAesni
import SodiumModel.Spec.Aes
/-
  AES part of the AES-NI AES-256-GCM model (`Model/GcmAesni.lean`) against FIPS-197 (`Spec/Aes.lean`).

  A. register / byte-image lemmas (`STORE128`/`LOAD128` round trips, `XOR128` = `xorBytes`);
  B. `rounds` / `encrypt` / `encrypt_xor_block` / `encrypt_xor_wide` = `Aes.cipher` on the byte images of the
     round keys;
  C. `expand256` (AESKEYGENASSIST / PSLLDQ / PSHUFD key schedule) = `Aes.keyExpansion256`.
  Core Lean only.
-/
open Sodium Sodium.Spec Sodium.Model.GcmAesni
namespace Sodium.GcmAesniP.AesK

/-! ## A -/

theorem le_lt : ∀ b : Bytes, le b < 256 ^ b.length
  | [] => by simp [le]
  | x :: xs => by
    have := le_lt xs
    have hx := x.toNat_lt
    simp only [le, List.length_cons, Nat.pow_succ]
    omega

theorem toLE_length (n v : Nat) : (toLE n v).length = n := by
  induction n generalizing v with
  | zero => rfl
  | succ n ih => simp [toLE, ih]

theorem le_toLE (n v : Nat) : le (toLE n v) = v % 256 ^ n := by
  induction n generalizing v with
  | zero => simp [toLE, le, Nat.mod_one]
  | succ n ih =>
    simp only [toLE, le, ih, Nat.pow_succ]
    have : (UInt8.ofNat (v % 256)).toNat = v % 256 := by simp
    rw [this, Nat.mul_comm (256 ^ n) 256, Nat.mod_mul]

theorem toLE_le : ∀ (b : Bytes), toLE b.length (le b) = b
  | [] => rfl
  | x :: xs => by
    have hx := x.toNat_lt
    simp only [List.length_cons, toLE, le]
    have h1 : (x.toNat + 256 * le xs) % 256 = x.toNat := by omega
    have h2 : (x.toNat + 256 * le xs) / 256 = le xs := by omega
    rw [h1, h2, toLE_le xs]
    simp

theorem toLE_xor (n a b : Nat) : toLE n (a ^^^ b) = xorBytes (toLE n a) (toLE n b) := by
  induction n generalizing a b with
  | zero => rfl
  | succ n ih =>
    simp only [toLE, xorBytes]
    have h2 : (a ^^^ b) / 256 = a / 256 ^^^ b / 256 := by
      have := Nat.shiftRight_xor_distrib (a := a) (b := b) (i := 8)
      simpa [Nat.shiftRight_eq_div_pow] using this
    have h1 : UInt8.ofNat ((a ^^^ b) % 256) = UInt8.ofNat (a % 256) ^^^ UInt8.ofNat (b % 256) := by
      apply UInt8.toNat_inj.mp
      have := Nat.xor_mod_two_pow (a := a) (b := b) (n := 8)
      simpa using this
    rw [h1, h2, ih]

theorem STORE128_length (v : BlockVec) : (STORE128 v).length = 16 := toLE_length _ _

theorem STORE128_LOAD128 (b : Bytes) (h : b.length = 16) : STORE128 (LOAD128 b) = b := by
  unfold STORE128 LOAD128 mm_storeu_si128 mm_loadu_si128
  have ht : b.take 16 = b := by rw [← h]; exact List.take_length
  have hl := le_lt b
  rw [h] at hl
  rw [ht, BitVec.toNat_ofNat, Nat.mod_eq_of_lt (by omega)]
  have := toLE_le b
  rwa [h] at this

theorem LOAD128_STORE128 (v : BlockVec) : LOAD128 (STORE128 v) = v := by
  unfold STORE128 LOAD128 mm_storeu_si128 mm_loadu_si128
  have ht : (toLE 16 v.toNat).take 16 = toLE 16 v.toNat := by
    conv => lhs; arg 1; rw [← toLE_length 16 v.toNat]
    exact List.take_length
  rw [ht, le_toLE]
  apply BitVec.eq_of_toNat_eq
  have := v.isLt
  simp only [BitVec.toNat_ofNat]
  omega

theorem STORE128_XOR128 (a b : BlockVec) : STORE128 (XOR128 a b) = xorBytes (STORE128 a) (STORE128 b) := by
  unfold STORE128 XOR128 mm_storeu_si128 mm_xor_si128
  rw [BitVec.toNat_xor, toLE_xor]


/-! ## B -/

theorem len16 (s : Bytes) (h : s.length = 16) :
    ∃ s0 s1 s2 s3 s4 s5 s6 s7 s8 s9 s10 s11 s12 s13 s14 s15,
      s = [s0, s1, s2, s3, s4, s5, s6, s7, s8, s9, s10, s11, s12, s13, s14, s15] := by
  match s, h with
  | [s0, s1, s2, s3, s4, s5, s6, s7, s8, s9, s10, s11, s12, s13, s14, s15], _ =>
    exact ⟨s0, s1, s2, s3, s4, s5, s6, s7, s8, s9, s10, s11, s12, s13, s14, s15, rfl⟩

theorem aesRound_length (s rk : Bytes) (hs : s.length = 16) (hr : rk.length = 16) :
    (Aes.aesRound s rk).length = 16 := by
  obtain ⟨s0, s1, s2, s3, s4, s5, s6, s7, s8, s9, s10, s11, s12, s13, s14, s15, rfl⟩ := len16 s hs
  obtain ⟨r0, r1, r2, r3, r4, r5, r6, r7, r8, r9, r10, r11, r12, r13, r14, r15, rfl⟩ := len16 rk hr
  rfl

theorem aesFinalRound_length (s rk : Bytes) (hs : s.length = 16) (hr : rk.length = 16) :
    (Aes.aesFinalRound s rk).length = 16 := by
  obtain ⟨s0, s1, s2, s3, s4, s5, s6, s7, s8, s9, s10, s11, s12, s13, s14, s15, rfl⟩ := len16 s hs
  obtain ⟨r0, r1, r2, r3, r4, r5, r6, r7, r8, r9, r10, r11, r12, r13, r14, r15, rfl⟩ := len16 rk hr
  rfl

theorem STORE128_AES_ENCRYPT (t rk : BlockVec) :
    STORE128 (AES_ENCRYPT t rk) = Aes.aesRound (STORE128 t) (STORE128 rk) :=
  STORE128_LOAD128 _ (aesRound_length _ _ (STORE128_length t) (STORE128_length rk))

theorem STORE128_AES_ENCRYPTLAST (t rk : BlockVec) :
    STORE128 (AES_ENCRYPTLAST t rk) = Aes.aesFinalRound (STORE128 t) (STORE128 rk) :=
  STORE128_LOAD128 _ (aesFinalRound_length _ _ (STORE128_length t) (STORE128_length rk))

theorem rounds_eq (rkeys : List BlockVec) (h : rkeys.length = 15) (t : BlockVec) :
    STORE128 (rounds rkeys t) = Aes.cipher (rkeys.map STORE128) (STORE128 t) := by
  match rkeys, h with
  | [k0, k1, k2, k3, k4, k5, k6, k7, k8, k9, k10, k11, k12, k13, k14], _ =>
    simp only [rounds, ROUNDS, List.range', List.foldl, List.getD_cons_zero, List.getD_cons_succ,
      Aes.cipher, List.map, List.dropLast, List.getLastD, Aes.addRoundKey,
      STORE128_AES_ENCRYPTLAST, STORE128_AES_ENCRYPT, STORE128_XOR128]
    rfl

theorem encrypt_eq (st : State) (h : st.rkeys.length = 15) (src : Bytes) (hs : src.length = 16) :
    encrypt st src = Aes.cipher (st.rkeys.map STORE128) src := by
  unfold encrypt
  rw [rounds_eq _ h, STORE128_LOAD128 _ hs]

theorem LOAD128_take (src : Bytes) : LOAD128 (src.take 16) = LOAD128 src := by
  unfold LOAD128 mm_loadu_si128
  rw [List.take_take]; rfl

theorem encrypt_xor_block_eq (st : State) (h : st.rkeys.length = 15) (src : Bytes) (hs : 16 ≤ src.length)
    (counter : BlockVec) :
    encrypt_xor_block st src counter
      = xorBytes (Aes.cipher (st.rkeys.map STORE128) (STORE128 counter)) (src.take 16) := by
  unfold encrypt_xor_block
  simp only
  rw [STORE128_XOR128, rounds_eq _ h, ← LOAD128_take, STORE128_LOAD128 _ (by simp; omega)]

theorem foldl_map_range {α β : Type} (d : α) (n : Nat) (f : α → β → α) (g : Nat → α) (L : List β) :
    L.foldl (fun ts i => (List.range n).map fun j => f (ts.getD j d) i) ((List.range n).map g)
      = (List.range n).map fun j => L.foldl f (g j) := by
  induction L generalizing g with
  | nil => rfl
  | cons x xs ih =>
    simp only [List.foldl_cons]
    have : ((List.range n).map fun j => f (((List.range n).map g).getD j d) x)
        = (List.range n).map fun j => f (g j) x := by
      apply List.map_congr_left
      intro j hj
      have hj' : j < n := List.mem_range.mp hj
      simp [List.getD_eq_getElem?_getD, hj']
    rw [this, ih]

set_option linter.unusedVariables false in
theorem encrypt_xor_wide_eq (st : State) (h : st.rkeys.length = 15) (src : Bytes) (hs : 112 ≤ src.length)
    (counters : List BlockVec) (hc : counters.length = 7) :
    encrypt_xor_wide st src counters
      = ((List.range 7).map fun j => encrypt_xor_block st (src.drop (16 * j)) (counters.getD j 0)).flatten := by
  unfold encrypt_xor_wide
  simp only [PARALLEL_BLOCKS]
  rw [foldl_map_range (0 : BlockVec) 7 (fun t i => AES_ENCRYPT t (st.rkeys.getD i 0))
    (fun j => XOR128 (counters.getD j 0) (st.rkeys.getD 0 0))]
  apply congrArg List.flatten
  apply List.map_congr_left
  intro j hj
  have hj' : j < 7 := List.mem_range.mp hj
  have e : ∀ (g : Nat → BlockVec), ((List.range 7).map g).getD j 0 = g j := by
    intro g; simp [List.getD_eq_getElem?_getD, hj']
  rw [e, e]
  rfl


/-! ## C -/

theorem LOAD128_16 (x0 x1 x2 x3 x4 x5 x6 x7 x8 x9 x10 x11 x12 x13 x14 x15 : UInt8) :
    LOAD128 [x0, x1, x2, x3, x4, x5, x6, x7, x8, x9, x10, x11, x12, x13, x14, x15]
      = BitVec.ofNat 128 (le [x0, x1, x2, x3, x4, x5, x6, x7, x8, x9, x10, x11, x12, x13, x14, x15]) := rfl

theorem BYTESHL128_4 (x0 x1 x2 x3 x4 x5 x6 x7 x8 x9 x10 x11 x12 x13 x14 x15 : UInt8) :
    BYTESHL128 (LOAD128 [x0, x1, x2, x3, x4, x5, x6, x7, x8, x9, x10, x11, x12, x13, x14, x15]) 4
      = LOAD128 [0, 0, 0, 0, x0, x1, x2, x3, x4, x5, x6, x7, x8, x9, x10, x11] := by
  rw [LOAD128_16, LOAD128_16]
  unfold BYTESHL128 mm_slli_si128
  apply BitVec.eq_of_toNat_eq
  have hx0 := x0.toNat_lt
  have hx1 := x1.toNat_lt
  have hx2 := x2.toNat_lt
  have hx3 := x3.toNat_lt
  have hx4 := x4.toNat_lt
  have hx5 := x5.toNat_lt
  have hx6 := x6.toNat_lt
  have hx7 := x7.toNat_lt
  have hx8 := x8.toNat_lt
  have hx9 := x9.toNat_lt
  have hx10 := x10.toNat_lt
  have hx11 := x11.toNat_lt
  have hx12 := x12.toNat_lt
  have hx13 := x13.toNat_lt
  have hx14 := x14.toNat_lt
  have hx15 := x15.toNat_lt
  simp [BitVec.toNat_shiftLeft, BitVec.toNat_ofNat, le, Nat.shiftLeft_eq]
  omega

theorem BYTESHL128_8 (x0 x1 x2 x3 x4 x5 x6 x7 x8 x9 x10 x11 x12 x13 x14 x15 : UInt8) :
    BYTESHL128 (LOAD128 [x0, x1, x2, x3, x4, x5, x6, x7, x8, x9, x10, x11, x12, x13, x14, x15]) 8
      = LOAD128 [0, 0, 0, 0, 0, 0, 0, 0, x0, x1, x2, x3, x4, x5, x6, x7] := by
  rw [LOAD128_16, LOAD128_16]
  unfold BYTESHL128 mm_slli_si128
  apply BitVec.eq_of_toNat_eq
  have hx0 := x0.toNat_lt
  have hx1 := x1.toNat_lt
  have hx2 := x2.toNat_lt
  have hx3 := x3.toNat_lt
  have hx4 := x4.toNat_lt
  have hx5 := x5.toNat_lt
  have hx6 := x6.toNat_lt
  have hx7 := x7.toNat_lt
  have hx8 := x8.toNat_lt
  have hx9 := x9.toNat_lt
  have hx10 := x10.toNat_lt
  have hx11 := x11.toNat_lt
  have hx12 := x12.toNat_lt
  have hx13 := x13.toNat_lt
  have hx14 := x14.toNat_lt
  have hx15 := x15.toNat_lt
  simp [BitVec.toNat_shiftLeft, BitVec.toNat_ofNat, le, Nat.shiftLeft_eq]
  omega

theorem lane32_3 (A B : Nat) (hA : A < 2 ^ 96) (hB : B < 2 ^ 32) :
    lane32 (BitVec.ofNat 128 (A + 2 ^ 96 * B)) 3 = B := by
  unfold lane32
  simp only [BitVec.toNat_ofNat, Nat.shiftRight_eq_div_pow]
  omega

theorem lane32_2 (A B C : Nat) (hA : A < 2 ^ 64) (hB : B < 2 ^ 32) :
    lane32 (BitVec.ofNat 128 (A + 2 ^ 64 * B + 2 ^ 96 * C)) 2 = B := by
  unfold lane32
  simp only [BitVec.toNat_ofNat, Nat.shiftRight_eq_div_pow]
  omega

theorem SHUFFLE32x4_3333 (x0 x1 x2 x3 x4 x5 x6 x7 x8 x9 x10 x11 x12 x13 x14 x15 : UInt8) :
    SHUFFLE32x4 (LOAD128 [x0, x1, x2, x3, x4, x5, x6, x7, x8, x9, x10, x11, x12, x13, x14, x15]) 3 3 3 3
      = LOAD128 [x12, x13, x14, x15, x12, x13, x14, x15, x12, x13, x14, x15, x12, x13, x14, x15] := by
  rw [LOAD128_16, LOAD128_16]
  have hA : le [x0, x1, x2, x3, x4, x5, x6, x7, x8, x9, x10, x11] < 2 ^ 96 := by
    have := le_lt [x0, x1, x2, x3, x4, x5, x6, x7, x8, x9, x10, x11]; simpa using this
  have hB : le [x12, x13, x14, x15] < 2 ^ 32 := by
    have := le_lt [x12, x13, x14, x15]; simpa using this
  have hN : le [x0, x1, x2, x3, x4, x5, x6, x7, x8, x9, x10, x11, x12, x13, x14, x15]
      = le [x0, x1, x2, x3, x4, x5, x6, x7, x8, x9, x10, x11] + 2 ^ 96 * le [x12, x13, x14, x15] := by
    simp only [le]; omega
  generalize le [x0, x1, x2, x3, x4, x5, x6, x7, x8, x9, x10, x11] = A at *
  generalize hBe : le [x12, x13, x14, x15] = B at *
  rw [hN]
  have hl := lane32_3 A B hA hB
  unfold SHUFFLE32x4 mm_shuffle_epi32 MM_SHUFFLE
  simp only [Nat.reduceMul, Nat.reduceAdd, Nat.reduceMod, Nat.reduceDiv, hl]
  apply congrArg (BitVec.ofNat 128)
  rw [← hBe]; simp only [le]; omega

theorem SHUFFLE32x4_2222 (x0 x1 x2 x3 x4 x5 x6 x7 x8 x9 x10 x11 x12 x13 x14 x15 : UInt8) :
    SHUFFLE32x4 (LOAD128 [x0, x1, x2, x3, x4, x5, x6, x7, x8, x9, x10, x11, x12, x13, x14, x15]) 2 2 2 2
      = LOAD128 [x8, x9, x10, x11, x8, x9, x10, x11, x8, x9, x10, x11, x8, x9, x10, x11] := by
  rw [LOAD128_16, LOAD128_16]
  have hA : le [x0, x1, x2, x3, x4, x5, x6, x7] < 2 ^ 64 := by
    have := le_lt [x0, x1, x2, x3, x4, x5, x6, x7]; simpa using this
  have hB : le [x8, x9, x10, x11] < 2 ^ 32 := by
    have := le_lt [x8, x9, x10, x11]; simpa using this
  have hN : le [x0, x1, x2, x3, x4, x5, x6, x7, x8, x9, x10, x11, x12, x13, x14, x15]
      = le [x0, x1, x2, x3, x4, x5, x6, x7] + 2 ^ 64 * le [x8, x9, x10, x11]
        + 2 ^ 96 * le [x12, x13, x14, x15] := by
    simp only [le]; omega
  generalize le [x0, x1, x2, x3, x4, x5, x6, x7] = A at *
  generalize hBe : le [x8, x9, x10, x11] = B at *
  generalize le [x12, x13, x14, x15] = C at *
  rw [hN]
  have hl := lane32_2 A B C hA hB
  unfold SHUFFLE32x4 mm_shuffle_epi32 MM_SHUFFLE
  simp only [Nat.reduceMul, Nat.reduceAdd, Nat.reduceMod, Nat.reduceDiv, hl]
  apply congrArg (BitVec.ofNat 128)
  rw [← hBe]; simp only [le]; omega

theorem AES_KEYGEN_16 (rc x0 x1 x2 x3 x4 x5 x6 x7 x8 x9 x10 x11 x12 x13 x14 x15 : UInt8) :
    AES_KEYGEN (LOAD128 [x0, x1, x2, x3, x4, x5, x6, x7, x8, x9, x10, x11, x12, x13, x14, x15]) rc
      = LOAD128 [Aes.subByte x4, Aes.subByte x5, Aes.subByte x6, Aes.subByte x7,
          Aes.subByte x5 ^^^ rc, Aes.subByte x6 ^^^ 0, Aes.subByte x7 ^^^ 0, Aes.subByte x4 ^^^ 0,
          Aes.subByte x12, Aes.subByte x13, Aes.subByte x14, Aes.subByte x15,
          Aes.subByte x13 ^^^ rc, Aes.subByte x14 ^^^ 0, Aes.subByte x15 ^^^ 0, Aes.subByte x12 ^^^ 0] := by
  unfold AES_KEYGEN mm_aeskeygenassist_si128
  have := STORE128_LOAD128 [x0, x1, x2, x3, x4, x5, x6, x7, x8, x9, x10, x11, x12, x13, x14, x15] rfl
  unfold STORE128 LOAD128 at this
  unfold LOAD128
  simp only [this, List.drop_succ_cons, List.drop_zero, List.take_succ_cons, List.take_zero, Aes.subWord,
    Aes.rotWord, List.map_cons, List.map_nil, List.cons_append, List.nil_append, xorBytes]

theorem XOR128_LOAD128 (a b : Bytes) (ha : a.length = 16) (hb : b.length = 16) :
    XOR128 (LOAD128 a) (LOAD128 b) = LOAD128 (xorBytes a b) := by
  rw [← LOAD128_STORE128 (XOR128 (LOAD128 a) (LOAD128 b)), STORE128_XOR128,
    STORE128_LOAD128 a ha, STORE128_LOAD128 b hb]

theorem XOR128_16 (x0 x1 x2 x3 x4 x5 x6 x7 x8 x9 x10 x11 x12 x13 x14 x15
    y0 y1 y2 y3 y4 y5 y6 y7 y8 y9 y10 y11 y12 y13 y14 y15 : UInt8) :
    XOR128 (LOAD128 [x0, x1, x2, x3, x4, x5, x6, x7, x8, x9, x10, x11, x12, x13, x14, x15])
      (LOAD128 [y0, y1, y2, y3, y4, y5, y6, y7, y8, y9, y10, y11, y12, y13, y14, y15])
      = LOAD128 [x0 ^^^ y0, x1 ^^^ y1, x2 ^^^ y2, x3 ^^^ y3, x4 ^^^ y4, x5 ^^^ y5, x6 ^^^ y6, x7 ^^^ y7,
          x8 ^^^ y8, x9 ^^^ y9, x10 ^^^ y10, x11 ^^^ y11, x12 ^^^ y12, x13 ^^^ y13, x14 ^^^ y14, x15 ^^^ y15] :=
  XOR128_LOAD128 _ _ rfl rfl

/-- the byte image of the new `t1` after `EXPAND_KEY_1` -/
theorem EXPAND_KEY_1_t1 (rc : UInt8) (rk : List BlockVec)
    (x0 x1 x2 x3 x4 x5 x6 x7 x8 x9 x10 x11 x12 x13 x14 x15
     y0 y1 y2 y3 y4 y5 y6 y7 y8 y9 y10 y11 y12 y13 y14 y15 : UInt8) :
    (EXPAND_KEY_1 rc ⟨rk,
        LOAD128 [x0, x1, x2, x3, x4, x5, x6, x7, x8, x9, x10, x11, x12, x13, x14, x15],
        LOAD128 [y0, y1, y2, y3, y4, y5, y6, y7, y8, y9, y10, y11, y12, y13, y14, y15]⟩).t1
    = LOAD128 (
        let a := xorBytes [x0, x1, x2, x3] (xorBytes (Aes.subWord (Aes.rotWord [y12, y13, y14, y15])) [rc, 0, 0, 0])
        let b := xorBytes [x4, x5, x6, x7] a
        let c := xorBytes [x8, x9, x10, x11] b
        let d := xorBytes [x12, x13, x14, x15] c
        a ++ b ++ c ++ d) := by
  simp only [EXPAND_KEY_1, AES_KEYGEN_16, BYTESHL128_4, XOR128_16, BYTESHL128_8, SHUFFLE32x4_3333,
    Aes.subWord, Aes.rotWord, List.drop_succ_cons, List.drop_zero, List.take_succ_cons, List.take_zero,
    List.map_cons, List.map_nil, List.cons_append, List.nil_append, xorBytes, UInt8.xor_zero]
  congr 1
  simp only [List.cons.injEq, and_true]
  refine ⟨?_, ?_, ?_, ?_, ?_, ?_, ?_, ?_, ?_, ?_, ?_, ?_, ?_, ?_, ?_, ?_⟩ <;> first | trivial | ac_rfl


theorem EXPAND_KEY_2_t2 (rc : UInt8) (rk : List BlockVec)
    (x0 x1 x2 x3 x4 x5 x6 x7 x8 x9 x10 x11 x12 x13 x14 x15
     y0 y1 y2 y3 y4 y5 y6 y7 y8 y9 y10 y11 y12 y13 y14 y15 : UInt8) :
    (EXPAND_KEY_2 rc ⟨rk,
        LOAD128 [y0, y1, y2, y3, y4, y5, y6, y7, y8, y9, y10, y11, y12, y13, y14, y15],
        LOAD128 [x0, x1, x2, x3, x4, x5, x6, x7, x8, x9, x10, x11, x12, x13, x14, x15]⟩).t2
    = LOAD128 (
        let a := xorBytes [x0, x1, x2, x3] (Aes.subWord [y12, y13, y14, y15])
        let b := xorBytes [x4, x5, x6, x7] a
        let c := xorBytes [x8, x9, x10, x11] b
        let d := xorBytes [x12, x13, x14, x15] c
        a ++ b ++ c ++ d) := by
  simp only [EXPAND_KEY_2, AES_KEYGEN_16, BYTESHL128_4, XOR128_16, BYTESHL128_8, SHUFFLE32x4_2222,
    Aes.subWord, List.map_cons, List.map_nil, List.cons_append, List.nil_append, xorBytes, UInt8.xor_zero]
  congr 1
  simp only [List.cons.injEq, and_true]
  refine ⟨?_, ?_, ?_, ?_, ?_, ?_, ?_, ?_, ?_, ?_, ?_, ?_, ?_, ?_, ?_, ?_⟩ <;> first | trivial | ac_rfl

theorem len4 (s : Bytes) (h : s.length = 4) : ∃ s0 s1 s2 s3, s = [s0, s1, s2, s3] := by
  match s, h with
  | [s0, s1, s2, s3], _ => exact ⟨s0, s1, s2, s3, rfl⟩

theorem len12 (s : Bytes) (h : s.length = 12) :
    ∃ s0 s1 s2 s3 s4 s5 s6 s7 s8 s9 s10 s11, s = [s0, s1, s2, s3, s4, s5, s6, s7, s8, s9, s10, s11] := by
  match s, h with
  | [s0, s1, s2, s3, s4, s5, s6, s7, s8, s9, s10, s11], _ =>
    exact ⟨s0, s1, s2, s3, s4, s5, s6, s7, s8, s9, s10, s11, rfl⟩

/-- `EXPAND_KEY_1` on the four-word byte images -/
theorem EXPAND_KEY_1_words (rc : UInt8) (v : KS) (a b c d p z : Bytes)
    (ha : a.length = 4) (hb : b.length = 4) (hc : c.length = 4) (hd : d.length = 4)
    (hp : p.length = 12) (hz : z.length = 4)
    (h1 : STORE128 v.t1 = a ++ b ++ c ++ d) (h2 : STORE128 v.t2 = p ++ z) :
    STORE128 (EXPAND_KEY_1 rc v).t1 =
      xorBytes a (xorBytes (Aes.subWord (Aes.rotWord z)) [rc, 0, 0, 0])
      ++ xorBytes b (xorBytes a (xorBytes (Aes.subWord (Aes.rotWord z)) [rc, 0, 0, 0]))
      ++ xorBytes c (xorBytes b (xorBytes a (xorBytes (Aes.subWord (Aes.rotWord z)) [rc, 0, 0, 0])))
      ++ xorBytes d (xorBytes c (xorBytes b (xorBytes a (xorBytes (Aes.subWord (Aes.rotWord z)) [rc, 0, 0, 0])))) := by
  obtain ⟨a0, a1, a2, a3, rfl⟩ := len4 a ha
  obtain ⟨b0, b1, b2, b3, rfl⟩ := len4 b hb
  obtain ⟨c0, c1, c2, c3, rfl⟩ := len4 c hc
  obtain ⟨d0, d1, d2, d3, rfl⟩ := len4 d hd
  obtain ⟨z0, z1, z2, z3, rfl⟩ := len4 z hz
  obtain ⟨p0, p1, p2, p3, p4, p5, p6, p7, p8, p9, p10, p11, rfl⟩ := len12 p hp
  obtain ⟨rk, t1, t2⟩ := v
  simp only at h1 h2
  have e1 : t1 = LOAD128 [a0, a1, a2, a3, b0, b1, b2, b3, c0, c1, c2, c3, d0, d1, d2, d3] := by
    rw [← LOAD128_STORE128 t1, h1]; rfl
  have e2 : t2 = LOAD128 [p0, p1, p2, p3, p4, p5, p6, p7, p8, p9, p10, p11, z0, z1, z2, z3] := by
    rw [← LOAD128_STORE128 t2, h2]; rfl
  subst e1 e2
  rw [EXPAND_KEY_1_t1, STORE128_LOAD128 _ rfl]

/-- `EXPAND_KEY_2` on the four-word byte images -/
theorem EXPAND_KEY_2_words (rc : UInt8) (v : KS) (a b c d p z : Bytes)
    (ha : a.length = 4) (hb : b.length = 4) (hc : c.length = 4) (hd : d.length = 4)
    (hp : p.length = 12) (hz : z.length = 4)
    (h2 : STORE128 v.t2 = a ++ b ++ c ++ d) (h1 : STORE128 v.t1 = p ++ z) :
    STORE128 (EXPAND_KEY_2 rc v).t2 =
      xorBytes a (Aes.subWord z)
      ++ xorBytes b (xorBytes a (Aes.subWord z))
      ++ xorBytes c (xorBytes b (xorBytes a (Aes.subWord z)))
      ++ xorBytes d (xorBytes c (xorBytes b (xorBytes a (Aes.subWord z)))) := by
  obtain ⟨a0, a1, a2, a3, rfl⟩ := len4 a ha
  obtain ⟨b0, b1, b2, b3, rfl⟩ := len4 b hb
  obtain ⟨c0, c1, c2, c3, rfl⟩ := len4 c hc
  obtain ⟨d0, d1, d2, d3, rfl⟩ := len4 d hd
  obtain ⟨z0, z1, z2, z3, rfl⟩ := len4 z hz
  obtain ⟨p0, p1, p2, p3, p4, p5, p6, p7, p8, p9, p10, p11, rfl⟩ := len12 p hp
  obtain ⟨rk, t1, t2⟩ := v
  simp only at h1 h2
  have e2 : t2 = LOAD128 [a0, a1, a2, a3, b0, b1, b2, b3, c0, c1, c2, c3, d0, d1, d2, d3] := by
    rw [← LOAD128_STORE128 t2, h2]; rfl
  have e1 : t1 = LOAD128 [p0, p1, p2, p3, p4, p5, p6, p7, p8, p9, p10, p11, z0, z1, z2, z3] := by
    rw [← LOAD128_STORE128 t1, h1]; rfl
  subst e1 e2
  rw [EXPAND_KEY_2_t2, STORE128_LOAD128 _ rfl]


/-! ### the FIPS-197 key expansion as a recurrence -/

/-- `w0`, then `n` pushes, each computed from the array so far -/
def pushFold {α} (f : Array α → Nat → α) (w0 : Array α) (n : Nat) : Array α :=
  (List.range n).foldl (fun w i => w.push (f w i)) w0

theorem pushFold_zero {α} (f : Array α → Nat → α) (w0 : Array α) : pushFold f w0 0 = w0 := rfl

theorem pushFold_succ {α} (f : Array α → Nat → α) (w0 : Array α) (n : Nat) :
    pushFold f w0 (n + 1) = (pushFold f w0 n).push (f (pushFold f w0 n) n) := by
  simp [pushFold, List.range_succ, List.foldl_append]

theorem pushFold_size {α} (f : Array α → Nat → α) (w0 : Array α) (n : Nat) :
    (pushFold f w0 n).size = w0.size + n := by
  induction n with
  | zero => simp [pushFold]
  | succ n ih => rw [pushFold_succ, Array.size_push, ih]; omega

theorem pushFold_stable {α} (f : Array α → Nat → α) (w0 : Array α) (d : α) (k t : Nat)
    (ht : t < w0.size + k) : ∀ n, k ≤ n → (pushFold f w0 n).getD t d = (pushFold f w0 k).getD t d := by
  intro n hn
  induction n with
  | zero => have : k = 0 := by omega
            subst this; rfl
  | succ n ih =>
    by_cases h : k = n + 1
    · subst h; rfl
    · rw [pushFold_succ, ← ih (by omega)]
      have hs := pushFold_size f w0 n
      simp only [Array.getD_eq_getD_getElem?]
      rw [Array.getElem?_push_lt (by omega), Array.getElem?_eq_getElem (by omega)]

theorem pushFold_new {α} (f : Array α → Nat → α) (w0 : Array α) (d : α) (k : Nat) :
    (pushFold f w0 (k + 1)).getD (w0.size + k) d = f (pushFold f w0 k) k := by
  rw [pushFold_succ]
  have hs := pushFold_size f w0 k
  simp [Array.getD_eq_getD_getElem?, ← hs]

/-- word `i` of the FIPS-197 expanded key -/
def W (key : Bytes) (i : Nat) : Bytes := (Aes.keyWords256 key).getD i []

/-- FIPS-197 §5.2 `temp` for word `i` -/
def temp (i : Nat) (prev : Bytes) : Bytes :=
  if i % 8 = 0 then xorBytes (Aes.subWord (Aes.rotWord prev)) (Aes.rcon (i / 8))
  else if i % 8 = 4 then Aes.subWord prev
  else prev

def specF (w : Array Bytes) (j : Nat) : Bytes :=
  xorBytes (w.getD (j + 8 - 8) []) (temp (j + 8) (w.getD (j + 8 - 1) []))

theorem keyWords256_eq (key : Bytes) :
    Aes.keyWords256 key = pushFold specF (Aes.chunks 4 key).toArray 52 := by
  unfold Aes.keyWords256 pushFold specF temp
  simp only [Array.getElem!_eq_getD]
  rfl

theorem W_lo (key : Bytes) (h : (Aes.chunks 4 key).length = 8) (i : Nat) (hi : i < 8) :
    W key i = (Aes.chunks 4 key).getD i [] := by
  unfold W
  rw [keyWords256_eq, pushFold_stable specF _ [] 0 i (by simp [h]; omega) 52 (by omega), pushFold_zero]
  simp [Array.getD_eq_getD_getElem?, List.getD_eq_getElem?_getD]

theorem W_hi (key : Bytes) (h : (Aes.chunks 4 key).length = 8) (j : Nat) (hj : j < 52) :
    W key (j + 8) = xorBytes (W key j) (temp (j + 8) (W key (j + 7))) := by
  have hs : (Aes.chunks 4 key).toArray.size = 8 := by simp [h]
  have st : ∀ t, t < 8 + j → W key t = (pushFold specF (Aes.chunks 4 key).toArray j).getD t [] := by
    intro t ht
    unfold W
    rw [keyWords256_eq]
    exact pushFold_stable specF _ [] j t (by rw [hs]; exact ht) 52 (by omega)
  rw [st j (by omega), st (j + 7) (by omega)]
  unfold W
  rw [keyWords256_eq, pushFold_stable specF _ [] (j + 1) (j + 8) (by rw [hs]; omega) 52 (by omega)]
  have := pushFold_new specF (Aes.chunks 4 key).toArray [] j
  rw [hs, Nat.add_comm 8 j] at this
  rw [this]
  simp only [specF]
  have e1 : j + 8 - 8 = j := by omega
  have e2 : j + 8 - 1 = j + 7 := by omega
  rw [e1, e2]


theorem len32 (s : Bytes) (h : s.length = 32) :
    ∃ k0 k1 k2 k3 k4 k5 k6 k7 k8 k9 k10 k11 k12 k13 k14 k15 k16 k17 k18 k19 k20 k21 k22 k23 k24 k25 k26 k27
      k28 k29 k30 k31, s = [k0, k1, k2, k3, k4, k5, k6, k7, k8, k9, k10, k11, k12, k13, k14, k15, k16, k17, k18,
        k19, k20, k21, k22, k23, k24, k25, k26, k27, k28, k29, k30, k31] := by
  match s, h with
  | [k0, k1, k2, k3, k4, k5, k6, k7, k8, k9, k10, k11, k12, k13, k14, k15, k16, k17, k18,
        k19, k20, k21, k22, k23, k24, k25, k26, k27, k28, k29, k30, k31], _ =>
    exact ⟨k0, k1, k2, k3, k4, k5, k6, k7, k8, k9, k10, k11, k12, k13, k14, k15, k16, k17, k18,
        k19, k20, k21, k22, k23, k24, k25, k26, k27, k28, k29, k30, k31, rfl⟩

theorem chunks_32 (k0 k1 k2 k3 k4 k5 k6 k7 k8 k9 k10 k11 k12 k13 k14 k15 k16 k17 k18 k19 k20 k21 k22 k23 k24
    k25 k26 k27 k28 k29 k30 k31 : UInt8) :
    Aes.chunks 4 [k0, k1, k2, k3, k4, k5, k6, k7, k8, k9, k10, k11, k12, k13, k14, k15, k16, k17, k18,
        k19, k20, k21, k22, k23, k24, k25, k26, k27, k28, k29, k30, k31]
      = [[k0, k1, k2, k3], [k4, k5, k6, k7], [k8, k9, k10, k11], [k12, k13, k14, k15], [k16, k17, k18, k19],
          [k20, k21, k22, k23], [k24, k25, k26, k27], [k28, k29, k30, k31]] := by
  simp [Aes.chunks, Aes.chunksAux]

theorem chunks_length (key : Bytes) (h : key.length = 32) : (Aes.chunks 4 key).length = 8 := by
  obtain ⟨k0, k1, k2, k3, k4, k5, k6, k7, k8, k9, k10, k11, k12, k13, k14, k15, k16, k17, k18,
    k19, k20, k21, k22, k23, k24, k25, k26, k27, k28, k29, k30, k31, rfl⟩ := len32 key h
  rw [chunks_32]; rfl

theorem xorBytes_length : ∀ a b : Bytes, (xorBytes a b).length = min a.length b.length
  | [], _ => by simp [xorBytes]
  | _ :: _, [] => by simp [xorBytes]
  | _ :: xs, _ :: ys => by simp [xorBytes, xorBytes_length xs ys, Nat.succ_min_succ]

theorem temp_length (i : Nat) (p : Bytes) (hp : p.length = 4) : (temp i p).length = 4 := by
  obtain ⟨p0, p1, p2, p3, rfl⟩ := len4 p hp
  unfold temp
  split
  · rfl
  · split <;> rfl

theorem W_length (key : Bytes) (h : key.length = 32) : ∀ i, i < 60 → (W key i).length = 4 := by
  have hc := chunks_length key h
  intro i
  induction i using Nat.strongRecOn with
  | _ i ih =>
    intro hi
    by_cases h8 : i < 8
    · rw [W_lo key hc i h8]
      obtain ⟨k0, k1, k2, k3, k4, k5, k6, k7, k8, k9, k10, k11, k12, k13, k14, k15, k16, k17, k18,
        k19, k20, k21, k22, k23, k24, k25, k26, k27, k28, k29, k30, k31, rfl⟩ := len32 key h
      rw [chunks_32]
      have : i = 0 ∨ i = 1 ∨ i = 2 ∨ i = 3 ∨ i = 4 ∨ i = 5 ∨ i = 6 ∨ i = 7 := by omega
      rcases this with rfl | rfl | rfl | rfl | rfl | rfl | rfl | rfl <;> rfl
    · obtain ⟨j, rfl⟩ : ∃ j, i = j + 8 := ⟨i - 8, by omega⟩
      rw [W_hi key hc j (by omega), xorBytes_length, ih j (by omega) (by omega),
        temp_length _ _ (ih (j + 7) (by omega) (by omega))]
      rfl

/-- round key `r` of the specification -/
def RK (key : Bytes) (r : Nat) : Bytes :=
  W key (4 * r) ++ W key (4 * r + 1) ++ W key (4 * r + 2) ++ W key (4 * r + 3)

theorem keyExpansion256_eq (key : Bytes) : Aes.keyExpansion256 key = (List.range 15).map (RK key) := by
  unfold Aes.keyExpansion256 RK W
  simp only [Array.getElem!_eq_getD]
  rfl

/-- the recurrence for round key `2k+2` (first word uses RotWord/SubWord/Rcon) -/
theorem RK_even (key : Bytes) (h : key.length = 32) (k : Nat) (hk : k ≤ 6) :
    RK key (2 * k + 2) =
      (let z := W key (4 * (2 * k + 1) + 3)
       let s := xorBytes (Aes.subWord (Aes.rotWord z)) (Aes.rcon (k + 1))
       let a := xorBytes (W key (4 * (2 * k))) s
       let b := xorBytes (W key (4 * (2 * k) + 1)) a
       let c := xorBytes (W key (4 * (2 * k) + 2)) b
       let d := xorBytes (W key (4 * (2 * k) + 3)) c
       a ++ b ++ c ++ d) := by
  have hc := chunks_length key h
  have e0 : 4 * (2 * k + 2) = 8 * k + 8 := by omega
  have e1 : 4 * (2 * k + 2) + 1 = (8 * k + 1) + 8 := by omega
  have e2 : 4 * (2 * k + 2) + 2 = (8 * k + 2) + 8 := by omega
  have e3 : 4 * (2 * k + 2) + 3 = (8 * k + 3) + 8 := by omega
  have t0 : ∀ p, temp (8 * k + 8) p = xorBytes (Aes.subWord (Aes.rotWord p)) (Aes.rcon (k + 1)) := by
    intro p; unfold temp
    rw [if_pos (by omega)]
    congr 2; omega
  have t1 : ∀ p, temp (8 * k + 1 + 8) p = p := by
    intro p; unfold temp; rw [if_neg (by omega), if_neg (by omega)]
  have t2 : ∀ p, temp (8 * k + 2 + 8) p = p := by
    intro p; unfold temp; rw [if_neg (by omega), if_neg (by omega)]
  have t3 : ∀ p, temp (8 * k + 3 + 8) p = p := by
    intro p; unfold temp; rw [if_neg (by omega), if_neg (by omega)]
  have f0 : 4 * (2 * k + 1) + 3 = 8 * k + 7 := by omega
  have f1 : 4 * (2 * k) = 8 * k := by omega
  have g1 : 8 * k + 1 + 7 = 8 * k + 8 := by omega
  have g2 : 8 * k + 2 + 7 = 8 * k + 1 + 8 := by omega
  have g3 : 8 * k + 3 + 7 = 8 * k + 2 + 8 := by omega
  simp only [RK]
  rw [e1, e2, e3, W_hi key hc (8 * k + 3) (by omega), t3, g3, W_hi key hc (8 * k + 2) (by omega), t2, g2,
    W_hi key hc (8 * k + 1) (by omega), t1, g1, e0, W_hi key hc (8 * k) (by omega), t0, f0, f1]

/-- the recurrence for round key `2k+3` (first word uses SubWord only) -/
theorem RK_odd (key : Bytes) (h : key.length = 32) (k : Nat) (hk : k ≤ 5) :
    RK key (2 * k + 3) =
      (let z := W key (4 * (2 * k + 2) + 3)
       let a := xorBytes (W key (4 * (2 * k + 1))) (Aes.subWord z)
       let b := xorBytes (W key (4 * (2 * k + 1) + 1)) a
       let c := xorBytes (W key (4 * (2 * k + 1) + 2)) b
       let d := xorBytes (W key (4 * (2 * k + 1) + 3)) c
       a ++ b ++ c ++ d) := by
  have hc := chunks_length key h
  have e0 : 4 * (2 * k + 3) = (8 * k + 4) + 8 := by omega
  have e1 : 4 * (2 * k + 3) + 1 = (8 * k + 5) + 8 := by omega
  have e2 : 4 * (2 * k + 3) + 2 = (8 * k + 6) + 8 := by omega
  have e3 : 4 * (2 * k + 3) + 3 = (8 * k + 7) + 8 := by omega
  have t0 : ∀ p, temp (8 * k + 4 + 8) p = Aes.subWord p := by
    intro p; unfold temp
    rw [if_neg (by omega), if_pos (by omega)]
  have t1 : ∀ p, temp (8 * k + 5 + 8) p = p := by
    intro p; unfold temp; rw [if_neg (by omega), if_neg (by omega)]
  have t2 : ∀ p, temp (8 * k + 6 + 8) p = p := by
    intro p; unfold temp; rw [if_neg (by omega), if_neg (by omega)]
  have t3 : ∀ p, temp (8 * k + 7 + 8) p = p := by
    intro p; unfold temp; rw [if_neg (by omega), if_neg (by omega)]
  have f0 : 4 * (2 * k + 2) + 3 = 8 * k + 4 + 7 := by omega
  have f1 : 4 * (2 * k + 1) = 8 * k + 4 := by omega
  have g1 : 8 * k + 5 + 7 = 8 * k + 4 + 8 := by omega
  have g2 : 8 * k + 6 + 7 = 8 * k + 5 + 8 := by omega
  have g3 : 8 * k + 7 + 7 = 8 * k + 6 + 8 := by omega
  have f2 : 8 * k + 4 + 1 = 8 * k + 5 := by omega
  have f3 : 8 * k + 4 + 2 = 8 * k + 6 := by omega
  have f4 : 8 * k + 4 + 3 = 8 * k + 7 := by omega
  simp only [RK]
  rw [e1, e2, e3, W_hi key hc (8 * k + 7) (by omega), t3, g3, W_hi key hc (8 * k + 6) (by omega), t2, g2,
    W_hi key hc (8 * k + 5) (by omega), t1, g1, e0, W_hi key hc (8 * k + 4) (by omega), t0, f0, f1, f2, f3, f4]


/-- state before an `EXPAND_KEY_1`: round keys `0..r` stored, `t1 = rk[r]`, `t2 = rk[r+1]` -/
def InvA (key : Bytes) (r : Nat) (v : KS) : Prop :=
  v.rkeys.map STORE128 = (List.range (r + 1)).map (RK key) ∧ STORE128 v.t1 = RK key r ∧
    STORE128 v.t2 = RK key (r + 1)

/-- state before an `EXPAND_KEY_2`: round keys `0..r` stored, `t2 = rk[r]`, `t1 = rk[r+1]` -/
def InvB (key : Bytes) (r : Nat) (v : KS) : Prop :=
  v.rkeys.map STORE128 = (List.range (r + 1)).map (RK key) ∧ STORE128 v.t2 = RK key r ∧
    STORE128 v.t1 = RK key (r + 1)

theorem stepA (key : Bytes) (h : key.length = 32) (k : Nat) (hk : k ≤ 6) (rc : UInt8)
    (hrc : Aes.rcon (k + 1) = [rc, 0, 0, 0]) (v : KS) (hv : InvA key (2 * k) v) :
    InvB key (2 * k + 1) (EXPAND_KEY_1 rc v) := by
  obtain ⟨h0, h1, h2⟩ := hv
  have hl := W_length key h
  refine ⟨?_, h2, ?_⟩
  · show (v.rkeys ++ [v.t2]).map STORE128 = _
    rw [List.map_append, h0, List.range_succ (n := 2 * k + 1), List.map_append, List.map_cons, List.map_nil,
      List.map_cons, List.map_nil, h2]
  · have e : 2 * k + 1 + 1 = 2 * k + 2 := by omega
    rw [e, RK_even key h k hk, hrc]
    exact EXPAND_KEY_1_words rc v (W key (4 * (2 * k))) (W key (4 * (2 * k) + 1)) (W key (4 * (2 * k) + 2))
      (W key (4 * (2 * k) + 3))
      (W key (4 * (2 * k + 1)) ++ W key (4 * (2 * k + 1) + 1) ++ W key (4 * (2 * k + 1) + 2))
      (W key (4 * (2 * k + 1) + 3))
      (hl _ (by omega)) (hl _ (by omega)) (hl _ (by omega)) (hl _ (by omega))
      (by rw [List.length_append, List.length_append, hl _ (by omega), hl _ (by omega), hl _ (by omega)])
      (hl _ (by omega)) h1 h2

theorem stepB (key : Bytes) (h : key.length = 32) (k : Nat) (hk : k ≤ 5) (rc : UInt8)
    (v : KS) (hv : InvB key (2 * k + 1) v) :
    InvA key (2 * k + 2) (EXPAND_KEY_2 rc v) := by
  obtain ⟨h0, h2, h1⟩ := hv
  have hl := W_length key h
  refine ⟨?_, h1, ?_⟩
  · show (v.rkeys ++ [v.t1]).map STORE128 = _
    rw [List.map_append, h0, List.range_succ (n := 2 * k + 2), List.map_append, List.map_cons, List.map_nil,
      List.map_cons, List.map_nil, h1]
  · have e : 2 * k + 2 + 1 = 2 * k + 3 := by omega
    rw [e, RK_odd key h k hk]
    exact EXPAND_KEY_2_words rc v (W key (4 * (2 * k + 1))) (W key (4 * (2 * k + 1) + 1))
      (W key (4 * (2 * k + 1) + 2)) (W key (4 * (2 * k + 1) + 3))
      (W key (4 * (2 * k + 2)) ++ W key (4 * (2 * k + 2) + 1) ++ W key (4 * (2 * k + 2) + 2))
      (W key (4 * (2 * k + 2) + 3))
      (hl _ (by omega)) (hl _ (by omega)) (hl _ (by omega)) (hl _ (by omega))
      (by rw [List.length_append, List.length_append, hl _ (by omega), hl _ (by omega), hl _ (by omega)])
      (hl _ (by omega)) h2 h1

theorem init_InvA (key : Bytes) (h : key.length = 32) :
    InvA key 0 ⟨[LOAD128 key], LOAD128 key, LOAD128 (key.drop 16)⟩ := by
  have hc := chunks_length key h
  have e0 : RK key 0 = key.take 16 := by
    simp only [RK]
    rw [W_lo key hc _ (by omega), W_lo key hc _ (by omega), W_lo key hc _ (by omega), W_lo key hc _ (by omega)]
    obtain ⟨k0, k1, k2, k3, k4, k5, k6, k7, k8, k9, k10, k11, k12, k13, k14, k15, k16, k17, k18,
      k19, k20, k21, k22, k23, k24, k25, k26, k27, k28, k29, k30, k31, rfl⟩ := len32 key h
    rw [chunks_32]; rfl
  have e1 : RK key 1 = key.drop 16 := by
    simp only [RK]
    rw [W_lo key hc _ (by omega), W_lo key hc _ (by omega), W_lo key hc _ (by omega), W_lo key hc _ (by omega)]
    obtain ⟨k0, k1, k2, k3, k4, k5, k6, k7, k8, k9, k10, k11, k12, k13, k14, k15, k16, k17, k18,
      k19, k20, k21, k22, k23, k24, k25, k26, k27, k28, k29, k30, k31, rfl⟩ := len32 key h
    rw [chunks_32]; rfl
  have s0 : STORE128 (LOAD128 key) = RK key 0 := by
    rw [e0, ← LOAD128_take, STORE128_LOAD128 _ (by simp; omega)]
  have s1 : STORE128 (LOAD128 (key.drop 16)) = RK key 1 := by
    rw [e1, STORE128_LOAD128 _ (by simp; omega)]
  exact ⟨by simp [s0, List.range_succ], s0, s1⟩

theorem expand256_length (key : Bytes) : (expand256 key).length = 15 := by
  simp [expand256, EXPAND_KEY_1, EXPAND_KEY_2]

theorem expand256_eq (key : Bytes) (h : key.length = 32) :
    (expand256 key).map STORE128 = Aes.keyExpansion256 key := by
  have a0 := init_InvA key h
  have b1 := stepA key h 0 (by omega) 0x01 (by decide) _ a0
  have a2 := stepB key h 0 (by omega) 0x01 _ b1
  have b3 := stepA key h 1 (by omega) 0x02 (by decide) _ a2
  have a4 := stepB key h 1 (by omega) 0x02 _ b3
  have b5 := stepA key h 2 (by omega) 0x04 (by decide) _ a4
  have a6 := stepB key h 2 (by omega) 0x04 _ b5
  have b7 := stepA key h 3 (by omega) 0x08 (by decide) _ a6
  have a8 := stepB key h 3 (by omega) 0x08 _ b7
  have b9 := stepA key h 4 (by omega) 0x10 (by decide) _ a8
  have a10 := stepB key h 4 (by omega) 0x10 _ b9
  have b11 := stepA key h 5 (by omega) 0x20 (by decide) _ a10
  have a12 := stepB key h 5 (by omega) 0x20 _ b11
  have b13 := stepA key h 6 (by omega) 0x40 (by decide +kernel) _ a12
  obtain ⟨h0, _, h1⟩ := b13
  rw [keyExpansion256_eq]
  show (_ ++ [_]).map STORE128 = _
  rw [List.map_append, h0, List.range_succ (n := 14), List.map_append, List.map_cons, List.map_nil,
    List.map_cons, List.map_nil, h1]

/-- one-block encryption under the expanded key = FIPS-197 AES-256 -/
theorem encrypt_expand256 (key : Bytes) (h : key.length = 32) (hx : List Precomp) (src : Bytes)
    (hs : src.length = 16) :
    encrypt { rkeys := expand256 key, hx := hx } src = Aes.encryptBlock256 key src := by
  rw [encrypt_eq _ (expand256_length key) src hs]
  show Aes.cipher ((expand256 key).map STORE128) src = _
  rw [expand256_eq key h]; rfl

end Sodium.GcmAesniP.AesK
