import SodiumModel.Proofs.ScReduceGen
import SodiumModel.Proofs.Scalar
import Mathlib.Tactic.Ring
set_option linter.unusedVariables false
/-
  The scalar limb code of ed25519_ref10.c (`Model/ScReduce.lean`) computes the canonical
  representative modulo l.  Structure of the proof:
   * `Proofs/ScReduceBase.lean`, `Proofs/ScReduceGen.lean`: every `Int64` operation of the model is exact
     (no wrap-around), so the machine state is the image of the ideal `Int` state (`tail_ref_k`,
     `sc_load64_ref`, `mul_products_ref`, …), with explicit interval bounds after every block;
     every block preserves the represented integer modulo l (`*_val`, `tailI_val_emod`).
   * here: after the second-to-last fold the represented integer lies in (-2^252, 2^252), hence the
     twelve floor carries leave `s12 ∈ {-1, 0}`, hence the last fold and carries produce the
     representative in [0, l) (`tail_range`); the packing writes its 32 little-endian bytes.
-/
namespace Sodium.ScReduceP
open Sodium Sodium.Model.ScReduce
open Sodium.Spec.Scalar (L)

theorem Lz_eq : Lz = (L : Int) := by
  rw [ScalarP.L_val]; rfl

/-- after `fold_s12_b` the represented integer is below 2^252 in absolute value -/
theorem val_bound_17 {x : Limbs} {y : LimbsI} (h : RL x y BT17) :
    y.s12 = 0 ∧ -7237005577332262213973186563042994240829374041602535252466099000494570602496 < val12 y ∧
      val12 y < 7237005577332262213973186563042994240829374041602535252466099000494570602496 := by
  obtain ⟨i0, i1, i2, i3, i4, i5, i6, i7, i8, i9, i10, i11, i12, i13, i14, i15, i16, i17, i18, i19, i20, i21, i22, i23⟩ := y
  obtain ⟨h0, h1, h2, h3, h4, h5, h6, h7, h8, h9, h10, h11, h12, h13, h14, h15, h16, h17, h18, h19, h20, h21, h22, h23⟩ := h
  simp only [R, BT17] at h0 h1 h2 h3 h4 h5 h6 h7 h8 h9 h10 h11 h12
  simp only [val12]
  omega

/-- the twelve floor carries: limbs in [0, 2^21), `s12 ∈ {-1, 0}` -/
theorem carryF_0_11_range (y : LimbsI) (h12 : y.s12 = 0)
    (hlo : -7237005577332262213973186563042994240829374041602535252466099000494570602496 < val12 y)
    (hhi : val12 y < 7237005577332262213973186563042994240829374041602535252466099000494570602496) :
    let z := carryF_0_11I y
    (0 ≤ z.s0 ∧ z.s0 < 2097152) ∧ (0 ≤ z.s1 ∧ z.s1 < 2097152) ∧ (0 ≤ z.s2 ∧ z.s2 < 2097152) ∧
    (0 ≤ z.s3 ∧ z.s3 < 2097152) ∧ (0 ≤ z.s4 ∧ z.s4 < 2097152) ∧ (0 ≤ z.s5 ∧ z.s5 < 2097152) ∧
    (0 ≤ z.s6 ∧ z.s6 < 2097152) ∧ (0 ≤ z.s7 ∧ z.s7 < 2097152) ∧ (0 ≤ z.s8 ∧ z.s8 < 2097152) ∧
    (0 ≤ z.s9 ∧ z.s9 < 2097152) ∧ (0 ≤ z.s10 ∧ z.s10 < 2097152) ∧ (0 ≤ z.s11 ∧ z.s11 < 2097152) ∧
    (z.s12 = 0 ∨ z.s12 = -1) := by
  obtain ⟨i0, i1, i2, i3, i4, i5, i6, i7, i8, i9, i10, i11, i12, i13, i14, i15, i16, i17, i18, i19, i20, i21, i22, i23⟩ := y
  simp only [val12] at hlo hhi
  simp only at h12
  simp only [carryF_0_11I]
  omega
/-- the last fold and the last eleven floor carries: from limbs in [0, 2^21) with `s12 ∈ {-1, 0}` to the
    canonical representative -/
theorem final_range (z : LimbsI)
    (h0 : 0 ≤ z.s0 ∧ z.s0 < 2097152) (h1 : 0 ≤ z.s1 ∧ z.s1 < 2097152) (h2 : 0 ≤ z.s2 ∧ z.s2 < 2097152)
    (h3 : 0 ≤ z.s3 ∧ z.s3 < 2097152) (h4 : 0 ≤ z.s4 ∧ z.s4 < 2097152) (h5 : 0 ≤ z.s5 ∧ z.s5 < 2097152)
    (h6 : 0 ≤ z.s6 ∧ z.s6 < 2097152) (h7 : 0 ≤ z.s7 ∧ z.s7 < 2097152) (h8 : 0 ≤ z.s8 ∧ z.s8 < 2097152)
    (h9 : 0 ≤ z.s9 ∧ z.s9 < 2097152) (h10 : 0 ≤ z.s10 ∧ z.s10 < 2097152) (h11 : 0 ≤ z.s11 ∧ z.s11 < 2097152)
    (h12 : z.s12 = 0 ∨ z.s12 = -1) :
    let w := carryF_0_10I (fold_s12_cI z)
    (0 ≤ w.s0 ∧ w.s0 < 2097152) ∧ (0 ≤ w.s1 ∧ w.s1 < 2097152) ∧ (0 ≤ w.s2 ∧ w.s2 < 2097152) ∧
    (0 ≤ w.s3 ∧ w.s3 < 2097152) ∧ (0 ≤ w.s4 ∧ w.s4 < 2097152) ∧ (0 ≤ w.s5 ∧ w.s5 < 2097152) ∧
    (0 ≤ w.s6 ∧ w.s6 < 2097152) ∧ (0 ≤ w.s7 ∧ w.s7 < 2097152) ∧ (0 ≤ w.s8 ∧ w.s8 < 2097152) ∧
    (0 ≤ w.s9 ∧ w.s9 < 2097152) ∧ (0 ≤ w.s10 ∧ w.s10 < 2097152) ∧ (0 ≤ w.s11 ∧ w.s11 ≤ 2097152) ∧
    0 ≤ val12 w ∧ val12 w < Lz := by
  obtain ⟨i0, i1, i2, i3, i4, i5, i6, i7, i8, i9, i10, i11, i12, i13, i14, i15, i16, i17, i18, i19, i20, i21, i22, i23⟩ := z
  simp only at h0 h1 h2 h3 h4 h5 h6 h7 h8 h9 h10 h11 h12
  simp only [carryF_0_10I, fold_s12_cI, val12, Lz]
  rcases h12 with rfl | rfl <;> omega

/-- the limbs after the whole tail are the radix-2^21 digits of the canonical representative -/
theorem tail_range {x : Limbs} {y : LimbsI} (h : RL x y BT0) :
    let w := tailI20 y
    (0 ≤ w.s0 ∧ w.s0 < 2097152) ∧ (0 ≤ w.s1 ∧ w.s1 < 2097152) ∧ (0 ≤ w.s2 ∧ w.s2 < 2097152) ∧
    (0 ≤ w.s3 ∧ w.s3 < 2097152) ∧ (0 ≤ w.s4 ∧ w.s4 < 2097152) ∧ (0 ≤ w.s5 ∧ w.s5 < 2097152) ∧
    (0 ≤ w.s6 ∧ w.s6 < 2097152) ∧ (0 ≤ w.s7 ∧ w.s7 < 2097152) ∧ (0 ≤ w.s8 ∧ w.s8 < 2097152) ∧
    (0 ≤ w.s9 ∧ w.s9 < 2097152) ∧ (0 ≤ w.s10 ∧ w.s10 < 2097152) ∧ (0 ≤ w.s11 ∧ w.s11 ≤ 2097152) ∧
    0 ≤ val12 w ∧ val12 w < Lz := by
  obtain ⟨hs12, hlo, hhi⟩ := val_bound_17 (tail_ref_17 h)
  obtain ⟨r0, r1, r2, r3, r4, r5, r6, r7, r8, r9, r10, r11, r12⟩ := carryF_0_11_range (tailI17 y) hs12 hlo hhi
  exact final_range (tailI18 y) r0 r1 r2 r3 r4 r5 r6 r7 r8 r9 r10 r11 r12

/-- the represented integer after the tail IS the canonical representative -/
theorem tail_val {x : Limbs} {y : LimbsI} (h : RL x y BT0) : val12 (tailI20 y) = val24 y % Lz := by
  obtain ⟨_, _, _, _, _, _, _, _, _, _, _, _, hlo, hhi⟩ := tail_range h
  rw [← tailI_val_emod y, Int.emod_eq_of_lt hlo hhi]

/-- the packing of a machine state whose limbs are the digits of `N ∈ [0, l)` is `toLE 32 N` -/
theorem pack_spec {m : Limbs} {w : LimbsI} {B : LimbsN} (h20 : RL m w B) (N : Nat) (hN : (N : Int) = val12 w)
    (r0 : 0 ≤ w.s0 ∧ w.s0 < 2097152) (r1 : 0 ≤ w.s1 ∧ w.s1 < 2097152) (r2 : 0 ≤ w.s2 ∧ w.s2 < 2097152)
    (r3 : 0 ≤ w.s3 ∧ w.s3 < 2097152) (r4 : 0 ≤ w.s4 ∧ w.s4 < 2097152) (r5 : 0 ≤ w.s5 ∧ w.s5 < 2097152)
    (r6 : 0 ≤ w.s6 ∧ w.s6 < 2097152) (r7 : 0 ≤ w.s7 ∧ w.s7 < 2097152) (r8 : 0 ≤ w.s8 ∧ w.s8 < 2097152)
    (r9 : 0 ≤ w.s9 ∧ w.s9 < 2097152) (r10 : 0 ≤ w.s10 ∧ w.s10 < 2097152) (r11 : 0 ≤ w.s11 ∧ w.s11 ≤ 2097152)
    (hhi : val12 w < Lz) :
    pack m = toLE 32 N := by
  obtain ⟨e0, e1, e2, e3, e4, e5, e6, e7, e8, e9, e10, e11, _, _, _, _, _, _, _, _, _, _, _, _⟩ := h20
  replace e0 := e0.1; replace e1 := e1.1; replace e2 := e2.1; replace e3 := e3.1; replace e4 := e4.1
  replace e5 := e5.1; replace e6 := e6.1; replace e7 := e7.1; replace e8 := e8.1; replace e9 := e9.1
  replace e10 := e10.1; replace e11 := e11.1
  obtain ⟨i0, i1, i2, i3, i4, i5, i6, i7, i8, i9, i10, i11, i12, i13, i14, i15, i16, i17, i18, i19, i20, i21, i22, i23⟩ := w
  simp only [val12, Lz] at hN hhi
  simp only at r0 r1 r2 r3 r4 r5 r6 r7 r8 r9 r10 r11 e0 e1 e2 e3 e4 e5 e6 e7 e8 e9 e10 e11
  obtain ⟨n0, rfl⟩ := Int.eq_ofNat_of_zero_le r0.1
  obtain ⟨n1, rfl⟩ := Int.eq_ofNat_of_zero_le r1.1
  obtain ⟨n2, rfl⟩ := Int.eq_ofNat_of_zero_le r2.1
  obtain ⟨n3, rfl⟩ := Int.eq_ofNat_of_zero_le r3.1
  obtain ⟨n4, rfl⟩ := Int.eq_ofNat_of_zero_le r4.1
  obtain ⟨n5, rfl⟩ := Int.eq_ofNat_of_zero_le r5.1
  obtain ⟨n6, rfl⟩ := Int.eq_ofNat_of_zero_le r6.1
  obtain ⟨n7, rfl⟩ := Int.eq_ofNat_of_zero_le r7.1
  obtain ⟨n8, rfl⟩ := Int.eq_ofNat_of_zero_le r8.1
  obtain ⟨n9, rfl⟩ := Int.eq_ofNat_of_zero_le r9.1
  obtain ⟨n10, rfl⟩ := Int.eq_ofNat_of_zero_le r10.1
  obtain ⟨n11, rfl⟩ := Int.eq_ofNat_of_zero_le r11.1
  have hle := pack_le m n0 n1 n2 n3 n4 n5 n6 n7 n8 n9 n10 n11 e0 e1 e2 e3 e4 e5 e6 e7 e8 e9 e10 e11
    (by omega) (by omega) (by omega) (by omega) (by omega) (by omega) (by omega) (by omega) (by omega) (by omega)
    (by omega) (by omega)
  apply le_inj
  · rw [toLE_length]; rfl
  · rw [hle, le_toLE]
    clear hle e0 e1 e2 e3 e4 e5 e6 e7 e8 e9 e10 e11
    rw [Nat.mod_eq_of_lt (by omega)]
    omega

/-- `reduce_tail`: for every machine state that is the image of an ideal state within the entry bounds,
    the 32 output bytes are the canonical representative of the represented integer -/
theorem reduce_tail_spec {x : Limbs} {y : LimbsI} (h : RL x y BT0) :
    reduce_tail x = toLE 32 (val24 y % Lz).toNat := by
  obtain ⟨r0, r1, r2, r3, r4, r5, r6, r7, r8, r9, r10, r11, hlo, hhi⟩ := tail_range h
  rw [reduce_tail_eq, tailM_eq, ← tail_val h]
  exact pack_spec (tail_ref_20 h) _ (Int.toNat_of_nonneg hlo) r0 r1 r2 r3 r4 r5 r6 r7 r8 r9 r10 r11 hhi

/-! ### machine-only formulation of the tail theorem -/

/-- the ideal state of a machine state: the signed values of the 24 words -/
def toI (x : Limbs) : LimbsI :=
  ⟨x.s0.toInt, x.s1.toInt, x.s2.toInt, x.s3.toInt, x.s4.toInt, x.s5.toInt, x.s6.toInt, x.s7.toInt, x.s8.toInt, x.s9.toInt, x.s10.toInt, x.s11.toInt, x.s12.toInt, x.s13.toInt, x.s14.toInt, x.s15.toInt, x.s16.toInt, x.s17.toInt, x.s18.toInt, x.s19.toInt, x.s20.toInt, x.s21.toInt, x.s22.toInt, x.s23.toInt⟩

/-- the entry condition of the common tail: `|s_i| ≤ 2^27` for i < 23 and `|s23| ≤ 2^30` -/
def InBounds (x : Limbs) (B : LimbsN) : Prop :=
  (-(B.s0 : Int) ≤ x.s0.toInt ∧ x.s0.toInt ≤ B.s0) ∧
  (-(B.s1 : Int) ≤ x.s1.toInt ∧ x.s1.toInt ≤ B.s1) ∧
  (-(B.s2 : Int) ≤ x.s2.toInt ∧ x.s2.toInt ≤ B.s2) ∧
  (-(B.s3 : Int) ≤ x.s3.toInt ∧ x.s3.toInt ≤ B.s3) ∧
  (-(B.s4 : Int) ≤ x.s4.toInt ∧ x.s4.toInt ≤ B.s4) ∧
  (-(B.s5 : Int) ≤ x.s5.toInt ∧ x.s5.toInt ≤ B.s5) ∧
  (-(B.s6 : Int) ≤ x.s6.toInt ∧ x.s6.toInt ≤ B.s6) ∧
  (-(B.s7 : Int) ≤ x.s7.toInt ∧ x.s7.toInt ≤ B.s7) ∧
  (-(B.s8 : Int) ≤ x.s8.toInt ∧ x.s8.toInt ≤ B.s8) ∧
  (-(B.s9 : Int) ≤ x.s9.toInt ∧ x.s9.toInt ≤ B.s9) ∧
  (-(B.s10 : Int) ≤ x.s10.toInt ∧ x.s10.toInt ≤ B.s10) ∧
  (-(B.s11 : Int) ≤ x.s11.toInt ∧ x.s11.toInt ≤ B.s11) ∧
  (-(B.s12 : Int) ≤ x.s12.toInt ∧ x.s12.toInt ≤ B.s12) ∧
  (-(B.s13 : Int) ≤ x.s13.toInt ∧ x.s13.toInt ≤ B.s13) ∧
  (-(B.s14 : Int) ≤ x.s14.toInt ∧ x.s14.toInt ≤ B.s14) ∧
  (-(B.s15 : Int) ≤ x.s15.toInt ∧ x.s15.toInt ≤ B.s15) ∧
  (-(B.s16 : Int) ≤ x.s16.toInt ∧ x.s16.toInt ≤ B.s16) ∧
  (-(B.s17 : Int) ≤ x.s17.toInt ∧ x.s17.toInt ≤ B.s17) ∧
  (-(B.s18 : Int) ≤ x.s18.toInt ∧ x.s18.toInt ≤ B.s18) ∧
  (-(B.s19 : Int) ≤ x.s19.toInt ∧ x.s19.toInt ≤ B.s19) ∧
  (-(B.s20 : Int) ≤ x.s20.toInt ∧ x.s20.toInt ≤ B.s20) ∧
  (-(B.s21 : Int) ≤ x.s21.toInt ∧ x.s21.toInt ≤ B.s21) ∧
  (-(B.s22 : Int) ≤ x.s22.toInt ∧ x.s22.toInt ≤ B.s22) ∧
  (-(B.s23 : Int) ≤ x.s23.toInt ∧ x.s23.toInt ≤ B.s23)

instance (x : Limbs) (B : LimbsN) : Decidable (InBounds x B) := by unfold InBounds; infer_instance

theorem RL_toI {x : Limbs} {B : LimbsN} (h : InBounds x B) : RL x (toI x) B := by
  obtain ⟨h0, h1, h2, h3, h4, h5, h6, h7, h8, h9, h10, h11, h12, h13, h14, h15, h16, h17, h18, h19, h20, h21, h22, h23⟩ := h
  exact ⟨⟨rfl, h0.1, h0.2⟩, ⟨rfl, h1.1, h1.2⟩, ⟨rfl, h2.1, h2.2⟩, ⟨rfl, h3.1, h3.2⟩, ⟨rfl, h4.1, h4.2⟩, ⟨rfl, h5.1, h5.2⟩, ⟨rfl, h6.1, h6.2⟩, ⟨rfl, h7.1, h7.2⟩, ⟨rfl, h8.1, h8.2⟩, ⟨rfl, h9.1, h9.2⟩, ⟨rfl, h10.1, h10.2⟩, ⟨rfl, h11.1, h11.2⟩, ⟨rfl, h12.1, h12.2⟩, ⟨rfl, h13.1, h13.2⟩, ⟨rfl, h14.1, h14.2⟩, ⟨rfl, h15.1, h15.2⟩, ⟨rfl, h16.1, h16.2⟩, ⟨rfl, h17.1, h17.2⟩, ⟨rfl, h18.1, h18.2⟩, ⟨rfl, h19.1, h19.2⟩, ⟨rfl, h20.1, h20.2⟩, ⟨rfl, h21.1, h21.2⟩, ⟨rfl, h22.1, h22.2⟩, ⟨rfl, h23.1, h23.2⟩⟩

/-- the common tail of `sc25519_reduce` / `sc25519_mul` / `sc25519_muladd` maps EVERY machine state within
    the entry bounds to the canonical encoding of the integer it represents, reduced modulo l -/
theorem reduce_tail_machine_spec (x : Limbs) (h : InBounds x BT0) :
    reduce_tail x = toLE 32 (val24 (toI x) % (L : Int)).toNat := by
  rw [reduce_tail_spec (RL_toI h), Lz_eq]

/-! ### sc25519_reduce -/

/-- `sc25519_reduce_spec`: for EVERY 64-byte input the 32 output bytes are the canonical little-endian
    encoding of `s mod l` — in particular the result is always below l -/
theorem sc25519_reduce_eq (s : Bytes) (hs : s.length = 64) : sc25519_reduce s = toLE 32 (le s % L) := by
  unfold sc25519_reduce
  rw [reduce_tail_spec (sc_load64_ref s), sc_load64_val s hs, Lz_eq]
  congr 1

/-! ### sc25519_mul / sc25519_muladd -/

theorem RL_mono {x : Limbs} {y : LimbsI} {B B' : LimbsN} (h : RL x y B)
    (h0 : B.s0 ≤ B'.s0) (h1 : B.s1 ≤ B'.s1) (h2 : B.s2 ≤ B'.s2) (h3 : B.s3 ≤ B'.s3) (h4 : B.s4 ≤ B'.s4) (h5 : B.s5 ≤ B'.s5) (h6 : B.s6 ≤ B'.s6) (h7 : B.s7 ≤ B'.s7) (h8 : B.s8 ≤ B'.s8) (h9 : B.s9 ≤ B'.s9) (h10 : B.s10 ≤ B'.s10) (h11 : B.s11 ≤ B'.s11) (h12 : B.s12 ≤ B'.s12) (h13 : B.s13 ≤ B'.s13) (h14 : B.s14 ≤ B'.s14) (h15 : B.s15 ≤ B'.s15) (h16 : B.s16 ≤ B'.s16) (h17 : B.s17 ≤ B'.s17) (h18 : B.s18 ≤ B'.s18) (h19 : B.s19 ≤ B'.s19) (h20 : B.s20 ≤ B'.s20) (h21 : B.s21 ≤ B'.s21) (h22 : B.s22 ≤ B'.s22) (h23 : B.s23 ≤ B'.s23) : RL x y B' :=
  ⟨R_weaken h.s0 h0, R_weaken h.s1 h1, R_weaken h.s2 h2, R_weaken h.s3 h3, R_weaken h.s4 h4, R_weaken h.s5 h5, R_weaken h.s6 h6, R_weaken h.s7 h7, R_weaken h.s8 h8, R_weaken h.s9 h9, R_weaken h.s10 h10, R_weaken h.s11 h11, R_weaken h.s12 h12, R_weaken h.s13 h13, R_weaken h.s14 h14, R_weaken h.s15 h15, R_weaken h.s16 h16, R_weaken h.s17 h17, R_weaken h.s18 h18, R_weaken h.s19 h19, R_weaken h.s20 h20, R_weaken h.s21 h21, R_weaken h.s22 h22, R_weaken h.s23 h23⟩

/-- the schoolbook products represent the product of the represented integers -/
theorem mul_products_val (a b : Limbs12I) : val24 (mul_productsI a b) = val12L a * val12L b := by
  obtain ⟨a0, a1, a2, a3, a4, a5, a6, a7, a8, a9, a10, a11⟩ := a
  obtain ⟨b0, b1, b2, b3, b4, b5, b6, b7, b8, b9, b10, b11⟩ := b
  simp only [val24, val12L, mul_productsI]
  ring

theorem muladd_products_val (a b c : Limbs12I) :
    val24 (muladd_productsI a b c) = val12L a * val12L b + val12L c := by
  obtain ⟨a0, a1, a2, a3, a4, a5, a6, a7, a8, a9, a10, a11⟩ := a
  obtain ⟨b0, b1, b2, b3, b4, b5, b6, b7, b8, b9, b10, b11⟩ := b
  obtain ⟨c0, c1, c2, c3, c4, c5, c6, c7, c8, c9, c10, c11⟩ := c
  simp only [val24, val12L, muladd_productsI]
  ring

theorem toNat_emod_cast (n : Nat) : ((n : Int) % (L : Int)).toNat = n % L := by
  rw [← Int.natCast_emod, Int.toNat_natCast]

/-- `sc25519_mul`: for EVERY pair of 32-byte inputs (reduced or not) the output is the canonical encoding of `a·b mod l` -/
theorem sc25519_mul_eq (a b : Bytes) (ha : a.length = 32) (hb : b.length = 32) :
    sc25519_mul a b = toLE 32 (le a * le b % L) := by
  unfold sc25519_mul
  have h := RL_mono (mul_carry_1_21_ref (mul_carry_0_22_ref (mul_products_ref (sc_load32_ref a) (sc_load32_ref b))))
    (B' := BT0) (by decide) (by decide) (by decide) (by decide) (by decide) (by decide) (by decide) (by decide) (by decide) (by decide) (by decide) (by decide) (by decide) (by decide) (by decide) (by decide) (by decide) (by decide) (by decide) (by decide) (by decide) (by decide) (by decide) (by decide)
  dsimp only
  rw [reduce_tail_spec h, mul_carry_1_21_val, mul_carry_0_22_val, mul_products_val, sc_load32_val a ha, sc_load32_val b hb,
    Lz_eq, ← Int.natCast_mul, toNat_emod_cast]

/-- `sc25519_muladd`: `(a·b + c) mod l`, canonical, for EVERY triple of 32-byte inputs -/
theorem sc25519_muladd_eq (a b c : Bytes) (ha : a.length = 32) (hb : b.length = 32) (hc : c.length = 32) :
    sc25519_muladd a b c = toLE 32 ((le a * le b + le c) % L) := by
  unfold sc25519_muladd
  have h := RL_mono (mul_carry_1_21_ref (mul_carry_0_22_ref
    (muladd_products_ref (sc_load32_ref a) (sc_load32_ref b) (sc_load32_ref c)))) (B' := BT0) (by decide) (by decide) (by decide) (by decide) (by decide) (by decide) (by decide) (by decide) (by decide) (by decide) (by decide) (by decide) (by decide) (by decide) (by decide) (by decide) (by decide) (by decide) (by decide) (by decide) (by decide) (by decide) (by decide) (by decide)
  dsimp only
  rw [reduce_tail_spec h, mul_carry_1_21_val, mul_carry_0_22_val, muladd_products_val, sc_load32_val a ha, sc_load32_val b hb,
    sc_load32_val c hc, Lz_eq, ← Int.natCast_mul, ← Int.natCast_add, toNat_emod_cast]

/-! ### sc25519_invert : the addition chain computes `s^(l-2) mod l` -/

theorem L_pos : 0 < L := by rw [ScalarP.L_val]; omega

theorem powLoop_lt : ∀ (fuel b e acc : Nat), acc < L → Spec.Scalar.powLoop fuel b e acc < L
  | 0, _, _, _, h => h
  | fuel + 1, b, e, acc, h => by
    simp only [Spec.Scalar.powLoop]
    split
    · exact h
    · apply powLoop_lt
      split
      · exact Nat.mod_lt _ L_pos
      · exact h

theorem powLoop_spec : ∀ (fuel b e acc : Nat), e < 2 ^ fuel →
    Spec.Scalar.powLoop fuel b e acc % L = acc * b ^ e % L
  | 0, b, e, acc, h => by
    have : e = 0 := by simpa using h
    subst this; simp [Spec.Scalar.powLoop]
  | fuel + 1, b, e, acc, h => by
    simp only [Spec.Scalar.powLoop]
    split
    · next h0 => subst h0; simp
    · have he : e / 2 < 2 ^ fuel := by rw [Nat.pow_succ] at h; omega
      rw [powLoop_spec fuel _ _ _ he]
      have hb : (b * b % L) ^ (e / 2) % L = b ^ (2 * (e / 2)) % L := by
        rw [← Nat.pow_mod, Nat.pow_mul, Nat.pow_two]
      split
      · next h1 =>
        have hE : e = 2 * (e / 2) + 1 := by omega
        conv => rhs; rw [hE, Nat.pow_succ]
        rw [Nat.mul_mod, Nat.mod_mod, hb, ← Nat.mul_mod]
        congr 1
        simp only [Nat.mul_assoc, Nat.mul_comm, Nat.mul_left_comm]
      · next h1 =>
        have hE : e = 2 * (e / 2) := by omega
        conv => rhs; rw [hE]
        rw [Nat.mul_mod, hb, ← Nat.mul_mod]

/-- the square-and-multiply loop of the specification is exponentiation modulo l -/
theorem pow_eq (a e : Nat) : Spec.Scalar.pow a e = a ^ e % L := by
  unfold Spec.Scalar.pow
  have h1 : 1 < L := by rw [ScalarP.L_val]; omega
  have := powLoop_spec (e.log2 + 1) (a % L) e 1 Nat.lt_log2_self
  rw [Nat.mod_eq_of_lt (powLoop_lt _ _ _ _ h1), Nat.one_mul, ← Nat.pow_mod] at this
  exact this

section chain
variable {s : Bytes}

/-- `x` is a 32-byte string congruent to `s^e` -/
def P (s : Bytes) (e : Nat) (x : Bytes) : Prop := x.length = 32 ∧ le x % L = le s ^ e % L
/-- `x` is the canonical encoding of `s^e mod l` -/
def Q (s : Bytes) (e : Nat) (x : Bytes) : Prop := x = toLE 32 (le s ^ e % L)

theorem Q.eq {e : Nat} {x : Bytes} (h : Q s e x) : x = toLE 32 (le s ^ e % L) := h

theorem Q.toP {e : Nat} {x : Bytes} (h : Q s e x) : P s e x := by
  rw [h.eq]
  refine ⟨toLE_length _ _, ?_⟩
  rw [ScalarP.le_toLE32_of_lt _ (Nat.mod_lt _ L_pos), Nat.mod_mod]

theorem Q_mul {e1 e2 : Nat} {x y : Bytes} (hx : P s e1 x) (hy : P s e2 y) : Q s (e1 + e2) (sc25519_mul x y) := by
  unfold Q
  rw [sc25519_mul_eq x y hx.1 hy.1, Nat.mul_mod, hx.2, hy.2, ← Nat.mul_mod, Nat.pow_add]

theorem Q_sq {e : Nat} {x : Bytes} (hx : P s e x) : Q s (2 * e) (sc25519_sq x) := by
  have := Q_mul hx hx
  rw [← Nat.two_mul] at this
  exact this

theorem P_repeat_sq {e : Nat} {x : Bytes} (hx : P s e x) : ∀ n : Nat, P s (e * 2 ^ n) (Nat.repeat sc25519_sq n x)
  | 0 => by simpa [Nat.repeat] using hx
  | n + 1 => by
    have h := (Q_sq (P_repeat_sq hx n)).toP
    rw [Nat.pow_succ, ← Nat.mul_assoc, Nat.mul_comm _ 2]
    exact h

theorem Q_sqmul (n : Nat) {e1 e2 : Nat} {x a : Bytes} (hx : P s e1 x) (ha : P s e2 a) :
    Q s (e1 * 2 ^ n + e2) (sc25519_sqmul x n a) :=
  Q_mul (P_repeat_sq hx n) ha

end chain

/-- `sc25519_invert`: the 39-step addition chain computes `s^(l-2) mod l` (canonical) for EVERY 32-byte `s`
    (the inverse of `s` modulo l when `s` is not a multiple of l, and 0 otherwise) -/
theorem sc25519_invert_eq (s : Bytes) (hs : s.length = 32) :
    sc25519_invert s = toLE 32 (le s ^ (L - 2) % L) := by
  have hs1 : P s 1 s := ⟨hs, by rw [Nat.pow_one]⟩
  have hL : L - 2 = 7237005577332262213973186563042994240857116359379907606001950938285454250987 := by
    rw [ScalarP.L_val]
  rw [hL]
  unfold sc25519_invert
  extract_lets v1 v2 v3 v4 v5 v6 v7 v8 v9 v10 v11 v12 v13 v14 v15 v16 v17 v18 v19 v20 v21 v22 v23 v24 v25 v26 v27 v28 v29 v30 v31 v32 v33 v34 v35 v36 v37 v38 v39
  have h1 : Q s 2 v1 := Q_sq hs1
  have h2 : Q s 3 v2 := Q_mul hs1 h1.toP
  have h3 : Q s 4 v3 := Q_mul hs1 h2.toP
  have h4 : Q s 8 v4 := Q_sq h3.toP
  have h5 : Q s 10 v5 := Q_mul h1.toP h4.toP
  have h6 : Q s 11 v6 := Q_mul hs1 h5.toP
  have h7 : Q s 16 v7 := Q_sq h4.toP
  have h8 : Q s 22 v8 := Q_sq h6.toP
  have h9 : Q s 32 v9 := Q_mul h5.toP h8.toP
  have h10 : Q s 38 v10 := Q_mul h7.toP h8.toP
  have h11 : Q s 64 v11 := Q_sq h9.toP
  have h12 : Q s 80 v12 := Q_mul h7.toP h11.toP
  have h13 : Q s 83 v13 := Q_mul h2.toP h12.toP
  have h14 : Q s 99 v14 := Q_mul h7.toP h13.toP
  have h15 : Q s 103 v15 := Q_mul h3.toP h14.toP
  have h16 : Q s 107 v16 := Q_mul h3.toP h15.toP
  have h17 : Q s 147 v17 := Q_mul h11.toP h13.toP
  have h18 : Q s 151 v18 := Q_mul h3.toP h17.toP
  have h19 : Q s 189 v19 := Q_mul h10.toP h18.toP
  have h20 : Q s 211 v20 := Q_mul h8.toP h19.toP
  have h21 : Q s 231 v21 := Q_mul h12.toP h18.toP
  have h22 : Q s 235 v22 := Q_mul h3.toP h21.toP
  have h23 : Q s 245 v23 := Q_mul h5.toP h22.toP
  have h24 : Q s 256 v24 := Q_mul h6.toP h23.toP
  have h25 : Q s 21778071482940061661655974875633165533267 v25 := Q_sqmul 126 h24.toP h13.toP
  have h26 : Q s 11150372599265311570767859136324180753032706 v26 := Q_sqmul 9 h25.toP h1.toP
  have h27 : Q s 11150372599265311570767859136324180753032951 v27 := Q_mul h26.toP h23.toP
  have h28 : Q s 1427247692705959881058285969449495136388217831 v28 := Q_sqmul 7 h27.toP h15.toP
  have h29 : Q s 730750818665451459101842416358141509830767529717 v29 := Q_sqmul 9 h28.toP h23.toP
  have h30 : Q s 1496577676626844588240573268701473812133411900860605 v30 := Q_sqmul 11 h29.toP h19.toP
  have h31 : Q s 383123885216472214589586756787577295906153446620315111 v31 := Q_sqmul 8 h30.toP h21.toP
  have h32 : Q s 196159429230833773869868419475239575503950564669601336939 v32 := Q_sqmul 9 h31.toP h16.toP
  have h33 : Q s 12554203470773361527671578846415332832252836138854485564107 v33 := Q_sqmul 6 h32.toP h6.toP
  have h34 : Q s 205688069665150755269371147819668813123630467298991891482329235 v34 := Q_sqmul 14 h33.toP h17.toP
  have h35 : Q s 210624583337114373395836055367340864638597598514167696877905136739 v35 := Q_sqmul 10 h34.toP h14.toP
  have h36 : Q s 107839786668602559178668060348078522694961970439253860801487430010519 v36 := Q_sqmul 9 h35.toP h18.toP
  have h37 : Q s 110427941548649020598956093796432407239641057729795953460723128330771701 v37 := Q_sqmul 10 h36.toP h23.toP
  have h38 : Q s 28269553036454149273332760011886696253348110778827764085945120852677555667 v38 := Q_sqmul 8 h37.toP h20.toP
  have h39 : Q s 7237005577332262213973186563042994240857116359379907606001950938285454250987 v39 := Q_sqmul 8 h38.toP h22.toP
  exact h39.eq

/-- … which is the specification `Spec.Scalar.invert` -/
theorem sc25519_invert_eq_spec (s : Bytes) (hs : s.length = 32) :
    sc25519_invert s = Spec.Scalar.invert s := by
  rw [sc25519_invert_eq s hs, Spec.Scalar.invert, Spec.Scalar.encode, pow_eq, List.take_of_length_le (by omega),
    Nat.mod_mod]

end Sodium.ScReduceP
