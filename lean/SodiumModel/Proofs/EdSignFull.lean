import SodiumModel.Model.Ed25519Full
import SodiumModel.Properties.C04Compress
import SodiumModel.Properties.C06
/-
  Helper lemmas for `Properties/C06Full.lean`, part 3: the statement-order end-to-end model of
  `Model/Ed25519Full.lean` (streaming SHA-512 calls) against the `Model.Sign` functions over the assembled
  primitives `fullOps` (one-shot hash of the concatenation), and the hash / scalar primitives against the specification.
-/
open Sodium Sodium.Model Sodium.Model.Sign Sodium.Model.Ed25519Full Sodium.Model.Ge25519
namespace Sodium.EdSignP

/-- init / update* / final over `SHA512_Transform` = FIPS 180-4 SHA-512 of the concatenation (every chunking) -/
theorem sha_chunks (cs : List Bytes) :
    crypto_hash_sha512_final (cs.foldl crypto_hash_sha512_update crypto_hash_sha512_init) = Spec.Sha512.hash cs.flatten :=
  C04Compress.chunkLaw_sha512_ref cs

theorem sha_one (b : Bytes) : crypto_hash_sha512 b = Spec.Sha512.hash b := by
  have := sha_chunks [b]
  simpa [crypto_hash_sha512] using this

theorem sha_length (b : Bytes) : (crypto_hash_sha512 b).length = 64 := by
  rw [sha_one]; exact sha512_digest_length _

/-- the streaming calls after `hinit` hash `hinit ‖ a ‖ b ‖ c` -/
theorem hinit_chunks (ph : Bool) (cs : List Bytes) :
    crypto_hash_sha512_final (cs.foldl crypto_hash_sha512_update (_crypto_sign_ed25519_ref10_hinit ph))
      = crypto_hash_sha512 (hinit ph ++ cs.flatten) := by
  rw [sha_one]
  cases ph
  · simpa [_crypto_sign_ed25519_ref10_hinit, hinit] using sha_chunks cs
  · simpa [_crypto_sign_ed25519_ref10_hinit, hinit] using sha_chunks (DOM2PREFIX :: cs)

/-- the statement-order verifier (streaming hash) IS the `Model.Sign` verifier over the assembled primitives -/
theorem verify_full_eq (sig m pk : Bytes) (ph : Bool) :
    _crypto_sign_ed25519_verify_detached sig m pk ph = Sign.verify_detached fullOps sig m pk ph := by
  have h := hinit_chunks ph [sig.take 32, pk.take 32, m]
  simp only [List.foldl_cons, List.foldl_nil, List.flatten_cons, List.flatten_nil, List.append_nil] at h
  unfold _crypto_sign_ed25519_verify_detached Sign.verify_detached
  simp only [h, fullOps, List.append_assoc]

end Sodium.EdSignP
