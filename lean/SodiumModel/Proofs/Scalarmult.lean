import SodiumModel.Model.Scalarmult
import SodiumModel.Proofs.Utils
import SodiumModel.Spec.Curve25519
import SodiumModel.Spec.Blake2b
/-
  Helper lemmas for property C05 (X25519 wrapper, ref10 `has_small_order`, clamping,
  crypto_kx store loop).  Property theorems are in `Properties/C05.lean`.
-/
open Sodium Sodium.Model Sodium.Model.Scalarmult Sodium.Spec

namespace Sodium.ScalarmultP

/-! ### `crypto_scalarmult_curve25519`: final mask -/

set_option maxRecDepth 100000 in
theorem rcFinal_eq : ∀ d : UInt8, rcFinal d = if d = 0 then -1 else 0 := by decide +kernel

/-! ### `has_small_order`: column-major accumulation = row-wise accumulation -/

theorem zipWith_zipWith {α β γ δ : Type} (f : γ → β → δ) (g : α → β → γ) :
    ∀ (c : List α) (tbl : List β),
      List.zipWith f (List.zipWith g c tbl) tbl = List.zipWith (fun ci row => f (g ci row) row) c tbl
  | [], _ => by simp
  | _ :: _, [] => by simp
  | x :: c, r :: tbl => by simp [zipWith_zipWith f g c tbl]

def rowAcc (s row : Bytes) : Nat → Nat → UInt8 → UInt8
  | _, 0, ci => ci
  | j, n + 1, ci => rowAcc s row (j + 1) n (ci ||| (s.getD j 0 ^^^ row.getD j 0))

theorem orColumns_zip {α : Type} (tbl : List Bytes) (s : Bytes) :
    ∀ (n j : Nat) (g : α → Bytes → UInt8) (c : List α),
      orColumns tbl s j n (List.zipWith g c tbl) =
        List.zipWith (fun ci row => rowAcc s row j n (g ci row)) c tbl
  | 0, _, _, _ => rfl
  | n + 1, j, g, c => by
    rw [orColumns, orColumn, zipWith_zipWith, orColumns_zip tbl s n]
    rfl

theorem rowAcc_eq_zero (s row : Bytes) :
    ∀ (n j : Nat) (ci : UInt8),
      rowAcc s row j n ci = 0 ↔ ci = 0 ∧ ∀ t, t < n → s.getD (j + t) 0 = row.getD (j + t) 0
  | 0, _, _ => by simp [rowAcc]
  | n + 1, j, ci => by
    rw [rowAcc, rowAcc_eq_zero s row n]
    simp only [UInt8.or_eq_zero_iff, UInt8.xor_eq_zero_iff, and_assoc]
    constructor
    · rintro ⟨h0, h1, h2⟩
      refine ⟨h0, fun t ht => ?_⟩
      cases t with
      | zero => simpa using h1
      | succ t => have := h2 t (by omega); simpa [Nat.add_assoc, Nat.add_comm 1 t] using this
    · rintro ⟨h0, h⟩
      refine ⟨h0, by simpa using h 0 (by omega), fun t ht => ?_⟩
      have := h (t + 1) (by omega); simpa [Nat.add_assoc, Nat.add_comm 1 t] using this

/-! ### `has_small_order`: the final `k |= (c[i] - 1)` fold -/

set_option maxRecDepth 100000 in
theorem minus1_eq : ∀ ci : UInt8, (ci.toUInt32.toInt32 - 1).toUInt32 =
    if ci = 0 then 0xFFFFFFFF else (ci - 1).toUInt32 := by decide +kernel

theorem or_allOnes (k : UInt32) : k ||| 0xFFFFFFFF = 0xFFFFFFFF := by
  apply UInt32.eq_of_toBitVec_eq
  show k.toBitVec ||| 4294967295#32 = 4294967295#32
  have h : (4294967295#32) = BitVec.allOnes 32 := by decide
  rw [h, BitVec.or_allOnes]

theorem allOnes_or (k : UInt32) : 0xFFFFFFFF ||| k = 0xFFFFFFFF := by
  rw [UInt32.or_comm, or_allOnes]

theorem or_lt (a b : UInt32) (ha : a.toNat < 256) (hb : b.toNat < 256) : (a ||| b).toNat < 256 := by
  rw [UInt32.toNat_or]; exact Nat.or_lt_two_pow (n := 8) ha hb

theorem orMinus1_zero (k : UInt32) : orMinus1 k 0 = 0xFFFFFFFF := by
  rw [orMinus1, minus1_eq]; simp [or_allOnes]

theorem orMinus1_ones (ci : UInt8) : orMinus1 0xFFFFFFFF ci = 0xFFFFFFFF := by
  rw [orMinus1, allOnes_or]

theorem orMinus1_small (k : UInt32) (ci : UInt8) (hk : k.toNat < 256) (hc : ci ≠ 0) :
    (orMinus1 k ci).toNat < 256 := by
  rw [orMinus1, minus1_eq, if_neg hc]
  apply or_lt _ _ hk
  rw [UInt8.toNat_toUInt32]; exact (ci - 1).toNat_lt

/-- the accumulator is all-ones as soon as one `c[i]` is zero and stays below 256 otherwise -/
theorem fold_spec : ∀ (c : List UInt8) (k : UInt32), (k = 0xFFFFFFFF ∨ k.toNat < 256) →
    (c.foldl orMinus1 k = 0xFFFFFFFF ∧ (k = 0xFFFFFFFF ∨ 0 ∈ c)) ∨
    ((c.foldl orMinus1 k).toNat < 256 ∧ k ≠ 0xFFFFFFFF ∧ 0 ∉ c)
  | [], k, hk => by
    rcases hk with rfl | hk
    · simp
    · right; refine ⟨by simpa using hk, ?_, by simp⟩
      rintro rfl; simp at hk
  | ci :: c, k, hk => by
    rw [List.foldl_cons]
    rcases hk with rfl | hk
    · rw [orMinus1_ones]
      rcases fold_spec c 0xFFFFFFFF (Or.inl rfl) with h | h
      · exact Or.inl ⟨h.1, Or.inl rfl⟩
      · exact absurd rfl h.2.1
    · by_cases hc : ci = 0
      · subst hc; rw [orMinus1_zero]
        rcases fold_spec c 0xFFFFFFFF (Or.inl rfl) with h | h
        · exact Or.inl ⟨h.1, Or.inr (by simp)⟩
        · exact absurd rfl h.2.1
      · have hs := orMinus1_small k ci hk hc
        have hk' : k ≠ 0xFFFFFFFF := by rintro rfl; simp at hk
        rcases fold_spec c _ (Or.inr hs) with h | h
        · rcases h.2 with h2 | h2
          · rw [h2] at hs; simp at hs
          · exact Or.inl ⟨h.1, Or.inr (by simp [h2])⟩
        · refine Or.inr ⟨h.1, hk', ?_⟩
          simp only [List.mem_cons, not_or]; exact ⟨fun e => hc e.symm, h.2.2⟩

theorem smallOrderFinal_ones : smallOrderFinal 0xFFFFFFFF = 1 := by decide

theorem smallOrderFinal_small (k : UInt32) (hk : k.toNat < 256) : smallOrderFinal k = 0 := by
  have : k >>> 8 = 0 := by
    apply UInt32.toNat_inj.mp
    rw [UInt32.toNat_shiftRight]
    simp [Nat.shiftRight_eq_div_pow]; omega
  rw [smallOrderFinal, this]; decide

theorem smallOrder_fold (c : List UInt8) :
    smallOrderFinal (c.foldl orMinus1 0) = if 0 ∈ c then 1 else 0 := by
  rcases fold_spec c 0 (Or.inr (by decide)) with h | h
  · rcases h.2 with h2 | h2
    · exact absurd h2 (by decide)
    · rw [h.1, smallOrderFinal_ones, if_pos h2]
  · rw [smallOrderFinal_small _ h.1, if_neg h.2.2]

/-! ### clearing bit 255 of a point encoding -/

/-- `s` with bit 255 cleared (`s[31] & 0x7f`), as a 32-byte string -/
def clearTop (s : Bytes) : Bytes := s.take 31 ++ [s.getD 31 0 &&& 0x7f]

theorem ext_getD (a b : Bytes) (hl : a.length = b.length)
    (h : ∀ t, t < a.length → a.getD t 0 = b.getD t 0) : a = b := by
  apply List.ext_getElem hl
  intro i h1 h2
  have := h i h1
  simpa [List.getD_eq_getElem?_getD, h1, h2] using this

theorem getD_clearTop (s : Bytes) (hs : 31 ≤ s.length) (t : Nat) :
    (clearTop s).getD t 0 =
      if t < 31 then s.getD t 0 else if t = 31 then s.getD 31 0 &&& 0x7f else 0 := by
  simp only [clearTop, List.getD_eq_getElem?_getD, List.getElem?_append, List.length_take,
    Nat.min_eq_left hs, List.getElem?_take]
  by_cases h1 : t < 31
  · simp [h1]
  · by_cases h2 : t = 31
    · subst h2; simp
    · have : t - 31 = (t - 32) + 1 := by omega
      simp [h1, h2, this]

theorem clearTop_length (s : Bytes) (hs : 31 ≤ s.length) : (clearTop s).length = 32 := by
  simp [clearTop, Nat.min_eq_left hs]

theorem clearTop_eq_iff (s row : Bytes) (hs : s.length = 32) (hr : row.length = 32) :
    clearTop s = row ↔
      (∀ t, t < 31 → s.getD t 0 = row.getD t 0) ∧ (s.getD 31 0 &&& 0x7f) = row.getD 31 0 := by
  have hl : (clearTop s).length = 32 := clearTop_length s (by omega)
  constructor
  · intro h
    refine ⟨fun t ht => ?_, ?_⟩
    · rw [← h, getD_clearTop s (by omega), if_pos ht]
    · rw [← h, getD_clearTop s (by omega)]; simp
  · rintro ⟨h1, h2⟩
    apply ext_getD _ _ (by omega)
    intro t ht
    rw [getD_clearTop s (by omega)]
    by_cases h : t < 31
    · rw [if_pos h, h1 t h]
    · have : t = 31 := by omega
      subst this; simpa using h2

theorem blocklist_rows : ∀ row ∈ blocklist, row.length = 32 := by decide

theorem has_small_order_spec (s : Bytes) (hs : s.length = 32) :
    has_small_order s = if clearTop s ∈ blocklist then 1 else 0 := by
  have h0 : (List.replicate 7 (0 : UInt8)) = List.zipWith (fun _ _ => (0 : UInt8)) blocklist blocklist := by
    decide
  unfold has_small_order
  simp only []
  rw [h0, orColumns_zip, orColumn, zipWith_zipWith, smallOrder_fold, List.zipWith_self]
  have : (0 ∈ blocklist.map (fun row => rowAcc s row 0 31 0 ||| ((s.getD 31 0 &&& 0x7f) ^^^ row.getD 31 0)))
      ↔ clearTop s ∈ blocklist := by
    simp only [List.mem_map]
    constructor
    · rintro ⟨row, hrow, h⟩
      rw [UInt8.or_eq_zero_iff, rowAcc_eq_zero, UInt8.xor_eq_zero_iff] at h
      have := (clearTop_eq_iff s row hs (blocklist_rows row hrow)).mpr ⟨by simpa using h.1.2, h.2⟩
      rw [this]; exact hrow
    · intro h
      refine ⟨clearTop s, h, ?_⟩
      have := (clearTop_eq_iff s (clearTop s) hs (blocklist_rows _ h)).mp rfl
      rw [UInt8.or_eq_zero_iff, rowAcc_eq_zero, UInt8.xor_eq_zero_iff]
      exact ⟨⟨rfl, by simpa using this.1⟩, this.2⟩
  simp only [this]

/-! ### clamping -/

set_option maxRecDepth 100000 in
theorem and248 : ∀ x : UInt8, (x &&& 248).toNat = x.toNat - x.toNat % 8 := by decide +kernel
set_option maxRecDepth 100000 in
theorem and127or64 : ∀ y : UInt8, ((y &&& 127) ||| 64).toNat = y.toNat % 64 + 64 := by decide +kernel
set_option maxRecDepth 100000 in
theorem and7f : ∀ y : UInt8, (y &&& 0x7f).toNat = y.toNat % 128 := by decide +kernel

/-- `t[0] &= 248` on the little-endian value (any length) -/
theorem le_set0 : ∀ t : Bytes, le (t.set 0 (t.getD 0 0 &&& 248)) = le t - le t % 8
  | [] => by simp [le]
  | x :: r => by
    have := x.toNat_lt
    simp only [List.set_cons_zero, List.getD_cons_zero, le, and248]; omega

theorem snoc_of_length (t : Bytes) (n : Nat) (h : t.length = n + 1) :
    ∃ m y, t = m ++ [y] ∧ m.length = n := by
  rcases List.eq_nil_or_concat t with rfl | ⟨m, y, rfl⟩
  · simp at h
  · exact ⟨m, y, by simp, by simpa using h⟩

/-- clamping of a 32-byte scalar `m ++ [y]` -/
theorem clamp_snoc (m : Bytes) (y : UInt8) (hm : m.length = 31) :
    clamp (m ++ [y]) = m.set 0 (m.getD 0 0 &&& 248) ++ [(y &&& 127) ||| 64] := by
  match m, hm with
  | x :: m', hm =>
    have h30 : m'.length = 30 := by simpa using hm
    have ht : (x :: m' ++ [y]).take 32 = x :: (m' ++ [y]) := by
      rw [List.take_of_length_le (by simp [h30])]; rfl
    simp only [clamp, ht, List.set_cons_zero, List.getD_cons_zero, List.set_cons_succ,
      List.getD_cons_succ]
    have hs : ∀ v, (m' ++ [y]).set 30 v = m' ++ [v] := by
      intro v; rw [← h30, List.set_append_right _ _ (Nat.le_refl _)]; simp
    have hg : ∀ v, (m' ++ [v]).getD 30 0 = v := by
      intro v; simp [List.getD_eq_getElem?_getD, ← h30]
    rw [hg, hs, hg]
    have hs' : ∀ v w, (m' ++ [w]).set 30 v = m' ++ [v] := by
      intro v w; rw [← h30, List.set_append_right _ _ (Nat.le_refl _)]; simp
    rw [hs']; rfl


theorem clamp_take (k : Bytes) : clamp (k.take 32) = clamp k := by
  simp [clamp, List.take_take]

/-- the C clamping of a (≥) 32-byte scalar yields exactly `decodeScalar25519` of RFC 7748 -/
theorem le_clamp (k : Bytes) (hk : 32 ≤ k.length) : le (clamp k) = X25519.decodeScalar k := by
  obtain ⟨m, y, hmy, hm⟩ := snoc_of_length (k.take 32) 31 (by simp [Nat.min_eq_left hk])
  rw [← clamp_take, X25519.decodeScalar, hmy, clamp_snoc m y hm]
  have h1 := le_set0 m
  have h2 := le_lt m
  have hl : (m.set 0 (m.getD 0 0 &&& 248)).length = 31 := by simp [hm]
  have hy := y.toNat_lt
  simp only [le_append, hl, hm, le, and127or64, h1, Nat.mul_zero, Nat.add_zero]
  rw [hm] at h2
  simp only [Nat.reducePow] at h2 ⊢
  omega

theorem clamp_length (k : Bytes) (hk : 32 ≤ k.length) : (clamp k).length = 32 := by
  simp [clamp, Nat.min_eq_left hk]


theorem clamp_short (k : Bytes) (hk : k.length < 32) : clamp k = k.set 0 (k.getD 0 0 &&& 248) := by
  have ht : k.take 32 = k := List.take_of_length_le (by omega)
  simp only [clamp, ht]
  rw [List.set_eq_of_length_le (by simp; omega), List.set_eq_of_length_le (by simp; omega)]

theorem decodeScalar_clamp (k : Bytes) : X25519.decodeScalar (clamp k) = X25519.decodeScalar k := by
  by_cases hk : 32 ≤ k.length
  · have h1 := le_clamp k hk
    have ht : (clamp k).take 32 = clamp k := List.take_of_length_le (by rw [clamp_length k hk]; omega)
    rw [X25519.decodeScalar, ht, h1, X25519.decodeScalar]
    generalize le (k.take 32) = n
    simp only [Nat.reducePow]
    omega
  · have hk' : k.length < 32 := by omega
    have hl : (clamp k).length = k.length := by rw [clamp_short k hk']; simp
    have ht : (clamp k).take 32 = clamp k := List.take_of_length_le (by omega)
    have ht' : k.take 32 = k := List.take_of_length_le (by omega)
    rw [X25519.decodeScalar, X25519.decodeScalar, ht, ht', clamp_short k hk', le_set0]
    generalize le k = n
    simp only [Nat.reducePow]
    omega

/-! ### bit 255 of the u-coordinate -/

theorem decodeU_clearTop (u : Bytes) : X25519.decodeU (clearTop u) = X25519.decodeU u := by
  have hlen : (clearTop u).length ≤ 32 := by simp [clearTop]; omega
  rw [X25519.decodeU, X25519.decodeU, List.take_of_length_le hlen]
  congr 1
  by_cases hu : 32 ≤ u.length
  · have h31 : (u.take 31).length = 31 := by simp; omega
    have ht : u.take 32 = u.take 31 ++ [u.getD 31 0] := by
      rw [List.take_add_one]
      simp [List.getD_eq_getElem?_getD, List.getElem?_eq_getElem (show 31 < u.length by omega)]
    have h2 := le_lt (u.take 31)
    have hy := (u.getD 31 0).toNat_lt
    rw [ht, clearTop]
    simp only [le_append, h31, le, and7f, Nat.mul_zero, Nat.add_zero]
    rw [h31] at h2
    simp only [Nat.reducePow] at h2 ⊢
    omega
  · have h0 : u.getD 31 0 = 0 := by
      simp [List.getD_eq_getElem?_getD, List.getElem?_eq_none (show u.length ≤ 31 by omega)]
    have ht : u.take 32 = u := List.take_of_length_le (by omega)
    have ht' : u.take 31 = u := List.take_of_length_le (by omega)
    rw [ht, clearTop, ht', h0]
    simp [le_append, le]

set_option maxRecDepth 100000 in
theorem flip_and7f : ∀ y : UInt8, (y ^^^ 0x80) &&& 0x7f = y &&& 0x7f := by decide +kernel

theorem clearTop_flip (m : Bytes) (y : UInt8) (hm : m.length = 31) :
    clearTop (m ++ [y ^^^ 0x80]) = clearTop (m ++ [y]) := by
  simp [clearTop, List.take_append_of_le_length (show 31 ≤ m.length by omega), List.getD_eq_getElem?_getD, hm,
    flip_and7f]

/-! ### crypto_kx: the store loop -/

/-- `for (i…) b[i] = keys[i + o]` on one buffer -/
def fill (keys : Bytes) (o : Nat) : Nat → Nat → Bytes → Bytes
  | _, 0, b => b
  | i, n + 1, b => fill keys o (i + 1) n (b.set i (keys.getD (i + o) 0))

theorem storeLoop_AB (keys : Bytes) (o1 o2 : Nat) : ∀ (n i : Nat) (m : Mem),
    storeLoop keys .A .B o1 o2 i n m = ⟨fill keys o1 i n m.A, fill keys o2 i n m.B⟩
  | 0, _, _ => rfl
  | n + 1, i, m => by simp [storeLoop, Mem.store, fill, storeLoop_AB keys o1 o2 n]

theorem storeLoop_BA (keys : Bytes) (o1 o2 : Nat) : ∀ (n i : Nat) (m : Mem),
    storeLoop keys .B .A o1 o2 i n m = ⟨fill keys o2 i n m.A, fill keys o1 i n m.B⟩
  | 0, _, _ => rfl
  | n + 1, i, m => by simp [storeLoop, Mem.store, fill, storeLoop_BA keys o1 o2 n]

/-- both pointers alias buffer A: the second store of every iteration wins -/
theorem storeLoop_AA (keys : Bytes) (o1 o2 : Nat) : ∀ (n i : Nat) (m : Mem),
    storeLoop keys .A .A o1 o2 i n m = ⟨fill keys o2 i n m.A, m.B⟩
  | 0, _, _ => rfl
  | n + 1, i, m => by simp [storeLoop, Mem.store, fill, storeLoop_AA keys o1 o2 n, List.set_set]

theorem storeLoop_BB (keys : Bytes) (o1 o2 : Nat) : ∀ (n i : Nat) (m : Mem),
    storeLoop keys .B .B o1 o2 i n m = ⟨m.A, fill keys o2 i n m.B⟩
  | 0, _, _ => rfl
  | n + 1, i, m => by simp [storeLoop, Mem.store, fill, storeLoop_BB keys o1 o2 n, List.set_set]

theorem fill_length (keys : Bytes) (o : Nat) : ∀ (n i : Nat) (b : Bytes), (fill keys o i n b).length = b.length
  | 0, _, _ => rfl
  | n + 1, i, b => by rw [fill, fill_length keys o n]; simp

theorem getElem?_fill (keys : Bytes) (o : Nat) : ∀ (n i : Nat) (b : Bytes) (t : Nat),
    (fill keys o i n b)[t]? =
      if i ≤ t ∧ t < i + n ∧ t < b.length then some (keys.getD (t + o) 0) else b[t]?
  | 0, i, b, t => by simp [fill]; omega
  | n + 1, i, b, t => by
    rw [fill, getElem?_fill keys o n, List.getElem?_set, List.length_set]
    by_cases h1 : i = t
    · subst h1
      by_cases h2 : i < b.length
      · simp [h2]
      · simp [h2]
    · by_cases h2 : i + 1 ≤ t ∧ t < i + 1 + n ∧ t < b.length
      · rw [if_pos h2, if_pos (by omega)]
      · rw [if_neg h2, if_neg h1, if_neg (by omega)]

/-- a full pass over a 32-byte buffer copies `keys[o .. o+32)` -/
theorem fill_all (keys b : Bytes) (o : Nat) (hb : b.length = 32) (hk : o + 32 ≤ keys.length) :
    fill keys o 0 32 b = (keys.drop o).take 32 := by
  apply List.ext_getElem?
  intro t
  rw [getElem?_fill, List.getElem?_take, List.getElem?_drop, hb]
  by_cases ht : t < 32
  · rw [if_pos (by omega), if_pos ht, List.getD_eq_getElem?_getD, Nat.add_comm,
      List.getElem?_eq_getElem (by omega)]; rfl
  · rw [if_neg (by omega), if_neg ht, List.getElem?_eq_none (by omega)]

/-! ### crypto_kx: the body after the pointer fix-up -/

theorem kxBody_fail (mult : Bytes → Bytes → Option Bytes) (H : Bytes → Bytes) (server : Bool)
    (rx tx : Ptr) (rxp txp : Buf) (m : Mem) (cpk spk sk pk : Bytes)
    (ha : aliasPtrs rx tx = (some rxp, some txp))
    (hf : (crypto_scalarmult_curve25519 mult sk pk).1 ≠ 0) :
    kxBody mult H server rx tx m cpk spk sk pk = .ret (-1) m := by
  unfold kxBody
  rw [ha]
  simp only []
  rw [if_pos (by simpa using hf)]

theorem kxBody_ok (mult : Bytes → Bytes → Option Bytes) (H : Bytes → Bytes) (server : Bool)
    (rx tx : Ptr) (rxp txp : Buf) (m : Mem) (cpk spk sk pk q : Bytes)
    (ha : aliasPtrs rx tx = (some rxp, some txp))
    (hq : crypto_scalarmult_curve25519 mult sk pk = (0, some q)) :
    kxBody mult H server rx tx m cpk spk sk pk =
      .ret 0 (if server then storeLoop (H (q.take 32 ++ cpk.take 32 ++ spk.take 32)) txp rxp 0 32 0 32 m
              else storeLoop (H (q.take 32 ++ cpk.take 32 ++ spk.take 32)) rxp txp 0 32 0 32 m) := by
  unfold kxBody
  rw [ha, hq]
  cases server <;> simp

/-! ### the wrapper over the two implementations -/

theorem scalarmult_some (mult : Bytes → Bytes → Option Bytes) (n p q : Bytes)
    (hm : mult n p = some q) (hq : q.length = 32) :
    crypto_scalarmult_curve25519 mult n p = (if q = zeros 32 then -1 else 0, some q) := by
  have h := orAll_eq_zero q 0
  simp only [true_and, hq] at h
  rw [crypto_scalarmult_curve25519, hm]
  simp only [List.take_of_length_le (Nat.le_of_eq hq), rcFinal_eq, h]

theorem scalarmult_none (mult : Bytes → Bytes → Option Bytes) (n p : Bytes) (hm : mult n p = none) :
    crypto_scalarmult_curve25519 mult n p = (-1, none) := by
  rw [crypto_scalarmult_curve25519, hm]

/-- the wrapper only ever returns 0 or -1 -/
theorem scalarmult_rc (mult : Bytes → Bytes → Option Bytes) (n p : Bytes) :
    (crypto_scalarmult_curve25519 mult n p).1 = 0 ∨ (crypto_scalarmult_curve25519 mult n p).1 = -1 := by
  rw [crypto_scalarmult_curve25519]
  cases mult n p with
  | none => exact Or.inr rfl
  | some q => simp only [rcFinal_eq]; split <;> simp

/-- a zero return code means the implementation wrote `q` -/
theorem scalarmult_rc0 (mult : Bytes → Bytes → Option Bytes) (n p : Bytes)
    (h : (crypto_scalarmult_curve25519 mult n p).1 = 0) :
    ∃ q, mult n p = some q ∧ crypto_scalarmult_curve25519 mult n p = (0, some q) := by
  rw [crypto_scalarmult_curve25519] at h ⊢
  cases hm : mult n p with
  | none => rw [hm] at h; simp at h
  | some q => rw [hm] at h; exact ⟨q, rfl, by simpa using h⟩

/-! ### instantiation with the RFC 7748 specification -/

theorem x25519_length (k u : Bytes) : (X25519.x25519 k u).length = 32 := by
  simp [X25519.x25519, X25519.encodeU, toLE_length]

theorem x25519_clamp (k u : Bytes) : X25519.x25519 (clamp k) u = X25519.x25519 k u := by
  simp [X25519.x25519, decodeScalar_clamp]

theorem x25519_clearTop (k u : Bytes) : X25519.x25519 k (clearTop u) = X25519.x25519 k u := by
  simp [X25519.x25519, decodeU_clearTop]

theorem spec_scalarmult_eq (n p : Bytes) :
    X25519.scalarmult n p =
      if X25519.x25519 n p = zeros 32 then none else some (X25519.x25519 n p) := by
  simp [X25519.scalarmult]

theorem blake2b_digest_length (h : Blake2b.State) (n : Nat) (hn : n ≤ 64) :
    (Blake2b.digest h n).length = n := by
  simp [Blake2b.digest, List.range, List.range.loop, toLE_length]; omega

/-- BLAKE2b with `outlen ≤ 64` returns `outlen` bytes -/
theorem blake2b_length (n : Nat) (hn : n ≤ 64) (key salt pers x : Bytes) :
    (Blake2b.hash n key salt pers x).length = n := by
  unfold Blake2b.hash
  exact blake2b_digest_length _ _ hn

end Sodium.ScalarmultP
