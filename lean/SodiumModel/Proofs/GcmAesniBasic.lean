import SodiumModel.Model.GcmAesni
import SodiumModel.Spec.Gcm
/-
  AES-NI AES-256-GCM model (`Model/GcmAesni.lean`): register / byte-image lemmas.

  `LOAD128` / `STORE128` are the little-endian byte image of a register, `REV128` (PSHUFB with the
  constant mask 15, 14, …, 0) reverses the sixteen bytes, so `STORE128 (REV128 v)` is the BIG-endian
  image of the number `v.toNat`; `ADD64x2 · ONE128` adds 1 to the low 64-bit lane (no carry into the
  high lane).  Core Lean only, self-contained (the `le`/`toLE`/`be`/`toBE` lemmas are re-proved here).
-/
namespace Sodium.GcmAesniP.Ctr
open Sodium Sodium.Spec Sodium.Model.GcmAesni

/-! ### little-endian / big-endian value lemmas -/

theorem le_lt : ∀ b : Bytes, le b < 256 ^ b.length
  | [] => by simp [le]
  | x :: xs => by
    have := le_lt xs
    have hx := x.toNat_lt
    simp only [le, List.length_cons, Nat.pow_succ]
    omega

theorem le_inj : ∀ a b : Bytes, a.length = b.length → le a = le b → a = b
  | [], [], _, _ => rfl
  | x :: xs, y :: ys, hl, h => by
    simp only [le] at h
    have hx := x.toNat_lt; have hy := y.toNat_lt
    have h1 : x.toNat = y.toNat := by omega
    have h2 : le xs = le ys := by omega
    rw [UInt8.toNat_inj.mp h1, le_inj xs ys (by simpa using hl) h2]
  | [], _ :: _, h, _ => by simp at h
  | _ :: _, [], h, _ => by simp at h

theorem le_append (a b : Bytes) : le (a ++ b) = le a + 256 ^ a.length * le b := by
  induction a with
  | nil => simp [le]
  | cons x xs ih =>
    simp only [List.cons_append, le, ih, List.length_cons, Nat.pow_succ, Nat.mul_add, Nat.add_assoc]
    congr 2
    simp only [Nat.mul_assoc, Nat.mul_comm]

theorem toLE_length (n v : Nat) : (toLE n v).length = n := by
  induction n generalizing v with
  | zero => rfl
  | succ n ih => simp [toLE, ih]

theorem le_toLE (n v : Nat) : le (toLE n v) = v % 256 ^ n := by
  induction n generalizing v with
  | zero => simp [toLE, le, Nat.mod_one]
  | succ n ih =>
    simp only [toLE, le, ih, Nat.pow_succ]
    have : (UInt8.ofNat (v % 256)).toNat = v % 256 := by simp
    rw [this, Nat.mul_comm (256 ^ n) 256, Nat.mod_mul]

theorem toLE_le (n : Nat) (b : Bytes) (h : b.length = n) : toLE n (le b) = b := by
  apply le_inj
  · rw [toLE_length, h]
  · rw [le_toLE, ← h, Nat.mod_eq_of_lt (le_lt b)]

theorem toLE_mod (n v : Nat) : toLE n (v % 256 ^ n) = toLE n v := by
  apply le_inj
  · rw [toLE_length, toLE_length]
  · rw [le_toLE, le_toLE, Nat.mod_mod]

theorem toBE_length (n v : Nat) : (toBE n v).length = n := by
  simp [toBE, toLE_length]

theorem be_lt (b : Bytes) : be b < 256 ^ b.length := by
  have := le_lt b.reverse
  simpa [be] using this

theorem be_toBE (n v : Nat) : be (toBE n v) = v % 256 ^ n := by
  simp [be, toBE, le_toLE]

theorem toBE_be (n : Nat) (b : Bytes) (h : b.length = n) : toBE n (be b) = b := by
  unfold toBE be
  rw [toLE_le n b.reverse (by simpa using h), List.reverse_reverse]

theorem toBE_mod (n v : Nat) : toBE n (v % 256 ^ n) = toBE n v := by
  unfold toBE; rw [toLE_mod]

theorem be_append (a b : Bytes) : be (a ++ b) = be a * 256 ^ b.length + be b := by
  unfold be
  rw [List.reverse_append, le_append, List.length_reverse, Nat.mul_comm, Nat.add_comm]

theorem be_inj (a b : Bytes) (hl : a.length = b.length) (h : be a = be b) : a = b := by
  have := le_inj a.reverse b.reverse (by simpa using hl) h
  simpa using this

/-- big-endian encoding of a concatenated value -/
theorem toBE_add (m n a b : Nat) (hb : b < 256 ^ n) :
    toBE (m + n) (a * 256 ^ n + b) = toBE m a ++ toBE n b := by
  apply be_inj
  · simp [toBE_length]
  · rw [be_append, be_toBE, be_toBE, be_toBE, toBE_length, Nat.mod_eq_of_lt hb, Nat.pow_add,
      Nat.mul_comm (256 ^ m) (256 ^ n), Nat.mod_mul]
    have h0 : 0 < 256 ^ n := Nat.pow_pos (by decide)
    have h1 : (a * 256 ^ n + b) % 256 ^ n = b := by
      rw [Nat.mul_comm, Nat.mul_add_mod, Nat.mod_eq_of_lt hb]
    have h2 : (a * 256 ^ n + b) / 256 ^ n = a := by
      rw [Nat.mul_comm, Nat.mul_add_div h0, Nat.div_eq_of_lt hb, Nat.add_zero]
    rw [h1, h2, Nat.mul_comm, Nat.add_comm]

/-! ### `LOAD128` / `STORE128` -/

theorem STORE128_length (v : BlockVec) : (STORE128 v).length = 16 := toLE_length 16 _

theorem le_lt_16 (b : Bytes) (h : b.length = 16) : le b < 2 ^ 128 := by
  have := le_lt b
  rw [h] at this
  exact this

theorem LOAD128_toNat (b : Bytes) (h : b.length = 16) : (LOAD128 b).toNat = le b := by
  have ht : b.take 16 = b := List.take_of_length_le (by omega)
  simp only [LOAD128, mm_loadu_si128, BitVec.toNat_ofNat, ht]
  exact Nat.mod_eq_of_lt (le_lt_16 b h)

theorem STORE128_LOAD128 (b : Bytes) (h : b.length = 16) : STORE128 (LOAD128 b) = b := by
  show toLE 16 (LOAD128 b).toNat = b
  rw [LOAD128_toNat b h, toLE_le 16 b h]

theorem LOAD128_STORE128 (v : BlockVec) : LOAD128 (STORE128 v) = v := by
  apply BitVec.eq_of_toNat_eq
  rw [LOAD128_toNat _ (STORE128_length v)]
  show le (toLE 16 v.toNat) = v.toNat
  rw [le_toLE]
  exact Nat.mod_eq_of_lt v.isLt

theorem STORE128_inj (a b : BlockVec) (h : STORE128 a = STORE128 b) : a = b := by
  rw [← LOAD128_STORE128 a, h, LOAD128_STORE128]

/-! ### `REV128` -/

/-- the byte image of the PSHUFB mask of `REV128` -/
theorem rev_mask_bytes :
    mm_storeu_si128 (mm_set_epi8 0 1 2 3 4 5 6 7 8 9 10 11 12 13 14 15)
      = [15, 14, 13, 12, 11, 10, 9, 8, 7, 6, 5, 4, 3, 2, 1, 0] := by decide +kernel

theorem list_len16 (l : Bytes) (h : l.length = 16) :
    ∃ a0 a1 a2 a3 a4 a5 a6 a7 a8 a9 a10 a11 a12 a13 a14 a15,
      l = [a0, a1, a2, a3, a4, a5, a6, a7, a8, a9, a10, a11, a12, a13, a14, a15] := by
  match l, h with
  | [a0, a1, a2, a3, a4, a5, a6, a7, a8, a9, a10, a11, a12, a13, a14, a15], _ =>
    exact ⟨a0, a1, a2, a3, a4, a5, a6, a7, a8, a9, a10, a11, a12, a13, a14, a15, rfl⟩

/-- `REV128` reverses the sixteen bytes of the register. -/
theorem REV128_eq (v : BlockVec) : REV128 v = LOAD128 (STORE128 v).reverse := by
  obtain ⟨a0, a1, a2, a3, a4, a5, a6, a7, a8, a9, a10, a11, a12, a13, a14, a15, h⟩ :=
    list_len16 (STORE128 v) (STORE128_length v)
  have h' : mm_storeu_si128 v = _ := h
  simp only [REV128, mm_shuffle_epi8, rev_mask_bytes, h, h', LOAD128]
  rfl

theorem REV128_REV128 (v : BlockVec) : REV128 (REV128 v) = v := by
  rw [REV128_eq (REV128 v), REV128_eq v,
    STORE128_LOAD128 _ (by rw [List.length_reverse, STORE128_length]), List.reverse_reverse,
    LOAD128_STORE128]

theorem REV128_LOAD128 (b : Bytes) (h : b.length = 16) : REV128 (LOAD128 b) = LOAD128 b.reverse := by
  rw [REV128_eq, STORE128_LOAD128 b h]

theorem REV128_LOAD128_toNat (b : Bytes) (h : b.length = 16) : (REV128 (LOAD128 b)).toNat = be b := by
  rw [REV128_LOAD128 b h, LOAD128_toNat _ (by rw [List.length_reverse, h])]
  rfl

/-- the stored image of `REV128 v` is the BIG-endian encoding of the number in `v` -/
theorem STORE128_REV128 (v : BlockVec) : STORE128 (REV128 v) = toBE 16 v.toNat := by
  rw [REV128_eq, STORE128_LOAD128 _ (by rw [List.length_reverse, STORE128_length])]
  rfl

theorem REV128_toNat (v : BlockVec) : (REV128 v).toNat = be (STORE128 v) := by
  rw [REV128_eq, LOAD128_toNat _ (by rw [List.length_reverse, STORE128_length])]
  rfl

/-! ### `XOR128` -/

theorem toLE_xor (n a b : Nat) : toLE n (a ^^^ b) = xorBytes (toLE n a) (toLE n b) := by
  induction n generalizing a b with
  | zero => rfl
  | succ n ih =>
    simp only [toLE, xorBytes]
    rw [show (256 : Nat) = 2 ^ 8 from rfl, Nat.xor_div_two_pow, ih, Nat.xor_mod_two_pow, UInt8.ofNat_xor]

theorem STORE128_XOR128 (a b : BlockVec) :
    STORE128 (XOR128 a b) = xorBytes (STORE128 a) (STORE128 b) := by
  show toLE 16 (a ^^^ b).toNat = _
  rw [BitVec.toNat_xor, toLE_xor]
  rfl

theorem xorBytes_length : ∀ (a b : Bytes), a.length = b.length → (xorBytes a b).length = a.length
  | [], [], _ => rfl
  | x :: xs, y :: ys, h => by
    simp only [xorBytes, List.length_cons, xorBytes_length xs ys (by simpa using h)]
  | [], _ :: _, h => by simp at h
  | _ :: _, [], h => by simp at h

theorem LOAD128_xorBytes (x y : Bytes) (hx : x.length = 16) (hy : y.length = 16) :
    LOAD128 (xorBytes x y) = XOR128 (LOAD128 x) (LOAD128 y) := by
  apply STORE128_inj
  rw [STORE128_XOR128, STORE128_LOAD128 x hx, STORE128_LOAD128 y hy,
    STORE128_LOAD128 _ (by rw [xorBytes_length x y (by omega), hx])]

theorem REV128_XOR128 (a b : BlockVec) : REV128 (XOR128 a b) = XOR128 (REV128 a) (REV128 b) := by
  obtain ⟨a0, a1, a2, a3, a4, a5, a6, a7, a8, a9, a10, a11, a12, a13, a14, a15, ha⟩ :=
    list_len16 (STORE128 a) (STORE128_length a)
  obtain ⟨b0, b1, b2, b3, b4, b5, b6, b7, b8, b9, b10, b11, b12, b13, b14, b15, hb⟩ :=
    list_len16 (STORE128 b) (STORE128_length b)
  rw [REV128_eq, REV128_eq a, REV128_eq b, STORE128_XOR128,
    ← LOAD128_xorBytes _ _ (by rw [List.length_reverse, STORE128_length])
      (by rw [List.length_reverse, STORE128_length]), ha, hb]
  rfl

/-! ### `ADD64x2 · ONE128`: 64-bit add on the low lane -/

theorem ONE128_toNat : ONE128.toNat = 1 := by decide +kernel

/-- general (wrap-around) form: the high lane is unchanged, the low lane is `(lo + 1) % 2^64`:
    the carry out of the low lane is LOST. -/
theorem ADD64x2_ONE128_toNat_gen (c : BlockVec) :
    (ADD64x2 c ONE128).toNat = c.toNat / 2 ^ 64 * 2 ^ 64 + (c.toNat % 2 ^ 64 + 1) % 2 ^ 64 := by
  have hc := c.isLt
  simp only [ADD64x2, mm_add_epi64, ofQ, q0, q1, BitVec.toNat_ofNat, UInt64.toNat_add,
    UInt64.toNat_ofNat', ONE128_toNat]
  omega

theorem ADD64x2_ONE128_toNat (c : BlockVec) (h : c.toNat % 2 ^ 64 + 1 < 2 ^ 64) :
    (ADD64x2 c ONE128).toNat = c.toNat + 1 := by
  rw [ADD64x2_ONE128_toNat_gen]
  omega

/-- the two lanes after the add -/
theorem ADD64x2_ONE128_lanes (c : BlockVec) :
    (ADD64x2 c ONE128).toNat / 2 ^ 64 = c.toNat / 2 ^ 64 ∧
    (ADD64x2 c ONE128).toNat % 2 ^ 64 = (c.toNat % 2 ^ 64 + 1) % 2 ^ 64 := by
  rw [ADD64x2_ONE128_toNat_gen]
  omega

/-! ### `STORE32_BE` -/

theorem STORE32_BE_eq (w : UInt32) : STORE32_BE w = toBE 4 w.toNat := by
  have hw := w.toNat_lt
  have e8 : (8 : UInt32).toNat % 32 = 8 := by decide
  have e16 : (16 : UInt32).toNat % 32 = 16 := by decide
  have e24 : (24 : UInt32).toNat % 32 = 24 := by decide
  simp only [STORE32_BE, toBE, toLE, List.reverse_cons, List.reverse_nil, List.nil_append,
    List.cons_append, List.cons.injEq, and_true]
  refine ⟨?_, ?_, ?_, ?_⟩ <;> apply UInt8.toNat_inj.mp <;>
    simp only [UInt32.toNat_toUInt8, UInt32.toNat_shiftRight, e8, e16, e24, Nat.shiftRight_eq_div_pow,
      UInt8.toNat_ofNat'] <;> omega

theorem STORE32_BE_length (w : UInt32) : (STORE32_BE w).length = 4 := rfl

end Sodium.GcmAesniP.Ctr
