import Mathlib.Tactic.Ring
import Mathlib.Data.Int.ModEq
import SodiumModel.Proofs.Fe25Reduce
import SodiumModel.Proofs.LadderRef10
import SodiumModel.Properties.C14
set_option linter.unusedVariables false
/-
  Radix-2^25.5 field arithmetic, last part: `fe25519_cswap` / `fe25519_cmov`, `fe25519_isnegative` / `fe25519_iszero`,
  the addition chains `fe25519_invert` / `fe25519_pow22523`, and the refinement package: the limb arithmetic refines the
  specification field with tight/loose representatives (`RefinesTT`: like `Fe51P.RefinesTL`, but `sub` needs BOTH
  operands tight, because the signed-limb `fe25519_sub` is a plain limb-wise difference with no carry and no bias),
  hence the X25519 ladder over it returns what the ladder over the specification field returns.
-/
open Sodium Sodium.Model Sodium.Model.Fe25 Sodium.Model.LadderRef10 Sodium.Spec Sodium.ScReduceP Sodium.LadderRef10P
namespace Sodium.Fe25P

/-! ### fe25519_cswap, fe25519_cmov -/

theorem m0 : (-((0 : UInt32).toUInt64.toInt64)).toInt32.toUInt32 = 0 := by decide
theorem m1 : (-((1 : UInt32).toUInt64.toInt64)).toInt32.toUInt32 = 0 - 1 := by decide
theorem c0 : (-((0 : UInt32).toInt32)).toUInt32 = 0 := by decide
theorem c1 : (-((1 : UInt32).toInt32)).toUInt32 = 0 - 1 := by decide
theorem xz (a b : Int32) : a ^^^ ((a ^^^ b).toUInt32 &&& 0).toInt32 = a := by
  rw [UInt32.and_zero]; show a ^^^ 0 = a; exact Int32.xor_zero
theorem xo (a b : Int32) : a ^^^ ((a ^^^ b).toUInt32 &&& (0 - 1)).toInt32 = b := by
  have : (0 : UInt32) - 1 = -1 := by decide
  rw [this, UInt32.and_neg_one, Int32.toInt32_toUInt32, ← Int32.xor_assoc, Int32.xor_self, Int32.zero_xor]
theorem xz' (a b : Int32) : b ^^^ ((a ^^^ b).toUInt32 &&& 0).toInt32 = b := by
  rw [UInt32.and_zero]; show b ^^^ 0 = b; exact Int32.xor_zero
theorem xo' (a b : Int32) : b ^^^ ((a ^^^ b).toUInt32 &&& (0 - 1)).toInt32 = a := by
  rw [Int32.xor_comm a b]; exact xo b a
theorem cswap0 (f g : Fe) : fe25519_cswap f g 0 = (f, g) := by
  simp only [fe25519_cswap, m0, xz, xz']
theorem cswap1 (f g : Fe) : fe25519_cswap f g 1 = (g, f) := by
  simp only [fe25519_cswap, m1, xo, xo']
theorem cmov0 (f g : Fe) : fe25519_cmov f g 0 = f := by
  simp only [fe25519_cmov, c0, xz]
theorem cmov1 (f g : Fe) : fe25519_cmov f g 1 = g := by
  simp only [fe25519_cmov, c1, xo]

/-! ### fe25519_isnegative, fe25519_iszero -/

theorem isnegative_spec {f : Fe} (hf : Loose f) (hyp : 0 ≤ 19 * f.l9.toInt + 16777216 ∨ -P ≤ val f) :
    fe25519_isnegative f = if F25519.isNegative (fval f) then 1 else 0 := by
  rw [fe25519_isnegative, tobytes_spec hf hyp, F25519.toBytes, Fe51P.toLE_head, Fe51P.bit0, F25519.isNegative]
  have : (UInt8.ofNat (fval f % F25519.p % 256)).toNat % 2 = fval f % F25519.p % 2 := by
    rw [UInt8.toNat_ofNat']; omega
  rw [this]
  by_cases h : fval f % F25519.p % 2 = 1 <;> simp [h]

theorem iszero_spec {f : Fe} (hf : Loose f) (hyp : 0 ≤ 19 * f.l9.toInt + 16777216 ∨ -P ≤ val f) :
    fe25519_iszero f = if F25519.isZero (fval f) then 1 else 0 := by
  have hv : fval f % F25519.p < 2 ^ 256 := Nat.lt_trans (Nat.mod_lt _ (by decide)) (by decide)
  rw [fe25519_iszero, tobytes_spec hf hyp, F25519.toBytes, C14.is_zero_exact, toLE_length, F25519.isZero]
  by_cases h : fval f % F25519.p = 0
  · simp [h]; decide
  · have : ¬ toLE 32 (fval f % F25519.p) = zeros 32 := fun e => h ((Fe51P.toLE32_zero_iff _ hv).1 e)
    simp [h, this]

/-! ### fe25519_invert, fe25519_pow22523 -/

/-- `t` is a loosely bounded (in fact carried) representative of `x^k` -/
def IsPow (x : Int) (t : Fe) (k : Nat) : Prop := Loose t ∧ val t % P = x ^ k % P

theorem IsPow.sq {x : Int} {t : Fe} {k : Nat} (h : IsPow x t k) : IsPow x (fe25519_sq t) (2 * k) := by
  obtain ⟨h1, h2⟩ := sq_spec h.1
  refine ⟨h1.loose, ?_⟩
  have e : 2 * k = k + k := by omega
  rw [h2, Int.mul_emod, h.2, ← Int.mul_emod, ← pow_add, e]

theorem IsPow.mul {x : Int} {s t : Fe} {j k : Nat} (hs : IsPow x s j) (ht : IsPow x t k) :
    IsPow x (fe25519_mul s t) (j + k) := by
  obtain ⟨h1, h2⟩ := mul_spec hs.1 ht.1
  refine ⟨h1.loose, ?_⟩
  rw [h2, Int.mul_emod, hs.2, ht.2, ← Int.mul_emod, ← pow_add]

theorem iter_zero (g : Fe → Fe) (t : Fe) : iter g 0 t = t := rfl
theorem iter_succ (g : Fe → Fe) (n : Nat) (t : Fe) : iter g (n + 1) t = iter g n (g t) := rfl
theorem sqN_zero (t : Fe) : sqN 0 t = t := iter_zero _ t
theorem sqN_succ (n : Nat) (t : Fe) : sqN (n + 1) t = sqN n (fe25519_sq t) := iter_succ _ n t

theorem IsPow.sqN {x : Int} : ∀ (n : Nat) {t : Fe} {k : Nat}, IsPow x t k → IsPow x (sqN n t) (2 ^ n * k)
  | 0, t, k, h => by rw [sqN_zero, Nat.pow_zero, Nat.one_mul]; exact h
  | n + 1, t, k, h => by
    have := IsPow.sqN n h.sq
    rw [sqN_succ]
    have e : 2 ^ (n + 1) * k = 2 ^ n * (2 * k) := by rw [Nat.pow_succ, Nat.mul_assoc]
    rw [e]; exact this

theorem IsPow.cast {x : Int} {t : Fe} {k k' : Nat} (h : IsPow x t k) (e : k = k') : IsPow x t k' := e ▸ h

theorem invert_pow {z : Fe} (hz : Loose z) :
    IsPow (val z) (fe25519_invert z) (2 ^ 255 - 21) ∧ Carried (fe25519_invert z) := by
  have z1 : IsPow (val z) z 1 := ⟨hz, by rw [pow_one]⟩
  have a0 : IsPow (val z) _ 2 := z1.sq                                            -- t0 = z^2
  have a1 : IsPow (val z) _ 8 := (a0.sq).sq                                       -- t1 = z^8
  have a2 : IsPow (val z) _ 9 := z1.mul a1                                        -- t1 = z^9
  have a3 : IsPow (val z) _ 11 := a0.mul a2                                       -- t0 = z^11
  have a4 : IsPow (val z) _ 22 := a3.sq                                           -- t2 = z^22
  have a5 : IsPow (val z) _ (2 ^ 5 - 1) := a2.mul a4                              -- t1 = z^31
  have a6 : IsPow (val z) _ (2 ^ 10 - 2 ^ 5) := (IsPow.sqN 4 a5.sq).cast (by decide)
  have a7 : IsPow (val z) _ (2 ^ 10 - 1) := (a6.mul a5).cast (by decide)         -- t1
  have a8 : IsPow (val z) _ (2 ^ 20 - 2 ^ 10) := (IsPow.sqN 9 a7.sq).cast (by decide)
  have a9 : IsPow (val z) _ (2 ^ 20 - 1) := (a8.mul a7).cast (by decide)         -- t2
  have a10 : IsPow (val z) _ (2 ^ 40 - 2 ^ 20) := (IsPow.sqN 19 a9.sq).cast (by decide)
  have a11 : IsPow (val z) _ (2 ^ 40 - 1) := (a10.mul a9).cast (by decide)       -- t2
  have a12 : IsPow (val z) _ (2 ^ 50 - 2 ^ 10) := (IsPow.sqN 10 a11).cast (by decide)
  have a13 : IsPow (val z) _ (2 ^ 50 - 1) := (a12.mul a7).cast (by decide)       -- t1
  have a14 : IsPow (val z) _ (2 ^ 100 - 2 ^ 50) := (IsPow.sqN 49 a13.sq).cast (by decide)
  have a15 : IsPow (val z) _ (2 ^ 100 - 1) := (a14.mul a13).cast (by decide)     -- t2
  have a16 : IsPow (val z) _ (2 ^ 200 - 2 ^ 100) := (IsPow.sqN 99 a15.sq).cast (by decide)
  have a17 : IsPow (val z) _ (2 ^ 200 - 1) := (a16.mul a15).cast (by decide)     -- t2
  have a18 : IsPow (val z) _ (2 ^ 250 - 2 ^ 50) := (IsPow.sqN 50 a17).cast (by decide)
  have a19 : IsPow (val z) _ (2 ^ 250 - 1) := (a18.mul a13).cast (by decide)     -- t1
  have a20 : IsPow (val z) _ (2 ^ 255 - 2 ^ 5) := (IsPow.sqN 5 a19).cast (by decide)
  have a21 : IsPow (val z) _ (2 ^ 255 - 21) := (a20.mul a3).cast (by decide)     -- out
  exact ⟨a21, (mul_spec a20.1 a3.1).1⟩

/-- `fe25519_pow22523`: z^(2^252 - 3) -/
theorem pow22523_pow {z : Fe} (hz : Loose z) :
    IsPow (val z) (fe25519_pow22523 z) (2 ^ 252 - 3) ∧ Carried (fe25519_pow22523 z) := by
  have z1 : IsPow (val z) z 1 := ⟨hz, by rw [pow_one]⟩
  have a0 : IsPow (val z) _ 2 := z1.sq                                            -- t0 = z^2
  have a1 : IsPow (val z) _ 8 := (a0.sq).sq                                       -- t1 = z^8
  have a2 : IsPow (val z) _ 9 := z1.mul a1                                        -- t1 = z^9
  have a3 : IsPow (val z) _ 11 := a0.mul a2                                       -- t0 = z^11
  have a4 : IsPow (val z) _ 22 := a3.sq                                           -- t0 = z^22
  have a5 : IsPow (val z) _ (2 ^ 5 - 1) := a2.mul a4                              -- t0 = z^31
  have a6 : IsPow (val z) _ (2 ^ 10 - 2 ^ 5) := (IsPow.sqN 4 a5.sq).cast (by decide)
  have a7 : IsPow (val z) _ (2 ^ 10 - 1) := (a6.mul a5).cast (by decide)         -- t0
  have a8 : IsPow (val z) _ (2 ^ 20 - 2 ^ 10) := (IsPow.sqN 9 a7.sq).cast (by decide)
  have a9 : IsPow (val z) _ (2 ^ 20 - 1) := (a8.mul a7).cast (by decide)         -- t1
  have a10 : IsPow (val z) _ (2 ^ 40 - 2 ^ 20) := (IsPow.sqN 19 a9.sq).cast (by decide)
  have a11 : IsPow (val z) _ (2 ^ 40 - 1) := (a10.mul a9).cast (by decide)       -- t1
  have a12 : IsPow (val z) _ (2 ^ 50 - 2 ^ 10) := (IsPow.sqN 10 a11).cast (by decide)
  have a13 : IsPow (val z) _ (2 ^ 50 - 1) := (a12.mul a7).cast (by decide)       -- t0
  have a14 : IsPow (val z) _ (2 ^ 100 - 2 ^ 50) := (IsPow.sqN 49 a13.sq).cast (by decide)
  have a15 : IsPow (val z) _ (2 ^ 100 - 1) := (a14.mul a13).cast (by decide)     -- t1
  have a16 : IsPow (val z) _ (2 ^ 200 - 2 ^ 100) := (IsPow.sqN 99 a15.sq).cast (by decide)
  have a17 : IsPow (val z) _ (2 ^ 200 - 1) := (a16.mul a15).cast (by decide)     -- t1
  have a18 : IsPow (val z) _ (2 ^ 250 - 2 ^ 50) := (IsPow.sqN 50 a17).cast (by decide)
  have a19 : IsPow (val z) _ (2 ^ 250 - 1) := (a18.mul a13).cast (by decide)     -- t0
  have a20 : IsPow (val z) _ (2 ^ 252 - 4) := (a19.sq.sq).cast (by decide)       -- t0
  have a21 : IsPow (val z) _ (2 ^ 252 - 3) := (a20.mul z1).cast (by decide)      -- out
  exact ⟨a21, (mul_spec a20.1 z1.1).1⟩

theorem pow_emod (x : Int) (e : Nat) : (x % P) ^ e % P = x ^ e % P := ((Int.mod_modEq x P).pow e)

/-- powers: `Int` modulo p ↔ the specification's natural-number power -/
theorem fpow_eq (x : Int) (e : Nat) : (x ^ e % P).toNat = (x % P).toNat ^ e % F25519.p := by
  apply toNat_eq_of_cast
  rw [Int.natCast_mod, Int.natCast_pow, fval_cast, P_cast, pow_emod]

theorem invert_spec {z : Fe} (hz : Loose z) :
    Carried (fe25519_invert z) ∧ fval (fe25519_invert z) = F25519.inv (fval z) := by
  obtain ⟨h1, h2⟩ := invert_pow hz
  refine ⟨h2, ?_⟩
  rw [fval, h1.2, fpow_eq, Fe51P.inv_eq]; rfl

/-! ### two-level refinement with signed limbs -/

/-- `ops` implements the specification field through a tight relation `T` (what `mul`, `sq`, `mul32`, `invert`,
    `frombytes` return and what `add`, `sub`, `tobytes` accept) and a loose relation `L` (what `add`/`sub` return and
    `mul`, `sq`, `mul32`, `invert` accept).  Differs from `Fe51P.RefinesTL` in `sub` (second operand tight) and in
    `tobytes` (tight operand): every `RefinesTL` instance is a `RefinesTT` instance (`RefinesTL.toTT`). -/
structure RefinesTT {F : Type} (ops : FieldOps F) (T L : F → Nat → Prop) : Prop where
  loose : ∀ a x, T a x → L a x
  add : ∀ a b x y, T a x → T b y → L (ops.add a b) (specField.add x y)
  sub : ∀ a b x y, T a x → T b y → L (ops.sub a b) (specField.sub x y)
  mul : ∀ a b x y, L a x → L b y → T (ops.mul a b) (specField.mul x y)
  sq : ∀ a x, L a x → T (ops.sq a) (specField.sq x)
  mul32 : ∀ a x, L a x → T (ops.mul32 a 121666) (specField.mul32 x 121666)
  invert : ∀ a x, L a x → T (ops.invert a) (specField.invert x)
  frombytes : ∀ b, T (ops.frombytes b) (specField.frombytes b)
  tobytes : ∀ a x, T a x → ops.tobytes a = specField.tobytes x
  cswap0 : ∀ a b, ops.cswap a b 0 = (a, b)
  cswap1 : ∀ a b, ops.cswap a b 1 = (b, a)
  one : T ops.one specField.one
  zero : T ops.zero specField.zero

theorem RefinesTL.toTT {F : Type} {ops : FieldOps F} {T L : F → Nat → Prop} (h : Fe51P.RefinesTL ops T L) :
    RefinesTT ops T L :=
  ⟨h.loose, h.add, fun a b x y ha hb => h.sub a b x y ha (h.loose _ _ hb), h.mul, h.sq, h.mul32, h.invert, h.frombytes,
   fun a x ha => h.tobytes a x (h.loose _ _ ha), h.cswap0, h.cswap1, h.one, h.zero⟩

theorem cswap_relTT {F : Type} {ops : FieldOps F} {T L : F → Nat → Prop} (h : RefinesTT ops T L)
    (a b : F) (x y : Nat) (c : UInt32) (hc : c = 0 ∨ c = 1) (ha : T a x) (hb : T b y) :
    T (ops.cswap a b c).1 (specField.cswap x y c).1 ∧ T (ops.cswap a b c).2 (specField.cswap x y c).2 := by
  rcases hc with rfl | rfl
  · rw [h.cswap0]; exact ⟨ha, hb⟩
  · rw [h.cswap1]; exact ⟨hb, ha⟩

theorem step_refinesTT {F : Type} {ops : FieldOps F} {T L : F → Nat → Prop} (h : RefinesTT ops T L)
    (x1 : F) (y1 : Nat) (h1 : T x1 y1) (t : Bytes) (pos : Nat) (s : State F) (r : State Nat)
    (hs : RelS T s r) : RelS T (step ops x1 t pos s) (step specField y1 t pos r) := by
  obtain ⟨hx2, hz2, hx3, hz3, hsw, h01⟩ := hs
  have hc := xor01' _ _ h01 (scalarBit01 t pos)
  have cx := cswap_relTT h s.x2 s.x3 r.x2 r.x3 _ hc hx2 hx3
  have cz := cswap_relTT h s.z2 s.z3 r.z2 r.z3 _ hc hz2 hz3
  simp only [step, hsw]
  have ha := h.add _ _ _ _ cx.1 cz.1                      -- a
  have hb := h.sub _ _ _ _ cx.1 cz.1                      -- b
  have haa := h.sq _ _ ha                                  -- aa
  have hbb := h.sq _ _ hb                                  -- bb
  have he := h.sub _ _ _ _ haa hbb                         -- e
  have hda := h.mul _ _ _ _ (h.sub _ _ _ _ cx.2 cz.2) ha   -- da
  have hcb := h.mul _ _ _ _ (h.add _ _ _ _ cx.2 cz.2) hb   -- cb
  refine ⟨?_, ?_, ?_, ?_, rfl, scalarBit01 t pos⟩
  · exact h.mul _ _ _ _ (h.loose _ _ haa) (h.loose _ _ hbb)
  · exact h.mul _ _ _ _ (h.add _ _ _ _ (h.mul32 _ _ he) hbb) he
  · exact h.sq _ _ (h.add _ _ _ _ hda hcb)
  · exact h.mul _ _ _ _ (h.loose _ _ (h.sq _ _ (h.sub _ _ _ _ hda hcb))) (h.loose _ _ h1)

theorem loop_refinesTT {F : Type} {ops : FieldOps F} {T L : F → Nat → Prop} (h : RefinesTT ops T L)
    (x1 : F) (y1 : Nat) (h1 : T x1 y1) (t : Bytes) : ∀ (n : Nat) (s : State F) (r : State Nat),
    RelS T s r → RelS T (loop ops x1 t n s) (loop specField y1 t n r)
  | 0, _, _, hs => hs
  | n + 1, s, r, hs => by
    simp only [loop]
    exact loop_refinesTT h x1 y1 h1 t n _ _ (step_refinesTT h x1 y1 h1 t n s r hs)

/-- the ladder over ANY implementation of the field operations that refines the specification field in the
    `RefinesTT` sense returns the same 32 bytes as over the specification field -/
theorem ladder_refinesTT {F : Type} (ops : FieldOps F) (T L : F → Nat → Prop) (h : RefinesTT ops T L)
    (t p : Bytes) : ladder ops t p = ladder specField t p := by
  have hl := loop_refinesTT h (ops.frombytes p) (specField.frombytes p) (h.frombytes p) t 255
    { x2 := ops.one, z2 := ops.zero, x3 := ops.frombytes p, z3 := ops.one, swap := 0 }
    { x2 := specField.one, z2 := specField.zero, x3 := specField.frombytes p, z3 := specField.one, swap := 0 }
    ⟨h.one, h.zero, h.frombytes p, h.one, rfl, Or.inl rfl⟩
  obtain ⟨hx2, hz2, hx3, hz3, hsw, h01⟩ := hl
  have cx := cswap_relTT h _ _ _ _ _ h01 hx2 hx3
  have cz := cswap_relTT h _ _ _ _ _ h01 hz2 hz3
  simp only [ladder, hsw]
  exact h.tobytes _ _ (h.mul _ _ _ _ (h.loose _ _ cx.1) (h.loose _ _ (h.invert _ _ (h.loose _ _ cz.1))))

/-! ### the limb model refines the specification field -/

/-- tight representative -/
def RT (f : Fe) (x : Nat) : Prop := Tight f ∧ fval f = x
/-- loose representative -/
def RL (f : Fe) (x : Nat) : Prop := Loose f ∧ fval f = x

theorem one_tight : Tight fe25519_1 := by
  refine ⟨?_, ?_, ?_, ?_, ?_, ?_, ?_, ?_, ?_, ?_⟩ <;> exact ⟨rfl, by decide, by decide⟩
theorem zero_tight : Tight fe25519_0 := by
  refine ⟨?_, ?_, ?_, ?_, ?_, ?_, ?_, ?_, ?_, ?_⟩ <;> exact ⟨rfl, by decide, by decide⟩

theorem fval_of_emod {f : Fe} {a : Int} (h : val f % P = a % P) : fval f = (a % P).toNat := by rw [fval, h]

theorem field_invert (a : Fe) : fe25Field.invert a = fe25519_invert a := by simp only [fe25Field]

theorem fe25_refinesTT : RefinesTT fe25Field RT RL := by
  refine ⟨?_, ?_, ?_, ?_, ?_, ?_, ?_, ?_, ?_, ?_, ?_, ?_, ?_⟩
  · rintro a x ⟨h1, h2⟩; exact ⟨h1.loose, h2⟩
  · rintro a b x y ⟨ha, rfl⟩ ⟨hb, rfl⟩
    obtain ⟨h1, h2⟩ := add_spec ha hb (by decide) (by decide)
    refine ⟨h1.mono (by decide) (by decide), ?_⟩
    show fval (fe25519_add a b) = F25519.add _ _
    rw [fval, h2, fadd_eq]; rfl
  · rintro a b x y ⟨ha, rfl⟩ ⟨hb, rfl⟩
    obtain ⟨h1, h2⟩ := sub_spec ha hb (by decide) (by decide)
    refine ⟨h1.mono (by decide) (by decide), ?_⟩
    show fval (fe25519_sub a b) = F25519.sub _ _
    rw [fval, h2, fsub_eq]; rfl
  · rintro a b x y ⟨ha, rfl⟩ ⟨hb, rfl⟩
    obtain ⟨h1, h2⟩ := mul_spec ha hb
    refine ⟨h1.tight, ?_⟩
    show fval (fe25519_mul a b) = F25519.mul _ _
    rw [fval, h2, fmul_eq]; rfl
  · rintro a x ⟨ha, rfl⟩
    obtain ⟨h1, h2⟩ := sq_spec ha
    refine ⟨h1.tight, ?_⟩
    show fval (fe25519_sq a) = F25519.mul _ _
    rw [fval, h2, fmul_eq]; rfl
  · rintro a x ⟨ha, rfl⟩
    obtain ⟨h1, h2⟩ := mul32_spec 121666 ha (by decide)
    refine ⟨m32out_tight h1, ?_⟩
    show fval (fe25519_mul32 a 121666) = F25519.mul _ _
    rw [fval, h2, fmul_eq]; rfl
  · rintro a x ⟨ha, rfl⟩
    obtain ⟨h1, h2⟩ := invert_spec ha
    rw [field_invert, Fe51P.spec_invert]
    exact ⟨h1.tight, h2⟩
  · intro b
    obtain ⟨h1, h2⟩ := frombytes_spec b
    refine ⟨fbout_tight h1, ?_⟩
    show fval (fe25519_frombytes b) = F25519.fromBytesMasked b
    rw [fval, h2, fval_nat, F25519.fromBytesMasked]
  · rintro a x ⟨ha, rfl⟩
    exact tobytes_tight ha
  · exact cswap0
  · exact cswap1
  · exact ⟨one_tight, by decide⟩
  · exact ⟨zero_tight, by decide⟩

end Sodium.Fe25P
