import SodiumModel.Proofs.SalsaSimd
/-
  Helper lemmas for `Properties/C03SalsaSimd.lean`, part 2: the `while` loops, `salsa20_encrypt_bytes` (both
  compositions), the link with the reference stream model (`Model/Stream.lean` instantiated with
  `crypto_core_salsa`), and the loop bodies with `m == c`.
-/
open Sodium Sodium.Model Sodium.Model.CoresRef Sodium.Model.SalsaSimd Sodium.Spec Sodium.CoresRefP Sodium.ChachaSimdP
open Sodium.Model.ChachaSimd hiding ROUNDS row_block u1_iter u1_loop u0 u4_doubleRound u4_counters u4_ONEQUAD u4_iter
  u4_loop u8_doubleRound u8_counters u8_ONEQUAD_UNPCK u8_ONEOCTO u8_iter u8_loop u1_iter_inplace u4_ONEQUAD_inplace
  u4_iter_inplace u8_iter_inplace Impl avx2
namespace Sodium.SalsaSimdP

/-! ### the `while (bytes >= …)` loops -/

theorem blocksN_length (n : Nat) (j : W16) (m : Bytes) : (blocksN n j m).1.length = 64 * n := by
  induction n generalizing j m with
  | zero => rfl
  | succ n ih =>
    simp only [blocksN, List.length_append, blk_length, ih]; omega

theorem blocksN_add (a b : Nat) (j : W16) (m : Bytes) :
    blocksN (a + b) j m =
      ((blocksN a j m).1 ++ (blocksN b (blocksN a j m).2 (m.drop (64 * a))).1,
       (blocksN b (blocksN a j m).2 (m.drop (64 * a))).2) := by
  induction a generalizing j m with
  | zero => simp [blocksN]
  | succ a ih =>
    rw [Nat.add_right_comm a 1 b]
    simp only [blocksN, ih, List.drop_drop, List.append_assoc]
    have : 64 + 64 * a = 64 * (a + 1) := by omega
    rw [this]

theorem blocksN_one (j : W16) (m : Bytes) : blocksN 1 j m = (blk j m, ctrStep j) := by
  simp [blocksN]

/-- the common shape of the three `while (bytes >= 64 * N)` loops -/
theorem loop_spec (N : Nat) (hN : 0 < N) (iter : W16 → Bytes → Bytes → Bytes × W16)
    (hiter : ∀ x m c, 64 * N ≤ c.length →
      iter x m c = ((blocksN N x m).1 ++ c.drop (64 * N), (blocksN N x m).2))
    (L : Nat → W16 → Bytes → Bytes → Bytes × W16 × Bytes × Bytes)
    (hL0 : ∀ x m c, L 0 x m c = ([], x, m, c))
    (hLs : ∀ fuel x m c, L (fuel + 1) x m c =
      if m.length ≥ 64 * N then
        ((iter x m c).1.take (64 * N) ++ (L fuel (iter x m c).2 (m.drop (64 * N)) ((iter x m c).1.drop (64 * N))).1,
         (L fuel (iter x m c).2 (m.drop (64 * N)) ((iter x m c).1.drop (64 * N))).2)
      else ([], x, m, c)) :
    ∀ (fuel : Nat) (x : W16) (m c : Bytes), m.length ≤ c.length → m.length / (64 * N) ≤ fuel →
      L fuel x m c =
        ((blocksN (N * (m.length / (64 * N))) x m).1, (blocksN (N * (m.length / (64 * N))) x m).2,
         m.drop (64 * N * (m.length / (64 * N))), c.drop (64 * N * (m.length / (64 * N)))) := by
  intro fuel
  induction fuel with
  | zero =>
    intro x m c _ hf
    have : m.length / (64 * N) = 0 := Nat.eq_zero_of_le_zero hf
    rw [hL0, this]; simp [blocksN]
  | succ fuel ih =>
    intro x m c hmc hf
    rw [hLs]
    by_cases hge : m.length ≥ 64 * N
    · rw [if_pos hge, hiter x m c (by omega)]
      have hlen : (blocksN N x m).1.length = 64 * N := blocksN_length N x m
      have htake : ((blocksN N x m).1 ++ c.drop (64 * N)).take (64 * N) = (blocksN N x m).1 := by
        rw [List.take_append_of_le_length (by omega), List.take_of_length_le (by omega)]
      have hdrop : ((blocksN N x m).1 ++ c.drop (64 * N)).drop (64 * N) = c.drop (64 * N) := by
        rw [List.drop_append_of_le_length (by omega), List.drop_of_length_le (by omega)]; simp
      simp only [htake, hdrop]
      have hk : m.length / (64 * N) = (m.length - 64 * N) / (64 * N) + 1 := by
        have hpos : 0 < 64 * N := by omega
        rw [← Nat.sub_add_cancel hge, Nat.add_div_right _ hpos]
        simp
      have hl' : (m.drop (64 * N)).length = m.length - 64 * N := List.length_drop
      rw [ih _ _ _ (by rw [List.length_drop, List.length_drop]; omega) (by rw [hl']; omega), hl', hk]
      generalize (m.length - 64 * N) / (64 * N) = k
      have e1 : N * (k + 1) = N + N * k := by rw [Nat.mul_succ]; omega
      rw [e1, blocksN_add]
      simp only [List.drop_drop]
      have e2 : 64 * N + 64 * N * k = 64 * N * (k + 1) := by rw [Nat.mul_succ]; omega
      rw [e2]
    · rw [if_neg hge]
      have : m.length / (64 * N) = 0 := Nat.div_eq_of_lt (by omega)
      rw [this]; simp [blocksN]

theorem u1_iter_blocksN (x : W16) (m c : Bytes) (hc : 64 * 1 ≤ c.length) :
    SalsaSimd.u1_iter x m c = ((blocksN 1 x m).1 ++ c.drop (64 * 1), (blocksN 1 x m).2) := by
  rw [blocksN_one]; exact u1_iter_spec x m c hc

theorem u1_loop_spec (fuel : Nat) (x : W16) (m c : Bytes) (hmc : m.length ≤ c.length) (hf : m.length / 64 ≤ fuel) :
    SalsaSimd.u1_loop fuel x m c =
      ((blocksN (m.length / 64) x m).1, (blocksN (m.length / 64) x m).2,
       m.drop (64 * (m.length / 64)), c.drop (64 * (m.length / 64))) := by
  have := loop_spec 1 (by decide) SalsaSimd.u1_iter u1_iter_blocksN SalsaSimd.u1_loop (fun _ _ _ => rfl)
    (fun _ _ _ _ => rfl) fuel x m c hmc hf
  simpa using this

theorem u4_loop_spec (fuel : Nat) (x : W16) (m c : Bytes) (hmc : m.length ≤ c.length) (hf : m.length / 256 ≤ fuel) :
    SalsaSimd.u4_loop fuel x m c =
      ((blocksN (4 * (m.length / 256)) x m).1, (blocksN (4 * (m.length / 256)) x m).2,
       m.drop (256 * (m.length / 256)), c.drop (256 * (m.length / 256))) := by
  exact loop_spec 4 (by decide) SalsaSimd.u4_iter u4_iter_spec SalsaSimd.u4_loop (fun _ _ _ => rfl)
    (fun _ _ _ _ => rfl) fuel x m c hmc hf

theorem u8_loop_spec (fuel : Nat) (x : W16) (m c : Bytes) (hmc : m.length ≤ c.length) (hf : m.length / 512 ≤ fuel) :
    SalsaSimd.u8_loop fuel x m c =
      ((blocksN (8 * (m.length / 512)) x m).1, (blocksN (8 * (m.length / 512)) x m).2,
       m.drop (512 * (m.length / 512)), c.drop (512 * (m.length / 512))) := by
  exact loop_spec 8 (by decide) SalsaSimd.u8_iter u8_iter_spec SalsaSimd.u8_loop (fun _ _ _ => rfl)
    (fun _ _ _ _ => rfl) fuel x m c hmc hf

/-! ### `salsa20_encrypt_bytes`, both compositions -/

/-- the 64 keystream bytes of the (memory-order) context `x` -/
def ksBytes (x : W16) : Bytes := W16.store (ksWords (tpose x))

theorem ksBytes_length (x : W16) : (ksBytes x).length = 64 := rfl

/-- what both compositions compute: ⌊len/64⌋ full blocks, then the `len mod 64` tail bytes XOR the next
    keystream block; the context counter is advanced by the number of FULL blocks only -/
def simdSpec (ctx : W16) (m : Bytes) : Bytes × W16 :=
  let r := blocksN (m.length / 64) ctx m
  (r.1 ++ xorBytes (m.drop (64 * (m.length / 64))) (ksBytes r.2), r.2)

theorem encrypt_bytes_sse2_eq (ctx : W16) (m c : Bytes) (hc : m.length ≤ c.length) :
    salsa20_encrypt_bytes_sse2 ctx m c = simdSpec ctx m := by
  by_cases h0 : m.length = 0
  · have : m = [] := List.eq_nil_of_length_eq_zero h0
    subst this
    simp [salsa20_encrypt_bytes_sse2, simdSpec, blocksN, xorBytes_nil_left]
  · simp only [salsa20_encrypt_bytes_sse2, if_neg h0]
    rw [u4_loop_spec _ ctx m c hc (Nat.div_le_self _ _)]
    simp only []
    have hl1 : (m.drop (256 * (m.length / 256))).length = m.length - 256 * (m.length / 256) := List.length_drop
    have hl1c : (c.drop (256 * (m.length / 256))).length = c.length - 256 * (m.length / 256) := List.length_drop
    rw [u1_loop_spec _ _ _ _ (by rw [hl1, hl1c]; omega) (by rw [hl1]; exact Nat.le_trans (Nat.div_le_self _ _) (by omega))]
    simp only [List.drop_drop, hl1]
    have hk : 4 * (m.length / 256) + (m.length - 256 * (m.length / 256)) / 64 = m.length / 64 := by omega
    have hd : 256 * (m.length / 256) + 64 * ((m.length - 256 * (m.length / 256)) / 64) = 64 * (m.length / 64) := by omega
    have h256 : 256 * (m.length / 256) = 64 * (4 * (m.length / 256)) := by omega
    have hb := blocksN_add (4 * (m.length / 256)) ((m.length - 256 * (m.length / 256)) / 64) ctx m
    rw [hk, ← h256] at hb
    rw [hd]
    have hl2 : (m.drop (64 * (m.length / 64))).length = m.length - 64 * (m.length / 64) := List.length_drop
    have hl2c : (c.drop (64 * (m.length / 64))).length = c.length - 64 * (m.length / 64) := List.length_drop
    rw [u0_spec _ _ _ (by rw [hl2]; omega) (by rw [hl2, hl2c]; omega)]
    simp only [simdSpec, hb, List.append_assoc, ksBytes]

theorem encrypt_bytes_avx2_eq (ctx : W16) (m c : Bytes) (hc : m.length ≤ c.length) :
    salsa20_encrypt_bytes_avx2 ctx m c = simdSpec ctx m := by
  by_cases h0 : m.length = 0
  · have : m = [] := List.eq_nil_of_length_eq_zero h0
    subst this
    simp [salsa20_encrypt_bytes_avx2, simdSpec, blocksN, xorBytes_nil_left]
  · simp only [salsa20_encrypt_bytes_avx2, if_neg h0]
    rw [u8_loop_spec _ ctx m c hc (Nat.div_le_self _ _)]
    simp only []
    generalize hk8 : m.length / 512 = k8
    have hl8 : (m.drop (512 * k8)).length = m.length - 512 * k8 := List.length_drop
    have hl8c : (c.drop (512 * k8)).length = c.length - 512 * k8 := List.length_drop
    rw [u4_loop_spec _ _ _ _ (by rw [hl8, hl8c]; omega)
      (by rw [hl8]; exact Nat.le_trans (Nat.div_le_self _ _) (by omega))]
    simp only [List.drop_drop, hl8]
    generalize hk4 : (m.length - 512 * k8) / 256 = k4
    have hl4 : (m.drop (512 * k8 + 256 * k4)).length = m.length - (512 * k8 + 256 * k4) := List.length_drop
    have hl4c : (c.drop (512 * k8 + 256 * k4)).length = c.length - (512 * k8 + 256 * k4) := List.length_drop
    rw [u1_loop_spec _ _ _ _ (by rw [hl4, hl4c]; omega)
      (by rw [hl4]; exact Nat.le_trans (Nat.div_le_self _ _) (by omega))]
    simp only [List.drop_drop, hl4]
    generalize hk1 : (m.length - (512 * k8 + 256 * k4)) / 64 = k1
    have hk : 8 * k8 + (4 * k4 + k1) = m.length / 64 := by omega
    have hd : 512 * k8 + 256 * k4 + 64 * k1 = 64 * (m.length / 64) := by omega
    have hb := blocksN_add (8 * k8) (4 * k4 + k1) ctx m
    have hb2 := blocksN_add (4 * k4) k1 (blocksN (8 * k8) ctx m).2 (m.drop (64 * (8 * k8)))
    rw [hb2, hk] at hb
    simp only [List.drop_drop] at hb
    have e1 : 64 * (8 * k8) = 512 * k8 := by omega
    have e2 : 512 * k8 + 64 * (4 * k4) = 512 * k8 + 256 * k4 := by omega
    rw [e1] at hb
    rw [e2] at hb
    rw [hd]
    have hl2 : (m.drop (64 * (m.length / 64))).length = m.length - 64 * (m.length / 64) := List.length_drop
    have hl2c : (c.drop (64 * (m.length / 64))).length = c.length - 64 * (m.length / 64) := List.length_drop
    rw [u0_spec _ _ _ (by rw [hl2]; omega) (by rw [hl2, hl2c]; omega)]
    simp only [simdSpec, hb, List.append_assoc, ksBytes]

/-! ### the context afterwards -/

theorem blocksN_snd (k : Nat) (ctx : W16) (m : Bytes) :
    (blocksN k ctx m).2 = withCtr ctx (qOf ctx + UInt64.ofNat k) := by
  induction k generalizing ctx m with
  | zero =>
    have : UInt64.ofNat 0 = 0 := rfl
    simp only [blocksN, this, UInt64.add_zero, withCtr_qOf]
  | succ k ih =>
    simp only [blocksN]
    have h1 : ctrStep ctx = withCtr ctx (qOf ctx + 1) := by
      have := ctrStep_withCtr ctx (qOf ctx)
      rwa [withCtr_qOf] at this
    rw [ih, h1, qOf_withCtr, withCtr_withCtr, UInt64.ofNat_add, UInt64.add_assoc, UInt64.add_comm 1]
    rfl

theorem simdSpec_snd (ctx : W16) (m : Bytes) :
    (simdSpec ctx m).2 = withCtr ctx (qOf ctx + UInt64.ofNat (m.length / 64)) := blocksN_snd _ ctx m

/-! ### the bytes as a keystream: block number `i` is the block of counter `i mod 2^64` -/

/-- the keystream block of counter `i` (mod 2^64) under the key / nonce words of `x` -/
def ksAt (x : W16) (i : Nat) : Bytes := ksBytes (withCtr x (UInt64.ofNat i))

theorem ksAt_length (x : W16) (i : Nat) : (ksAt x i).length = 64 := rfl

theorem blk_eq_xor (x : W16) (m : Bytes) (h : 64 ≤ m.length) : blk x m = xorBytes (m.take 64) (ksBytes x) :=
  store_xor_load _ m h

theorem ksAt_shift (x : W16) (q : UInt64) (i : Nat) : ksAt x ((q + 1).toNat + i) = ksAt x (q.toNat + 1 + i) := by
  simp only [ksAt, UInt64.ofNat_add, UInt64.ofNat_toNat]
  rfl

theorem blocksN_fst (x : W16) : ∀ (k : Nat) (q : UInt64) (m : Bytes), 64 * k ≤ m.length →
    (blocksN k (withCtr x q) m).1 = xorBytes (m.take (64 * k)) (blocks (ksAt x) q.toNat k)
  | 0, q, m, _ => by simp [blocksN, xorBytes_nil_left]
  | k + 1, q, m, h => by
    have ih := blocksN_fst x k (q + 1) (m.drop 64) (by rw [List.length_drop]; omega)
    have hB : ksAt x q.toNat = ksBytes (withCtr x q) := by simp only [ksAt, UInt64.ofNat_toNat]
    rw [blocksN, ctrStep_withCtr, ih, blocks_succ, xorBytes_append_right, ksAt_length, hB,
      blk_eq_xor _ _ (by omega), List.take_take, List.drop_take,
      blocks_congr (ksAt x) (ksAt x) (q + 1).toNat (q.toNat + 1) k (fun i _ => ksAt_shift x q i)]
    congr 3
    all_goals omega

/-- the output of both compositions: the message XOR the keystream blocks of counters `q`, `q + 1`, … -/
theorem simdSpec_fst (x : W16) (q : UInt64) (m : Bytes) :
    (simdSpec (withCtr x q) m).1 = xorBytes m (blocks (ksAt x) q.toNat ((m.length + 63) / 64)) := by
  have hfull := blocksN_fst x (m.length / 64) q m (by omega)
  simp only [simdSpec, blocksN_snd, qOf_withCtr, withCtr_withCtr, hfull]
  have hks : ksBytes (withCtr x (q + UInt64.ofNat (m.length / 64))) = ksAt x (q.toNat + m.length / 64) := by
    simp only [ksAt, UInt64.ofNat_add, UInt64.ofNat_toNat]
  have hbl := blocks_length (ksAt x) (ksAt_length x) q.toNat (m.length / 64)
  by_cases hr : m.length % 64 = 0
  · have hk : (m.length + 63) / 64 = m.length / 64 := by omega
    have hnil : m.drop (64 * (m.length / 64)) = [] := List.drop_of_length_le (by omega)
    rw [hk, hnil, xorBytes_nil_left, List.append_nil, List.take_of_length_le (by omega)]
  · have hk : (m.length + 63) / 64 = m.length / 64 + 1 := by omega
    have hone : blocks (ksAt x) (q.toNat + m.length / 64) 1 = ksAt x (q.toNat + m.length / 64) := by
      simp [blocks]
    rw [hk, blocks_add, xorBytes_append_right, hbl, hks, hone]

/-! ### the context set up by `salsa_keysetup` / `salsa_ivsetup` is the reference core's input, transposed -/

theorem getD_take_append (n r : Bytes) (i : Nat) (hi : i < 8) (hn : 8 ≤ n.length) :
    (n.take 8 ++ r).getD i 0 = n.getD i 0 := by
  simp only [List.getD_eq_getElem?_getD]
  rw [List.getElem?_append_left (by simp; omega), List.getElem?_take_of_lt hi]

theorem load32_le_head (n r : Bytes) (hn : 8 ≤ n.length) : load32_le (n.take 8 ++ r) = load32_le n := by
  simp only [load32_le, getD_take_append n r _ (show 0 < 8 by omega) hn, getD_take_append n r _ (show 1 < 8 by omega) hn,
    getD_take_append n r _ (show 2 < 8 by omega) hn, getD_take_append n r _ (show 3 < 8 by omega) hn]

theorem getD_drop4 (b : Bytes) (i : Nat) : (b.drop 4).getD i 0 = b.getD (4 + i) 0 := by
  simp only [List.getD_eq_getElem?_getD, List.getElem?_drop]

theorem load32_le_head4 (n r : Bytes) (hn : 8 ≤ n.length) :
    load32_le ((n.take 8 ++ r).drop 4) = load32_le (n.drop 4) := by
  simp only [load32_le, getD_drop4, getD_take_append n r _ (show 4 + 0 < 8 by omega) hn,
    getD_take_append n r _ (show 4 + 1 < 8 by omega) hn, getD_take_append n r _ (show 4 + 2 < 8 by omega) hn,
    getD_take_append n r _ (show 4 + 3 < 8 by omega) hn]

theorem drop8_head (n r : Bytes) (hn : 8 ≤ n.length) : (n.take 8 ++ r).drop 8 = r :=
  List.drop_left' (by simp; omega)

theorem toLE8_words (a : UInt64) :
    toLE 8 a.toNat = store32_le a.toUInt32 ++ store32_le (a >>> 32).toUInt32 := by
  have h := a.toNat_lt
  simp only [toLE, store32_le, List.cons_append, List.nil_append, List.cons.injEq, and_true]
  refine ⟨?_, ?_, ?_, ?_, ?_, ?_, ?_, ?_⟩ <;> apply UInt8.toNat_inj.1 <;>
    simp [UInt32.toNat_shiftRight, UInt64.toNat_shiftRight, Nat.shiftRight_eq_div_pow] <;> omega

theorem tr_vals : tr 0 = 0 ∧ tr 1 = 5 ∧ tr 2 = 10 ∧ tr 3 = 15 ∧ tr 4 = 12 ∧ tr 5 = 1 ∧ tr 6 = 6 ∧ tr 7 = 11 ∧ tr 8 = 8 ∧
    tr 9 = 13 ∧ tr 10 = 2 ∧ tr 11 = 7 ∧ tr 12 = 4 ∧ tr 13 = 9 ∧ tr 14 = 14 ∧ tr 15 = 3 := by decide

/-- the sixteen context words after `salsa_keysetup` and `salsa_ivsetup`, in memory order -/
theorem setup_eq (ctx : W16) (k n : Bytes) (cnt : Option Bytes) :
    salsa_ivsetup (salsa_keysetup ctx k) n cnt =
      ⟨0x61707865, 0x3320646e, 0x79622d32, 0x6b206574, load32_le (k.drop 20), load32_le (k.drop 0), load32_le (n.drop 0),
       load32_le (k.drop 16), (match cnt with | none => 0 | some ctr => load32_le (ctr.drop 0)), load32_le (k.drop 24),
       load32_le (k.drop 4), load32_le (n.drop 4), load32_le (k.drop 12),
       (match cnt with | none => 0 | some ctr => load32_le (ctr.drop 4)), load32_le (k.drop 28), load32_le (k.drop 8)⟩ := by
  obtain ⟨t0, t1, t2, t3, t4, t5, t6, t7, t8, t9, t10, t11, t12, t13, t14, t15⟩ := tr_vals
  cases cnt <;> simp only [salsa_ivsetup, salsa_keysetup, t0, t1, t2, t3, t4, t5, t6, t7, t8, t9, t10, t11, t12, t13, t14, t15,
    setInput]

/-- the context after the two setup calls, with any counter `q` in words 8 / 13, read in standard word order, is
    the initial state `crypto_core_salsa` builds from `in = nonce ‖ le64(q)`, the key, and the default constants -/
theorem setup_tpose (k n : Bytes) (cnt : Option Bytes) (q : UInt64) (hn : 8 ≤ n.length) :
    tpose (withCtr (salsa_ivsetup (salsa_keysetup W16.zero k) n cnt) q) =
      salsaInit (n.take 8 ++ toLE 8 q.toNat) k none := by
  have e12 : (n.take 8 ++ toLE 8 q.toNat).drop 12 = (toLE 8 q.toNat).drop 4 := by
    rw [show 12 = 8 + 4 from rfl, ← List.drop_drop, drop8_head _ _ hn]
  simp only [setup_eq, salsaInit, load32_le_head _ _ hn, load32_le_head4 _ _ hn]
  rw [drop8_head _ _ hn, e12, toLE8_words, load32_le_store32_le, drop4_store, word_bytes]
  simp only [tpose, withCtr, List.drop_zero]

theorem core_eq_ksBytes (k n : Bytes) (cnt : Option Bytes) (q : UInt64) (hn : 8 ≤ n.length) :
    ksBytes (withCtr (salsa_ivsetup (salsa_keysetup W16.zero k) n cnt) q) =
      crypto_core_salsa (n.take 8 ++ toLE 8 q.toNat) k none 20 := by
  rw [crypto_core_salsa, forUpBy2_eq _ _ _ _ _ rfl, ksBytes, ksWords, setup_tpose k n cnt q hn]

/-- the counter the setup calls put in the context -/
theorem setup_counter (k n : Bytes) (ic : UInt64) :
    salsa_ivsetup (salsa_keysetup W16.zero k) n (some (store32_le ic.toUInt32 ++ store32_le (ic >>> 32).toUInt32)) =
      withCtr (salsa_ivsetup (salsa_keysetup W16.zero k) n none) ic := by
  have h1 : load32_le ((store32_le ic.toUInt32 ++ store32_le (ic >>> 32).toUInt32).drop 0) = ic.toUInt32 :=
    load32_le_store32_le _ _
  have h2 : load32_le ((store32_le ic.toUInt32 ++ store32_le (ic >>> 32).toUInt32).drop 4) = (ic >>> 32).toUInt32 := by
    rw [drop4_store, word_bytes]
  simp only [setup_eq, h1, h2, withCtr]

theorem setup_counter_none (k n : Bytes) :
    salsa_ivsetup (salsa_keysetup W16.zero k) n none = withCtr (salsa_ivsetup (salsa_keysetup W16.zero k) n none) 0 := by
  simp only [setup_eq, withCtr]
  rfl

end Sodium.SalsaSimdP
