import Mathlib.Data.ZMod.Basic
import Mathlib.Tactic.Ring
import Mathlib.Tactic.LinearCombination
import SodiumModel.Model.Ge25519Ref10
import SodiumModel.Spec.Ed25519
import SodiumModel.Proofs.ScalarmultLowOrder
import SodiumModel.Proofs.Ge25519Group
/-
  Lemmas for `Properties/C06Ge.lean` (part 1): the point formulas of `Model/Ge25519Ref10.lean` over the
  specification field, seen in `ZMod p` (a commutative ring: every statement is a polynomial identity
  closed by `ring` / `linear_combination`), and their relation to the RFC 8032 formulas of
  `Spec/Ed25519.lean`.  No primality of p, no group law.
-/
open Sodium Sodium.Spec Sodium.Spec.F25519 Sodium.Model.Ge25519
open Sodium.ScalarmultLow (c_add c_mul c_sqr c_sub)
namespace Sodium.Ge25519P

abbrev K := ZMod F25519.p

/-- close a goal that `simp only` may already have turned into `True`, else a ring identity -/
macro "fin_ring" : tactic => `(tactic| first | exact True.intro | ring | (push_cast; ring))

/-- the curve constant d in `ZMod p`, kept opaque (a `def`, an atom for `ring`) so that no tactic tries to
    evaluate the closed term `Ed25519.d` -/
def dK : K := ((Ed25519.d : Nat) : K)
theorem cast_d : ((Ed25519.d : Nat) : K) = dK := rfl

theorem c_neg (a : Nat) : ((F25519.neg a : Nat) : K) = -(a : K) := by
  have hp : 0 < F25519.p := by decide
  unfold F25519.neg
  rw [ZMod.natCast_mod, Nat.cast_sub (Nat.le_of_lt (Nat.mod_lt _ hp)), ZMod.natCast_mod, ZMod.natCast_self]
  ring

theorem c_mod (a : Nat) : ((a % F25519.p : Nat) : K) = (a : K) := ZMod.natCast_mod a _

/-- two naturals are congruent mod p iff they are equal in `ZMod p` -/
theorem modEq_iff (a b : Nat) : a % F25519.p = b % F25519.p ↔ (a : K) = (b : K) :=
  (ZMod.natCast_eq_natCast_iff' a b F25519.p).symm

theorem mul_eq_iff (a b c d : Nat) : F25519.mul a b = F25519.mul c d ↔ (a : K) * b = (c : K) * d := by
  unfold F25519.mul; rw [modEq_iff]; push_cast; rfl

/-! ### the operations of `specGe` in `ZMod p` -/

@[simp] theorem s_add (a b : Nat) : ((specGe.add a b : Nat) : K) = (a : K) + b := c_add a b
@[simp] theorem s_sub (a b : Nat) : ((specGe.sub a b : Nat) : K) = (a : K) - b := c_sub a b
@[simp] theorem s_mul (a b : Nat) : ((specGe.mul a b : Nat) : K) = (a : K) * b := c_mul a b
@[simp] theorem s_sq (a : Nat) : ((specGe.sq a : Nat) : K) = (a : K) * a := c_sqr a
@[simp] theorem s_neg (a : Nat) : ((specGe.neg a : Nat) : K) = -(a : K) := c_neg a
@[simp] theorem s_sq2 (a : Nat) : ((specGe.sq2 a : Nat) : K) = 2 * ((a : K) * a) := by
  show ((F25519.mul 2 (F25519.sqr a) : Nat) : K) = _
  rw [c_mul, c_sqr]; norm_num
@[simp] theorem s_zero : ((specGe.zero : Nat) : K) = 0 := by show ((0 : Nat) : K) = 0; simp
@[simp] theorem s_one : ((specGe.one : Nat) : K) = 1 := by show ((1 : Nat) : K) = 1; simp
@[simp] theorem s_ofNat (n : Nat) : specGe.ofNat n = n := rfl

/-- the table constants are the curve constants of the specification -/
theorem d_eq : Model.Ge25519Tables.ed25519_d = Ed25519.d := by decide +kernel
theorem d2_eq : Model.Ge25519Tables.ed25519_d2 = F25519.mul 2 Ed25519.d := by decide +kernel
theorem sqrtm1_eq : Model.Ge25519Tables.fe25519_sqrtm1 = F25519.sqrtM1 := by decide +kernel

@[simp] theorem s_d2 : ((ed25519_d2 specGe : Nat) : K) = 2 * dK := by
  show ((Model.Ge25519Tables.ed25519_d2 : Nat) : K) = _
  rw [d2_eq, c_mul, Nat.cast_ofNat, cast_d]
@[simp] theorem s_d : ((ed25519_d specGe : Nat) : K) = dK := by
  show ((Model.Ge25519Tables.ed25519_d : Nat) : K) = _
  rw [d_eq, cast_d]

/-! ### scaled representations

  `Sc l P p`: the p3 value `p` is the extended point `P` of the specification with all four coordinates
  multiplied by `l` (in `ZMod p`).  `ScC`, `ScP`, `Sc2` are the same for cached / precomp / p2 values. -/

def Sc (l : K) (P : Ed25519.Point) (p : P3 Nat) : Prop :=
  (p.X : K) = l * P.X ∧ (p.Y : K) = l * P.Y ∧ (p.Z : K) = l * P.Z ∧ (p.T : K) = l * P.T

/-- p2: only X, Y, Z -/
def Sc2 (l : K) (P : Ed25519.Point) (p : P2 Nat) : Prop :=
  (p.X : K) = l * P.X ∧ (p.Y : K) = l * P.Y ∧ (p.Z : K) = l * P.Z

/-- cached = l · (Y+X, Y-X, Z, 2dT) -/
def ScC (l : K) (Q : Ed25519.Point) (q : Cached Nat) : Prop :=
  (q.YplusX : K) = l * ((Q.Y : K) + Q.X) ∧ (q.YminusX : K) = l * ((Q.Y : K) - Q.X) ∧
  (q.Z : K) = l * Q.Z ∧ (q.T2d : K) = l * (2 * dK * Q.T)

/-- precomp = (y+x, y-x, 2dxy) of a point with Z = 1 -/
def ScP (Q : Ed25519.Point) (q : Precomp Nat) : Prop :=
  (q.yplusx : K) = (Q.Y : K) + Q.X ∧ (q.yminusx : K) = (Q.Y : K) - Q.X ∧
  (q.xy2d : K) = 2 * dK * Q.T ∧ (Q.Z : K) = 1

/-- the completed point `r` converts to `l · P` -/
def Sc11 (l : K) (P : Ed25519.Point) (r : P1p1 Nat) : Prop := Sc l P (ge25519_p1p1_to_p3 specGe r)

def toPoint (p : P3 Nat) : Ed25519.Point := ⟨p.X, p.Y, p.Z, p.T⟩
def p2Point (p : P2 Nat) : Ed25519.Point := ⟨p.X, p.Y, p.Z, 0⟩

theorem sc_self (p : P3 Nat) : Sc 1 (toPoint p) p := by simp [Sc, toPoint]
theorem sc2_self (p : P2 Nat) : Sc2 1 (p2Point p) p := by simp [Sc2, p2Point]

/-- `ge25519_p1p1_to_p2` gives the X, Y, Z of `ge25519_p1p1_to_p3` -/
theorem sc2_of_sc11 {l : K} {P : Ed25519.Point} {r : P1p1 Nat} (h : Sc11 l P r) :
    Sc2 l P (ge25519_p1p1_to_p2 specGe r) := ⟨h.1, h.2.1, h.2.2.1⟩

theorem sc2_of_sc {l : K} {P : Ed25519.Point} {p : P3 Nat} (h : Sc l P p) : Sc2 l P (ge25519_p3_to_p2 p) :=
  ⟨h.1, h.2.1, h.2.2.1⟩

theorem scC_of_sc {l : K} {P : Ed25519.Point} {p : P3 Nat} (h : Sc l P p) :
    ScC l P (ge25519_p3_to_cached specGe p) := by
  obtain ⟨hx, hy, hz, ht⟩ := h
  simp only [ScC, ge25519_p3_to_cached, s_add, s_sub, s_mul, s_d2, hx, hy, hz, ht]
  refine ⟨?_, ?_, ?_, ?_⟩ <;> fin_ring

/-! ### the formulas -/

/-- add_cached ∘ p1p1_to_p3 is the RFC 8032 addition, coordinate by coordinate, with the scalings multiplied -/
theorem sc_add_cached {l m : K} {P Q : Ed25519.Point} {p : P3 Nat} {q : Cached Nat}
    (hp : Sc l P p) (hq : ScC m Q q) : Sc11 ((l * m) ^ 2) (Ed25519.add P Q) (ge25519_add_cached specGe p q) := by
  obtain ⟨hx, hy, hz, ht⟩ := hp
  obtain ⟨h1, h2, h3, h4⟩ := hq
  simp only [Sc11, Sc, ge25519_p1p1_to_p3, ge25519_add_cached, Ed25519.add, s_add, s_sub, s_mul, c_add, c_sub, c_mul, cast_d, Nat.cast_ofNat,
    hx, hy, hz, ht, h1, h2, h3, h4]
  refine ⟨?_, ?_, ?_, ?_⟩ <;> fin_ring

theorem sc_sub_cached {l m : K} {P Q : Ed25519.Point} {p : P3 Nat} {q : Cached Nat}
    (hp : Sc l P p) (hq : ScC m Q q) : Sc11 ((l * m) ^ 2) (Ed25519.sub P Q) (ge25519_sub_cached specGe p q) := by
  obtain ⟨hx, hy, hz, ht⟩ := hp
  obtain ⟨h1, h2, h3, h4⟩ := hq
  simp only [Sc11, Sc, ge25519_p1p1_to_p3, ge25519_sub_cached, Ed25519.sub, Ed25519.add, Ed25519.neg, s_add, s_sub, s_mul,
    c_add, c_sub, c_mul, cast_d, Nat.cast_ofNat, c_neg, c_mod, hx, hy, hz, ht, h1, h2, h3, h4]
  refine ⟨?_, ?_, ?_, ?_⟩ <;> fin_ring

theorem sc_add_precomp {l : K} {P Q : Ed25519.Point} {p : P3 Nat} {q : Precomp Nat}
    (hp : Sc l P p) (hq : ScP Q q) : Sc11 (l ^ 2) (Ed25519.add P Q) (ge25519_add_precomp specGe p q) := by
  obtain ⟨hx, hy, hz, ht⟩ := hp
  obtain ⟨h1, h2, h3, h4⟩ := hq
  simp only [Sc11, Sc, ge25519_p1p1_to_p3, ge25519_add_precomp, Ed25519.add, s_add, s_sub, s_mul, c_add, c_sub, c_mul, cast_d, Nat.cast_ofNat,
    hx, hy, hz, ht, h1, h2, h3, h4]
  refine ⟨?_, ?_, ?_, ?_⟩ <;> fin_ring

theorem sc_sub_precomp {l : K} {P Q : Ed25519.Point} {p : P3 Nat} {q : Precomp Nat}
    (hp : Sc l P p) (hq : ScP Q q) : Sc11 (l ^ 2) (Ed25519.sub P Q) (ge25519_sub_precomp specGe p q) := by
  obtain ⟨hx, hy, hz, ht⟩ := hp
  obtain ⟨h1, h2, h3, h4⟩ := hq
  simp only [Sc11, Sc, ge25519_p1p1_to_p3, ge25519_sub_precomp, Ed25519.sub, Ed25519.add, Ed25519.neg, s_add, s_sub, s_mul,
    c_add, c_sub, c_mul, cast_d, Nat.cast_ofNat, c_neg, c_mod, hx, hy, hz, ht, h1, h2, h3, h4]
  refine ⟨?_, ?_, ?_, ?_⟩ <;> fin_ring

/-- p2_dbl ∘ p1p1_to_p3 is MINUS the RFC 8032 doubling (all four coordinates negated: the same point) -/
theorem sc_p2_dbl {l : K} {P : Ed25519.Point} {p : P2 Nat} (hp : Sc2 l P p) :
    Sc11 (-(l ^ 4)) (Ed25519.double P) (ge25519_p2_dbl specGe p) := by
  obtain ⟨hx, hy, hz⟩ := hp
  simp only [Sc11, Sc, ge25519_p1p1_to_p3, ge25519_p2_dbl, Ed25519.double, s_add, s_sub, s_mul, s_sq, s_sq2,
    c_add, c_sub, c_mul, Nat.cast_ofNat, c_sqr, hx, hy, hz]
  refine ⟨?_, ?_, ?_, ?_⟩ <;> fin_ring

theorem sc_p3_dbl {l : K} {P : Ed25519.Point} {p : P3 Nat} (hp : Sc l P p) :
    Sc11 (-(l ^ 4)) (Ed25519.double P) (ge25519_p3_dbl specGe p) := sc_p2_dbl (sc2_of_sc hp)

theorem sc_p3_neg {l : K} {P : Ed25519.Point} {p : P3 Nat} (hp : Sc l P p) :
    Sc l (Ed25519.neg P) (ge25519_p3_neg specGe p) := by
  obtain ⟨hx, hy, hz, ht⟩ := hp
  simp only [Sc, ge25519_p3_neg, Ed25519.neg, s_neg, c_neg, c_mod, hx, hy, hz, ht]
  refine ⟨?_, ?_, ?_, ?_⟩ <;> fin_ring

theorem sc_p3_add {l m : K} {P Q : Ed25519.Point} {p q : P3 Nat} (hp : Sc l P p) (hq : Sc m Q q) :
    Sc ((l * m) ^ 2) (Ed25519.add P Q) (ge25519_p3_add specGe p q) := sc_add_cached hp (scC_of_sc hq)

theorem sc_p3_sub {l m : K} {P Q : Ed25519.Point} {p q : P3 Nat} (hp : Sc l P p) (hq : Sc m Q q) :
    Sc ((l * m) ^ 2) (Ed25519.sub P Q) (ge25519_p3_sub specGe p q) := by
  have := sc_p3_add hp (sc_p3_neg hq)
  exact this

/-- negating a cached value: (Y-X, Y+X, Z, -2dT) is the cached form of -Q -/
theorem scC_neg {m : K} {Q : Ed25519.Point} {q : Cached Nat} (hq : ScC m Q q) :
    ScC m (Ed25519.neg Q) ⟨q.YminusX, q.YplusX, q.Z, specGe.neg q.T2d⟩ := by
  obtain ⟨h1, h2, h3, h4⟩ := hq
  simp only [ScC, Ed25519.neg, s_neg, c_neg, c_mod, h1, h2, h3, h4]
  refine ⟨?_, ?_, ?_, ?_⟩ <;> fin_ring

theorem scP_neg {Q : Ed25519.Point} {q : Precomp Nat} (hq : ScP Q q) :
    ScP (Ed25519.neg Q) ⟨q.yminusx, q.yplusx, specGe.neg q.xy2d⟩ := by
  obtain ⟨h1, h2, h3, h4⟩ := hq
  simp only [ScP, Ed25519.neg, s_neg, c_neg, c_mod, h1, h2, h3, h4]
  refine ⟨?_, ?_, ?_, ?_⟩ <;> fin_ring

/-- the neutral elements -/
theorem sc_p3_0 : Sc 1 Ed25519.identity (ge25519_p3_0 specGe) := by
  simp [Sc, ge25519_p3_0, Ed25519.identity]
theorem sc2_p2_0 : Sc2 1 Ed25519.identity (ge25519_p2_0 specGe) := by
  simp [Sc2, ge25519_p2_0, Ed25519.identity]
theorem scC_cached_0 : ScC 1 Ed25519.identity (ge25519_cached_0 specGe) := by
  simp only [ScC, ge25519_cached_0, Ed25519.identity, s_one, s_zero]
  refine ⟨?_, ?_, ?_, ?_⟩ <;> simp
theorem scP_precomp_0 : ScP Ed25519.identity (ge25519_precomp_0 specGe) := by
  simp only [ScP, ge25519_precomp_0, Ed25519.identity, s_one, s_zero]
  refine ⟨?_, ?_, ?_, ?_⟩ <;> simp

/-- a scaled representation gives the cross-multiplied (projective) equalities and T·Z = X·Y transfers -/
theorem sc_cross {l : K} {P : Ed25519.Point} {p : P3 Nat} (h : Sc l P p) :
    F25519.mul p.X P.Z = F25519.mul P.X p.Z ∧ F25519.mul p.Y P.Z = F25519.mul P.Y p.Z ∧
    F25519.mul p.T P.Z = F25519.mul P.T p.Z := by
  obtain ⟨hx, hy, hz, ht⟩ := h
  simp only [mul_eq_iff, hx, hy, hz, ht]
  refine ⟨?_, ?_, ?_⟩ <;> fin_ring


/-! ### the curve as an abstract group, and the model over the specification field as an implementation of it -/

/--
  THE ASSUMPTION ABOUT THE CURVE (a property of edwards25519 and of the RFC 8032 formulas, NOT of libsodium):
  there is a commutative group `G` (intended: the points of the curve) and a relation `Rep P g` ("the extended
  coordinates `P`, read mod p, represent the group element `g`") such that the RFC 8032 addition, doubling and
  negation formulas of `Spec/Ed25519.lean` compute the group operations on representatives — i.e. the unified
  addition law is complete on the represented points (no vanishing denominators) and associative — and `Rep`
  only depends on the projective class (all four coordinates may be multiplied by a unit of `ZMod p`).
  Nothing in this structure mentions the C code or its model.
-/
structure CurveGroup (G : Type) [AddCommGroup G] where
  Rep : Ed25519.Point → G → Prop
  rep_identity : Rep Ed25519.identity 0
  rep_add : ∀ {P Q : Ed25519.Point} {g h : G}, Rep P g → Rep Q h → Rep (Ed25519.add P Q) (g + h)
  rep_double : ∀ {P : Ed25519.Point} {g : G}, Rep P g → Rep (Ed25519.double P) (g + g)
  rep_neg : ∀ {P : Ed25519.Point} {g : G}, Rep P g → Rep (Ed25519.neg P) (-g)
  rep_scale : ∀ {P : Ed25519.Point} {g : G} (l : K) (p : P3 Nat), IsUnit l → Rep P g → Sc l P p → Rep (toPoint p) g

section
variable {G : Type} [AddCommGroup G] (C : CurveGroup G)

theorem CurveGroup.rep_sub {P Q : Ed25519.Point} {g h : G} (hP : C.Rep P g) (hQ : C.Rep Q h) :
    C.Rep (Ed25519.sub P Q) (g - h) := by
  rw [sub_eq_add_neg]; exact C.rep_add hP (C.rep_neg hQ)

set_option linter.unusedVariables false in
/-- the model over the specification field implements the curve group: every representation relation is
    "equal, up to a unit factor, to a representative of the group element" -/
def specImpl : GeImpl specGe G where
  R2 p g := ∃ P l, IsUnit l ∧ C.Rep P g ∧ Sc2 l P p
  R3 p g := ∃ P l, IsUnit l ∧ C.Rep P g ∧ Sc l P p
  R11 r g := ∃ P l, IsUnit l ∧ C.Rep P g ∧ Sc11 l P r
  Rc q g := ∃ Q m, IsUnit m ∧ C.Rep Q g ∧ ScC m Q q
  Rp q g := ∃ Q, C.Rep Q g ∧ ScP Q q
  cmov := ⟨fun _ _ => rfl, fun _ _ => rfl⟩
  p3_0 := ⟨_, 1, isUnit_one, C.rep_identity, sc_p3_0⟩
  p2_0 := ⟨_, 1, isUnit_one, C.rep_identity, sc2_p2_0⟩
  cached_0 := ⟨_, 1, isUnit_one, C.rep_identity, scC_cached_0⟩
  precomp_0 := ⟨_, C.rep_identity, scP_precomp_0⟩
  p1p1_to_p2 := fun ⟨P, l, hl, hr, hs⟩ => ⟨P, l, hl, hr, sc2_of_sc11 hs⟩
  p1p1_to_p3 := fun ⟨P, l, hl, hr, hs⟩ => ⟨P, l, hl, hr, hs⟩
  p3_to_p2 := fun ⟨P, l, hl, hr, hs⟩ => ⟨P, l, hl, hr, sc2_of_sc hs⟩
  p3_to_cached := fun ⟨P, l, hl, hr, hs⟩ => ⟨P, l, hl, hr, scC_of_sc hs⟩
  p2_dbl := fun ⟨P, l, hl, hr, hs⟩ => ⟨_, _, (hl.pow 4).neg, C.rep_double hr, sc_p2_dbl hs⟩
  add_cached := fun ⟨P, l, hl, hr, hs⟩ ⟨Q, m, hm, hq, ht⟩ => ⟨_, _, (hl.mul hm).pow 2, C.rep_add hr hq, sc_add_cached hs ht⟩
  sub_cached := fun ⟨P, l, hl, hr, hs⟩ ⟨Q, m, hm, hq, ht⟩ => ⟨_, _, (hl.mul hm).pow 2, C.rep_sub hr hq, sc_sub_cached hs ht⟩
  add_precomp := fun ⟨P, l, hl, hr, hs⟩ ⟨Q, hq, ht⟩ => ⟨_, _, hl.pow 2, C.rep_add hr hq, sc_add_precomp hs ht⟩
  sub_precomp := fun ⟨P, l, hl, hr, hs⟩ ⟨Q, hq, ht⟩ => ⟨_, _, hl.pow 2, C.rep_sub hr hq, sc_sub_precomp hs ht⟩
  neg_cached := fun ⟨Q, m, hm, hq, ht⟩ => ⟨_, m, hm, C.rep_neg hq, scC_neg ht⟩
  neg_precomp := fun ⟨Q, hq, ht⟩ => ⟨_, C.rep_neg hq, scP_neg ht⟩

/-- from the implementation relation back to `Rep` on the p3 value itself -/
theorem rep_of_R3 {p : P3 Nat} {g : G} (h : (specImpl C).R3 p g) : C.Rep (toPoint p) g := by
  obtain ⟨P, l, hl, hr, hs⟩ := h
  exact C.rep_scale l p hl hr hs

theorem R3_of_rep {p : P3 Nat} {g : G} (h : C.Rep (toPoint p) g) : (specImpl C).R3 p g :=
  ⟨toPoint p, 1, isUnit_one, h, sc_self p⟩

end

end Sodium.Ge25519P
