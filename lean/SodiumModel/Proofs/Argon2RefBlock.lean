import SodiumModel.Spec.Argon2
import SodiumModel.Model.Argon2Ref
/-
  Helper lemmas for Properties/C08Core.lean, part 1: the block level.
  `fBlaMka`/`G`/`BLAKE2_ROUND_NOMSG`/`fill_block`/`fill_block_with_xor` of the C reference code
  (Model/Argon2Ref.lean) against GB / P / G of RFC 9106 §3.5–3.6 (Spec/Argon2.lean).
-/
open Sodium Sodium.Spec Sodium.Model Sodium.Model.Argon2Ref
namespace Sodium.Argon2RefP

/-! ### loops -/

/-- a `for` loop of the specification whose body always yields is a fold -/
theorem forIn_range_foldl {β : Type} (a b : Nat) (init : β) (f : Nat → β → Id (ForInStep β)) (g : Nat → β → β)
    (h : ∀ i s, f i s = pure (ForInStep.yield (g i s))) :
    forIn (m := Id) [a:b] init f = pure ((List.range' a (b - a)).foldl (fun s i => g i s) init) := by
  have : f = fun i s => pure (ForInStep.yield (g i s)) := by funext i s; exact h i s
  subst this
  rw [Std.Legacy.Range.forIn_eq_forIn_range', List.forIn_pure_yield_eq_foldl]
  simp [Std.Legacy.Range.size]

/-- a `for` loop of the model is a fold -/
theorem forLoop_eq_foldl {σ : Type} (body : Nat → σ → σ) (n i : Nat) (s : σ) :
    forLoop body n i s = (List.range' i n).foldl (fun s i => body i s) s := by
  induction n generalizing i s with
  | zero => rfl
  | succ n ih => rw [forLoop, ih, List.range'_succ, List.foldl_cons]

/-! ### arrays -/

theorem get!_eq {α} [Inhabited α] (d : Array α) (k : Nat) (h : k < d.size) : d[k]! = d[k] := by
  simp [h]

theorem size_set! {α} (d : Array α) (i : Nat) (x : α) : (d.set! i x).size = d.size := by simp

theorem get!_set! {α} [Inhabited α] (d : Array α) (i k : Nat) (x : α) (hk : k < d.size) :
    (d.set! i x)[k]! = if i = k then x else d[k]! := by
  rw [get!_eq _ _ (by simpa using hk), get!_eq _ _ hk]
  simp only [Array.set!_eq_setIfInBounds]
  rw [Array.getElem_setIfInBounds]

/-- two arrays of the same size with the same `[k]!` are equal -/
theorem ext! {α} [Inhabited α] (a b : Array α) (hs : a.size = b.size) (h : ∀ k, k < a.size → a[k]! = b[k]!) :
    a = b := by
  apply Array.ext hs
  intro k h1 h2
  have := h k h1
  rwa [get!_eq _ _ h1, get!_eq _ _ h2] at this

/-- `for (i = 0; i < n; ++i) d[i] = f(i, d[i]);` -/
theorem foldl_set_spec {α} [Inhabited α] (f : Nat → α → α) (d : Array α) (n : Nat) :
    ((List.range' 0 n).foldl (fun d i => d.set! i (f i d[i]!)) d).size = d.size ∧
    ∀ k, k < d.size → ((List.range' 0 n).foldl (fun d i => d.set! i (f i d[i]!)) d)[k]! =
      if k < n then f k d[k]! else d[k]! := by
  induction n with
  | zero => simp
  | succ n ih =>
    rw [List.range'_1_concat, List.foldl_append]
    simp only [List.foldl_cons, List.foldl_nil, Nat.zero_add]
    obtain ⟨h1, h2⟩ := ih
    refine ⟨by rw [size_set!, h1], ?_⟩
    intro k hk
    rw [get!_set! _ _ _ _ (by omega)]
    by_cases hkn : n = k
    · subst hkn
      rw [if_pos rfl, if_pos (by omega), h2 _ hk, if_neg (by omega)]
    · rw [if_neg hkn, h2 k hk]
      by_cases h3 : k < n
      · rw [if_pos h3, if_pos (by omega)]
      · rw [if_neg h3, if_neg (by omega)]

/-! ### xor_block -/

theorem size_xorBlock (x y : Block) : (Argon2.xorBlock x y).size = x.size := by
  simp [Argon2.xorBlock]

theorem get!_xorBlock (x y : Block) (k : Nat) (hk : k < x.size) :
    (Argon2.xorBlock x y)[k]! = x[k]! ^^^ y[k]! := by
  rw [get!_eq _ _ (by rw [size_xorBlock]; exact hk), get!_eq _ _ hk]
  simp [Argon2.xorBlock]

theorem size_xor_block (d s : Block) : (xor_block d s).size = d.size := by
  unfold xor_block
  rw [forLoop_eq_foldl]
  exact (foldl_set_spec (fun i w => w ^^^ s[i]!) d 128).1

/-- `xor_block` on a 128-word block is the word-wise XOR -/
theorem xor_block_eq (d s : Block) (hd : d.size = 128) : xor_block d s = Argon2.xorBlock d s := by
  apply ext!
  · rw [size_xor_block, size_xorBlock]
  · intro k hk
    rw [size_xor_block] at hk
    rw [get!_xorBlock _ _ _ hk]
    unfold xor_block
    rw [forLoop_eq_foldl, (foldl_set_spec (fun i w => w ^^^ s[i]!) d 128).2 k hk, if_pos (by omega)]

theorem xorBlock_comm (x y : Block) (h : x.size = y.size) : Argon2.xorBlock x y = Argon2.xorBlock y x := by
  apply ext!
  · rw [size_xorBlock, size_xorBlock, h]
  · intro k hk
    rw [size_xorBlock] at hk
    rw [get!_xorBlock _ _ _ hk, get!_xorBlock _ _ _ (by omega), UInt64.xor_comm]

/-! ### fBlaMka, G, BLAKE2_ROUND_NOMSG -/

theorem fBlaMka_eq (x y : UInt64) : fBlaMka x y = x + y + 2 * Argon2.lo x * Argon2.lo y := by
  simp only [fBlaMka, Argon2.lo, UInt64.mul_assoc]

theorem ROTR64_eq (x n : UInt64) : ROTR64 x n = Argon2.rotr x n := rfl

theorem G_eq_GB (a b c d : UInt64) : G a b c d = Argon2.GB a b c d := by
  simp only [G, Argon2.GB, fBlaMka_eq, ROTR64_eq]

theorem gbAt_eq (v : Array UInt64) (a b c d : Nat) :
    Argon2.gbAt v a b c d =
      (((v.set! a (Argon2.GB v[a]! v[b]! v[c]! v[d]!).1).set! b (Argon2.GB v[a]! v[b]! v[c]! v[d]!).2.1).set! c
        (Argon2.GB v[a]! v[b]! v[c]! v[d]!).2.2.1).set! d (Argon2.GB v[a]! v[b]! v[c]! v[d]!).2.2.2 := rfl

theorem P_eq (a0 a1 a2 a3 a4 a5 a6 a7 a8 a9 a10 a11 a12 a13 a14 a15 : UInt64) :
    Argon2.P #[a0, a1, a2, a3, a4, a5, a6, a7, a8, a9, a10, a11, a12, a13, a14, a15] =
      let r := BLAKE2_ROUND_NOMSG a0 a1 a2 a3 a4 a5 a6 a7 a8 a9 a10 a11 a12 a13 a14 a15
      #[r.v0, r.v1, r.v2, r.v3, r.v4, r.v5, r.v6, r.v7, r.v8, r.v9, r.v10, r.v11, r.v12, r.v13, r.v14, r.v15] := by
  have hG : G = Argon2.GB := by funext a b c d; exact G_eq_GB a b c d
  unfold BLAKE2_ROUND_NOMSG
  rw [hG]
  unfold Argon2.P
  simp [gbAt_eq]

/-- `BLAKE2_ROUND_NOMSG` applied to sixteen lvalues of a block is P applied in place at these positions -/
theorem applyP_eq (R : Array UInt64) (i0 i1 i2 i3 i4 i5 i6 i7 i8 i9 i10 i11 i12 i13 i14 i15 : Nat) :
    Argon2.applyP R #[i0, i1, i2, i3, i4, i5, i6, i7, i8, i9, i10, i11, i12, i13, i14, i15] =
      round_at R i0 i1 i2 i3 i4 i5 i6 i7 i8 i9 i10 i11 i12 i13 i14 i15 := by
  unfold Argon2.applyP round_at
  dsimp only
  rw [forIn_range_foldl _ _ _ _ (fun k R' =>
    R'.set! #[i0, i1, i2, i3, i4, i5, i6, i7, i8, i9, i10, i11, i12, i13, i14, i15][k]!
      (Argon2.P (#[i0, i1, i2, i3, i4, i5, i6, i7, i8, i9, i10, i11, i12, i13, i14, i15].map fun k => R[k]!))[k]!)]
  · have : (#[i0, i1, i2, i3, i4, i5, i6, i7, i8, i9, i10, i11, i12, i13, i14, i15].map fun k => R[k]!) =
      #[R[i0]!, R[i1]!, R[i2]!, R[i3]!, R[i4]!, R[i5]!, R[i6]!, R[i7]!, R[i8]!, R[i9]!, R[i10]!, R[i11]!,
        R[i12]!, R[i13]!, R[i14]!, R[i15]!] := by
      simp
    rw [this, P_eq]
    simp [List.range', Id.run]
    rfl
  · intro i s; rfl

theorem range16 : Array.range 16 = #[0, 1, 2, 3, 4, 5, 6, 7, 8, 9, 10, 11, 12, 13, 14, 15] := by decide

theorem rowIdx_eq (i : Nat) :
    Argon2.rowIdx i = #[16 * i, 16 * i + 1, 16 * i + 2, 16 * i + 3, 16 * i + 4, 16 * i + 5, 16 * i + 6,
      16 * i + 7, 16 * i + 8, 16 * i + 9, 16 * i + 10, 16 * i + 11, 16 * i + 12, 16 * i + 13, 16 * i + 14,
      16 * i + 15] := by
  simp [Argon2.rowIdx, range16]

theorem colIdx_eq (i : Nat) :
    Argon2.colIdx i = #[2 * i, 2 * i + 1, 2 * i + 16, 2 * i + 17, 2 * i + 32, 2 * i + 33, 2 * i + 48,
      2 * i + 49, 2 * i + 64, 2 * i + 65, 2 * i + 80, 2 * i + 81, 2 * i + 96, 2 * i + 97, 2 * i + 112,
      2 * i + 113] := by
  simp [Argon2.colIdx, range16]
  omega

theorem size_round_at (b : Block) (i0 i1 i2 i3 i4 i5 i6 i7 i8 i9 i10 i11 i12 i13 i14 i15 : Nat) :
    (round_at b i0 i1 i2 i3 i4 i5 i6 i7 i8 i9 i10 i11 i12 i13 i14 i15).size = b.size := by
  simp [round_at]

/-- the two loops of the C code are the row pass and the column pass of §3.5 -/
theorem rounds_eq (R : Block) :
    blake2_rounds R =
      (List.range' 0 8).foldl (fun Z i => Argon2.applyP Z (Argon2.colIdx i))
        ((List.range' 0 8).foldl (fun Q i => Argon2.applyP Q (Argon2.rowIdx i)) R) := by
  unfold blake2_rounds
  simp only [forLoop_eq_foldl, rowIdx_eq, colIdx_eq, applyP_eq]

theorem size_blake2_rounds (R : Block) : (blake2_rounds R).size = R.size := by
  unfold blake2_rounds
  simp only [forLoop_eq_foldl]
  simp [List.range', size_round_at]

/-- §3.5: G(X, Y) = Z XOR R with R = X XOR Y and Z the two passes of P over R -/
theorem G_eq_rounds (X Y : Block) :
    Argon2.G X Y = Argon2.xorBlock (blake2_rounds (Argon2.xorBlock X Y)) (Argon2.xorBlock X Y) := by
  unfold Argon2.G
  dsimp only
  rw [forIn_range_foldl _ _ _ _ (fun i Q => Argon2.applyP Q (Argon2.rowIdx i)) (fun _ _ => rfl)]
  simp only [Id.run, pure_bind]
  rw [forIn_range_foldl _ _ _ _ (fun i Q => Argon2.applyP Q (Argon2.colIdx i)) (fun _ _ => rfl)]
  rw [rounds_eq]
  rfl

theorem size_G (X Y : Block) : (Argon2.G X Y).size = X.size := by
  rw [G_eq_rounds, size_xorBlock, size_blake2_rounds, size_xorBlock]

/-! ### fill_block, fill_block_with_xor -/

theorem fill_block_eq (prev ref : Block) (hp : prev.size = 128) (hr : ref.size = 128) :
    fill_block prev ref = Argon2.G prev ref := by
  unfold fill_block copy_block
  dsimp only
  rw [G_eq_rounds, xor_block_eq _ _ hr, xorBlock_comm ref prev (by omega),
    xor_block_eq _ _ (by rw [size_xorBlock, hp])]
  exact xorBlock_comm _ _ (by rw [size_blake2_rounds])

theorem xor3 (R Z n : Block) (h : Z.size = R.size) :
    Argon2.xorBlock (Argon2.xorBlock R n) Z = Argon2.xorBlock (Argon2.xorBlock Z R) n := by
  apply ext!
  · simp only [size_xorBlock, h]
  · intro k hk
    simp only [size_xorBlock] at hk
    rw [get!_xorBlock (Argon2.xorBlock R n) Z k (by rw [size_xorBlock]; exact hk),
      get!_xorBlock R n k hk,
      get!_xorBlock (Argon2.xorBlock Z R) n k (by rw [size_xorBlock, h]; exact hk),
      get!_xorBlock Z R k (by rw [h]; exact hk)]
    generalize R[k]! = r
    generalize Z[k]! = z
    generalize n[k]! = n
    rw [UInt64.xor_comm z r, UInt64.xor_assoc, UInt64.xor_assoc, UInt64.xor_comm z n]

theorem fill_block_with_xor_eq (prev ref next : Block) (hp : prev.size = 128) (hr : ref.size = 128) :
    fill_block_with_xor prev ref next = Argon2.xorBlock (Argon2.G prev ref) next := by
  unfold fill_block_with_xor copy_block
  dsimp only
  have hR : xor_block ref prev = Argon2.xorBlock prev ref := by
    rw [xor_block_eq _ _ hr, xorBlock_comm ref prev (by omega)]
  have hsR : (Argon2.xorBlock prev ref).size = 128 := by rw [size_xorBlock, hp]
  rw [hR, xor_block_eq _ _ hsR, xor_block_eq _ _ (by rw [size_xorBlock, hsR]), G_eq_rounds]
  exact xor3 _ _ _ (size_blake2_rounds _)

end Sodium.Argon2RefP
