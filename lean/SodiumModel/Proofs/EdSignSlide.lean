import Mathlib.Tactic.Ring
import Mathlib.Tactic.Linarith
import Mathlib.Tactic.LinearCombination
import SodiumModel.Proofs.Ge25519Slide
/-!
# `slide_vartime` loses no carry for scalars below 2^253

`Ge25519Slide.slide_vartime_spec` shows Σ r[j]·2^j = a − 2^256·t, where `t` counts the carries of the inner
`for (k = i + b; k < 256; ++k)` loop that ran off the end of the 256-entry array.  Here: for `a < 2^253`, t = 0.

Invariant.  Write `S m r = Σ_{j<m} r[j]·2^j` and `V r = S 256 r`.  At the head of the outer loop at index `i`
the still unprocessed upper part `V r − S i r` (all entries there are bits) is at most 2^253.  Inside the b-loop
(`InvX`): while `b ≤ 4` the current digit satisfies `1 ≤ r[i] < 2^b`, the entries `i+1 .. i+b−1` are zero and
`(V r − S (i+1) r) + 2^i ≤ 2^253`; from `b = 5` on only `V r − S (i+1) r ≤ 2^253` is needed, because a set bit
then always hits `break`.  The subtract-and-carry branch is only reachable with `b = 4`; there the upper part is
a multiple `2^(i+4)·(q+1)` (bit i+4 is set, entries i+1..i+3 are zero), so `2^(i+4)·(q+1) + 2^i ≤ 2^253` gives
`2^(i+4)·(q+2) ≤ 2^253` (alignment), which both excludes the lost carry and re-establishes the bound.
-/
open Sodium Sodium.Model.Ge25519 Sodium.Ge25519P
namespace Sodium.EdSignP

/-- the lower partial sum Σ_{j<m} r[j]·2^j -/
def S (m : Nat) (r : List Int8) : Int := sumTo (dg r) 2 m

theorem S_succ (m : Nat) (r : List Int8) : S (m + 1) r = S m r + (r.getD m 0).toInt * 2 ^ m := rfl

theorem S_zero (r : List Int8) : S 0 r = 0 := rfl

theorem V_eq_S (r : List Int8) : V r = S 256 r := rfl

theorem S_set_lt (r : List Int8) (hlen : r.length = 256) (k m : Nat) (hk : k < m) (hm : m ≤ 256) (v : Int8) :
    S m (r.set k v) = S m r + (v.toInt - (r.getD k 0).toInt) * 2 ^ k := by
  unfold S
  rw [show (r.getD k 0).toInt = dg r k from rfl, ← sumTo_update (dg r) 2 k v.toInt m hk]
  apply sumTo_congr
  intro j _
  rw [dg_set r hlen k j (by omega) v]

theorem S_set_ge (r : List Int8) (k m : Nat) (hk : m ≤ k) (v : Int8) : S m (r.set k v) = S m r := by
  unfold S; apply sumTo_congr; intro j hj; unfold dg; rw [getD_set_ne r k j (by omega)]

theorem S_congr (r r' : List Int8) (m : Nat) (h : ∀ j, j < m → r'.getD j 0 = r.getD j 0) : S m r' = S m r := by
  unfold S; apply sumTo_congr; intro j hj; unfold dg; rw [h j hj]

theorem S_zeros (r : List Int8) (m n : Nat) (hmn : m ≤ n) (h : ∀ j, m ≤ j → j < n → r.getD j 0 = 0) :
    S n r = S m r := by
  induction n with
  | zero => have : m = 0 := by omega
            subst this; rfl
  | succ n ih =>
    by_cases e : m = n + 1
    · subst e; rfl
    · rw [S_succ, h n (by omega) (by omega), ih (by omega) (fun j h1 h2 => h j h1 (by omega)), toInt_zero]
      simp

/-- a block of bits above position m is a non-negative multiple of 2^m -/
theorem S_bits (r : List Int8) (m : Nat) : ∀ n, m ≤ n → (∀ j, m ≤ j → j < n → Bit (r.getD j 0)) →
    ∃ q : Nat, S n r = S m r + 2 ^ m * (q : Int) := by
  intro n
  induction n with
  | zero => intro h _; have : m = 0 := by omega
            subst this; exact ⟨0, by simp⟩
  | succ n ih =>
    intro h1 hb
    by_cases e : m = n + 1
    · subst e; exact ⟨0, by simp⟩
    · obtain ⟨q, hq⟩ := ih (by omega) (fun j a b => hb j a (by omega))
      have hp : (2 : Int) ^ n = 2 ^ m * 2 ^ (n - m) := by rw [← pow_add]; congr 1; omega
      rcases hb n (by omega) (by omega) with h0 | h0
      · exact ⟨q, by rw [S_succ, h0, hq, toInt_zero]; ring⟩
      · exact ⟨q + 2 ^ (n - m), by rw [S_succ, h0, hq, toInt_one, hp]; push_cast; ring⟩

/-- the subtract branch is only reachable for b ≤ 4, and for a digit below 2^b only for b = 4 -/
theorem slide_arith2 : ∀ b : Fin 7, 1 ≤ b.val → ∀ x : Int8, OddDigit x →
    let ribs : Int32 := (1 : Int8).toInt32 <<< Int32.ofNat b.val
    (¬ (x.toInt32 + ribs ≤ 15) → ¬ (x.toInt32 - ribs < -15) →
      b.val ≤ 4 ∧ (1 ≤ x.toInt → x.toInt < 2 ^ b.val → b.val = 4)) := by
  decide +kernel

theorem align_nat (i q : Nat) (h : 2 ^ (i + 4) * (q + 1) + 2 ^ i ≤ 2 ^ 253) : 2 ^ (i + 4) * (q + 2) ≤ 2 ^ 253 := by
  have hpi : 0 < 2 ^ i := Nat.two_pow_pos i
  have hmul : 2 ^ (i + 4) ≤ 2 ^ (i + 4) * (q + 1) := Nat.le_mul_of_pos_right _ (by omega)
  have hlt : i + 4 < 253 := by
    by_contra hc
    have : 2 ^ 253 ≤ 2 ^ (i + 4) := Nat.pow_le_pow_right (by decide) (by omega)
    omega
  have hE : 2 ^ 253 = 2 ^ (i + 4) * 2 ^ (249 - i) := by rw [← pow_add]; congr 1; omega
  rw [hE] at h ⊢
  have hq : q + 1 < 2 ^ (249 - i) := Nat.lt_of_mul_lt_mul_left (a := 2 ^ (i + 4)) (by omega)
  exact Nat.mul_le_mul_left _ (by omega)

theorem align_int (i q : Nat) (h : (2 : Int) ^ (i + 4) * ((q : Int) + 1) + 2 ^ i ≤ 2 ^ 253) :
    (2 : Int) ^ (i + 4) * ((q : Int) + 2) ≤ 2 ^ 253 := by
  have := align_nat i q (by exact_mod_cast h)
  exact_mod_cast this

/-- the extra invariant inside the b-loop at index i -/
structure InvX (i b : Nat) (r : List Int8) : Prop where
  small : b ≤ 4 → 1 ≤ (r.getD i 0).toInt ∧ (r.getD i 0).toInt < 2 ^ b ∧
    (∀ j, i < j → j < i + b → r.getD j 0 = 0) ∧ V r - S (i + 1) r + 2 ^ i ≤ 2 ^ 253
  big : 5 ≤ b → V r - S (i + 1) r ≤ 2 ^ 253

theorem InvX.exit {i b : Nat} {r : List Int8} (h : InvX i b r) : V r - S (i + 1) r ≤ 2 ^ 253 := by
  by_cases hb : b ≤ 4
  · obtain ⟨_, _, _, h4⟩ := h.small hb
    have : (0 : Int) < 2 ^ i := by positivity
    linarith
  · exact h.big (by omega)

theorem slideInner_exact (i : Nat) (hi : i < 256) (fuel : Nat) : ∀ (b : Nat) (r : List Int8), 1 ≤ b →
    InvIn i r → InvX i b r →
    InvIn i (slideInner i fuel b r) ∧ V (slideInner i fuel b r) = V r ∧
      V (slideInner i fuel b r) - S (i + 1) (slideInner i fuel b r) ≤ 2 ^ 253 := by
  induction fuel with
  | zero => intro b r _ h hx; exact ⟨h, rfl, hx.exit⟩
  | succ fuel ih =>
    intro b r hb h hx
    rw [slideInner_succ]
    by_cases hc : b ≤ 6 ∧ i + b < 256
    · rw [if_pos hc]
      by_cases h0 : r.getD (i + b) 0 = 0
      · rw [if_pos h0]
        refine ih (b + 1) r (by omega) h ⟨fun hb4 => ?_, fun _ => hx.exit⟩
        obtain ⟨s1, s2, s3, s4⟩ := hx.small (by omega)
        refine ⟨s1, ?_, fun j j1 j2 => ?_, s4⟩
        · have : (0 : Int) < 2 ^ b := by positivity
          rw [pow_succ]; linarith
        · by_cases e : j = i + b
          · subst e; exact h0
          · exact s3 j j1 (by omega)
      · have h1 : r.getD (i + b) 0 = 1 := bit_cases _ (h.hi (i + b) (by omega) hc.2) h0
        obtain ⟨A, Sb⟩ := slide_arith ⟨b, by omega⟩ hb (r.getD i 0) h.cur
        have A2 := slide_arith2 ⟨b, by omega⟩ hb (r.getD i 0) h.cur
        have hv : (2 : Int) ^ ((⟨b, by omega⟩ : Fin 7) : Nat) = 2 ^ b := rfl
        have hp : (2 : Int) ^ (i + b) = 2 ^ i * 2 ^ b := pow_add 2 i b
        have hpos : (0 : Int) < 2 ^ i * 2 ^ b := by positivity
        rw [if_neg h0, h1]
        by_cases hadd : (r.getD i 0).toInt32 + ((1 : Int8).toInt32 <<< Int32.ofNat b) ≤ 15
        · rw [if_pos hadd]
          obtain ⟨hod, hval⟩ := A hadd
          rw [hv] at hval
          generalize hx' : ((r.getD i 0).toInt32 + ((1 : Int8).toInt32 <<< Int32.ofNat b)).toInt8 = x at hod hval ⊢
          have hlen1 : (r.set i x).length = 256 := by simp [h.len]
          have inv' : InvIn i ((r.set i x).set (i + b) 0) := by
            refine ⟨by simp [h.len], fun j hj => ?_, ?_, fun j h1 h2 => ?_⟩
            · rw [getD_set_ne _ _ j (by omega), getD_set_ne _ _ j (by omega)]; exact h.lo j hj
            · rw [getD_set_ne _ _ i (by omega), getD_set_eq r i (by rw [h.len]; exact hi)]; exact hod
            · by_cases e : j = i + b
              · subst e; rw [getD_set_eq _ _ (by omega)]; left; rfl
              · rw [getD_set_ne _ _ j e, getD_set_ne _ _ j (by omega)]; exact h.hi j h1 h2
          have hV : V ((r.set i x).set (i + b) 0) = V r := by
            rw [V_set' _ hlen1 (i + b) hc.2, V_set' r h.len i hi, hval, getD_set_ne r i (i + b) (by omega), h1,
              toInt_one, toInt_zero]
            linear_combination (-1 : Int) * hp
          have hS : S (i + 1) ((r.set i x).set (i + b) 0) = S (i + 1) r + 2 ^ i * 2 ^ b := by
            rw [S_set_ge _ (i + b) (i + 1) (by omega), S_set_lt r h.len i (i + 1) (by omega) (by omega), hval]
            ring
          have hcur : ((r.set i x).set (i + b) 0).getD i 0 = x := by
            rw [getD_set_ne _ _ i (by omega), getD_set_eq r i (by rw [h.len]; exact hi)]
          have inx : InvX i (b + 1) ((r.set i x).set (i + b) 0) := by
            refine ⟨fun hb4 => ?_, fun _ => ?_⟩
            · obtain ⟨s1, s2, s3, s4⟩ := hx.small (by omega)
              have : (0 : Int) < 2 ^ b := by positivity
              refine ⟨?_, ?_, fun j j1 j2 => ?_, ?_⟩
              · rw [hcur, hval]; linarith
              · rw [hcur, hval, pow_succ]; linarith
              · by_cases e : j = i + b
                · subst e; rw [getD_set_eq _ _ (by omega)]
                · rw [getD_set_ne _ _ j e, getD_set_ne _ _ j (by omega)]; exact s3 j j1 (by omega)
              · rw [hV, hS]; linarith
            · have := hx.exit
              rw [hV, hS]; linarith
          obtain ⟨r1, r2, r3⟩ := ih (b + 1) _ (by omega) inv' inx
          exact ⟨r1, r2.trans hV, r3⟩
        · rw [if_neg hadd]
          by_cases hbrk : (r.getD i 0).toInt32 - ((1 : Int8).toInt32 <<< Int32.ofNat b) < -15
          · rw [if_pos hbrk]; exact ⟨h, rfl, hx.exit⟩
          · rw [if_neg hbrk]
            obtain ⟨hod, hval⟩ := Sb hadd hbrk
            obtain ⟨hb4, hb4'⟩ := A2 hadd hbrk
            rw [hv] at hval
            obtain ⟨s1, s2, s3, s4⟩ := hx.small hb4
            have hbeq : b = 4 := hb4' s1 (by rw [hv]; exact s2)
            subst hbeq
            generalize hx' : ((r.getD i 0).toInt32 - ((1 : Int8).toInt32 <<< Int32.ofNat 4)).toInt8 = x at hod hval ⊢
            have hlen1 : (r.set i x).length = 256 := by simp [h.len]
            have hbits1 : ∀ j, i + 4 ≤ j → j < 256 → Bit ((r.set i x).getD j 0) := fun j h1 h2 => by
              rw [getD_set_ne _ _ j (by omega)]; exact h.hi j (by omega) h2
            obtain ⟨c1, c2, c3, tc, c4⟩ := slideCarry_spec (256 - (i + 4)) (i + 4) (r.set i x) hlen1 (by omega)
              (by omega) hbits1
            have inv' : InvIn i (slideCarry (256 - (i + 4)) (i + 4) (r.set i x)) := by
              refine ⟨c1, fun j hj => ?_, ?_, fun j h1 h2 => ?_⟩
              · rw [c2 j (by omega), getD_set_ne _ _ j (by omega)]; exact h.lo j hj
              · rw [c2 i (by omega), getD_set_eq r i (by rw [h.len]; exact hi)]; exact hod
              · by_cases e : j < i + 4
                · rw [c2 j e, getD_set_ne _ _ j (by omega)]; exact h.hi j h1 h2
                · exact c3 j (by omega) h2
            generalize hres : slideCarry (256 - (i + 4)) (i + 4) (r.set i x) = res at c1 c2 c3 c4 inv' ⊢
            -- values of r1 = r.set i x
            have hV1 : V (r.set i x) = V r - 2 ^ i * 2 ^ 4 := by
              rw [V_set' r h.len i hi, hval]; ring
            have hS1 : S (i + 1) (r.set i x) = S (i + 1) r - 2 ^ i * 2 ^ 4 := by
              rw [S_set_lt r h.len i (i + 1) (by omega) (by omega), hval]; ring
            have hz1 : S (i + 4) (r.set i x) = S (i + 1) (r.set i x) :=
              S_zeros _ (i + 1) (i + 4) (by omega) (fun j j1 j2 => by
                rw [getD_set_ne _ _ j (by omega)]; exact s3 j (by omega) j2)
            -- r2 = r1 with bit i+4 cleared: its upper part is still a non-negative multiple of 2^(i+4)
            have hV2 : V ((r.set i x).set (i + 4) 0) = V (r.set i x) - 2 ^ i * 2 ^ 4 := by
              rw [V_set' _ hlen1 (i + 4) hc.2, getD_set_ne r i (i + 4) (by omega), h1, toInt_one, toInt_zero]
              linear_combination (-1 : Int) * hp
            have hS2 : S (i + 4) ((r.set i x).set (i + 4) 0) = S (i + 4) (r.set i x) :=
              S_set_ge _ (i + 4) (i + 4) (Nat.le_refl _) 0
            obtain ⟨q2, hq2⟩ := S_bits ((r.set i x).set (i + 4) 0) (i + 4) 256 (by omega) (fun j j1 j2 => by
              by_cases e : j = i + 4
              · subst e; rw [getD_set_eq _ _ (by omega)]; left; rfl
              · rw [getD_set_ne _ _ j e]; exact hbits1 j j1 j2)
            rw [← V_eq_S, hS2, hV2] at hq2
            -- the result of the carry loop
            obtain ⟨q', hq'⟩ := S_bits res (i + 4) 256 (by omega) c3
            rw [← V_eq_S] at hq'
            have hSres : S (i + 4) res = S (i + 4) (r.set i x) := S_congr _ _ _ c2
            have hzres : S (i + 4) res = S (i + 1) res :=
              S_zeros _ (i + 1) (i + 4) (by omega) (fun j j1 j2 => by
                rw [c2 j j2, getD_set_ne _ _ j (by omega)]; exact s3 j (by omega) j2)
            -- alignment
            have hW : V r - S (i + 1) r = 2 ^ (i + 4) * ((q2 : Int) + 1) := by
              rw [hp]; linear_combination hq2 - hV1 + hz1 + hS1
            have hal := align_int i q2 (by rw [← hW]; exact s4)
            have hq'2 : (2 : Int) ^ (i + 4) * (q' : Int) + 2 ^ 256 * (tc : Int) = 2 ^ (i + 4) * ((q2 : Int) + 2) := by
              rw [hp]; rw [hp] at c4 hq' hq2
              linear_combination c4 - hq' + hq2 - hSres
            have hnn : (0 : Int) ≤ 2 ^ (i + 4) * (q' : Int) :=
              Int.mul_nonneg (pow_nonneg (by decide) _) (Int.natCast_nonneg _)
            have htc : tc = 0 := by
              generalize (2 : Int) ^ (i + 4) * (q' : Int) = Z at hq'2 hnn
              generalize (2 : Int) ^ (i + 4) * ((q2 : Int) + 2) = Y at hq'2 hal
              omega
            subst htc
            have hVres : V res = V r := by
              rw [hp] at c4
              linear_combination c4 + hV1
            have inx : InvX i (4 + 1) res := by
              refine ⟨fun hb5 => absurd hb5 (by omega), fun _ => ?_⟩
              rw [← hzres]
              have : V res - S (i + 4) res = 2 ^ (i + 4) * ((q2 : Int) + 2) := by
                linear_combination hq' + hq'2
              rw [this]; exact hal
            obtain ⟨r1, r2, r3⟩ := ih (4 + 1) _ (by omega) inv' inx
            exact ⟨r1, r2.trans hVres, r3⟩
    · rw [if_neg hc]
      exact ⟨h, rfl, hx.exit⟩

theorem slideOuter_exact (n : Nat) : ∀ (i : Nat) (r : List Int8), i + n = 256 → Inv i r →
    V r - S i r ≤ 2 ^ 253 → V (slideOuter n i r) = V r := by
  induction n with
  | zero => intro i r _ _ _; rfl
  | succ n ih =>
    intro i r hi h hW
    rw [slideOuter]
    by_cases h0 : r.getD i 0 = 0
    · rw [if_pos h0]
      refine ih (i + 1) r (by omega) ⟨h.len, fun j hj => ?_, fun j h1 h2 => h.hi j (by omega) h2⟩ ?_
      · by_cases e : j = i
        · subst e; left; exact h0
        · exact h.lo j (by omega)
      · rw [S_succ, h0, toInt_zero]; simpa using hW
    · rw [if_neg h0]
      have h1 : r.getD i 0 = 1 := bit_cases _ (h.hi i (Nat.le_refl _) (by omega)) h0
      have hin : InvIn i r := ⟨h.len, h.lo, by rw [h1]; decide, fun j h1 h2 => h.hi j (by omega) h2⟩
      have hx : InvX i 1 r := by
        refine ⟨fun _ => ⟨?_, ?_, fun j j1 j2 => absurd j2 (by omega), ?_⟩, fun h5 => absurd h5 (by omega)⟩
        · rw [h1, toInt_one]
        · rw [h1, toInt_one]; decide
        · rw [S_succ, h1, toInt_one]; linarith
      obtain ⟨a, e, w⟩ := slideInner_exact i (by omega) 6 1 r (Nat.le_refl _) hin hx
      have := ih (i + 1) _ (by omega) ⟨a.len, fun j hj => by
        by_cases e : j = i
        · subst e; right; exact a.cur
        · exact a.lo j (by omega), fun j h1 h2 => a.hi j (by omega) h2⟩ w
      exact this.trans e

/-- `slide_vartime` is exact (no carry runs off the end of the digit array) for every scalar below 2^253 -/
theorem slide_exact (a : Bytes) (ha : a.length = 32) (h : le a < 2 ^ 253) :
    Sodium.Ge25519P.slideVal (Sodium.Model.Ge25519.slide_vartime a) = (le a : Int) := by
  have hV := slideBits_V a ha
  have := slideOuter_exact 256 0 (slideBits a 256 0) rfl (slideBits_inv a) (by
    rw [S_zero, hV]
    have : ((le a : Nat) : Int) < 2 ^ 253 := by exact_mod_cast h
    linarith)
  rw [← hV]; exact this

end Sodium.EdSignP
