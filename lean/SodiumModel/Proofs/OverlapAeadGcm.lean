import SodiumModel.Model.OverlapAead
import SodiumModel.Proofs.Overlap
/-
  Helper lemmas for C13 / AEAD at memory level, part 3 (AES-256-GCM block schedules): a schedule that passes
  `encCheck` / `decCheck`, run on memory with the output at or before the input (in place: equal) or disjoint,
  stores the whole-message XOR and feeds GHASH the ciphertext bytes in order.
-/
open Sodium Sodium.Model Sodium.Model.Aead Sodium.Model.Overlap Sodium.Model.OverlapAead Sodium.OverlapP
namespace Sodium.OverlapAeadP

/-- reading inside what was just stored -/
theorem read_write_inside (mem : Mem) (off : Nat) (bs : Bytes) (a len : Nat) (h : a + len ≤ bs.length) :
    read (write mem off bs) (off + a) len = (bs.drop a).take len := by
  apply List.ext_getElem
  · simp; omega
  · intro i h1 h2
    rw [getElem_read, write_inside _ _ _ _ (by omega) (by simp at h1; omega)]
    simp only [List.getElem_take, List.getElem_drop]
    congr 1; omega

theorem write_write_adj' (mem : Mem) (off : Nat) (a b : Bytes) (x : Nat) (h : a.length = x) :
    write (write mem off a) (off + x) b = write mem off (a ++ b) := by
  subst h; exact write_write_adj mem off a b

theorem take_take_drop (l : Bytes) (a b : Nat) : l.take a ++ (l.drop a).take b = l.take (a + b) := by
  rw [List.take_add]

theorem take_drop_take (l : Bytes) (x g len : Nat) (h : g + len ≤ x) :
    ((l.take x).drop g).take len = (l.drop g).take len := by
  rw [List.drop_take, List.take_take]
  congr 1; omega

/-- the chunk XORed at offset `x` is the corresponding slice of the whole-message XOR -/
theorem xor_slice (mem0 : Mem) (src n x len : Nat) (ks : Bytes) (h : x + len ≤ n) :
    xorBytes (read mem0 (src + x) len) ((ks.drop x).take len) =
      ((xorBytes (read mem0 src n) ks).drop x).take len := by
  rw [aead_xorBytes_drop, xorBytes_take, drop_read _ _ _ _ (by omega), take_read _ _ _ _ (by omega)]

theorem gRun_enc (ks : Bytes) (mem0 : Mem) (dst src n : Nat) (h : dst ≤ src ∨ src + n ≤ dst) (hks : n ≤ ks.length) :
    ∀ (ops : List GOp) (x g x' g' : Nat), encCheck n ops (x, g) = some (x', g') → g ≤ x → x ≤ n →
      gRun ks dst src dst ops (write mem0 dst ((xorBytes (read mem0 src n) ks).take x), (xorBytes (read mem0 src n) ks).take g) =
        (write mem0 dst ((xorBytes (read mem0 src n) ks).take x'), (xorBytes (read mem0 src n) ks).take g') ∧ g' ≤ x' ∧ x' ≤ n
  | [], x, g, x', g', hc, hg, hx => by
    simp only [encCheck, Option.some.injEq, Prod.mk.injEq] at hc
    obtain ⟨rfl, rfl⟩ := hc
    exact ⟨rfl, hg, hx⟩
  | .xor off len :: r, x, g, x', g', hc, hg, hx => by
    simp only [encCheck] at hc
    split at hc
    · rename_i hcond
      obtain ⟨rfl, hle⟩ := hcond
      have hL : ((xorBytes (read mem0 src n) ks).take off).length = off := by
        simp [aead_xorBytes_length]; omega
      have ih := gRun_enc ks mem0 dst src n h hks r (off + len) g x' g' hc (by omega) hle
      simp only [gRun]
      rw [read_write_disj _ _ _ _ _ (by rw [hL]; omega), xor_slice mem0 src n off len ks hle]
      rw [write_write_adj' _ _ _ _ _ hL, take_take_drop]
      exact ih
    · exact absurd hc (by simp)
  | .gh off len :: r, x, g, x', g', hc, hg, hx => by
    simp only [encCheck] at hc
    split at hc
    · rename_i hcond
      obtain ⟨rfl, hle⟩ := hcond
      have hL : ((xorBytes (read mem0 src n) ks).take x).length = x := by
        simp [aead_xorBytes_length]; omega
      have ih := gRun_enc ks mem0 dst src n h hks r x (off + len) x' g' hc hle hx
      simp only [gRun]
      rw [read_write_inside _ _ _ _ _ (by rw [hL]; exact hle), take_drop_take _ _ _ _ hle, take_take_drop]
      exact ih
    · exact absurd hc (by simp)

theorem gRun_dec (ks : Bytes) (mem0 : Mem) (dst src n : Nat) (h : dst ≤ src ∨ src + n ≤ dst) (hks : n ≤ ks.length) :
    ∀ (ops : List GOp) (x g x' g' : Nat), decCheck n ops (x, g) = some (x', g') → x ≤ n → g ≤ n →
      gRun ks dst src src ops (write mem0 dst ((xorBytes (read mem0 src n) ks).take x), (read mem0 src n).take g) =
        (write mem0 dst ((xorBytes (read mem0 src n) ks).take x'), (read mem0 src n).take g') ∧ x' ≤ n ∧ g' ≤ n
  | [], x, g, x', g', hc, hx, hg => by
    simp only [decCheck, Option.some.injEq, Prod.mk.injEq] at hc
    obtain ⟨rfl, rfl⟩ := hc
    exact ⟨rfl, hx, hg⟩
  | .xor off len :: r, x, g, x', g', hc, hx, hg => by
    simp only [decCheck] at hc
    split at hc
    · rename_i hcond
      obtain ⟨rfl, hle⟩ := hcond
      have hL : ((xorBytes (read mem0 src n) ks).take off).length = off := by
        simp [aead_xorBytes_length]; omega
      have ih := gRun_dec ks mem0 dst src n h hks r (off + len) g x' g' hc hle hg
      simp only [gRun]
      rw [read_write_disj _ _ _ _ _ (by rw [hL]; omega), xor_slice mem0 src n off len ks hle]
      rw [write_write_adj' _ _ _ _ _ hL, take_take_drop]
      exact ih
    · exact absurd hc (by simp)
  | .gh off len :: r, x, g, x', g', hc, hx, hg => by
    simp only [decCheck] at hc
    split at hc
    · rename_i hcond
      obtain ⟨rfl, hxg, hle⟩ := hcond
      have hL : ((xorBytes (read mem0 src n) ks).take x).length = x := by
        simp [aead_xorBytes_length]; omega
      have ih := gRun_dec ks mem0 dst src n h hks r x (off + len) x' g' hc hx hle
      simp only [gRun]
      have e : read mem0 (src + off) len = ((read mem0 src n).drop off).take len := by
        rw [drop_read _ _ _ _ (by omega), take_read _ _ _ _ (by omega)]
      rw [read_write_disj _ _ _ _ _ (by rw [hL]; omega), e, take_take_drop]
      exact ih
    · exact absurd hc (by simp)

end Sodium.OverlapAeadP
