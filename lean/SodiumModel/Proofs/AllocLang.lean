import SodiumModel.Model.AllocLang
import SodiumModel.Proofs.Fault
/-
  Helper lemmas for C20Gen (Tie B of C20).  Namespace Sodium.AllocLangP.

  1. `exec_mem_explore`: the deterministic run under ANY oracle and ANY valuation of the named inputs is one of
     the finitely many paths of `explore`; hence the decidable `goodAll` is sound (`goodAll_sound`).
  2. `exec_congr` / `next_le`: a program started at request number `n` consults the oracle only on
     `n … n + reqCount p - 1`; hence a run depends only on the first `reqCount p` answers (`runWith_prefix`), and a
     property checked for all `2 ^ reqCount p` prefixes holds for every oracle (`forall_oracle_of_prefixes`).
-/
open Sodium Sodium.Model Sodium.Model.Fault Sodium.Model.AllocLang
namespace Sodium.AllocLangP

/-! ### soundness of the non-deterministic interpreter -/

theorem poss_sound (ι : Inp → Bool) (e : Env) : ∀ c : Cond,
    (c.eval ι e = true → (c.poss e).1 = true) ∧ (c.eval ι e = false → (c.poss e).2 = true) := by
  intro c
  induction c with
  | tt => simp [Cond.eval, Cond.poss]
  | ff => simp [Cond.eval, Cond.poss]
  | input i => simp [Cond.eval, Cond.poss]
  | eq v c => simp [Cond.eval, Cond.poss]
  | not c ih =>
    simp only [Cond.eval, Cond.poss]
    constructor
    · intro h; exact ih.2 (by simpa using h)
    · intro h; exact ih.1 (by simpa using h)
  | and a b iha ihb =>
    simp only [Cond.eval, Cond.poss]
    constructor
    · intro h
      have h' : a.eval ι e = true ∧ b.eval ι e = true := by simpa using h
      simp [iha.1 h'.1, ihb.1 h'.2]
    · intro h
      cases ha : a.eval ι e with
      | false => simp [iha.2 ha]
      | true =>
        have hb : b.eval ι e = false := by simpa [ha] using h
        simp [ihb.2 hb]
  | or a b iha ihb =>
    simp only [Cond.eval, Cond.poss]
    constructor
    · intro h
      cases ha : a.eval ι e with
      | true => simp [iha.1 ha]
      | false =>
        have hb : b.eval ι e = true := by simpa [ha] using h
        simp [ihb.1 hb]
    · intro h
      have h' : a.eval ι e = false ∧ b.eval ι e = false := by simpa using h
      simp [iha.2 h'.1, ihb.2 h'.2]

theorem exec_mem_explore (ok : Nat → Bool) (ι : Inp → Bool) :
    ∀ (p : Prog) (e : Env) (s : St), exec ok ι p e s ∈ explore p e s := by
  intro p
  induction p with
  | skip => intro e s; simp [exec, explore]
  | req k v => intro e s; cases h : ok s.next <;> simp [exec, explore, h]
  | rel u v => intro e s; simp [exec, explore]
  | set v r => intro e s; simp [exec, explore]
  | ret r => intro e s; simp [exec, explore]
  | crash => intro e s; simp [exec, explore]
  | seq a b iha ihb =>
    intro e s
    simp only [exec, explore, List.mem_flatMap]
    refine ⟨exec ok ι a e s, iha e s, ?_⟩
    cases h : (exec ok ι a e s).1 with
    | norm => simpa [h] using ihb _ _
    | ret r => simp
    | crash => simp
  | ite c t f iht ihf =>
    intro e s
    simp only [exec, explore, List.mem_append]
    cases h : c.eval ι e with
    | true => left; simpa [(poss_sound ι e c).1 h] using iht e s
    | false => right; simpa [(poss_sound ι e c).2 h] using ihf e s
  | call fn dst body ih =>
    intro e s
    simp only [exec, explore]
    exact List.mem_map_of_mem (ih e s)

theorem runWith_mem_allRuns (ok : Nat → Bool) (ι : Inp → Bool) (p : Prog) :
    runWith ok ι p ∈ allRuns p := by
  unfold runWith allRuns
  exact List.mem_map_of_mem (f := fun r : Out × Env × St => (⟨rcOf r.1, r.2.2.evs.reverse⟩ : Run))
    (exec_mem_explore ok ι p env0 {})

/-- the decidable check is sound: it covers every oracle and every valuation of the named inputs -/
theorem goodAll_sound {k : RetKind} {p : Prog} (h : goodAll k p = true) (ok : Nat → Bool) (ι : Inp → Bool) :
    goodRun k (runWith ok ι p) = true :=
  (List.all_eq_true.mp h) _ (runWith_mem_allRuns ok ι p)

theorem requestsBelow_sound {n : Nat} {p : Prog} (h : requestsBelow n p = true) (ok : Nat → Bool) (ι : Inp → Bool) :
    (exec ok ι p env0 {}).2.2.next ≤ n := by
  have := (List.all_eq_true.mp h) _ (exec_mem_explore ok ι p env0 {})
  simpa using this

/-! ### what `goodRun` says, as propositions -/

theorem good_api {r : Run} (h : goodRun .api r = true) : FaultP.Good r.rc r.evs := by
  simp only [goodRun, Bool.and_eq_true, Bool.or_eq_true, Bool.not_eq_true', beq_iff_eq] at h
  refine ⟨fun hf => ?_, h.1.2, by simpa using h.2⟩
  rcases h.1.1 with h1 | h1
  · rw [hf] at h1; cases h1
  · exact h1

theorem good_code {r : Run} (h : goodRun .code r = true) :
    (anyFailed r.evs = true → r.rc ≠ 0 ∧ r.rc ≠ crashRc) ∧ live r.evs = [] ∧ badRelease r.evs = false := by
  simp only [goodRun, Bool.and_eq_true, Bool.or_eq_true, Bool.not_eq_true', beq_iff_eq, bne_iff_ne] at h
  refine ⟨fun hf => ?_, h.1.2, by simpa using h.2⟩
  rcases h.1.1 with h1 | h1
  · rw [hf] at h1; cases h1
  · exact h1

theorem good_ptr {r : Run} (h : goodRun .ptr r = true) :
    (anyFailed r.evs = true → r.rc = 0) ∧ badRelease r.evs = false ∧
      live r.evs = (match blockOf r.rc with | some id => [id] | none => []) := by
  simp only [goodRun, Bool.and_eq_true, Bool.or_eq_true, Bool.not_eq_true', beq_iff_eq] at h
  refine ⟨fun hf => ?_, by simpa using h.1.2, h.2⟩
  rcases h.1.1 with h1 | h1
  · rw [hf] at h1; cases h1
  · exact h1

/-! ### the oracle is consulted only on `s.next … s.next + reqCount p - 1` -/

theorem doReq_next (b : Bool) (k : Kind) (v : Var) (e : Env) (s : St) : (doReq b k v e s).2.next = s.next + 1 := by
  cases b <;> simp [doReq, request]

theorem doRel_next (u : Bool) (x : Int) (s : St) : (doRel u x s).next = s.next := by
  unfold doRel
  cases blockOf x <;> simp [release] <;> rfl

theorem finishCall_next (dst : Option Var) (r : Out × Env × St) : (finishCall dst r).2.2.next = r.2.2.next := by
  unfold finishCall
  cases r.1 <;> simp

theorem next_bounds (ok : Nat → Bool) (ι : Inp → Bool) : ∀ (p : Prog) (e : Env) (s : St),
    s.next ≤ (exec ok ι p e s).2.2.next ∧ (exec ok ι p e s).2.2.next ≤ s.next + reqCount p := by
  intro p
  induction p with
  | skip => intro e s; simp [exec, reqCount]
  | req k v => intro e s; simp [exec, reqCount, doReq_next]
  | rel u v => intro e s; simp [exec, reqCount, doRel_next]
  | set v r => intro e s; simp [exec, reqCount]
  | ret r => intro e s; simp [exec, reqCount]
  | crash => intro e s; simp [exec, reqCount]
  | seq a b iha ihb =>
    intro e s
    have ha := iha e s
    simp only [exec, reqCount]
    cases h : (exec ok ι a e s).1 with
    | norm =>
      have hb := ihb (exec ok ι a e s).2.1 (exec ok ι a e s).2.2
      simp only []
      omega
    | ret r => simp only []; omega
    | crash => simp only []; omega
  | ite c t f iht ihf =>
    intro e s
    simp only [exec, reqCount]
    cases c.eval ι e
    · have := ihf e s; simp only [Bool.false_eq_true, if_false]; omega
    · have := iht e s; simp only [if_true]; omega
  | call fn dst body ih =>
    intro e s
    simp only [exec, reqCount, finishCall_next]
    exact ih e s

/-- two oracles that agree on the request numbers a program can reach give the same run -/
theorem exec_congr (ok ok' : Nat → Bool) (ι : Inp → Bool) : ∀ (p : Prog) (e : Env) (s : St),
    (∀ i, s.next ≤ i → i < s.next + reqCount p → ok i = ok' i) → exec ok ι p e s = exec ok' ι p e s := by
  intro p
  induction p with
  | skip => intro e s _; simp [exec]
  | req k v => intro e s h; simp [exec, h s.next (Nat.le_refl _) (by simp [reqCount])]
  | rel u v => intro e s _; simp [exec]
  | set v r => intro e s _; simp [exec]
  | ret r => intro e s _; simp [exec]
  | crash => intro e s _; simp [exec]
  | seq a b iha ihb =>
    intro e s h
    have ha := iha e s (fun i h1 h2 => h i h1 (by simp only [reqCount]; omega))
    have hn := next_bounds ok' ι a e s
    simp only [exec, ha]
    cases hh : (exec ok' ι a e s).1 with
    | norm =>
      simp only []
      exact ihb _ _ (fun i h1 h2 => h i (by omega) (by simp only [reqCount]; omega))
    | ret r => rfl
    | crash => rfl
  | ite c t f iht ihf =>
    intro e s h
    simp only [exec]
    cases c.eval ι e
    · simp only [Bool.false_eq_true, if_false]
      exact ihf e s (fun i h1 h2 => h i h1 (by simp only [reqCount]; omega))
    · simp only [if_true]
      exact iht e s (fun i h1 h2 => h i h1 (by simp only [reqCount]; omega))
  | call fn dst body ih =>
    intro e s h
    simp only [exec]
    rw [ih e s (fun i h1 h2 => h i h1 (by simpa [reqCount] using h2))]

/-- the oracle that answers from a finite list of answers and says "succeeds" afterwards -/
def ofList (l : List Bool) : Nat → Bool := fun i => l.getD i true

/-- the first `n` answers of an oracle -/
def pre (ok : Nat → Bool) (n : Nat) : List Bool := (List.range n).map ok

theorem ofList_pre (ok : Nat → Bool) (n i : Nat) (h : i < n) : ofList (pre ok n) i = ok i := by
  simp [ofList, pre, List.getD, List.getElem?_map, List.getElem?_range h]

/-- a run depends only on the first `reqCount p` answers of the oracle -/
theorem runWith_prefix (ok : Nat → Bool) (ι : Inp → Bool) (p : Prog) {n : Nat} (hn : reqCount p ≤ n) :
    runWith ok ι p = runWith (ofList (pre ok n)) ι p := by
  unfold runWith
  rw [exec_congr ok (ofList (pre ok n)) ι p env0 {} (fun i _ h2 => (ofList_pre ok n i (by
    have : ({} : St).next = 0 := rfl
    omega)).symm)]

/-- all lists of `n` booleans -/
def boolLists : Nat → List (List Bool)
  | 0 => [[]]
  | n + 1 => (boolLists n).flatMap fun l => [true :: l, false :: l]

theorem pre_succ (ok : Nat → Bool) (n : Nat) : pre ok (n + 1) = ok 0 :: pre (fun i => ok (i + 1)) n := by
  simp [pre, List.range_succ_eq_map, List.map_map, Function.comp_def]

theorem pre_mem_boolLists (n : Nat) : ∀ ok : Nat → Bool, pre ok n ∈ boolLists n := by
  induction n with
  | zero => intro ok; simp [pre, boolLists]
  | succ n ih =>
    intro ok
    rw [pre_succ]
    simp only [boolLists, List.mem_flatMap]
    refine ⟨_, ih (fun i => ok (i + 1)), ?_⟩
    cases ok 0 <;> simp

/-- THE GENERAL PRINCIPLE: a property of runs that holds for all `2 ^ n` oracle prefixes (n ≥ number of request
    sites of the program) holds for EVERY oracle `Nat → Bool` -/
theorem forall_oracle_of_prefixes (P : Run → Prop) (ι : Inp → Bool) (p : Prog) (n : Nat) (hn : reqCount p ≤ n)
    (h : ∀ l ∈ boolLists n, P (runWith (ofList l) ι p)) (ok : Nat → Bool) : P (runWith ok ι p) := by
  rw [runWith_prefix ok ι p hn]
  exact h _ (pre_mem_boolLists n ok)

end Sodium.AllocLangP
