import SodiumModel.Driver.Common
import SodiumModel.Model.Aead
import SodiumModel.Spec.Chacha
import SodiumModel.Spec.Salsa
import SodiumModel.Spec.Poly1305
import SodiumModel.Spec.Gcm
import SodiumModel.Spec.Aegis
import SodiumModel.Model.AegisRef
import SodiumModel.Model.GcmAesni
import SodiumModel.Spec.Curve25519
import SodiumModel.Model.Scalarmult
namespace Sodium.Driver.C01
open Sodium Sodium.Model Sodium.Model.Aead Sodium.Driver Sodium.Spec

def pOrig : Prims :=
  { ks := fun k n ic len => Chacha.streamFrom (fun i => Chacha.blockOrig k n i) (64 * ic) len,
    mac := Poly1305.mac, hcore := fun i k => Chacha.hchacha20 i k none }
def pIetf : Prims :=
  { ks := fun k n ic len => Chacha.streamFrom (fun i => Chacha.blockIetf k n i) (64 * ic) len,
    mac := Poly1305.mac, hcore := fun i k => Chacha.hchacha20 i k none }
def pSalsa : Prims :=
  { ks := fun k n ic len => Chacha.streamFrom (fun i => Salsa.block 20 k n i) (64 * ic) len,
    mac := Poly1305.mac, hcore := fun i k => Salsa.hsalsa20 i k none }

/-- `rc mlen mbuf` where an untouched output buffer of `cap` bytes shows the harness prefill 0x5c -/
def decLine (cap : Nat) (r : DecResult) : String :=
  let buf := match r.mbuf with
    | none => List.replicate cap 0x5c
    | some b => b ++ List.replicate (cap - b.length) 0x5c
  s!"{i32s r.rc} {r.mlen} {toHex buf}"

def gcmDec (wantM : Bool) (c tag ad n k : Bytes) : DecResult :=
  match Gcm.decrypt k n ad c tag with
  | some m => ⟨0, c.length, if wantM then some m else none⟩
  | none => ⟨-1, 0, if wantM then some (List.replicate c.length 0xd0) else none⟩

-- BEGIN gcm-aesni
/-- AES-256-GCM lines are answered by the specification `Spec.Gcm` AND, for messages of at most `gcmModelLimit` bytes,
    re-computed by the model of the AES-NI / PCLMULQDQ C code (`Model/GcmAesni.lean`: key expansion, precomputed powers of H,
    GHASH aggregated over 7 / 14 blocks, `required_blocks`, the `0xd0` fill, the return codes).  If the model's result differs from
    what is about to be printed (ciphertext, tag, return code, output buffer, mlen) the line is prefixed with
    `MODEL-DISAGREE `, which the correspondence check reports (the C side never prints that). -/
def gcmModelLimit : Nat := 2048

def gcmFlag (agree : Bool) (line : String) : String := if agree then line else "MODEL-DISAGREE " ++ line

/-- `aead.aes256gcm.enc`: "c mac" (the harness requires rc = 0) -/
def gcmEncLine (m ad n k : Bytes) : String :=
  let r := Gcm.encrypt k n ad m
  let line := s!"{toHex r.1} {toHex r.2}"
  if m.length ≤ gcmModelLimit then
    gcmFlag (GcmAesni.crypto_aead_aes256gcm_encrypt_detached m ad n k == .done 0 r.1 r.2) line
  else line

/-- `aead.aes256gcm.dec`: rc and the content of the `m` buffer (`none` = untouched, `0xd0` fill on a bad tag) -/
def gcmDecLine (wantM : Bool) (c tag ad n k : Bytes) : String :=
  let r := gcmDec wantM c tag ad n k
  let line := decLine c.length r
  if c.length ≤ gcmModelLimit then
    gcmFlag (GcmAesni.crypto_aead_aes256gcm_decrypt_detached wantM c tag ad n k == some (r.rc, r.mbuf)) line
  else line

/-- `aead.aes256gcm.decc` (combined): rc, the content of the `m` buffer and `*mlen_p` -/
def gcmDecCLine (wantM : Bool) (cm ad n k : Bytes) : String :=
  let r : DecResult :=
    if cm.length < 16 then ⟨-1, 0, none⟩
    else gcmDec wantM (cm.take (cm.length - 16)) (cm.drop (cm.length - 16)) ad n k
  let line := decLine (cm.length - 16) r
  if cm.length ≤ gcmModelLimit + 16 then
    gcmFlag (GcmAesni.crypto_aead_aes256gcm_decrypt wantM cm ad n k == some (r.rc, r.mbuf, r.mlen)) line
  else line
-- END gcm-aesni

/-- AEGIS goes through the C-structured model `Model/AegisRef.lean` over the SoftAesBlock backend
    (software AES round of softaes.c); `Properties/C01Aegis.lean` proves it equal to `Spec.Aegis`. -/
def aegisEnc (is256 : Bool) (m ad n k : Bytes) : String :=
  let r := if is256 then AegisRef.crypto_aead_encrypt_detached (AegisRef.A256.variant AegisRef.soft) m ad n k
           else AegisRef.crypto_aead_encrypt_detached (AegisRef.A128L.variant AegisRef.soft) m ad n k
  match r with
  | .misuse => "misuse"
  | .done ret c mac _ => (if ret != 0 then s!"RC={i32s ret} " else "") ++ s!"{toHex c} {toHex mac}"

def aegisDec (is256 wantM : Bool) (c tag ad n k : Bytes) : DecResult :=
  let r := if is256 then AegisRef.crypto_aead_decrypt_detached (AegisRef.A256.variant AegisRef.soft) wantM c tag ad n k
           else AegisRef.crypto_aead_decrypt_detached (AegisRef.A128L.variant AegisRef.soft) wantM c tag ad n k
  ⟨r.1, if r.1 = 0 then c.length else 0, r.2⟩

def aegisDecC (is256 wantM : Bool) (cm ad n k : Bytes) : DecResult :=
  if is256 then AegisRef.crypto_aead_decrypt (AegisRef.A256.variant AegisRef.soft) wantM cm ad n k
  else AegisRef.crypto_aead_decrypt (AegisRef.A128L.variant AegisRef.soft) wantM cm ad n k

def naclLine : NaclResult → String
  | .err => "-1"
  | .ok o => s!"0 {toHex o}"

/-- aead.<alg>.enc m ad n k -> "c mac" ; aead.<alg>.dec wantM c mac ad n k ; aead.<alg>.decc wantM cm ad n k (combined) -/
def handle (op : String) (args : List String) : Option String :=
  match op, args with
  | "aead.chachapoly.enc", [m, ad, n, k] => do
    let r := encryptDetached pOrig .orig (← ofHex m) (← ofHex ad) (← ofHex n) (← ofHex k); some s!"{toHex r.1} {toHex r.2}"
  | "aead.chachapoly_ietf.enc", [m, ad, n, k] => do
    let r := encryptDetached pIetf .ietf (← ofHex m) (← ofHex ad) (← ofHex n) (← ofHex k); some s!"{toHex r.1} {toHex r.2}"
  | "aead.xchachapoly.enc", [m, ad, n, k] => do
    let r := xEncryptDetached pIetf (← ofHex m) (← ofHex ad) (← ofHex n) (← ofHex k); some s!"{toHex r.1} {toHex r.2}"
  -- BEGIN gcm-aesni
  | "aead.aes256gcm.enc", [m, ad, n, k] => do
    some (gcmEncLine (← ofHex m) (← ofHex ad) (← ofHex n) (← ofHex k))
  -- END gcm-aesni
  | "aead.aegis128l.enc", [m, ad, n, k] => do
    some (aegisEnc false (← ofHex m) (← ofHex ad) (← ofHex n) (← ofHex k))
  | "aead.aegis256.enc", [m, ad, n, k] => do
    some (aegisEnc true (← ofHex m) (← ofHex ad) (← ofHex n) (← ofHex k))
  | "aead.chachapoly.dec", [w, c, mac, ad, n, k] => do
    let c ← ofHex c; some (decLine c.length (decryptDetached pOrig .orig (w == "1") c (← ofHex mac) (← ofHex ad) (← ofHex n) (← ofHex k)))
  | "aead.chachapoly_ietf.dec", [w, c, mac, ad, n, k] => do
    let c ← ofHex c; some (decLine c.length (decryptDetached pIetf .ietf (w == "1") c (← ofHex mac) (← ofHex ad) (← ofHex n) (← ofHex k)))
  | "aead.xchachapoly.dec", [w, c, mac, ad, n, k] => do
    let c ← ofHex c; some (decLine c.length (xDecryptDetached pIetf (w == "1") c (← ofHex mac) (← ofHex ad) (← ofHex n) (← ofHex k)))
  -- BEGIN gcm-aesni
  | "aead.aes256gcm.dec", [w, c, mac, ad, n, k] => do
    some (gcmDecLine (w == "1") (← ofHex c) (← ofHex mac) (← ofHex ad) (← ofHex n) (← ofHex k))
  -- END gcm-aesni
  | "aead.aegis128l.dec", [w, c, mac, ad, n, k] => do
    let c ← ofHex c; some (decLine c.length (aegisDec false (w == "1") c (← ofHex mac) (← ofHex ad) (← ofHex n) (← ofHex k)))
  | "aead.aegis256.dec", [w, c, mac, ad, n, k] => do
    let c ← ofHex c; some (decLine c.length (aegisDec true (w == "1") c (← ofHex mac) (← ofHex ad) (← ofHex n) (← ofHex k)))
  | "aead.chachapoly.decc", [w, cm, ad, n, k] => do
    let cm ← ofHex cm; some (decLine (cm.length - 16) (decrypt pOrig .orig (w == "1") cm (← ofHex ad) (← ofHex n) (← ofHex k)))
  | "aead.chachapoly_ietf.decc", [w, cm, ad, n, k] => do
    let cm ← ofHex cm; some (decLine (cm.length - 16) (decrypt pIetf .ietf (w == "1") cm (← ofHex ad) (← ofHex n) (← ofHex k)))
  | "aead.xchachapoly.decc", [w, cm, ad, n, k] => do
    let cm ← ofHex cm; some (decLine (cm.length - 16) (xDecrypt pIetf (w == "1") cm (← ofHex ad) (← ofHex n) (← ofHex k)))
  -- BEGIN gcm-aesni
  | "aead.aes256gcm.decc", [w, cm, ad, n, k] => do
    some (gcmDecCLine (w == "1") (← ofHex cm) (← ofHex ad) (← ofHex n) (← ofHex k))
  -- END gcm-aesni
  | "aead.aegis128l.decc", [w, cm, ad, n, k] => do
    let cm ← ofHex cm
    some (decLine (cm.length - 32) (aegisDecC false (w == "1") cm (← ofHex ad) (← ofHex n) (← ofHex k)))
  | "aead.aegis256.decc", [w, cm, ad, n, k] => do
    let cm ← ofHex cm
    some (decLine (cm.length - 32) (aegisDecC true (w == "1") cm (← ofHex ad) (← ofHex n) (← ofHex k)))
  | "secretbox.xsalsa.enc", [m, n, k] => do
    let r := secretboxDetached pSalsa (← ofHex m) (← ofHex n) (← ofHex k); some s!"{toHex r.1} {toHex r.2}"
  | "secretbox.xchacha.enc", [m, n, k] => do
    let r := secretboxDetached pOrig (← ofHex m) (← ofHex n) (← ofHex k); some s!"{toHex r.1} {toHex r.2}"
  | "secretbox.xsalsa.dec", [w, c, mac, n, k] => do
    let c ← ofHex c; some (decLine c.length (secretboxOpenDetached pSalsa (w == "1") c (← ofHex mac) (← ofHex n) (← ofHex k)))
  | "secretbox.xchacha.dec", [w, c, mac, n, k] => do
    let c ← ofHex c; some (decLine c.length (secretboxOpenDetached pOrig (w == "1") c (← ofHex mac) (← ofHex n) (← ofHex k)))
  | "secretbox.xsalsa.decc", [w, cm, n, k] => do
    let cm ← ofHex cm; some (decLine (cm.length - 16) (secretboxOpenEasy pSalsa (w == "1") cm (← ofHex n) (← ofHex k)))
  | "secretbox.xchacha.decc", [w, cm, n, k] => do
    let cm ← ofHex cm; some (decLine (cm.length - 16) (secretboxOpenEasy pOrig (w == "1") cm (← ofHex n) (← ofHex k)))
  | "secretbox.nacl.box", [m, n, k] => do some (naclLine (naclBox pSalsa (← ofHex m) (← ofHex n) (← ofHex k)))
  | "secretbox.nacl.open", [c, n, k] => do some (naclLine (naclOpen pSalsa (← ofHex c) (← ofHex n) (← ofHex k)))
  | "box.beforenm", [v, pk, sk] => do
    let pk ← ofHex pk; let sk ← ofHex sk
    -- model of crypto_box_…_beforenm over ref10's `mult` with the RFC 7748 ladder
    match Scalarmult.crypto_box_beforenm (Scalarmult.mult_ref10 X25519.x25519)
        (if v == "xsalsa" then fun i k => Salsa.hsalsa20 i k none else fun i k => Chacha.hchacha20 i k none) pk sk with
    | (rc, k) => some (if rc != 0 then i32s rc else s!"0 {toHex (k.getD [])}")
  | _, _ => none

end Sodium.Driver.C01
