import SodiumModel.Driver.Common
import SodiumModel.Driver.C05
/-
  Specification-exact answers for the operations on which libsodium is KNOWN to deviate from the
  property (known_findings.json: C07 main-subgroup test, C07 oversize hash-to-curve context).
  These handlers take precedence over Driver/C05.lean, whose versions model the code as it is and
  are reachable through the `asis.` prefix (used by the runner to recognise a known finding exactly).
-/
namespace Sodium.Driver.C07spec
open Sodium Sodium.Driver Sodium.Spec Sodium.Spec.Ed25519

def rcHex := Sodium.Driver.C05.rcHex

/-- RFC / property: valid ⇔ canonical encoding of a point of the PRIME-ORDER subgroup other than the identity -/
def isValidPointSpec (b : Bytes) : Bool :=
  isCanonicalY b &&
  match decodeLax b with
  | none => false
  | some P => !isSmallOrder P && isOnMainSubgroup P

def scalarmultCoreSpec (k : Nat) (n p' : Bytes) : Option Bytes :=
  if !isCanonicalY p' then none
  else match decodeLax p' with
    | none => none
    | some P =>
      if isSmallOrder P || !isOnMainSubgroup P then none
      else
        let Q := scalarMult k P
        if pointEq Q identity || le (n.take 32) == 0 then none else some (encode Q)

def pkToCurveSpec (pk : Bytes) : Option Bytes :=
  match decodeLax pk with
  | none => none
  | some A =>
    if isSmallOrder A || !isOnMainSubgroup A then none
    else
      let (_, y) := toAffine A
      some (toLE 32 (F25519.div (F25519.add 1 y) (F25519.sub 1 y)))

def handle (op : String) (args : List String) : Option String :=
  if op.startsWith "asis." then Sodium.Driver.C05.handle (op.drop 5).toString args else
  match op, args with
  | "ed.valid", [p] => do some (if isValidPointSpec (← ofHex p) then "1" else "0")
  | "ed.from_string", [alg, ro, ctx, msg] => do
    let ctx ← if ctx = "N" then some [] else ofHex ctx
    let msg ← ofHex msg
    let (h, b, s) := if alg = "256" then (Sodium.Driver.C05.sha256, 32, 64) else (Sodium.Driver.C05.sha512, 64, 128)
    let ex := H2c.expandMessageXmd h b s
    some s!"0 {toHex (if ro = "0" then H2c.encodeToCurveWith ex msg ctx else H2c.hashToCurveWith ex msg ctx)}"
  | "ri.from_string", [alg, _ro, ctx, msg] => do
    let ctx ← if ctx = "N" then some [] else ofHex ctx
    let msg ← ofHex msg
    let (h, b, s) := if alg = "256" then (Sodium.Driver.C05.sha256, 32, 64) else (Sodium.Driver.C05.sha512, 64, 128)
    some s!"0 {toHex (Ristretto.fromUniform (H2c.expandMessageXmd h b s msg ctx 64))}"
  | _, _ => none

end Sodium.Driver.C07spec
