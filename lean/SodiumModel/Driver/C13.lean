import SodiumModel.Driver.Common
import SodiumModel.Driver.C01
import SodiumModel.Driver.C03
import SodiumModel.Driver.C05
import SodiumModel.Model.Overlap
import SodiumModel.Model.OverlapAead
/-
  C13: the answers for overlapping / in-place calls are, by the property, the answers of the same
  calls on disjoint buffers — so these handlers ignore the placement argument and evaluate the
  value-level models.
-/
namespace Sodium.Driver.C13
open Sodium Sodium.Model Sodium.Model.Aead Sodium.Driver Sodium.Spec

def prims (v : String) : Prims := if v = "xchacha" then Sodium.Driver.C01.pOrig else Sodium.Driver.C01.pSalsa

def openLine (r : DecResult) : String :=
  match r.rc, r.mbuf with
  | 0, some m => s!"0 {toHex m}"
  | _, _ => "-1 -"

/-! Pointer-level evaluation (Model/Overlap.lean): for data up to `ptrMax` bytes the ops are answered by the
    flat-memory model of the C code at the SAME relative placement the harness uses (output = input + delta),
    so that the model the C13 theorems are about is the one compared with the implementation. Longer data use
    the value-level model (theorems `*_overlap` say the two agree). -/
def ptrMax : Nat := 100
def inBase : Nat := 8192
def nonceA : Nat := 1000000
def keyA : Nat := 1000100
def macA : Nat := 1000200

def parseDelta (s : String) : Option Int :=
  if s.startsWith "-" then (s.drop 1).toNat?.map fun n => -(Int.ofNat n) else s.toNat?.map Int.ofNat

/-- arena like the harness: input at `inA`, output at `inA + delta`, everything else 0x5c; nonce / key / mac far away -/
def mkMem (inA : Nat) (data n k mac : Bytes) : Overlap.Mem :=
  let d := data.toArray; let na := n.toArray; let ka := k.toArray; let ma := mac.toArray
  fun a =>
    if inA ≤ a ∧ a < inA + d.size then d.getD (a - inA) 0
    else if nonceA ≤ a ∧ a < nonceA + na.size then na.getD (a - nonceA) 0
    else if keyA ≤ a ∧ a < keyA + ka.size then ka.getD (a - keyA) 0
    else if macA ≤ a ∧ a < macA + ma.size then ma.getD (a - macA) 0
    else 0x5c

def placement (delta : Int) : Nat × Nat :=
  let inA := inBase + (if delta < 0 then delta.natAbs else 0)
  (inA, (Int.ofNat inA + delta).toNat)

def ptrSecretbox (v mode : String) (delta : Int) (data n k mac : Bytes) : String :=
  let P := prims v
  let (inA, outA) := placement delta
  let mem := mkMem inA data n k mac
  let stk := zeros 64
  match mode with
  | "easy" => match Overlap.secretboxEasy P stk mem outA inA data.length nonceA keyA with
    | some m' => s!"0 {toHex (Overlap.read m' outA (data.length + 16))}"
    | none => "MODEL-UNDEFINED"
  | "detached" => match Overlap.secretboxDetached P stk mem outA macA inA data.length nonceA keyA with
    | some m' => s!"0 {toHex (Overlap.read m' outA data.length)} {toHex (Overlap.read m' macA 16)}"
    | none => "MODEL-UNDEFINED"
  | "open" => match Overlap.secretboxOpenEasy P stk mem outA inA data.length nonceA keyA with
    | (0, some m') => s!"0 {toHex (Overlap.read m' outA (data.length - 16))}"
    | (_, some _) => "-1 -"
    | (_, none) => "MODEL-UNDEFINED"
  | _ => match Overlap.secretboxOpenDetached P stk mem outA inA macA data.length nonceA keyA with
    | (0, some m') => s!"0 {toHex (Overlap.read m' outA data.length)}"
    | (_, some _) => "-1 -"
    | (_, none) => "MODEL-UNDEFINED"

def ptrSign (delta : Int) (m sk : Bytes) : String :=
  let (inA, outA) := placement delta
  let mem := mkMem inA m [] sk []
  let (m', l) := Overlap.sign (fun msg key => Ed25519.sign Sodium.Driver.C05.sha512 (key.take 32) msg) mem outA inA m.length keyA
  s!"0 {toHex (Overlap.read m' outA l)}"

def ptrSignOpen (delta : Int) (sm pk : Bytes) : String :=
  let (inA, outA) := placement delta
  let mem := mkMem inA sm [] pk []
  match Overlap.signOpen (fun sig msg key => Ed25519.verifyStrict Sodium.Driver.C05.sha512 sig msg key) mem outA inA sm.length keyA with
  | (0, l, m') => s!"0 {l} {toHex (Overlap.read m' outA l)}"
  | (_, _, _) => "-1 0 -"

def handlePtr (op : String) (args : List String) : Option String :=
  match op.splitOn ".", args with
  | ["ovl", "secretbox", v, mode], d :: data :: n :: k :: rest => do
    let delta ← parseDelta d; let data ← ofHex data
    if data.length > ptrMax then none else
    let mac ← (match rest with | [mac] => ofHex mac | _ => some [])
    some (ptrSecretbox v mode delta data (← ofHex n) (← ofHex k) mac)
  | ["ovl", "sign"], [d, m, sk] => do
    let delta ← parseDelta d; let m ← ofHex m
    if m.length > ptrMax then none else some (ptrSign delta m (← ofHex sk))
  | ["ovl", "sign_open"], [d, sm, pk] => do
    let delta ← parseDelta d; let sm ← ofHex sm
    if sm.length > ptrMax ∨ sm.length < 64 then none else some (ptrSignOpen delta sm (← ofHex pk))
  | _, _ => none

/-! Identical-pointer AEAD ops (`aead.<alg>.encip` / `.decip`): answered by the value-level model (C01 handler) AND
    re-computed by the memory-level, statement-order models of `Model/OverlapAead.lean` with `c == m` in one arena
    (AD, nonce, key, tag elsewhere; everything else 0x5c).  If the two differ the line is prefixed `MODEL-DISAGREE`. -/
def adA : Nat := 1000400
def bufA : Nat := 8192

def arenaLookup (rs : List (Nat × Array UInt8)) (x : Nat) : UInt8 :=
  match rs.find? (fun (a, arr) => a ≤ x ∧ x < a + arr.size) with
  | some (a, arr) => arr.getD (x - a) 0
  | none => 0x5c

/-- (the region table is built once: `arenaLookup` is partially applied) -/
def mkArena (regions : List (Nat × Bytes)) : Overlap.Mem :=
  arenaLookup (regions.map fun (a, b) => (a, b.toArray))

/-- the memory-level models are evaluated up to this many message bytes (the AEGIS loop hands each block function
    a view of the rest of the source: quadratic); longer lines are answered by the value-level model alone -/
def memMaxChacha : Nat := 5000
def memMaxAegis : Nat := 1100

def flag (agree : Bool) (line : String) : String := if agree then line else "MODEL-DISAGREE " ++ line

/-- memory-level in-place encrypt: "c mac" read back from the arena -/
def memEncip (a : String) (m ad n k : Bytes) : Option String :=
  if m.length > memMaxChacha then none else
  let mem := mkArena [(bufA, m), (adA, ad), (nonceA, n), (keyA, k)]
  let sizes := OverlapAead.blocks64 m.length
  let out (r : Int32 × Overlap.Mem) (ab : Nat) :=
    (if r.1 != 0 then s!"RC={i32s r.1} " else "") ++ s!"{toHex (Overlap.read r.2 bufA m.length)} {toHex (Overlap.read r.2 macA ab)}"
  match a with
  | "chachapoly" => some (out (OverlapAead.origEncryptDetached Sodium.Driver.C01.pOrig sizes (OverlapAead.ptr nonceA 8) (OverlapAead.ptr keyA 32)
      mem bufA macA bufA m.length adA ad.length) 16)
  | "chachapoly_ietf" => some (out (OverlapAead.ietfEncryptDetached Sodium.Driver.C01.pIetf sizes (OverlapAead.ptr nonceA 12) (OverlapAead.ptr keyA 32)
      mem bufA macA bufA m.length adA ad.length) 16)
  | "xchachapoly" => some (out (OverlapAead.xEncryptDetachedMem Sodium.Driver.C01.pIetf sizes mem bufA macA bufA m.length adA ad.length nonceA keyA) 16)
  | "aegis128l" => if m.length > memMaxAegis then none else
    some (out (OverlapAead.aegisEncryptDetached (AegisRef.A128L.variant AegisRef.soft) 16 16 mem bufA macA 32 bufA m.length adA ad.length nonceA keyA) 32)
  | "aegis256" => if m.length > memMaxAegis then none else
    some (out (OverlapAead.aegisEncryptDetached (AegisRef.A256.variant AegisRef.soft) 32 32 mem bufA macA 32 bufA m.length adA ad.length nonceA keyA) 32)
  | _ => none

/-- memory-level in-place decrypt: "rc mlen buffer" -/
def memDecip (a : String) (c mac ad n k : Bytes) : Option String :=
  if c.length > memMaxChacha then none else
  let mem := mkArena [(bufA, c), (adA, ad), (nonceA, n), (keyA, k), (macA, mac)]
  let sizes := OverlapAead.blocks64 c.length
  let out (r : Int32 × Overlap.Mem) := s!"{i32s r.1} {if r.1 = 0 then c.length else 0} {toHex (Overlap.read r.2 bufA c.length)}"
  match a with
  | "chachapoly" => some (out (OverlapAead.origDecryptDetached Sodium.Driver.C01.pOrig sizes (OverlapAead.ptr nonceA 8) (OverlapAead.ptr keyA 32)
      mem bufA bufA c.length macA adA ad.length))
  | "chachapoly_ietf" => some (out (OverlapAead.ietfDecryptDetached Sodium.Driver.C01.pIetf sizes (OverlapAead.ptr nonceA 12) (OverlapAead.ptr keyA 32)
      mem bufA bufA c.length macA adA ad.length))
  | "xchachapoly" => some (out (OverlapAead.xDecryptDetachedMem Sodium.Driver.C01.pIetf sizes mem bufA bufA c.length macA adA ad.length nonceA keyA))
  | "aegis128l" => if c.length > memMaxAegis then none else
    some (out (OverlapAead.aegisDecryptDetached (AegisRef.A128L.variant AegisRef.soft) 16 16 mem bufA bufA c.length macA 32 adA ad.length nonceA keyA))
  | "aegis256" => if c.length > memMaxAegis then none else
    some (out (OverlapAead.aegisDecryptDetached (AegisRef.A256.variant AegisRef.soft) 32 32 mem bufA bufA c.length macA 32 adA ad.length nonceA keyA))
  | _ => none

/-! AES-256-GCM in place: the memory-level schedule model (`gcmEncryptMem` / `gcmDecryptMem`, `dst == src`) gives the bytes
    stored and the byte sequence absorbed by GHASH; the tag is `GCTR(J0, GHASH_H(A ‖ pad ‖ that sequence ‖ lengths))` with the
    specification's AES / GHASH (AD handling and tag finishing are not part of the memory-level model). -/
def memMaxGcm : Nat := 1100

def gcmParts (n k : Bytes) (len : Nat) : (Bytes → Bytes) × Bytes × Bytes × Bytes :=
  let ciph := Aes.cipher (Aes.keyExpansion256 k)
  let h := ciph (zeros 16)
  let j0 := n ++ [0, 0, 0, 1]
  (ciph, h, j0, Gcm.gctr ciph (Gcm.inc32 j0) (zeros len))

def gcmTag (ciph : Bytes → Bytes) (h j0 ad g : Bytes) (len : Nat) : Bytes :=
  Gcm.gctr ciph j0 (Gcm.ghash h (ad ++ Gcm.pad16 ad.length ++ g ++ toBE 8 (8 * ad.length) ++ toBE 8 (8 * len)))

def memGcmEncip (m ad n k : Bytes) : Option String :=
  if m.length > memMaxGcm then none else
  let (ciph, h, j0, ks) := gcmParts n k m.length
  let r := OverlapAead.gcmEncryptMem ks (mkArena [(bufA, m)]) bufA bufA m.length
  some s!"{toHex (Overlap.read r.1 bufA m.length)} {toHex (gcmTag ciph h j0 ad r.2 m.length)}"

def memGcmDecip (c mac ad n k : Bytes) : Option String :=
  if c.length > memMaxGcm then none else
  let (ciph, h, j0, ks) := gcmParts n k c.length
  let r := OverlapAead.gcmDecryptMem ks (mkArena [(bufA, c)]) bufA bufA c.length
  -- crypto_verify_16(mac, computed_mac); on failure memset(m, 0xd0, mlen)
  if gcmTag ciph h j0 ad r.2 c.length == mac then some s!"0 {c.length} {toHex (Overlap.read r.1 bufA c.length)}"
  else some s!"-1 0 {toHex (List.replicate c.length 0xd0)}"

def aeadInplace (a sfx : String) (xs : List String) : Option String := do
  let val ← (if sfx = "encip" then Sodium.Driver.C01.handle s!"aead.{a}.enc" xs else Sodium.Driver.C01.handle s!"aead.{a}.dec" ("1" :: xs))
  let memLine : Option String := match sfx, xs with
    | "encip", [m, ad, n, k] => do
      if a = "aes256gcm" then memGcmEncip (← ofHex m) (← ofHex ad) (← ofHex n) (← ofHex k)
      else memEncip a (← ofHex m) (← ofHex ad) (← ofHex n) (← ofHex k)
    | "decip", [c, mac, ad, n, k] => do
      if a = "aes256gcm" then memGcmDecip (← ofHex c) (← ofHex mac) (← ofHex ad) (← ofHex n) (← ofHex k)
      else memDecip a (← ofHex c) (← ofHex mac) (← ofHex ad) (← ofHex n) (← ofHex k)
    | _, _ => none
  match memLine with
  | some l => some (flag (l == val) val)
  | none => some val

def handleVal (op : String) (args : List String) : Option String :=
  match op.splitOn ".", args with
  | ["ovl", "secretbox", v, "easy"], [_, m, n, k] => do some s!"0 {toHex (secretboxEasy (prims v) (← ofHex m) (← ofHex n) (← ofHex k))}"
  | ["ovl", "secretbox", v, "open"], [_, c, n, k] => do some (openLine (secretboxOpenEasy (prims v) true (← ofHex c) (← ofHex n) (← ofHex k)))
  | ["ovl", "secretbox", v, "detached"], [_, m, n, k] => do
    let r := secretboxDetached (prims v) (← ofHex m) (← ofHex n) (← ofHex k); some s!"0 {toHex r.1} {toHex r.2}"
  | ["ovl", "secretbox", v, "opendet"], [_, c, n, k, mac] => do
    some (openLine (secretboxOpenDetached (prims v) true (← ofHex c) (← ofHex mac) (← ofHex n) (← ofHex k)))
  | ["ovl", "box", v, "easy"], [_, m, n, pk, sk] => do
    match Sodium.Driver.C05.beforenm (v == "xchacha") (← ofHex pk) (← ofHex sk) with
    | none => some "-1 -"
    | some k => some s!"0 {toHex (secretboxEasy (prims v) (← ofHex m) (← ofHex n) k)}"
  | ["ovl", "box", v, "open"], [_, c, n, pk, sk] => do
    match Sodium.Driver.C05.beforenm (v == "xchacha") (← ofHex pk) (← ofHex sk) with
    | none => some "-1 -"
    | some k => some (openLine (secretboxOpenEasy (prims v) true (← ofHex c) (← ofHex n) k))
  | ["ovl", "sign"], [_, m, sk] => do
    let m ← ofHex m; let sk ← ofHex sk
    some s!"0 {toHex (Ed25519.sign Sodium.Driver.C05.sha512 (sk.take 32) m ++ m)}"
  | ["ovl", "sign_open"], [_, sm, pk] => do
    let sm ← ofHex sm; let pk ← ofHex pk
    if sm.length < 64 then some "-1 0 -" else
    let m := sm.drop 64
    if Ed25519.verifyStrict Sodium.Driver.C05.sha512 (sm.take 64) m pk then some s!"0 {m.length} {toHex m}" else some "-1 0 -"
  | ["ovl", "inplace"], [c, m, n, ic, k] =>
    let name := match c with
      | "chacha20" => "stream.chacha20_xor_ic" | "chacha20_ietf" => "stream.chacha20_ietf_xor_ic" | "xchacha20" => "stream.xchacha20_xor_ic"
      | "salsa20" => "stream.salsa20_xor_ic" | "xsalsa20" => "stream.xsalsa20_xor_ic" | _ => "stream.salsa2012_xor"
    if name = "stream.salsa2012_xor" then Sodium.Driver.C03.handle name [m, n, k] else Sodium.Driver.C03.handle name [m, n, ic, k]
  | ["aead", a, "encip"], xs => aeadInplace a "encip" xs
  | ["aead", a, "decip"], xs => aeadInplace a "decip" xs
  | _, _ => none

def handle (op : String) (args : List String) : Option String :=
  match handlePtr op args with
  | some r => some r
  | none => handleVal op args

end Sodium.Driver.C13
