import SodiumModel.Driver.Common
import SodiumModel.Driver.C01
import SodiumModel.Driver.C03
import SodiumModel.Driver.C05
/-
  C13: the answers for overlapping / in-place calls are, by the property, the answers of the same
  calls on disjoint buffers — so these handlers ignore the placement argument and evaluate the
  value-level models.
-/
namespace Sodium.Driver.C13
open Sodium Sodium.Model Sodium.Model.Aead Sodium.Driver Sodium.Spec

def prims (v : String) : Prims := if v = "xchacha" then Sodium.Driver.C01.pOrig else Sodium.Driver.C01.pSalsa

def openLine (r : DecResult) : String :=
  match r.rc, r.mbuf with
  | 0, some m => s!"0 {toHex m}"
  | _, _ => "-1 -"

def handle (op : String) (args : List String) : Option String :=
  match op.splitOn ".", args with
  | ["ovl", "secretbox", v, "easy"], [_, m, n, k] => do some s!"0 {toHex (secretboxEasy (prims v) (← ofHex m) (← ofHex n) (← ofHex k))}"
  | ["ovl", "secretbox", v, "open"], [_, c, n, k] => do some (openLine (secretboxOpenEasy (prims v) true (← ofHex c) (← ofHex n) (← ofHex k)))
  | ["ovl", "secretbox", v, "detached"], [_, m, n, k] => do
    let r := secretboxDetached (prims v) (← ofHex m) (← ofHex n) (← ofHex k); some s!"0 {toHex r.1} {toHex r.2}"
  | ["ovl", "secretbox", v, "opendet"], [_, c, n, k, mac] => do
    some (openLine (secretboxOpenDetached (prims v) true (← ofHex c) (← ofHex mac) (← ofHex n) (← ofHex k)))
  | ["ovl", "box", v, "easy"], [_, m, n, pk, sk] => do
    match Sodium.Driver.C05.beforenm (v == "xchacha") (← ofHex pk) (← ofHex sk) with
    | none => some "-1 -"
    | some k => some s!"0 {toHex (secretboxEasy (prims v) (← ofHex m) (← ofHex n) k)}"
  | ["ovl", "box", v, "open"], [_, c, n, pk, sk] => do
    match Sodium.Driver.C05.beforenm (v == "xchacha") (← ofHex pk) (← ofHex sk) with
    | none => some "-1 -"
    | some k => some (openLine (secretboxOpenEasy (prims v) true (← ofHex c) (← ofHex n) k))
  | ["ovl", "sign"], [_, m, sk] => do
    let m ← ofHex m; let sk ← ofHex sk
    some s!"0 {toHex (Ed25519.sign Sodium.Driver.C05.sha512 (sk.take 32) m ++ m)}"
  | ["ovl", "sign_open"], [_, sm, pk] => do
    let sm ← ofHex sm; let pk ← ofHex pk
    if sm.length < 64 then some "-1 0 -" else
    let m := sm.drop 64
    if Ed25519.verifyStrict Sodium.Driver.C05.sha512 (sm.take 64) m pk then some s!"0 {m.length} {toHex m}" else some "-1 0 -"
  | ["ovl", "inplace"], [c, m, n, ic, k] =>
    let name := match c with
      | "chacha20" => "stream.chacha20_xor_ic" | "chacha20_ietf" => "stream.chacha20_ietf_xor_ic" | "xchacha20" => "stream.xchacha20_xor_ic"
      | "salsa20" => "stream.salsa20_xor_ic" | "xsalsa20" => "stream.xsalsa20_xor_ic" | _ => "stream.salsa2012_xor"
    if name = "stream.salsa2012_xor" then Sodium.Driver.C03.handle name [m, n, k] else Sodium.Driver.C03.handle name [m, n, ic, k]
  | ["aead", a, "encip"], xs => Sodium.Driver.C01.handle s!"aead.{a}.enc" xs
  | ["aead", a, "decip"], xs => Sodium.Driver.C01.handle s!"aead.{a}.dec" ("1" :: xs)
  | _, _ => none

end Sodium.Driver.C13
