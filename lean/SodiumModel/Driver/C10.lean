import SodiumModel.Driver.Common
import SodiumModel.Model.Runtime
namespace Sodium.Driver.C10
open Sodium Sodium.Model.Runtime Sodium.Driver

def b (x : Bool) : String := if x then "1" else "0"
def line (r : Int × Features) : String :=
  let f := r.2
  s!"{r.1} {b f.sse2}{b f.sse3}{b f.ssse3}{b f.sse41}{b f.avx}{b f.avx2}{b f.avx512f}{b f.pclmul}{b f.aesni}{b f.rdrand}"

/-- the 18 relevant register bits of case number i -/
def regsOf (i : Nat) : Regs :=
  let bit (k : Nat) (m : UInt32) : UInt32 := if i.testBit k then m else 0
  { eax0 := if i.testBit 17 then 0 else 7,
    ecx1 := bit 0 CPUID_ECX_SSE3 ||| bit 1 CPUID_ECX_PCLMUL ||| bit 2 CPUID_ECX_SSSE3 ||| bit 3 CPUID_ECX_SSE41 |||
            bit 4 CPUID_ECX_AESNI ||| bit 5 CPUID_ECX_XSAVE ||| bit 6 CPUID_ECX_OSXSAVE ||| bit 7 CPUID_ECX_AVX ||| bit 8 CPUID_ECX_RDRAND,
    edx1 := bit 9 CPUID_EDX_SSE2,
    ebx7 := bit 10 CPUID_EBX_AVX2 ||| bit 11 CPUID_EBX_AVX512F,
    xcr0 := bit 12 XCR0_SSE ||| bit 13 XCR0_AVX ||| bit 14 XCR0_OPMASK ||| bit 15 XCR0_ZMM_HI256 ||| bit 16 XCR0_HI16_ZMM }

def u32? (s : String) : Option UInt32 := do let n ← s.toNat?; if n < 2 ^ 32 then some (UInt32.ofNat n) else none

def handle (op : String) (args : List String) : Option String :=
  match op, args with
  | "rt.decode", [xg, a, c, d, e, x] => do
    some (line (decode ⟨← u32? a, ← u32? c, ← u32? d, ← u32? e, ← u32? x⟩ (xg == "1")))
  | "enum.rt.decode", [xg, lo, hi] => do
    let lo ← parseNat? lo; let hi ← parseNat? hi
    let mut h := fnvInit
    for i in [lo:hi] do
      h := fnvString h (line (decode (regsOf i) (xg == "1")))
    some (hex64 h)
  | _, _ => none

end Sodium.Driver.C10
