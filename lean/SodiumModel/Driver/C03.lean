import SodiumModel.Driver.Common
import SodiumModel.Model.Stream
import SodiumModel.Spec.Chacha
import SodiumModel.Spec.Salsa
import SodiumModel.Model.CoresRef
/-
  The block/core functions passed to the driver models of `Model/Stream.lean` are the C-structured
  reference models of `Model/CoresRef.lean` (chacha20_ref.c, core_salsa_ref.c, core_hsalsa20_ref2.c,
  core_hchacha20.c); `Properties/C03Cores.lean` proves them equal to `Spec.Chacha` / `Spec.Salsa`.
-/
namespace Sodium.Driver.C03
open Sodium Sodium.Model Sodium.Driver Sodium.Spec Sodium.Model.CoresRef

/-- ChaCha block function of (w12, w13) for the original layout: w14, w15 from the 8-byte nonce -/
def chachaB (key nonce8 : Bytes) : BlockFn :=
  chacha20_blockfn (chacha_ivsetup (chacha_keysetup W16.zero key) nonce8 none)

/-- IETF layout: w13 is the first nonce word (passed through the loop), w14, w15 the rest -/
def chachaBi (key nonce12 : Bytes) : BlockFn :=
  chacha20_blockfn (chacha_ietf_ivsetup (chacha_keysetup W16.zero key) nonce12 none)

def salsaS (rounds : Nat) (key nonce8 : Bytes) : SalsaBlockFn := fun ctr =>
  crypto_core_salsa (nonce8.take 8 ++ ctr) key none rounds

def u64? (s : String) : Option UInt64 := do
  let n ← s.toNat?
  if n < 2 ^ 64 then some (UInt64.ofNat n) else none

def handle (op : String) (args : List String) : Option String :=
  match op, args with
  | "stream.chacha20", [len, n, k] => do
    let len ← parseNat? len; let n ← ofHex n; let k ← ofHex k
    some (toHex (chacha_stream (chachaB k n) len))
  | "stream.chacha20_xor_ic", [m, n, ic, k] => do
    let m ← ofHex m; let n ← ofHex n; let ic ← u64? ic; let k ← ofHex k
    some (toHex (chacha_xor_ic (chachaB k n) ic m))
  | "stream.chacha20_ietf", [len, n, k] => do
    let len ← parseNat? len; let n ← ofHex n; let k ← ofHex k
    some (toHex (chacha_ietf_ext_xor_ic (chachaBi k n) (load32_le n) 0 (zeros len)))
  | "stream.chacha20_ietf_xor_ic", [m, n, ic, k] => do
    let m ← ofHex m; let n ← ofHex n; let ic ← parseNat? ic; let k ← ofHex k
    if ic ≥ 2 ^ 32 then some badArgs else
    match chacha_ietf_xor_ic (chachaBi k n) (load32_le n) (UInt32.ofNat ic) m with
    | .misuse => some "misuse"
    | .ok o => some (toHex o)
  | "stream.ietf_guard", [mlen, ic] => do
    let mlen ← u64? mlen; let ic ← parseNat? ic
    if ic ≥ 2 ^ 32 ∨ mlen.toNat ≤ 4096 then some badArgs else
    some (if ietfGuardFails (UInt32.ofNat ic) mlen then "misuse" else "proceeds")
  | "stream.xchacha20", [len, n, k] => do
    let len ← parseNat? len; let n ← ofHex n; let k ← ofHex k
    some (toHex (chacha_stream (chachaB (crypto_core_hchacha20 (n.take 16) k none) (n.drop 16)) len))
  | "stream.xchacha20_xor_ic", [m, n, ic, k] => do
    let m ← ofHex m; let n ← ofHex n; let ic ← u64? ic; let k ← ofHex k
    some (toHex (chacha_xor_ic (chachaB (crypto_core_hchacha20 (n.take 16) k none) (n.drop 16)) ic m))
  | "stream.salsa20", [len, n, k] => do
    let len ← parseNat? len; let n ← ofHex n; let k ← ofHex k
    some (toHex (salsa_stream (salsaS 20 k n) len))
  | "stream.salsa20_xor_ic", [m, n, ic, k] => do
    let m ← ofHex m; let n ← ofHex n; let ic ← u64? ic; let k ← ofHex k
    some (toHex (salsa_xor_ic (salsaS 20 k n) ic m))
  | "stream.salsa2012", [len, n, k] => do
    let len ← parseNat? len; let n ← ofHex n; let k ← ofHex k
    some (toHex (salsa_stream (salsaS 12 k n) len))
  | "stream.salsa2012_xor", [m, n, k] => do
    let m ← ofHex m; let n ← ofHex n; let k ← ofHex k
    some (toHex (salsa_xor_ic (salsaS 12 k n) 0 m))
  | "stream.salsa208", [len, n, k] => do
    let len ← parseNat? len; let n ← ofHex n; let k ← ofHex k
    some (toHex (salsa_stream (salsaS 8 k n) len))
  | "stream.salsa208_xor", [m, n, k] => do
    let m ← ofHex m; let n ← ofHex n; let k ← ofHex k
    some (toHex (salsa_xor_ic (salsaS 8 k n) 0 m))
  | "stream.xsalsa20", [len, n, k] => do
    let len ← parseNat? len; let n ← ofHex n; let k ← ofHex k
    some (toHex (salsa_stream (salsaS 20 (crypto_core_hsalsa20 (n.take 16) k none) (n.drop 16)) len))
  | "stream.xsalsa20_xor_ic", [m, n, ic, k] => do
    let m ← ofHex m; let n ← ofHex n; let ic ← u64? ic; let k ← ofHex k
    some (toHex (salsa_xor_ic (salsaS 20 (crypto_core_hsalsa20 (n.take 16) k none) (n.drop 16)) ic m))
  | "core.hchacha20", [inp, k, c] => do
    let inp ← ofHex inp; let k ← ofHex k
    let c ← if c = "N" then some none else (ofHex c).map some
    some (toHex (crypto_core_hchacha20 inp k c))
  | "core.hsalsa20", [inp, k, c] => do
    let inp ← ofHex inp; let k ← ofHex k
    let c ← if c = "N" then some none else (ofHex c).map some
    some (toHex (crypto_core_hsalsa20 inp k c))
  | "core.salsa", [r, inp, k, c] => do
    let r ← parseNat? r; let inp ← ofHex inp; let k ← ofHex k
    let c ← if c = "N" then some none else (ofHex c).map some
    some (toHex (crypto_core_salsa inp k c r))
  | _, _ => none

end Sodium.Driver.C03
