import SodiumModel.Driver.Common
import SodiumModel.Model.Stream
import SodiumModel.Spec.Chacha
import SodiumModel.Spec.Salsa
import SodiumModel.Model.CoresRef
import SodiumModel.Model.ChachaSimd
import SodiumModel.Model.SalsaSimd
import SodiumModel.Model.X86Sse
import Generated.SalsaXmm6Asm
/-
  The block/core functions passed to the driver models of `Model/Stream.lean` are the C-structured
  reference models of `Model/CoresRef.lean` (chacha20_ref.c, core_salsa_ref.c, core_hsalsa20_ref2.c,
  core_hchacha20.c); `Properties/C03Cores.lean` proves them equal to `Spec.Chacha` / `Spec.Salsa`.

  Every ChaCha20 operation is ADDITIONALLY run through the AVX2-structured model of the dolbeau code
  (`Model/ChachaSimd.lean`: u8.h → u4.h → u1.h → u0.h over the modelled intrinsics; the implementation this
  host selects) and, up to 4 KiB, through the SSSE3-structured one; if either differs from the
  reference-structured model the line is answered `MODEL-DISAGREE` (which the runner reports as a
  violation). `Properties/C03Simd.lean` proves they never differ.

  Likewise every Salsa20 / XSalsa20 operation (the functions that dispatch to `crypto_stream/salsa20/xmm6int`; salsa2012
  and salsa208 have only the reference code) is ADDITIONALLY run through the AVX2-structured model of the xmm6int code
  (`Model/SalsaSimd.lean`: u8.h → u4.h → u1.h → u0.h) and, up to 4 KiB, through the SSE2-structured one;
  `Properties/C03SalsaSimd.lean` proves they never differ (for 8-byte nonces).

  Every Salsa20 / XSalsa20 operation of at most `asmLimit` bytes is ALSO run through the instruction list that
  `tools_new/asm2lean_salsa.py` regenerates from the current text of `crypto_stream/salsa20/xmm6/salsa20_xmm6-asm.S`
  (`Generated/SalsaXmm6Asm.lean`), executed by the x86-64 + SSE2 interpreter of `Model/X86Sse.lean`
  (`stream_salsa20_xmm6_xor_ic` for the XOR forms, `stream_salsa20_xmm6` for the plain ones); a difference from the
  reference-structured model, a fault or a run that does not return 0 is answered `MODEL-DISAGREE`.
  `Properties/C03Asm.lean` holds what is proved about that instruction list.
-/
namespace Sodium.Driver.C03
open Sodium Sodium.Model Sodium.Driver Sodium.Spec Sodium.Model.CoresRef

/-- ChaCha block function of (w12, w13) for the original layout: w14, w15 from the 8-byte nonce -/
def chachaB (key nonce8 : Bytes) : BlockFn :=
  chacha20_blockfn (chacha_ivsetup (chacha_keysetup W16.zero key) nonce8 none)

/-- IETF layout: w13 is the first nonce word (passed through the loop), w14, w15 the rest -/
def chachaBi (key nonce12 : Bytes) : BlockFn :=
  chacha20_blockfn (chacha_ietf_ivsetup (chacha_keysetup W16.zero key) nonce12 none)

def salsaS (rounds : Nat) (key nonce8 : Bytes) : SalsaBlockFn := fun ctr =>
  crypto_core_salsa (nonce8.take 8 ++ ctr) key none rounds

/-- cross-check of the reference-structured result against the SIMD-structured models -/
def xcheck (ref : Bytes) (avx2r : Unit → Bytes) (ssse3r : Unit → Bytes) : String :=
  if avx2r () != ref then "MODEL-DISAGREE"
  else if ref.length ≤ 4096 && ssse3r () != ref then "MODEL-DISAGREE"
  else toHex ref

/-- the assembly cross-run is done up to this many bytes -/
def asmLimit : Nat := 1100

/-- `xcheck` plus the cross-run of the regenerated assembly model -/
def xcheckAsm (ref : Bytes) (avx2r : Unit → Bytes) (ssse3r : Unit → Bytes) (asmr : Unit → Option Bytes) : String :=
  if ref.length ≤ asmLimit && asmr () != some ref then "MODEL-DISAGREE"
  else xcheck ref avx2r ssse3r

def asmXor (m n : Bytes) (ic : UInt64) (k : Bytes) : Option Bytes :=
  X86Sse.asmXorIc Generated.SalsaXmm6Asm.prog Generated.SalsaXmm6Asm.entry_xor_ic m n ic k

def asmStr (len : Nat) (n k : Bytes) : Option Bytes :=
  X86Sse.asmStream Generated.SalsaXmm6Asm.prog Generated.SalsaXmm6Asm.entry_stream len n k

def u64? (s : String) : Option UInt64 := do
  let n ← s.toNat?
  if n < 2 ^ 64 then some (UInt64.ofNat n) else none

def handle (op : String) (args : List String) : Option String :=
  match op, args with
  | "stream.chacha20", [len, n, k] => do
    let len ← parseNat? len; let n ← ofHex n; let k ← ofHex k
    some (xcheck (chacha_stream (chachaB k n) len)
      (fun _ => ChachaSimd.avx2.stream_ref len n k) (fun _ => ChachaSimd.ssse3.stream_ref len n k))
  | "stream.chacha20_xor_ic", [m, n, ic, k] => do
    let m ← ofHex m; let n ← ofHex n; let ic ← u64? ic; let k ← ofHex k
    some (xcheck (chacha_xor_ic (chachaB k n) ic m)
      (fun _ => ChachaSimd.avx2.stream_ref_xor_ic (zeros m.length) m n ic k)
      (fun _ => ChachaSimd.ssse3.stream_ref_xor_ic m m n ic k))
  | "stream.chacha20_ietf", [len, n, k] => do
    let len ← parseNat? len; let n ← ofHex n; let k ← ofHex k
    some (xcheck (chacha_ietf_ext_xor_ic (chachaBi k n) (load32_le n) 0 (zeros len))
      (fun _ => ChachaSimd.avx2.stream_ietf_ext_ref len n k) (fun _ => ChachaSimd.ssse3.stream_ietf_ext_ref len n k))
  | "stream.chacha20_ietf_xor_ic", [m, n, ic, k] => do
    let m ← ofHex m; let n ← ofHex n; let ic ← parseNat? ic; let k ← ofHex k
    if ic ≥ 2 ^ 32 then some badArgs else
    match chacha_ietf_xor_ic (chachaBi k n) (load32_le n) (UInt32.ofNat ic) m with
    | .misuse => some "misuse"
    | .ok o => some (xcheck o
        (fun _ => ChachaSimd.avx2.stream_ietf_ext_ref_xor_ic (zeros m.length) m n (UInt32.ofNat ic) k)
        (fun _ => ChachaSimd.ssse3.stream_ietf_ext_ref_xor_ic m m n (UInt32.ofNat ic) k))
  | "stream.ietf_guard", [mlen, ic] => do
    let mlen ← u64? mlen; let ic ← parseNat? ic
    if ic ≥ 2 ^ 32 ∨ mlen.toNat ≤ 4096 then some badArgs else
    some (if ietfGuardFails (UInt32.ofNat ic) mlen then "misuse" else "proceeds")
  | "stream.xchacha20", [len, n, k] => do
    let len ← parseNat? len; let n ← ofHex n; let k ← ofHex k
    let k2 := crypto_core_hchacha20 (n.take 16) k none
    some (xcheck (chacha_stream (chachaB k2 (n.drop 16)) len)
      (fun _ => ChachaSimd.avx2.stream_ref len (n.drop 16) k2) (fun _ => ChachaSimd.ssse3.stream_ref len (n.drop 16) k2))
  | "stream.xchacha20_xor_ic", [m, n, ic, k] => do
    let m ← ofHex m; let n ← ofHex n; let ic ← u64? ic; let k ← ofHex k
    let k2 := crypto_core_hchacha20 (n.take 16) k none
    some (xcheck (chacha_xor_ic (chachaB k2 (n.drop 16)) ic m)
      (fun _ => ChachaSimd.avx2.stream_ref_xor_ic (zeros m.length) m (n.drop 16) ic k2)
      (fun _ => ChachaSimd.ssse3.stream_ref_xor_ic m m (n.drop 16) ic k2))
  | "stream.salsa20", [len, n, k] => do
    let len ← parseNat? len; let n ← ofHex n; let k ← ofHex k
    some (xcheckAsm (salsa_stream (salsaS 20 k n) len)
      (fun _ => SalsaSimd.avx2.stream len n k) (fun _ => SalsaSimd.sse2.stream len n k) (fun _ => asmStr len n k))
  | "stream.salsa20_xor_ic", [m, n, ic, k] => do
    let m ← ofHex m; let n ← ofHex n; let ic ← u64? ic; let k ← ofHex k
    some (xcheckAsm (salsa_xor_ic (salsaS 20 k n) ic m)
      (fun _ => SalsaSimd.avx2.stream_xor_ic (zeros m.length) m n ic k)
      (fun _ => SalsaSimd.sse2.stream_xor_ic m m n ic k) (fun _ => asmXor m n ic k))
  | "stream.salsa2012", [len, n, k] => do
    let len ← parseNat? len; let n ← ofHex n; let k ← ofHex k
    some (toHex (salsa_stream (salsaS 12 k n) len))
  | "stream.salsa2012_xor", [m, n, k] => do
    let m ← ofHex m; let n ← ofHex n; let k ← ofHex k
    some (toHex (salsa_xor_ic (salsaS 12 k n) 0 m))
  | "stream.salsa208", [len, n, k] => do
    let len ← parseNat? len; let n ← ofHex n; let k ← ofHex k
    some (toHex (salsa_stream (salsaS 8 k n) len))
  | "stream.salsa208_xor", [m, n, k] => do
    let m ← ofHex m; let n ← ofHex n; let k ← ofHex k
    some (toHex (salsa_xor_ic (salsaS 8 k n) 0 m))
  | "stream.xsalsa20", [len, n, k] => do
    let len ← parseNat? len; let n ← ofHex n; let k ← ofHex k
    let k2 := crypto_core_hsalsa20 (n.take 16) k none
    some (xcheckAsm (salsa_stream (salsaS 20 k2 (n.drop 16)) len)
      (fun _ => SalsaSimd.avx2.stream len (n.drop 16) k2) (fun _ => SalsaSimd.sse2.stream len (n.drop 16) k2)
      (fun _ => asmStr len (n.drop 16) k2))
  | "stream.xsalsa20_xor_ic", [m, n, ic, k] => do
    let m ← ofHex m; let n ← ofHex n; let ic ← u64? ic; let k ← ofHex k
    let k2 := crypto_core_hsalsa20 (n.take 16) k none
    some (xcheckAsm (salsa_xor_ic (salsaS 20 k2 (n.drop 16)) ic m)
      (fun _ => SalsaSimd.avx2.stream_xor_ic (zeros m.length) m (n.drop 16) ic k2)
      (fun _ => SalsaSimd.sse2.stream_xor_ic m m (n.drop 16) ic k2) (fun _ => asmXor m (n.drop 16) ic k2))
  | "core.hchacha20", [inp, k, c] => do
    let inp ← ofHex inp; let k ← ofHex k
    let c ← if c = "N" then some none else (ofHex c).map some
    some (toHex (crypto_core_hchacha20 inp k c))
  | "core.hsalsa20", [inp, k, c] => do
    let inp ← ofHex inp; let k ← ofHex k
    let c ← if c = "N" then some none else (ofHex c).map some
    some (toHex (crypto_core_hsalsa20 inp k c))
  | "core.salsa", [r, inp, k, c] => do
    let r ← parseNat? r; let inp ← ofHex inp; let k ← ofHex k
    let c ← if c = "N" then some none else (ofHex c).map some
    some (toHex (crypto_core_salsa inp k c r))
  | _, _ => none

end Sodium.Driver.C03
