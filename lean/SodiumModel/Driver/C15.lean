import SodiumModel.Driver.Common
import SodiumModel.Model.Codecs
namespace Sodium.Driver.C15
open Sodium Sodium.Model Sodium.Driver

def parseIgn (s : String) : Option (Option Bytes) :=
  if s = "N" then some none else (ofHex s).map some

/-- buffer of `cap` bytes prefilled with 0xAA after `written` was stored at offset 0 -/
def bufAfter (cap : Nat) (written : Bytes) : Bytes :=
  written ++ List.replicate (cap - written.length) 0xAA

def decLine (cap : Nat) (wantEnd : Bool) (r : DecResult) : String :=
  s!"{i32s r.rc} {r.binLen} {if wantEnd then toString r.endPos else "-"} {toHex (bufAfter cap r.written)}"

def hexDec (cap : Nat) (text : Bytes) (ign : Option Bytes) (wantEnd : Bool) : String :=
  decLine cap wantEnd (sodium_hex2bin cap text ign wantEnd)

def b64Dec (cap : Nat) (text : Bytes) (ign : Option Bytes) (wantEnd : Bool) (v : UInt32) : String :=
  match sodium_base642bin cap text ign wantEnd v with
  | .misuse => "misuse"
  | .res r => decLine cap wantEnd r

/-- the i-th text of length `len` over the full byte alphabet (little-endian digits) -/
def nthText (len i : Nat) : Bytes := toLE len i

def ignTable : List (Option Bytes) := [none, some [], some [32], some [58, 32, 10], some [65], some [61]]

def enumDec (isHex : Bool) (v : UInt32) (len ignIdx : Nat) (wantEnd : Bool) (cap lo hi : Nat) : String := Id.run do
  let ign := ignTable.getD ignIdx none
  let mut h := fnvInit
  for i in [lo:hi] do
    let t := nthText len i
    h := fnvString h (if isHex then hexDec cap t ign wantEnd else b64Dec cap t ign wantEnd v)
  return hex64 h

def handle (op : String) (args : List String) : Option String :=
  match op, args with
  | "bin2hex", [maxlen, bin] => do
    let maxlen ← parseNat? maxlen; let bin ← ofHex bin
    match sodium_bin2hex (UInt64.ofNat maxlen) bin with
    | .misuse => some "misuse"
    | .ok w => some (toHex (bufAfter maxlen w))
  | "hex2bin", [cap, text, ign, we] => do
    some (hexDec (← parseNat? cap) (← ofHex text) (← parseIgn ign) (we == "1"))
  | "bin2b64", [maxlen, bin, v] => do
    let maxlen ← parseNat? maxlen; let bin ← ofHex bin; let v ← parseNat? v
    match sodium_bin2base64 maxlen bin (UInt32.ofNat v) with
    | .misuse => some "misuse"
    | .ok w => some (toHex (bufAfter maxlen w))
  | "b642bin", [cap, text, ign, we, v] => do
    some (b64Dec (← parseNat? cap) (← ofHex text) (← parseIgn ign) (we == "1") (UInt32.ofNat (← parseNat? v)))
  | "b64len", [n, v] => do
    let n ← parseNat? n; let v ← parseNat? v
    if !variantOk (UInt32.ofNat v) then some "misuse" else some (toString (b64Len (UInt32.ofNat v) n + 1))
  | "enum.hexdec", [len, ignIdx, we, cap, lo, hi] => do
    some (enumDec true 1 (← parseNat? len) (← parseNat? ignIdx) (we == "1") (← parseNat? cap) (← parseNat? lo) (← parseNat? hi))
  | "enum.b64dec", [v, len, ignIdx, we, cap, lo, hi] => do
    some (enumDec false (UInt32.ofNat (← parseNat? v)) (← parseNat? len) (← parseNat? ignIdx) (we == "1") (← parseNat? cap) (← parseNat? lo) (← parseNat? hi))
  | _, _ => none

end Sodium.Driver.C15
