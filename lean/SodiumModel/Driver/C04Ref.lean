import SodiumModel.Model.Hash
import SodiumModel.Model.CompressRef
import SodiumModel.Model.Blake2bSimd
import SodiumModel.Spec.Sha256
import SodiumModel.Spec.Sha512
import SodiumModel.Spec.Blake2b
/-
  The streaming hash models of `Model/Hash.lean` instantiated with the MODELLED C compression
  functions of `Model/CompressRef.lean` (SHA256_Transform, SHA512_Transform,
  blake2b_compress_ref; plus the whole of crypto_shorthash_siphash24 / siphashx24) instead of the executable specifications.  Same types as the
  definitions in `Driver/C04.lean`, so the driver switches by using these.
  `Properties/C04Compress.lean` proves each of them equal to the specification-instantiated one.
-/
namespace Sodium.Driver.C04Ref
open Sodium Sodium.Model Sodium.Spec

/-- `SHA256_Transform` as a compression function on the chaining value -/
def sha256C : Sha256.State → Bytes → Sha256.State := CompressRef.Sha256.transform
/-- `SHA512_Transform` as a compression function on the chaining value -/
def sha512C : Sha512.State → Bytes → Sha512.State := CompressRef.Sha512.transform
/-- `blake2b_compress_ref` in the shape `F h block t last` (`t` ↦ `t[0], t[1]`, `last` ↦ `f[0]`) -/
def blake2bF : Blake2b.State → Bytes → Nat → Bool → Blake2b.State := CompressRef.Blake2b.compressF

/-- `blake2b_compress_avx2` / `_ssse3` / `_sse41` (Model/Blake2bSimd.lean: the intrinsics-level models of
    the SIMD compression functions) in the same shape; the driver runs every BLAKE2b operation through
    all four and prints MODEL-DISAGREE if they differ.  `Properties/C04Simd.lean` proves each equal to
    `Spec.Blake2b.compress`. -/
def blake2bF_avx2 : Blake2b.State → Bytes → Nat → Bool → Blake2b.State := Blake2bSimd.compressF_avx2
def blake2bF_ssse3 : Blake2b.State → Bytes → Nat → Bool → Blake2b.State := Blake2bSimd.compressF_ssse3
def blake2bF_sse41 : Blake2b.State → Bytes → Nat → Bool → Blake2b.State := Blake2bSimd.compressF_sse41

def H256 : HashOps Sha256.State :=
  { W := 64, outLen := 32, init := mdInit Sha256.iv, update := mdUpdate sha256C 64 64,
    final := fun s => Sha256.digest (mdPadFinal sha256C 64 64 s) }
def H512 : HashOps Sha512.State :=
  { W := 128, outLen := 64, init := mdInit Sha512.iv, update := mdUpdate sha512C 128 128,
    final := fun s => Sha512.digest (mdPadFinal sha512C 128 128 s) }

/-- `crypto_shorthash_siphash24(out, in, inlen, k)` in the argument order of `Spec.SipHash.siphash24` -/
def siphash24 (key msg : Bytes) : Bytes :=
  (CompressRef.SipHash.crypto_shorthash_siphash24 msg.toArray (UInt64.ofNat msg.length) key.toArray).toList
/-- `crypto_shorthash_siphashx24(out, in, inlen, k)` -/
def siphashx24 (key msg : Bytes) : Bytes :=
  (CompressRef.SipHash.crypto_shorthash_siphashx24 msg.toArray (UInt64.ofNat msg.length) key.toArray).toList

end Sodium.Driver.C04Ref
