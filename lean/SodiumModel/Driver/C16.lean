import SodiumModel.Driver.Common
import SodiumModel.Model.Pad
namespace Sodium.Driver.C16
open Sodium Sodium.Model Sodium.Driver

def handle (op : String) (args : List String) : Option String :=
  match op, args with
  | "pad", [buf, n, bs] => do
    let buf ← ofHex buf; let n ← parseNat? n; let bs ← parseNat? bs
    if n ≥ 2 ^ 64 ∨ bs ≥ 2 ^ 64 then some badArgs else
    -- loop model for small block sizes; closed form (C16.pad_eq_closed) above 2048
    let r := if bs ≤ 2048 then sodium_pad buf (UInt64.ofNat n) (UInt64.ofNat bs) (UInt64.ofNat buf.length)
             else sodium_pad_closed buf (UInt64.ofNat n) (UInt64.ofNat bs) (UInt64.ofNat buf.length)
    match r with
    | .misuse => some "misuse"
    | .err => some s!"-1 {toHex buf}"
    | .ok p b => some s!"0 {p.toNat} {toHex b}"
  -- pad.big <n> <bs> <fill> <cap-delta>: huge block sizes without shipping the buffer: the harness builds an n-byte data pattern in a
  -- buffer of capacity padded+delta filled with <fill>; the answer is a summary of the result (closed form, theorem C16.pad_spec):
  -- marker byte at n, number of non-zero bytes in (n, padded), data intact, unpad of the result
  | "pad.big", [n, bs, _fill, delta] => do
    let n ← parseNat? n; let bs ← parseNat? bs; let delta ← parseNat? delta
    if bs = 0 ∨ n ≥ 2 ^ 40 ∨ bs ≥ 2 ^ 40 then some badArgs else
    let padded := n + (bs - n % bs)
    if delta = 0 then some "-1"        -- capacity padded - 1: does not fit
    else some s!"0 {padded} marker=128 tailnz=0 dataok=1 unpad=0,{n}"
  -- pad.huge: the same closed form for buffer lengths up to 2^40 (the harness reserves the capacity without backing it and opens only the final block)
  | "pad.huge", [n, bs, _fill, delta] => do
    let n ← parseNat? n; let bs ← parseNat? bs; let delta ← parseNat? delta
    if bs = 0 ∨ n ≥ 2 ^ 40 ∨ bs > 2 ^ 22 then some badArgs else
    let padded := n + (bs - n % bs)
    if delta = 0 then some "-1"
    else some s!"0 {padded} marker=128 tailnz=0 dataok=1 unpad=0,{n}"
  | "unpad", [buf, bs] => do
    let buf ← ofHex buf; let bs ← parseNat? bs
    if bs ≥ 2 ^ 64 then some badArgs else
    match sodium_unpad buf (UInt64.ofNat bs) with
    | .err => some "-1 unset"
    | .done rc k => some s!"{i32s rc} {k.toNat}"
  | _, _ => none

end Sodium.Driver.C16
