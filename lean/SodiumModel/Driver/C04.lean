import SodiumModel.Driver.Common
import SodiumModel.Model.Hash
import SodiumModel.Model.Poly1305Donna
import SodiumModel.Model.Poly1305Donna32  -- donna32
import SodiumModel.Model.Poly1305Sse2
import SodiumModel.Model.Utils
import SodiumModel.Spec.Sha256
import SodiumModel.Spec.Sha512
import SodiumModel.Spec.Blake2b
import SodiumModel.Spec.SipHash
import SodiumModel.Spec.Poly1305
import SodiumModel.Driver.C04Ref
namespace Sodium.Driver.C04
open Sodium Sodium.Model Sodium.Driver Sodium.Spec

def H256 : HashOps Sha256.State := C04Ref.H256
def H512 : HashOps Sha512.State := C04Ref.H512

def hashChunks {σ : Type} (H : HashOps σ) (cs : List Bytes) : Bytes := H.final (cs.foldl H.update H.init)
def hmacChunks {σ : Type} (H : HashOps σ) (key : Bytes) (cs : List Bytes) : Bytes :=
  hmacFinal H (cs.foldl (hmacUpdate H) (hmacInit H key))

def polyChunks (key : Bytes) (cs : List Bytes) : Bytes :=
  polyFinish polyBlkNat polyFinNat (cs.foldl (polyUpdate polyBlkNat) (polyInitNat key))

/-- `onetimeauth`: messages up to 1024 bytes go through the 64-bit limb model of
    poly1305_donna64.h (Model/Poly1305Donna.lean: UInt64 limbs, 128-bit products, carry chains,
    final reduction and pad addition), in exactly the chunking the op line carries (a single chunk
    is also the one-shot call, which in the C is init/update/final as well); longer messages use
    the abstract (r, s, acc) instantiation.  Properties/C04Poly.lean proves both equal
    `Spec.Poly1305.mac`. -/
def polyChunksLimb (key : Bytes) (cs : List Bytes) : Bytes :=
  if cs.foldl (fun n c => n + c.length) 0 ≤ 1024 then Poly1305Donna.macChunks key cs
  else polyChunks key cs

-- BEGIN donna32
/-- cross-check of `onetimeauth` against the model of poly1305_donna32.h (the no-128-bit-integer
    build, Model/Poly1305Donna32.lean), run with `unsigned long` = 64 bits (this host) AND = 32 bits
    (the code's design assumption), same 1024-byte cap as the donna64 model; a difference prints
    `MODEL-DISAGREE`.  Properties/C10Donna32.lean proves both equal `Spec.Poly1305.mac`. -/
def polyDonna32Check (key : Bytes) (cs : List Bytes) (r : Bytes) : String :=
  if cs.foldl (fun n c => n + c.length) 0 ≤ 1024 then
    if Poly1305Donna32.macChunks key cs == r && Poly1305Donna32.macChunksILP32 key cs == r then toHex r
    else "MODEL-DISAGREE"
  else toHex r
-- END donna32
/-- two "prior contents" for the state that `poly1305_init_ext` only partly initialises (the
    uninitialised stack variable of the one-shot function): all zero, and a junk pattern -/
def sse2Junk0 : Poly1305Sse2.State :=
  ⟨⟨0, 0, 0, 0, 0⟩, ⟨0, 0, 0, 0, 0⟩, ⟨0, 0, 0, 0, 0⟩, ⟨0, 0, 0, 0, 0⟩, (0, 0), 0, []⟩
def sse2Junk1 : Poly1305Sse2.State :=
  ⟨⟨0xdeadbeefdeadbeef, 0xffffffffffffffff, 2, 3, 0xffffffffffffffff⟩,
   ⟨0xffffffff, 0xdeadbeef, 0xffffffff, 0xffffffff, 0xffffffff⟩,
   ⟨0xffffffff, 0xffffffff, 0xdeadbeef, 0xffffffff, 0xffffffff⟩,
   ⟨0xdeadbeef, 0xffffffff, 0xffffffff, 0xffffffff, 0xffffffff⟩, (5, 6), 0xffffffffffffffff, [1, 2, 3]⟩

/-- `onetimeauth` cross-check: messages up to 1024 bytes are ALSO run through the SSE2-structured
    model of poly1305_sse2.c (Model/Poly1305Sse2.lean: the implementation the library selects on
    this host) — init/update/final in exactly the chunking of the op line and, for a single chunk,
    the one-shot function as well (the C harness calls both), each from two different prior
    contents of the state.  Any difference prints `MODEL-DISAGREE`.
    Properties/C04PolySse2.lean proves all of them equal `Spec.Poly1305.mac` (`sse2_mac_eq_spec`,
    `sse2_mac_chunks`), from every prior content of the state. -/
def polyChunksCross (key : Bytes) (cs : List Bytes) : String :=
  let r := polyChunksLimb key cs
  if cs.foldl (fun n c => n + c.length) 0 ≤ 1024 then
    let others :=
      [Poly1305Sse2.macChunks sse2Junk0 key cs, Poly1305Sse2.macChunks sse2Junk1 key cs] ++
      (match cs with
       | [m] => [Poly1305Sse2.mac sse2Junk0 key m, Poly1305Sse2.mac sse2Junk1 key m]
       | _ => [])
    if others.all (· == r) then toHex r else "MODEL-DISAGREE"
  else toHex r

def b2ChunksWith (F : Blake2b.State → Bytes → Nat → Bool → Blake2b.State) (outlen : Nat)
    (key salt personal : Bytes) (cs : List Bytes) : String :=
  if outlen = 0 ∨ outlen > 64 ∨ key.length > 64 then "-1" else
  let s0 := b2Init F Blake2b.paramInit outlen key salt personal
  let s := cs.foldl (fun s c => b2Update F (c.length + 1) s c) s0
  match b2Final F Blake2b.digest s outlen with
  | .err => "-1"
  | .ok o => s!"0 {toHex o}"

/-- self-cross-check: the reference-structured model (`blake2b_compress_ref`) and the three
    SIMD-structured models (`blake2b_compress_avx2`, `_ssse3`, `_sse41`) must give the same line -/
def crossCheck (r : String) (others : List String) : String :=
  if others.all (· == r) then r else "MODEL-DISAGREE"

/-- every BLAKE2b operation is run through the reference-structured model AND the AVX2-structured
    model (the implementation the library picks on an AVX2 host); inputs up to 4096 bytes are also run
    through the SSSE3- and SSE4.1-structured models (the cap only bounds the driver's run time). -/
def b2Chunks (outlen : Nat) (key salt personal : Bytes) (cs : List Bytes) : String :=
  crossCheck (b2ChunksWith C04Ref.blake2bF outlen key salt personal cs)
    (b2ChunksWith C04Ref.blake2bF_avx2 outlen key salt personal cs ::
      (if cs.foldl (fun n c => n + c.length) 0 ≤ 4096 then
        [b2ChunksWith C04Ref.blake2bF_ssse3 outlen key salt personal cs,
         b2ChunksWith C04Ref.blake2bF_sse41 outlen key salt personal cs]
       else []))

def hexList (l : List String) : Option (List Bytes) := l.mapM ofHex

def optHex (s : String) : Option Bytes := if s = "N" then some [] else ofHex s

def hres : HashResult → String
  | .err => "-1"
  | .misuse => "misuse"
  | .ok o => s!"0 {toHex o}"

def verifyLine (n : Nat) (tag correct : Bytes) : String :=
  if tag.length ≠ n then badArgs else i32s (verify_n_sse2 (n / 16) tag correct)

def handle (op : String) (args : List String) : Option String :=
  match op, args with
  | "hash.sha256", cs => do some (toHex (hashChunks H256 (← hexList cs)))
  | "hash.sha512", cs => do some (toHex (hashChunks H512 (← hexList cs)))
  | "auth.hmacsha256", key :: cs => do some (toHex (hmacChunks H256 (← ofHex key) (← hexList cs)))
  | "auth.hmacsha512", key :: cs => do some (toHex (hmacChunks H512 (← ofHex key) (← hexList cs)))
  | "auth.hmacsha512256", key :: cs => do some (toHex ((hmacChunks H512 (← ofHex key) (← hexList cs)).take 32))
  | "auth.verify", [alg, tag, msg, key] => do
    let tag ← ofHex tag; let msg ← ofHex msg; let key ← ofHex key
    match alg with
    | "hmacsha256" => some (verifyLine 32 tag (hmac H256 key msg))
    | "hmacsha512" => some (verifyLine 64 tag (hmac H512 key msg))
    | "hmacsha512256" => some (verifyLine 32 tag ((hmac H512 key msg).take 32))
    | "poly1305" => some (crossCheck (verifyLine 16 tag (polyChunks key [msg]))
        (if msg.length ≤ 1024 then [verifyLine 16 tag (Poly1305Sse2.mac sse2Junk1 key msg)] else []))
    | _ => none
  | "generichash", outlen :: key :: salt :: personal :: cs => do
    some (b2Chunks (← parseNat? outlen) (← ofHex key) (← optHex salt) (← optHex personal) (← hexList cs))
  -- return codes of the six BLAKE2b entry points for any (outlen, keylen): the range test of `b2ChunksWith` (outlen = 0 ∨ outlen > 64 ∨ keylen > 64 ⇒ -1)
  | "generichash.lens", [outlen, keylen] => do
    let ol ← parseNat? outlen; let kl ← parseNat? keylen
    if ol > 2 ^ 24 ∨ kl > 2 ^ 24 then some badArgs else
    let rc := if (b2ChunksWith C04Ref.blake2bF ol (List.replicate (min kl 65) 0x42) [] [] [[0x61, 0x62, 0x63]]) == "-1" then "-1" else "0"
    some (" ".intercalate (List.replicate 6 rc))
  | "shorthash", [alg, key, msg] => do
    let key ← ofHex key; let msg ← ofHex msg
    if alg = "24" then some (toHex (C04Ref.siphash24 key msg)) else some (toHex (C04Ref.siphashx24 key msg))
  | "onetimeauth", key :: cs => do
    let key ← ofHex key; let cs ← hexList cs
    -- SSE2-structured model (the backend this host selects) and, BEGIN donna32, the no-128-bit-integer model: all must agree with the donna64 limb model
    let r := polyChunksCross key cs
    some (if r == "MODEL-DISAGREE" then r else polyDonna32Check key cs (polyChunksLimb key cs))
    -- END donna32
  | "kdf.hkdf256.extract", salt :: cs => do some (toHex (hmacChunks H256 (← ofHex salt) (← hexList cs)))
  | "kdf.hkdf512.extract", salt :: cs => do some (toHex (hmacChunks H512 (← ofHex salt) (← hexList cs)))
  | "kdf.hkdf256.expand", [n, ctx, prk] => do some (hres (hkdfExpand H256 (← parseNat? n) (← ofHex ctx) (← ofHex prk)))
  | "kdf.hkdf512.expand", [n, ctx, prk] => do some (hres (hkdfExpand H512 (← parseNat? n) (← ofHex ctx) (← ofHex prk)))
  | "kdf.blake2b", [n, id, ctx, key] => do
    let id ← parseNat? id
    if id ≥ 2 ^ 64 then some badArgs else
    let n ← parseNat? n; let ctx ← ofHex ctx; let key ← ofHex key
    let run (F : Blake2b.State → Bytes → Nat → Bool → Blake2b.State) : String :=
      hres (kdfBlake2b F Blake2b.paramInit Blake2b.digest n (UInt64.ofNat id) ctx key)
    some (crossCheck (run C04Ref.blake2bF) [run C04Ref.blake2bF_avx2, run C04Ref.blake2bF_ssse3, run C04Ref.blake2bF_sse41])
  | _, _ => none

end Sodium.Driver.C04
