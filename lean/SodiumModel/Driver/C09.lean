import SodiumModel.Driver.Common
import SodiumModel.Model.Secretstream
import SodiumModel.Spec.Chacha
import SodiumModel.Spec.Poly1305
namespace Sodium.Driver.C09
open Sodium Sodium.Model Sodium.Driver Sodium.Spec

/-- the primitives instantiated with the executable specifications -/
def prims : SS.Prims :=
  { ks := fun k n ic len => Chacha.streamFrom (fun i => Chacha.blockIetf k n i) (64 * ic) len,
    mac := Poly1305.mac,
    hchacha := fun inp k => Chacha.hchacha20 inp k none }

abbrev Slots := Array (Option SS.State)

def stHex (s : SS.State) : String := toHex (s.k ++ s.nonce)

def handle (slots : Slots) (op : String) (args : List String) : Option (Slots × String) :=
  match op, args with
  | "ss.init", [slot, key, header] => do
    let slot ← parseNat? slot; let key ← ofHex key; let header ← ofHex header
    if slot ≥ 4 ∨ key.length ≠ 32 ∨ header.length ≠ 24 then some (slots, badArgs) else
    let s := SS.init prims header key
    some (slots.setIfInBounds slot (some s), stHex s)
  | "ss.setctr", [slot, ctr] => do
    let slot ← parseNat? slot; let ctr ← ofHex ctr
    let s ← (slots.getD slot none)
    if ctr.length ≠ 4 then some (slots, badArgs) else
    let s' : SS.State := { s with nonce := ctr ++ s.nonce.drop 4 }
    some (slots.setIfInBounds slot (some s'), stHex s')
  | "ss.rekey", [slot] => do
    let slot ← parseNat? slot
    let s ← (slots.getD slot none)
    let s' := SS.rekey prims s
    some (slots.setIfInBounds slot (some s'), stHex s')
  | "ss.push", [slot, tag, m, ad] => do
    let slot ← parseNat? slot; let tag ← parseNat? tag; let m ← ofHex m; let ad ← ofHex ad
    let s ← (slots.getD slot none)
    let r := SS.push prims s m ad (UInt8.ofNat tag)
    some (slots.setIfInBounds slot (some r.1), s!"0 {toHex r.2} {stHex r.1}")
  | "ss.pull", [slot, inp, ad] => do
    let slot ← parseNat? slot; let inp ← ofHex inp; let ad ← ofHex ad
    let s ← (slots.getD slot none)
    let cap := inp.length - 17
    match SS.pull prims s inp ad with
    | .fail => some (slots, s!"-1 0 255 {toHex (List.replicate cap 0x5c)} {stHex s}")
    | .ok s' m tag => some (slots.setIfInBounds slot (some s'), s!"0 {m.length} {tag.toNat} {toHex m} {stHex s'}")
  | "ss.pushx", [slot, tag, m, ad, flags] => do
    -- optional-pointer call forms of push (m == NULL for an empty message, outlen_p == NULL): the chunk and the state are the same
    let slot ← parseNat? slot; let tag ← parseNat? tag; let m ← ofHex m; let ad ← ofHex ad; let fl ← parseNat? flags
    if fl > 3 ∨ (fl % 2 = 1 ∧ m.length ≠ 0) then none else
    let s ← (slots.getD slot none)
    let r := SS.push prims s m ad (UInt8.ofNat tag)
    some (slots.setIfInBounds slot (some r.1), s!"0 {toHex r.2} {stHex r.1}")
  | "ss.pullx", [slot, inp, ad, flags] => do
    -- optional-pointer call forms of pull (m == NULL for an empty message, mlen_p == NULL, tag_p == NULL): same verdict, same state change
    let slot ← parseNat? slot; let inp ← ofHex inp; let ad ← ofHex ad; let fl ← parseNat? flags
    let cap := inp.length - 17
    if fl > 7 ∨ (fl % 2 = 1 ∧ cap ≠ 0) then none else
    let s ← (slots.getD slot none)
    let fm (v : String) := if (fl / 2) % 2 = 1 then "x" else v
    let ft (v : String) := if (fl / 4) % 2 = 1 then "x" else v
    match SS.pull prims s inp ad with
    | .fail => some (slots, s!"-1 {fm "0"} {ft "255"} {toHex (List.replicate cap 0x5c)} {stHex s}")
    | .ok s' m tag => some (slots.setIfInBounds slot (some s'), s!"0 {fm (toString m.length)} {ft (toString tag.toNat)} {toHex m} {stHex s'}")
  | _, _ => none

end Sodium.Driver.C09
