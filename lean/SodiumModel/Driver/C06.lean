import SodiumModel.Driver.Common
import SodiumModel.Model.SignOps
import SodiumModel.Model.Ge25519Ref10
import SodiumModel.Model.Ed25519Full
import SodiumModel.Spec.Sha512
import SodiumModel.Spec.Ed25519
import SodiumModel.Spec.Scalar25519
/-
  C06 driver: the `sign.*` operations run the MODEL of sign.c / open.c / keypair.c
  (`Sodium.Model.Sign`, including the byte-loop models of `sc25519_is_canonical` and
  `ge25519_is_canonical`) instantiated with `Model.Ge25519.refOps`: the C-STRUCTURED model of the
  ge25519 group code of ed25519_ref10.c (`Model/Ge25519Ref10.lean`: frombytes / frombytes_negate_vartime,
  has_small_order, slide_vartime + double_scalarmult_vartime, p2_to_p3, p3_sub, the radix-16 recoding +
  scalarmult_base over the generated base table, p3_tobytes) over the specification field.
  (`Model/SignOps.lean`'s `specOps`, the RFC 8032 group operations of `Spec/Ed25519.lean`, is what
  `Properties/C06.lean` uses for the concrete deviation theorems.)
-/
namespace Sodium.Driver.C06
open Sodium Sodium.Driver Sodium.Model.Sign

/-- the primitives the driver runs the combined-mode / `ph` wrappers with: the ASSEMBLED C-structured models
    (`Model/Ed25519Full.lean`: SHA-512 over `SHA512_Transform`, the `sc25519_reduce` / `sc25519_muladd` limb code,
    the ge25519 code over the specification field) -/
abbrev ops := Sodium.Model.Ed25519Full.fullOps

/-- every key pair / detached signature / verification is ALSO computed by the statement-order end-to-end model of
    `Model/Ed25519Full.lean` (streaming hash calls as in the C code); a disagreement with the `Model.Sign` functions
    over `fullOps` is reported as MODEL-DISAGREE -/
def dis (b : Bool) : String := if b then "MODEL-DISAGREE " else ""

def rcStr (r : Int32) : String := toString r.toInt

def handle (op : String) (args : List String) : Option String :=
  match op, args with
  | "sign.seed_keypair", [seed] => do
    let seed ← ofHex seed
    let (pk, sk) := Model.Ed25519Full.crypto_sign_ed25519_seed_keypair seed
    let (pk', sk') := Model.Sign.seed_keypair ops seed
    some s!"{dis (pk != pk' || sk != sk')}{toHex pk} {toHex sk}"
  | "sign.detached", [m, sk] => do
    -- the harness compares crypto_sign_detached with crypto_sign itself (FORMS-DIFFER); so does the model
    let m ← ofHex m; let sk ← ofHex sk
    let d := Model.Sign.crypto_sign_detached ops m sk
    let s := Model.Sign.crypto_sign ops m sk
    let bad := d.siglen != 64 || s.smlen != m.length + 64 || s.sm != d.sig ++ m || s.rc != 0
    let full := Model.Ed25519Full.crypto_sign_ed25519_detached m sk
    some s!"{dis (full != d.sig)}{if bad then "FORMS-DIFFER " else ""}{toHex full}"
  | "sign.verify", [sig, m, pk] => do
    let sig ← ofHex sig; let m ← ofHex m; let pk ← ofHex pk
    let rc := Model.Ed25519Full.crypto_sign_ed25519_verify_detached sig m pk
    let f0 := dis (rc != Model.Sign.crypto_sign_verify_detached ops sig m pk)
    -- the harness also runs crypto_sign_open on sig ‖ m and reports disagreements; mirror it
    let o := Model.Sign.crypto_sign_open ops (some (List.replicate (m.length + 64) 0x5c)) (sig ++ m) pk
    let buf := (o.m.getD []).take m.length
    let f1 := if o.rc != rc then "OPEN-RC-DIFFERS " else ""
    let f2 := if o.rc == 0 && (o.mlen != m.length || buf != m) then "OPEN-MSG-DIFFERS " else ""
    let f3 := if o.rc != 0 && o.mlen != 0 then "OPEN-FAIL-MLEN " else ""
    let f4 := if o.rc != 0 && buf.any (fun b => b != 0 && b != 0x5c) then "OPEN-FAIL-LEAK " else ""
    some s!"{f0}{f1}{f2}{f3}{f4}{rcStr rc}"
  | "sign.open", [sm, pk] => do
    let sm ← ofHex sm; let pk ← ofHex pk
    let o := Model.Sign.crypto_sign_open ops (some (List.replicate sm.length 0x5c)) sm pk
    some s!"{rcStr o.rc} {o.mlen} {toHex ((o.m.getD []).take (sm.length - 64))}"
  | "sign.ph", "create" :: sk :: cs => do
    let sk ← ofHex sk; let cs ← cs.mapM ofHex
    let ph := Model.Ed25519Full.crypto_hash_sha512 cs.flatten
    let full := Model.Ed25519Full._crypto_sign_ed25519_detached ph sk true
    some s!"{dis (full != (Model.Sign.ph_final_create ops cs.flatten sk).sig)}{toHex full}"
  | "sign.ph", "verify" :: sig :: pk :: cs => do
    let cs ← cs.mapM ofHex
    let sig ← ofHex sig; let pk ← ofHex pk
    let ph := Model.Ed25519Full.crypto_hash_sha512 cs.flatten
    let rc := Model.Ed25519Full._crypto_sign_ed25519_verify_detached sig ph pk true
    some s!"{dis (rc != Model.Sign.ph_final_verify ops cs.flatten sig pk)}{rcStr rc}"
  | _, _ => none

end Sodium.Driver.C06
