import SodiumModel.Driver.Common
import SodiumModel.Model.SignOps
import SodiumModel.Model.Ge25519Ref10
import SodiumModel.Spec.Sha512
import SodiumModel.Spec.Ed25519
import SodiumModel.Spec.Scalar25519
/-
  C06 driver: the `sign.*` operations run the MODEL of sign.c / open.c / keypair.c
  (`Sodium.Model.Sign`, including the byte-loop models of `sc25519_is_canonical` and
  `ge25519_is_canonical`) instantiated with `Model.Ge25519.refOps`: the C-STRUCTURED model of the
  ge25519 group code of ed25519_ref10.c (`Model/Ge25519Ref10.lean`: frombytes / frombytes_negate_vartime,
  has_small_order, slide_vartime + double_scalarmult_vartime, p2_to_p3, p3_sub, the radix-16 recoding +
  scalarmult_base over the generated base table, p3_tobytes) over the specification field.
  (`Model/SignOps.lean`'s `specOps`, the RFC 8032 group operations of `Spec/Ed25519.lean`, is what
  `Properties/C06.lean` uses for the concrete deviation theorems.)
-/
namespace Sodium.Driver.C06
open Sodium Sodium.Driver Sodium.Model.Sign

/-- the primitives the driver runs the sign/verify model with -/
abbrev ops := Sodium.Model.Ge25519.refOps

def rcStr (r : Int32) : String := toString r.toInt

def handle (op : String) (args : List String) : Option String :=
  match op, args with
  | "sign.seed_keypair", [seed] => do
    let (pk, sk) := Model.Sign.seed_keypair ops (← ofHex seed)
    some s!"{toHex pk} {toHex sk}"
  | "sign.detached", [m, sk] => do
    -- the harness compares crypto_sign_detached with crypto_sign itself (FORMS-DIFFER); so does the model
    let m ← ofHex m; let sk ← ofHex sk
    let d := Model.Sign.crypto_sign_detached ops m sk
    let s := Model.Sign.crypto_sign ops m sk
    let bad := d.siglen != 64 || s.smlen != m.length + 64 || s.sm != d.sig ++ m || s.rc != 0
    some s!"{if bad then "FORMS-DIFFER " else ""}{toHex d.sig}"
  | "sign.verify", [sig, m, pk] => do
    let sig ← ofHex sig; let m ← ofHex m; let pk ← ofHex pk
    let rc := Model.Sign.crypto_sign_verify_detached ops sig m pk
    -- the harness also runs crypto_sign_open on sig ‖ m and reports disagreements; mirror it
    let o := Model.Sign.crypto_sign_open ops (some (List.replicate (m.length + 64) 0x5c)) (sig ++ m) pk
    let buf := (o.m.getD []).take m.length
    let f1 := if o.rc != rc then "OPEN-RC-DIFFERS " else ""
    let f2 := if o.rc == 0 && (o.mlen != m.length || buf != m) then "OPEN-MSG-DIFFERS " else ""
    let f3 := if o.rc != 0 && o.mlen != 0 then "OPEN-FAIL-MLEN " else ""
    let f4 := if o.rc != 0 && buf.any (fun b => b != 0 && b != 0x5c) then "OPEN-FAIL-LEAK " else ""
    some s!"{f1}{f2}{f3}{f4}{rcStr rc}"
  | "sign.open", [sm, pk] => do
    let sm ← ofHex sm; let pk ← ofHex pk
    let o := Model.Sign.crypto_sign_open ops (some (List.replicate sm.length 0x5c)) sm pk
    some s!"{rcStr o.rc} {o.mlen} {toHex ((o.m.getD []).take (sm.length - 64))}"
  | "sign.ph", "create" :: sk :: cs => do
    let sk ← ofHex sk; let cs ← cs.mapM ofHex
    some (toHex (Model.Sign.ph_final_create ops cs.flatten sk).sig)
  | "sign.ph", "verify" :: sig :: pk :: cs => do
    let cs ← cs.mapM ofHex
    some (rcStr (Model.Sign.ph_final_verify ops cs.flatten (← ofHex sig) (← ofHex pk)))
  | _, _ => none

end Sodium.Driver.C06
