import SodiumModel.Driver.Common
import SodiumModel.Model.SignOps
import SodiumModel.Spec.Sha512
import SodiumModel.Spec.Ed25519
import SodiumModel.Spec.Scalar25519
/-
  C06 driver: the `sign.*` operations run the MODEL of sign.c / open.c / keypair.c
  (`Sodium.Model.Sign`, including the byte-loop models of `sc25519_is_canonical` and
  `ge25519_is_canonical`) instantiated with the executable RFC 8032 group operations of
  `Spec/Ed25519.lean` (`Model/SignOps.lean`).
-/
namespace Sodium.Driver.C06
open Sodium Sodium.Driver Sodium.Model.Sign

def rcStr (r : Int32) : String := toString r.toInt

def handle (op : String) (args : List String) : Option String :=
  match op, args with
  | "sign.seed_keypair", [seed] => do
    let (pk, sk) := Model.Sign.seed_keypair specOps (← ofHex seed)
    some s!"{toHex pk} {toHex sk}"
  | "sign.detached", [m, sk] => do
    -- the harness compares crypto_sign_detached with crypto_sign itself (FORMS-DIFFER); so does the model
    let m ← ofHex m; let sk ← ofHex sk
    let d := Model.Sign.crypto_sign_detached specOps m sk
    let s := Model.Sign.crypto_sign specOps m sk
    let bad := d.siglen != 64 || s.smlen != m.length + 64 || s.sm != d.sig ++ m || s.rc != 0
    some s!"{if bad then "FORMS-DIFFER " else ""}{toHex d.sig}"
  | "sign.verify", [sig, m, pk] => do
    let sig ← ofHex sig; let m ← ofHex m; let pk ← ofHex pk
    let rc := Model.Sign.crypto_sign_verify_detached specOps sig m pk
    -- the harness also runs crypto_sign_open on sig ‖ m and reports disagreements; mirror it
    let o := Model.Sign.crypto_sign_open specOps (some (List.replicate (m.length + 64) 0x5c)) (sig ++ m) pk
    let buf := (o.m.getD []).take m.length
    let f1 := if o.rc != rc then "OPEN-RC-DIFFERS " else ""
    let f2 := if o.rc == 0 && (o.mlen != m.length || buf != m) then "OPEN-MSG-DIFFERS " else ""
    let f3 := if o.rc != 0 && o.mlen != 0 then "OPEN-FAIL-MLEN " else ""
    let f4 := if o.rc != 0 && buf.any (fun b => b != 0 && b != 0x5c) then "OPEN-FAIL-LEAK " else ""
    some s!"{f1}{f2}{f3}{f4}{rcStr rc}"
  | "sign.open", [sm, pk] => do
    let sm ← ofHex sm; let pk ← ofHex pk
    let o := Model.Sign.crypto_sign_open specOps (some (List.replicate sm.length 0x5c)) sm pk
    some s!"{rcStr o.rc} {o.mlen} {toHex ((o.m.getD []).take (sm.length - 64))}"
  | "sign.ph", "create" :: sk :: cs => do
    let sk ← ofHex sk; let cs ← cs.mapM ofHex
    some (toHex (Model.Sign.ph_final_create specOps cs.flatten sk).sig)
  | "sign.ph", "verify" :: sig :: pk :: cs => do
    let cs ← cs.mapM ofHex
    some (rcStr (Model.Sign.ph_final_verify specOps cs.flatten (← ofHex sig) (← ofHex pk)))
  | _, _ => none

end Sodium.Driver.C06
