import SodiumModel.Driver.Common
import SodiumModel.Driver.C04
import SodiumModel.Model.Pwhash
import SodiumModel.Model.Hash
import SodiumModel.Spec.Argon2
import SodiumModel.Model.Argon2Ref
import SodiumModel.Spec.Scrypt
import SodiumModel.Spec.Blake2b
import SodiumModel.Spec.Sha256
import SodiumModel.Model.ScryptRef   -- scrypt-ref (G3)
import SodiumModel.Model.ScryptSse   -- scrypt-sse: the SSE2-structured scrypt core (the code this host selects)
import SodiumModel.Model.Argon2Simd  -- argon2-simd: the AVX2-structured block function inside the Argon2 core
/-
  C08 driver: password hashing ops through Model/Pwhash.lean. The Argon2 core is the C-structured model of
  the reference implementation (Model/Argon2Ref.lean: `argon2_ctx` steps 2-5, proved equal to the RFC 9106
  specification in Properties/C08Core.lean) over RFC 7693 BLAKE2b; the scrypt core is the C-structured model of the
  reference (non-SSE) code (Model/ScryptRef.lean, Properties/C08Scrypt.lean).
-/
namespace Sodium.Driver.C08
open Sodium Sodium.Model Sodium.Model.Pwhash Sodium.Driver Sodium.Spec

def blake2b (n : Nat) (m : Bytes) : Bytes := Blake2b.hash n [] [] [] m
def hmacSha256 (key msg : Bytes) : Bytes := hmac C04.H256 key msg

-- BEGIN scrypt-ref (G3): the scrypt core is the C-structured model of the reference code
-- (Model/ScryptRef.lean: escrypt_kdf_nosse = PBKDF2 / smix / blockmix_salsa8 / salsa20_8 on Array UInt32, over the
-- streaming HMAC-SHA-256 of Model/Hash.lean); Properties/C08Scrypt.lean proves salsa20_8 / blockmix_salsa8 / the smix loops /
-- PBKDF2 equal to Spec.Scrypt (the le32dec/le32enc and p-loop glue of escrypt_kdf_nosse is tied by this correspondence run only).
-- `Pwhash.escrypt_kdf` calls the core only after its parameter checks passed, so the conversions are lossless.
def scryptRef (pwd salt : Bytes) (N r p dkLen : Nat) : Bytes :=
  (ScryptRef.escrypt_kdf_nosse C04.H256 (fun _ => true) pwd salt (UInt64.ofNat N) (UInt32.ofNat r) (UInt32.ofNat p)
    (UInt64.ofNat dkLen)).out
-- END scrypt-ref (G3)

-- BEGIN scrypt-sse: the scrypt core is ALSO run through the C-structured model of the SSE2 code
-- (Model/ScryptSse.lean: escrypt_kdf_sse = PBKDF2 / smix / blockmix_salsa8 / blockmix_salsa8_xor / SALSA20_8_XOR on __m128i with
-- the shuffled word layout) whenever the cost N * r * p is at most 2^16 (every scrypt operation of the corpus except the 16 MiB
-- in-range probe); if the two models disagree the output is made visibly wrong (every byte complemented, one byte appended), so
-- the correspondence with the real library (which runs the SSE2 code on this host) fails.
def scryptSse (pwd salt : Bytes) (N r p dkLen : Nat) : Bytes :=
  (ScryptSse.escrypt_kdf_sse C04.H256 (fun _ => true) pwd salt (UInt64.ofNat N) (UInt32.ofNat r) (UInt32.ofNat p)
    (UInt64.ofNat dkLen)).out
def scryptSmall (N r p : Nat) : Bool := N * r * p ≤ 65536
def scryptBoth (pwd salt : Bytes) (N r p dkLen : Nat) : Bytes :=
  let a := scryptRef pwd salt N r p dkLen
  if scryptSmall N r p then
    (if scryptSse pwd salt N r p dkLen == a then a else a.map (fun b => b ^^^ 0xff) ++ [0xEE])
  else a
-- END scrypt-sse

def prims : Prims :=
  { argon2 := fun y pwd salt t m lanes outlen => Argon2Ref.argon2_hash_ref_model blake2b y pwd salt t m lanes outlen
    scrypt := scryptRef }   -- scrypt-ref (G3)

/-- scrypt-sse: the primitives used by the scrypt operations: reference-structured core cross-run with the SSE2-structured core -/
def primsS : Prims := { prims with scrypt := scryptBoth }

-- BEGIN argon2-simd: for small memory sizes (m_cost ≤ 64 KiB) the operation is ALSO run with the model of
-- `argon2_fill_segment_avx2` (Model/Argon2Simd.lean: `fill_block` on `__m256i state[32]`, BLAKE2_ROUND_1 / _2, G1_AVX2 / G2_AVX2,
-- DIAGONALIZE_1 / _2, the carried `state`) as the `fill_segment` of the Argon2 core; the two output lines must agree
-- (Properties/C08Simd.lean proves that the tags do), otherwise ` MODEL-DISAGREE` is appended, which no library run prints.
def primsAvx2 : Prims :=
  { prims with argon2 := fun y pwd salt t m lanes outlen =>
      if m ≤ 64 then Argon2Simd.argon2_hash_model Argon2Simd.argon2_fill_segment_avx2 blake2b y pwd salt t m lanes outlen
      else Argon2Ref.argon2_hash_ref_model blake2b y pwd salt t m lanes outlen }

/-- run an operation on the reference-structured core and, when `small`, on the AVX2-structured core as well -/
def checked (small : Bool) (f : Prims → String) : String :=
  let r := f prims
  if small then (if f primsAvx2 == r then r else r ++ " MODEL-DISAGREE") else r
-- END argon2-simd

/-- `atoi`-like parse of the alg argument (decimal integers only, optional sign) -/
def parseInt? (s : String) : Option Int := s.toInt?

def algOf (s : String) : Option Int :=
  if s = "argon2i" then some ALG_ARGON2I13 else if s = "argon2id" then some ALG_ARGON2ID13 else parseInt? s

def u64? (s : String) : Option Nat := do
  let n ← parseNat? s
  if n < 2 ^ 64 then some n else none

def resLine (r : Result) : String :=
  if r.misuse then "misuse" else
  if r.rc ≠ 0 then s!"{r.rc} errno={r.errno}" else s!"0 {toHex r.out}"

/-- output of the `_str` functions: the C string in the buffer, and a check that the tail is zero -/
def strLine (r : Result) : String :=
  if r.misuse then "misuse" else
  if r.rc ≠ 0 then s!"{r.rc} errno={r.errno}" else
  let s := r.out.takeWhile (· != 0)
  let tail := r.out.drop s.length
  s!"0 {toHex s}" ++ (if tail.all (· == 0) then "" else " TAIL-NOT-ZERO")

/-- the scripted random source: the script, then 0x55 -/
def script (s : Bytes) (n : Nat) : Bytes := (s ++ List.replicate n 0x55).take n

def handle (op : String) (args : List String) : Option String :=
  match op, args with
  | "pwhash.raw", [alg, outlen, pw, salt, ops, mem] => do
    let alg ← algOf alg; let outlen ← u64? outlen; let pw ← ofHex pw; let salt ← ofHex salt
    let ops ← u64? ops; let mem ← u64? mem
    if outlen > 2 ^ 20 ∨ salt.length ≠ 16 then some badArgs else
    some (checked (mem / 1024 ≤ 64) fun prims => resLine (crypto_pwhash prims outlen pw salt ops mem alg))
  | "pwhash.str", [alg, pw, ops, mem, salt] => do
    let pw ← ofHex pw; let ops ← u64? ops; let mem ← u64? mem; let salt ← ofHex salt
    let rnd := script salt 16
    let algInt := if alg = "argon2i" ∨ alg = "argon2id" ∨ alg = "default" then some 0 else parseInt? alg
    let algInt ← algInt
    some (checked (mem / 1024 ≤ 64) fun prims =>
      if alg = "argon2i" then strLine (crypto_pwhash_argon2_str prims .i pw ops mem rnd)
      else if alg = "argon2id" then strLine (crypto_pwhash_argon2_str prims .id pw ops mem rnd)
      else if alg = "default" then strLine (crypto_pwhash_str prims pw ops mem rnd)
      else strLine (crypto_pwhash_str_alg prims pw ops mem algInt rnd))
  | "pwhash.verify", [st, pw] => do
    let st ← ofHex st; let pw ← ofHex pw
    some (checked true fun prims =>
      let a := crypto_pwhash_str_verify prims st pw
      let b := crypto_pwhash_argon2_str_verify prims .i st pw
      let c := crypto_pwhash_argon2_str_verify prims .id st pw
      s!"{a.rc} {b.rc} {c.rc}")
  | "pwhash.needs_rehash", [st, ops, mem] => do
    let st ← ofHex st; let ops ← u64? ops; let mem ← u64? mem
    let a := crypto_pwhash_str_needs_rehash st ops mem
    let b := needs_rehash st ops mem .i
    let c := needs_rehash st ops mem .id
    some s!"{a.rc} {b.rc} {c.rc}"
  | "scrypt.raw", [outlen, pw, salt, ops, mem] => do
    let outlen ← u64? outlen; let pw ← ofHex pw; let salt ← ofHex salt; let ops ← u64? ops; let mem ← u64? mem
    if outlen > 2 ^ 20 ∨ salt.length ≠ 32 then some badArgs else
    some (resLine (crypto_pwhash_scrypt primsS outlen pw salt ops mem))   -- scrypt-sse
  | "scrypt.ll", [pw, salt, N, r, p, outlen] => do
    let pw ← ofHex pw; let salt ← ofHex salt; let N ← u64? N; let r ← u64? r; let p ← u64? p; let outlen ← u64? outlen
    if outlen > 2 ^ 16 then some badArgs else
    -- scrypt-ref (G3): `_ll` through the model of the C function itself (its own parameter checks, uint64/uint32 arguments)
    let res := ScryptRef.crypto_pwhash_scryptsalsa208sha256_ll C04.H256 (fun _ => true) pw salt (UInt64.ofNat N)
      (UInt32.ofNat r) (UInt32.ofNat p) (UInt64.ofNat outlen)
    -- scrypt-sse: and through the model of the SSE2 `escrypt_kdf_sse` (its own parameter checks); the two must agree
    let resS := if res.rc ≠ 0 ∨ scryptSmall N r p then
        ScryptSse.crypto_pwhash_scryptsalsa208sha256_ll C04.H256 (fun _ => true) pw salt (UInt64.ofNat N)
          (UInt32.ofNat r) (UInt32.ofNat p) (UInt64.ofNat outlen)
      else res
    let line := if res.rc ≠ 0 then s!"{res.rc}" else s!"0 {toHex res.out}"
    some (if resS.rc = res.rc ∧ resS.out = res.out ∧ resS.errno = res.errno then line else line ++ " MODEL-DISAGREE")
  | "scrypt.str", [pw, ops, mem, salt] => do
    let pw ← ofHex pw; let ops ← u64? ops; let mem ← u64? mem; let salt ← ofHex salt
    let r := crypto_pwhash_scrypt_str primsS pw ops mem (script salt 32)   -- scrypt-sse
    some (if r.rc ≠ 0 then s!"{r.rc} errno={r.errno}" else s!"0 {toHex (r.out.takeWhile (· != 0))}")
  | "scrypt.verify", [st, pw] => do
    let st ← ofHex st; let pw ← ofHex pw
    some s!"{crypto_pwhash_scrypt_str_verify primsS st pw []}"   -- scrypt-sse
  | "scrypt.needs_rehash", [st, ops, mem] => do
    let st ← ofHex st; let ops ← u64? ops; let mem ← u64? mem
    some s!"{(crypto_pwhash_scrypt_str_needs_rehash st ops mem).rc}"
  -- scrypt.range <opslimit> <memlimit>: what the PROPERTY says (documented limits of crypto_pwhash_scryptsalsa208sha256.h:
  -- out-of-range parameters are rejected); `asis.scrypt.range` is what the code does (pickparams clamps; theorem scrypt_limits_spec)
  | "scrypt.range", [ops, mem] => do
    let ops ← u64? ops; let mem ← u64? mem
    some (if 32768 ≤ ops ∧ ops ≤ 4294967295 ∧ 16777216 ≤ mem ∧ mem ≤ 68719476736 then "accepted" else "rejected")
  | "asis.scrypt.range", [ops, mem] => do
    let ops ← u64? ops; let mem ← u64? mem
    let dummy : Prims := { prims with scrypt := fun _ _ _ _ _ dkLen => zeros dkLen }
    some (if (crypto_pwhash_scrypt dummy 16 [0x70, 0x77] (zeros 32) ops mem).rc = 0 then "accepted" else "rejected")
  | _, _ => none

end Sodium.Driver.C08
