import SodiumModel.Driver.Common
import SodiumModel.Model.Init
/-
  C19: the observable of N threads racing sodium_init is the multiset of return values and whether a
  returned thread saw an uninitialised library; the model answer is computed by running the
  transition system of Model/Init.lean on a pseudo-random schedule derived from the seed
  (by theorems C19.init_safety / init_once the answer does not depend on the schedule).
  The thr.* ops have schedule-independent answers by the property itself.
-/
namespace Sodium.Driver.C19
open Sodium Sodium.Model.Init Sodium.Driver

def lcg (s : Nat) : Nat := (s * 1103515245 + 12345) % 2 ^ 31

/-- run until everybody is done (fuel-bounded); counts `early` = threads that return while the body's writes are not complete -/
def race (n : Nat) : Nat → Nat → State → Nat → State × Nat
  | 0, _, s, early => (s, early)
  | fuel + 1, seed, s, early =>
    if allDone s then (s, early) else
    let seed' := lcg seed
    let t := (seed' / 65536) % n
    let s' := step s t
    let becameDone := (match s.pcs[t]?, s'.pcs[t]? with
      | some (.done _), _ => false
      | _, some (.done _) => true
      | _, _ => false)
    let early' := if becameDone && !(s'.initialized && s'.bodyWrites == 1) then early + 1 else early
    race n fuel seed' s' early'

def handle (op : String) (args : List String) : Option String :=
  match op, args with
  | "init.race", [n, seed] => do
    let n ← n.toNat?; let seed ← seed.toNat?
    if n = 0 ∨ n > 64 then none else
    let (s, early) := race n (100000 * n) seed (init n) 0
    if !allDone s then some "model-schedule-incomplete" else
    let r := rets s
    some s!"init zero={(r.filter (· == 0)).length} one={(r.filter (· == 1)).length} other={(r.filter (fun x => x != 0 && x != 1)).length} early={early}"
  | "thr.closebuf", [n] => do let n ← n.toNat?; if n > 2 ^ 16 then none else some s!"ok {n}"
  | "thr.rand", [n] => do let n ← n.toNat?; if n > 2 ^ 20 then none else some s!"ok {n}"
  | "thr.uniform", [ub, k] => do let ub ← ub.toNat?; let _ ← k.toNat?; if ub > 0xffffffff then none else some "ok"
  | "thr.alloc", [n, f] => do let n ← n.toNat?; let _ ← f.toNat?; if n > 2 ^ 22 then none else some "ok 0"
  | "thr.keygen", [] => some "ok"
  | _, _ => none

end Sodium.Driver.C19
