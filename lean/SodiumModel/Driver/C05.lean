import SodiumModel.Driver.Common
import SodiumModel.Driver.C01
import SodiumModel.Driver.C04
import SodiumModel.Driver.C06
import SodiumModel.Spec.Curve25519
import SodiumModel.Spec.Ed25519
import SodiumModel.Spec.Scalar25519
import SodiumModel.Spec.Ristretto255
import SodiumModel.Spec.H2c
namespace Sodium.Driver.C05
open Sodium Sodium.Model Sodium.Driver Sodium.Spec

def sha512 : Bytes → Bytes := Sha512.hash
def sha256 : Bytes → Bytes := Sha256.hash

def rcHex : Option Bytes → String
  | none => "-1"
  | some b => s!"0 {toHex b}"

/-- crypto_kx: keys = BLAKE2b-512(q ‖ client_pk ‖ server_pk); client rx = first half -/
def kxKeys (q cpk spk : Bytes) : Bytes := Blake2b.hash 64 [] [] [] (q ++ cpk ++ spk)

def beforenm (xc : Bool) (pk sk : Bytes) : Option Bytes :=
  (X25519.scalarmult sk pk).map fun q => if xc then Chacha.hchacha20 (zeros 16) q none else Salsa.hsalsa20 (zeros 16) q none

def decLine := Sodium.Driver.C01.decLine

def handle (op : String) (args : List String) : Option String :=
  match op, args with
  | "x25519", [n, p] => do some (rcHex (X25519.scalarmult (← ofHex n) (← ofHex p)))
  | "x25519.base", [n] => do some (toHex (X25519.x25519Base (← ofHex n)))
  | "box.seed_keypair", [seed] => do
    let sk := (sha512 (← ofHex seed)).take 32
    some s!"{toHex (X25519.x25519Base sk)} {toHex sk}"
  | "kx.seed_keypair", [seed] => do
    let sk := Blake2b.hash 32 [] [] [] (← ofHex seed)
    some s!"{toHex (X25519.x25519Base sk)} {toHex sk}"
  | "kx.client", [cpk, csk, spk] => do
    let cpk ← ofHex cpk; let csk ← ofHex csk; let spk ← ofHex spk
    match X25519.scalarmult csk spk with
    | none => some "-1"
    | some q =>
      -- with one output pointer NULL both pointers alias one buffer and the second store wins: the single key is keys[32..64]
      let k := kxKeys q cpk spk; some s!"0 {toHex (k.take 32)} {toHex (k.drop 32)} {toHex (k.drop 32)} {toHex (k.drop 32)}"
  | "kx.server", [spk, ssk, cpk] => do
    let spk ← ofHex spk; let ssk ← ofHex ssk; let cpk ← ofHex cpk
    match X25519.scalarmult ssk cpk with
    | none => some "-1"
    | some q => let k := kxKeys q cpk spk; some s!"0 {toHex (k.drop 32)} {toHex (k.take 32)} {toHex (k.drop 32)} {toHex (k.drop 32)}"
  | "box.easy", [v, m, n, pk, sk] => do
    let m ← ofHex m; let n ← ofHex n
    match beforenm (v == "xchacha") (← ofHex pk) (← ofHex sk) with
    | none => some "-1"
    | some k => some s!"0 {toHex (Aead.secretboxEasy (if v == "xchacha" then Sodium.Driver.C01.pOrig else Sodium.Driver.C01.pSalsa) m n k)}"
  | "box.open", [v, c, n, pk, sk] => do
    let c ← ofHex c; let n ← ofHex n
    match beforenm (v == "xchacha") (← ofHex pk) (← ofHex sk) with
    | none => some (decLine (c.length - 16) ⟨-1, 0, none⟩)
    | some k => some (decLine (c.length - 16) (Aead.secretboxOpenEasy (if v == "xchacha" then Sodium.Driver.C01.pOrig else Sodium.Driver.C01.pSalsa) true c n k))
  | "seal.open", [c, pk, sk] => do
    let c ← ofHex c; let pk ← ofHex pk; let sk ← ofHex sk
    if c.length < 48 then some (decLine 0 ⟨-1, 0, none⟩) else
    let epk := c.take 32
    let nonce := Blake2b.hash 24 [] [] [] (epk ++ pk)
    match beforenm false epk sk with
    | none => some (decLine (c.length - 48) ⟨-1, 0, none⟩)
    | some k => some (decLine (c.length - 48) (Aead.secretboxOpenEasy Sodium.Driver.C01.pSalsa true (c.drop 32) nonce k))
  -- C06: key generation, signing, verification and open run the model of sign.c / open.c / keypair.c
  -- (Model/Sign.lean) instantiated with the Spec primitives; see Driver/C06.lean
  | "sign.seed_keypair", _ | "sign.detached", _ | "sign.verify", _ | "sign.open", _ | "sign.ph", _ =>
    Sodium.Driver.C06.handle op args
  | "sign.pk_to_curve", [pk] => do some (rcHex (Ed25519.pkToCurve25519 (← ofHex pk)))
  | "sign.sk_to_curve", [sk] => do some s!"0 {toHex (Ed25519.skToCurve25519 sha512 ((← ofHex sk).take 32))}"
  | "ed.valid", [p] => do some (if Ed25519.isValidPoint (← ofHex p) then "1" else "0")
  | "ri.valid", [p] => do some (if Ristretto.isValidPoint (← ofHex p) then "1" else "0")
  | "ed.add", [p, q] => do some (rcHex (Ed25519.coreAdd (← ofHex p) (← ofHex q)))
  | "ed.sub", [p, q] => do some (rcHex (Ed25519.coreSub (← ofHex p) (← ofHex q)))
  | "ri.add", [p, q] => do some (rcHex (Ristretto.coreAdd (← ofHex p) (← ofHex q)))
  | "ri.sub", [p, q] => do some (rcHex (Ristretto.coreSub (← ofHex p) (← ofHex q)))
  | "ed.scalarmult", [n, p] => do some (rcHex (Ed25519.scalarmult (← ofHex n) (← ofHex p)))
  | "ed.scalarmult_noclamp", [n, p] => do some (rcHex (Ed25519.scalarmultNoclamp (← ofHex n) (← ofHex p)))
  | "ri.scalarmult", [n, p] => do some (rcHex (Ristretto.scalarmult (← ofHex n) (← ofHex p)))
  | "ed.base", [n] => do some (rcHex (Ed25519.scalarmultBase (← ofHex n)))
  | "ed.base_noclamp", [n] => do some (rcHex (Ed25519.scalarmultBaseNoclamp (← ofHex n)))
  | "ri.base", [n] => do some (rcHex (Ristretto.scalarmultBase (← ofHex n)))
  | "ed.from_uniform", [r] => do some s!"0 {toHex (H2c.fromUniform (← ofHex r))}"
  | "ri.from_hash", [h] => do some s!"0 {toHex (Ristretto.fromUniform (← ofHex h))}"
  | "ed.from_string", [alg, ro, ctx, msg] => do
    let ctx ← if ctx = "N" then some [] else ofHex ctx
    let msg ← ofHex msg
    let r := match alg, ro with
      | "256", "0" => H2c.fromStringSha256 sha256 ctx msg
      | "256", _ => H2c.fromStringRoSha256 sha256 ctx msg
      | _, "0" => H2c.fromStringSha512 sha512 ctx msg
      | _, _ => H2c.fromStringRoSha512 sha512 ctx msg
    some s!"0 {toHex r}"
  | "ri.from_string", [alg, _ro, ctx, msg] => do
    let ctx ← if ctx = "N" then some [] else ofHex ctx
    let msg ← ofHex msg
    some s!"0 {toHex (if alg = "256" then H2c.ristrettoFromStringSha256 sha256 ctx msg else H2c.ristrettoFromStringSha512 sha512 ctx msg)}"
  | "sc", [o, x] => do
    let x ← ofHex x
    match o with
    | "reduce" => some s!"0 {toHex (Scalar.reduce64 x)}"
    | "negate" => some s!"0 {toHex (Scalar.negate x)}"
    | "complement" => some s!"0 {toHex (Scalar.complement x)}"
    | "invert" => some s!"{if x.all (· == 0) then "-1" else "0"} {toHex (Scalar.invert x)}"
    | _ => none
  | "sc", [o, x, y] => do
    let x ← ofHex x; let y ← ofHex y
    match o with
    | "mul" => some s!"0 {toHex (Scalar.mul x y)}"
    | "add" => some s!"0 {toHex (Scalar.addWrap x y)}"
    | "sub" => some s!"0 {toHex (Scalar.subWrap x y)}"
    | _ => none
  | _, _ => none

end Sodium.Driver.C05
