import SodiumModel.Driver.Common
import SodiumModel.Driver.C01
import SodiumModel.Driver.C04
import SodiumModel.Spec.Curve25519
import SodiumModel.Spec.Ed25519
import SodiumModel.Spec.Scalar25519
import SodiumModel.Spec.Ristretto255
import SodiumModel.Spec.H2c
import SodiumModel.Model.Scalar
import SodiumModel.Model.Scalarmult
import SodiumModel.Model.LadderRef10
import SodiumModel.Model.Fe51
import SodiumModel.Model.RistrettoRef10
import SodiumModel.Model.Ge25519Ref10
import SodiumModel.Model.Fe25
import SodiumModel.Driver.C06
import SodiumModel.Driver.C07Ref
import SodiumModel.Model.X86Scalar
import Generated.Sandy2xAsm
namespace Sodium.Driver.C05
open Sodium Sodium.Model Sodium.Driver Sodium.Spec

def sha512 : Bytes → Bytes := Sha512.hash
def sha256 : Bytes → Bytes := Sha256.hash

def rcHex : Option Bytes → String
  | none => "-1"
  | some b => s!"0 {toHex b}"

/-! The C05 operations run the MODEL of the C code: ref10's `has_small_order` early reject, the
    clamping and the wrapper's all-zero check (`Model/Scalarmult.lean`) around the C-structured
    Montgomery ladder of x25519_ref10.c (`Model/LadderRef10.lean`: `fe25519_frombytes`, the 255
    iterations in the statement order of the C code, `fe25519_invert`, `fe25519_tobytes`).

    The field under the ladder is one of two models:
      * `multSpec`: the specification field `Spec.F25519` (`x25519_ref10`);
      * `multFe51`: the radix-2^51 LIMB-LEVEL model of `private/ed25519_ref10_fe_51.h` / `fe_51/fe.h`
        (`Model/Fe51.lean`: `uint64_t` limbs, `uint128_t` products, the carry chains, the addition
        chain of `fe25519_invert`, the four passes of `fe25519_reduce`), `x25519_fe51`.
    Both equal RFC 7748 `X25519.x25519` on every clamped scalar (`C05Ladder.ref10_ladder_eq_rfc7748`,
    `C05Fe51.x25519_fe51_eq_rfc7748`).  The limb model costs ~13 ms per scalar multiplication in the
    compiled driver (its `uint128_t` values are GMP naturals) against ~1.5 ms for the specification
    field, i.e. ~7x the driver time of `check.py C05` if every call used it; therefore `mult` sends
    ONE CALL IN FOUR (chosen by a hash of all scalar and point bytes: their sum mod 4 = 0) through the
    limb model and the others through the specification field (~2.4x).  `multFe51` alone is the
    full routing. -/
open Sodium.Model.Scalarmult in
def multSpec : Bytes → Bytes → Option Bytes := mult_ref10 Sodium.Model.LadderRef10.x25519_ref10


/-! Tie A for the hand-written assembly of the sandy2x backend (`fe51_pack.S`, `fe51_mul.S`, `fe51_nsquare.S`): the
    instruction lists that `tools_new/asm2lean.py` regenerates from the `.S` text (`Generated/Sandy2xAsm.lean`) are RUN by
    the interpreter of `Model/X86Scalar.lean` on the final limb vector `h` of every X25519 operation and compared with
    the limb model: `fe51_pack(h)` = `fe25519_tobytes h` byte for byte, `fe51_mul(h, h)` and `fe51_nsquare(h, 2)` =
    `fe25519_mul h h` / two `fe25519_sq` as field elements (their limbs may legitimately differ: the assembly's carry chain
    is 0→1→2→3→4→0, the C one 0→…→4→0→1→2).  A difference poisons the result (32 bytes 0xEF), which makes the `x25519`
    operation print `MODEL-DISAGREE` and every derived operation differ from the library. -/
open Sodium.Model.Fe51 Sodium.Model.X86Scalar in
def asmAgrees (h : Fe) : Bool :=
  let packOk := callPack Generated.Sandy2xAsm.fe51_pack h == some (fe25519_tobytes h)
  let mulOk := match callMul Generated.Sandy2xAsm.fe51_mul h h with
    | some r => fe25519_tobytes r == fe25519_tobytes (fe25519_mul h h)
    | none => false
  let sqOk := match callNsquare Generated.Sandy2xAsm.fe51_nsquare h 2 with
    | some r => fe25519_tobytes r == fe25519_tobytes (fe25519_sq (fe25519_sq h))
    | none => false
  packOk && mulOk && sqOk

open Sodium.Model.Fe51 in
def fe51FieldAsm : Sodium.Model.LadderRef10.FieldOps Fe :=
  { fe51Field with tobytes := fun h => if asmAgrees h then fe25519_tobytes h else List.replicate 32 0xEF }

/-- `x25519_fe51` with the assembly cross-run on the final limb vector -/
def x25519_fe51_asm (t p : Bytes) : Bytes := Sodium.Model.LadderRef10.ladder fe51FieldAsm t p

open Sodium.Model.Scalarmult in
def multFe51 : Bytes → Bytes → Option Bytes := mult_ref10 x25519_fe51_asm

/-- the calls that go through the limb-level model: byte sum of scalar and point ≡ 0 mod 4 -/
def viaLimbs (n p : Bytes) : Bool :=
  ((n ++ p).foldl (fun (a : Nat) (b : UInt8) => a + b.toNat) 0) % 4 == 0

/-- the ladder over BOTH limb-level models: the radix-2^51 model (`Model/Fe51.lean`, HAVE_TI_MODE builds) and the
    radix-2^25.5 model (`Model/Fe25.lean` + the generated `Model/Fe25Gen.lean`, builds without 128-bit integers).
    Both are proved equal to RFC 7748 (`C05Fe51.x25519_fe51_eq_rfc7748`, `C10Fe25.x25519_fe25_eq_rfc7748`), so they
    agree; the driver nevertheless cross-checks them on every call.  A disagreement poisons the result (32 bytes
    0xEE, which the C library never returns for these inputs by accident) and the `x25519` operation prints `MODEL-DISAGREE`. -/
def x25519_both (t p : Bytes) : Bytes :=
  let a := x25519_fe51_asm t p
  let b := Sodium.Model.Fe25.x25519_fe25 t p
  if a == b then a else List.replicate 32 0xEE

open Sodium.Model.Scalarmult in
def multFe25 : Bytes → Bytes → Option Bytes := mult_ref10 Sodium.Model.Fe25.x25519_fe25

open Sodium.Model.Scalarmult in
def multBoth : Bytes → Bytes → Option Bytes := mult_ref10 x25519_both

def mult (n p : Bytes) : Option Bytes := multBoth n p     -- every call through BOTH limb-level models (tools/props/c05.py runs the driver in parallel); viaLimbs / multSpec / multFe51 / multFe25 kept for reference

/-- `x25519` operation: the two limb-level models separately, compared -/
def x25519Line (n p : Bytes) : String :=
  let a := Scalarmult.crypto_scalarmult_curve25519 multFe51 n p
  let b := Scalarmult.crypto_scalarmult_curve25519 multFe25 n p
  if a.1 == b.1 && a.2 == b.2 then
    (if a.1 != 0 then i32s a.1 else s!"0 {toHex (a.2.getD [])}")
  else s!"MODEL-DISAGREE fe51={if a.1 != 0 then i32s a.1 else toHex (a.2.getD [])} fe25={if b.1 != 0 then i32s b.1 else toHex (b.2.getD [])}"

/-- `crypto_scalarmult_curve25519_base`: the model of `crypto_scalarmult_curve25519_ref10_base`
    (clamp, `ge25519_scalarmult_base`, `edwards_to_montgomery`, `fe25519_tobytes`) over the
    specification field, with the RFC 8032 base-point multiplication of `Spec/Ed25519.lean` -/
def base : Bytes → Bytes :=
  Sodium.Model.LadderRef10.base Sodium.Model.LadderRef10.specField fun t =>
    -- `ge25519_scalarmult_base(&A, t)`: the C-structured model of `Model/Ge25519Ref10.lean` over the specification field
    let A := Sodium.Model.Ge25519.ge25519_scalarmult_base Sodium.Model.Ge25519.specGe t
    { X := A.X, Y := A.Y, Z := A.Z, T := A.T }

/-- BLAKE2b-512 / BLAKE2b-256 without key (`crypto_generichash` as called by crypto_kx) -/
def blake512 : Bytes → Bytes := Blake2b.hash 64 [] [] []
def blake256 : Bytes → Bytes := Blake2b.hash 32 [] [] []

/-- `rc` alone on failure, `0 <hex>` on success (harness `rc_hex`) -/
def rcOut : Int32 × Option Bytes → String
  | (rc, q) => if rc != 0 then i32s rc else s!"0 {toHex (q.getD [])}"

def beforenm (xc : Bool) (pk sk : Bytes) : Option Bytes :=
  match Scalarmult.crypto_box_beforenm mult
      (if xc then fun i k => Chacha.hchacha20 i k none else fun i k => Salsa.hsalsa20 i k none) pk sk with
  | (rc, k) => if rc != 0 then none else k

/-- harness line of kx.client / kx.server: the two-pointer call, then the (buf, NULL) and (NULL, buf) calls -/
def kxLine (server : Bool) (a b c : Bytes) : String :=
  let call := if server then Scalarmult.kxServer mult blake512 else Scalarmult.kxClient mult blake512
  match call true true a b c, call true false a b c, call false true a b c with
  | some full, some one, some two =>
    if full.rc != 0 then
      (if one.rc != full.rc then "NULL-RC-DIFFERS " else "") ++ i32s full.rc
    else
      (if one.rc != full.rc then "NULL-RC-DIFFERS " else "") ++ (if two.rc != 0 then "NULL-RC-DIFFERS " else "") ++
      s!"0 {toHex (full.rx.getD [])} {toHex (full.tx.getD [])} {toHex (one.rx.getD [])} {toHex (two.tx.getD [])}"
  | _, _, _ => "misuse"

def decLine := Sodium.Driver.C01.decLine

/-! C07: the glue-code models of `Model/Scalar.lean`, instantiated with the executable specifications
    of the primitives (sc25519_*, ge25519_*, SHA-2) -/

/-- `(rc, buffer)` of a model function, printed like the harness' `rc_hex` -/
def rcBuf (r : Int32 × Bytes) : String :=
  if r.1 != 0 then toString r.1.toInt else s!"0 {toHex r.2}"

def b2i (b : Bool) : Int32 := if b then 1 else 0

/-- the `ge25519_*` primitives as specified in `Spec/Ed25519.lean` -/
def geSpec : Model.Scalar.GePrims Ed25519.Point where
  is_canonical p := b2i (Ed25519.isCanonicalY p)
  frombytes p := match Ed25519.decodeLax p with
    | none => (-1, Ed25519.identity)
    | some P => (0, P)
  is_on_curve P := b2i (Ed25519.isOnCurve P)
  has_small_order P := b2i (Ed25519.isSmallOrder P)
  is_on_main_subgroup P := b2i (Ed25519.libsodiumIsOnMainSubgroup P)
  scalarmult t P := Ed25519.scalarMult (le t) P
  scalarmult_base t := Ed25519.scalarMult (le t) Ed25519.basePoint
  p3_tobytes := Ed25519.encode

/-- the `ge25519_*` primitives as MODELLED in `Model/Ge25519Ref10.lean` (the C-structured group code of
    ed25519_ref10.c over the specification field): what the `ed.*` operations run -/
def geRef : Model.Scalar.GePrims (Model.Ge25519.P3 Nat) where
  is_canonical p := Model.Sign.ge25519_is_canonical p
  frombytes p := Model.Ge25519.ge25519_frombytes Model.Ge25519.specGe p
  is_on_curve P := Model.Ge25519.ge25519_is_on_curve Model.Ge25519.specGe P
  has_small_order P := Model.Ge25519.ge25519_has_small_order Model.Ge25519.specGe P
  is_on_main_subgroup P := Model.Ge25519.ge25519_is_on_main_subgroup Model.Ge25519.specGe P
  scalarmult t P := Model.Ge25519.ge25519_scalarmult Model.Ge25519.specGe t P
  scalarmult_base t := Model.Ge25519.ge25519_scalarmult_base Model.Ge25519.specGe t
  p3_tobytes := Model.Ge25519.ge25519_p3_tobytes Model.Ge25519.specGe

/-- `crypto_core_ed25519_add` / `_sub` (core_ed25519.c) over the modelled group code:
      if (ge25519_frombytes(&p_p3, p) != 0 || ge25519_is_on_curve(&p_p3) == 0 ||
          ge25519_frombytes(&q_p3, q) != 0 || ge25519_is_on_curve(&q_p3) == 0) return -1;
      ge25519_p3_add / ge25519_p3_sub (&r_p3, &p_p3, &q_p3);  ge25519_p3_tobytes(r, &r_p3);  return 0; -/
def coreAddSub (sub : Bool) (p q : Bytes) : Option Bytes :=
  let G := Model.Ge25519.specGe
  let P := Model.Ge25519.ge25519_frombytes G p
  if P.1 != 0 || Model.Ge25519.ge25519_is_on_curve G P.2 == 0 then none else
  let Q := Model.Ge25519.ge25519_frombytes G q
  if Q.1 != 0 || Model.Ge25519.ge25519_is_on_curve G Q.2 == 0 then none else
  let R := if sub then Model.Ge25519.ge25519_p3_sub G P.2 Q.2 else Model.Ge25519.ge25519_p3_add G P.2 Q.2
  some (Model.Ge25519.ge25519_p3_tobytes G R)

/-- C07 maps: the `ri.*` and `ed.from_*` operations run the C-structured field-level model of
    `Model/RistrettoRef10.lean` (ristretto255_frombytes / _p3_tobytes / _elligator / _from_hash,
    ge25519_elligator2 / _mont_to_ed / _from_uniform / _from_hash and the core_ristretto255.c,
    scalarmult_ristretto255_ref10.c wrappers) over the specification field; `abort()` prints "abort" -/
def abortOr : Option (Int32 × Bytes) → String
  | none => "abort"
  | some r => rcBuf r

/-- `ge25519_from_hash` of the C-structured model (`abort()` ↦ empty output, which the comparison flags) -/
def edFromHash (h : Bytes) : Bytes := (RistrettoRef10.ed_from_hash h).getD []

def h2cAlg (alg : String) : Int32 :=
  if alg = "256" then Model.Scalar.CORE_H2C_SHA256 else Model.Scalar.CORE_H2C_SHA512

/-- `crypto_box_seal_open` (xsalsa20) / `crypto_box_curve25519xchacha20poly1305_seal_open`: nonce = BLAKE2b-192(epk ‖ pk), then box open with the ephemeral key -/
def sealOpen (xc : Bool) (c pk sk : Bytes) : Option String :=
  if c.length < 48 then some (decLine 0 ⟨-1, 0, none⟩) else
  let epk := c.take 32
  let nonce := Blake2b.hash 24 [] [] [] (epk ++ pk)
  match beforenm xc epk sk with
  | none => some (decLine (c.length - 48) ⟨-1, 0, none⟩)
  | some k => some (decLine (c.length - 48) (Aead.secretboxOpenEasy (if xc then Sodium.Driver.C01.pOrig else Sodium.Driver.C01.pSalsa) true (c.drop 32) nonce k))

def handle (op : String) (args : List String) : Option String :=
  match op, args with
  | "x25519", [n, p] => do some (x25519Line (← ofHex n) (← ofHex p))
  | "x25519.base", [n] => do some (toHex (base (← ofHex n)))
  | "box.seed_keypair", [seed] => do
    let (_, pk, sk) := Scalarmult.crypto_box_seed_keypair sha512 base (← ofHex seed)
    some s!"{toHex pk} {toHex sk}"
  | "kx.seed_keypair", [seed] => do
    let (_, pk, sk) := Scalarmult.crypto_kx_seed_keypair blake256 base (← ofHex seed)
    some s!"{toHex pk} {toHex sk}"
  | "kx.client", [cpk, csk, spk] => do some (kxLine false (← ofHex cpk) (← ofHex csk) (← ofHex spk))
  | "kx.server", [spk, ssk, cpk] => do some (kxLine true (← ofHex spk) (← ofHex ssk) (← ofHex cpk))
  | "box.easy", [v, m, n, pk, sk] => do
    let m ← ofHex m; let n ← ofHex n
    match beforenm (v == "xchacha") (← ofHex pk) (← ofHex sk) with
    | none => some "-1"
    | some k => some s!"0 {toHex (Aead.secretboxEasy (if v == "xchacha" then Sodium.Driver.C01.pOrig else Sodium.Driver.C01.pSalsa) m n k)}"
  | "box.open", [v, c, n, pk, sk] => do
    let c ← ofHex c; let n ← ofHex n
    match beforenm (v == "xchacha") (← ofHex pk) (← ofHex sk) with
    | none => some (decLine (c.length - 16) ⟨-1, 0, none⟩)
    | some k => some (decLine (c.length - 16) (Aead.secretboxOpenEasy (if v == "xchacha" then Sodium.Driver.C01.pOrig else Sodium.Driver.C01.pSalsa) true c n k))
  | "seal.open", [c, pk, sk] => do sealOpen false (← ofHex c) (← ofHex pk) (← ofHex sk)
  | "seal.openx", [c, pk, sk] => do sealOpen true (← ofHex c) (← ofHex pk) (← ofHex sk)
  -- C06: key generation, signing, verification and open run the model of sign.c / open.c / keypair.c
  -- (Model/Sign.lean) instantiated with the Spec primitives; see Driver/C06.lean
  | "sign.seed_keypair", _ | "sign.detached", _ | "sign.verify", _ | "sign.open", _ | "sign.ph", _ =>
    Sodium.Driver.C06.handle op args
  | "sign.pk_to_curve", [pk] => do some (rcHex (Ed25519.pkToCurve25519 (← ofHex pk)))
  | "sign.sk_to_curve", [sk] => do some s!"0 {toHex (Ed25519.skToCurve25519 sha512 ((← ofHex sk).take 32))}"
  | "ed.valid", [p] => do some (toString (Model.Scalar.is_valid_point geRef (← ofHex p)).toInt)
  | "ri.valid", [p] => do some (toString (RistrettoRef10.ri_valid (← ofHex p)).toInt)
  | "ed.add", [p, q] => do some (rcHex (coreAddSub false (← ofHex p) (← ofHex q)))
  | "ed.sub", [p, q] => do some (rcHex (coreAddSub true (← ofHex p) (← ofHex q)))
  | "ri.add", [p, q] => do some (rcBuf (RistrettoRef10.ri_add (← ofHex p) (← ofHex q)))
  | "ri.sub", [p, q] => do some (rcBuf (RistrettoRef10.ri_sub (← ofHex p) (← ofHex q)))
  | "ed.scalarmult", [n, p] => do some (rcBuf (Model.Scalar.crypto_scalarmult_ed25519 geRef [] (← ofHex n) (← ofHex p)))
  | "ed.scalarmult_noclamp", [n, p] => do some (rcBuf (Model.Scalar.crypto_scalarmult_ed25519_noclamp geRef [] (← ofHex n) (← ofHex p)))
  | "ri.scalarmult", [n, p] => do some (rcBuf (RistrettoRef10.ri_scalarmult (← ofHex n) (← ofHex p)))
  | "ed.base", [n] => do some (rcBuf (Model.Scalar.crypto_scalarmult_ed25519_base geRef (← ofHex n)))
  | "ed.base_noclamp", [n] => do some (rcBuf (Model.Scalar.crypto_scalarmult_ed25519_base_noclamp geRef (← ofHex n)))
  | "ri.base", [n] => do some (rcBuf (RistrettoRef10.ri_base (← ofHex n)))
  | "ed.from_uniform", [r] => do some (abortOr (RistrettoRef10.ed_from_uniform (← ofHex r)))
  | "ri.from_hash", [h] => do some (rcBuf (RistrettoRef10.crypto_core_ristretto255_from_hash RistrettoRef10.specOps RistrettoRef10.specGe (← ofHex h)))
  | "ed.from_string", [alg, ro, ctx, msg] => do
    let ctx ← if ctx = "N" then some [] else ofHex ctx
    let msg ← ofHex msg
    some (rcBuf (if ro = "0" then Model.Scalar.from_string sha256 sha512 edFromHash ctx msg (h2cAlg alg)
      else Model.Scalar.from_string_ro sha256 sha512 edFromHash (coreAddSub false) ctx msg (h2cAlg alg)))
  | "ri.from_string", [alg, _ro, ctx, msg] => do
    let ctx ← if ctx = "N" then some [] else ofHex ctx
    let msg ← ofHex msg
    some (rcBuf (Model.Scalar.ristretto_from_string sha256 sha512 RistrettoRef10.ri_from_hash ctx msg (h2cAlg alg)))
  | "sc", [o, x] => do
    let x ← ofHex x
    match o with
    | "reduce" => some s!"0 {toHex (C07Ref.scalar_reduce x)}"
    | "negate" => some s!"0 {toHex (C07Ref.scalar_negate x)}"
    | "complement" => some s!"0 {toHex (C07Ref.scalar_complement x)}"
    | "invert" =>
      let r := C07Ref.scalar_invert x
      some s!"{r.1.toInt} {toHex r.2}"
    | _ => none
  | "sc", [o, x, y] => do
    let x ← ofHex x; let y ← ofHex y
    match o with
    | "mul" => some s!"0 {toHex (C07Ref.scalar_mul x y)}"
    | "add" => some s!"0 {toHex (C07Ref.scalar_add x y)}"
    | "sub" => some s!"0 {toHex (C07Ref.scalar_sub x y)}"
    | _ => none
  | _, _ => none

end Sodium.Driver.C05
