import SodiumModel.Model.Scalar
import SodiumModel.Model.ScReduce
/-
  The scalar wrappers of `Model/Scalar.lean` (crypto_core_ed25519_scalar_*) instantiated with the
  MODELLED limb code of ed25519_ref10.c (`Model/ScReduce.lean`: sc25519_reduce, sc25519_mul,
  sc25519_invert over `Int64`) instead of the executable specifications `Spec.Scalar.reduce64 / mul /
  invert`.  Same types, so `Driver/C05.lean` switches by using these three functions.
  `Properties/C07Reduce.lean` proves each of them equal to the specification on its domain
  (`sc25519_reduce_spec`, `sc25519_mul_spec`, `sc25519_invert_spec`) and the wrappers exact
  (`scalar_*_real_spec`).
-/
namespace Sodium.Driver.C07Ref
open Sodium Sodium.Model

/-- `sc25519_reduce` (64 bytes → 32 bytes), the limb model -/
def scReduce : Bytes → Bytes := ScReduce.sc25519_reduce
/-- `sc25519_mul`, the limb model -/
def scMul : Bytes → Bytes → Bytes := ScReduce.sc25519_mul
/-- `sc25519_invert`, the addition chain over the limb model of `sc25519_mul` -/
def scInvert : Bytes → Bytes := ScReduce.sc25519_invert

def scalar_reduce (s : Bytes) : Bytes := Scalar.scalar_reduce scReduce s
def scalar_negate (s : Bytes) : Bytes := Scalar.scalar_negate scReduce s
def scalar_complement (s : Bytes) : Bytes := Scalar.scalar_complement scReduce s
def scalar_add (x y : Bytes) : Bytes := Scalar.scalar_add scReduce x y
def scalar_sub (x y : Bytes) : Bytes := Scalar.scalar_sub scReduce x y
def scalar_mul (x y : Bytes) : Bytes := Scalar.scalar_mul scMul x y
def scalar_invert (s : Bytes) : Int32 × Bytes := Scalar.scalar_invert scInvert s

end Sodium.Driver.C07Ref
