import SodiumModel.Driver.Common
import SodiumModel.Model.Utils
namespace Sodium.Driver.C14
open Sodium Sodium.Model Sodium.Driver

def verifyN (n : Nat) (a b : Bytes) : String :=
  if a.length ≠ n ∨ b.length ≠ n then badArgs else
  let r1 := verify_n_sse2 (n / 16) a b
  let r2 := verify_n_generic a b
  if r1 == r2 then i32s r1 else "MODEL-DISAGREE"

/-- one case of the exhaustive small-operand sweep: all results for operands (a, b) -/
def caseLine (a b : Bytes) : String :=
  s!"{i32s (sodium_memcmp a b)} {i32s (sodium_compare a b)} {i32s (sodium_is_zero a)} {toHex (sodium_add_amd64 a b)} {toHex (sodium_sub_amd64 a b)} {toHex (sodium_increment_amd64 a)}"

def enumRange (len lo hi : Nat) : String := Id.run do
  let mut h := fnvInit
  for i in [lo:hi] do
    let a := toLE len (i % 2 ^ (8 * len))
    let b := toLE len (i / 2 ^ (8 * len))
    h := fnvString h (caseLine a b)
  return hex64 h

def handle (op : String) (args : List String) : Option String :=
  match op, args with
  | "memcmp", [a, b] => do
    let a ← ofHex a; let b ← ofHex b
    if a.length ≠ b.length then some badArgs else
    some (i32s (sodium_memcmp a b))
  | "is_zero", [a] => do let a ← ofHex a; some (i32s (sodium_is_zero a))
  | "compare", [a, b] => do
    let a ← ofHex a; let b ← ofHex b
    if a.length ≠ b.length then some badArgs else
    some (i32s (sodium_compare a b))
  | "verify16", [a, b] => do some (verifyN 16 (← ofHex a) (← ofHex b))
  | "verify32", [a, b] => do some (verifyN 32 (← ofHex a) (← ofHex b))
  | "verify64", [a, b] => do some (verifyN 64 (← ofHex a) (← ofHex b))
  | "increment", [a] => do
    let a ← ofHex a
    let r := sodium_increment_amd64 a
    some (if r == sodium_increment_generic a then toHex r else "MODEL-DISAGREE")
  | "add", [a, b] => do
    let a ← ofHex a; let b ← ofHex b
    if a.length ≠ b.length then some badArgs else
    let r := sodium_add_amd64 a b
    some (if r == sodium_add_generic a b then toHex r else "MODEL-DISAGREE")
  | "sub", [a, b] => do
    let a ← ofHex a; let b ← ofHex b
    if a.length ≠ b.length then some badArgs else
    let r := sodium_sub_amd64 a b
    some (if r == sodium_sub_generic a b then toHex r else "MODEL-DISAGREE")
  | "memzero", [m, off, len] => do
    let m ← ofHex m; let off ← parseNat? off; let len ← parseNat? len
    if off + len > m.length then some badArgs else
    some (toHex (memzeroAt m off len))
  | "enum.c14", [len, lo, hi] => do
    some (enumRange (← parseNat? len) (← parseNat? lo) (← parseNat? hi))
  | "case.c14", [a, b] => do some (caseLine (← ofHex a) (← ofHex b))
  | _, _ => none

end Sodium.Driver.C14
