import SodiumModel.Driver.Common
import SodiumModel.Model.Limits
/-
  C12 driver: `mem.limit <api> <arg>` is answered from the limits table (Model/Limits.lean);
  `mem.limits` lists the table (the runner derives its probe arguments from it);
  `mem.sweep …` has no model answer of its own — the reference digest is the plain native build — and is
  acknowledged with the literal `digest`.
-/
namespace Sodium.Driver.C12
open Sodium Sodium.Model Sodium.Driver Sodium.Model.Limits

def showLimit (e : String × Limit) : String :=
  let l := e.2
  s!"{e.1},{l.lo},{l.hi},{l.argMax},{if l.huge then 1 else 0},{"/".intercalate (l.probes.map toString)}"

def handle (op : String) (args : List String) : Option String :=
  match op, args with
  | "mem.limit", [api, arg] =>
    match parseNat? arg with
    | none => some badArgs
    | some n => some ((observable api n).getD badArgs)
  | "mem.limits", [] => some (";".intercalate (limits.map showLimit))
  | "mem.sweep", [_, _, _, _, _] => some "digest"
  | _, _ => none

end Sodium.Driver.C12
