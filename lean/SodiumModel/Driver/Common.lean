import SodiumModel.Basic
/-
  Line-protocol helpers for the model driver (core Lean only, compiled into `sodium-model`).
-/
namespace Sodium.Driver

/-- 64-bit FNV-1a running digest used by range ops (same function in harness/hx.c) -/
def fnvStep (h : UInt64) (b : UInt8) : UInt64 := (h ^^^ b.toUInt64) * 0x100000001b3
def fnvBytes (h : UInt64) (bs : List UInt8) : UInt64 := bs.foldl fnvStep h
def fnvString (h : UInt64) (s : String) : UInt64 := s.toUTF8.foldl fnvStep h
def fnvInit : UInt64 := 0xcbf29ce484222325

def hex64 (v : UInt64) : String :=
  String.ofList ((List.range 16).map fun i => hexDigit ((v >>> (UInt64.ofNat (4 * (15 - i)))).toNat % 16))

def i32s (v : Int32) : String := toString v.toInt

def parseNat? (s : String) : Option Nat := s.toNat?

abbrev Handler := List String → Option String

/-- result of a handler on malformed arguments -/
def badArgs : String := "bad-args"

end Sodium.Driver
