import SodiumModel.Driver.Common
import SodiumModel.Model.Alloc
namespace Sodium.Driver.C17
open Sodium Sodium.Model.Alloc Sodium.Driver

def pg : UInt64 := 4096

def protName : Prot → String
  | .none => "none" | .ro => "ro" | .rw => "rw"

def sysStr : Sys → String
  | .mmap l => s!"mmap({l.toNat}) "
  | .mprotect o l p => s!"mprotect({o.toNat},{l.toNat},{protName p}) "
  | .mlock o l => s!"mlock({o.toNat},{l.toNat}) "
  | .munlock o l => s!"munlock({o.toNat},{l.toNat}) "
  | .munmap o l => s!"munmap({o.toNat},{l.toNat}) "

/-- operating-system half, not part of the model: a mapping larger than the 47-bit user address space is refused by mmap with ENOMEM -/
def osRefuses (L : Layout) : Bool := L.total.toNat ≥ 2 ^ 46

def allocLine : MallocResult → String
  | .enomem => "NULL errno=12"
  | .ok L calls =>
    if osRefuses L then "NULL errno=12" else
    s!"ok user={L.userOff.toNat} calls={String.join (calls.map sysStr)}fill=ok canary=ok free={String.join ((sodium_free_calls L).map sysStr)}"

def u64? (s : String) : Option UInt64 := do
  let n ← s.toNat?
  if n < 2 ^ 64 then some (UInt64.ofNat n) else none

/-- protection of the page containing user byte `off` after a history -/
def protAt (L : Layout) (calls : List Sys) (ops : List Op) (off : UInt64) : Prot :=
  (pagesAfter pg L calls ops).getD (off.toNat / pg.toNat) .none

def parseOps (s : List Char) : Option (List Op) :=
  s.mapM fun c => if c = 'n' then some Op.noaccess else if c = 'r' then some Op.readonly else if c = 'w' then some Op.readwrite else none

def probe (size : UInt64) (kind arg : String) : Option String :=
  match sodium_malloc pg size with
  | .enomem => some "exit=50"
  | .ok L calls =>
    let sig := "signal"; let ok := "exit=0"
    match kind with
    | "past" => some (if protAt L calls [] (L.userOff + size) == .none then sig else ok)
    | "pastw" => some (if protAt L calls [] (L.userOff + size) != .rw then sig else ok)
    | "last" => some ok
    | "canary" | "canary.ign" | "canary.hdl" => some sig    -- any altered canary byte: sodium_free raises SIGSEGV and then aborts, whatever the SIGSEGV disposition
    | "before" => do
      let i ← arg.toNat?
      let off := L.userOff - 17 - UInt64.ofNat i
      some (if protAt L calls [] off == .none then sig else ok)
    | "prot" => do
      let cs := arg.toList
      let last ← cs.getLast?
      let ops ← parseOps cs.dropLast
      let p0 := protAt L calls ops L.userOff
      let p1 := protAt L calls ops (L.userOff + size - 1)
      if last = 'R' then some (if p0 == .none ∨ (size.toNat > 1 ∧ p1 == .none) then sig else ok)
      else if last = 'W' then some (if p0 != .rw ∨ (size.toNat > 1 ∧ p1 != .rw) then sig else ok)
      else if last = 'F' then some ok                        -- free works from any protection state
      -- the guard pages stay inaccessible whatever the protection history of the user region was
      else if last = 'P' then some (if protAt L calls ops (L.userOff + size) == .none then sig else ok)      -- read of the first byte past the end
      else if last = 'Q' then some (if protAt L calls ops (L.userOff + size) != .rw then sig else ok)        -- write of the first byte past the end
      else if last = 'G' then some (if protAt L calls ops (L.unprotOff - 1) == .none then sig else ok)       -- read of the last byte of the guard page before the data
      else none
    | _ => none

def handle (op : String) (args : List String) : Option String :=
  match op, args with
  | "alloc.layout", [size] => do some (allocLine (sodium_malloc pg (← u64? size)))
  | "alloc.array", [count, size] => do some (allocLine (sodium_allocarray pg (← u64? count) (← u64? size)))
  | "alloc.protlog", [size, hist] => do
    -- the system calls issued by a history of sodium_mprotect_* calls (offsets relative to the mapping base)
    match sodium_malloc pg (← u64? size) with
    | .enomem => some "NULL"
    | .ok L _ => do
      let ops ← parseOps hist.toList
      some s!"calls={String.join (ops.map (fun o => sysStr (mprotectCall L o)))}"
  | "alloc.probe", [size, kind] => do probe (← u64? size) kind "0"
  | "alloc.probe", [size, kind, arg] => do probe (← u64? size) kind arg
  | _, _ => none

end Sodium.Driver.C17
