import SodiumModel.Driver.Common
import SodiumModel.Driver.C01
import SodiumModel.Driver.C03
import SodiumModel.Driver.C09
import SodiumModel.Model.Random
import SodiumModel.Model.RandomInternal
import SodiumModel.Spec.Sha512
import SodiumModel.Spec.Blake2b
import SodiumModel.Spec.Ed25519
import SodiumModel.Spec.H2c
import SodiumModel.Spec.Ristretto255
import SodiumModel.Spec.Scalar25519
namespace Sodium.Driver.C18
open Sodium Sodium.Model Sodium.Driver Sodium.Spec

def parseDraws (s : String) : Option (List UInt32) :=
  if s = "-" then some [] else (s.splitOn ",").mapM fun t => do
    let n ← t.toNat?
    if n < 2 ^ 32 then some (UInt32.ofNat n) else none

def sizes (l : List Nat) : String := "sizes=" ++ ",".intercalate (l.map toString)

def blocks32 : Nat → Bytes → List Bytes
  | 0, _ => []
  | k + 1, b => if b.length < 32 then [] else b.take 32 :: blocks32 k (b.drop 32)

def need (api : String) : Nat :=
  match api with
  | "keygen16" => 16 | "keygen64" => 64 | "ss_init_push" => 24 | "ristretto_random" => 64 | "scalar_random" => 0 | _ => 32

/-- `crypto_box_seal` (xsalsa20) / `crypto_box_curve25519xchacha20poly1305_seal` with the ephemeral secret key taken from the scripted source:
    epk ‖ box(m, nonce = BLAKE2b-192(epk ‖ pk), pk, esk) -/
def sealBox (xc : Bool) (script m pk : Bytes) : Option String :=
  let esk := script.take 32
  let epk := X25519.x25519Base esk
  let nonce := Blake2b.hash 24 [] [] [] (epk ++ pk)
  match X25519.scalarmult esk pk with
  | none => some s!"{sizes [32]} -1"
  | some q =>
    let k := if xc then Chacha.hchacha20 (zeros 16) q none else Salsa.hsalsa20 (zeros 16) q none
    some s!"{sizes [32]} 0 {toHex (epk ++ Aead.secretboxEasy (if xc then Sodium.Driver.C01.pOrig else Sodium.Driver.C01.pSalsa) m nonce k)}"

def genInner (api : String) (script : Bytes) (extra : List String) : Option String :=
  match api, extra with
  | "keygen16", [] => let r := keygen 16 script; some s!"{sizes r.1} {toHex r.2}"
  | "keygen32", [] => let r := keygen 32 script; some s!"{sizes r.1} {toHex r.2}"
  | "keygen64", [] => let r := keygen 64 script; some s!"{sizes r.1} {toHex r.2}"
  | "box_keypair", [] =>
    let sk := script.take 32; some s!"{sizes [32]} {toHex (X25519.x25519Base sk)} {toHex sk}"
  | "sign_keypair", [] =>
    let seed := script.take 32; let pk := Ed25519.publicKey Sha512.hash seed
    some s!"{sizes [32]} {toHex pk} {toHex (seed ++ pk)}"
  | "kx_keypair", [] =>
    let sk := script.take 32; some s!"{sizes [32]} {toHex (X25519.x25519Base sk)} {toHex sk}"
  | "ss_init_push", [key] => do
    let key ← ofHex key
    let hdr := script.take 24
    let s := SS.init Sodium.Driver.C09.prims hdr key
    some s!"{sizes [24]} {toHex hdr} {toHex (s.k ++ s.nonce)}"
  | "seal", [m, pk] => do sealBox false script (← ofHex m) (← ofHex pk)
  | "sealx", [m, pk] => do sealBox true script (← ofHex m) (← ofHex pk)
  | "ed25519_random", [] => some s!"{sizes [32]} {toHex (H2c.fromUniform (script.take 32))}"
  | "ristretto_random", [] => some s!"{sizes [64]} {toHex (Ristretto.fromUniform (script.take 64))}"
  | "scalar_random", [] =>
    match scalarRandomLoop Scalar.isCanonical (blocks32 64 script) with
    | none => some "exhausted"
    | some (r, k) => some s!"{sizes (List.replicate k 32)} {toHex r}"
  | _, _ => none

def gen (api : String) (script : Bytes) (extra : List String) : Option String :=
  if script.length < need api then (genInner api script extra).map fun _ => "exhausted" else genInner api script extra


/-! ### rngint: histories of calls on the internal generator (`Model/RandomInternal.lean`), outside world scripted on the op line -/
section RngInt
open Sodium.Model.RngInt

def parseEnt (s : String) : Option (List (Option Bytes)) :=
  if s = "-" then some [] else (s.splitOn ",").mapM fun t => if t = "!" then some none else (ofHex t).map some

def parseTimes (s : String) : Option (List (Option (UInt64 × UInt64))) :=
  if s = "-" then some [] else (s.splitOn ",").mapM fun t =>
    if t = "!" then some none else
    match t.splitOn "." with
    | [a, b] => do
      let a ← a.toNat?; let b ← b.toNat?
      if a < 2 ^ 64 ∧ b < 2 ^ 63 then some (some (UInt64.ofNat a, UInt64.ofNat b)) else none
    | _ => none

def parsePids (s : String) : Option (List Int) := (s.splitOn ",").mapM fun t => t.toInt?

def mkEnv (ent : List (Option Bytes)) (times : List (Option (UInt64 × UInt64))) (pids : List Int) (openOk : Bool) : Env where
  getentropy := fun k _ => (ent[k]?).join
  gettimeofday := fun k => (times[k]?).join
  getpid := fun k => if pids.isEmpty then 0 else pids.getD (min k (pids.length - 1)) 0
  rdrand := fun _ => 0
  hasRdrand := false
  devOpen := fun _ => if openOk then some 3 else none

def trailer (c : Ctr) : String :=
  s!"ent={if c.ent.isEmpty then "-" else ",".intercalate (c.ent.map toString)} t={c.time} p={c.pid} o={c.opn}"

/-- one call: `none` = bad token -/
def rcall (E : Env) (tok : String) (d : DSt St) : Option (Res (String × DSt St)) :=
  let I := internalImpl chacha20 E
  let lift {α : Type} (r : Res (α × St)) (f : α → String) : Res (String × DSt St) :=
    r.bind fun (a, st) => .ok (f a, { d with w := st })
  let liftD {α : Type} (r : Res (α × DSt St)) (f : α → String) : Res (String × DSt St) :=
    r.bind fun (a, d') => .ok (f a, d')
  match tok.splitOn ":" with
  | ["buf", n] => do let n ← n.toNat?; some (lift (RngInt.buf chacha20 E n d.w) toHex)
  | ["rnd"] => some (lift (RngInt.random chacha20 E d.w) fun v => toString v.toNat)
  | ["stir"] => some ((RngInt.stir E d.w).bind fun st => .ok ("ok", { d with w := st }))
  | ["close"] => some (let r := RngInt.close d.w; .ok (toString r.1, { d with w := r.2 }))
  | ["Buf", n] => do
    let n ← n.toNat?
    some (liftD (Dispatch.randombytes_buf I n d) fun o => match o with | none => "-" | some b => toHex b)
  | ["Bytes", n] => do
    let n ← n.toNat?
    some (liftD (Dispatch.randombytes I n d) fun o => match o with | none => "-" | some b => toHex b)
  | ["Rnd"] => some (liftD (Dispatch.randombytes_random I d) fun v => toString v.toNat)
  | ["Stir"] => some ((Dispatch.randombytes_stir I d).bind fun d' => .ok ("ok", d'))
  | ["Close"] => some (liftD (Dispatch.randombytes_close d) toString)
  | ["Uni", n] => do
    let n ← n.toNat?
    if n ≥ 2 ^ 32 then none else
    some (liftD (Dispatch.randombytes_uniform I 100000 (UInt32.ofNat n) d) fun o => match o with | none => "exhausted" | some v => toString v.toNat)
  | _ => none

/-- run the calls left to right; the answer line = one token per call, `misuse` / `abort` if cut short, the call log -/
def rrun (E : Env) : List String → DSt St → List String → Option String
  | [], d, acc => some (" ".intercalate (acc.reverse ++ [trailer d.w.c]))
  | t :: ts, d, acc =>
    match rcall E t d with
    | none => none
    | some (.misuse c) => some (" ".intercalate (acc.reverse ++ ["misuse", trailer c]))
    | some (.assertFail c) => some (" ".intercalate (acc.reverse ++ ["abort", trailer c]))
    | some (.ok (o, d')) => rrun E ts d' (o :: acc)

def handleRngint (args : List String) : Option String :=
  match args with
  | [ent, times, pids, dev, calls] => do
    let ent ← parseEnt ent; let times ← parseTimes times; let pids ← parsePids pids
    if dev ≠ "ok" ∧ dev ≠ "fail" then none else
    let E := mkEnv ent times pids (dev = "ok")
    rrun E (calls.splitOn ",") { impl := some (internalImpl chacha20 E), w := St.init } []
  | _ => none

end RngInt

/-- `.h1/.h2/.h3` = the same operation after randombytes_close / randombytes_stir / both on the installed source:
    by the property the answer depends only on the bytes the installed source supplies -/
def baseOp (op : String) : String :=
  -- `.h<k>`, k = 1..15: bits 1 close, 2 stir, 4 another source (whose close hook reports failure) installed, used and closed before, 8 the scripted source has hooks
  match (op.splitOn ".h").reverse with
  | k :: rest@(_ :: _) => if k.length ≥ 1 ∧ k.length ≤ 2 ∧ k.all Char.isDigit then ".h".intercalate rest.reverse else op
  | _ => op

def handle (op0 : String) (args : List String) : Option String :=
  let op := baseOp op0
  match op, args with
  | "rng.uniform", [n, draws] => do
    let n ← parseNat? n; let ds ← parseDraws draws
    if n ≥ 2 ^ 32 then some badArgs else
    match randombytes_uniform (UInt32.ofNat n) ds with
    | none => some "exhausted"
    | some (v, k) => some s!"{v.toNat} {k}"
  | "rng.drg", [size, seed] => do
    let size ← parseNat? size; let seed ← ofHex seed
    match randombytes_buf_deterministic (Sodium.Driver.C03.chachaBi seed drgNonce) (Chacha.load32le drgNonce) size with
    | .misuse => some "misuse"
    | .ok o => some (toHex o)
  | "rng.drg.alias", [size, seed, off] => do
    -- the seed lives inside the output buffer: the result is still the keystream of the seed that was passed in
    let size ← parseNat? size; let seed ← ofHex seed; let off ← parseNat? off
    if off + 32 > size then some badArgs else
    match randombytes_buf_deterministic (Sodium.Driver.C03.chachaBi seed drgNonce) (Chacha.load32le drgNonce) size with
    | .misuse => some "misuse"
    | .ok o => some (toHex o)
  | "rng.drg_guard", [size] => do
    let size ← parseNat? size
    some (if size > 0x4000000000 then "misuse" else "proceeds")
  | "rng.gen", api :: script :: extra => do gen api (← ofHex script) extra
  | "rngint", args => some ((handleRngint args).getD badArgs)
  | _, _ => none

end Sodium.Driver.C18
