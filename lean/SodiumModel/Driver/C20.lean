import SodiumModel.Driver.Common
import SodiumModel.Model.Fault
import SodiumModel.Model.AllocLang
import SodiumModel.Model.AllocScenarios
namespace Sodium.Driver.C20
open Sodium Sodium.Model.Fault Sodium.Driver

def evStr : Ev → String
  | .alloc .malloc _ => "m" | .alloc .calloc _ => "c" | .alloc .mmap _ => "M"
  | .failed .malloc _ => "m!" | .failed .calloc _ => "c!" | .failed .mmap _ => "M!"
  | .release .mmap _ => "U" | .release _ _ => "f"

def oracle (mode : String) (i : Nat) : Nat → Bool :=
  if mode = "only" then fun j => j != i else if mode = "from" then fun j => j < i else fun _ => true

/-- every API name of the harness is run through the allocation skeleton GENERATED from the C source
    (`Generated/AllocProgs.lean`), under the valuation of the named inputs that describes the harness call -/
def genProg (api : String) : Option (Sodium.Model.AllocLang.Prog × List String × Bool) :=   -- (program, true inputs, prints str=)
  let G := Generated.AllocProgs.entries
  let find (n : String) := (G.find? (·.name == n)).map (·.prog)
  let S := Sodium.Model.AllocScenarios.raw
  match api with
  | "argon2id_raw" | "argon2id_raw65" => (find "crypto_pwhash_argon2id").map (·, S, false)
  | "argon2i_raw" | "argon2i_raw200" => (find "crypto_pwhash_argon2i").map (·, S, false)
  | "pwhash_raw" | "pwhash_raw16" => (find "crypto_pwhash").map (·, S, false)
  | "argon2id_str" => (find "crypto_pwhash_argon2id_str").map (·, Sodium.Model.AllocScenarios.str, true)
  | "argon2i_str" => (find "crypto_pwhash_argon2i_str").map (·, Sodium.Model.AllocScenarios.str, true)
  | "pwhash_str" => (find "crypto_pwhash_str").map (·, Sodium.Model.AllocScenarios.str, true)
  | "argon2id_verify_ok" => (find "crypto_pwhash_argon2id_str_verify").map (·, Sodium.Model.AllocScenarios.verify true true, false)
  | "argon2id_verify_wrong" => (find "crypto_pwhash_argon2id_str_verify").map (·, Sodium.Model.AllocScenarios.verify true false, false)
  | "argon2i_verify_ok" => (find "crypto_pwhash_argon2i_str_verify").map (·, Sodium.Model.AllocScenarios.verify true true, false)
  | "argon2i_verify_wrong" => (find "crypto_pwhash_argon2i_str_verify").map (·, Sodium.Model.AllocScenarios.verify true false, false)
  | "pwhash_verify_ok" => (find "crypto_pwhash_str_verify").map (·, Sodium.Model.AllocScenarios.verify true true, false)
  | "pwhash_verify_wrong" => (find "crypto_pwhash_str_verify").map (·, Sodium.Model.AllocScenarios.verify true false, false)
  | "argon2id_needs_rehash" => (find "crypto_pwhash_argon2id_str_needs_rehash").map (·, Sodium.Model.AllocScenarios.rehash 0, false)
  | "argon2id_needs_rehash_diff" => (find "crypto_pwhash_argon2id_str_needs_rehash").map (·, Sodium.Model.AllocScenarios.rehash 1, false)
  | "argon2i_needs_rehash" => (find "crypto_pwhash_argon2i_str_needs_rehash").map (·, Sodium.Model.AllocScenarios.rehash 0, false)
  | "pwhash_needs_rehash" => (find "crypto_pwhash_str_needs_rehash").map (·, Sodium.Model.AllocScenarios.rehash 0, false)
  | "scrypt_raw" => (find "crypto_pwhash_scryptsalsa208sha256").map (·, Sodium.Model.AllocScenarios.scrypt true, false)
  | "scrypt_ll" => (find "crypto_pwhash_scryptsalsa208sha256_ll").map (·, Sodium.Model.AllocScenarios.scrypt true, false)
  | "scrypt_str" => (find "crypto_pwhash_scryptsalsa208sha256_str").map (·, Sodium.Model.AllocScenarios.scrypt true, true)
  | "scrypt_verify_ok" => (find "crypto_pwhash_scryptsalsa208sha256_str_verify").map (·, Sodium.Model.AllocScenarios.scrypt true, false)
  | "scrypt_verify_wrong" => (find "crypto_pwhash_scryptsalsa208sha256_str_verify").map (·, Sodium.Model.AllocScenarios.scrypt false, false)
  | "sodium_malloc" => (find "sodium_malloc").map (·, Sodium.Model.AllocScenarios.guarded, false)
  | "sodium_allocarray" => (find "sodium_allocarray").map (·, Sodium.Model.AllocScenarios.guarded, false)
  | _ => none

/-- the run of the generated skeleton; for the two pointer-returning entry points the harness prints 0 / -1 -/
def genRun (api : String) (ok : Nat → Bool) : Option (Run × Bool) := do
  let (p, trues, isStr) ← genProg api
  let r := Sodium.Model.AllocLang.runWith ok (Sodium.Model.AllocScenarios.ιOf trues) p
  let rc := if api = "sodium_malloc" ∨ api = "sodium_allocarray" then (if r.rc = 0 then -1 else 0) else r.rc
  some (⟨rc, r.evs⟩, isStr)

def handle (op : String) (args : List String) : Option String :=
  match op, args with
  | "fault.run", api0 :: mode :: rest => do
    -- "<api>.m<bytes>": the same call with another memory limit; the allocation sequence does not depend on it
    let api := (api0.splitOn ".m").headD api0
    let i := (rest.head?.bind String.toNat?).getD 0
    let (r, isStr) ← genRun api (oracle mode i)
    let evs := String.join (r.evs.map evStr)
    let lv := if api = "sodium_malloc" ∨ api = "sodium_allocarray" then 0 else (live r.evs).length
    let extra := if isStr then (if r.rc = 0 then " str=produced" else " str=none") else ""
    some s!"rc={r.rc} ev={if evs.isEmpty then "-" else evs} live={lv}{extra}"
  | _, _ => none

end Sodium.Driver.C20
