import SodiumModel.Driver.Common
import SodiumModel.Model.Fault
namespace Sodium.Driver.C20
open Sodium Sodium.Model.Fault Sodium.Driver

def evStr : Ev → String
  | .alloc .malloc _ => "m" | .alloc .calloc _ => "c" | .alloc .mmap _ => "M"
  | .failed .malloc _ => "m!" | .failed .calloc _ => "c!" | .failed .mmap _ => "M!"
  | .release .mmap _ => "U" | .release _ _ => "f"

def oracle (mode : String) (i : Nat) : Nat → Bool :=
  if mode = "only" then fun j => j != i else if mode = "from" then fun j => j < i else fun _ => true

def prog (api : String) (ok : Nat → Bool) : Option (M Int × Bool) :=   -- (program, prints str=)
  match api with
  | "argon2id_raw" | "argon2i_raw" | "pwhash_raw" | "argon2id_raw65" | "argon2i_raw200" | "pwhash_raw16" => some (pwhash ok, false)
  | "argon2id_str" | "argon2i_str" | "pwhash_str" => some (pwhash ok, true)
  | "argon2id_verify_ok" | "argon2i_verify_ok" | "pwhash_verify_ok" => some (argon2Verify ok true true, false)
  | "argon2id_verify_wrong" | "argon2i_verify_wrong" | "pwhash_verify_wrong" => some (argon2Verify ok true false, false)
  | "argon2id_needs_rehash" | "argon2i_needs_rehash" | "pwhash_needs_rehash" => some (needsRehash ok 0, false)
  | "argon2id_needs_rehash_diff" => some (needsRehash ok 1, false)
  | "scrypt_raw" | "scrypt_ll" => some (scrypt ok true, false)
  | "scrypt_str" => some (scrypt ok true, true)
  | "scrypt_verify_ok" => some (scrypt ok true, false)
  | "scrypt_verify_wrong" => some (scrypt ok false, false)
  | "sodium_malloc" | "sodium_allocarray" => some (sodiumMalloc ok, false)
  | _ => none

def handle (op : String) (args : List String) : Option String :=
  match op, args with
  | "fault.run", api0 :: mode :: rest => do
    -- "<api>.m<bytes>": the same call with another memory limit; the allocation sequence does not depend on it
    let api := (api0.splitOn ".m").headD api0
    let i := (rest.head?.bind String.toNat?).getD 0
    let (p, isStr) ← prog api (oracle mode i)
    let r := run p
    let evs := String.join (r.evs.map evStr)
    let lv := if api = "sodium_malloc" ∨ api = "sodium_allocarray" then 0 else (live r.evs).length
    let extra := if isStr then (if r.rc = 0 then " str=produced" else " str=none") else ""
    some s!"rc={r.rc} ev={if evs.isEmpty then "-" else evs} live={lv}{extra}"
  | _, _ => none

end Sodium.Driver.C20
