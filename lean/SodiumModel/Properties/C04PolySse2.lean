import SodiumModel.Model.Poly1305Sse2
import SodiumModel.Spec.Poly1305
import SodiumModel.Proofs.Poly1305Sse2
import SodiumModel.Proofs.Poly1305Sse2Mac
import SodiumModel.Properties.C04Poly
/-
  C04 (Poly1305, SSE2 part) — the vectorised Poly1305 of
  crypto_onetimeauth/poly1305/sse2/poly1305_sse2.c (Model/Poly1305Sse2.lean: the implementation the
  library selects on this host; two interleaved accumulators in the two 64-bit lanes of five `__m128i`,
  26-bit limbs, `_mm_mul_epu32` products) against RFC 8439 §2.5 (Spec/Poly1305.lean).

  TRUSTED BASE.  The meaning of the SSE2 intrinsics is the transcription of the Intel SDM "Operation"
  pseudo-code in Model/Blake2bSimdIntrin.lean (reused: `M128` and its views, `_mm_add_epi64`,
  `_mm_srli_epi64`, `_mm_slli_epi64`, `_mm_shuffle_epi32`, `_mm_unpacklo_epi64`) and in
  Model/Poly1305Sse2.lean Part 1 (added: `_mm_setzero_si128`, `_mm_cvtsi32_si128`, `_mm_cvtsi128_si32`,
  `_mm_and_si128`, `_mm_or_si128`, `_mm_mul_epu32`, `_mm_srli_si128`, `_mm_unpacklo_epi32`,
  `_mm_unpackhi_epi32`, `_mm_loadl_epi64`, `_mm_loadu_si128` on bytes / on `uint32_t[4]`,
  `_mm_storeu_si128` / `_mm_storel_epi64` on `uint64_t`).  Nothing is proved ABOUT these definitions;
  they are validated against the real CPU by `simdcheck/poly1305sse2/run.sh` (and
  `simdcheck/blake2b/run.sh`).  Also assumed: `optblocker_u64 = 0` (a zero-initialised `volatile`
  never written) and the `addq/adcq` asm = `adc64`.

  Notation.  `lane j X` = 64-bit lane `j` of a register (`false` = bits 63:0); `hN j H` = the low
  32-bit halves of lane `j` of H0 … H4 (what `_mm_mul_epu32` reads), `toNat5 j H` = the full lanes;
  `kN j K` = the low halves of lane `j` of the multiplier registers R20 … R24 (resp. R40 … R44);
  `val26 l = l0 + l1·2^26 + l2·2^52 + l3·2^78 + l4·2^104`; `blkVal b` = the 16 bytes at `b`.
  Bounds: `RBound` (R, R2, R4: l0 … l3 < 2^26, l4 ≤ 2^26), `HBound` (H between blocks:
  l0, l2, l3 < 2^26, l1 < 2^26 + 2^8, l4 < 2^26 + 2^7).
-/
open Sodium Sodium.Model Sodium.Model.Poly1305Sse2 Sodium.Poly1305Sse2P
open Sodium.Model.Blake2bSimd (M128)
namespace Sodium.C04PolySse2

/-- 2^130 − 5 -/
abbrev p : Nat := Spec.Poly1305.p

/-! ### (1) poly1305_init_ext -/

/-- After `poly1305_init_ext(st, key, bytes)` (`effBytes` = `bytes` after `if (!bytes) bytes = ~0`):
    the limbs `R` are the clamped key half exactly, `R2` (computed iff `bytes > 16`) and `R4`
    (computed iff `bytes >= 96`) represent r^2 and r^4 modulo 2^130 − 5, all with limbs
    l0 … l3 < 2^26 and l4 ≤ 2^26 (the C comment "even if rt2 overflows, it will still fit in rp4
    safely": rt2 ≤ 2^42 is all the squaring guarantees); otherwise R2 / R4 KEEP THEIR PRIOR CONTENTS
    (uninitialised in the one-shot function); pad, H = 0, flags = 0, leftover = 0. -/
theorem init_ext_spec (st : State) (key : Bytes) (bytes : Nat) :
    RBound (nat5 (poly1305_init_ext st key bytes).R) ∧
    val26 (nat5 (poly1305_init_ext st key bytes).R) = Spec.Poly1305.clampR (le (key.take 16)) ∧
    (effBytes bytes > 16 → RBound (nat5 (poly1305_init_ext st key bytes).R2) ∧
      val26 (nat5 (poly1305_init_ext st key bytes).R2) % p = Spec.Poly1305.clampR (le (key.take 16)) ^ 2 % p) ∧
    (effBytes bytes ≥ 96 → RBound (nat5 (poly1305_init_ext st key bytes).R4) ∧
      val26 (nat5 (poly1305_init_ext st key bytes).R4) % p = Spec.Poly1305.clampR (le (key.take 16)) ^ 4 % p) ∧
    (effBytes bytes ≤ 16 → (poly1305_init_ext st key bytes).R2 = st.R2) ∧
    (effBytes bytes < 96 → (poly1305_init_ext st key bytes).R4 = st.R4) ∧
    (poly1305_init_ext st key bytes).pad.1.toNat + 2 ^ 64 * (poly1305_init_ext st key bytes).pad.2.toNat
      = le ((key.drop 16).take 16) ∧
    (poly1305_init_ext st key bytes).H = ⟨0, 0, 0, 0, 0⟩ ∧ (poly1305_init_ext st key bytes).flags = 0 ∧
    (poly1305_init_ext st key bytes).buffer = [] :=
  init_ext_spec_aux st key bytes

/-- No overflow in the squaring: for rt0, rt1 < 2^44, rt2 ≤ 2^42 (`Rt44`) the three `uint128_t`
    accumulators d[0 … 2] computed with wrapping 64-bit products `rt1 * 2`, `rt2 * (5 << 2)` and
    128-bit `MUL`/`ADD` reduced mod 2^128 are the exact natural-number expressions. -/
theorem r_square_no_overflow (x0 x1 x2 : UInt64) (h : Rt44 (x0, x1, x2)) :
    sqD x0 x1 x2 = (x0.toNat * x0.toNat + 40 * (x1.toNat * x2.toNat),
      20 * (x2.toNat * x2.toNat) + 2 * (x0.toNat * x1.toNat),
      x1.toNat * x1.toNat + 2 * (x2.toNat * x0.toNat)) :=
  sqD_spec x0 x1 x2 h

/-- one squaring: the limb bounds `Rt44` are preserved and the value is squared modulo 2^130 − 5 -/
theorem r_square_spec (x0 x1 x2 : UInt64) (h : Rt44 (x0, x1, x2)) :
    Rt44 (r_square x0 x1 x2) ∧
    ∃ k, PolyDonnaP.val (r_square x0 x1 x2) + (2 ^ 130 - 5) * k
      = PolyDonnaP.val (x0, x1, x2) * PolyDonnaP.val (x0, x1, x2) :=
  Poly1305Sse2P.r_square_spec x0 x1 x2 h

/-- the 44/44/42 → 26-bit limb conversion is exact; the top limb is `rt2 >> 16` -/
theorem r_limbs_spec (x0 x1 x2 : UInt64) (h : Rt44 (x0, x1, x2)) :
    RBound (nat5 (r_limbs x0 x1 x2)) ∧ val26 (nat5 (r_limbs x0 x1 x2)) = PolyDonnaP.val (x0, x1, x2) ∧
    (nat5 (r_limbs x0 x1 x2)).l4 = x2.toNat / 2 ^ 16 :=
  Poly1305Sse2P.r_limbs_spec x0 x1 x2 h

/-! ### (2) one iteration of the 64-byte main loop -/

/-- the multiplier registers built by `poly1305_blocks` from a state whose `R2` / `R4` satisfy
    `RBound` satisfy the hypotheses of the lane theorems (`[r^2, r^2]` case, and R4) -/
theorem multipliers_ok (j : Bool) (st : State) (flags : UInt64)
    (hf : flags &&& (poly1305_final_r2_r ||| poly1305_final_r_1) = 0)
    (h2 : RBound (nat5 st.R2)) (h4 : RBound (nat5 st.R4)) :
    kN j (blocks_load_R2 st flags) = nat5 st.R2 ∧ SOK j (blocks_load_R2 st flags) ∧
    kN j (blocks_load_R4 st) = nat5 st.R4 ∧ SOK j (blocks_load_R4 st) :=
  ⟨load_R2_plain j st flags hf, SOK_load_R2 j st flags (by rw [load_R2_plain j st flags hf]; exact h2),
   load_R4_lane j st, SOK_load_R4 j st (by rw [load_R4_lane]; exact h4)⟩

/-- The lane recurrence of the loop body `H = H·[r^4,r^4] + [Mx,My]·[r^2,r^2] + [Mx',My']`.
    Lane `j` (`false`: bytes 0‥16 and 32‥48 of the 64, `true`: bytes 16‥32 and 48‥64): if the lane
    of H has limbs within `HBound` and represents h, then the new lane is within `HBound` again and
    represents  h·k4 + (m_j + hibit)·k2 + (m_{2+j} + hibit)  modulo 2^130 − 5, where k2, k4 are
    the values of the multiplier lanes (r^2, r^4 by (1)). -/
theorem main_loop_lane (j : Bool) (HIBIT : M128) (K2 K4 : Mult) (H : L5 M128) (m : Bytes)
    (hS2 : SOK j K2) (hS4 : SOK j K4) (hk2 : RBound (kN j K2)) (hk4 : RBound (kN j K4))
    (hh : HBound (hN j H)) (hH : HibOK j HIBIT) :
    HBound (toNat5 j (blocks_main_body HIBIT K2 K4 H m)) ∧
    ∃ k, val26 (toNat5 j (blocks_main_body HIBIT K2 K4 H m)) + (2 ^ 130 - 5) * k =
      val26 (hN j H) * val26 (kN j K4)
      + (blkVal (blk j (m.drop 0) (m.drop 16)) + (lane j HIBIT).toNat * 2 ^ 104) * val26 (kN j K2)
      + (blkVal (blk j (m.drop 32) (m.drop 48)) + (lane j HIBIT).toNat * 2 ^ 104) :=
  main_body_lane j HIBIT K2 K4 H m hS2 hS4 hk2 hk4 hh hH

/-- No overflow / no truncation in the loop body, part 1: under the limb bounds every one of the 50
    `_mm_mul_epu32` reads operands that fit 32 bits and all 53 `_mm_add_epi64` are exact: the five
    accumulators before `reduce` equal the schoolbook sums over unbounded naturals. -/
theorem main_loop_no_overflow (j : Bool) (K2 K4 : Mult) (H Mlo Mhi : L5 M128) (hS2 : SOK j K2) (hS4 : SOK j K4)
    (hh : Lt5 (hN j H) (2 ^ 27)) (hm : Lt5 (hN j Mlo) (2 ^ 27))
    (hk2 : Lt5 (kN j K2) (2 ^ 26 + 1)) (hk4 : Lt5 (kN j K4) (2 ^ 26 + 1))
    (hhi : Lt5 (toNat5 j Mhi) (2 ^ 50)) :
    toNat5 j (main_pre_core K2 K4 H Mlo Mhi) =
      add5N (add5N (mulNat (hN j H) (kN j K4)) (toNat5 j Mhi)) (mulNat (hN j Mlo) (kN j K2)) :=
  main_pre_lane j K2 K4 H Mlo Mhi hS2 hS4 hh hm hk2 hk4 hhi

/-- … part 2: the loop body is `reduce` of those accumulators (definitional), and `reduce` on
    accumulators below 2^58 (T3, T4 below 2^57) is the carry chain over unbounded naturals — in
    particular the carry `C2` that goes through `_mm_mul_epu32(C2, FIVE)` fits 32 bits — re-establishing
    `HBound`, the value changing by a multiple of 2^130 − 5. -/
theorem reduce_no_overflow (j : Bool) (T : L5 M128) (hT : TBound (toNat5 j T)) :
    toNat5 j (blocks_reduce T) = reduceNat (toNat5 j T) ∧ HBound (reduceNat (toNat5 j T)) ∧
    val26 (reduceNat (toNat5 j T))
      + (2 ^ 130 - 5) * (((toNat5 j T).l4 + (toNat5 j T).l3 / 2 ^ 26) / 2 ^ 26) = val26 (toNat5 j T) :=
  ⟨reduce_lane j T hT, (reduceNat_spec _ hT).1, (reduceNat_spec _ hT).2⟩

theorem main_loop_body_eq (HIBIT : M128) (K2 K4 : Mult) (H : L5 M128) (m : Bytes) :
    blocks_main_body HIBIT K2 K4 H m =
      blocks_reduce (main_pre_core K2 K4 H (msg_lo HIBIT m) (msg_hi HIBIT (m.drop 32) (m.drop 48))) :=
  main_body_eq HIBIT K2 K4 H m

/-- the `if (bytes >= 32)` block with a message: lane `j` becomes h·k2 + (m_j + hibit) -/
theorem tail_lane (j : Bool) (HIBIT : M128) (K2 : Mult) (H : L5 M128) (m : Bytes)
    (hS2 : SOK j K2) (hk2 : RBound (kN j K2)) (hh : HBound (hN j H)) (hH : HibOK j HIBIT) :
    HBound (toNat5 j (blocks_tail HIBIT K2 H (some m))) ∧
    ∃ k, val26 (toNat5 j (blocks_tail HIBIT K2 H (some m))) + (2 ^ 130 - 5) * k =
      val26 (hN j H) * val26 (kN j K2)
      + (blkVal (blk j (m.drop 0) (m.drop 16)) + (lane j HIBIT).toNat * 2 ^ 104) :=
  tail_some_lane j HIBIT K2 H m hS2 hk2 hh hH

/-- the first call: `H = [Mx,My]`, lane `j` is the 26-bit limbs of block `j` plus the hibit -/
theorem first_block_lane (j : Bool) (HIBIT : M128) (m : Bytes) (hH : HibOK j HIBIT) :
    Lt5 (toNat5 j (blocks_first HIBIT m)) (2 ^ 26) ∧
    val26 (toNat5 j (blocks_first HIBIT m))
      = blkVal (blk j (m.drop 0) (m.drop 16)) + (lane j HIBIT).toNat * 2 ^ 104 :=
  first_val j HIBIT m hH

/-- H0 … H4 loaded from / stored to `st->H.hh[0 … 9]`: lane `j` is `stN j st.H` -/
theorem load_store_H (j : Bool) (st : State) (H : L5 M128) :
    hN j (blocks_load_H st) = stN j st.H ∧ stN j (blocks_store_H H) = hN j H :=
  ⟨load_H_lane j st, store_H_lane j H⟩

/-! ### (3) the combination in `poly1305_finish_ext` -/

/-- The final call `poly1305_blocks(st, NULL, 32)` (flags: started, and `final_r2_r` or `final_r_1`):
    lane 0 is multiplied by r^2 (resp. r), lane 1 by r (resp. 1) — `finalK` —, the lanes are added,
    fully carried and `h − p` is selected iff h ≥ p: `st->H.h[0 … 2]` are 44/44/42-bit limbs of the
    CANONICAL residue (a·k_a + b·k_b) mod (2^130 − 5). -/
theorem final_mul_spec (st : State) (hs : st.flags &&& poly1305_started ≠ 0)
    (hf : st.flags &&& (poly1305_final_r2_r ||| poly1305_final_r_1) ≠ 0)
    (hA : HBound (stN false st.H)) (hB : HBound (stN true st.H))
    (hR : RBound (nat5 st.R)) (hR2 : st.flags &&& poly1305_final_r2_r ≠ 0 → RBound (nat5 st.R2)) :
    (poly1305_blocks st none 32).H.l0.toNat < 2 ^ 44 ∧ (poly1305_blocks st none 32).H.l1.toNat < 2 ^ 44 ∧
    (poly1305_blocks st none 32).H.l2.toNat < 2 ^ 42 ∧
    PolyDonnaP.val ((poly1305_blocks st none 32).H.l0, (poly1305_blocks st none 32).H.l1,
        (poly1305_blocks st none 32).H.l2) =
      (val26 (stN false st.H) * val26 (finalK st false) + val26 (stN true st.H) * val26 (finalK st true))
        % (2 ^ 130 - 5) ∧
    (poly1305_blocks st none 32).pad = st.pad :=
  blocks_null_spec st hs hf hA hB hR hR2

/-- the lane addition, the `uint32_t` carry chain, the repacking to 44/44/42-bit limbs, the two
    carry rounds and the selection (through `optblocker_u64`) on their own -/
theorem final_reduce_spec (H : L5 M128) (old : L5 UInt64)
    (hA : HBound (toNat5 false H)) (hB : HBound (toNat5 true H)) :
    (blocks_final_H H old).l0.toNat < 2 ^ 44 ∧ (blocks_final_H H old).l1.toNat < 2 ^ 44 ∧
    (blocks_final_H H old).l2.toNat < 2 ^ 42 ∧
    PolyDonnaP.val ((blocks_final_H H old).l0, (blocks_final_H H old).l1, (blocks_final_H H old).l2)
      = (val26 (toNat5 false H) + val26 (toNat5 true H)) % (2 ^ 130 - 5) :=
  final_H_spec H old hA hB

/-- `+ pad mod 2^128`: the repacking to two 64-bit words, `addq/adcq` and the two stores -/
theorem pad_add_spec (h0 h1 h2 : UInt64) (pad : UInt64 × UInt64)
    (b0 : h0.toNat < 2 ^ 44) (b1 : h1.toNat < 2 ^ 44) (b2 : h2.toNat < 2 ^ 42) :
    finish_tail h0 h1 h2 pad =
      toLE 16 ((PolyDonnaP.val (h0, h1, h2) + (pad.1.toNat + 2 ^ 64 * pad.2.toNat)) % 2 ^ 128) :=
  finish_tail_spec h0 h1 h2 pad b0 b1 b2

/-! ### (4)/(5) first part: the Horner invariant of `poly1305_blocks` over any number of blocks
    (the padded last block, the buffering invariant and the end-to-end theorems follow below) -/

/-- `poly1305_blocks(st, m, bytes)` on message data, for EVERY positive multiple of 32 and any mix
    of the first-call initialisation, 64-byte iterations and the 32-byte remainder: if the state is
    fresh (flags = 0) or `started` with lanes (a, b) within `HBound`, then afterwards `started` is
    set, the lanes are within `HBound`, R / R2 / R4 / pad / buffer are unchanged and, in
    `ZMod (2^130 − 5)`,
        a'·r^2 + b'·r  =  the RFC 8439 accumulator ((A + c_0)·r + c_1)·r … over the `bytes/16` blocks
    of `m` (each with its 2^128 bit), starting from A = a·r^2 + b·r (resp. 0).  R2 has to represent
    r^2 only when it is used (`started` or `bytes ≥ 64`), R4 only when the 64-byte loop runs — exactly
    the cases in which `poly1305_init_ext` computes them for the one-shot call. -/
theorem blocks_horner_invariant (r : F) (st : State) (m : Bytes) (bytes : Nat)
    (hfl : st.flags = 0 ∨ st.flags = 1) (hb : bytes % 32 = 0) (hb1 : 32 ≤ bytes)
    (hst : st.flags = 1 → HBst st)
    (hR2 : (st.flags = 1 ∨ bytes ≥ 64) → RBound (nat5 st.R2) ∧ vF (nat5 st.R2) = r ^ 2)
    (hR4 : ((st.flags = 1 ∧ bytes ≥ 64) ∨ bytes ≥ 96) → RBound (nat5 st.R4) ∧ vF (nat5 st.R4) = r ^ 4) :
    (poly1305_blocks st (some m) bytes).flags = 1 ∧ HBst (poly1305_blocks st (some m) bytes) ∧
    (poly1305_blocks st (some m) bytes).R = st.R ∧ (poly1305_blocks st (some m) bytes).R2 = st.R2 ∧
    (poly1305_blocks st (some m) bytes).R4 = st.R4 ∧ (poly1305_blocks st (some m) bytes).pad = st.pad ∧
    (poly1305_blocks st (some m) bytes).buffer = st.buffer ∧
    AFst r (poly1305_blocks st (some m) bytes) =
      horner16 r (bytes / 16) (if st.flags = 1 then AFst r st else 0) m :=
  blocks_data_spec r st m bytes hfl hb hb1 hst hR2 hR4

/-- one 64-byte iteration = four Horner steps of the specification -/
theorem main_loop_horner (r : F) (K2 K4 : Mult) (k2 k4 : L5 Nat) (h2 : MultOK K2 k2) (h4 : MultOK K4 k4)
    (e2 : vF k2 = r ^ 2) (e4 : vF k4 = r ^ 4) (H : L5 M128) (m : Bytes) (hH : HB H) :
    HB (blocks_main_body HIBIT0 K2 K4 H m) ∧
    AF r (blocks_main_body HIBIT0 K2 K4 H m) = horner16 r 4 (AF r H) m :=
  body_F r K2 K4 k2 k4 h2 h4 e2 e4 H m hH

/-! ### examples (non-vacuity; kernel-evaluated) -/

/-- RFC 8439 §2.5.2 -/
def rfcKey : Bytes :=
  [0x85, 0xd6, 0xbe, 0x78, 0x57, 0x55, 0x6d, 0x33, 0x7f, 0x44, 0x52, 0xfe, 0x42, 0xd5, 0x06, 0xa8,
   0x01, 0x03, 0x80, 0x8a, 0xfb, 0x0d, 0xb2, 0xfd, 0x4a, 0xbf, 0xf6, 0xaf, 0x41, 0x49, 0xf5, 0x1b]
def rfcMsg : Bytes :=
  [0x43, 0x72, 0x79, 0x70, 0x74, 0x6f, 0x67, 0x72, 0x61, 0x70, 0x68, 0x69, 0x63, 0x20, 0x46, 0x6f,
   0x72, 0x75, 0x6d, 0x20, 0x52, 0x65, 0x73, 0x65, 0x61, 0x72, 0x63, 0x68, 0x20, 0x47, 0x72, 0x6f,
   0x75, 0x70]
def rfcTag : Bytes :=
  [0xa8, 0x06, 0x1d, 0xc1, 0x30, 0x51, 0x36, 0xc6, 0xc2, 0x2b, 0x8b, 0xaf, 0x0c, 0x01, 0x27, 0xa9]
/-- two different "prior contents" of the state (`st` uninitialised in the one-shot function) -/
def junk0 : State := ⟨⟨0, 0, 0, 0, 0⟩, ⟨0, 0, 0, 0, 0⟩, ⟨0, 0, 0, 0, 0⟩, ⟨0, 0, 0, 0, 0⟩, (0, 0), 0, []⟩
def junk1 : State :=
  ⟨⟨0xdeadbeefdeadbeef, 1, 2, 3, 4⟩, ⟨0xffffffff, 0xffffffff, 0xffffffff, 0xffffffff, 0xffffffff⟩,
   ⟨0xffffffff, 0xdeadbeef, 0xffffffff, 0xffffffff, 0xffffffff⟩,
   ⟨0xdeadbeef, 0xffffffff, 0xffffffff, 0xffffffff, 0xffffffff⟩, (5, 6), 0xffff, [1, 2, 3]⟩

example : mac junk0 rfcKey rfcMsg = rfcTag := by decide +kernel
example : mac junk1 rfcKey rfcMsg = rfcTag := by decide +kernel
example : macChunks junk1 rfcKey [rfcMsg.take 3, [], (rfcMsg.drop 3).take 20, rfcMsg.drop 23] = rfcTag := by
  decide +kernel
/-- a 7-byte message: `poly1305_init_ext` leaves R2 untouched (junk) and `poly1305_blocks` loads it -/
example : (poly1305_init_ext junk1 rfcKey 7).R2 = junk1.R2 := by decide +kernel
example : mac junk1 rfcKey (rfcMsg.take 7) = Spec.Poly1305.mac rfcKey (rfcMsg.take 7) := by decide +kernel
example : mac junk0 rfcKey (rfcMsg.take 7) = mac junk1 rfcKey (rfcMsg.take 7) := by decide +kernel
/-- the hypotheses of the lane theorems are satisfiable: the state after init has valid R, R2, R4 -/
example : RBound (nat5 (init junk1 rfcKey).R2) ∧ RBound (nat5 (init junk1 rfcKey).R4) :=
  ⟨((init_ext_spec junk1 rfcKey 0).2.2.1 (by decide)).1, ((init_ext_spec junk1 rfcKey 0).2.2.2.1 (by decide)).1⟩
example : HibOK false HIBIT0 ∧ HibOK true HIBIT0 := ⟨hibOK0 false, hibOK0 true⟩

/-! ### (3) continued: the padded last block and the whole of `poly1305_finish_ext` -/

/-- `poly1305_block_copy31(final, m, leftover)` into the zeroed 32-byte `final` copies exactly
    `leftover` (< 32) bytes -/
theorem block_copy31_spec (t : Bytes) (L : Nat) (hL : L < 32) (ht : t.length = L) :
    poly1305_block_copy31 (zeros 32) t L = t ++ zeros (32 - L) :=
  copy31_spec t L hL ht

/-- The padded last block (`poly1305_blocks(st, final, 32)` with `final_shift8` / `final_shift16`):
    for `0 < L < 32` leftover bytes `t`, from flags = 0 or `started`, the lanes become
    (a·r^2 + x_a, b·r^2 + x_b) (resp. (x_a, x_b) before the first block), where for L ≤ 16
    x_a = the chunk `t` with its 0x01 padding (no hibit for L < 16, the 2^128 hibit and no 0x01 for
    L = 16) and x_b = 0, and for L > 16 x_a = the full block `t[0..16)` with hibit and x_b = the
    padded chunk `t[16..L)`: exactly the chunk values of RFC 8439.  `started` is set, flags = 5 or 9. -/
theorem last_block_spec (r : F) (st : State) (t : Bytes) (L : Nat) (h0 : 0 < L) (hL : L < 32) (ht : t.length = L)
    (hfl : st.flags = 0 ∨ st.flags = 1) (hst : st.flags = 1 → HBst st)
    (hR2 : st.flags = 1 → RBound (nat5 st.R2) ∧ vF (nat5 st.R2) = r ^ 2) :
    ((fin1 st t L).flags = 5 ∨ (fin1 st t L).flags = 9) ∧ HBst (fin1 st t L) ∧
    (fin1 st t L).R = st.R ∧ (fin1 st t L).R2 = st.R2 ∧ (fin1 st t L).pad = st.pad ∧
    vF (stN false (fin1 st t L).H) = laneF st false * r ^ 2 + (if L ≤ 16 then chunkF t else chunkF (t.take 16)) ∧
    vF (stN true (fin1 st t L).H) = laneF st true * r ^ 2 + (if L ≤ 16 then 0 else chunkF (t.drop 16)) :=
  fin1_spec r st t L h0 hL ht hfl hst hR2

/-- `poly1305_finish_ext` is the padded last block (`fin1`), the final multiplication (`fin2`) and
    the pad addition (definitional) -/
theorem finish_ext_stages (st : State) (t : Bytes) (L : Nat) :
    poly1305_finish_ext st t L =
      finish_tail (fin2 (fin1 st t L) L).H.l0 (fin2 (fin1 st t L) L).H.l1 (fin2 (fin1 st t L) L).H.l2
        (fin2 (fin1 st t L) L).pad :=
  finish_ext_eq st t L

/-- `poly1305_finish_ext(st, t, L)` (`L = |t| < 32`) from a fresh state (flags = 0, H = 0) or a
    `started` one whose lanes stand for the accumulator A: the tag is ((X mod p) + pad) mod 2^128
    with X ≡ A advanced over the (at most two, possibly short) chunks of `t` as in RFC 8439. -/
theorem finish_ext_spec (r : F) (s : Nat) (st : State) (A : F) (t : Bytes) (L : Nat)
    (hL : L < 32) (ht : t.length = L) (hfl : st.flags = 0 ∨ st.flags = 1)
    (h0 : st.flags = 0 → st.H.l0 = 0 ∧ st.H.l1 = 0 ∧ st.H.l2 = 0 ∧ A = 0)
    (h1 : st.flags = 1 → HBst st ∧ AFst r st = A)
    (hR : RBound (nat5 st.R) ∧ vF (nat5 st.R) = r)
    (hR2 : (st.flags = 1 ∨ L > 16) → RBound (nat5 st.R2) ∧ vF (nat5 st.R2) = r ^ 2)
    (hp : st.pad.1.toNat + 2 ^ 64 * st.pad.2.toNat = s) :
    ∃ X : Nat, (X : F) = hornerF r 2 A t ∧
      poly1305_finish_ext st t L = toLE 16 ((X % (2 ^ 130 - 5) + s) % 2 ^ 128) :=
  Poly1305Sse2P.finish_ext_spec r s st A t L hL ht hfl h0 h1 hR hR2 hp

/-! ### (4) buffering: any chunking through `poly1305_update` -/

/-- the state after `crypto_onetimeauth_poly1305_sse2_init` satisfies the streaming invariant for
    the empty message, whatever the prior contents of the caller's state -/
theorem init_invariant (st : State) (key : Bytes) : StreamInv key (init st key) [] :=
  init_inv st key

/-- `poly1305_update` preserves the streaming invariant (`StreamInv key st M`: R, R2, R4, pad are
    the key's; the last `leftover < 32` bytes of M are in the buffer; `32·n` bytes have been
    absorbed and the lanes stand for the RFC 8439 accumulator over them): absorbing `c` after `M`
    is having absorbed `M ++ c`, for every chunk length and every buffer fill -/
theorem update_invariant (key : Bytes) (st : State) (M c : Bytes) (h : StreamInv key st M) :
    StreamInv key (update st c) (M ++ c) :=
  update_inv key st M c h

/-- from the invariant, `final` gives the specification's tag -/
theorem final_of_invariant (key : Bytes) (st : State) (M : Bytes) (h : StreamInv key st M) :
    final st = Spec.Poly1305.mac key M :=
  final_spec key st M h

/-! ### (5) end to end -/

/-- `crypto_onetimeauth_poly1305_sse2` = RFC 8439 §2.5 for every key, every message and EVERY prior
    content `st` of the uninitialised stack state (so the indeterminate R2 / R4 that
    `poly1305_init_ext` leaves and `poly1305_blocks` loads never influence the tag). -/
theorem sse2_mac_eq_spec (st : State) (key msg : Bytes) : mac st key msg = Spec.Poly1305.mac key msg :=
  mac_eq_spec_aux st key msg

/-- init / update … / final with ANY chunking = RFC 8439 §2.5 on the concatenation -/
theorem sse2_mac_chunks (st : State) (key : Bytes) (cs : List Bytes) :
    macChunks st key cs = Spec.Poly1305.mac key cs.flatten :=
  macChunks_eq_spec_aux st key cs

/-- (4) any chunking = the one-shot function (each from arbitrary prior state contents) -/
theorem sse2_chunks_eq_oneshot (st st' : State) (key : Bytes) (cs : List Bytes) :
    macChunks st key cs = mac st' key cs.flatten := by
  rw [sse2_mac_chunks, sse2_mac_eq_spec]

/-- the tag does not depend on the prior (indeterminate) contents of the state -/
theorem sse2_mac_junk_independent (st st' : State) (key msg : Bytes) : mac st key msg = mac st' key msg := by
  rw [sse2_mac_eq_spec, sse2_mac_eq_spec]

/-- the SSE2 model and the donna64 model compute the same function -/
theorem sse2_eq_donna64 (st : State) (key msg : Bytes) : mac st key msg = Poly1305Donna.mac key msg := by
  rw [sse2_mac_eq_spec, C04Poly.donna64_mac_oneshot]

/-- `crypto_onetimeauth_poly1305_sse2_verify` (through the proved `crypto_verify_16` model of
    Model/Utils.lean): returns 0 exactly for the specification's tag and −1 for every other 16 bytes -/
theorem sse2_verify_spec (st : State) (h msg key : Bytes) (hh : h.length = 16) :
    verify st h msg key = if h = Spec.Poly1305.mac key msg then 0 else -1 :=
  verify_spec_aux st h msg key hh

theorem sse2_verify_accepts (st : State) (msg key : Bytes) :
    verify st (mac st key msg) msg key = 0 := by
  rw [sse2_verify_spec st _ msg key (by rw [sse2_mac_eq_spec]; exact spec_mac_length key msg),
    sse2_mac_eq_spec, if_pos rfl]

/-- the tag is always 16 bytes -/
theorem sse2_mac_length (st : State) (key msg : Bytes) : (mac st key msg).length = 16 := by
  rw [sse2_mac_eq_spec]; exact spec_mac_length key msg

end Sodium.C04PolySse2
