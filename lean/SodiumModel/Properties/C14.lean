import SodiumModel.Proofs.Utils
/-
  C14 — constant-time helpers compute exact comparisons and little-endian arithmetic.
  Property theorems only; helper lemmas live in `Proofs/Utils.lean`.
  All statements quantify over every buffer and every length.
-/
open Sodium Sodium.Model
namespace Sodium.C14

/-- `sodium_memcmp` returns 0 iff the buffers are equal and -1 otherwise. -/
theorem memcmp_exact (a b : Bytes) (h : a.length = b.length) :
    sodium_memcmp a b = if a = b then 0 else -1 := by
  have := orXor_eq_zero a b 0 h
  simp only [true_and] at this
  rw [sodium_memcmp, memcmpFinal_eq]; simp only [this]

/-- `sodium_is_zero` returns 1 iff every byte is zero, else 0. -/
theorem is_zero_exact (n : Bytes) :
    sodium_is_zero n = if n = zeros n.length then 1 else 0 := by
  have := orAll_eq_zero n 0
  simp only [true_and] at this
  rw [sodium_is_zero, isZeroFinal_eq]; simp only [this]

/-- generic `crypto_verify_n` body, any n -/
theorem verify_generic_exact (x y : Bytes) (h : x.length = y.length) :
    verify_n_generic x y = if x = y then 0 else -1 := by
  have hs := orXor16_spec x y 0 h
  have h1 := hs.1; simp only [true_and] at h1
  rw [verify_n_generic, verifyFinal16_spec _ (hs.2 (by decide))]; simp only [h1]

/-- SSE2 `crypto_verify_n` body for n = 16, 32, 64 -/
theorem verify_sse2_exact (n : Nat) (hn : n = 16 ∨ n = 32 ∨ n = 64) (x y : Bytes)
    (hx : x.length = n) (hy : y.length = n) :
    verify_n_sse2 (n / 16) x y = if x = y then 0 else -1 := by
  rcases hn with rfl | rfl | rfl
  · exact verify_n_sse2_spec 1 (by decide) x y hx hy
  · exact verify_n_sse2_spec 2 (by decide) x y hx hy
  · exact verify_n_sse2_spec 4 (by decide) x y hx hy

/-- both bodies of `crypto_verify_{16,32,64}` agree with equality -/
theorem verify_n_exact (n : Nat) (hn : n = 16 ∨ n = 32 ∨ n = 64) (x y : Bytes)
    (hx : x.length = n) (hy : y.length = n) :
    verify_n_sse2 (n / 16) x y = (if x = y then 0 else -1) ∧
    verify_n_generic x y = (if x = y then 0 else -1) :=
  ⟨verify_sse2_exact n hn x y hx hy, verify_generic_exact x y (by omega)⟩

/-- `sodium_compare` is the sign of the little-endian numeric difference -/
theorem compare_exact (a b : Bytes) (h : a.length = b.length) :
    sodium_compare a b = if le a < le b then -1 else if le a = le b then 0 else 1 :=
  compare_spec a b h

/-! #### increment / add / sub : generic loop -/

theorem increment_generic_exact (n : Bytes) :
    (sodium_increment_generic n).length = n.length ∧
    le (sodium_increment_generic n) = (le n + 1) % 2 ^ (8 * n.length) := by
  refine ⟨incLoop_length 1 n, ?_⟩
  rw [increment_generic_le, Nat.pow_mul]

theorem add_generic_exact (a b : Bytes) (h : a.length = b.length) :
    (sodium_add_generic a b).length = a.length ∧
    le (sodium_add_generic a b) = (le a + le b) % 2 ^ (8 * a.length) := by
  refine ⟨addLoop_length 0 a b h, ?_⟩
  rw [add_generic_le a b h, Nat.pow_mul]

theorem sub_generic_exact (a b : Bytes) (h : a.length = b.length) :
    (sodium_sub_generic a b).length = a.length ∧
    le (sodium_sub_generic a b) = (le a + 2 ^ (8 * a.length) - le b) % 2 ^ (8 * a.length) := by
  refine ⟨subLoop_length 0 a b h, ?_⟩
  rw [sub_generic_le a b h, Nat.pow_mul]

/-! #### the amd64 fast paths compute the same bytes as the generic loop -/

theorem increment_asm8_eq (n : Bytes) (h : n.length = 8) :
    increment_asm8 n = sodium_increment_generic n := by
  have := increment_asm8_le n h
  apply le_inj _ _ (by rw [this.1]; simp [sodium_increment_generic, incLoop_length, h])
  rw [this.2, increment_generic_le, h]

theorem increment_asm12_eq (n : Bytes) (h : n.length = 12) :
    increment_asm12 n = sodium_increment_generic n := by
  have := increment_asm12_le n h
  apply le_inj _ _ (by rw [this.1]; simp [sodium_increment_generic, incLoop_length, h])
  rw [this.2, increment_generic_le, h]

theorem increment_asm24_eq (n : Bytes) (h : n.length = 24) :
    increment_asm24 n = sodium_increment_generic n := by
  have := increment_asm24_le n h
  apply le_inj _ _ (by rw [this.1]; simp [sodium_increment_generic, incLoop_length, h])
  rw [this.2, increment_generic_le, h]

theorem add_asm8_eq (a b : Bytes) (ha : a.length = 8) (hb : b.length = 8) :
    add_asm8 a b = sodium_add_generic a b := by
  have := add_asm8_le a b ha hb
  apply le_inj _ _ (by rw [this.1]; simp [sodium_add_generic, addLoop_length 0 a b (by omega), ha])
  rw [this.2, add_generic_le a b (by omega), ha]

theorem add_asm12_eq (a b : Bytes) (ha : a.length = 12) (hb : b.length = 12) :
    add_asm12 a b = sodium_add_generic a b := by
  have := add_asm12_le a b ha hb
  apply le_inj _ _ (by rw [this.1]; simp [sodium_add_generic, addLoop_length 0 a b (by omega), ha])
  rw [this.2, add_generic_le a b (by omega), ha]

theorem add_asm24_eq (a b : Bytes) (ha : a.length = 24) (hb : b.length = 24) :
    add_asm24 a b = sodium_add_generic a b := by
  have := add_asm24_le a b ha hb
  apply le_inj _ _ (by rw [this.1]; simp [sodium_add_generic, addLoop_length 0 a b (by omega), ha])
  rw [this.2, add_generic_le a b (by omega), ha]

theorem sub_asm64_eq (a b : Bytes) (ha : a.length = 64) (hb : b.length = 64) :
    sub_asm64 a b = sodium_sub_generic a b := by
  obtain ⟨bo, hbo, h⟩ := sbbChain_le 8 false a b ha hb
  have hlen : (sub_asm64 a b).length = 64 := sbbChain_length 8 false a b
  have hr := le_lt (sub_asm64 a b)
  have hb' := le_lt b
  have ha' := le_lt a
  rw [hlen] at hr; rw [hb] at hb'; rw [ha] at ha'
  apply le_inj _ _ (by rw [hlen]; simp [sodium_sub_generic, subLoop_length 0 a b (by omega), ha])
  rw [sub_generic_le a b (by omega), ha]
  simp only [sub_asm64] at hr ⊢
  simp at h
  have hbo' : bo = 0 ∨ bo = 1 := by omega
  rcases hbo' with rfl | rfl <;> simp at h <;> omega

/-- the length dispatch as compiled with HAVE_AMD64_ASM equals the generic loop for every length -/
theorem increment_amd64_eq_generic (n : Bytes) :
    sodium_increment_amd64 n = sodium_increment_generic n := by
  unfold sodium_increment_amd64
  split
  · exact increment_asm12_eq n ‹_›
  · split
    · exact increment_asm24_eq n ‹_›
    · split
      · exact increment_asm8_eq n ‹_›
      · rfl

theorem add_amd64_eq_generic (a b : Bytes) (h : a.length = b.length) :
    sodium_add_amd64 a b = sodium_add_generic a b := by
  unfold sodium_add_amd64
  split
  · exact add_asm12_eq a b ‹_› (by omega)
  · split
    · exact add_asm24_eq a b ‹_› (by omega)
    · split
      · exact add_asm8_eq a b ‹_› (by omega)
      · rfl

theorem sub_amd64_eq_generic (a b : Bytes) (h : a.length = b.length) :
    sodium_sub_amd64 a b = sodium_sub_generic a b := by
  unfold sodium_sub_amd64
  split
  · exact sub_asm64_eq a b ‹_› (by omega)
  · rfl

/-- `sodium_increment` on every code path: little-endian +1 modulo 2^(8 len) -/
theorem increment_exact (n : Bytes) :
    (sodium_increment_amd64 n).length = n.length ∧
    le (sodium_increment_amd64 n) = (le n + 1) % 2 ^ (8 * n.length) := by
  rw [increment_amd64_eq_generic]; exact increment_generic_exact n

theorem add_exact (a b : Bytes) (h : a.length = b.length) :
    (sodium_add_amd64 a b).length = a.length ∧
    le (sodium_add_amd64 a b) = (le a + le b) % 2 ^ (8 * a.length) := by
  rw [add_amd64_eq_generic a b h]; exact add_generic_exact a b h

theorem sub_exact (a b : Bytes) (h : a.length = b.length) :
    (sodium_sub_amd64 a b).length = a.length ∧
    le (sodium_sub_amd64 a b) = (le a + 2 ^ (8 * a.length) - le b) % 2 ^ (8 * a.length) := by
  rw [sub_amd64_eq_generic a b h]; exact sub_generic_exact a b h

/-- wiping zeroes exactly the requested bytes of a flat memory -/
theorem memzero_exact (mem : Bytes) (off len : Nat) (h : off + len ≤ mem.length) :
    (memzeroAt mem off len).length = mem.length ∧
    (memzeroAt mem off len).take off = mem.take off ∧
    ((memzeroAt mem off len).drop off).take len = zeros len ∧
    (memzeroAt mem off len).drop (off + len) = mem.drop (off + len) := by
  have hm : min len (mem.length - off) = len := by omega
  have ht : (mem.take off).length = off := by simp; omega
  refine ⟨?_, ?_, ?_, ?_⟩
  · simp [memzeroAt, zeros]; omega
  · simp [memzeroAt, hm, ht]
  · simp only [memzeroAt, hm, List.append_assoc]
    rw [List.drop_left' ht, List.take_left' (by simp [zeros])]
  · simp only [memzeroAt, hm]
    rw [List.drop_left' (by simp [zeros, ht])]

/-! non-vacuity: concrete states meeting the hypotheses -/
example : sodium_compare [0xff, 0x00] [0x00, 0x01] = -1 := by decide
example : sodium_increment_amd64 [0xff,0xff,0xff,0xff,0xff,0xff,0xff,0xff,0xff,0xff,0xff,0xff]
    = [0,0,0,0,0,0,0,0,0,0,0,0] := by decide
example : sodium_memcmp [1,2,3] [1,2,4] = -1 ∧ sodium_memcmp [1,2,3] [1,2,3] = 0 := by decide

end Sodium.C14
