import SodiumModel.Proofs.RistrettoRef10
/-
  C07 (maps) — the FIELD-LEVEL Ristretto255 and Elligator 2 / hash-to-curve code of
  crypto_core/ed25519/ref10/ed25519_ref10.c, core_ristretto255.c, core_ed25519.c and
  scalarmult_ristretto255_ref10.c, modelled statement by statement over an abstract field in
  `Model/RistrettoRef10.lean`, computes the functions of RFC 9496 (`Spec/Ristretto255.lean`) and
  RFC 9380 (`Spec/H2c.lean`) when the field is GF(2^255-19) (`specOps`: `Spec.F25519` over `Nat`,
  canonical representatives) and the group primitives (`ge25519_p3_add/_sub`, the doublings of
  `ge25519_clear_cofactor`, `ge25519_scalarmult[_base]`, `ge25519_p3_tobytes`) are the RFC 8032
  formulas of `Spec/Ed25519.lean` (`specGe`).  For ALL inputs; the only hypotheses are buffer lengths.

  Points are compared COORDINATE-WISE (X, Y, Z, T as canonical naturals), not just projectively.
  Property theorems only; helper lemmas live in `Proofs/RistrettoRef10.lean`.
-/
open Sodium Sodium.Model Sodium.Spec Sodium.Model.RistrettoRef10
open Sodium.Model.LadderRef10 (P3)
namespace Sodium.C07Maps

/-! ### the tables of fe_51/constants.h are the constants of the RFCs -/

/-- the ten limb tables transcribed from fe_51/constants.h denote the RFC 8032 / 9496 / 9380 constants -/
theorem constants_eq :
    specOps.const fe25519_sqrtm1 = F25519.sqrtM1 ∧
    specOps.const ed25519_d = Ed25519.d ∧
    specOps.const ed25519_d2 = F25519.mul 2 Ed25519.d ∧
    specOps.const ed25519_A = H2c.montA ∧ ed25519_A_32.toNat = H2c.montA ∧
    specOps.const ed25519_sqrtam2 = H2c.sqrtNeg486664 ∧
    specOps.const ed25519_sqrtadm1 = Ristretto.sqrtAdMinusOne ∧
    specOps.const ed25519_invsqrtamd = Ristretto.invsqrtAMinusD ∧
    specOps.const ed25519_onemsqd = Ristretto.oneMinusDSq ∧
    specOps.const ed25519_sqdmone = Ristretto.dMinusOneSq :=
  ⟨RistrettoRefP.const_sqrtm1, RistrettoRefP.const_d_ed, RistrettoRefP.const_d2, RistrettoRefP.const_A,
   RistrettoRefP.const_A_32, RistrettoRefP.const_sqrtam2, RistrettoRefP.const_sqrtadm1,
   RistrettoRefP.const_invsqrtamd, RistrettoRefP.const_onemsqd, RistrettoRefP.const_sqdmone⟩

/-- the constants are what their names say: sqrt(-1)² = -1, sqrt(a·d-1)² = -d-1, (1/sqrt(a-d))²·(-1-d) = 1,
    sqrt(-486664)² = -486664 -/
theorem constants_meaning :
    F25519.sqr F25519.sqrtM1 = F25519.neg 1 ∧
    F25519.sqr Ristretto.sqrtAdMinusOne = F25519.sub (F25519.neg Ed25519.d) 1 ∧
    F25519.mul (F25519.sqr Ristretto.invsqrtAMinusD) (F25519.sub (F25519.neg 1) Ed25519.d) = 1 ∧
    F25519.sqr H2c.sqrtNeg486664 = F25519.neg 486664 := by decide +kernel

/-! ### (3) ristretto255_sqrt_ratio_m1 = SQRT_RATIO_M1 (RFC 9496 §4.2) -/

/-- `fe25519_pow22523` (the 254-squaring addition chain) is z ↦ z^((p-5)/8) -/
theorem pow22523_eq (z : Nat) : fe25519_pow22523 specOps z = F25519.pow z ((F25519.p - 5) / 8) :=
  RistrettoRefP.pow22523_eq z

/-- `ristretto255_sqrt_ratio_m1(x, u, v)` returns `was_square` (as 0/1) and stores the non-negative root
    of SQRT_RATIO_M1(u, v), for ALL naturals u, v (reduced or not).  The C code multiplies in a different
    order (`v3² · u · v`, `pow · v3 · u`, `vxx - u == 0` instead of `check == u`, …); the results are equal
    as canonical representatives. -/
theorem sqrt_ratio_m1_eq (u v : Nat) :
    ristretto255_sqrt_ratio_m1 specOps u v =
      (RistrettoRefP.b2i (F25519.sqrtRatioM1 u v).1, (F25519.sqrtRatioM1 u v).2) :=
  RistrettoRefP.sqrt_ratio_m1_eq u v

/-- `fe25519_abs` is CT_ABS on canonical representatives -/
theorem abs_eq (h : Nat) (hh : h < F25519.p) : fe25519_abs specOps h = F25519.abs h :=
  RistrettoRefP.abs_eq hh

/-! ### (1) ristretto255_frombytes = DECODE (RFC 9496 §4.3.1) -/

/-- `ristretto255_is_canonical(s)` is 1 exactly when the 256-bit little-endian integer is below p
    and even (s < p ∧ ¬IS_NEGATIVE(s)) -/
theorem is_canonical_eq (s : Bytes) (hs : s.length = 32) :
    ristretto255_is_canonical s =
      RistrettoRefP.b2i (!(decide (le s ≥ F25519.p) || F25519.isNegative (le s))) :=
  RistrettoRefP.is_canonical_eq s hs

/-- for EVERY 32-byte string: `ristretto255_frombytes` returns 0 exactly when DECODE succeeds, and then
    the structure `*h` holds exactly the coordinates (X, Y, Z, T) of the decoded point (coordinate-wise
    equality of canonical representatives, Z = 1); otherwise it returns -1 -/
theorem frombytes_eq_decode (h0 : P3 Nat) (s : Bytes) (hs : s.length = 32) :
    match Ristretto.decode s with
    | some P => ristretto255_frombytes specOps h0 s = (0, ofPoint P)
    | none => (ristretto255_frombytes specOps h0 s).1 = -1 :=
  RistrettoRefP.frombytes_eq h0 s hs

/-- the return value alone: 0 iff DECODE succeeds, else -1 -/
theorem frombytes_rc (h0 : P3 Nat) (s : Bytes) (hs : s.length = 32) :
    (ristretto255_frombytes specOps h0 s).1 = if (Ristretto.decode s).isSome then 0 else -1 := by
  have h := RistrettoRefP.frombytes_eq h0 s hs
  cases hd : Ristretto.decode s with
  | none => rw [hd] at h; simpa using h
  | some P => rw [hd] at h; simp [h]

/-- a non-canonical encoding is rejected before `*h` is written -/
theorem frombytes_noncanonical (h0 : P3 Nat) (s : Bytes) (hs : s.length = 32)
    (hc : (decide (le s ≥ F25519.p) || F25519.isNegative (le s)) = true) :
    ristretto255_frombytes specOps h0 s = (-1, h0) :=
  RistrettoRefP.frombytes_noncanonical h0 s hs hc

/-! ### (2) ristretto255_p3_tobytes = ENCODE (RFC 9496 §4.3.2) -/

/-- for EVERY representation (X, Y, Z, T) — any naturals, on the curve or not — -/
theorem p3_tobytes_eq_encode (h : P3 Nat) :
    ristretto255_p3_tobytes specOps h = Ristretto.encode (toPoint h) :=
  RistrettoRefP.p3_tobytes_eq h

/-! ### (4) ristretto255_elligator = MAP, ristretto255_from_hash = the one-way map (RFC 9496 §4.3.4) -/

/-- coordinate-wise, for every natural t -/
theorem elligator_eq_map (t : Nat) : toPoint (ristretto255_elligator specOps t) = Ristretto.map t :=
  RistrettoRefP.elligator_eq t

/-- `ristretto255_from_hash` (and `crypto_core_ristretto255_from_hash`, which returns 0) -/
theorem from_hash_eq (h : Bytes) :
    crypto_core_ristretto255_from_hash specOps specGe h = (0, Ristretto.fromUniform h) := by
  rw [crypto_core_ristretto255_from_hash, RistrettoRefP.from_hash_eq]

/-! ### (6) wrappers of core_ristretto255.c and scalarmult_ristretto255_ref10.c -/

theorem is_valid_point_eq (h0 : P3 Nat) (p : Bytes) (hp : p.length = 32) :
    crypto_core_ristretto255_is_valid_point specOps h0 p = if Ristretto.isValidPoint p then 1 else 0 :=
  RistrettoRefP.is_valid_point_eq h0 p hp

/-- `crypto_core_ristretto255_add`: -1 and an untouched output buffer iff an operand does not decode -/
theorem core_add_eq (h0 : P3 Nat) (r0 p q : Bytes) (hp : p.length = 32) (hq : q.length = 32) :
    crypto_core_ristretto255_add specOps specGe h0 r0 p q =
      match Ristretto.coreAdd p q with
      | some r => (0, r)
      | none => (-1, r0) :=
  RistrettoRefP.core_add_eq h0 r0 p q hp hq

theorem core_sub_eq (h0 : P3 Nat) (r0 p q : Bytes) (hp : p.length = 32) (hq : q.length = 32) :
    crypto_core_ristretto255_sub specOps specGe h0 r0 p q =
      match Ristretto.coreSub p q with
      | some r => (0, r)
      | none => (-1, r0) :=
  RistrettoRefP.core_sub_eq h0 r0 p q hp hq

/-- `crypto_core_ristretto255_random` is the one-way map applied to 64 bytes of `randombytes_buf` -/
theorem random_eq (rb : Nat → Bytes) :
    crypto_core_ristretto255_random specOps specGe rb = Ristretto.fromUniform (rb 64) := by
  rw [crypto_core_ristretto255_random, from_hash_eq]

/-- `crypto_scalarmult_ristretto255`: 0 and q iff the specification returns q; -1 otherwise (invalid p,
    or the result is the identity, whose encoding is all-zero) -/
theorem scalarmult_eq (h0 : P3 Nat) (q0 n p : Bytes) (hn : n.length = 32) (hp : p.length = 32) :
    match Ristretto.scalarmult n p with
    | some q => crypto_scalarmult_ristretto255 specOps specGe h0 q0 n p = (0, q)
    | none => (crypto_scalarmult_ristretto255 specOps specGe h0 q0 n p).1 = -1 :=
  RistrettoRefP.scalarmult_eq h0 q0 n p hn hp

theorem scalarmult_base_eq (n : Bytes) (hn : n.length = 32) :
    match Ristretto.scalarmultBase n with
    | some q => crypto_scalarmult_ristretto255_base specOps specGe n = (0, q)
    | none => (crypto_scalarmult_ristretto255_base specOps specGe n).1 = -1 :=
  RistrettoRefP.scalarmult_base_eq n hn

/-! ### (5) the Ed25519 Elligator 2 path (RFC 9380 §6.7.1, §6.8, Appendix D.1; `Spec/H2c.lean`)

  These theorems use that p = 2^255 - 19 is PRIME (`Proofs/Prime25519.lean`, a Pratt certificate checked
  by the kernel): Euler's criterion, `inv a = 0 ↔ a = 0`, and the Elligator 2 argument that g(x2) is a
  square whenever g(x1) is not. -/

/-- `fe25519_notsquare` (addition chain for x^((p-1)/2), then bit 0 of byte 1 of the encoding) is the
    negation of RFC 9380 `is_square` (0 counts as a square) -/
theorem notsquare_eq (x : Nat) :
    fe25519_notsquare specOps x = if F25519.isSquare x then 0 else 1 := by
  rw [RistrettoRefP.notsquare_eq]; generalize F25519.isSquare x = b; cases b <;> rfl

/-- `fe25519_sqrt(x, x2)`: return value 0 and the root of the RFC 8032 procedure when x2 is a square,
    -1 (and the candidate x2^((p+3)/8)) otherwise.  `fe25519_unchecked_sqrt` tests the flipped sign first
    (`m_root² == x2`), the specification the other one; they agree (both tests hold only for x2 = 0). -/
theorem sqrt_eq (a : Nat) :
    (∀ x, F25519.sqrt a = some x → fe25519_sqrt specOps a = (0, x)) ∧
    (F25519.sqrt a = none →
      fe25519_sqrt specOps a = (-1, F25519.pow (a % F25519.p) ((F25519.p + 3) / 8))) := by
  have h := RistrettoRefP.sqrt_eq a
  constructor
  · intro x hx; rw [hx] at h; exact h
  · intro hn; rw [hn] at h; exact h

/-- `ge25519_mont_to_ed` is the rational map of RFC 9380 Appendix D.1 including its exceptional case
    ((x+1)·y = 0 ↦ (0, 1), realised in C by `fe25519_invert(0) = 0` and the final `cmov`) -/
theorem mont_to_ed_eq (x y : Nat) : ge25519_mont_to_ed specOps x y = H2c.montToEdwards x y :=
  RistrettoRefP.mont_to_ed_eq x y

/-- `ge25519_elligator2` NEVER reaches `abort()`, and what it returns is RFC 9380
    `map_to_curve_elligator2` up to the sign of y, which the C code fixes in the caller:
    with (x, y, e) = `H2c.elligator2 r`, the C function yields the same x, a root y' with y = y' or
    y = -y' (namely y = `normY y' e`), and `notsquare` = ¬e. -/
theorem elligator2_eq (r : Nat) :
    ∃ y' : Nat, ge25519_elligator2 specOps r =
        some ((H2c.elligator2 r).1, y', RistrettoRefP.b2i (!(H2c.elligator2 r).2.2)) ∧
      (H2c.elligator2 r).2.1 = RistrettoRefP.normY y' (H2c.elligator2 r).2.2 := by
  refine ⟨(RistrettoRefP.ell2Raw r).2.1, ?_, ?_⟩
  · rw [RistrettoRefP.elligator2_eq, RistrettoRefP.spec_elligator2]
  · rw [RistrettoRefP.spec_elligator2]

/-- `fe25519_reduce64`: the 64 bytes as a little-endian integer, modulo p (2^255 ≡ 19, 2^256 ≡ 38,
    2^511 ≡ 722: the three constants of the C code) -/
theorem reduce64_eq (h : Bytes) (hh : h.length = 64) :
    fe25519_reduce64 specOps h = le (h.take 64) % F25519.p :=
  RistrettoRefP.reduce64_eq h hh

/-- `ge25519_from_hash` (behind `crypto_core_ed25519_from_string[_ro]`): never aborts, and is
    map_to_curve_elligator2_edwards25519 followed by clear_cofactor and encoding, with the sign of y
    chosen as RFC 9380 requires (`y_sign = notsquare ^ 1`) -/
theorem ge_from_hash_eq (h : Bytes) (hh : h.length = 64) :
    ge25519_from_hash specOps specGe h = some (H2c.fromHash64 h) :=
  RistrettoRefP.ge_from_hash_eq h hh

/-- `ge25519_from_uniform` / `crypto_core_ed25519_from_uniform` (libsodium's legacy 32-byte map): never
    aborts, returns 0; bit 255 of the input (`x_sign`) becomes the sign of the Edwards x, the low 255 bits
    go through Elligator 2.  The C code does NOT fix the sign of the Montgomery y first (the
    specification does); the result is the same because y ↦ -y only flips the Edwards x. -/
theorem ed_from_uniform_eq (r : Bytes) (hr : r.length = 32) :
    crypto_core_ed25519_from_uniform specOps specGe r = some (0, H2c.fromUniform r) := by
  rw [crypto_core_ed25519_from_uniform, RistrettoRefP.ge_from_uniform_spec r hr, Option.map_some]

/-- `crypto_core_ed25519_random` -/
theorem ed_random_eq (rb : Nat → Bytes) (hrb : (rb 32).length = 32) :
    crypto_core_ed25519_random specOps specGe rb = some (H2c.fromUniform (rb 32)) := by
  rw [crypto_core_ed25519_random, ed_from_uniform_eq _ hrb, Option.map_some]

/-- `ge25519_clear_cofactor` with the doubling of RFC 8032 is multiplication by 8 -/
theorem clear_cofactor_eq (P : P3 Nat) :
    ge25519_clear_cofactor specGe P = ofPoint (Ed25519.mulByCofactor (toPoint P)) :=
  RistrettoRefP.clear_cofactor_eq P

/-- p is prime -/
theorem p_prime : Nat.Prime F25519.p := Sodium.Prime25519.prime_p

/-! ### non-vacuity -/

/-- the generator's encoding decodes (rc 0), the all-ones string does not (rc -1) -/
example : (ristretto255_frombytes specOps RistrettoRef10.h0
    (Ristretto.encode Ristretto.generator)).1 = 0 := by decide +kernel
example : (ristretto255_frombytes specOps RistrettoRef10.h0 (List.replicate 32 0xff)).1 = -1 := by decide +kernel
/-- a canonical, non-negative s that is rejected by the was_square test (s = 2) -/
example : ristretto255_is_canonical (2 :: zeros 31) = 1 ∧
    (ristretto255_frombytes specOps RistrettoRef10.h0 (2 :: zeros 31)).1 = -1 := by decide +kernel
/-- both branches of Elligator 2 occur: g(x1) is a square for r = 1 and a non-square for r = 2 -/
example : (H2c.elligator2 1).2.2 = true ∧ (H2c.elligator2 2).2.2 = false := by decide +kernel
/-- the exceptional case of the rational map is reached by `ge25519_mont_to_ed` (y = 0) -/
example : ge25519_mont_to_ed specOps 5 0 = (0, 1) := by decide +kernel

end Sodium.C07Maps
